/-!
# Shared-state accesses of a Python function, and the publication discipline (C16, tie T)

`tools/gen_access.py` extracts from the Python `ast` of the anchored modules, per entry function (callees in
the same module / class inlined at the call site), the ordered list of accesses to shared state:
module globals that some function rebinds or mutates in place, and `self.<attr>` stores / loads.
Names are interned to numbers by the translator (the name table is emitted beside the data, for readers).

`disciplineOK` is the decidable shape the proved protocols of `Model/Conc.lean` assume:

* **D1 (lazy globals → `lazyStep` / `assignStep`)** a module global that is rebound by a function (lazily built)
  is never mutated in place, and when it is rebound to a local variable that local is not mutated afterwards
  (it is *complete* when published);
* **D2 (shared instances → `lookLocalStep`)** a method of a class with module-level shared instances never
  loads a `self.<attr>` after the same call path stored an argument-dependent value into it;
* **D3 (memo caches → `cacheStep`)** a module global that is mutated in place (and never rebound) is mutated
  only under a lock, and a function reads it at most once outside the lock.

It is a discipline, not equality with a pinned list: a rewrite that keeps it re-proves by `decide`.
Core Lean only.
-/
namespace AthlibVerif.Access

inductive Rhs
  | none | empty | localVar (l : Nat) | call | other
  deriving DecidableEq, Repr

inductive Acc
  | gRead (g : Nat) (locked : Bool)       -- any use of the value of module global `g`
  | gMutate (g : Nat) (locked : Bool)     -- `g[k] = v`, `del g[k]`, `g.pop(..)`, `g.update(..)`, … (also through an alias / parameter)
  | gRebind (g : Nat) (rhs : Rhs)         -- `global g; g = <rhs>`
  | lMutate (l : Nat)                     -- in-place mutation of a local variable
  | sStore (a : Nat) (argDep : Bool)      -- `self.a = e`; `argDep`: `e` depends on the call's arguments
  | sLoad (a : Nat)                       -- `self.a` read as data
  deriving DecidableEq, Repr

structure Fn where
  name : String
  shared : Bool          -- method of a class that has module-level (shared) instances
  accs : List Acc
  deriving Repr

def reboundIn (l : List Acc) : List Nat := l.filterMap fun | .gRebind g _ => some g | _ => none
def mutatedIn (l : List Acc) : List Nat := l.filterMap fun | .gMutate g _ => some g | _ => none
def rebound (fs : List Fn) : List Nat := fs.flatMap fun f => reboundIn f.accs
def mutated (fs : List Fn) : List Nat := fs.flatMap fun f => mutatedIn f.accs

/-- D1a: no in-place mutation of a global that is published by rebinding -/
def noMutateOfPublished (rb : List Nat) (l : List Acc) : Bool :=
  l.all fun | .gMutate g _ => !rb.contains g | _ => true

/-- D1b: a local that is published is not mutated afterwards -/
def completedLocals : List Acc → Bool
  | [] => true
  | .gRebind _ (.localVar v) :: rest => !rest.contains (.lMutate v) && completedLocals rest
  | _ :: rest => completedLocals rest

/-- D2: no load of `self.a` after an argument-dependent store to `self.a` on the same call path -/
def noScratchReadBack : List Acc → Bool
  | [] => true
  | .sStore a true :: rest => !rest.contains (.sLoad a) && noScratchReadBack rest
  | _ :: rest => noScratchReadBack rest

/-- D3a: in-place mutation of a (never rebound) global only under a lock -/
def lockedMutations (rb : List Nat) (l : List Acc) : Bool :=
  l.all fun | .gMutate g locked => rb.contains g || locked | _ => true

def unlockedReads (g : Nat) (l : List Acc) : Nat := (l.filter (· == .gRead g false)).length

/-- D3b: at most one read outside the lock -/
def singleRead (rb mu : List Nat) (l : List Acc) : Bool :=
  mu.all fun g => rb.contains g || decide (unlockedReads g l ≤ 1)

def fnOK (rb mu : List Nat) (f : Fn) : Bool :=
  noMutateOfPublished rb f.accs && completedLocals f.accs && (!f.shared || noScratchReadBack f.accs) &&
    lockedMutations rb f.accs && singleRead rb mu f.accs

def disciplineOK (fs : List Fn) : Bool := fs.all (fnOK (rebound fs) (mutated fs))

/-- the functions that break the discipline (driver / diagnostics) -/
def offenders (fs : List Fn) : List String :=
  (fs.filter fun f => !fnOK (rebound fs) (mutated fs) f).map (·.name)

end AthlibVerif.Access
