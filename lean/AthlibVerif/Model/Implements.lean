/-!
# `athlib/implements.py` — implement weights as an ordered rule list (data regenerated from the source)

All string work is done on `List Char` with structural recursion, so that the kernel can evaluate the
obligations (`decide +kernel`).
-/
namespace AthlibVerif.Implements

inductive Var | ev | g | ag deriving DecidableEq, Repr

/-- atomic tests of the source: `x == "s"`, `x in (...)`, `x >= "s"` (Python string order = code-point
    lexicographic), and the three tests of the masters clamp -/
inductive Atom
  | eq (v : Var) (s : String)
  | mem (v : Var) (l : List String)
  | ge (v : Var) (s : String)
  | vprefix                -- age_group[:1] == 'V'
  | vdigits                -- age_group[1:].isdigit()
  | vnumGe (n : Nat)       -- int(age_group[1:]) >= n
  deriving Repr

structure Rule where
  path : List (Bool × List Atom)     -- conjunction; each entry: polarity and a conjunction of atoms
  weight : String
  deriving Repr

structure Env where
  ev : List Char
  g : List Char
  ag : List Char

def Env.get (e : Env) : Var → List Char
  | .ev => e.ev | .g => e.g | .ag => e.ag

/-- lexicographic `a ≤ b` by code point -/
def leChars : List Char → List Char → Bool
  | [], _ => true
  | _ :: _, [] => false
  | a :: as, b :: bs => if a.toNat < b.toNat then true else if b.toNat < a.toNat then false else leChars as bs

def isDigitC (c : Char) : Bool := 48 ≤ c.toNat && c.toNat ≤ 57

/-- value of an ASCII digit string (`none` if empty or not all digits) -/
def natOf : List Char → Option Nat
  | [] => none
  | cs => if cs.all isDigitC then some (cs.foldl (fun n c => 10 * n + (c.toNat - 48)) 0) else none

def evalAtom (e : Env) : Atom → Bool
  | .eq v s => e.get v == s.toList
  | .mem v l => l.any (fun s => e.get v == s.toList)
  | .ge v s => leChars s.toList (e.get v)
  | .vprefix => e.ag.take 1 == ['V']
  | .vdigits => !(e.ag.drop 1).isEmpty && (e.ag.drop 1).all isDigitC
  | .vnumGe n => match natOf (e.ag.drop 1) with
    | some k => decide (n ≤ k)
    | none => false

def evalPath (e : Env) (p : List (Bool × List Atom)) : Bool :=
  p.all (fun c => (c.2.all (evalAtom e)) == c.1)

/-- leading label normalisations, applied in order -/
def applyRenames (rn : List (List Atom × String)) (e : Env) : Env :=
  rn.foldl (fun e r => if r.1.all (evalAtom e) then { e with ag := r.2.toList } else e) e

/-- `get_implement_weight`: the first rule whose path condition holds ("" if none) -/
def weight (rn : List (List Atom × String)) (rules : List Rule) (ev g ag : List Char) : List Char :=
  let e := applyRenames rn { ev := ev, g := g, ag := ag }
  match rules.find? (fun r => evalPath e r.path) with
  | some r => r.weight.toList
  | none => []

/-- drop trailing characters satisfying `p` -/
def dropEndWhileL (p : Char → Bool) (l : List Char) : List Char := (l.reverse.dropWhile p).reverse

/-- decimal text with the trailing zeros of the fraction (and a bare point) removed: `str(int(m))` when the
    mass is integral, else `str(float)` for a table text with at most two decimals -/
def collapse (w : List Char) : List Char :=
  if w.contains '.' then dropEndWhileL (· == '.') (dropEndWhileL (· == '0') w)
  else w

def isThrowGeneric (ev : List Char) : Bool :=
  ["SP", "HT", "JT", "DT", "WT"].any (fun s => ev == s.toList)

/-- does the mass count as kilograms (`mass < 99`)? -/
def isKg (w : List Char) : Bool :=
  match natOf (w.takeWhile (· != '.')) with
  | some n => n < 99
  | none => true

/-- `get_specific_event_code`: `none` models the `ValueError` of `float('')` when no weight is tabulated -/
def specificCode (rn : List (List Atom × String)) (rules : List Rule) (ev g ag : List Char) : Option (List Char) :=
  if !isThrowGeneric ev then some ev else
  let w := weight rn rules ev g ag
  if w.isEmpty then some ev else       -- no implement known for this age group: the generic code
  some (ev ++ collapse w ++ (if isKg w then ['K'] else []))

end AthlibVerif.Implements
