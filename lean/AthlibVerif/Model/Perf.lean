import AthlibVerif.Model.Codes
/-!
# `check_performance_for_discipline` (athlib/utils.py) — transcription of the validation cascade

For the default `prec=None`.  Exact decimal arithmetic; the model is *complete* on texts whose seconds
field has at most two decimals and for the multi-event / field / refusal branches; where the Python code
goes through binary floating point in a way the exact model cannot reproduce (more than two decimals to be
rounded by `%0.2f`, `str(float)` of duration races and custom events) the model answers `skip` and the
correspondence does not compare the line.
-/
namespace AthlibVerif.Perf
open AthlibVerif AthlibVerif.Codes

inductive Res
  | ok (s : Str)
  | refused            -- the caller's error class
  | skip               -- outside the exactly modelled sub-domain
  deriving Repr, DecidableEq

/-- which branch of the cascade handles the discipline -/
inductive Kind | xcBlank | durationRace | custom | field | multi | timed
  deriving Repr, DecidableEq

def replaceC (a b : Char) (s : Str) : Str := s.map (fun c => if c == a then b else c)

/-- the text after the French-comma and semicolon corrections -/
def cleanText (t0 : Str) : Str :=
  let t := strip t0
  let t := if t.contains ',' && !t.contains '.' then replaceC ',' '.' t else t
  if t.contains ';' then replaceC ';' ':' t else t

def kindOf (disc : Str) (t0 : Str) : Kind :=
  if strEq (lower disc) "xc" && (strip t0).isEmpty then .xcBlank
  else if (pyMatch "PAT_RACES_FOR_DISTANCE" disc).isSome then .durationRace
  else if strIn (upper disc) Gen.CUSTOM_EVENTS then .custom
  else if strIn disc Gen.FIELD_EVENTS || (pyMatch "PAT_THROWS" disc).isSome || (pyMatch "PAT_JUMPS" disc).isSome then .field
  else if strIn (upper disc) Gen.MULTI_EVENTS then .multi
  else .timed

/-- `float(text)` for `digits[.digits]` / `digits.` as (numerator, denominator = 10^decimals, decimals) -/
def floatOf (s : Str) : Option (Nat × Nat × Nat) :=
  if s.isEmpty then none else
  if (s.filter (· == '.')).length > 1 then none else
  let ip := s.takeWhile (· != '.')
  let fp := (s.dropWhile (· != '.')).drop 1
  if ip.isEmpty && fp.isEmpty then none else
  match (if ip.isEmpty then Except.ok 0 else pyInt ip), (if fp.isEmpty then Except.ok 0 else pyInt fp) with
  | .ok i, .ok f => some (i * 10 ^ fp.length + f, 10 ^ fp.length, fp.length)
  | _, _ => none

def twoDigits (n : Nat) : Str := [digitChar (n / 10 % 10), digitChar (n % 10)]

/-- `"%0.2f"` of a value given in hundredths -/
def fmt2 (centi : Nat) : Str := natStr (centi / 100) ++ ['.'] ++ twoDigits (centi % 100)
/-- `"%05.2f"` of a value in hundredths (below 100 s: zero-padded to two integer digits) -/
def fmt52 (centi : Nat) : Str :=
  (if centi / 100 < 10 then ['0'] else []) ++ fmt2 centi

/-- field events: record window and two-decimal rendering -/
def fieldRecords : List (String × Nat × Nat) :=   -- event, men's record, women's record (hundredths)
  [("HJ", 245, 209), ("LJ", 895, 752), ("TJ", 1829, 1550), ("PV", 616, 506), ("HT", 8674, 8298),
   ("DT", 7408, 7680), ("WT", 2457, 2250), ("SP", 2312, 2263), ("JT", 10480, 7228)]

/-- the record row of an event code: the code itself, else its leading capitals (the generic event of a weight-specific
    code: `SP7.26K` → `SP`) -/
def recordRow (disc : Str) : Option (String × Nat × Nat) :=
  match fieldRecords.find? (fun r => upper disc == r.1.toList) with
  | some r => some r
  | none => fieldRecords.find? (fun r => (upper disc).takeWhile (fun c => 'A' ≤ c && c ≤ 'Z') == r.1.toList)

def recordOf (disc gender : Str) : Option Nat :=
  match recordRow disc with
  | none => none
  | some r =>
    let g := lower gender
    if g == ['m'] then some r.2.1 else if g == ['f'] then some r.2.2 else some (max r.2.1 r.2.2)

/-- `record and distance > record * ulpc` with `ulpc = 1.2`; distance = n / d -/
def tooLarge (disc gender : Str) (n d : Nat) : Bool :=
  match recordOf disc gender with
  | some rec => decide (n * 100 * 5 > rec * 6 * d)
  | none => false

def checkField (disc t gender : Str) : Res :=
  match floatOf t with
  | none => .refused
  | some (n, d, decs) =>
    if decs > 2 then .skip       -- the record check applies to the distance rounded to hundredths (binary `round`): not modelled
    else if tooLarge disc gender n d then .refused
    else .ok (fmt2 (n * 100 / d))

def checkMulti (t : Str) : Res :=
  match pyInt t with
  | .error _ => .refused
  | .ok p => if p > 9999 then .refused else .ok (natStr p)

def startsWith (s : Str) (p : String) : Bool := s.take p.toList.length == p.toList

def splitOn (c : Char) (s : Str) : List Str :=
  (s.foldr (fun ch (acc : List Str) => if ch == c then [] :: acc else match acc with
    | [] => [[ch]]
    | a :: rest => (ch :: a) :: rest) [[]])

def joinWith (c : Char) (l : List Str) : Str := match l with
  | [] => []
  | a :: rest => rest.foldl (fun acc x => acc ++ [c] ++ x) a

/-- strip trailing zeros of the formatted time "except for short ones" -/
def stripTime (t : Str) : Str :=
  if t.length > 5 then
    let rec go : Nat → Str → Str
      | 0, s => s
      | fuel+1, s => if s.getLast? == some '0' && s.length > 4 then go fuel s.dropLast else s
    let s := go t.length t
    if s.getLast? == some '.' then s.dropLast else s
  else t

/-- what the timed branch decides before formatting -/
inductive TimedRes
  | time (hours minutes centi : Nat)
  | refused
  | skip
  deriving Repr, DecidableEq

def speedBad (dpos : Bool) (dval durN sd : Nat) : Bool :=
  dpos && (durN == 0 ||      -- a zero duration is "too fast" for any distance
    ((if dval ≤ 400 then decide (dval * sd > 11 * durN) else decide (dval * sd > 10 * durN)) ||
     decide (2 * dval * sd < durN)))

/-- the range, speed and cross-country checks on (hours, minutes, seconds = sn / sd) -/
def timedGuards (xc dpos : Bool) (dval hours minutes sn sd sdecs : Nat) : TimedRes :=
  if (hours > 0 || minutes > 0) && sn ≥ 60 * sd then .refused
  else if hours > 0 && minutes ≥ 60 then .refused
  else if sdecs > 2 then .skip      -- the speed checks apply to the time rounded to hundredths (binary `round`): not modelled
  else if speedBad dpos dval ((3600 * hours + 60 * minutes) * sd + sn) sd then .refused
  else if !(dpos && (3600 * hours + 60 * minutes) * sd + sn > 0) && xc && minutes == 0 && hours == 0 then .refused
  else .time hours minutes (sn * 100 / sd)

/-- the checks on the parsed fields: seconds = sn0 / sd0 with sdecs0 decimals -/
def timedDecide (disc : Str) (distance : Option Nat) (hours0 minutes0 sn0 sd0 sdecs0 : Nat) : TimedRes :=
  if minutes0 == 0 && sn0 ≥ 100 * sd0 then .refused else
  let dpos := match distance with | some d => d > 0 | none => false
  let xc := strEq (upper disc) "XC"
  -- the 400 m muddle: 63:40 instead of 63.40
  if distance == some 400 && minutes0 > 45 then
    if minutes0 * 100 * sd0 + sn0 ≥ 100 * (100 * sd0) then .refused      -- still "above 99 seconds"
    else timedGuards xc dpos (distance.getD 0) 0 0 (minutes0 * 100 * sd0 + sn0) (100 * sd0) (sdecs0 + 2)
  else timedGuards xc dpos (distance.getD 0) hours0 minutes0 sn0 sd0 sdecs0

/-- the timed branch up to the accepted (hours, minutes, hundredths of seconds) -/
def timedCore (disc t0 : Str) : TimedRes :=
  match getDistance 8 disc with
  | .error _ => .skip                     -- the Python raises something else here: outside the property's alphabet
  | .ok distance =>
    let t := if startsWith t0 "0:" then t0.drop 2 else t0
    let t := if startsWith t "00:" then t.drop 3 else t
    let dpos := match distance with | some d => d > 0 | none => false
    let dval := distance.getD 0
    let t := if dpos && dval ≤ 200 && t.contains ':' && !t.contains '.' then replaceC ':' '.' t else t
    let t := if dpos && dval ≥ 800 && t.contains '.' && !t.contains ':' then replaceC '.' ':' t else t
    let t := if strIn disc ["800", "1500", "3000"] && !t.contains '.' then
        (match splitOn ':' t with
          | [a, b, c] => a ++ [':'] ++ b ++ ['.'] ++ c
          | _ => t)
      else t
    let chunks := splitOn ':' t
    -- (hours, minutes, seconds as n/d with decs decimals)
    let parsed : Option (Nat × Nat × (Nat × Nat × Nat)) := match chunks with
      | [s] => (floatOf s).map (fun f => (0, 0, f))
      | [m, s] => match pyInt m, floatOf s with
        | .ok m, some f => some (0, m, f)
        | _, _ => none
      | [h, m, s] => match pyInt h, pyInt m, floatOf s with
        | .ok h, .ok m, some f => some (h, m, f)
        | _, _, _ => none
      | _ => none
    match parsed with
    | none => .refused
    | some (hours0, minutes0, (sn0, sd0, sdecs0)) => timedDecide disc distance hours0 minutes0 sn0 sd0 sdecs0

/-- "Format consistently for output" -/
def formatTime (hours minutes centi : Nat) : Str :=
  stripTime (if hours > 0 then natStr hours ++ [':'] ++ twoDigits minutes ++ [':'] ++ fmt52 centi
             else if minutes > 0 then natStr minutes ++ [':'] ++ fmt52 centi
             else fmt2 centi)

def checkTimed (disc t0 : Str) : Res :=
  match timedCore disc t0 with
  | .time h m c => .ok (formatTime h m c)
  | .refused => .refused
  | .skip => .skip

/-- `check_performance_for_discipline(discipline, text, gender)` with the default `prec=None` -/
def check (disc t0 gender : Str) : Res :=
  match kindOf disc t0 with
  | .xcBlank => .ok []
  | .durationRace => .skip
  | .custom => .skip
  | k =>
    let t := cleanText t0
    if (pyMatch "PAT_PERF" t).isNone then .refused
    else match k with
      | .field => checkField disc t gender
      | .multi => checkMulti t
      | _ => checkTimed disc t

end AthlibVerif.Perf
