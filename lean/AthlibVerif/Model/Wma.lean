import AthlibVerif.Model.Sym
import AthlibVerif.Gen.Patterns
import AthlibVerif.Model.WmaTypes
/-!
# WMA age grading (`athlib/wma/agegrader.py`, wrappers in `athlib/__init__.py`) — exact model

Exact rational arithmetic (core `Rat`) over tables of scaled integers.  The model is the REPAIRED
behaviour (see `fixes/wma-*.diff`): `world_best` normalises gender and event like `calculate_factor`;
the distance interpolation of factors returns the end row beyond either end of the run rows and clamps
its weight to `[0,1]`; an age exactly on a column reads that column only.  No Mathlib, no floats.
-/
namespace AthlibVerif.Wma

inductive Err
  | value        -- ValueError: unknown gender / event kind / event
  | noFactor     -- the table has null for this age (Python: TypeError on None)
  | noDistance   -- the code is not tabulated and carries no distance (Python: TypeError on None)
  | zeroDiv      -- ZeroDivisionError
  | noOpenBest   -- the combined-events table has no open bests
  | noRunRows    -- table without a "50" row (Python: IndexError)
  deriving Repr, DecidableEq

abbrev Res := Except Err Rat

/-- Bool test "the result is the value `q`" (`Except` has no `DecidableEq`; used by `decide`d examples) -/
def okEq (r : Res) (q : Rat) : Bool :=
  match r with
  | .ok x => x == q
  | .error _ => false

def errEq (r : Res) (e : Err) : Bool :=
  match r with
  | .ok _ => false
  | .error e' => e' == e

inductive Gender | m | f deriving Repr, DecidableEq

def Table.rows (t : Table) : Gender → List Row
  | .m => t.m
  | .f => t.f

def Table.kmQ (t : Table) (r : Row) : Rat := (r.km : Rat) / (t.kmScale : Rat)
def Table.bestQ (t : Table) (r : Row) : Rat := (r.best : Rat) / (t.bestScale : Rat)
def Table.facQ (t : Table) (x : Nat) : Rat := (x : Rat) / (t.facScale : Rat)

/-! ## spelling -/

def upper (s : String) : String := s.map Char.toUpper

/-- `AgeGrader.normalize_gender`: first letter, any case; everything else is refused -/
def normGender (g : String) : Except Err Gender :=
  match g.toList.head? with
  | some c => if c.toLower = 'm' then .ok .m else if c.toLower = 'f' then .ok .f else .error .value
  | none => .error .value

inductive Kind | throw | jump | track | road deriving Repr, DecidableEq

def Kind.timed : Kind → Bool
  | .track | .road => true
  | _ => false

/-- `event_code_to_kind`: first match over the regenerated patterns, on the code as given -/
def kindOfL (cs : List Char) : Option Kind :=
  if Gen.PAT_THROWS.matchesChars cs then some .throw
  else if Gen.PAT_JUMPS.matchesChars cs then some .jump
  else if Gen.PAT_TRACK.matchesChars cs then some .track
  else if Gen.PAT_ROAD.matchesChars cs then some .road
  else none

def kindOf (event : String) : Option Kind := kindOfL event.toList

/-! ## `get_distance` on an upper-cased run code (exact: floor of the exact product) -/

def digitsVal (ds : List Char) : Nat := ds.foldl (fun n c => 10 * n + (c.toNat - '0'.toNat)) 0

def getDistance (ev : String) : Option Nat :=
  if ev == "XC" then none
  else if ev == "MAR" then some 42195
  else if ev == "HM" then some 21098
  else if ev == "MILE" || ev == "CHUNDER-MILE" then some 1609
  else
    let cs := ev.toList
    let ip := cs.takeWhile Char.isDigit
    let rest := cs.dropWhile Char.isDigit
    if ip.isEmpty then none else
    let (fp, rest) := match rest with
      | '.' :: r => (r.takeWhile Char.isDigit, r.dropWhile Char.isDigit)
      | r => ([], r)
    let n := digitsVal (ip ++ fp)
    let den := 10 ^ fp.length
    let sfx := String.ofList rest
    if sfx == "" || sfx == "SC" || sfx == "H" || sfx == "W" then some (n / den)
    else if sfx == "K" || sfx == "KW" || sfx == "KMW" then some (1000 * n / den)
    else if sfx == "M" || sfx == "MI" || sfx == "MT" then some (1609 * n / den)
    else if sfx == "Y" || sfx == "YD" then some (9144 * n / (10000 * den))
    else none

/-! ## ages -/

/-- `find_age` (repaired): `(ax, ax1, page)`.  First column with `ages[i] ≥ age`; strictly between two
    columns interpolate; exactly on a column read it alone; clamp at both ends; a falsy age means 29. -/
def findAge (ages : List Nat) (age : Rat) : Nat × Nat × Rat :=
  let age := if age = 0 then 29 else age
  let na := ages.length
  let i := ages.findIdx (fun (a : Nat) => decide (age ≤ (a : Rat)))
  if i = 0 then (0, 0, 0)
  else if i < na then
    let a1 : Rat := (ages.getD i 0 : Nat)
    let a0 : Rat := (ages.getD (i - 1) 0 : Nat)
    if a1 = age then (i, i, 0) else (i - 1, i, (age - a0) / (a1 - a0))
  else (na - 1, na - 1, 0)

/-- linear interpolation `(1 − p)·x + p·y` -/
def lerp (p x y : Rat) : Rat := (1 - p) * x + p * y

/-- a row's factor at an age: interpolation between the two columns `find_age` selects -/
def rowFactor (t : Table) (r : Row) (age : Rat) : Res :=
  let a := findAge t.ages age
  match r.facs.getD a.1 none, r.facs.getD a.2.1 none with
  | some x, some y => .ok (lerp a.2.2 (t.facQ x) (t.facQ y))
  | _, _ => .error .noFactor

/-! ## rows by distance -/

/-- index of the `"50"` row: the scan skips field events and walks, "we know runs are at the end" -/
def runStart (rows : List Row) : Nat := rows.findIdx (fun r => r.event == "50")

/-- first row at or after `runStart` whose distance is not below `d` (km), or `rows.length` -/
def scanIdx (t : Table) (rows : List Row) (d : Rat) : Nat :=
  runStart rows + (rows.drop (runStart rows)).findIdx (fun r => decide (d ≤ t.kmQ r))

/-- `find_row_by_distance`: the linear scan starting at row `"50"`; `(fx, fx1, pfac)` -/
def rowByDistance (t : Table) (rows : List Row) (dist : Nat) : Except Err (Nat × Nat × Rat) :=
  if runStart rows = rows.length then .error .noRunRows else
  let d : Rat := (dist : Rat) / 1000
  let i := scanIdx t rows d
  let nt := rows.length
  if i = 0 then .ok (0, 0, 0)
  else if i < nt then
    let k0 := t.kmQ (rows.getD (i - 1) default)
    let k1 := t.kmQ (rows.getD i default)
    if k1 = k0 then .error .zeroDiv else .ok (i - 1, i, (d - k0) / (k1 - k0))
  else .ok (nt - 1, nt - 1, 0)

def clamp01 (x : Rat) : Rat := if x < 0 then 0 else if 1 < x then 1 else x

/-- the fall-back of `calculate_factor` (repaired): interpolate the bracket rows' factors by the
    metres `get_distance` gives for their names; beyond either end use the end row -/
def factorByDistance (t : Table) (rows : List Row) (age : Rat) (dist : Nat) : Res :=
  match rowByDistance t rows dist with
  | .error e => .error e
  | .ok (fx, fx1, _) =>
    let rs := rows.getD fx default
    let rl := rows.getD fx1 default
    match getDistance rs.event with
    | none => rowFactor t rl age
    | some ds =>
      match rowFactor t rs age with
      | .error e => .error e
      | .ok fs =>
        match getDistance rl.event with
        | none => .ok fs
        | some dl =>
          if dl = ds then .ok fs else
          match rowFactor t rl age with
          | .error e => .error e
          | .ok fl => .ok (lerp (clamp01 (((dist : Rat) - (ds : Rat)) / ((dl : Rat) - (ds : Rat)))) fs fl)

/-- speed-interpolated open best: `dist / (v_l + (1 − pfac)·(v_s − v_l))`, speeds in m/s -/
def interpBest (dist pfac kmS bS kmL bL : Rat) : Rat :=
  let vs := kmS * 1000 / bS
  let vl := kmL * 1000 / bL
  dist / (vl + (1 - pfac) * (vs - vl))

def bestByDistance (t : Table) (rows : List Row) (dist : Nat) : Res :=
  match rowByDistance t rows dist with
  | .error e => .error e
  | .ok (fx, fx1, pfac) =>
    let rs := rows.getD fx default
    let rl := rows.getD fx1 default
    if rs.best = 0 ∨ rl.best = 0 ∨ t.bestScale = 0 then .error .zeroDiv else
    let vs := t.kmQ rs * 1000 / t.bestQ rs
    let vl := t.kmQ rl * 1000 / t.bestQ rl
    if vl + (1 - pfac) * (vs - vl) = 0 then .error .zeroDiv
    else .ok (interpBest (dist : Rat) pfac (t.kmQ rs) (t.bestQ rs) (t.kmQ rl) (t.bestQ rl))

/-! ## the three observables on a single-event table
`hint`: metres the harness observed from `get_distance` when binary floating point made
`int(1000*float(q))` differ from the exact floor (never used otherwise). -/

def distOf (ev : String) (hint : Option Nat) : Option Nat :=
  match hint with
  | some d => some d
  | none => getDistance ev

/-- after spelling normalisation: gender, upper-case event -/
def factorCore (t : Table) (g : Gender) (age : Rat) (ev : String) (hint : Option Nat) : Res :=
  match (t.rows g).find? (fun r => r.event == ev) with
  | some r => rowFactor t r age
  | none =>
    match distOf ev hint with
    | none => .error .noDistance
    | some dist => factorByDistance t (t.rows g) age dist

def bestCore (t : Table) (g : Gender) (ev : String) (hint : Option Nat) : Res :=
  match (t.rows g).find? (fun r => r.event == ev) with
  | some r => .ok (t.bestQ r)
  | none =>
    match distOf ev hint with
    | none => .error .noDistance
    | some dist => bestByDistance t (t.rows g) dist

/-- `(open best / factor) / time` for timed kinds, `mark / (open best / factor)` for field kinds -/
def gradeOf (timed : Bool) (best fac perf : Rat) : Res :=
  if fac = 0 then .error .zeroDiv else
  let std := best / fac
  if timed then (if perf = 0 then .error .zeroDiv else .ok (std / perf))
  else (if std = 0 then .error .zeroDiv else .ok (perf / std))

def gradeCore (t : Table) (g : Gender) (age : Rat) (ev : String) (timed : Bool) (perf : Rat) (hint : Option Nat) : Res :=
  match bestCore t g ev hint with
  | .error e => .error e
  | .ok b =>
    match factorCore t g age ev hint with
    | .error e => .error e
    | .ok f => gradeOf timed b f perf

/-- `AgeGrader.calculate_factor(gender, age, event)` -/
def factor (t : Table) (gender : String) (age : Rat) (event : String) (hint : Option Nat := none) : Res :=
  match kindOf event with
  | none => .error .value
  | some _ =>
    match normGender gender with
    | .error e => .error e
    | .ok g => factorCore t g age (upper event) hint

/-- `AgeGrader.world_best(gender, event)` (repaired: same normalisation as `calculate_factor`) -/
def best (t : Table) (gender : String) (event : String) (hint : Option Nat := none) : Res :=
  match kindOf event with
  | none => .error .value
  | some _ =>
    match normGender gender with
    | .error e => .error e
    | .ok g => bestCore t g (upper event) hint

/-- `AgeGrader.calculate_age_grade(gender, age, event, performance)`, `perf` the parsed performance -/
def grade (t : Table) (gender : String) (age : Rat) (event : String) (perf : Rat) (hint : Option Nat := none) : Res :=
  match kindOf event with
  | none => .error .value
  | some k =>
    match normGender gender with
    | .error e => .error e
    | .ok g => gradeCore t g age (upper event) k.timed perf hint

/-! ## combined events (`AthlonsAgeGrader.calculate_factor`): five-year bands, no interpolation -/

def athlonEvent (ev : String) : Except Err String :=
  if ev.endsWith "H" && !(ev == "LH" || ev == "SH" || ev == "60H") then
    let ds := (ev.toList.dropLast)
    if ds.isEmpty || !ds.all Char.isDigit then .error .value else
    let n := digitsVal ds
    if n ≤ 110 then .ok "SH" else if 200 ≤ n then .ok "LH" else .error .value
  else .ok ev

def athlonFactor (t : Table) (minAge : Nat) (gender : String) (age : Rat) (event : String) : Res :=
  if age < (minAge : Rat) then .ok 1 else
  match athlonEvent (upper event) with
  | .error e => .error e
  | .ok ev =>
    match normGender gender with
    | .error e => .error e
    | .ok g =>
      match (t.rows g).find? (fun r => r.event == ev) with
      | none => .error .value
      | some r =>
        let band : Nat := (age.floor.toNat / 5) * 5
        let a := findAge t.ages (band : Rat)
        match r.facs.getD a.2.1 none with
        | some x => .ok (t.facQ x)
        | none => .error .noFactor

end AthlibVerif.Wma
