import AthlibVerif.Model.Sym
import AthlibVerif.Model.Match
import AthlibVerif.Gen.GPatterns
import AthlibVerif.Gen.CodesData
/-!
# Event-code utilities of `athlib/utils.py` — transcription over `List Char`

`normalize_event_code` with its group normalisers, `discipline_sort_key`, `text_discipline_sort_key`,
`sort_by_discipline`, `get_distance`, `get_duration_event_time`, `unit_name`.
Every function returns `Except PyErr _` with the failure points of the Python code
(`ValueError` of `int()` / `.index`, `AttributeError` on `None`, `TypeError` of `int * None`,
`IndexError` of `split()[0]`).  Pattern matching is the capture-reporting matcher of `Model/Match.lean`
on the patterns regenerated from `athlib/codes.py`.
-/
namespace AthlibVerif.Codes
open AthlibVerif AthlibVerif.GRE

inductive PyErr | valueError | attributeError | typeError | indexError
  deriving Repr, DecidableEq

abbrev Str := List Char

def isSpaceC (c : Char) : Bool := Gen.spaceMask.testBit (symOf c)
def isDigitU (c : Char) : Bool := Gen.digitMask.testBit (symOf c)

/-- value of a decimal digit of any script (`None` for other characters) -/
def digitVal (c : Char) : Option Nat :=
  (Gen.digitBlocks.find? (fun b => b.1 ≤ c.toNat && c.toNat ≤ b.2)).map (fun b => (c.toNat - b.1) % 10)

def dropEndWhileL (p : Char → Bool) (l : Str) : Str := (l.reverse.dropWhile p).reverse
def strip (s : Str) : Str := dropEndWhileL isSpaceC (s.dropWhile isSpaceC)
def upperC (c : Char) : Char := if 97 ≤ c.toNat && c.toNat ≤ 122 then Char.ofNat (c.toNat - 32) else c
def lowerC (c : Char) : Char := if 65 ≤ c.toNat && c.toNat ≤ 90 then Char.ofNat (c.toNat + 32) else c
def upper (s : Str) : Str := s.map upperC
def lower (s : Str) : Str := s.map lowerC
def sub (s : Str) (a b : Nat) : Str := (s.drop a).take (b - a)
def removeSpace (s : Str) : Str := s.filter (fun c => !isSpaceC c)

/-- `int(text)` for the texts that occur here: a non-empty run of decimal digits (any script) -/
def pyIntStep (acc : Option Nat) (c : Char) : Option Nat :=
  match acc, digitVal c with
  | some n, some d => some (10 * n + d)
  | _, _ => none

def pyInt (s : Str) : Except PyErr Nat :=
  if s.isEmpty then .error .valueError else
  match s.foldl pyIntStep (some 0) with
  | some n => .ok n
  | none => .error .valueError

def pat (name : String) : GRE := ((Gen.gPatternTable.find? (·.1 == name)).map (·.2)).getD .eps
def groupId (patName grp : String) : Option Nat :=
  (Gen.gGroupNames.find? (·.1 == patName)).bind (fun e => (e.2.find? (·.1 == grp)).map (·.2))

/-- `PAT.match(s)` → captures -/
def pyMatch (name : String) (s : Str) : Option Caps := (matchFirst (pat name) (symsOf s)).map (·.2)
/-- `PAT.match(s)` for a prefix pattern → end of the match -/
def pyMatchEnd (name : String) (s : Str) : Option Nat := (matchFirst (pat name) (symsOf s)).map (·.1)
def group (s : Str) (caps : Caps) (id : Nat) : Option Str := (span caps id).map (fun se => sub s se.1 se.2)

/-! ## normalisation -/

/-- `_norm_tzeroes`: strip; if there is a point, drop the zeros of the fraction and a then-bare point -/
def normTz (s : Str) : Str :=
  let s := strip s
  if s.contains '.' then
    let t := dropEndWhileL (· == '0') s
    if t.getLast? == some '.' then t.dropLast else t
  else s

def dropLastIf (p : Char → Bool) (s : Str) : Str := match s.getLast? with
  | some c => if p c then s.dropLast else s
  | none => s

def applyNorm (k : Gen.NormKind) (s : Str) : Str :=
  match k with
  | .g => normTz (dropLastIf (fun c => lowerC c == 'g') s)
  | .cm => normTz (s.dropLast.dropLast) ++ ['c', 'm']
  | .m => normTz s.dropLast ++ ['m']
  | .kg => normTz (dropLastIf (fun c => lowerC c == 'k') (dropLastIf (fun c => lowerC c == 'g') s)) ++ ['K']

/-- replacements (start, end, text) for the normalised named groups of a match of `PAT_EVENT_CODE` -/
def replacements (c : Str) (caps : Caps) : List (Nat × Nat × Str) :=
  Gen.gnorms.filterMap (fun (nk : String × Gen.NormKind) =>
    match groupId "PAT_EVENT_CODE" nk.1 with
    | none => none
    | some id => match span caps id with
      | none => none
      | some se =>
        let s := strip (sub c se.1 se.2)
        if s.isEmpty then none else some (se.1, se.2, applyNorm nk.2 s))

/-- stable insertion by descending start -/
def insertDesc (r : Nat × Nat × Str) : List (Nat × Nat × Str) → List (Nat × Nat × Str)
  | [] => [r]
  | a :: rest => if a.1 < r.1 then r :: a :: rest else a :: insertDesc r rest

def splice (c : Str) (r : Nat × Nat × Str) : Str := c.take r.1 ++ r.2.2 ++ c.drop r.2.1

/-- `normalize_event_code` -/
def normalize (c0 : Str) : Except PyErr Str :=
  let c := strip c0
  match pyMatch "PAT_EVENT_CODE" c with
  | none => .error .valueError
  | some caps =>
    match pyMatch "PAT_RELAYS" c with
    | some rc =>
      let g1 := (group c rc 1).getD []
      let g2 := (group c rc 2).getD []
      .ok (removeSpace (g1 ++ ['x'] ++ upper g2))
    | none =>
      let reps := (replacements c caps).foldl (fun acc r => insertDesc r acc) []
      .ok (removeSpace (reps.foldl splice (upper c)))

/-! ## distances, durations, units -/

def strEq (s : Str) (t : String) : Bool := s == t.toList
def strIn (s : Str) (l : List String) : Bool := l.any (fun t => s == t.toList)

/-- exact decimal `qty` as (numerator, 10^decimals) of a text `digits [. digits]` -/
def decimalOf (s : Str) : Option (Nat × Nat) :=
  let ip := s.takeWhile (· != '.')
  let fp := (s.dropWhile (· != '.')).drop 1
  match pyInt ip, (if fp.isEmpty then Except.ok 0 else pyInt fp) with
  | .ok i, .ok f => some (i * 10 ^ fp.length + f, 10 ^ fp.length)
  | _, _ => none

/-- `discipline.split()[0]` -/
def firstToken (s : Str) : Except PyErr Str :=
  let t := s.dropWhile isSpaceC
  if t.isEmpty then .error .indexError else .ok (t.takeWhile (fun c => !isSpaceC c))

/-- `get_distance`, exact: `int(f * qty)` is the floor of the exact product (the float product can differ
    from it by one unit for non-integral `qty`; see the correspondence notes) -/
def getDistance : Nat → Str → Except PyErr (Option Nat)
  | 0, _ => .ok none
  | fuel+1, d0 =>
    match firstToken d0 with
    | .error e => .error e
    | .ok d =>
      if strEq d "XC" then .ok none
      else if strEq d "MAR" then .ok (some 42195)
      else if strEq d "HM" then .ok (some 21098)
      else if strIn d ["MILE", "CHUNDER-MILE"] then .ok (some 1609)
      else match pyMatch "PAT_RELAYS" d with
      | some rc =>
        let g2 := upper ((group d rc 2).getD [])
        if strIn g2 ["RELAY", "DMR", "SDMR"] then .ok none
        else if strEq g2 "SMR" then .ok (some 1600)
        else if strEq g2 "SSMR" then .ok (some 800)
        else if strEq g2 "SWR" then .ok (some 1000)
        else match pyInt ((group d rc 1).getD []), getDistance fuel g2 with
          | .ok legs, .ok (some leg) => .ok (some (legs * leg))
          | .ok _, .ok none => .error .typeError
          | .error e, _ => .error e
          | _, .error e => .error e
      | none =>
        let m := match pyMatchEnd "PAT_LEADING_FLOAT" d with
          | some e => some e
          | none => pyMatchEnd "PAT_LEADING_DIGITS" d
        match m with
        | none => .ok none
        | some e =>
          let qtyText := d.take e
          let remains := d.drop e
          match decimalOf (dropEndWhileL (· == '.') qtyText) with
          | none => .error .valueError
          | some (n, den) =>
            let times (num dnm : Nat) : Option Nat := some ((num * n) / (dnm * den))
            if remains.isEmpty then .ok (times 1 1)
            else if strIn (lower remains) ["sc", "h", "w"] || strIn remains ["m", "mH"] then .ok (times 1 1)
            else if strIn remains ["k", "K", "km"] then .ok (times 1000 1)
            else if strIn (lower remains) ["kw", "kmw"] then .ok (times 1000 1)
            else if strIn remains ["M", "Mi", "MI", "MT"] then .ok (times 1609 1)
            else if strIn remains ["Y", "y", "YD", "yd"] then .ok (times 9144 10000)
            else .ok none

/-- `get_duration_event_time` -/
def durationTime (dev0 : Str) : Except PyErr (Option Nat) :=
  let dev := (strip dev0).filter (· != ' ')
  match pyMatch "PAT_RACES_FOR_DISTANCE" dev with
  | none => .ok none
  | some caps =>
    match (groupId "PAT_RACES_FOR_DISTANCE" "dhours").bind (group dev caps) with
    | some t => if t.isEmpty then .ok none else (pyInt t).map (fun h => some (h * 3600))
    | none =>
      match (groupId "PAT_RACES_FOR_DISTANCE" "dmins").bind (group dev caps) with
      | some t => (pyInt t).map (fun m => some (m * 60))
      | none => .error .typeError

/-- `unit_name` -/
def unitName (ev : Str) : String :=
  if (pyMatch "PAT_JUMPS" ev).isSome then "metres"
  else if (pyMatch "PAT_THROWS" ev).isSome then "metres"
  else "seconds"

/-! ## programme order -/

def indexOf? (l : List String) (s : Str) : Option Nat := l.findIdx? (fun t => s == t.toList)

/-- `FIELD_SORT_ORDER.index(du[:3]) if du[:3] in FIELD_SORT_ORDER else FIELD_SORT_ORDER.index(du[:2])`
    (`long := true`: the throws branch tries `du[:4]` first) -/
def fieldOrder (long : Bool) (d : Str) : Except PyErr Nat :=
  let du := upper d
  match (if long then indexOf? Gen.FIELD_SORT_ORDER (du.take 4) else none) with
  | some i => .ok i
  | none =>
    match indexOf? Gen.FIELD_SORT_ORDER (du.take 3) with
    | some i => .ok i
    | none => match indexOf? Gen.FIELD_SORT_ORDER (du.take 2) with
      | some i => .ok i
      | none => .error .valueError

def endsWith (s : Str) (t : String) : Bool := t.toList.length ≤ s.length && s.drop (s.length - t.toList.length) == t.toList

/-- `discipline_sort_key`: (category, order-or-distance); the third component is the discipline itself -/
def sortKey (d : Str) : Except PyErr (Nat × Nat) :=
  if d.isEmpty then .ok (6, 0) else
  if (pyMatch "PAT_THROWS" d).isSome then (fieldOrder true d).map (fun o => (4, o))
  else match pyMatch "PAT_HURDLES" d with
  | some hc => match group d hc 1 with
    | some g => (pyInt g).map (fun n => (2, n))
    | none => .error .typeError
  | none =>
    if (pyMatch "PAT_JUMPS" d).isSome then (fieldOrder false d).map (fun o => (3, o))
    else match pyMatch "PAT_RELAYS" d with
    | some rc =>
      let g2 := (group d rc 2).getD []
      (match pyInt g2 with
        | .ok n => .ok (5, n)
        | .error _ => match getDistance 8 (upper g2) with
          | .ok (some n) => .ok (5, n)
          | .ok none => .ok (5, 0)
          | .error e => .error e)
    | none =>
      match pyMatch "PAT_TRACK" d with
      | some tc =>
        (match group d tc 1 with
          | none => match getDistance 8 d with
            | .ok (some n) => .ok (1, n)
            | .ok none => .ok (1, 0)
            | .error e => .error e
          | some g1 =>
            if strEq g1 "MILE" then .ok (1, 1609)
            else if endsWith g1 "MILE" then (pyInt (g1.take 1)).map (fun m => (1, 1609 * m))
            else (pyInt g1).map (fun n => (1, n)))
      | none => .ok (6, 0)

def digitChar0 (d : Nat) : Char := Char.ofNat (48 + d)
def natStrAux : Nat → Nat → Str → Str
  | 0, _, acc => acc
  | fuel+1, n, acc => if n / 10 = 0 then digitChar0 (n % 10) :: acc else natStrAux fuel (n / 10) (digitChar0 (n % 10) :: acc)
/-- decimal rendering (`str(int)`), structurally recursive so that the kernel can evaluate it -/
def natStr (n : Nat) : Str := natStrAux (n + 1) n []
/-- the five decimal digits of a number below 100000 -/
def pad5Digits (n : Nat) : List Nat := [n / 10000 % 10, n / 1000 % 10, n / 100 % 10, n / 10 % 10, n % 10]
def digitChar (d : Nat) : Char := Char.ofNat (48 + d)
/-- `"%05d"`: zero-padded to five digits; longer numbers are printed in full -/
def pad5 (n : Nat) : Str := if n < 100000 then (pad5Digits n).map digitChar else natStr n

/-- `text_discipline_sort_key`: `"%d_%05d_%s"` -/
def textKey (d : Str) : Except PyErr Str :=
  (sortKey d).map (fun k => natStr k.1 ++ ['_'] ++ pad5 k.2 ++ ['_'] ++ (if d.isEmpty then ['?'] else d))

/-- lexicographic `<` on code points -/
def ltChars : Str → Str → Bool
  | _, [] => false
  | [], _ :: _ => true
  | a :: as, b :: bs => if a.toNat < b.toNat then true else if b.toNat < a.toNat then false else ltChars as bs

/-- the full key of the sorter: (category, order, discipline) -/
def keyLt (a b : (Nat × Nat) × Str) : Bool :=
  a.1.1 < b.1.1 || (a.1.1 == b.1.1 && (a.1.2 < b.1.2 || (a.1.2 == b.1.2 && ltChars a.2 b.2)))

def insertSorted (x : (Nat × Nat) × Str) : List ((Nat × Nat) × Str) → List ((Nat × Nat) × Str)
  | [] => [x]
  | a :: rest => if keyLt x a then x :: a :: rest else a :: insertSorted x rest

abbrev Tagged := ((Nat × Nat) × Str) × Str

/-- stable insertion by the full key -/
def insTagged (x : Tagged) : List Tagged → List Tagged
  | [] => [x]
  | a :: rest => if keyLt x.1 a.1 then x :: a :: rest else a :: insTagged x rest

/-- `sort_by_discipline` on a list of codes: stable sort by the key (an error of any key propagates) -/
def sortBy (l : List Str) : Except PyErr (List Str) :=
  match l.mapM (fun d => (sortKey d).map (fun k => ((k, if d.isEmpty then ['?'] else d), d))) with
  | .error e => .error e
  | .ok tagged => .ok ((tagged.foldl (fun acc x => insTagged x acc) []).map (·.2))

end AthlibVerif.Codes
