import AthlibVerif.Model.Cal
/-!
# UK Athletics age groups (C13) — transcription of `athlib/uka/agegroups.py` and the rule-text Spec

`Uka.tf`, `Uka.xc`, `Uka.calc` transcribe `rule107_agegroups_trackandfield`,
`rule507_agegroups_crosscountry` and `calc_uka_age_group` line by line (ages are
`relativedelta(..).years`, i.e. `Cal.completedYears`).

`Uka.Spec` is written from the rule text kept in the same module (`rules = """..."""`), not from the
code: an athlete is *aged n* on a date when the n-th anniversary of the birth has been reached and
the (n+1)-th has not (`Spec.Aged`); the groups are the clauses (i)–(vi) of Rules 107 / 207 / 507.
-/
namespace AthlibVerif.Uka
open AthlibVerif.Cal

inductive Group where
  | u9 | u11 | u13 | u15 | u17 | u20 | sen
  | vet (band : Nat)          -- "V35", "V40", … : `band` is the number after the V
  deriving DecidableEq, Repr

/-- Python `"V%02d" % band` and the fixed labels -/
def Group.label : Group → String
  | .u9 => "U9" | .u11 => "U11" | .u13 => "U13" | .u15 => "U15" | .u17 => "U17" | .u20 => "U20"
  | .sen => "SEN"
  | .vet b => if b < 10 then s!"V0{b}" else s!"V{b}"

/-- youngest to oldest: U9 < U11 < U13 < U15 < U17 < U20 < SEN < V35 < V40 < … -/
def Group.rank : Group → Nat
  | .u9 => 0 | .u11 => 1 | .u13 => 2 | .u15 => 3 | .u17 => 4 | .u20 => 5 | .sen => 6
  | .vet b => 7 + b

/-- `int(age // 5) * 5` -/
def vetBand (age : Int) : Nat := (age / 5 * 5).toNat

/-- `prior_date(match_date, cutoff_month, cutoff_day)` -/
def priorDate (md : Date) (cm cd : Nat) : Date :=
  let x : Date := ⟨md.y, cm, cd⟩
  if md.lt x then ⟨md.y - 1, cm, cd⟩ else x       -- `if x > match_date`

/-- the decision list of `rule107_agegroups_trackandfield` on the three ages -/
def tfOfAges (a8 a12 aD : Int) (vets underage : Bool) : Group :=
  if underage ∧ a8 < 9 then .u9
  else if a8 < 11 then .u11
  else if a8 = 11 ∨ a8 = 12 then .u13
  else if a8 = 13 ∨ a8 = 14 then .u15
  else if a8 = 15 ∨ a8 = 16 then .u17
  else if a12 < 20 then .u20
  else if aD < 35 then .sen
  else if vets then .vet (vetBand aD)
  else .sen

/-- `rule107_agegroups_trackandfield(birth_date, match_date, vets, underage)` -/
def tf (b md : Date) (vets underage : Bool) : Group :=
  tfOfAges (completedYears b ⟨md.y, 8, 31⟩) (completedYears b ⟨md.y, 12, 31⟩) (completedYears b md)
    vets underage

/-- the decision list of `rule507_agegroups_crosscountry` on the two ages -/
def xcOfAges (a8 aD : Int) (vets underage : Bool) : Group :=
  if underage ∧ aD < 9 then .u9
  else if aD < 11 then .u11
  else if a8 = 10 ∨ a8 = 11 ∨ a8 = 12 then .u13
  else if a8 = 13 ∨ a8 = 14 then .u15
  else if a8 = 15 ∨ a8 = 16 then .u17
  else if a8 = 17 ∨ a8 = 18 ∨ a8 = 19 then .u20
  else if aD < 35 then .sen
  else if vets then .vet (vetBand aD)
  else .sen

/-- `rule507_agegroups_crosscountry(birth_date, match_date, vets, underage)` -/
def xc (b md : Date) (vets underage : Bool) : Group :=
  xcOfAges (completedYears b (priorDate md 8 31)) (completedYears b md) vets underage

inductive Res where
  | ok (g : Group) | notImplemented | valueError
  deriving DecidableEq, Repr

/-- `calc_uka_age_group(birth_date, match_date, category, vets, underage)` -/
def calcGroup (category : String) (b md : Date) (vets underage : Bool) : Res :=
  if category = "TF" then .ok (tf b md vets underage)
  else if category = "ROAD" ∨ category = "XC" then .ok (xc b md vets underage)
  else if category = "ESAA" then .notImplemented
  else .valueError

def Res.show : Res → String
  | .ok g => g.label | .notImplemented => "NotImplementedError" | .valueError => "ValueError"

/-! ## Specification, from the rule text -/
namespace Spec

/-- the n-th anniversary of a birth date; a 29 February birthday falls on 28 February in a common
    year (n may be negative: the floor convention extends to dates before the birth) -/
def anniv (b : Date) (n : Int) : Date :=
  ⟨b.y + n, b.m, if b.m = 2 ∧ b.d = 29 ∧ !isLeap (b.y + n) then 28 else b.d⟩

/-- "aged n on the date `on`" -/
def Aged (b on : Date) (n : Int) : Prop := (anniv b n).le on ∧ on.lt (anniv b (n + 1))

/-- the age as a number: whole part of (yyyymmdd(on) − yyyymmdd(birth)) / 10000, with the clipped
    birthday.  `ageOn_iff_aged` (Lemmas/Uka) shows `Aged b on n ↔ ageOn b on = n`. -/
def ageOn (b on : Date) : Int :=
  let bd : Nat := if b.m = 2 ∧ b.d = 29 ∧ !isLeap on.y then 28 else b.d
  ((on.y * 10000 + on.m * 100 + on.d) - (b.y * 10000 + b.m * 100 + bd)) / 10000

/-- masters: five-year bands from 35, on the age on the day of competition -/
def mastersBand (aD : Int) : Nat := (5 * (aD / 5)).toNat

/-- Rule 107 on the three ages: `a8` on the 31 August within the competition year, `a12` on the
    31 December of the calendar year of competition, `aD` on the day.
    (vi) masters ≥ 35 on the day; (v) senior: at least 20 on `dec`; (iv) 17 or over on `aug` but
    under 20 on `dec`; (iii)–(i) aged 15/16, 13/14, 11/12 on `aug`; under 11 on `aug` is not catered
    for by the rule: "U11", or "U9" below 9 when the organiser asks for under-age groups. -/
def list107 (a8 a12 aD : Int) (vets underage : Bool) : Group :=
  if vets ∧ aD ≥ 35 then .vet (mastersBand aD)
  else if a12 ≥ 20 then .sen
  else if a8 ≥ 17 then .u20
  else if a8 ≥ 15 then .u17
  else if a8 ≥ 13 then .u15
  else if a8 ≥ 11 then .u13
  else if underage ∧ a8 < 9 then .u9
  else .u11

/-- the 31 August within the competition year (1 October – 30 September) that contains `md`: for a
    meeting in October–December it is the 31 August of the following calendar year -/
def augWithinYear (md : Date) : Date := if md.m ≥ 10 then ⟨md.y + 1, 8, 31⟩ else ⟨md.y, 8, 31⟩

/-- Rule 107 (track and field) -/
def rule107 (b md : Date) (vets underage : Bool) : Group :=
  list107 (ageOn b (augWithinYear md)) (ageOn b ⟨md.y, 12, 31⟩) (ageOn b md) vets underage

/-- Rules 207 / 507 on the two ages: `a8` on the cut-off ("31st August prior to …"), `aD` on the day.
    (vi) masters ≥ 35 on the day; (v) at least 20 on `aug`; (iv)–(ii) 17/18/19, 15/16, 13/14 on
    `aug`; (i) "aged 11 on the day of competition or 12 on `aug`": from the 11th birthday on the day
    up to age 12 on `aug`; under 11 on the day is not catered for: "U11" / "U9". -/
def listRoadXc (a8 aD : Int) (vets underage : Bool) : Group :=
  if vets ∧ aD ≥ 35 then .vet (mastersBand aD)
  else if a8 ≥ 20 then .sen
  else if a8 ≥ 17 then .u20
  else if a8 ≥ 15 then .u17
  else if a8 ≥ 13 then .u15
  else if aD ≥ 11 then .u13
  else if underage ∧ aD < 9 then .u9
  else .u11

def roadXc (aug : Date) (b md : Date) (vets underage : Bool) : Group :=
  listRoadXc (ageOn b aug) (ageOn b md) vets underage

/-- the last 31 August on or before the day of competition — the cut-off the module documents
    (`prior_date`: "find the 31st August prior to match date") and applies to road and cross
    country alike; written here without reference to `priorDate` -/
def lastAug31 (md : Date) : Date :=
  if md.m ≥ 9 ∨ (md.m = 8 ∧ md.d = 31) then ⟨md.y, 8, 31⟩ else ⟨md.y - 1, 8, 31⟩

/-- the 31 August prior to the commencement of the competition year that contains `md`, when the
    competition year starts on the 1st of month `start` (the literal wording of Rules 207 / 507) -/
def augBeforeYearStart (start : Nat) (md : Date) : Date :=
  if md.m ≥ start then ⟨md.y, 8, 31⟩ else ⟨md.y - 1, 8, 31⟩

/-- Rule 507 / 207 with the module's reading of the cut-off (the one C13 fixes) -/
def rule507 (b md : Date) (vets underage : Bool) : Group := roadXc (lastAug31 md) b md vets underage
/-- Rule 207 (road) to the letter: competition year from 1 September -/
def rule207Literal (b md : Date) (vets underage : Bool) : Group :=
  roadXc (augBeforeYearStart 9 md) b md vets underage
/-- Rule 507 (cross country) to the letter: competition year from 1 October -/
def rule507Literal (b md : Date) (vets underage : Bool) : Group :=
  roadXc (augBeforeYearStart 10 md) b md vets underage

end Spec
end AthlibVerif.Uka
