import AthlibVerif.Model.Exact
import AthlibVerif.Model.Sym
import AthlibVerif.Gen.Patterns
/-!
# Combined-events scoring (`athlib/athlon_score.py`) — exact model

The model *is* the World Athletics formula in exact arithmetic on the decimal mark:
`points = ⌊A · |x − Z|^X⌋`, `x` the mark after the age factor, rounded up (times) or down (distances)
to 0.01.  Marks are `Nat` hundredths (`k` = 100·value); nothing here is a float.
-/
namespace AthlibVerif.Athlon

structure ScoreRow where
  gender : String
  event : String
  aN : Nat
  aD : Nat      -- A = aN / aD
  z100 : Nat    -- Z × 100 (Z in seconds, metres, or centimetres for jumps)
  xa : Nat
  xb : Nat      -- X = xa / xb
  deriving Repr, DecidableEq, Inhabited

inductive EvKind | jump | throw | track deriving Repr, DecidableEq

/-- first-match classification exactly as in `score()` -/
def kindOf (event : String) : EvKind :=
  if Gen.PAT_JUMPS.matchesChars event.toList then .jump
  else if Gen.PAT_THROWS.matchesChars event.toList then .throw
  else .track

/-- `|x − Z|` in hundredths of the table unit, on the scoring side of `Z` (0 on the other side) -/
def base (r : ScoreRow) (kind : EvKind) (k : Nat) : Nat :=
  match kind with
  | .jump => 100 * k - r.z100      -- table unit is the centimetre: x = k cm
  | .throw => k - r.z100           -- metres
  | .track => r.z100 - k           -- seconds

/-- points for the adjusted mark `k` (hundredths) -/
def points (r : ScoreRow) (kind : EvKind) (k : Nat) : Nat :=
  floorPow r.aN r.aD (base r kind k) 100 r.xa r.xb

/-- the mark after the age factor `fN / fD`, rounded to 0.01: up for times, down for distances -/
def adjust (kind : EvKind) (k fN fD : Nat) : Nat :=
  match kind with
  | .track => ceilDiv (k * fN) fD
  | _ => floorDiv (k * fN) fD

structure AgeData where
  minAge : Nat
  ages : List Nat
  scale : Nat
  m : List (String × List Nat)
  f : List (String × List Nat)
  deriving Repr, Inhabited

inductive Res
  | none                -- no score (unknown gender/event pair)
  | points (p : Nat)
  | valueError          -- the age grader refuses the event / gender
  | otherError
  deriving Repr, DecidableEq

inductive AgeErr | value | other deriving Repr, DecidableEq

def Res.ofErr : AgeErr → Res
  | .value => .valueError
  | .other => .otherError

def upper (s : String) : String := s.map Char.toUpper

/-- `AthlonsAgeGrader.calculate_factor`: `some (fN)` (scaled by `scale`), or an error -/
def ageFactor (d : AgeData) (gender : String) (age : Nat) (event : String) : Except AgeErr Nat :=
  if age < d.minAge then .ok d.scale else
  let ev := upper event
  let ev? : Except AgeErr String :=
    if ev.endsWith "H" && !(ev == "LH" || ev == "SH" || ev == "60H") then
      match (ev.dropEnd 1).toString.toNat? with
      | some n => if n ≤ 110 then .ok "SH" else if n ≥ 200 then .ok "LH" else .error .value
      | none => .error .value
    else .ok ev
  match ev? with
  | .error e => .error e
  | .ok ev =>
    let g := (gender.map Char.toLower).take 1 |>.toString
    let tbl? := if g == "m" then some d.m else if g == "f" then some d.f else none
    match tbl? with
    | none => .error (if g == "" then .other else .value)
    | some tbl =>
      match tbl.find? (·.1 == ev) with
      | none => .error .value
      | some row =>
        let band := age / 5 * 5
        let na := d.ages.length
        let i := d.ages.findIdx (fun a => band ≤ a)
        let ax1 := if i < na then i else na - 1
        match ax1 with
        | 0 => .error .other
        | j+1 => match row.2[j]? with
          | some f => .ok f
          | none => .error .other

def lookup (tbl : List ScoreRow) (gender event : String) : Option ScoreRow :=
  tbl.find? (fun r => upper (r.gender ++ "-" ++ r.event) == upper (gender ++ "-" ++ event))

/-- veterans' hurdles are scored as the standard distance -/
def remap (gender event : String) : String :=
  if gender == "F" && event == "80H" then "100H"
  else if gender == "M" && (event == "80H" || event == "100H") then "110H" else event

/-- `athlon_score(gender, event, k/100, age, esaa)`.
    Specification order: an unknown gender/event pair yields no score whatever the age (the property's
    clause); the implementation computes the age factor first and so raises for unknown pairs with a
    masters age — recorded as a known finding, not mirrored here. -/
def score (tbl : List ScoreRow) (esaaRow : ScoreRow) (d : AgeData)
    (gender event : String) (k : Nat) (age : Option Nat) (esaa : Bool) : Res :=
  let event' := remap gender event
  match lookup tbl gender event' with
  | none => .none
  | some row =>
    let fac : Except AgeErr Nat := match age with
      | none => .ok d.scale
      | some 0 => .ok d.scale
      | some a => ageFactor d gender a event
    match fac with
    | .error e => Res.ofErr e
    | .ok fN =>
      let row := if upper (gender ++ "-" ++ event') == "M-800" && esaa then esaaRow else row
      let kind := kindOf event'
      .points (points row kind (adjust kind k fN d.scale))

/-- `athlon_performance_needed` is the exact inverse on the 0.01 grid, found by bisection.
    track (points fall as `k` grows): invariant `points lo ≥ s > points hi`, answer `lo` -/
def neededTrack (r : ScoreRow) (s : Nat) (lo hi : Nat) : Nat :=
  if _h : lo + 1 < hi then
    let mid := (lo + hi) / 2
    if s ≤ points r .track mid then neededTrack r s mid hi else neededTrack r s lo mid
  else lo
termination_by hi - lo
decreasing_by all_goals omega

/-- field (points rise with `k`): invariant `points lo < s ≤ points hi`, answer `hi` -/
def neededField (r : ScoreRow) (kind : EvKind) (s : Nat) (lo hi : Nat) : Nat :=
  if _h : lo + 1 < hi then
    let mid := (lo + hi) / 2
    if s ≤ points r kind mid then neededField r kind s lo mid else neededField r kind s mid hi
  else hi
termination_by hi - lo
decreasing_by all_goals omega

/-- the zero-point mark in hundredths of a metre / second -/
def zeroK (r : ScoreRow) (kind : EvKind) : Nat :=
  match kind with
  | .jump => (r.z100 + 99) / 100
  | _ => r.z100

/-- an upper end for the field bisection: double until the target is reached (fuel-bounded) -/
def fieldHi (r : ScoreRow) (kind : EvKind) (s : Nat) : Nat → Nat → Nat
  | 0, hi => hi
  | fuel+1, hi => if s ≤ points r kind hi then hi else fieldHi r kind s fuel (2 * hi + 1)

inductive Needed
  | none                 -- unknown gender/event pair
  | mark (k : Nat)       -- hundredths
  | unreachable          -- no non-negative mark reaches the target
  deriving Repr, DecidableEq

/-- `athlon_performance_needed(gender, event, s)` in hundredths -/
def needed (tbl : List ScoreRow) (gender event : String) (s : Int) : Needed :=
  match lookup tbl gender event with
  | none => .none
  | some row =>
    let kind := kindOf event
    let s := s.toNat
    if s = 0 then .mark (zeroK row kind) else
    match kind with
    | .track =>
      if s ≤ points row kind 0 then .mark (neededTrack row s 0 (zeroK row kind)) else .unreachable
    | _ =>
      let lo := zeroK row kind - 1
      let hi := fieldHi row kind s 64 (zeroK row kind + 1)
      if s ≤ points row kind hi then .mark (neededField row kind s lo hi) else .unreachable

end AthlibVerif.Athlon
