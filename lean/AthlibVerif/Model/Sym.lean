import AthlibVerif.Model.Regex
import AthlibVerif.Gen.Alphabet
/-! code point → symbol of the generated alphabet; strings → symbol words -/
namespace AthlibVerif

def symOfNat (c : Nat) : Nat :=
  match Gen.symTable.find? (fun e => e.1 ≤ c && c ≤ e.2.1) with
  | some e => e.2.2
  | none => 0

def symOf (c : Char) : Nat := symOfNat c.toNat
def symsOf (s : List Char) : List Nat := s.map symOf

/-- the model of `PAT.match(s) is not None` for an anchored pattern -/
def RE.matchesChars (r : RE) (s : List Char) : Bool := r.accepts (symsOf s)

end AthlibVerif
