/-!
# L4 `Cal` — proleptic Gregorian dates and completed years (core Lean only)

`completedYears birth on` is what `dateutil.relativedelta(on, birth).years` returns for two
`datetime.date`s (dateutil 2.9, `relativedelta.__init__` with `dt1, dt2`):

* `months := 12*(y1-y2) + (m1-m2)`; `dtm := dt2 + months` with the day clipped to the month length;
* if `dt1 ≥ dt2`: one month is taken off when `dt1 < dtm`; `years = months div 12`
  (so a 29 February birthday counts on 28 February in common years);
* if `dt1 < dt2`: one month is added when `dt1 > dtm`; `years = -((-months) div 12)`, i.e. the
  quotient is truncated toward zero, not floored.
-/
namespace AthlibVerif.Cal

structure Date where
  y : Int
  m : Nat
  d : Nat
  deriving DecidableEq, Repr

def isLeap (y : Int) : Bool := (y % 4 == 0 && y % 100 != 0) || y % 400 == 0

def daysIn (y : Int) (m : Nat) : Nat :=
  if m == 2 then (if isLeap y then 29 else 28)
  else if m == 4 || m == 6 || m == 9 || m == 11 then 30 else 31

/-- a real calendar date (any year, also ≤ 0: proleptic) -/
def Date.valid (a : Date) : Prop := 1 ≤ a.m ∧ a.m ≤ 12 ∧ 1 ≤ a.d ∧ a.d ≤ daysIn a.y a.m

instance (a : Date) : Decidable a.valid := by unfold Date.valid; infer_instance

/-- lexicographic order = chronological order -/
def Date.le (a b : Date) : Prop := a.y < b.y ∨ (a.y = b.y ∧ (a.m < b.m ∨ (a.m = b.m ∧ a.d ≤ b.d)))
def Date.lt (a b : Date) : Prop := a.y < b.y ∨ (a.y = b.y ∧ (a.m < b.m ∨ (a.m = b.m ∧ a.d < b.d)))

instance (a b : Date) : Decidable (a.le b) := by unfold Date.le; infer_instance
instance (a b : Date) : Decidable (a.lt b) := by unfold Date.lt; infer_instance

/-- `relativedelta(on, birth).years` -/
def completedYears (birth on : Date) : Int :=
  if birth.le on then
    -- anniversaries reached; the day of a 29 Feb birthday is clipped to 28 in a common year
    let bd := if birth.m = 2 ∧ birth.d = 29 ∧ !isLeap on.y then 28 else birth.d
    on.y - birth.y - (if on.m < birth.m ∨ (on.m = birth.m ∧ on.d < bd) then 1 else 0)
  else
    -- born after the reference date: truncation toward zero
    on.y - birth.y + (if birth.m < on.m ∨ (birth.m = on.m ∧ birth.d < on.d) then 1 else 0)

/-- the next day (used by the driver to walk ranges of birth dates) -/
def Date.succ (a : Date) : Date :=
  if a.d < daysIn a.y a.m then ⟨a.y, a.m, a.d + 1⟩
  else if a.m < 12 then ⟨a.y, a.m + 1, 1⟩
  else ⟨a.y + 1, 1, 1⟩

end AthlibVerif.Cal
