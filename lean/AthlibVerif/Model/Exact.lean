/-!
# L2 — exact arithmetic for scoring: integer b-th roots, floor of a rational power
Import-free.  Specification lemmas in `Lemmas/Exact.lean`, bridge to `Real.rpow` in `Lemmas/RPow.lean`.
-/
namespace AthlibVerif

/-- bisection: invariant `lo^b ≤ n < hi^b` -/
def irootAux (b n lo hi : Nat) : Nat :=
  if h : lo + 1 < hi then
    let mid := (lo + hi) / 2
    if mid ^ b ≤ n then irootAux b n mid hi else irootAux b n lo mid
  else lo
termination_by hi - lo
decreasing_by all_goals omega

/-- an upper bound `2^k` with `n < (2^k)^b`, found by doubling (fuel = bit length suffices) -/
def irootHi (b n : Nat) : Nat → Nat → Nat
  | 0, hi => hi
  | fuel+1, hi => if hi ^ b ≤ n then irootHi b n fuel (2 * hi) else hi

/-- largest `p` with `p^b ≤ n` (for `b > 0`) -/
def iroot (b n : Nat) : Nat :=
  let hi := irootHi b n (n.log2 + 2) 1
  if n < hi ^ b then irootAux b n 0 hi else irootAux b n 0 (n + 1)

/-- `⌊ (aN/aD) · (dN/dD)^(xa/xb) ⌋` computed exactly in integers -/
def floorPow (aN aD dN dD xa xb : Nat) : Nat :=
  iroot xb ((aN ^ xb * dN ^ xa) / (aD ^ xb * dD ^ xa))

/-- `⌈ n / d ⌉` and `⌊ n / d ⌋` on naturals -/
def ceilDiv (n d : Nat) : Nat := (n + d - 1) / d
def floorDiv (n d : Nat) : Nat := n / d

end AthlibVerif
