import AthlibVerif.Model.Regex
/-!
# Backtracking matcher with capture groups (leftmost-first, greedy) — the way CPython's `re` reports groups

`GRE` is the syntax tree of a pattern with numbered groups and ordered alternatives (regenerated from
`re._parser`, `Gen/GPatterns.lean`).  `mAll` returns every way to match from a position, in the priority
order of a backtracking engine (list of successes); `re.match` is the head of that list.
Symbols are the classes of the generated alphabet; captures are spans into the input.
-/
namespace AthlibVerif

inductive GRE where
  | eps
  | cls (mask : Nat)
  | cat (a b : GRE)
  | alt (a b : GRE)        -- ordered choice: `a` first
  | star (a : GRE)         -- greedy
  | grp (id : Nat) (a : GRE)
  | eol (nlMask : Nat)     -- `$`: at the end, or just before a final newline
  deriving Repr, Inhabited, DecidableEq

namespace GRE

/-- captures: (group, start, end), most recent first -/
abbrev Caps := List (Nat × Nat × Nat)

def symAt (inp : List Nat) (i : Nat) : Option Nat := inp[i]?

/-- all matches of `g` starting at `i`, as (end position, captures), in backtracking priority order -/
def mAll (inp : List Nat) : Nat → GRE → Nat → Caps → List (Nat × Caps)
  | 0, _, _, _ => []
  | fuel+1, g, i, caps =>
    match g with
    | eps => [(i, caps)]
    | cls m => match symAt inp i with
      | some x => if m.testBit x then [(i+1, caps)] else []
      | none => []
    | cat a b => (mAll inp fuel a i caps).flatMap (fun r => mAll inp fuel b r.1 r.2)
    | alt a b => mAll inp fuel a i caps ++ mAll inp fuel b i caps
    | star a =>
      ((mAll inp fuel a i caps).filter (fun r => r.1 > i)).flatMap (fun r => mAll inp fuel (star a) r.1 r.2)
        ++ [(i, caps)]
    | grp id a => (mAll inp fuel a i caps).map (fun r => (r.1, (id, i, r.1) :: r.2))
    | eol nl =>
      if i == inp.length then [(i, caps)]
      else if i + 1 == inp.length then
        (match symAt inp i with
          | some x => if nl.testBit x then [(i, caps)] else []
          | none => [])
      else []

def fuelFor (inp : List Nat) : Nat := 400 + 40 * inp.length

/-- `pattern.match(s)`: the first match in priority order -/
def matchFirst (g : GRE) (inp : List Nat) : Option (Nat × Caps) := (mAll inp (fuelFor inp) g 0 []).head?

/-- span of group `id` in a match (`None` when the group did not take part) -/
def span (caps : Caps) (id : Nat) : Option (Nat × Nat) := (caps.find? (fun c => c.1 == id)).map (·.2)

end GRE
end AthlibVerif

namespace AthlibVerif.GRE
/-- forget priorities and captures; groups listed in `skip` are taken empty (ε) -/
def toRE (skip : List Nat) : GRE → RE
  | eps => .eps
  | cls m => .cls m
  | cat a b => .cat (toRE skip a) (toRE skip b)
  | alt a b => .alt (toRE skip a) (toRE skip b)
  | star a => .star (toRE skip a)
  | grp id a => if skip.contains id then .eps else toRE skip a
  | eol nl => .alt .eps (.cls nl)
end AthlibVerif.GRE
