import AthlibVerif.Model.Digits
/-!
# Times: decimal round-up, duration formatting, h:m:s parsing (`athlib/utils.py`) — import-free

String-level transcriptions (warts included) of `round_up_str_num`, `format_seconds_as_time`,
`str2num`/`parse_hms` and `is_hand_timing`.  Nothing here is a float:

* `formatSeconds` receives `int(seconds)` and the *text* the code turns the float residue
  `seconds - int(seconds)` into (`'%.9f' % frac` after the proposed fix, `repr(frac)` on the pinned
  tree); the harness checks separately that this text is a correct rendering of the residue.
* `parseHms` returns exact values (`num / 10^exp`); Python's result for a decimal field is the float
  nearest to within the rounding of one `float()` and one addition per field.

Modelled `int()`/`float()` grammar of a field: optional `+`/`-`, ASCII digits, at most one `.` with a
digit on at least one side.  NOT modelled (such texts go to the correspondence's totality stream only):
underscores between digits, exponents (`1e3`), `inf`/`nan`/`infinity`, Unicode decimal digits,
surrounding white space, and the 4300-digit limit of `int()`.
-/
namespace AthlibVerif.Times
open AthlibVerif.Digits

/-- split at the first `'.'`: `(before, none)` when there is no dot, else `(before, some after)`.
(`i, f = s.split('.')`; with two or more dots Python raises — outside the model.) -/
def splitDot : List Char → List Char × Option (List Char)
  | [] => ([], none)
  | c :: cs =>
    if c = '.' then ([], some cs)
    else match splitDot cs with
      | (a, b) => (c :: a, b)

/-- the carry branch of `round_up_str_num`: `i += f; i = str(int(i)+1) if i else '1'; …pad…; split` -/
def carry (i f : List Char) (prec : Nat) : List Char × List Char :=
  let i := i ++ f
  let i := if i ≠ [] then render (val i + 1) else ['1']
  let i := if i.length < prec + 1 then zeros (prec + 1 - i.length) ++ i else i
  let n := i.length - prec
  (i.take n, if prec = 0 then i else i.drop (i.length - prec))     -- `i[:n]`, `i[-prec:]`

/-- `'.'.join((i,f)) if prec else i` -/
def join (i f : List Char) (prec : Nat) : List Char := if prec ≠ 0 then i ++ '.' :: f else i

/-- `round_up_str_num` after the split: `i` the integer part, `f` the fraction already cut to `maxDP` -/
def roundUpCore (i f : List Char) (prec : Nat) : List Char :=
  if f.length > prec then
    let t := stripZeros (f.drop prec)                        -- `t = f[prec:].lstrip('0')`
    let f := f.take prec
    if t ≠ [] then
      let r := carry i f prec
      join r.1 r.2 prec
    else join (if i = [] then ['0'] else i) f prec           -- `elif not i: i = '0'` (proposed fix)
  else
    join (if i = [] then ['0'] else i) (f ++ zeros (prec - f.length)) prec

/-- `round_up_str_num(s, prec, maxDP)` -/
def roundUpStr (s : List Char) (prec maxDP : Nat) : List Char :=
  match splitDot s with
  | (i, none) => roundUpCore i (zeros prec) prec
  | (i, some f) => roundUpCore i (f.take maxDP) prec

/-- the pinned `round_up_str_num` (before the fix): an empty integer part stays empty when the cut-off
tail is all zeros -/
def roundUpStrPinned (s : List Char) (prec maxDP : Nat) : List Char :=
  match splitDot s with
  | (i, none) => roundUpCore i (zeros prec) prec
  | (i, some f) =>
    let f := f.take maxDP
    if f.length > prec ∧ stripZeros (f.drop prec) = [] then join i (f.take prec) prec
    else roundUpCore i f prec

inductive FmtRes
  | ok (s : List Char)
  | valueError
  | indexError          -- `frac[0]` on an empty string (unreachable from a float residue)
  deriving Repr, DecidableEq

/-- `"%d:%02d:%02d"` / `"%d:%02d"` / `"%d"` -/
def fmtHMS (h m s : Nat) : List Char :=
  if h ≠ 0 then render h ++ ':' :: (padLeft 2 (render m) ++ ':' :: padLeft 2 (render s))
  else if m ≠ 0 then render m ++ ':' :: padLeft 2 (render s)
  else render s

/-- carry one second into `(hours, mins, secs)` -/
def bump (h m s : Nat) : Nat × Nat × Nat :=
  if s + 1 = 60 then (if m + 1 = 60 then (h + 1, 0, 0) else (h, m + 1, 0)) else (h, m, s + 1)

/-- `format_seconds_as_time(seconds, prec)` with `whole = int(seconds)` and `fracText` = the text of the
residue that is handed to `round_up_str_num` -/
def formatSeconds (whole : Nat) (fracText : List Char) (prec : Nat) : FmtRes :=
  if prec ≤ 3 then
    let secs := whole % 60
    let mins := whole / 60 % 60
    let hours := whole / 60 / 60
    match roundUpStr fracText prec 5 with
    | [] => .indexError
    | rup :: frac =>
      let (h, m, s) := if rup ≠ '0' then bump hours mins secs else (hours, mins, secs)
      .ok (fmtHMS h m s ++ frac)
  else .valueError

/-- a parsed number: `num / 10^exp`; `isInt` = Python returned an `int` -/
structure Num where
  isInt : Bool
  num : Int
  exp : Nat
  deriving Repr, DecidableEq

def Num.zero : Num := ⟨true, 0, 0⟩

/-- `acc * 60 + x` exactly, on the common scale -/
def Num.add60 (acc x : Num) : Num :=
  let e := max acc.exp x.exp
  ⟨acc.isInt && x.isInt, acc.num * 60 * (10 : Int) ^ (e - acc.exp) + x.num * (10 : Int) ^ (e - x.exp), e⟩

/-- an optional leading sign: `(negative?, rest)` -/
def splitSign : List Char → Bool × List Char
  | '-' :: r => (true, r)
  | '+' :: r => (false, r)
  | s => (false, s)

/-- `str2num` on the modelled grammar: `int(s)` if `[+-]?D+`, else `float(s)` if `[+-]?(D+.D*|.D+)` -/
def parseField (s : List Char) : Option Num :=
  let sg : Int := if (splitSign s).1 then -1 else 1
  match splitDot (splitSign s).2 with
  | (i, none) => if i ≠ [] ∧ allDig i then some ⟨true, sg * (val i : Int), 0⟩ else none
  | (i, some f) =>
    if (i ≠ [] ∨ f ≠ []) ∧ allDig i ∧ allDig f then some ⟨false, sg * (val (i ++ f) : Int), f.length⟩
    else none

/-- `t.split(sep)` -/
def splitOn (sep : Char) : List Char → List (List Char)
  | [] => [[]]
  | c :: cs =>
    if c = sep then [] :: splitOn sep cs
    else match splitOn sep cs with
      | f :: fs => (c :: f) :: fs
      | [] => [[c]]

/-- the loop `sec *= 60; sec += str2num(s)` -/
def parseFields : Num → List (List Char) → Option Num
  | acc, [] => some acc
  | acc, f :: fs =>
    match parseField f with
    | none => none
    | some x => parseFields (acc.add60 x) fs

def toExcept : Option Num → Except Unit Num
  | some n => .ok n
  | none => .error ()

/-- `parse_hms(t)` for a string `t`; `.error ()` is `ValueError` -/
def parseHms (t : List Char) : Except Unit Num :=
  if t.contains ':' then toExcept (parseFields .zero (splitOn ':' t))
  else if t.contains ';' then toExcept (parseFields .zero (splitOn ';' t))
  else toExcept (parseField t)

/-- number of characters after the last `'.'`, if there is one -/
def afterLastDot (s : List Char) : Option Nat :=
  if s.contains '.' then some (s.reverse.takeWhile (· ≠ '.')).length else none

/-- `is_hand_timing(perf)` for a string: `dp = perf.rfind('.'); dp < 0 or len(perf) - dp < 3` -/
def isHandTiming (s : List Char) : Bool :=
  match afterLastDot s with
  | none => true
  | some k => k < 2

end AthlibVerif.Times
