/-!
# L1 — regular expressions over a finite symbol alphabet (model side, import-free)

Symbols are `Nat` indices of the code-point classes computed by `tools/gen_regex.py`;
a character class is a bit mask over symbols.  Semantics by Brzozowski derivatives.
The denotational semantics and the soundness proofs live in `Lemmas/RegexSound.lean`.
-/
namespace AthlibVerif

inductive RE where
  | empty | eps
  | cls (mask : Nat)
  | cat (a b : RE)
  | alt (a b : RE)
  | star (a : RE)
  | and (a b : RE)
  | not (a : RE)
  deriving Repr, Inhabited, DecidableEq

namespace RE

def nullable : RE → Bool
  | empty => false | eps => true | cls _ => false
  | cat a b => a.nullable && b.nullable
  | alt a b => a.nullable || b.nullable
  | star _ => true
  | and a b => a.nullable && b.nullable
  | not a => !a.nullable

def mkCat (a b : RE) : RE :=
  if a = empty then empty else if b = empty then empty else if a = eps then b else if b = eps then a else cat a b
def mkAlt (a b : RE) : RE :=
  if a = empty then b else if b = empty then a else alt a b
def mkAnd (a b : RE) : RE :=
  if a = empty then empty else if b = empty then empty else and a b
def mkNot (a : RE) : RE := not a

def deriv (x : Nat) : RE → RE
  | empty => empty | eps => empty
  | cls m => if m.testBit x then eps else empty
  | cat a b => if a.nullable then mkAlt (mkCat (deriv x a) b) (deriv x b) else mkCat (deriv x a) b
  | alt a b => mkAlt (deriv x a) (deriv x b)
  | star a => mkCat (deriv x a) (star a)
  | and a b => mkAnd (deriv x a) (deriv x b)
  | not a => mkNot (deriv x a)

def accepts (r : RE) : List Nat → Bool
  | [] => r.nullable
  | x :: xs => accepts (deriv x r) xs

/-- closure of `todo` under derivatives by the symbols `0..nsym`, with fuel -/
def explore (nsym : Nat) : Nat → List RE → List RE → Option (List RE)
  | 0, _, _ => none
  | _, [], seen => some seen
  | fuel+1, r :: todo, seen =>
    if seen.contains r then explore nsym fuel todo seen
    else explore nsym fuel ((List.range (nsym+1)).map (fun x => deriv x r) ++ todo) (r :: seen)

/-- `true` only if no word over symbols `0..nsym` is in the language of `r` -/
def isEmptyLang (nsym fuel : Nat) (r : RE) : Bool :=
  match explore nsym fuel [r] [] with
  | none => false
  | some seen => seen.all (fun q => !q.nullable)

def symdiff (a b : RE) : RE := alt (and a (not b)) (and b (not a))

/-- breadth-first search for a shortest accepted word (witness search; not used in proofs) -/
def findWord (nsym : Nat) (fuel : Nat) (r : RE) : Option (List Nat) := Id.run do
  let mut frontier : List (RE × List Nat) := [(r, [])]
  let mut seen : List RE := [r]
  for _ in [0:fuel] do
    let mut next : List (RE × List Nat) := []
    for (q, w) in frontier do
      if q.nullable then return some w.reverse
      for x in List.range (nsym+1) do
        let d := deriv x q
        if d != empty && !seen.contains d then
          seen := d :: seen
          next := (d, x :: w) :: next
    if next.isEmpty then return none
    frontier := next.reverse
  return none

end RE
end AthlibVerif

namespace AthlibVerif.RE
/-- a concatenation tree as the list of its factors (associativity and `eps` normalised away) -/
def catList : RE → List RE
  | cat a b => catList a ++ catList b
  | eps => []
  | r => [r]

/-- top-level alternatives as concatenation lists; concatenation is distributed over an
    alternation in head position only (no exponential blow-up) -/
def flat : RE → List (List RE)
  | alt a b => flat a ++ flat b
  | cat a c => (flat a).map (fun l => l ++ catList c)
  | eps => [[]]
  | r => [[r]]

/-- syntactic fast path: same set of flattened alternatives -/
def flatEq (a b : RE) : Bool :=
  (flat a).all (fun x => (flat b).contains x) && (flat b).all (fun x => (flat a).contains x)

/-- equality of languages: syntactic fast path, else emptiness of the symmetric difference -/
def eqCheck (nsym fuel : Nat) (a b : RE) : Bool :=
  flatEq a b || isEmptyLang nsym fuel (symdiff a b)
end AthlibVerif.RE
