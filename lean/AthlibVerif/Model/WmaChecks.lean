import AthlibVerif.Model.Wma
/-!
Decidable side-conditions on a WMA table (core Lean only).  The generic theorems of `Props/C14.lean`
and `Props/C15.lean` assume them; `Oblig/C14`, `Oblig/C15` discharge them for the regenerated tables
by kernel evaluation.
-/
namespace AthlibVerif.Wma

def cellPos : Option Nat → Bool
  | some n => decide (0 < n)
  | none => true

/-- strictly increasing -/
def agesSorted : List Nat → Bool
  | a :: b :: rest => decide (a < b) && agesSorted (b :: rest)
  | _ => true

/-- every non-null factor is positive (hence finite: it is a ratio of two positive integers), every
    row has one cell per age column, the scales are positive and the age columns increase -/
def factorsOK (t : Table) : Bool :=
  decide (0 < t.facScale) && agesSorted t.ages && !t.ages.isEmpty &&
    (t.m ++ t.f).all (fun r => r.facs.length == t.ages.length && r.facs.all cellPos)

/-- every open best is positive -/
def bestsOK (t : Table) : Bool :=
  decide (0 < t.bestScale) && decide (0 < t.kmScale) && (t.m ++ t.f).all (fun r => decide (0 < r.best))

/-- the run section: a `"50"` row exists, the row before it (if any) has no distance, every run row
    has a positive distance -/
def runOK (rows : List Row) : Bool :=
  let s := runStart rows
  decide (s < rows.length) && (s == 0 || (rows.getD (s - 1) default).km == 0) &&
    (rows.drop s).all (fun r => decide (0 < r.km))

/-- `i` can be the upper bracket row of some distance: its distance exceeds every earlier run row's -/
def reach (ks : List Nat) (i : Nat) : Bool :=
  (List.range i).all (fun j => decide (ks.getD j 0 < ks.getD i 0))

/-- open bests never decrease along the brackets the scan can produce: inside a reachable bracket
    `(i−1, i)`, and from a reachable upper row `i` to the lower row `i'−1` of any later reachable
    bracket (or the last row).  `ks`, `bs`: distances and bests of the run rows. -/
def chainOK (ks bs : List Nat) : Bool :=
  let n := ks.length
  (List.range n).all fun i => !reach ks i ||
    ((i == 0 || decide (bs.getD (i - 1) 0 ≤ bs.getD i 0)) &&
     (List.range (n + 1)).all fun i' =>
       !(decide (i < i')) || !(i' == n || reach ks i') || decide (bs.getD i 0 ≤ bs.getD (i' - 1) 0))

/-- no run row lies strictly between the two distances of a bracket the scan can produce (for the
    first run row the lower distance is 0): then the bracket rows are nearest tabulated distances -/
def noSeam (ks : List Nat) : Bool :=
  (List.range ks.length).all fun i => !reach ks i ||
    ks.all (fun k => !(decide ((if i = 0 then 0 else ks.getD (i - 1) 0) < k) && decide (k < ks.getD i 0)))

def runKms (rows : List Row) : List Nat := (rows.drop (runStart rows)).map (·.km)
def runBests (rows : List Row) : List Nat := (rows.drop (runStart rows)).map (·.best)

/-- all C15 side-conditions of one gender's rows -/
def distOK (rows : List Row) : Bool := runOK rows && chainOK (runKms rows) (runBests rows)

/-- row names are distinct, so the recursion of `calculate_factor` on a bracket row's *name* finds
    that row -/
def namesDistinct (rows : List Row) : Bool := (rows.map (·.event)).Nodup

/-- every row name is classified by the live patterns (no `ValueError` from the recursion) and is
    already upper-case (checked on character lists: kernel-friendly) -/
def namesClassified (rows : List Row) : Bool :=
  rows.all (fun r => (kindOfL r.event.toList).isSome && r.event.toList.map Char.toUpper == r.event.toList)

/-- the lower-case spelling of a row name has the same upper-case form and is either refused
    (`5m` is five metres, not an event code) or measured the same way (timed / field) as the
    tabulated spelling -/
def caseOK (rows : List Row) : Bool :=
  rows.all (fun r =>
    let cs := r.event.toList
    let lo := cs.map Char.toLower
    lo.map Char.toUpper == cs.map Char.toUpper &&
    match kindOfL lo, kindOfL cs with
    | some k, some k' => k.timed == k'.timed
    | none, _ => true
    | _, none => false)

/-- all spelling side-conditions of one gender's rows -/
def spellingOK (rows : List Row) : Bool := namesDistinct rows && namesClassified rows && caseOK rows

/-- bracket rows the scan can produce are named with a distance, the row before the run section is not -/
def runNamesHaveDistance (rows : List Row) : Bool :=
  let s := runStart rows
  (rows.drop s).all (fun r => (getDistance r.event).isSome) &&
    (s == 0 || (getDistance (rows.getD (s - 1) default).event).isNone)

end AthlibVerif.Wma
