/-!
# Model of the two result caches of `athlib/utils.py` (C19)

Transcription of `_add_to_cache`, `schema_valid` and `valid_against_schema`
(athlib/utils.py, lines 636-689) **with the repair `fixes/c19-cached-false-expect-failure.diff`
applied**; `stepCachePinned` keeps the look-up of the pinned commit for the counter-witness.

What the model abstracts: everything jsonschema and the file system decide is the parameter
`truth : Key → Option Bool`
* `some true`  – the check passes (no exception),
* `some false` – the check raises the *expected* error (`SchemaError` in `schema_valid`,
  `ValidationError` in `valid_against_schema`),
* `none`       – something else is raised (missing file, bad JSON, `SchemaError` out of
  `jsonschema.validate`, …); it propagates whatever `expect_failure` says and nothing is cached.

A cache is the Python `dict` as an association list in insertion order, **newest first**
(so the head is what `next(reversed(c))` yields).  `cap` is `maxlen` (20 in the source).
Core Lean only.
-/
namespace AthlibVerif.Cache

/-- which helper is called; each has its own module-level dict -/
inductive Fn where
  | schemaValid      -- `schema_valid(schema_file, validator, expect_failure)`, key `(schema_file, validator)`
  | validAgainst     -- `valid_against_schema(json_file, schema_file, expect_failure)`, key `(json_file, schema_file)`
  deriving DecidableEq, Repr

/-- a cache key: the helper and the (numbered) key tuple; `expect_failure` is *not* part of it -/
structure Key where
  fn : Fn
  id : Nat
  deriving DecidableEq, Repr

structure Call where
  key : Key
  ef : Bool          -- `expect_failure`
  deriving DecidableEq, Repr

inductive Outcome where
  | retTrue          -- returned `True`
  | retFalse         -- returned `False`
  | raised           -- raised the expected `SchemaError` / `ValidationError`
  | error            -- another exception propagated (`truth = none`)
  | iterError        -- `next(it)` inside `_add_to_cache` raised (StopIteration / "dictionary changed size")
  deriving DecidableEq, Repr

def Outcome.ofBool : Bool → Outcome
  | true => .retTrue
  | false => .retFalse

/-- one dict, newest entry first -/
abbrev Cache := List (Nat × Bool)

/-- `t in c` / `c[t]` -/
def find (k : Nat) : Cache → Option Bool
  | [] => none
  | (k', v) :: r => if k' = k then some v else find k r

/-- `c[t] = v`: an existing key keeps its position, a new key becomes the newest entry -/
def set (k : Nat) (v : Bool) (c : Cache) : Cache :=
  match find k c with
  | some _ => c.map (fun e => if e.1 = k then (k, v) else e)
  | none => (k, v) :: c

/-- `it = reversed(c); while len(c) >= maxlen: c.pop(next(it))`.
The iterator is created once: the first `next(it)` yields the newest key (or raises
`StopIteration` on an empty dict); a second `next(it)` after the `pop` raises `RuntimeError`
("dictionary changed size during iteration").  Returns the dict as left behind and whether the
loop ended without an exception. -/
def evict (cap : Nat) (c : Cache) : Cache × Bool :=
  if c.length < cap then (c, true)
  else match c with
    | [] => ([], false)
    | _ :: r => if r.length < cap then (r, true) else (r, false)

/-- `return _add_to_cache(c, t, v)` -/
def add (cap : Nat) (c : Cache) (k : Nat) (v : Bool) : Cache × Outcome :=
  match evict cap c with
  | (c', true) => (set k v c', Outcome.ofBool v)
  | (c', false) => (c', .iterError)

/-- the body after the look-up: load the files, run jsonschema, cache / raise -/
def compute (truth : Nat → Option Bool) (cap : Nat) (c : Cache) (k : Nat) (ef : Bool) : Cache × Outcome :=
  match truth k with
  | none => (c, .error)
  | some true => add cap c k true
  | some false => if ef then (c, .raised) else add cap c k false

/-- repaired look-up: `if t in c and (c[t] or not expect_failure): return c[t]` -/
def stepCache (truth : Nat → Option Bool) (cap : Nat) (c : Cache) (k : Nat) (ef : Bool) : Cache × Outcome :=
  match find k c with
  | some v => if v || !ef then (c, Outcome.ofBool v) else compute truth cap c k ef
  | none => compute truth cap c k ef

/-- pinned look-up (commit 6f2daa5): `if t in c: return c[t]` -/
def stepCachePinned (truth : Nat → Option Bool) (cap : Nat) (c : Cache) (k : Nat) (ef : Bool) : Cache × Outcome :=
  match find k c with
  | some v => (c, Outcome.ofBool v)
  | none => compute truth cap c k ef

/-- the module state: the two dicts -/
structure Store where
  sv : Cache         -- `_schema_valid_cache`
  va : Cache         -- `_valid_against_schema_cache`
  deriving DecidableEq, Repr

def Store.empty : Store := ⟨[], []⟩

def Store.get (s : Store) : Fn → Cache
  | .schemaValid => s.sv
  | .validAgainst => s.va

def Store.put (s : Store) : Fn → Cache → Store
  | .schemaValid, c => { s with sv := c }
  | .validAgainst, c => { s with va := c }

/-- a cache-level step lifted to the store -/
def stepWith (sc : (Nat → Option Bool) → Nat → Cache → Nat → Bool → Cache × Outcome)
    (truth : Key → Option Bool) (cap : Nat) (s : Store) (call : Call) : Store × Outcome :=
  let r := sc (fun i => truth ⟨call.key.fn, i⟩) cap (s.get call.key.fn) call.key.id call.ef
  (s.put call.key.fn r.1, r.2)

/-- one call of the repaired code -/
def step (truth : Key → Option Bool) (cap : Nat) : Store → Call → Store × Outcome :=
  stepWith stepCache truth cap

/-- one call of the pinned code -/
def stepPinned (truth : Key → Option Bool) (cap : Nat) : Store → Call → Store × Outcome :=
  stepWith stepCachePinned truth cap

/-- a history: final store and the outcome of every call, in order -/
def runWith (st : Store → Call → Store × Outcome) : Store → List Call → Store × List Outcome
  | s, [] => (s, [])
  | s, c :: cs =>
    let r := st s c
    let rs := runWith st r.1 cs
    (rs.1, r.2 :: rs.2)

def run (truth : Key → Option Bool) (cap : Nat) : Store → List Call → Store × List Outcome :=
  runWith (step truth cap)

def runPinned (truth : Key → Option Bool) (cap : Nat) : Store → List Call → Store × List Outcome :=
  runWith (stepPinned truth cap)

/-- what the property demands: the answer depends on the call and on `truth` only -/
def fresh (truth : Key → Option Bool) (call : Call) : Outcome :=
  match truth call.key with
  | none => .error
  | some true => .retTrue
  | some false => if call.ef then .raised else .retFalse

/-- `maxlen` default of `_add_to_cache` -/
def maxlen : Nat := 20

end AthlibVerif.Cache
