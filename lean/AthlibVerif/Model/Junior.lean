import AthlibVerif.Model.Sym
import AthlibVerif.Gen.Patterns
/-!
# Junior / table scoring systems — exact models (core Lean only)

Tyrving (`athlib/tyrving_score.py`), QuadKids (`qkids_score.py`), Sportshall (`sportshall_score.py`),
Bulgarian U16 (`bulgarian_score.py`) and Hungarian (`hungarian_score.py`).  Marks are `Nat` hundredths
(`k` = 100 · value); nothing here is a float and the `1e-8` / `1e-6` fuzz terms of the code are absent:
each evaluator *is* the exact-arithmetic reading of the published table or linear formula.
-/
namespace AthlibVerif.Junior

/-- `max 0 ⌊n / d⌋` for a positive denominator (`Int` division in Lean is the floor for `d > 0`) -/
def floorNat (n : Int) (d : Nat) : Nat := (n / (d : Int)).toNat

inductive JRes
  | pts (p : Nat)
  | valueError
  | keyError
  deriving Repr, DecidableEq

def upper (s : String) : String := s.map Char.toUpper

/-! ## Tyrving -/

/-- base performance by integer age: `(age, value)` pairs (hundredths, or points for the third stav table) -/
abbrev BaseTab := List (Nat × Nat)

def baseAt (t : BaseTab) (age : Nat) : Option Nat := (t.find? (fun e => e.1 == age)).map (·.2)

inductive TyCalc
  | race (dist mN : Nat) (base : BaseTab)
  | jump (mN : Nat) (base : BaseTab)
  | stav (m0 m1 m2 : Nat) (l0 l1 p2 : BaseTab)      -- `pv` and `throw`
  | bad
  deriving Repr, DecidableEq

structure TyRow where
  gender : String
  event : String
  cal : TyCalc
  deriving Repr, DecidableEq

namespace Tyrving

/-- hand-timing correction in hundredths, keyed on the race DISTANCE -/
def manualInc (dist : Nat) : Nat :=
  if dist = 100 ∨ dist = 110 ∨ dist = 200 then 24
  else if dist = 40 ∨ dist = 60 ∨ dist = 80 ∨ dist = 300 then 20
  else if dist = 400 then 14 else 0

/-- one point is `mult` per 0.01 s up to 500 m, per 0.1 s beyond -/
def raceDiv (dist : Nat) : Nat := if dist ≤ 500 then 1 else 10

/-- `max 0 ⌊1000 + (B − v) · mult / unit⌋`, `mult = mN/S`, `B`, `k` hundredths of a second -/
def race (S dist mN B k : Nat) (manual : Bool) : Nat :=
  let k' := if manual then k + manualInc dist else k
  floorNat (1000 * (S * raceDiv dist) + ((B : Int) - k') * mN) (S * raceDiv dist)

/-- `max 0 ⌊1000 + mult · (v − B) · 100⌋` -/
def jump (S mN B k : Nat) : Nat := floorNat (1000 * S + ((k : Int) - B) * mN) S

/-- three-piece linear formula of the pole vault and the throws -/
def stav (S m0 m1 m2 L0 L1 P2 k : Nat) : Nat :=
  let d0 : Int := (k : Int) - L0
  let d1 : Int := (k : Int) - L1
  if 0 ≤ d0 then floorNat (1000 * S + d0 * m0) S
  else if 0 < d1 then floorNat (1000 * S + d0 * m1) S
  else floorNat ((P2 : Int) * S + d1 * m2) S

def isRun (event : String) : Bool := Gen.PAT_RUN.matchesChars event.toList

def normGender (g : String) : Option String :=
  match (upper g).toList with
  | 'M' :: _ => some "M"
  | 'F' :: _ => some "F"
  | _ => none

def calcPoints (S : Nat) (c : TyCalc) (age k : Nat) (manual : Bool) : JRes :=
  match c with
  | .race dist mN base =>
    match baseAt base age with
    | some B => .pts (race S dist mN B k manual)
    | none => .valueError
  | .jump mN base =>
    match baseAt base age with
    | some B => .pts (jump S mN B k)
    | none => .valueError
  | .stav m0 m1 m2 l0 l1 p2 =>
    match baseAt l0 age, baseAt l1 age, baseAt p2 age with
    | some L0, some L1, some P2 => .pts (stav S m0 m1 m2 L0 L1 P2 k)
    | _, _, _ => .valueError
  | .bad => .valueError

/-- `tyrving_score(gender, age, event, perf)`; `event` is a normalised code, `hand` says the text of a
    timed mark had fewer than two decimals -/
def score (S : Nat) (tbl : List TyRow) (gender : String) (age : Nat) (event : String) (k : Nat) (hand : Bool) : JRes :=
  match normGender gender with
  | none => .valueError
  | some g =>
    match tbl.find? (fun r => r.gender == g && r.event == event) with
    | none => .valueError
    | some r => calcPoints S r.cal age k (hand && isRun event)

end Tyrving

/-! ## QuadKids -/

structure QkRow where
  comp : String
  event : String
  incN : Nat     -- increment per point = incN / incD hundredths
  incD : Nat
  base : Nat     -- the 10-point mark
  top : Nat      -- the 100-point mark (not used by the code)
  deriving Repr, DecidableEq

namespace Qkids

/-- `⌊delta / increment + 10⌋`, delta = how much the mark is better than the 10-point mark -/
def raw (incN incD : Nat) (run : Bool) (base k : Nat) : Int :=
  let delta : Int := if run then (base : Int) - k else (k : Int) - base
  delta * incD / incN + 10

def points (incN incD : Nat) (run : Bool) (base k : Nat) : Nat :=
  (max 10 (min (raw incN incD run base k) 100)).toNat

def normComp (m : List (String × String)) (c : String) : String :=
  let c := upper (String.ofList (c.toList.filter (· ≠ ' ')))
  match m.find? (·.1 == c) with
  | some e => e.2
  | none => c

def score (tbl : List QkRow) (m : List (String × String)) (comp event : String) (k : Nat) : JRes :=
  let c := normComp m comp
  match tbl.find? (fun r => r.comp == c && r.event == event) with
  | none => .valueError
  | some r => .pts (points r.incN r.incD (Tyrving.isRun event) r.base k)

end Qkids

/-! ## Sportshall -/

structure ShEvent where
  code : String
  high : Bool        -- larger marks are better
  incN : Nat         -- beyond-table step = incN / incD hundredths; incN = 0: no step defined
  incD : Nat
  incPts : Nat
  rows : List (Nat × Nat)    -- (points, threshold in hundredths), table order
  deriving Repr, DecidableEq

namespace Sportshall

/-- does mark `k` reach threshold `thr`? -/
def reach (high : Bool) (thr k : Nat) : Bool := if high then decide (thr ≤ k) else decide (k ≤ thr)

/-- the points of the best row whose threshold the mark reaches; 0 when it reaches none -/
def lookupBest (high : Bool) : List (Nat × Nat) → Nat → Nat
  | [], _ => 0
  | r :: rs, k => if reach high r.2 k then max r.1 (lookupBest high rs k) else lookupBest high rs k

/-- whole steps of `incN/incD` hundredths contained in `excess` hundredths -/
def steps (incN incD excess : Nat) : Nat := if incN = 0 then 0 else excess * incD / incN

def points (e : ShEvent) (k : Nat) : Nat :=
  match e.rows.getLast? with
  | none => 0
  | some (maxP, maxT) =>
    if e.high then
      if maxT < k then maxP + steps e.incN e.incD (k - maxT) * e.incPts else lookupBest true e.rows k
    else
      if k < maxT then maxP + steps e.incN e.incD (maxT - k) * e.incPts else lookupBest false e.rows k

def score (tbl : List ShEvent) (event : String) (k : Nat) : JRes :=
  match tbl.find? (fun e => e.code == upper event) with
  | none => .keyError
  | some e => .pts (points e k)

end Sportshall

/-! ## Bulgarian U16 -/

structure BgTable where
  key : String
  event : String    -- the event-code part of the key (`""` when the key is not age group + gender + event)
  timed : Bool
  minV : Nat        -- the worst tabulated mark (`'min'`)
  maxV : Nat        -- the best tabulated mark (`'max'`)
  runs : List (Nat × Nat × Nat)     -- (lo, hi, points), ascending
  deriving Repr, DecidableEq

namespace Bulgarian

def lookup (runs : List (Nat × Nat × Nat)) (k : Nat) : Option Nat :=
  (runs.find? (fun r => r.1 ≤ k && k ≤ r.2.1)).map (·.2.2)

/-- `none` = the per-centi table has no entry for `k` (KeyError) -/
def points (t : BgTable) (k : Nat) : Option Nat :=
  if t.timed then
    if t.minV < k then some 0 else if k < t.maxV then some 150 else lookup t.runs k
  else
    if k < t.minV then some 0 else if t.maxV < k then some 150 else lookup t.runs k

def score (tbl : List BgTable) (ag gender event : String) (k : Nat) : JRes :=
  match tbl.find? (fun t => t.key == ag ++ gender ++ event) with
  | none => .keyError
  | some t => match points t k with
    | some p => .pts p
    | none => .keyError

end Bulgarian

/-! ## Hungarian -/

structure HuRow where
  gender : String
  inout : String
  event : String
  aN : Nat
  aD : Nat
  bN : Int
  bD : Nat
  cN : Int
  cD : Nat
  deriving Repr, DecidableEq

namespace Hungarian

/-- `100 · bD · (p + b)` : the signed distance from the vertex of the parabola, scaled -/
def dist (r : HuRow) (k : Nat) : Int := (k : Int) * r.bD + 100 * r.bN

/-- the parabola `⌊a (p + b)² + c⌋` in exact integer arithmetic, `p = k/100` -/
def raw (r : HuRow) (k : Nat) : Int :=
  (r.aN * (dist r k) ^ 2 * r.cD + r.cN * (r.aD * (100 * r.bD) ^ 2)) / ((r.aD * (100 * r.bD) ^ 2 * r.cD : Nat) : Int)

/-- timed events have their zero point at `−b > 0` -/
def timed (r : HuRow) : Bool := decide (r.bN < 0)

/-- repaired behaviour: no points at or beyond the zero point of a timed event, never negative -/
def points (r : HuRow) (k : Nat) : Nat :=
  if timed r && decide (0 < dist r k) then 0 else (raw r k).toNat

def find (tbl : List HuRow) (gender inout event : String) : Option HuRow :=
  tbl.find? (fun r => r.gender == gender && r.inout == inout && r.event == event)

end Hungarian

end AthlibVerif.Junior
