/-! data layout of the regenerated WMA tables (`Gen/Wma*.lean`); kept apart from `Model/Wma.lean` so that
    editing the model does not re-elaborate the 60 000 generated numbers -/
namespace AthlibVerif.Wma

structure Row where
  event : String
  km : Nat                    -- distance in km × kmScale (0 for field events)
  best : Nat                  -- open best × bestScale
  facs : List (Option Nat)    -- age factors × facScale, aligned with `ages`; `none` = JSON null
  deriving Repr, Inhabited

structure Table where
  ages : List Nat
  kmScale : Nat
  bestScale : Nat
  facScale : Nat
  m : List Row
  f : List Row
  deriving Repr, Inhabited

end AthlibVerif.Wma
