/-!
# L6 `Conc` — threads as deterministic step machines over a shared store

A protocol is a function `step : S → T → S × T` (shared store `S`, thread-local state `T`): one call of
`step` is one *atomic step* of one thread — one athlib source line, or one lock-protected block (the
granularity property C16 fixes).  A `World` is the store plus the list of threads; `runSched` runs the
world along a *schedule*, a list of thread ids saying who makes the next step.  Nothing is assumed of a
schedule: any length, any order, unfair, ids of threads that do not exist (a no-op).

Protocols (section 7/C16 of DESIGN.md), each in the repaired and in the pinned form:

* `lazyStep` — lazy dictionary, **build locally then publish** (`athlon_score._scoring_objects`,
  `hungarian_score._table` after the fix);  `lazyPinnedStep` — **publish `{}` then fill in place** (pinned);
* `assignStep` — **assign after build** (`sportshall_score._DB = load_data()`, `AgeGrader._data = json.load(f)`);
* `lookLocalStep` — grader look-up whose row/age indices stay in **thread-local** variables (the stores to
  the shared object are kept, nothing is read back);  `lookSharedStep` — pinned: indices are read back
  from the **shared scratch** attributes `_fx/_ax`;
* `cacheStep` — bounded memo cache: one atomic read, then eviction + insertion in **one locked step**;
  `cachePinnedStep` — pinned: membership test and read are two steps, eviction unlocked.

Core Lean only.
-/
namespace AthlibVerif.Conc

structure World (S T : Type) where
  g : S
  ts : List T
  deriving Repr

/-- thread `i` makes one atomic step (ids without a thread: nothing happens) -/
def stepW {S T : Type} (step : S → T → S × T) (w : World S T) (i : Nat) : World S T :=
  match w.ts[i]? with
  | none => w
  | some t => { g := (step w.g t).1, ts := w.ts.set i (step w.g t).2 }

/-- run the world along a schedule = list of thread ids -/
def runSched {S T : Type} (step : S → T → S × T) (w : World S T) (sched : List Nat) : World S T :=
  sched.foldl (stepW step) w

abbrev Table := List (Nat × Nat)

/-! ## 1. lazy dictionary -/

inductive LazyPC
  | start                              -- `if _scoring_objects is None:`
  | build (i : Nat) (acc : Table)      -- `objects = {}` / `for o in _scoring_table: objects[key] = o`
  | publish (acc : Table)              -- `_scoring_objects = objects`
  | check                              -- `if key not in _scoring_objects: return None`
  | fetch                              -- `coeffs = _scoring_objects[key]`
  | done (r : Option Nat)
  deriving DecidableEq, Repr

structure LazyT where
  pc : LazyPC
  key : Nat
  deriving DecidableEq, Repr

/-- repaired protocol: the table is built in a local and the global is assigned once, at the end -/
def lazyStep (src : Table) (g : Option Table) (t : LazyT) : Option Table × LazyT :=
  match t.pc with
  | .start => if g.isNone then (g, { t with pc := .build 0 [] }) else (g, { t with pc := .check })
  | .build i acc =>
    match src[i]? with
    | some e => (g, { t with pc := .build (i + 1) (acc ++ [e]) })
    | none => (g, { t with pc := .publish acc })
  | .publish acc => (some acc, { t with pc := .check })
  | .check =>
    if ((g.getD []).lookup t.key).isSome then (g, { t with pc := .fetch }) else (g, { t with pc := .done none })
  | .fetch => (g, { t with pc := .done ((g.getD []).lookup t.key) })
  | .done _ => (g, t)

inductive PinPC
  | start | fill (i : Nat) | check | fetch | done (r : Option Nat)
  deriving DecidableEq, Repr

structure PinT where
  pc : PinPC
  key : Nat
  deriving DecidableEq, Repr

/-- pinned protocol: `_scoring_objects = {}` is published first and then filled in place -/
def lazyPinnedStep (src : Table) (g : Option Table) (t : PinT) : Option Table × PinT :=
  match t.pc with
  | .start => if g.isNone then (some [], { t with pc := .fill 0 }) else (g, { t with pc := .check })
  | .fill i =>
    match src[i]? with
    | some e => (some (g.getD [] ++ [e]), { t with pc := .fill (i + 1) })
    | none => (g, { t with pc := .check })
  | .check =>
    if ((g.getD []).lookup t.key).isSome then (g, { t with pc := .fetch }) else (g, { t with pc := .done none })
  | .fetch => (g, { t with pc := .done ((g.getD []).lookup t.key) })
  | .done _ => (g, t)

def lazyInit (g0 : Option Table) (keys : List Nat) : World (Option Table) LazyT :=
  { g := g0, ts := keys.map fun k => { pc := .start, key := k } }

def lazyPinnedInit (g0 : Option Table) (keys : List Nat) : World (Option Table) PinT :=
  { g := g0, ts := keys.map fun k => { pc := .start, key := k } }

/-! ## 2. assign after build -/

inductive AssignPC
  | start                    -- `if not _DB:`
  | load                     -- the right-hand side `load_data()` / `json.load(f)`: builds a complete local value
  | assign (tbl : Table)     -- `_DB = <that value>`
  | check | fetch
  | done (r : Option Nat)
  deriving DecidableEq, Repr

structure AssignT where
  pc : AssignPC
  key : Nat
  deriving DecidableEq, Repr

def assignStep (src : Table) (g : Option Table) (t : AssignT) : Option Table × AssignT :=
  match t.pc with
  | .start => if g.isNone then (g, { t with pc := .load }) else (g, { t with pc := .check })
  | .load => (g, { t with pc := .assign src })
  | .assign tbl => (some tbl, { t with pc := .check })
  | .check =>
    if ((g.getD []).lookup t.key).isSome then (g, { t with pc := .fetch }) else (g, { t with pc := .done none })
  | .fetch => (g, { t with pc := .done ((g.getD []).lookup t.key) })
  | .done _ => (g, t)

def assignInit (g0 : Option Table) (keys : List Nat) : World (Option Table) AssignT :=
  { g := g0, ts := keys.map fun k => { pc := .start, key := k } }

/-! ## 3. grader look-up: row and age indices -/

/-- the scratch attributes of the shared grader object (`_fx/_fx1/_pfac` as `fx`, `_ax/_ax1/_page` as `ax`) -/
structure Scratch where
  fx : Nat
  ax : Nat
  deriving DecidableEq, Repr

/-- the table side of a look-up: how an event finds its row, an age its column, and the cell value -/
structure Grader where
  findRow : Nat → Nat
  findAge : Nat → Nat
  cell : Nat → Nat → Nat

structure Query where
  ev : Nat
  age : Nat
  deriving DecidableEq, Repr

inductive LookPC
  | start                       -- `ax, ax1, page = self.find_age(age, ages)`
  | gotAge (ax : Nat)           -- `fx = fx1 = self.find_row_by_event(event, table)`
  | gotRow (ax fx : Nat)        -- `fac = table[fx][3:][ax] ...`
  | done (r : Nat)
  deriving DecidableEq, Repr

structure LookT where
  pc : LookPC
  q : Query
  deriving DecidableEq, Repr

/-- repaired: `find_age` / `find_row_*` still store into the shared object, but return their results and the
    caller computes from those locals -/
def lookLocalStep (G : Grader) (s : Scratch) (t : LookT) : Scratch × LookT :=
  match t.pc with
  | .start => ({ s with ax := G.findAge t.q.age }, { t with pc := .gotAge (G.findAge t.q.age) })
  | .gotAge ax => ({ s with fx := G.findRow t.q.ev }, { t with pc := .gotRow ax (G.findRow t.q.ev) })
  | .gotRow ax fx => (s, { t with pc := .done (G.cell fx ax) })
  | .done _ => (s, t)

inductive SharedPC
  | start          -- `self.find_age(age, ages)`            (stores `self._ax`)
  | findRow        -- `self.find_row_by_event(event, table)` (stores `self._fx`)
  | read           -- `fx = self._fx; ax = self._ax; ... table[fx][3:][ax]`
  | done (r : Nat)
  deriving DecidableEq, Repr

structure SharedT where
  pc : SharedPC
  q : Query
  deriving DecidableEq, Repr

/-- pinned: the indices are read back from the shared object -/
def lookSharedStep (G : Grader) (s : Scratch) (t : SharedT) : Scratch × SharedT :=
  match t.pc with
  | .start => ({ s with ax := G.findAge t.q.age }, { t with pc := .findRow })
  | .findRow => ({ s with fx := G.findRow t.q.ev }, { t with pc := .read })
  | .read => (s, { t with pc := .done (G.cell s.fx s.ax) })
  | .done _ => (s, t)

/-- what a single-threaded call returns -/
def lookSpec (G : Grader) (q : Query) : Nat := G.cell (G.findRow q.ev) (G.findAge q.age)

def lookLocalInit (s0 : Scratch) (qs : List Query) : World Scratch LookT :=
  { g := s0, ts := qs.map fun q => { pc := .start, q := q } }

def lookSharedInit (s0 : Scratch) (qs : List Query) : World Scratch SharedT :=
  { g := s0, ts := qs.map fun q => { pc := .start, q := q } }

/-! ## 4. bounded memo cache -/

/-- the cache in insertion order, oldest entry first (a Python dict) -/
abbrev Cache := List (Nat × Bool)

/-- `while len(c) >= maxlen: c.pop(<newest key>)` -/
def evict (cap : Nat) (c : Cache) : Cache := if cap ≤ c.length then c.take (cap - 1) else c

/-- `c[k] = v`: an existing key keeps its position, a new key goes to the end -/
def put : Cache → Nat → Bool → Cache
  | [], k, v => [(k, v)]
  | (k', v') :: rest, k, v => if k' = k then (k, v) :: rest else (k', v') :: put rest k v

inductive CachePC
  | start            -- `v = cache.get(t)`; `if v is not None: return v`
  | miss             -- (validate, outside the lock) then `with _cache_lock:` evict + insert — one step
  | done (r : Bool)
  deriving DecidableEq, Repr

structure CacheT where
  pc : CachePC
  key : Nat
  deriving DecidableEq, Repr

/-- repaired: `truth k` is what validating `k` yields (jsonschema is a parameter of the model) -/
def cacheStep (truth : Nat → Bool) (cap : Nat) (c : Cache) (t : CacheT) : Cache × CacheT :=
  match t.pc with
  | .start =>
    match c.lookup t.key with
    | some v => (c, { t with pc := .done v })
    | none => (c, { t with pc := .miss })
  | .miss => (put (evict cap c) t.key (truth t.key), { t with pc := .done (truth t.key) })
  | .done _ => (c, t)

inductive CachePinPC
  | start            -- `if t in cache:`
  | read             -- `return cache[t]`   (`none` = KeyError)
  | miss
  | done (r : Option Bool)
  deriving DecidableEq, Repr

structure CachePinT where
  pc : CachePinPC
  key : Nat
  deriving DecidableEq, Repr

/-- pinned: membership test and read are separate steps -/
def cachePinnedStep (truth : Nat → Bool) (cap : Nat) (c : Cache) (t : CachePinT) : Cache × CachePinT :=
  match t.pc with
  | .start => if (c.lookup t.key).isSome then (c, { t with pc := .read }) else (c, { t with pc := .miss })
  | .read => (c, { t with pc := .done (c.lookup t.key) })
  | .miss => (put (evict cap c) t.key (truth t.key), { t with pc := .done (some (truth t.key)) })
  | .done _ => (c, t)

def cacheInit (c0 : Cache) (keys : List Nat) : World Cache CacheT :=
  { g := c0, ts := keys.map fun k => { pc := .start, key := k } }

def cachePinnedInit (c0 : Cache) (keys : List Nat) : World Cache CachePinT :=
  { g := c0, ts := keys.map fun k => { pc := .start, key := k } }

/-! ## bounded exploration (used by the driver and the correspondence, never by a theorem) -/

/-- all schedules of length `d` over thread ids `0..n-1` -/
def allScheds (n : Nat) : Nat → List (List Nat)
  | 0 => [[]]
  | d + 1 => (allScheds n d).flatMap fun s => (List.range n).map fun i => i :: s

/-- first schedule of length `d` after which some thread satisfies `bad` -/
def findRace {S T : Type} (step : S → T → S × T) (w0 : World S T) (bad : T → Bool) (n d : Nat) :
    Option (List Nat) :=
  (allScheds n d).find? fun s => (runSched step w0 s).ts.any bad

end AthlibVerif.Conc
