/-!
# L3 — digit strings ↔ numbers (import-free)

`val` reads a list of ASCII digit characters (most significant first, `val [] = 0`, leading zeros
allowed), `render` writes a natural number the way Python's `str(int)` / `'%d'` does (no leading zeros,
`"0"` for zero).  Lemmas live in `Lemmas/Digits.lean`.
-/
namespace AthlibVerif.Digits

/-- ASCII `0`…`9` -/
def isDig (c : Char) : Bool := decide (48 ≤ c.toNat) && decide (c.toNat ≤ 57)

def allDig (l : List Char) : Bool := l.all isDig

/-- value of one digit character, by table (0 for anything that is not an ASCII digit) -/
def dval (c : Char) : Nat :=
  if c = '1' then 1 else if c = '2' then 2 else if c = '3' then 3 else if c = '4' then 4
  else if c = '5' then 5 else if c = '6' then 6 else if c = '7' then 7 else if c = '8' then 8
  else if c = '9' then 9 else 0

def valAux (a : Nat) : List Char → Nat
  | [] => a
  | c :: cs => valAux (10 * a + dval c) cs

/-- value of a digit string, `int(s)` for `s` made of ASCII digits; `val [] = 0` -/
def val (l : List Char) : Nat := valAux 0 l

def digitChar : Nat → Char
  | 0 => '0' | 1 => '1' | 2 => '2' | 3 => '3' | 4 => '4'
  | 5 => '5' | 6 => '6' | 7 => '7' | 8 => '8' | _ => '9'

/-- digits of `n` in front of `acc`; structural on the fuel so that the kernel can evaluate it -/
def renderAux : Nat → Nat → List Char → List Char
  | 0, _, acc => acc
  | fuel + 1, n, acc =>
    if n < 10 then digitChar n :: acc else renderAux fuel (n / 10) (digitChar (n % 10) :: acc)

/-- `str(n)`: decimal digits without leading zeros (`n + 1` is more fuel than `n` has digits) -/
def render (n : Nat) : List Char := renderAux (n + 1) n []

/-- `'0' * k` -/
def zeros (k : Nat) : List Char := List.replicate k '0'

/-- `s.zfill(w)` for a digit string / `'%0wd'` -/
def padLeft (w : Nat) (l : List Char) : List Char := zeros (w - l.length) ++ l

/-- `t.lstrip('0')` -/
def stripZeros : List Char → List Char
  | [] => []
  | c :: cs => if c = '0' then stripZeros cs else c :: cs

end AthlibVerif.Digits
