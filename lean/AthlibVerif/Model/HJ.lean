/-!
# L7 — the high-jump competition state machine (`athlib/highjump.py`), transcribed line by line

`step : Comp → Op → Comp × Outcome` returns the *possibly mutated* state even when the call is
refused, so that "a refused call changes nothing" is a theorem about the code's order of checks and
mutations and not an artefact of the modelling.  Bibs are `Nat`, heights `Int` hundredths.
Import-free.  Athletes are registered with a bib only (no DQ/DNS `order`).
-/
namespace AthlibVerif.HJ
inductive Trial | o | x | p | r deriving DecidableEq, Repr, Inhabited
inductive Phase | scheduled | started | jumpoff | won | finished | drawn deriving DecidableEq, Repr, Inhabited
inductive Outcome | ok | rule | key | assert deriving DecidableEq, Repr

structure Jumper where
  bib : Nat
  card : List (List Trial) := []
  best : Int := 0
  bestIdx : Option Nat := none
  eliminated : Bool := false
  dismissed : Bool := false
  roundLim : Nat := 3
  consec : Nat := 0
  place : Nat := 1
  deriving DecidableEq, Repr, Inhabited

inductive Op
  | add (bib : Nat) | bar (h : Int) | trial (bib : Nat) (t : Trial)
  deriving DecidableEq, Repr

structure Comp where
  jumpers : List Jumper := []
  ranked : List Nat := []      -- bibs, ranked order
  heights : List Int := []
  phase : Phase := .scheduled
  log : List Op := []
  deriving DecidableEq, Repr, Inhabited

def countX (l : List Trial) : Nat := l.count .x

def Jumper.hasRetired (j : Jumper) : Bool :=
  match j.card.getLast? with
  | some l => l.getLast? == some .r
  | none => false

structure Key where
  status : Nat
  negBest : Int
  fa : Nat
  fb : Nat
  deriving DecidableEq, Repr

def Key.lt (a b : Key) : Bool :=
  a.status < b.status || (a.status == b.status && (a.negBest < b.negBest || (a.negBest == b.negBest &&
    (a.fa < b.fa || (a.fa == b.fa && a.fb < b.fb)))))

def Jumper.key (j : Jumper) : Key :=
  match j.bestIdx with
  | none => { status := if j.eliminated then 3 else 1, negBest := -j.best, fa := 0, fb := 0 }
  | some i =>
    let fa := countX (j.card.getD i [])
    let fb := fa + ((j.card.take i).map countX).sum
    { status := if j.eliminated then 2 else 0, negBest := -j.best, fa := fa, fb := fb }

def Comp.find (c : Comp) (bib : Nat) : Option Jumper := c.jumpers.find? (·.bib == bib)
def Comp.update (c : Comp) (j : Jumper) : Comp :=
  { c with jumpers := c.jumpers.map (fun k => if k.bib == j.bib then j else k) }

/-- stable insertion of bib into list sorted by key -/
def insertBy (c : Comp) (b : Nat) : List Nat → List Nat
  | [] => [b]
  | a :: rest =>
    match c.find b, c.find a with
    | some jb, some ja => if Key.lt jb.key ja.key then b :: a :: rest else a :: insertBy c b rest
    | _, _ => a :: insertBy c b rest
def sortRanked (c : Comp) (l : List Nat) : List Nat := l.foldl (fun acc b => insertBy c b acc) []

/-- assign places along ranked order -/
def assignPlaces (c : Comp) : List Nat → Nat → Option (Key × Nat) → Comp
  | [], _, _ => c
  | b :: rest, i, prev =>
    match c.find b with
    | none => assignPlaces c rest (i+1) prev
    | some j =>
      let k := j.key
      let pl := match prev with
        | none => 1
        | some (pk, pp) => if k = pk then pp else i + 1
      assignPlaces (c.update { j with place := pl }) rest (i+1) (some (k, pl))

def reinstate (j : Jumper) : Jumper := { j with eliminated := false, roundLim := 1, consec := 0 }

/-- sort the ranked list (stable) and assign places: `_rankj` -/
def rankj (c : Comp) : Comp :=
  let ranked := sortRanked c c.ranked
  assignPlaces { c with ranked := ranked } ranked 0 none

/-- who is re-instated when everybody is out and first place is tied -/
def reinstated (c : Comp) (j : Jumper) : Bool :=
  j.place == 1 && !j.hasRetired && !(c.phase == .jumpoff && j.card.length < c.heights.length)

/-- everybody is out and first place is tied: re-instate the tied athletes who may jump off, or declare a draw -/
def rankTie (c : Comp) : Comp :=
  let nc := (c.jumpers.filter (reinstated c)).length
  let c' := { c with jumpers := c.jumpers.map (fun (j : Jumper) => if reinstated c j then reinstate j else j) }
  if nc > 0 then rankj { c' with phase := .jumpoff } else { c' with phase := .drawn }

/-- everybody is out and there is a single leader `r0` -/
def rankLeader (c : Comp) (r0 : Nat) : Comp :=
  match c.find r0 with
  | some j0 =>
    if c.phase == .jumpoff && !j0.hasRetired then rankj (c.update (reinstate j0))
    else { c with phase := .finished }
  | none => c

/-- exactly one athlete `w` is still in -/
def rankOneLeft (c : Comp) (w : Jumper) : Comp :=
  if w.card.length == c.heights.length && (w.card.getLast?.getD []).contains .o then
    { c with phase := if c.phase == .started || c.phase == .won then .won else .finished }
  else c

/-- is the second-ranked athlete also in first place? (`len(rankj) > 1 and rankj[1]._place == 1`) -/
def secondIsFirst (c : Comp) (rrest : List Nat) : Bool :=
  match rrest with
  | [] => false
  | r1 :: _ => (match c.find r1 with | some j => j.place == 1 | none => false)

/-- `_rank`: determine who is winning, and the state transitions -/
def rank (c0 : Comp) : Comp :=
  let c := rankj c0
  match c.ranked with
  | [] => c
  | r0 :: rrest =>
    match c.jumpers.filter (fun j => !j.eliminated) with
    | [] =>
      if secondIsFirst c rrest then rankTie c else rankLeader c r0
    | [w] => rankOneLeft c w
    | _ => c

def padCard (card : List (List Trial)) (n : Nat) : List (List Trial) :=
  card ++ List.replicate (n - card.length) []

def appendLast (card : List (List Trial)) (t : Trial) : List (List Trial) :=
  match card.reverse with
  | [] => []
  | l :: rest => (((l ++ [t]) :: rest).reverse)

/-- the card/flag updates of `cleared` / `failed` / `passed` / `retired` once the guard has passed -/
def Jumper.actCore (j : Jumper) (hc : Nat) (h : Int) (t : Trial) : Jumper :=
  let card := appendLast (padCard j.card hc) t
  match t with
  | .o =>
    if j.bestIdx.isNone || h > j.best then
      { j with card := card, best := h, bestIdx := some (card.length - 1), consec := 0, dismissed := true }
    else { j with card := card, consec := 0, dismissed := true }
  | .x =>
    if j.consec + 1 ≥ j.roundLim then { j with card := card, consec := j.consec + 1, eliminated := true, dismissed := true }
    else { j with card := card, consec := j.consec + 1, dismissed := false }
  | .p => { j with card := card, dismissed := true }
  | .r => { j with card := card, eliminated := true, dismissed := true }

/-- Jumper-level op; `none` on RuleViolation: the guard of `_set_jump_array` (no observable mutation
    happens before the raise) -/
def Jumper.act (j : Jumper) (hc : Nat) (h : Int) (t : Trial) : Option Jumper :=
  if j.eliminated || j.dismissed then none
  else if ((padCard j.card hc).getLast?.getD []).length + 1 > j.roundLim then none   -- `len(atts[-1]) > round_lim - 1`
  else some (j.actCore hc h t)

/-- `check_started`: who may act in which state -/
def trialAllowed (c : Comp) (j : Jumper) : Bool :=
  c.phase == .started || c.phase == .jumpoff || ((c.phase == .won || c.phase == .drawn) && j.place == 1)

def step (c : Comp) : Op → Comp × Outcome
  | .add bib =>
    if c.phase != .scheduled then (c, .rule)
    else if (c.find bib).isSome then (c, .rule)
    else
      let j : Jumper := { bib := bib, place := c.jumpers.length + 1 }
      ({ c with jumpers := c.jumpers ++ [j], ranked := c.ranked ++ [bib], log := c.log ++ [.add bib] }, .ok)
  | .bar h =>
    if !(c.phase == .scheduled || c.phase == .started || c.phase == .jumpoff || c.phase == .won) then (c, .rule)
    else
      let prev := c.heights.getLast?.getD 0
      if c.phase != .jumpoff && prev ≥ h then (c, .rule)
      else
        let c1 := if c.phase == .scheduled then { c with phase := .started } else c
        ({ c1 with jumpers := c1.jumpers.map (fun (j : Jumper) => if !j.eliminated then { j with dismissed := false } else j),
                   heights := c1.heights ++ [h], log := c1.log ++ [.bar h] }, .ok)
  | .trial bib t =>
    match c.find bib with
    | none => (c, .key)
    | some j =>
      if !trialAllowed c j then (c, .rule)
      else if c.heights.length == 0 then (c, .assert)
      else
        match j.act c.heights.length (c.heights.getLast?.getD 0) t with
        | none => (c, .rule)
        | some j' => (rank { (c.update j') with log := c.log ++ [.trial bib t] }, .ok)
end AthlibVerif.HJ