import AthlibVerif.Gen.AthlonData
/-! obligations over the regenerated coefficient table: every row is a well-formed power law
    (positive coefficient, positive exponent, denominators non-zero), and the age table is usable -/
namespace AthlibVerif.Oblig.C01
open AthlibVerif AthlibVerif.Athlon

def rowOK (r : ScoreRow) : Bool := decide (0 < r.aN) && decide (0 < r.aD) && decide (0 < r.xa) && decide (0 < r.xb)

theorem table_ok : (Gen.esaaRow :: Gen.scoringTable).all rowOK = true := by decide +kernel

/-- the age factors are positive and there is one per band after the first age column -/
def ageOK (d : AgeData) : Bool :=
  decide (0 < d.scale) && (d.m ++ d.f).all (fun r => r.2.length + 1 == d.ages.length && r.2.all (fun f => decide (0 < f)))

theorem age_ok : ageOK Gen.athlonAges = true := by decide +kernel

end AthlibVerif.Oblig.C01
