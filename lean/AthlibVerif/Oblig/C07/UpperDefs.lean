import AthlibVerif.Lemmas.RegexMap
import AthlibVerif.Model.Match
import AthlibVerif.Gen.Patterns
import AthlibVerif.Gen.Alphabet
import AthlibVerif.Gen.GPatterns
import AthlibVerif.Gen.CodesData
/-! obligation: the upper-cased image of the *generic* event-code language (the general pattern with the
    weight / hurdle-specification groups that have their own normalisers left empty) is inside the
    event-code language — the obligation the `[sS][sW][tT]` slip broke (witness 'sst' -> 'SST') -/
namespace AthlibVerif.Oblig.C07
open AthlibVerif AthlibVerif.Gen

def upperF (x : Nat) : Nat := upperSym.getD x x

/-- group numbers (in PAT_EVENT_CODE) of the groups that have a normaliser of their own -/
def normGroupIds : List Nat :=
  match gGroupNames.find? (·.1 == "PAT_EVENT_CODE") with
  | some e => gnorms.filterMap (fun nk => (e.2.find? (·.1 == nk.1)).map (·.2))
  | none => []

/-- the general pattern with those groups empty -/
def genericEvent : RE := GRE.toRE normGroupIds G_PAT_EVENT_CODE

end AthlibVerif.Oblig.C07
