import AthlibVerif.Lemmas.RegexMap
import AthlibVerif.Model.Match
import AthlibVerif.Gen.Patterns
import AthlibVerif.Gen.Alphabet
import AthlibVerif.Gen.GPatterns
import AthlibVerif.Gen.CodesData
/-! obligation: the upper-cased image of the *generic* event-code language (the general pattern with the
    weight / hurdle-specification groups that have their own normalisers left empty) is inside the
    event-code language — the obligation the `[sS][sW][tT]` slip broke (witness 'sst' -> 'SST') -/
namespace AthlibVerif.Oblig.C07
open AthlibVerif AthlibVerif.Gen

def upperF (x : Nat) : Nat := upperSym.getD x x

/-- group numbers (in PAT_EVENT_CODE) of the groups that have a normaliser of their own -/
def normGroupIds : List Nat :=
  match gGroupNames.find? (·.1 == "PAT_EVENT_CODE") with
  | some e => gnorms.filterMap (fun nk => (e.2.find? (·.1 == nk.1)).map (·.2))
  | none => []

/-- the general pattern with those groups empty -/
def genericEvent : RE := GRE.toRE normGroupIds G_PAT_EVENT_CODE

theorem generic_positive : RE.positive genericEvent = true := by decide +kernel
theorem upper_bounded : (List.range (nsym + 1)).all (fun x => decide (upperF x ≤ nsym)) = true := by decide +kernel
theorem generic_inside : RE.isEmptyLang nsym 100000 (RE.and genericEvent (RE.not PAT_EVENT_CODE)) = true := by
  decide +kernel
theorem upper_closed :
    RE.isEmptyLang nsym 100000 (RE.and (RE.mapSyms upperF nsym genericEvent) (RE.not PAT_EVENT_CODE)) = true := by
  decide +kernel
end AthlibVerif.Oblig.C07
