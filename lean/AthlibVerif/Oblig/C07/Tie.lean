import AthlibVerif.Lemmas.MatchTie
/-!
Obligation over the regenerated patterns: every pattern of `Gen/Patterns.lean` (the `RE` rendering the C04
theorems speak about) is tied to its rendering with groups (`Gen/GPatterns.lean`, what the transcription of
`athlib/utils.py` matches with): within the matcher's fuel budget, `$` at the end of every branch and nowhere
else, same expression modulo the order of `x?`.  Evaluated by the kernel on the regenerated terms.
-/
namespace AthlibVerif.Oblig.C07
open AthlibVerif

theorem patterns_tied : Gen.patternTable.all (fun e => tieOK (Codes.pat e.1) e.2) = true := by decide +kernel

theorem tied {name : String} {p : RE} (h : (name, p) ∈ Gen.patternTable) : tieOK (Codes.pat name) p = true :=
  List.all_eq_true.1 patterns_tied (name, p) h

end AthlibVerif.Oblig.C07
