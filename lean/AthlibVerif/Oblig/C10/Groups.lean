import AthlibVerif.Lemmas.MatchCodes
import AthlibVerif.Lemmas.MatchWords
import AthlibVerif.Lemmas.RelayLeg
import AthlibVerif.Lemmas.DistRelay
import AthlibVerif.Gen.Patterns
/-!
Obligations over the regenerated patterns and alphabet: the groups the transcription of
`discipline_sort_key` / `get_distance` / `get_duration_event_time` hands to `int()` can only capture `\d+`;
every code point of the digit class has a digit value.  Evaluated by the kernel.
-/
namespace AthlibVerif.Oblig.C10
open AthlibVerif AthlibVerif.Codes

theorem digit_table : digitTableOK = true := by decide +kernel

theorem hurdles_metres : (groupDigits (pat "PAT_HURDLES") 1 && GRE.mandatory [1] (pat "PAT_HURDLES")) = true := by
  decide +kernel
theorem relays_legs : (groupDigits (pat "PAT_RELAYS") 1 && GRE.mandatory [1] (pat "PAT_RELAYS")) = true := by
  decide +kernel

/-- the hours / minutes groups of the fixed-duration pattern only capture `\d+`, and every match has one of them -/
def durationGroupsOK : Bool :=
  match groupId "PAT_RACES_FOR_DISTANCE" "dhours", groupId "PAT_RACES_FOR_DISTANCE" "dmins" with
  | some h, some m =>
    groupDigits (pat "PAT_RACES_FOR_DISTANCE") h && groupDigits (pat "PAT_RACES_FOR_DISTANCE") m &&
      GRE.mandatory [h, m] (pat "PAT_RACES_FOR_DISTANCE")
  | _, _ => false

theorem duration_groups : durationGroupsOK = true := by decide +kernel

/-- the metres group of the track pattern captures `\d+`, `MILE` or one digit and `MILE`; M, I, L, E are
    symbols of their own -/
theorem track_metres : trackMetresOK = true := by decide +kernel

/-- every throws code starts, up to letter case, with an entry of `FIELD_SORT_ORDER` of two to four letters -/
theorem throws_prefix : fieldPrefixOK true Gen.PAT_THROWS = true := by decide +kernel
/-- every jumps code starts, up to letter case, with an entry of `FIELD_SORT_ORDER` of two or three letters -/
theorem jumps_prefix : fieldPrefixOK false Gen.PAT_JUMPS = true := by decide +kernel

/-- the leading-number patterns of `get_distance` only match `\d+\.\d*` / `\d+`; the point is a symbol of its own -/
theorem leading : leadingOK = true := by decide +kernel
/-- every relay code contains `x`/`X`; the leg group always takes part and captures no white space, `x`, `X` -/
theorem relay_leg : relayLegOK = true := by decide +kernel
/-- no track code is white space only, and none has a relay as its first token -/
theorem track_token : tokenNotRelayOK Gen.PAT_TRACK = true := by decide +kernel

/-- the event codes that are not relays: none is white space only, none has a relay as its first token -/
def nonRelayCodes : RE := RE.and Gen.PAT_EVENT_CODE (RE.not Gen.PAT_RELAYS)
theorem code_token : tokenNotRelayOK nonRelayCodes = true := by decide +kernel

/-- the leading-number patterns ARE `\d+` / `\d+\.\d*` (so the greedy-engine lemmas apply to them) -/
theorem leading_shape : leadingShapeOK = true := by decide +kernel
theorem num_facts : numFactsOK = true := by decide +kernel
/-- a relay leg is `\d+(\.\d+)?[hHMK]?` or one of RELAY, DMR, SMR, SDMR, SSMR, SWR in any letter case -/
theorem leg_shape : legShapeOK = true := by decide +kernel
/-- no event code consists of white space only -/
theorem codes_have_token : RE.isEmptyLang Gen.nsym 100000 (RE.and Gen.PAT_EVENT_CODE spaceStar) = true := by decide +kernel

end AthlibVerif.Oblig.C10
