import AthlibVerif.Gen.Junior
/-! every table key of the four systems is accepted by the regenerated `PAT_EVENT_CODE`
    (so the row can be reached through the public function under its own event code) -/
namespace AthlibVerif.Oblig.C11
open AthlibVerif AthlibVerif.Junior

def validCode (s : String) : Bool := Gen.PAT_EVENT_CODE.matchesChars s.toList

def allKeys : List String :=
  (Gen.tyrvingTables.map (·.event) ++ Gen.qkidsTables.map (·.event) ++ Gen.sportshallTables.map (·.code) ++
    Gen.bulgarianTables.map (·.event)).eraseDups

theorem keys_valid : allKeys.all validCode = true := by decide +kernel

end AthlibVerif.Oblig.C11
