import AthlibVerif.Gen.Junior
import AthlibVerif.Lemmas.Junior
/-! obligations over the regenerated junior tables: every table is well formed and ordered
    (better marks, more points).  Kernel-evaluated (`decide +kernel`) on every run. -/
namespace AthlibVerif.Oblig.C11
open AthlibVerif AthlibVerif.Junior

/-- consecutive ages, values weakly improving with age (`down`: smaller is better) -/
def baseTabOK (down : Bool) : BaseTab → Bool
  | [] => false
  | [_] => true
  | a :: b :: l => decide (a.1 + 1 = b.1) && (if down then decide (b.2 ≤ a.2) else decide (a.2 ≤ b.2)) && baseTabOK down (b :: l)

def tyRowOK (r : TyRow) : Bool :=
  match r.cal with
  | .race _ mN base => decide (0 < mN) && baseTabOK true base
  | .jump mN base => decide (0 < mN) && baseTabOK false base
  | .stav m0 m1 m2 l0 l1 p2 =>
    decide (0 < m0) && decide (0 < m1) && decide (0 < m2) && baseTabOK false l0 && baseTabOK false l1 && baseTabOK true p2 &&
      (l0.map (·.1) == l1.map (·.1)) && (l0.map (·.1) == p2.map (·.1))
  | .bad => false

/-- Tyrving: positive scale and multipliers, base performances by consecutive age improving with age,
    the three tables of a pole-vault / throw row cover the same ages -/
theorem tyrving_tables_ok : (decide (0 < Gen.tyrvingScale) && Gen.tyrvingTables.all tyRowOK) = true := by decide +kernel

/-- QuadKids: positive increment; the 10-point mark is worse than the 100-point mark -/
def qkRowOK (r : QkRow) : Bool :=
  decide (0 < r.incN) && decide (0 < r.incD) &&
    (if Tyrving.isRun r.event then decide (r.top < r.base) else decide (r.base < r.top))

theorem qkids_tables_ok : Gen.qkidsTables.all qkRowOK = true := by decide +kernel

/-- Recorded finding: QuadKids Start standing long jump lists 0.75 m (10 points) and 3.00 m (100 points) with an
    increment of 0.03 m; ninety increments of 0.03 m from 0.75 m end at 3.45 m (the marks fit 0.025 m). -/
def qkRecorded (r : QkRow) : Bool := r.comp == "QKSTA" && r.event == "SLJ"

/-- the published 100-point mark is ninety increments better than the 10-point mark -/
def qkConsistent (r : QkRow) : Bool :=
  qkRecorded r ||
  (if Tyrving.isRun r.event then r.base * r.incD == r.top * r.incD + 90 * r.incN
   else r.top * r.incD == r.base * r.incD + 90 * r.incN)

theorem qkids_tables_consistent : Gen.qkidsTables.all qkConsistent = true := by decide +kernel

/-- points strictly increasing down the table, thresholds never getting easier -/
def shSorted (high : Bool) : List (Nat × Nat) → Bool
  | [] => true
  | [_] => true
  | a :: b :: l => decide (a.1 < b.1) && (if high then decide (a.2 ≤ b.2) else decide (b.2 ≤ a.2)) && shSorted high (b :: l)

/-- Sportshall: non-empty sorted tables; timed events have a beyond-table step -/
def shEventOK (e : ShEvent) : Bool :=
  !e.rows.isEmpty && shSorted e.high e.rows && decide (0 < e.incD) && (e.high || decide (0 < e.incN))

theorem sportshall_tables_ok : Gen.sportshallTables.all shEventOK = true := by decide +kernel

/-- Bulgarian: the per-centi table covers exactly min…max without gaps, points between 1 and 150,
    strictly better points for better marks -/
def bgTableOK (t : BgTable) : Bool :=
  Bulgarian.chainB t.timed t.runs && t.runs.all (fun r => decide (1 ≤ r.2.2) && decide (r.2.2 ≤ 150)) &&
    (t.runs.head?.map (·.1) == some (min t.minV t.maxV)) && (t.runs.getLast?.map (·.2.1) == some (max t.minV t.maxV)) &&
    (t.timed == decide (t.maxV < t.minV))

theorem bulgarian_tables_ok : Gen.bulgarianTables.all bgTableOK = true := by decide +kernel

end AthlibVerif.Oblig.C11
