import AthlibVerif.Gen.Junior
/-! every Sportshall row is reachable: the mark equal to its threshold scores exactly its points.
    Recorded finding: the 800 m column repeats 33 thresholds (e.g. 133 s for 75 and 74 points); the
    lower-point row of such a pair can never be returned.  Exactly that case — same event, an identical
    threshold carrying more points — is excluded here and reported by the check as a known finding. -/
namespace AthlibVerif.Oblig.C11
open AthlibVerif AthlibVerif.Junior

def dupRecorded (code : String) : Bool := code == "800"

def shRowReachable (e : ShEvent) (r : Nat × Nat) : Bool :=
  Sportshall.points e r.2 == r.1 ||
    (dupRecorded e.code && e.rows.any (fun r' => r'.2 == r.2 && decide (r.1 < r'.1)))

theorem sportshall_rows_reachable :
    Gen.sportshallTables.all (fun e => e.rows.all (shRowReachable e)) = true := by decide +kernel

/-- every tabulated Tyrving (row, age) yields points (no missing level) -/
def tyAgesReach (r : TyRow) : Bool :=
  let ages : List Nat := match r.cal with
    | .race _ _ b => b.map (fun e => e.1) | .jump _ b => b.map (fun e => e.1)
    | .stav _ _ _ l0 _ _ => l0.map (fun e => e.1) | .bad => []
  !ages.isEmpty && ages.all (fun a => match Tyrving.calcPoints Gen.tyrvingScale r.cal a 0 false with
    | .pts _ => true | _ => false)

theorem tyrving_rows_reachable : Gen.tyrvingTables.all tyAgesReach = true := by decide +kernel

end AthlibVerif.Oblig.C11
