import AthlibVerif.Gen.Junior
import AthlibVerif.Lemmas.Junior
/-! C05 side-conditions over the regenerated Tyrving tables: positive scale and multipliers, and every
    pole-vault / throw table satisfies the join condition of the three-piece formula at every tabulated age -/
namespace AthlibVerif.Oblig.C05
open AthlibVerif AthlibVerif.Junior

def stavJoinB (S : Nat) : TyCalc → Bool
  | .stav _ m1 _ l0 l1 p2 => l0.all fun e =>
      match baseAt l1 e.1, baseAt p2 e.1 with
      | some L1, some P2 => decide (Tyrving.stavJoin S m1 e.2 L1 P2)
      | _, _ => true
  | _ => true

def multPos : TyCalc → Bool
  | .race _ mN _ => decide (0 < mN)
  | .jump mN _ => decide (0 < mN)
  | .stav m0 m1 m2 _ _ _ => decide (0 < m0) && decide (0 < m1) && decide (0 < m2)
  | .bad => true

theorem tyrving_join : Gen.tyrvingTables.all (fun r => stavJoinB Gen.tyrvingScale r.cal) = true := by decide +kernel

theorem tyrving_positive : (decide (0 < Gen.tyrvingScale) && Gen.tyrvingTables.all (fun r => multPos r.cal)) = true := by
  decide +kernel

end AthlibVerif.Oblig.C05
