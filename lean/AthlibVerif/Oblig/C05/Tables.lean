import AthlibVerif.Gen.Junior
import AthlibVerif.Lemmas.Junior
/-! C05 side-conditions over the regenerated QuadKids, Sportshall, Bulgarian and Hungarian data -/
namespace AthlibVerif.Oblig.C05
open AthlibVerif AthlibVerif.Junior

theorem qkids_positive : Gen.qkidsTables.all (fun r => decide (0 < r.incN) && decide (0 < r.incD)) = true := by decide +kernel

/-- the last row of every Sportshall table carries the greatest points -/
def lastMaxB (rows : List (Nat × Nat)) : Bool :=
  match rows.getLast? with
  | none => true
  | some l => rows.all (fun r => decide (r.1 ≤ l.1))

theorem sportshall_last_max : Gen.sportshallTables.all (fun e => lastMaxB e.rows) = true := by decide +kernel

/-- Bulgarian: contiguous runs, points strictly ordered with the marks, nothing above 150 -/
theorem bulgarian_ordered :
    Gen.bulgarianTables.all (fun t => Bulgarian.chainB t.timed t.runs && t.runs.all (fun r => decide (r.2.2 ≤ 150))) = true := by
  decide +kernel

/-- Hungarian: positive leading coefficient, usable denominators -/
theorem hungarian_positive :
    Gen.hungarianFactors.all (fun r => decide (0 < r.aN) && decide (0 < r.aD) && decide (0 < r.bD) && decide (0 < r.cD)) = true := by
  decide +kernel

end AthlibVerif.Oblig.C05
