import AthlibVerif.Model.WmaChecks
import AthlibVerif.Gen.WmaAthlons
/-! obligation over the regenerated combined-events table: every non-null factor is positive, one cell
    per age band, bands strictly increasing -/
namespace AthlibVerif.Oblig.C14
open AthlibVerif AthlibVerif.Wma
theorem factors_ok_athlons : factorsOK Gen.wmaAthlons = true := by decide +kernel
end AthlibVerif.Oblig.C14
