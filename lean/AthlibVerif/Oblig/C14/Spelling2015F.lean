import AthlibVerif.Model.WmaChecks
import AthlibVerif.Gen.Wma2015
/-! obligation over the regenerated table and patterns (2015, f): row names are distinct, upper-case and
    classified by the live patterns; the lower-case spelling of every row name is either refused or
    measured the same way (timed / field) -/
namespace AthlibVerif.Oblig.C14
open AthlibVerif AthlibVerif.Wma
theorem spelling_ok_2015_f : spellingOK Gen.wma2015.f = true := by decide +kernel
end AthlibVerif.Oblig.C14
