import AthlibVerif.Model.WmaChecks
import AthlibVerif.Gen.Wma2015
/-! obligation over the regenerated 2015 table: every non-null factor and every open best is positive,
    one cell per age column, age columns strictly increasing -/
namespace AthlibVerif.Oblig.C14
open AthlibVerif AthlibVerif.Wma
theorem factors_ok_2015 : factorsOK Gen.wma2015 = true := by decide +kernel
theorem bests_ok_2015 : bestsOK Gen.wma2015 = true := by decide +kernel
end AthlibVerif.Oblig.C14
