import AthlibVerif.Model.WmaChecks
import AthlibVerif.Gen.WmaAthlons
/-! obligation over the regenerated table and patterns (Athlons, m): row names are distinct, upper-case and
    classified by the live patterns; the lower-case spelling of every row name is either refused or
    measured the same way (timed / field) -/
namespace AthlibVerif.Oblig.C14
open AthlibVerif AthlibVerif.Wma
theorem spelling_ok_athlons_m : spellingOK Gen.wmaAthlons.m = true := by decide +kernel
end AthlibVerif.Oblig.C14
