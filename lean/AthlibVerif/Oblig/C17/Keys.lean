import AthlibVerif.Model.Sym
import AthlibVerif.Gen.Patterns
import AthlibVerif.Gen.TableKeys
/-! obligation: every event-code key of the library's own tables is accepted by the general pattern -/
namespace AthlibVerif.Oblig.C17
open AthlibVerif
theorem table_keys_ok : Gen.tableKeys.all (fun k => Gen.PAT_EVENT_CODE.matchesChars k.toList) = true := by decide +kernel
end AthlibVerif.Oblig.C17
