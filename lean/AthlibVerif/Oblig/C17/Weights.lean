import AthlibVerif.Model.Sym
import AthlibVerif.Model.Implements
import AthlibVerif.Gen.Patterns
import AthlibVerif.Gen.Implements
/-! obligations over the regenerated implement rules: masters weights never increase with the band,
    and every weight-specific code the library builds is a valid throws code carrying the table's weight -/
namespace AthlibVerif.Oblig.C17
open AthlibVerif AthlibVerif.Implements

def throwsEvents : List String := ["SP", "DT", "HT", "JT", "WT"]
def genders : List String := ["M", "F"]
/-- masters labels as the library produces them (`'V%02d'`), V35 … V150 -/
def mastersLabels : List String :=
  ["V35", "V40", "V45", "V50", "V55", "V60", "V65", "V70", "V75", "V80", "V85", "V90", "V95", "V100", "V105", "V110",
   "V115", "V120", "V125", "V130", "V135", "V140", "V145", "V150"]
/-- every age-group label the library itself produces -/
def libraryLabels : List String := ["U9", "U11", "U13", "U15", "U17", "U20", "U23", "SEN"] ++ mastersLabels
def otherLabels : List String := ["U14", "U16", "U18", "V30", "XYZ", "", "v50", "V5", "V999"]

/-- weight text as hundredths (`"7.26"` → 726, `"800"` → 80000); 0 when absent or malformed -/
def wNum (w : List Char) : Nat :=
  let i := w.takeWhile (· != '.')
  let f := (w.dropWhile (· != '.')).drop 1
  ((natOf i).getD 0) * 100 + ((natOf ((f ++ ['0', '0']).take 2)).getD 0)

def w (ev g ag : String) : List Char := weight Gen.implementRenames Gen.implementRules ev.toList g.toList ag.toList

def nonIncreasing : List Nat → Bool
  | a :: b :: rest => decide (b ≤ a) && nonIncreasing (b :: rest)
  | _ => true

/-- masters implements are defined for every band and never get heavier as the band rises -/
def mastersOK : Bool :=
  throwsEvents.all (fun ev => genders.all (fun g =>
    let ws := mastersLabels.map (fun ag => wNum (w ev g ag))
    ws.all (fun x => decide (0 < x)) && nonIncreasing ws))

theorem masters_ok : mastersOK = true := by decide +kernel

/-- the weight-specific code is an accepted throws code that spells the table's weight (the generic code where the table has none) -/
def codeOK (ev g ag : String) : Bool :=
  match specificCode Gen.implementRenames Gen.implementRules ev.toList g.toList ag.toList with
  | none => false
  | some c =>
    if (w ev g ag).isEmpty then
      -- no implement tabulated for this label: the generic code, itself an accepted throws code
      c == ev.toList && Gen.PAT_THROWS.matchesChars c && Gen.PAT_EVENT_CODE.matchesChars c
    else Gen.PAT_THROWS.matchesChars c && Gen.PAT_EVENT_CODE.matchesChars c &&
              c == ev.toList ++ collapse (w ev g ag) ++ (if isKg (w ev g ag) then ['K'] else [])

def codesOK : Bool :=
  throwsEvents.all (fun ev => genders.all (fun g => (libraryLabels ++ otherLabels).all (fun ag => codeOK ev g ag)))

theorem codes_ok : codesOK = true := by decide +kernel

end AthlibVerif.Oblig.C17
