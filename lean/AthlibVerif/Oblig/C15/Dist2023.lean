import AthlibVerif.Model.WmaChecks
import AthlibVerif.Gen.Wma2023
/-! obligations over the regenerated 2023 table: the run section exists, starts after a row without
    distance, has positive distances; open bests never decrease along the brackets the scan can
    produce (`chainOK`); every run row's name carries a distance -/
namespace AthlibVerif.Oblig.C15
open AthlibVerif AthlibVerif.Wma
theorem dist_ok_2023_m : distOK Gen.wma2023.m = true := by decide +kernel
theorem dist_ok_2023_f : distOK Gen.wma2023.f = true := by decide +kernel
theorem run_names_2023 : (runNamesHaveDistance Gen.wma2023.m && runNamesHaveDistance Gen.wma2023.f) = true := by decide +kernel
end AthlibVerif.Oblig.C15
