import AthlibVerif.Model.WmaChecks
import AthlibVerif.Gen.Wma2023
/-! obligation over the regenerated 2023 table: no run row lies strictly between the two distances of a
    bracket the linear scan can produce, so the bracket rows are nearest tabulated events.  (On the
    pinned tree the men's rows fail it: `10000` precedes `5MT`, so 8001–8046 m is bracketed by
    8000 / 10000 although 5MT and 5M lie in between; `fixes/wma-7-*.diff` re-orders the rows.) -/
namespace AthlibVerif.Oblig.C15
open AthlibVerif AthlibVerif.Wma
theorem no_seam_2023_m : noSeam (runKms Gen.wma2023.m) = true := by decide +kernel
theorem no_seam_2023_f : noSeam (runKms Gen.wma2023.f) = true := by decide +kernel
end AthlibVerif.Oblig.C15
