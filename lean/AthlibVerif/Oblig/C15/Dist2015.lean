import AthlibVerif.Model.WmaChecks
import AthlibVerif.Gen.Wma2015
/-! obligations over the regenerated 2015 table: the run section exists, starts after a row without
    distance, has positive distances; open bests never decrease along the brackets the scan can
    produce (`chainOK`); every run row's name carries a distance -/
namespace AthlibVerif.Oblig.C15
open AthlibVerif AthlibVerif.Wma
theorem dist_ok_2015_m : distOK Gen.wma2015.m = true := by decide +kernel
theorem dist_ok_2015_f : distOK Gen.wma2015.f = true := by decide +kernel
theorem run_names_2015 : (runNamesHaveDistance Gen.wma2015.m && runNamesHaveDistance Gen.wma2015.f) = true := by decide +kernel
end AthlibVerif.Oblig.C15
