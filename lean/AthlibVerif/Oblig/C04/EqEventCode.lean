import AthlibVerif.Gen.Patterns
import AthlibVerif.Gen.Alphabet
/-! obligation: `PAT_EVENT_CODE` = union of PAT_TRACK, PAT_HURDLES, PAT_ROAD, PAT_RELAYS, PAT_JUMPS, PAT_THROWS, PAT_MULTI, PAT_RACES_FOR_DISTANCE, PAT_HIGHSCORING_EVENT, PAT_LOWSCORING_EVENT (kernel-evaluated emptiness of the symmetric difference) -/
namespace AthlibVerif.Oblig.C04
open AthlibVerif AthlibVerif.Gen
def unionEventCode : RE := (.alt PAT_TRACK (.alt PAT_HURDLES (.alt PAT_ROAD (.alt PAT_RELAYS (.alt PAT_JUMPS (.alt PAT_THROWS (.alt PAT_MULTI (.alt PAT_RACES_FOR_DISTANCE (.alt PAT_HIGHSCORING_EVENT PAT_LOWSCORING_EVENT)))))))))
theorem eqEventCode : RE.eqCheck nsym 100000 PAT_EVENT_CODE unionEventCode = true := by decide +kernel
end AthlibVerif.Oblig.C04
