import AthlibVerif.Gen.Patterns
import AthlibVerif.Gen.Alphabet
/-! obligation: `PAT_JUMPS` = union of PAT_VERTICAL_JUMPS, PAT_HORIZONTAL_JUMPS (kernel-evaluated emptiness of the symmetric difference) -/
namespace AthlibVerif.Oblig.C04
open AthlibVerif AthlibVerif.Gen
def unionJumps : RE := (.alt PAT_VERTICAL_JUMPS PAT_HORIZONTAL_JUMPS)
theorem eqJumps : RE.eqCheck nsym 100000 PAT_JUMPS unionJumps = true := by decide +kernel
end AthlibVerif.Oblig.C04
