import AthlibVerif.Gen.Patterns
import AthlibVerif.Gen.Alphabet
/-! obligation: no string is both a jump and a throw (used by `unit_name` / `event_code_to_kind`) -/
namespace AthlibVerif.Oblig.C04
open AthlibVerif AthlibVerif.Gen
theorem disjJumpsThrows : RE.isEmptyLang nsym 100000 (RE.and PAT_JUMPS PAT_THROWS) = true := by decide +kernel
end AthlibVerif.Oblig.C04
