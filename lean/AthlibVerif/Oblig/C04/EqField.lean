import AthlibVerif.Gen.Patterns
import AthlibVerif.Gen.Alphabet
/-! obligation: `PAT_FIELD` = union of PAT_THROWS, PAT_JUMPS (kernel-evaluated emptiness of the symmetric difference) -/
namespace AthlibVerif.Oblig.C04
open AthlibVerif AthlibVerif.Gen
def unionField : RE := (.alt PAT_THROWS PAT_JUMPS)
theorem eqField : RE.eqCheck nsym 100000 PAT_FIELD unionField = true := by decide +kernel
end AthlibVerif.Oblig.C04
