import AthlibVerif.Gen.Patterns
import AthlibVerif.Gen.Alphabet
/-! obligation: no string is accepted by both `PAT_TIMED_EVENT` and `PAT_FIELD` -/
namespace AthlibVerif.Oblig.C04
open AthlibVerif AthlibVerif.Gen
theorem disjTimedField : RE.isEmptyLang nsym 100000 (RE.and PAT_TIMED_EVENT PAT_FIELD) = true := by decide +kernel
end AthlibVerif.Oblig.C04
