import AthlibVerif.Gen.Patterns
import AthlibVerif.Gen.Alphabet
/-! obligation: no string is accepted by both `PAT_FIELD` and `PAT_MULTI` -/
namespace AthlibVerif.Oblig.C04
open AthlibVerif AthlibVerif.Gen
theorem disjFieldMulti : RE.isEmptyLang nsym 100000 (RE.and PAT_FIELD PAT_MULTI) = true := by decide +kernel
end AthlibVerif.Oblig.C04
