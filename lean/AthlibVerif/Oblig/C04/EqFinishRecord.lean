import AthlibVerif.Gen.Patterns
import AthlibVerif.Gen.Alphabet
/-! obligation: `PAT_FINISH_RECORD` = union of PAT_PERF, PAT_FINISHED, PAT_NOT_FINISHED (kernel-evaluated emptiness of the symmetric difference) -/
namespace AthlibVerif.Oblig.C04
open AthlibVerif AthlibVerif.Gen
def unionFinishRecord : RE := (.alt PAT_PERF (.alt PAT_FINISHED PAT_NOT_FINISHED))
theorem eqFinishRecord : RE.eqCheck nsym 100000 PAT_FINISH_RECORD unionFinishRecord = true := by decide +kernel
end AthlibVerif.Oblig.C04
