import AthlibVerif.Gen.Patterns
import AthlibVerif.Gen.Alphabet
/-! obligation: `PAT_TIMED_EVENT` = union of PAT_TRACK, PAT_HURDLES, PAT_ROAD, PAT_RELAYS (kernel-evaluated emptiness of the symmetric difference) -/
namespace AthlibVerif.Oblig.C04
open AthlibVerif AthlibVerif.Gen
def unionTimedEvent : RE := (.alt PAT_TRACK (.alt PAT_HURDLES (.alt PAT_ROAD PAT_RELAYS)))
theorem eqTimedEvent : RE.eqCheck nsym 100000 PAT_TIMED_EVENT unionTimedEvent = true := by decide +kernel
end AthlibVerif.Oblig.C04
