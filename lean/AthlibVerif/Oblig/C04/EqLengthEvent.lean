import AthlibVerif.Gen.Patterns
import AthlibVerif.Gen.Alphabet
/-! obligation: `PAT_LENGTH_EVENT` = union of PAT_HORIZONTAL_JUMPS, PAT_THROWS (kernel-evaluated emptiness of the symmetric difference) -/
namespace AthlibVerif.Oblig.C04
open AthlibVerif AthlibVerif.Gen
def unionLengthEvent : RE := (.alt PAT_HORIZONTAL_JUMPS PAT_THROWS)
theorem eqLengthEvent : RE.eqCheck nsym 100000 PAT_LENGTH_EVENT unionLengthEvent = true := by decide +kernel
end AthlibVerif.Oblig.C04
