import AthlibVerif.Gen.Patterns
import AthlibVerif.Gen.Alphabet
/-! obligation: no string is accepted by both `PAT_TIMED_EVENT` and `PAT_MULTI` -/
namespace AthlibVerif.Oblig.C04
open AthlibVerif AthlibVerif.Gen
theorem disjTimedMulti : RE.isEmptyLang nsym 100000 (RE.and PAT_TIMED_EVENT PAT_MULTI) = true := by decide +kernel
end AthlibVerif.Oblig.C04
