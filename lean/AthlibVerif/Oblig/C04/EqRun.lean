import AthlibVerif.Gen.Patterns
import AthlibVerif.Gen.Alphabet
/-! obligation: `PAT_RUN` = union of PAT_TRACK, PAT_ROAD, PAT_RELAYS (kernel-evaluated emptiness of the symmetric difference) -/
namespace AthlibVerif.Oblig.C04
open AthlibVerif AthlibVerif.Gen
def unionRun : RE := (.alt PAT_TRACK (.alt PAT_ROAD PAT_RELAYS))
theorem eqRun : RE.eqCheck nsym 100000 PAT_RUN unionRun = true := by decide +kernel
end AthlibVerif.Oblig.C04
