import AthlibVerif.Gen.SharedAccess
/-! obligation over the regenerated access lists: the anchored functions obey the publication discipline
    (D1 lazy globals are published complete, D2 no scratch read-back on shared instances, D3 caches are mutated
    under a lock and read once) that the protocols proved linearizable in `Props/C16.lean` assume -/
namespace AthlibVerif.Oblig.C16
open AthlibVerif AthlibVerif.Access

theorem discipline_ok : disciplineOK Gen.sharedAccess = true := by decide +kernel

end AthlibVerif.Oblig.C16
