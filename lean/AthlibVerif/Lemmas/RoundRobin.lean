import AthlibVerif.Lemmas.Interleave
/-!
# The round-robin order of the card import

`from_matrix` replays each height "attempt 1 of everybody in card order, then attempt 2, then attempt 3".  For a
block of trials whose per-athlete sequences are the cells `cell b`, that order (`roundRobin`) is a rearrangement
which keeps each athlete's own order — so by the interleaving theorem it is accepted whenever the recorded order
was, with the same outcome.
-/
namespace AthlibVerif.HJ

/-- attempt `a` of everybody (in `order`), for `a = 0, 1, 2` -/
def roundRobin (order : List Nat) (cell : Nat → List Trial) : List Op :=
  (List.range 3).flatMap (fun a => order.filterMap (fun b => ((cell b)[a]?).map (Op.trial b)))

theorem thread_flatMap (b : Nat) (l : List Nat) (f : Nat → List Op) :
    thread b (l.flatMap f) = l.flatMap (fun a => thread b (f a)) := by
  unfold thread
  induction l with
  | nil => rfl
  | cons x xs ih => simp only [List.flatMap_cons, List.filter_append, ih]

theorem thread_filterMap_absent (b : Nat) (order : List Nat) (g : Nat → Option Trial) (h : b ∉ order) :
    thread b (order.filterMap (fun b' => (g b').map (Op.trial b'))) = [] := by
  unfold thread
  apply List.filter_eq_nil_iff.2
  intro op hop
  obtain ⟨b', hb', hop'⟩ := List.mem_filterMap.1 hop
  cases hg : g b' with
  | none => rw [hg] at hop'; cases hop'
  | some t =>
    rw [hg] at hop'
    simp only [Option.map_some, Option.some.injEq] at hop'
    subst hop'
    simp only [bibOf_trial, beq_iff_eq, Option.some.injEq]
    intro e; exact h (e ▸ hb')

theorem thread_filterMap (b : Nat) (order : List Nat) (g : Nat → Option Trial) (hn : order.Nodup) (hb : b ∈ order) :
    thread b (order.filterMap (fun b' => (g b').map (Op.trial b'))) = ((g b).map (Op.trial b)).toList := by
  induction order with
  | nil => cases hb
  | cons x xs ih =>
    have hn' := List.nodup_cons.1 hn
    simp only [List.filterMap_cons]
    by_cases e : x = b
    · subst e
      have hrest := thread_filterMap_absent x xs g hn'.1
      cases hg : g x with
      | none => simp only [Option.map_none, Option.toList_none]; exact hrest
      | some t =>
        simp only [Option.map_some, Option.toList_some]
        unfold thread at hrest ⊢
        rw [List.filter_cons]
        simp only [bibOf_trial, beq_self_eq_true, if_true, hrest]
    · have hbx : b ∈ xs := by
        rcases List.mem_cons.1 hb with h | h
        · exact absurd h.symm e
        · exact h
      cases hg : g x with
      | none => simp only [Option.map_none]; exact ih hn'.2 hbx
      | some t =>
        simp only [Option.map_some]
        have := ih hn'.2 hbx
        unfold thread at this ⊢
        rw [List.filter_cons]
        have hne : (bibOf (Op.trial x t) == some b) = false := by
          rw [bibOf_trial]; simpa using e
        simp only [hne, Bool.false_eq_true, if_false]
        exact this

theorem range3_getElem (l : List Op) (h : l.length ≤ 3) :
    (List.range 3).flatMap (fun a => (l[a]?).toList) = l := by
  match l, h with
  | [], _ => rfl
  | [_], _ => rfl
  | [_, _], _ => rfl
  | [_, _, _], _ => rfl

/-- the calls of athlete `b` in the round-robin order are that athlete's cell, in order -/
theorem thread_roundRobin (order : List Nat) (cell : Nat → List Trial) (hn : order.Nodup) (b : Nat)
    (hlen : (cell b).length ≤ 3) :
    thread b (roundRobin order cell) = if b ∈ order then (cell b).map (Op.trial b) else [] := by
  unfold roundRobin
  rw [thread_flatMap]
  by_cases hb : b ∈ order
  · simp only [hb, if_true]
    have : ∀ a : Nat, thread b (order.filterMap (fun b' => ((cell b')[a]?).map (Op.trial b'))) =
        (((cell b).map (Op.trial b))[a]?).toList := by
      intro a
      rw [thread_filterMap b order (fun b' => (cell b')[a]?) hn hb, List.getElem?_map]
    simp only [this]
    exact range3_getElem _ (by simpa using hlen)
  · simp only [hb, if_false]
    have : ∀ a : Nat, thread b (order.filterMap (fun b' => ((cell b')[a]?).map (Op.trial b'))) = [] :=
      fun a => thread_filterMap_absent b order (fun b' => (cell b')[a]?) hb
    simp [this]

theorem roundRobin_trials (order : List Nat) (cell : Nat → List Trial) :
    ∀ op ∈ roundRobin order cell, ∃ b t, op = Op.trial b t := by
  intro op hop
  unfold roundRobin at hop
  obtain ⟨a, _, ha⟩ := List.mem_flatMap.1 hop
  obtain ⟨b, _, hb⟩ := List.mem_filterMap.1 ha
  cases hc : (cell b)[a]? with
  | none => rw [hc] at hb; cases hb
  | some t => rw [hc] at hb; exact ⟨b, t, by simpa using hb.symm⟩

/-- two blocks of trials with the same per-athlete sequences are rearrangements of each other -/
theorem perm_of_threads (l l' : List Op) (ht : ∀ op ∈ l, ∃ b t, op = Op.trial b t)
    (ht' : ∀ op ∈ l', ∃ b t, op = Op.trial b t) (h : ∀ b, thread b l = thread b l') : l.Perm l' := by
  rw [List.perm_iff_count]
  intro a
  cases a with
  | trial b t =>
    have h1 : (thread b l).count (Op.trial b t) = l.count (Op.trial b t) := by
      unfold thread; exact List.count_filter (by simp [bibOf_trial])
    have h2 : (thread b l').count (Op.trial b t) = l'.count (Op.trial b t) := by
      unfold thread; exact List.count_filter (by simp [bibOf_trial])
    rw [← h1, ← h2, h b]
  | add x =>
    have h1 : l.count (Op.add x) = 0 := List.count_eq_zero.2 (fun hm => by obtain ⟨_, _, e⟩ := ht _ hm; cases e)
    have h2 : l'.count (Op.add x) = 0 := List.count_eq_zero.2 (fun hm => by obtain ⟨_, _, e⟩ := ht' _ hm; cases e)
    rw [h1, h2]
  | bar x =>
    have h1 : l.count (Op.bar x) = 0 := List.count_eq_zero.2 (fun hm => by obtain ⟨_, _, e⟩ := ht _ hm; cases e)
    have h2 : l'.count (Op.bar x) = 0 := List.count_eq_zero.2 (fun hm => by obtain ⟨_, _, e⟩ := ht' _ hm; cases e)
    rw [h1, h2]

end AthlibVerif.HJ
