import Mathlib.Tactic.Linarith
import Mathlib.Tactic.Ring
import AthlibVerif.Model.Junior
/-! helper lemmas for the junior scoring models: monotonicity of the floor, of each linear / piecewise
    linear / quadratic evaluator, of the step-table look-up (L5 `StepTable`) and of the run-length tables -/
namespace AthlibVerif.Junior

theorem ediv_mono (a b : Int) (c : Nat) (h : a ≤ b) : a / (c : Int) ≤ b / (c : Int) := by
  rcases Nat.eq_zero_or_pos c with h0 | h0
  · subst h0; simp
  · exact Int.ediv_le_ediv (by exact_mod_cast h0) h

theorem floorNat_mono (n m : Int) (d : Nat) (h : n ≤ m) : floorNat n d ≤ floorNat m d := by
  unfold floorNat
  exact Int.toNat_le_toNat (ediv_mono n m d h)

/-! ### Tyrving -/
namespace Tyrving

/-- a slower time never scores more -/
theorem race_mono (S dist mN B k k' : Nat) (manual : Bool) (h : k ≤ k') :
    race S dist mN B k' manual ≤ race S dist mN B k manual := by
  unfold race
  apply floorNat_mono
  have hm : (0 : Int) ≤ mN := Int.natCast_nonneg _
  cases manual <;> simp only [Bool.false_eq_true, if_false, if_true] <;> push_cast <;> nlinarith

/-- a hand-timed figure never scores more than the same figure timed electronically -/
theorem manual_le_auto (S dist mN B k : Nat) : race S dist mN B k true ≤ race S dist mN B k false := by
  unfold race
  apply floorNat_mono
  have hm : (0 : Int) ≤ mN := Int.natCast_nonneg _
  have hi : (0 : Int) ≤ manualInc dist := Int.natCast_nonneg _
  simp only [if_true, Bool.false_eq_true, if_false]; push_cast; nlinarith

theorem jump_mono (S mN B k k' : Nat) (h : k ≤ k') : jump S mN B k ≤ jump S mN B k' := by
  unfold jump
  apply floorNat_mono
  have hm : (0 : Int) ≤ mN := Int.natCast_nonneg _
  have : (k : Int) ≤ k' := by exact_mod_cast h
  nlinarith

/-- join condition of the three-piece formula: the second level lies below the first, and the points fixed
    for the second level do not exceed what the middle piece gives there -/
def stavJoin (S m1 L0 L1 P2 : Nat) : Prop := L1 ≤ L0 ∧ P2 * S + (L0 - L1) * m1 ≤ 1000 * S

instance (S m1 L0 L1 P2 : Nat) : Decidable (stavJoin S m1 L0 L1 P2) := by unfold stavJoin; infer_instance

theorem stav_mono (S m0 m1 m2 L0 L1 P2 k k' : Nat) (hj : stavJoin S m1 L0 L1 P2) (h : k ≤ k') :
    stav S m0 m1 m2 L0 L1 P2 k ≤ stav S m0 m1 m2 L0 L1 P2 k' := by
  obtain ⟨h10, hP⟩ := hj
  have hk : (k : Int) ≤ k' := by exact_mod_cast h
  have h0 : (0 : Int) ≤ m0 := Int.natCast_nonneg _
  have h1 : (0 : Int) ≤ m1 := Int.natCast_nonneg _
  have h2 : (0 : Int) ≤ m2 := Int.natCast_nonneg _
  have hL : (L1 : Int) ≤ L0 := by exact_mod_cast h10
  have hP' : (P2 : Int) * S + ((L0 : Int) - L1) * m1 ≤ 1000 * S := by
    have := hP
    zify [h10] at this
    exact this
  unfold stav
  simp only
  split_ifs <;> apply floorNat_mono <;> nlinarith

end Tyrving

/-! ### QuadKids -/
namespace Qkids

theorem raw_mono_run (incN incD base k k' : Nat) (h : k ≤ k') :
    raw incN incD true base k' ≤ raw incN incD true base k := by
  unfold raw
  simp only [if_true]
  have hd : (0 : Int) ≤ incD := Int.natCast_nonneg _
  have hk : (k : Int) ≤ k' := by exact_mod_cast h
  have := ediv_mono (((base : Int) - k') * incD) (((base : Int) - k) * incD) incN (by nlinarith)
  omega

theorem raw_mono_field (incN incD base k k' : Nat) (h : k ≤ k') :
    raw incN incD false base k ≤ raw incN incD false base k' := by
  unfold raw
  simp only [Bool.false_eq_true, if_false]
  have hd : (0 : Int) ≤ incD := Int.natCast_nonneg _
  have hk : (k : Int) ≤ k' := by exact_mod_cast h
  have := ediv_mono (((k : Int) - base) * incD) (((k' : Int) - base) * incD) incN (by nlinarith)
  omega

theorem points_mono_of_raw (incN incD base k k' : Nat) (run run' : Bool)
    (h : raw incN incD run base k ≤ raw incN incD run' base k') :
    points incN incD run base k ≤ points incN incD run' base k' := by
  unfold points; omega

theorem points_bounds (incN incD base k : Nat) (run : Bool) :
    10 ≤ points incN incD run base k ∧ points incN incD run base k ≤ 100 := by
  unfold points; omega

end Qkids

/-! ### Sportshall: step tables -/
namespace Sportshall

/-- the look-up never exceeds a bound on the points column -/
theorem lookupBest_le (high : Bool) (rows : List (Nat × Nat)) (k M : Nat) (h : ∀ r ∈ rows, r.1 ≤ M) :
    lookupBest high rows k ≤ M := by
  induction rows with
  | nil => simp [lookupBest]
  | cons r rs ih =>
    have h1 := h r (by simp)
    have h2 := ih (fun r' hr' => h r' (by simp [hr']))
    simp only [lookupBest]; split <;> omega

/-- `lookup_spec`, upper half: every row the mark reaches has at most the returned points -/
theorem lookupBest_ge (high : Bool) (rows : List (Nat × Nat)) (k : Nat) (r : Nat × Nat) (hr : r ∈ rows)
    (hk : reach high r.2 k = true) : r.1 ≤ lookupBest high rows k := by
  induction rows with
  | nil => cases hr
  | cons r' rs ih =>
    simp only [lookupBest]
    rcases List.mem_cons.1 hr with rfl | hm
    · rw [if_pos hk]; omega
    · have := ih hm
      split <;> omega

/-- `lookup_spec`, lower half: the returned points are 0 (no row reached) or those of a row the mark reaches -/
theorem lookupBest_mem (high : Bool) (rows : List (Nat × Nat)) (k : Nat) :
    (lookupBest high rows k = 0 ∧ ∀ r ∈ rows, reach high r.2 k = true → r.1 = 0) ∨
    ∃ r ∈ rows, reach high r.2 k = true ∧ r.1 = lookupBest high rows k := by
  induction rows with
  | nil => left; simp [lookupBest]
  | cons r' rs ih =>
    simp only [lookupBest]
    by_cases hk : reach high r'.2 k = true
    · rw [if_pos hk]
      rcases Nat.le_total (lookupBest high rs k) r'.1 with hle | hle
      · right; exact ⟨r', by simp, hk, by omega⟩
      · rcases ih with ⟨h0, _⟩ | ⟨r, hr, hrk, hp⟩
        · right; exact ⟨r', by simp, hk, by omega⟩
        · right; exact ⟨r, by simp [hr], hrk, by omega⟩
    · rw [if_neg hk]
      rcases ih with ⟨h0, hall⟩ | ⟨r, hr, hrk, hp⟩
      · left
        refine ⟨h0, ?_⟩
        intro r hr hrk
        rcases List.mem_cons.1 hr with rfl | hm
        · exact absurd hrk hk
        · exact hall r hm hrk
      · right; exact ⟨r, by simp [hr], hrk, hp⟩

/-- `lookup_mono`: a mark that reaches every threshold another mark reaches never scores less -/
theorem lookupBest_mono (high : Bool) (rows : List (Nat × Nat)) (k k' : Nat)
    (h : ∀ t, reach high t k = true → reach high t k' = true) :
    lookupBest high rows k ≤ lookupBest high rows k' := by
  induction rows with
  | nil => simp [lookupBest]
  | cons r rs ih =>
    simp only [lookupBest]
    by_cases hk : reach high r.2 k = true
    · rw [if_pos hk, if_pos (h _ hk)]; omega
    · rw [if_neg hk]; split <;> omega

/-- "better or equal" in the direction of the event -/
def better (high : Bool) (k k' : Nat) : Prop := if high then k ≤ k' else k' ≤ k

theorem reach_of_better (high : Bool) (k k' : Nat) (h : better high k k') (t : Nat) :
    reach high t k = true → reach high t k' = true := by
  unfold better at h
  unfold reach
  cases high <;> simp at h ⊢ <;> omega

theorem steps_mono (incN incD x y : Nat) (h : x ≤ y) : steps incN incD x ≤ steps incN incD y := by
  unfold steps
  split
  · exact Nat.le_refl _
  · exact Nat.div_le_div_right (Nat.mul_le_mul_right _ h)

/-- the last row carries the greatest points of the table -/
def lastMax (rows : List (Nat × Nat)) : Prop :=
  ∀ l, rows.getLast? = some l → ∀ r ∈ rows, r.1 ≤ l.1

theorem points_mono (e : ShEvent) (k k' : Nat) (hl : lastMax e.rows) (h : better e.high k k') :
    points e k ≤ points e k' := by
  unfold points
  cases hlast : e.rows.getLast? with
  | none => simp
  | some l =>
    obtain ⟨maxP, maxT⟩ := l
    have hmax := hl _ hlast
    simp only
    have hle : ∀ x, lookupBest e.high e.rows x ≤ maxP := fun x => lookupBest_le _ _ _ _ hmax
    cases hh : e.high with
    | true =>
      rw [hh] at h hle
      simp only [better, if_true] at h
      simp only [if_true]
      split_ifs with h1 h2 h2
      · exact Nat.add_le_add_left (Nat.mul_le_mul_right _ (steps_mono _ _ _ _ (by omega))) _
      · omega
      · exact Nat.le_trans (hle k) (Nat.le_add_right _ _)
      · exact lookupBest_mono _ _ _ _ (reach_of_better true k k' (by simpa [better] using h))
    | false =>
      rw [hh] at h hle
      simp only [better, Bool.false_eq_true, if_false] at h
      simp only [Bool.false_eq_true, if_false]
      split_ifs with h1 h2 h2
      · exact Nat.add_le_add_left (Nat.mul_le_mul_right _ (steps_mono _ _ _ _ (by omega))) _
      · omega
      · exact Nat.le_trans (hle k) (Nat.le_add_right _ _)
      · exact lookupBest_mono _ _ _ _ (reach_of_better false k k' (by simpa [better] using h))

end Sportshall

/-! ### Bulgarian: run-length tables -/
namespace Bulgarian

abbrev Run := Nat × Nat × Nat

def inRun (r : Run) (k : Nat) : Bool := r.1 ≤ k && k ≤ r.2.1

theorem lookup_some (runs : List Run) (k p : Nat) (h : lookup runs k = some p) :
    ∃ r ∈ runs, inRun r k = true ∧ r.2.2 = p := by
  unfold lookup at h
  cases hf : runs.find? (fun r => r.1 ≤ k && k ≤ r.2.1) with
  | none => rw [hf] at h; cases h
  | some r =>
    rw [hf] at h
    simp only [Option.map_some, Option.some.injEq] at h
    have h1 := List.find?_some hf
    exact ⟨r, List.mem_of_find?_eq_some hf, by simpa [inRun] using h1, h⟩

/-- runs are disjoint, ascending, and their points go with the direction of the event -/
def Ordered (timed : Bool) (runs : List Run) : Prop :=
  runs.Pairwise (fun a b => a.2.1 < b.1 ∧ (if timed then b.2.2 ≤ a.2.2 else a.2.2 ≤ b.2.2))

/-- Boolean version, evaluated by the kernel on the regenerated tables -/
def orderedB (timed : Bool) : List Run → Bool
  | [] => true
  | a :: l => l.all (fun b => decide (a.2.1 < b.1) && (if timed then decide (b.2.2 ≤ a.2.2) else decide (a.2.2 ≤ b.2.2))) && orderedB timed l

theorem ordered_of_orderedB (timed : Bool) (runs : List Run) (h : orderedB timed runs = true) : Ordered timed runs := by
  induction runs with
  | nil => exact List.Pairwise.nil
  | cons a l ih =>
    simp only [orderedB, Bool.and_eq_true, List.all_eq_true] at h
    refine List.Pairwise.cons ?_ (ih h.2)
    intro b hb
    have := h.1 b hb
    cases timed <;> simp_all

/-- linear-time check used on the regenerated tables: every run is non-empty, adjacent runs are contiguous
    and strictly ordered in points in the direction of the event -/
def chainB (timed : Bool) : List Run → Bool
  | [] => true
  | [a] => decide (a.1 ≤ a.2.1)
  | a :: b :: l => decide (a.1 ≤ a.2.1) && decide (a.2.1 + 1 = b.1) &&
      (if timed then decide (b.2.2 < a.2.2) else decide (a.2.2 < b.2.2)) && chainB timed (b :: l)

theorem chainB_cons (timed : Bool) (a : Run) (l : List Run) (h : chainB timed (a :: l) = true) :
    a.1 ≤ a.2.1 ∧ chainB timed l = true ∧
      ∀ b ∈ l, b.1 ≤ b.2.1 ∧ a.2.1 < b.1 ∧ (if timed then b.2.2 ≤ a.2.2 else a.2.2 ≤ b.2.2) := by
  induction l generalizing a with
  | nil => simp only [chainB, decide_eq_true_eq] at h; exact ⟨h, rfl, by simp⟩
  | cons b l ih =>
    simp only [chainB, Bool.and_eq_true, decide_eq_true_eq] at h
    obtain ⟨⟨⟨h1, h2⟩, h3⟩, h4⟩ := h
    obtain ⟨hb, hl, hall⟩ := ih b h4
    refine ⟨h1, h4, ?_⟩
    intro c hc
    rcases List.mem_cons.1 hc with rfl | hm
    · refine ⟨hb, by omega, ?_⟩
      cases timed <;> simp_all <;> omega
    · obtain ⟨hc1, hc2, hc3⟩ := hall c hm
      refine ⟨hc1, by omega, ?_⟩
      cases timed <;> simp_all <;> omega

theorem ordered_of_chainB (timed : Bool) (runs : List Run) (h : chainB timed runs = true) :
    Ordered timed runs ∧ ∀ r ∈ runs, r.1 ≤ r.2.1 := by
  induction runs with
  | nil => exact ⟨List.Pairwise.nil, by simp⟩
  | cons a l ih =>
    obtain ⟨ha, hl, hall⟩ := chainB_cons timed a l h
    obtain ⟨ho, hlo⟩ := ih hl
    refine ⟨List.Pairwise.cons (fun b hb => ⟨(hall b hb).2.1, (hall b hb).2.2⟩) ho, ?_⟩
    intro r hr
    rcases List.mem_cons.1 hr with rfl | hm
    · exact ha
    · exact hlo r hm

/-- in an ordered table the entry for a mark is the run that contains it -/
theorem lookup_of_mem (timed : Bool) (runs : List Run) (k : Nat) (r : Run) (ho : Ordered timed runs)
    (hr : r ∈ runs) (hk : inRun r k = true) (hlo : ∀ r ∈ runs, r.1 ≤ r.2.1) : lookup runs k = some r.2.2 := by
  induction runs with
  | nil => cases hr
  | cons a l ih =>
    rcases List.pairwise_cons.1 ho with ⟨ha, hl⟩
    unfold lookup
    rcases List.mem_cons.1 hr with rfl | hm
    · have hk' : (decide (r.1 ≤ k) && decide (k ≤ r.2.1)) = true := by simpa [inRun] using hk
      simp [hk']
    · have hak : (decide (a.1 ≤ k) && decide (k ≤ a.2.1)) = false := by
        have h1 := (ha r hm).1
        have h2 := hlo a (by simp)
        simp only [inRun, Bool.and_eq_true, decide_eq_true_eq] at hk
        simp only [Bool.and_eq_false_iff, decide_eq_false_iff_not]; omega
      have := ih hl hm (fun r hr => hlo r (by simp [hr]))
      unfold lookup at this
      simp only [List.find?_cons, hak]
      exact this

theorem lookup_mono (timed : Bool) (runs : List Run) (k k' p p' : Nat) (ho : Ordered timed runs) (h : k ≤ k')
    (hp : lookup runs k = some p) (hp' : lookup runs k' = some p') :
    if timed then p' ≤ p else p ≤ p' := by
  obtain ⟨r, hr, hrk, rfl⟩ := lookup_some runs k p hp
  obtain ⟨r', hr', hrk', rfl⟩ := lookup_some runs k' p' hp'
  simp only [inRun, Bool.and_eq_true, decide_eq_true_eq] at hrk hrk'
  -- either the same run, or `r` comes before `r'`
  have key : r = r' ∨ (r.2.1 < r'.1 ∧ (if timed then r'.2.2 ≤ r.2.2 else r.2.2 ≤ r'.2.2)) := by
    clear hp hp'
    induction runs with
    | nil => cases hr
    | cons a l ih =>
      rcases List.pairwise_cons.1 ho with ⟨ha, hl⟩
      rcases List.mem_cons.1 hr with rfl | hm <;> rcases List.mem_cons.1 hr' with rfl | hm'
      · left; rfl
      · right; exact ha _ hm'
      · exfalso; have := (ha _ hm).1; omega
      · exact ih hl hm hm'
  rcases key with rfl | ⟨_, h2⟩
  · cases timed <;> simp
  · exact h2

theorem points_mono (t : BgTable) (k k' p p' : Nat) (ho : Ordered t.timed t.runs)
    (hb : ∀ r ∈ t.runs, r.2.2 ≤ 150) (h : k ≤ k')
    (hp : points t k = some p) (hp' : points t k' = some p') :
    if t.timed then p' ≤ p else p ≤ p' := by
  have bound : ∀ x q, lookup t.runs x = some q → q ≤ 150 := by
    intro x q hq
    obtain ⟨r, hr, _, rfl⟩ := lookup_some _ _ _ hq
    exact hb r hr
  unfold points at hp hp'
  cases ht : t.timed with
  | true =>
    rw [ht] at hp hp' ho
    simp only [if_true] at hp hp' ⊢
    split_ifs at hp hp' <;> (try simp only [Option.some.injEq] at hp) <;> (try simp only [Option.some.injEq] at hp') <;>
      first
      | omega
      | (have := bound _ _ hp; omega)
      | (have := bound _ _ hp'; omega)
      | (have := lookup_mono true t.runs k k' p p' ho h hp hp'; simpa using this)
  | false =>
    rw [ht] at hp hp' ho
    simp only [Bool.false_eq_true, if_false] at hp hp' ⊢
    split_ifs at hp hp' <;> (try simp only [Option.some.injEq] at hp) <;> (try simp only [Option.some.injEq] at hp') <;>
      first
      | omega
      | (have := bound _ _ hp; omega)
      | (have := bound _ _ hp'; omega)
      | (have := lookup_mono false t.runs k k' p p' ho h hp hp'; simpa using this)

theorem points_bounds (t : BgTable) (k p : Nat) (hb : ∀ r ∈ t.runs, r.2.2 ≤ 150) (hp : points t k = some p) : p ≤ 150 := by
  unfold points at hp
  split_ifs at hp <;> (try simp only [Option.some.injEq] at hp) <;>
    first
    | omega
    | (obtain ⟨r, hr, _, rfl⟩ := lookup_some _ _ _ hp; exact hb r hr)

end Bulgarian

/-! ### Hungarian: the quadratic -/
namespace Hungarian

theorem dist_mono (r : HuRow) (k k' : Nat) (h : k ≤ k') : dist r k ≤ dist r k' := by
  unfold dist
  have hk : (k : Int) ≤ k' := by exact_mod_cast h
  have hb : (0 : Int) ≤ r.bD := Int.natCast_nonneg _
  nlinarith

/-- on the falling branch (`p ≤ −b`) a slower time never scores more -/
theorem raw_mono_timed (r : HuRow) (k k' : Nat) (h : k ≤ k') (hz : dist r k' ≤ 0) : raw r k' ≤ raw r k := by
  have hd := dist_mono r k k' h
  unfold raw
  apply ediv_mono
  have ha : (0 : Int) ≤ r.aN := Int.natCast_nonneg _
  have hc : (0 : Int) ≤ r.cD := Int.natCast_nonneg _
  have hsq : dist r k' ^ 2 ≤ dist r k ^ 2 := by nlinarith
  have : (r.aN : Int) * dist r k' ^ 2 ≤ r.aN * dist r k ^ 2 := Int.mul_le_mul_of_nonneg_left hsq ha
  have := Int.mul_le_mul_of_nonneg_right this hc
  omega

/-- on the rising branch (`p ≥ −b`; all of `p ≥ 0` when `b ≥ 0`) a longer mark never scores less -/
theorem raw_mono_field (r : HuRow) (k k' : Nat) (h : k ≤ k') (hz : 0 ≤ dist r k) : raw r k ≤ raw r k' := by
  have hd := dist_mono r k k' h
  unfold raw
  apply ediv_mono
  have ha : (0 : Int) ≤ r.aN := Int.natCast_nonneg _
  have hc : (0 : Int) ≤ r.cD := Int.natCast_nonneg _
  have hsq : dist r k ^ 2 ≤ dist r k' ^ 2 := by nlinarith
  have : (r.aN : Int) * dist r k ^ 2 ≤ r.aN * dist r k' ^ 2 := Int.mul_le_mul_of_nonneg_left hsq ha
  have := Int.mul_le_mul_of_nonneg_right this hc
  omega

theorem dist_nonneg_of_field (r : HuRow) (k : Nat) (hb : 0 ≤ r.bN) : 0 ≤ dist r k := by
  unfold dist
  have h1 : (0 : Int) ≤ (k : Int) * r.bD := Int.mul_nonneg (Int.natCast_nonneg _) (Int.natCast_nonneg _)
  omega

/-- the repaired score of a timed event is monotone over the WHOLE grid: zero from the zero point on -/
theorem points_mono_timed (r : HuRow) (k k' : Nat) (ht : timed r = true) (h : k ≤ k') : points r k' ≤ points r k := by
  unfold points
  rw [ht]
  by_cases hz : 0 < dist r k'
  · simp [hz]
  · have hz' : dist r k' ≤ 0 := by omega
    have hd := dist_mono r k k' h
    have hk : ¬ 0 < dist r k := by omega
    simp only [Bool.true_and, decide_eq_true_eq, hz, hk, if_false]
    exact Int.toNat_le_toNat (raw_mono_timed r k k' h hz')

theorem points_mono_field (r : HuRow) (k k' : Nat) (ht : timed r = false) (h : k ≤ k') : points r k ≤ points r k' := by
  unfold points
  rw [ht]
  simp only [Bool.false_and, Bool.false_eq_true, if_false]
  have hb : 0 ≤ r.bN := by simpa [timed] using ht
  exact Int.toNat_le_toNat (raw_mono_field r k k' h (dist_nonneg_of_field r k hb))

end Hungarian

end AthlibVerif.Junior
