import AthlibVerif.Lemmas.CardShape
/-!
# Three consecutive failures — on the card

For an athlete who has never been re-instated for a jump-off (`roundLim = 3`), the counter the code keeps is the
number of failures on the card since the last clearance (passes and empty cells do not interrupt the run), the
athlete is out exactly when that number has reached three or the card shows a retirement, and it never exceeds
three.  Invariant of `step`; ranking only touches it by re-instating, which also sets `roundLim = 1`.
-/
namespace AthlibVerif.HJ

/-- a relation on records that ranking respects -/
structure RankStable (R : Jumper → Jumper → Prop) : Prop where
  refl : ∀ j, R j j
  trans : ∀ a b c, R a b → R b c → R a c
  place : ∀ j p, R j { j with place := p }
  reinst : ∀ j, R j (reinstate j)

def RelFromG (R : Jumper → Jumper → Prop) (l l' : List Jumper) : Prop := ∀ j' ∈ l', ∃ j ∈ l, R j j'

section
variable {R : Jumper → Jumper → Prop} (hR : RankStable R)
include hR

theorem RelFromG.refl' (l : List Jumper) : RelFromG R l l := fun j hj => ⟨j, hj, hR.refl j⟩
theorem RelFromG.trans' {a b c : List Jumper} (h1 : RelFromG R a b) (h2 : RelFromG R b c) : RelFromG R a c := by
  intro j'' hj''
  obtain ⟨j', hj', e⟩ := h2 j'' hj''
  obtain ⟨j, hj, f⟩ := h1 j' hj'
  exact ⟨j, hj, hR.trans _ _ _ f e⟩

omit hR in
theorem RelFromG_map (l : List Jumper) (f : Jumper → Jumper) (hf : ∀ k, R k (f k)) : RelFromG R l (l.map f) := by
  intro j' hj'
  obtain ⟨j, hj, rfl⟩ := List.mem_map.1 hj'
  exact ⟨j, hj, hf j⟩

theorem RelFromG_update (c : Comp) (j0 j1 : Jumper) (h0 : j0 ∈ c.jumpers) (h : R j0 j1) :
    RelFromG R c.jumpers (c.update j1).jumpers := by
  intro j' hj'
  unfold Comp.update at hj'
  obtain ⟨k, hk, rfl⟩ := List.mem_map.1 hj'
  split
  · exact ⟨j0, h0, h⟩
  · exact ⟨k, hk, hR.refl k⟩

theorem rankj_relG (c : Comp) (h : WF c) : RelFromG R c.jumpers (rankj c).jumpers := by
  rw [rankj_jumpers c h]
  exact RelFromG_map _ _ (fun k => hR.place k _)

theorem rankTie_relG (c : Comp) (h : WF c) : RelFromG R c.jumpers (rankTie c).jumpers := by
  unfold rankTie
  simp only
  have hm : RelFromG R c.jumpers (c.jumpers.map (fun (j : Jumper) => if reinstated c j then reinstate j else j)) :=
    RelFromG_map _ _ (fun k => by split; exact hR.reinst k; exact hR.refl k)
  have hb : (c.jumpers.map (fun (j : Jumper) => if reinstated c j then reinstate j else j)).map (·.bib) = c.jumpers.map (·.bib) := by
    rw [List.map_map]
    apply List.map_congr_left
    intro k _
    simp only [Function.comp_apply]
    split <;> rfl
  split
  · have hwf : WF ({ { c with jumpers := c.jumpers.map (fun (j : Jumper) => if reinstated c j then reinstate j else j) } with phase := Phase.jumpoff } : Comp) :=
      WF_of_same_bibs c _ hb (List.Perm.refl _) h
    exact RelFromG.trans' hR hm (rankj_relG hR _ hwf)
  · exact hm

theorem rankLeader_relG (c : Comp) (r0 : Nat) (h : WF c) : RelFromG R c.jumpers (rankLeader c r0).jumpers := by
  unfold rankLeader
  split
  · next j0 hj0 =>
    split
    · have hwf : WF (c.update (reinstate j0)) := WF_of_same_bibs c _ (update_bibs c _) (List.Perm.refl _) h
      exact RelFromG.trans' hR (RelFromG_update hR c j0 (reinstate j0) (find_some_mem c r0 j0 hj0).1 (hR.reinst j0)) (rankj_relG hR _ hwf)
    · exact RelFromG.refl' hR _
  · exact RelFromG.refl' hR _

/-- whatever relation ranking respects record by record holds between the records before and after `_rank` -/
theorem rank_relG (c0 : Comp) (h : WF c0) : RelFromG R c0.jumpers (rank c0).jumpers := by
  have hw := rankj_WF c0 h
  have hc := rankj_relG hR c0 h
  unfold rank
  simp only
  split
  · exact hc
  · split
    · split
      · exact RelFromG.trans' hR hc (rankTie_relG hR _ hw)
      · exact RelFromG.trans' hR hc (rankLeader_relG hR _ _ hw)
    · unfold rankOneLeft; split <;> exact hc
    · exact hc
end

/-! ## the failure counter and the card -/

/-- failures since the last clearance, reading the flattened card backwards -/
def trailingX (l : List Trial) : Nat := (l.reverse.takeWhile (· != .o)).count .x

theorem trailingX_snoc (l : List Trial) (t : Trial) :
    trailingX (l ++ [t]) = match t with | .o => 0 | .x => trailingX l + 1 | _ => trailingX l := by
  unfold trailingX
  cases t <;> simp

def hasR (card : List (List Trial)) : Bool := card.flatten.contains .r

theorem flatten_padCard (card : List (List Trial)) (n : Nat) : (padCard card n).flatten = card.flatten := by
  unfold padCard
  simp [List.flatten_append, List.flatten_replicate_nil]

theorem flatten_appendLast (card : List (List Trial)) (t : Trial) (hne : card ≠ []) :
    (appendLast card t).flatten = card.flatten ++ [t] := by
  obtain ⟨init, last, rfl⟩ : ∃ init last, card = init ++ [last] := by
    rcases List.eq_nil_or_concat card with h' | ⟨init, last, h'⟩
    · exact absurd h' hne
    · exact ⟨init, last, by simpa using h'⟩
  rw [appendLast_concat]; simp [List.flatten_append]

/-- the counter, for an athlete never re-instated -/
structure ConsecInv (hs : List Int) (j : Jumper) : Prop where
  count : j.roundLim = 3 → j.consec = trailingX j.card.flatten
  out : j.roundLim = 3 → (j.eliminated = true ↔ (hasR j.card = true ∨ 3 ≤ j.consec))
  bound : j.roundLim = 3 → j.consec ≤ 3
  done : j.roundLim = 3 → j.dismissed = true → j.eliminated = false →
    allX ((padCard j.card hs.length).getLast?.getD []) = false

def ConsecRel (j j' : Jumper) : Prop :=
  j'.card = j.card ∧ j'.dismissed = j.dismissed ∧
  (j'.roundLim = 3 → j.roundLim = 3 ∧ j'.consec = j.consec ∧ j'.eliminated = j.eliminated)

theorem consecRel_stable : RankStable ConsecRel where
  refl := fun j => ⟨rfl, rfl, fun h => ⟨h, rfl, rfl⟩⟩
  trans := by
    intro a b c h1 h2
    refine ⟨h2.1.trans h1.1, h2.2.1.trans h1.2.1, fun h => ?_⟩
    obtain ⟨e1, e2, e3⟩ := h2.2.2 h
    obtain ⟨f1, f2, f3⟩ := h1.2.2 e1
    exact ⟨f1, e2.trans f2, e3.trans f3⟩
  place := fun j p => ⟨rfl, rfl, fun h => ⟨h, rfl, rfl⟩⟩
  reinst := fun j => ⟨rfl, rfl, fun h => by simp [reinstate] at h⟩

theorem ConsecInv_of_rel (hs : List Int) (j j' : Jumper) (hr : ConsecRel j j') (h : ConsecInv hs j) : ConsecInv hs j' := by
  obtain ⟨r1, rd, r2⟩ := hr
  refine ⟨fun h3 => ?_, fun h3 => ?_, fun h3 => ?_, fun h3 hd he => ?_⟩
  · obtain ⟨e1, e2, _⟩ := r2 h3; rw [e2, r1]; exact h.count e1
  · obtain ⟨e1, e2, e3⟩ := r2 h3; rw [e2, e3, r1]; exact h.out e1
  · obtain ⟨e1, e2, _⟩ := r2 h3; rw [e2]; exact h.bound e1
  · obtain ⟨e1, _, e3⟩ := r2 h3; rw [r1]; exact h.done e1 (rd ▸ hd) (e3 ▸ he)

theorem ConsecInv_act (hs : List Int) (j j' : Jumper) (t : Trial) (h : ConsecInv hs j) (hf : FlagInv hs j) (hpos : hs ≠ [])
    (hact : j.act hs.length (hs.getLast?.getD 0) t = some j') : ConsecInv hs j' := by
  obtain ⟨he, hd, hlt⟩ := act_some j j' _ _ t hact
  rw [act_core j j' _ _ t hact]
  have hp : 0 < hs.length := List.length_pos_iff.2 hpos
  have hplen : (padCard j.card hs.length).length = hs.length := by
    rw [padCard_length]; have := hf.len; omega
  have hpne : padCard j.card hs.length ≠ [] := by
    intro e; rw [e] at hplen; simp at hplen; omega
  have hflat : (appendLast (padCard j.card hs.length) t).flatten = j.card.flatten ++ [t] := by
    rw [flatten_appendLast _ t hpne, flatten_padCard]
  -- before the trial the athlete is in: no retirement on the card and fewer than three failures in a row
  have hin : j.roundLim = 3 → hasR j.card = false ∧ j.consec < 3 := by
    intro h3
    have hout := h.out h3
    rw [he] at hout
    constructor
    · cases hr : hasR j.card with
      | false => rfl
      | true => exact absurd (hout.2 (Or.inl hr)) (by simp)
    · apply Nat.lt_of_not_le
      intro hge
      exact absurd (hout.2 (Or.inr hge)) (by simp)
  have hR : ∀ t', hasR (appendLast (padCard j.card hs.length) t') = (hasR j.card || t' == .r) := by
    intro t'
    unfold hasR
    rw [flatten_appendLast _ t' hpne, flatten_padCard, List.contains_append]
    cases t' <;> simp
  have hnewlen : (appendLast (padCard j.card hs.length) t).length = hs.length :=
    ((appendLast_spec _ t hpne).1).trans hplen
  have hlastnew : (padCard (appendLast (padCard j.card hs.length) t) hs.length).getLast?.getD [] =
      (padCard j.card hs.length).getLast?.getD [] ++ [t] := by
    rw [padCard_of_full _ _ hnewlen, appendLast_getLast _ t hpne]
  have hclosed : ∀ cell : List Trial, t ≠ .x → allX (cell ++ [t]) = false := by
    intro cell ht
    unfold allX
    rw [List.all_append]
    cases t <;> simp_all
  cases t with
  | o =>
    simp only [Jumper.actCore]
    split
    · refine ⟨fun _ => ?_, fun h3 => ?_, fun _ => by simp, fun _ _ _ => ?_⟩
      · simp only [hflat, trailingX_snoc]
      · simp only at h3 ⊢
        rw [hR, he]; simp [(hin h3).1]
      · simp only; rw [hlastnew]; exact hclosed _ (by simp)
    · refine ⟨fun _ => ?_, fun h3 => ?_, fun _ => by simp, fun _ _ _ => ?_⟩
      · simp only [hflat, trailingX_snoc]
      · simp only at h3 ⊢
        rw [hR, he]; simp [(hin h3).1]
      · simp only; rw [hlastnew]; exact hclosed _ (by simp)
  | x =>
    simp only [Jumper.actCore]
    split
    · next hge =>
      refine ⟨fun h3 => ?_, fun h3 => ?_, fun h3 => ?_, fun _ _ he' => by simp at he'⟩
      · simp only at h3 ⊢; rw [hflat, trailingX_snoc]; simp only; rw [h.count h3]
      · simp only at h3 ⊢
        rw [h3] at hge
        simp only [true_iff]
        right; omega
      · simp only at h3 ⊢; have := (hin h3).2; omega
    · next hge =>
      refine ⟨fun h3 => ?_, fun h3 => ?_, fun h3 => ?_, fun _ hd' _ => by simp at hd'⟩
      · simp only at h3 ⊢; rw [hflat, trailingX_snoc]; simp only; rw [h.count h3]
      · simp only at h3 ⊢
        rw [h3] at hge
        rw [hR, he]
        simp [(hin h3).1]; omega
      · simp only at h3 ⊢; have := (hin h3).2; omega
  | p =>
    simp only [Jumper.actCore]
    refine ⟨fun h3 => ?_, fun h3 => ?_, fun h3 => h.bound h3, fun _ _ _ => ?_⟩
    · simp only at h3 ⊢; rw [hflat, trailingX_snoc]; exact h.count h3
    · simp only at h3 ⊢
      rw [hR, he]
      have := (hin h3)
      simp [this.1]; omega
    · simp only; rw [hlastnew]; exact hclosed _ (by simp)
  | r =>
    simp only [Jumper.actCore]
    refine ⟨fun h3 => ?_, fun h3 => ?_, fun h3 => h.bound h3, fun _ _ he' => by simp at he'⟩
    · simp only at h3 ⊢; rw [hflat, trailingX_snoc]; exact h.count h3
    · simp only at h3 ⊢
      rw [hR]; simp

theorem trailingX_append_allX (cell : List Trial) : ∀ a : List Trial, allX cell = true →
    trailingX (a ++ cell) = trailingX a + cell.length := by
  induction cell with
  | nil => intro a _; simp
  | cons t rest ih =>
    intro a h
    unfold allX at h
    simp only [List.all_cons, Bool.and_eq_true, beq_iff_eq] at h
    obtain ⟨ht, hrest⟩ := h
    subst ht
    have : a ++ Trial.x :: rest = (a ++ [Trial.x]) ++ rest := by simp
    rw [this, ih (a ++ [Trial.x]) (by unfold allX; exact hrest), trailingX_snoc]
    simp only [List.length_cons]; omega

/-- an open current cell is part of the run of failures at the end of the card -/
theorem open_cell_le_trailing (card : List (List Trial)) (n : Nat) (hlen : card.length ≤ n)
    (h : allX ((padCard card n).getLast?.getD []) = true) :
    ((padCard card n).getLast?.getD []).length ≤ trailingX card.flatten := by
  by_cases hs : card.length < n
  · rw [padCard_last_of_short _ _ hs]; simp
  · have he : card.length = n := by omega
    rw [padCard_of_full _ _ he] at h ⊢
    rcases List.eq_nil_or_concat card with h' | ⟨init, last, h'⟩
    · subst h'; simp
    · have hc : card = init ++ [last] := by simpa using h'
      subst hc
      simp only [List.getLast?_append, List.getLast?_singleton, Option.some_or, Option.getD_some] at h ⊢
      rw [List.flatten_append, List.flatten_singleton, trailingX_append_allX last _ h]
      omega

def AllConsec (c : Comp) : Prop := ∀ j ∈ c.jumpers, ConsecInv c.heights j

theorem step_AllConsec (c : Comp) (op : Op) (hw : WF c) (hf : AllFlags c) (h : AllConsec c) : AllConsec (step c op).1 := by
  cases op with
  | add b =>
    rw [step_add]
    split
    · intro j hj
      simp only [addResult, List.mem_append, List.mem_singleton] at hj
      rcases hj with hj | rfl
      · exact h j hj
      · exact ⟨fun _ => rfl, fun _ => by simp [hasR], fun _ => by simp, fun _ hd _ => by simp at hd⟩
    · exact h
  | bar x =>
    rw [step_bar]
    split
    · intro j' hj'
      simp only [barResult] at hj' ⊢
      obtain ⟨j, hj, rfl⟩ := List.mem_map.1 hj'
      split
      · exact ⟨(h j hj).count, (h j hj).out, (h j hj).bound, fun _ hd _ => by simp at hd⟩
      · next hel =>
        exact ⟨(h j hj).count, (h j hj).out, (h j hj).bound, fun _ _ he => by simp_all⟩
    · exact h
  | trial b t =>
    rcases step_trial c b t with ⟨j, j', hfd, _, hne, hact, hs⟩ | ⟨h1, _⟩
    · rw [hs]
      show AllConsec (rank (logTrial c b t j'))
      have hwl : WF (logTrial c b t j') := WF_of_same_bibs c (logTrial c b t j') (by simp [update_bibs]) (List.Perm.refl _) hw
      have hbl : AllConsec (logTrial c b t j') := by
        intro k' hk'
        simp only [logTrial_jumpers, Comp.update] at hk'
        obtain ⟨k, hk, rfl⟩ := List.mem_map.1 hk'
        show ConsecInv c.heights _
        split
        · have hm := (find_some_mem c b j hfd).1
          exact ConsecInv_act c.heights j j' t (h j hm) (hf j hm) hne hact
        · exact h k hk
      intro k' hk'
      obtain ⟨k, hk, hr⟩ := rank_relG consecRel_stable _ hwl k' hk'
      rw [(rank_frame _).1.2.1]
      exact ConsecInv_of_rel _ k k' hr (hbl k hk)
    · rw [h1]; exact h

end AthlibVerif.HJ
