import AthlibVerif.Model.Cache
/-! Invariant of the result caches (C19): every cached entry equals `truth`, and a dict never
holds more than `cap` entries.  Core Lean only. -/
namespace AthlibVerif.Cache

/-- invariant of one dict -/
def CInv (truth : Nat → Option Bool) (cap : Nat) (c : Cache) : Prop :=
  (∀ e ∈ c, truth e.1 = some e.2) ∧ c.length ≤ cap

/-- the demanded answer, at the level of one dict -/
def freshC (truth : Nat → Option Bool) (k : Nat) (ef : Bool) : Outcome :=
  match truth k with
  | none => .error
  | some true => .retTrue
  | some false => if ef then .raised else .retFalse

theorem find_mem {k : Nat} {v : Bool} {c : Cache} (h : find k c = some v) : (k, v) ∈ c := by
  induction c with
  | nil => simp [find] at h
  | cons e r ih =>
    obtain ⟨k', v'⟩ := e
    simp only [find] at h
    split at h
    · cases h; subst_vars; simp
    · exact List.mem_cons_of_mem _ (ih h)

theorem set_length (k : Nat) (v : Bool) (c : Cache) : (set k v c).length ≤ c.length + 1 := by
  unfold set; split <;> simp

theorem set_mem {k : Nat} {v : Bool} {c : Cache} {e : Nat × Bool} (h : e ∈ set k v c) :
    e = (k, v) ∨ e ∈ c := by
  unfold set at h
  split at h
  · obtain ⟨a, ha, rfl⟩ := List.mem_map.1 h
    split
    · exact Or.inl rfl
    · exact Or.inr ha
  · simpa using h

/-- the three ways the eviction loop can go -/
theorem evict_cases (cap : Nat) (c : Cache) :
    (c.length < cap ∧ evict cap c = (c, true)) ∨
    (c = [] ∧ cap = 0 ∧ evict cap c = ([], false)) ∨
    (∃ a r, c = a :: r ∧ cap ≤ r.length + 1 ∧ evict cap c = (r, decide (r.length < cap))) := by
  by_cases h : c.length < cap
  · exact Or.inl ⟨h, by simp [evict, h]⟩
  · cases c with
    | nil =>
      have h0 : cap = 0 := by simp only [List.length_nil] at h; omega
      exact Or.inr (Or.inl ⟨rfl, h0, by simp [evict, h0]⟩)
    | cons a r =>
      have h1 : cap ≤ r.length + 1 := by simp only [List.length_cons] at h; omega
      refine Or.inr (Or.inr ⟨a, r, rfl, h1, ?_⟩)
      by_cases h2 : r.length < cap <;> simp [evict, h2, h1]

theorem evict_sub (cap : Nat) (c : Cache) : ∀ e ∈ (evict cap c).1, e ∈ c := by
  rcases evict_cases cap c with ⟨_, h⟩ | ⟨_, _, h⟩ | ⟨a, r, rfl, _, h⟩ <;> rw [h]
  · exact fun _ h => h
  · simp
  · exact fun e he => List.mem_cons_of_mem _ he

theorem evict_length (cap : Nat) (c : Cache) : (evict cap c).1.length ≤ c.length := by
  rcases evict_cases cap c with ⟨_, h⟩ | ⟨_, _, h⟩ | ⟨a, r, rfl, _, h⟩ <;> rw [h] <;> simp

theorem evict_ok_lt {cap : Nat} {c : Cache} (h : (evict cap c).2 = true) : (evict cap c).1.length < cap := by
  rcases evict_cases cap c with ⟨h1, h2⟩ | ⟨_, _, h2⟩ | ⟨a, r, rfl, _, h2⟩ <;> rw [h2] at h ⊢
  · exact h1
  · simp at h
  · simpa using h

theorem evict_ok {cap : Nat} {c : Cache} (hc : 0 < cap) (h : c.length ≤ cap) : (evict cap c).2 = true := by
  rcases evict_cases cap c with ⟨_, h2⟩ | ⟨_, h0, _⟩ | ⟨a, r, rfl, _, h2⟩
  · rw [h2]
  · omega
  · rw [h2]; simp at h ⊢; omega

theorem add_inv {truth : Nat → Option Bool} {cap : Nat} {c : Cache} {k : Nat} {v : Bool}
    (h : CInv truth cap c) (hv : truth k = some v) : CInv truth cap (add cap c k v).1 := by
  have hs := evict_sub cap c
  have hl := evict_length cap c
  have ho := @evict_ok_lt cap c
  unfold add
  generalize evict cap c = r at hs hl ho
  obtain ⟨c', ok⟩ := r
  cases ok with
  | true =>
    have hlt := ho rfl
    refine ⟨fun e he => ?_, ?_⟩
    · rcases set_mem he with rfl | he
      · exact hv
      · exact h.1 e (hs e he)
    · have := set_length k v c'; simp only at hlt ⊢; omega
  | false => exact ⟨fun e he => h.1 e (hs e he), Nat.le_trans hl h.2⟩

theorem add_out {truth : Nat → Option Bool} {cap : Nat} {c : Cache} (k : Nat) (v : Bool)
    (hc : 0 < cap) (h : CInv truth cap c) : (add cap c k v).2 = Outcome.ofBool v := by
  have ho := evict_ok hc h.2
  unfold add
  generalize evict cap c = r at ho
  obtain ⟨c', ok⟩ := r
  simp only at ho; subst ho; rfl

theorem compute_inv {truth : Nat → Option Bool} {cap : Nat} {c : Cache} (k : Nat) (ef : Bool)
    (h : CInv truth cap c) : CInv truth cap (compute truth cap c k ef).1 := by
  unfold compute
  split
  · exact h
  · exact add_inv h (by assumption)
  · split
    · exact h
    · exact add_inv h (by assumption)

theorem compute_out {truth : Nat → Option Bool} {cap : Nat} {c : Cache} (k : Nat) (ef : Bool)
    (hc : 0 < cap) (h : CInv truth cap c) : (compute truth cap c k ef).2 = freshC truth k ef := by
  unfold compute freshC
  split <;> rename_i ht <;> simp only [ht]
  · exact add_out k true hc h
  · split
    · rfl
    · exact add_out k false hc h

theorem stepCache_inv {truth : Nat → Option Bool} {cap : Nat} {c : Cache} (k : Nat) (ef : Bool)
    (h : CInv truth cap c) : CInv truth cap (stepCache truth cap c k ef).1 := by
  unfold stepCache
  split
  · split
    · exact h
    · exact compute_inv k ef h
  · exact compute_inv k ef h

/-- the heart of C19: on a dict whose entries equal `truth`, the repaired look-up answers what a
first call answers — in particular a cached `False` is never handed to an `expect_failure` caller -/
theorem stepCache_out {truth : Nat → Option Bool} {cap : Nat} {c : Cache} (k : Nat) (ef : Bool)
    (hc : 0 < cap) (h : CInv truth cap c) : (stepCache truth cap c k ef).2 = freshC truth k ef := by
  unfold stepCache
  split
  · rename_i v hf
    have ht : truth k = some v := h.1 _ (find_mem hf)
    split
    · rename_i hv
      unfold freshC; simp only [ht]
      cases v <;> cases ef <;> simp_all [Outcome.ofBool]
    · exact compute_out k ef hc h
  · exact compute_out k ef hc h

/-- invariant of the module state -/
def Inv (truth : Key → Option Bool) (cap : Nat) (s : Store) : Prop :=
  ∀ fn, CInv (fun i => truth ⟨fn, i⟩) cap (s.get fn)

theorem inv_empty (truth : Key → Option Bool) (cap : Nat) : Inv truth cap Store.empty := by
  intro fn; cases fn <;> exact ⟨by simp [Store.get, Store.empty], by simp [Store.get, Store.empty]⟩

theorem get_put (s : Store) (fn fn' : Fn) (c : Cache) :
    (s.put fn c).get fn' = if fn' = fn then c else s.get fn' := by
  cases fn <;> cases fn' <;> simp [Store.put, Store.get]

theorem step_inv {truth : Key → Option Bool} {cap : Nat} {s : Store} (call : Call)
    (h : Inv truth cap s) : Inv truth cap (step truth cap s call).1 := by
  intro fn
  simp only [step, stepWith, get_put]
  split
  · subst_vars; exact stepCache_inv _ _ (h _)
  · exact h fn

theorem step_out {truth : Key → Option Bool} {cap : Nat} {s : Store} (call : Call)
    (hc : 0 < cap) (h : Inv truth cap s) : (step truth cap s call).2 = fresh truth call := by
  simp only [step, stepWith]
  rw [stepCache_out _ _ hc (h _)]
  rfl

theorem run_inv {truth : Key → Option Bool} {cap : Nat} (calls : List Call) :
    ∀ {s : Store}, Inv truth cap s → Inv truth cap (run truth cap s calls).1 := by
  induction calls with
  | nil => exact fun h => h
  | cons c cs ih => exact fun h => ih (step_inv c h)

theorem run_out {truth : Key → Option Bool} {cap : Nat} (hc : 0 < cap) (calls : List Call) :
    ∀ {s : Store}, Inv truth cap s → (run truth cap s calls).2 = calls.map (fresh truth) := by
  induction calls with
  | nil => exact fun _ => rfl
  | cons c cs ih =>
    intro s h
    show (step truth cap s c).2 :: (run truth cap (step truth cap s c).1 cs).2 = _
    rw [step_out c hc h, ih (step_inv c h)]
    rfl

/-- with `maxlen = 0` nothing is ever stored -/
theorem inv_zero {truth : Key → Option Bool} {s : Store} (h : Inv truth 0 s) : s = Store.empty := by
  obtain ⟨sv, va⟩ := s
  have h1 := (h .schemaValid).2
  have h2 := (h .validAgainst).2
  simp only [Store.get, Nat.le_zero, List.length_eq_zero_iff] at h1 h2
  subst h1 h2; rfl

/-- on every reachable state a call is answered as on the empty state — any capacity -/
theorem step_out_empty {truth : Key → Option Bool} {cap : Nat} {s : Store} (call : Call)
    (h : Inv truth cap s) : (step truth cap s call).2 = (step truth cap Store.empty call).2 := by
  cases cap with
  | zero => rw [inv_zero h]
  | succ n => rw [step_out call (Nat.succ_pos n) h, step_out call (Nat.succ_pos n) (inv_empty truth _)]

theorem run_out_empty {truth : Key → Option Bool} {cap : Nat} (calls : List Call) :
    ∀ {s : Store}, Inv truth cap s →
      (run truth cap s calls).2 = calls.map (fun c => (step truth cap Store.empty c).2) := by
  induction calls with
  | nil => exact fun _ => rfl
  | cons c cs ih =>
    intro s h
    show (step truth cap s c).2 :: (run truth cap (step truth cap s c).1 cs).2 = _
    rw [step_out_empty c h, ih (step_inv c h)]
    rfl

theorem find_set (k : Nat) (v : Bool) (c : Cache) : find k (set k v c) = some v := by
  unfold set
  split
  · rename_i w hw
    induction c with
    | nil => simp [find] at hw
    | cons e r ih =>
      obtain ⟨k', v'⟩ := e
      simp only [find] at hw
      by_cases hk : k' = k
      · simp [find, hk]
      · simp only [hk, if_false] at hw
        simp [find, hk, ih hw]
  · simp [find]

end AthlibVerif.Cache
