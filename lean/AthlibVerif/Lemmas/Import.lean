import AthlibVerif.Lemmas.EraseStep
import AthlibVerif.Lemmas.RoundRobin
import AthlibVerif.Lemmas.CardLog
/-!
# The card import, whole competitions

A history has the shape "registrations, then for each bar: the bar, then trials".  `from_matrix` replays such a
history as "registrations, then for each bar: the bar, then attempt 1 of everybody in card order, attempt 2,
attempt 3, leaving out the passes" (`imported`).  If the history was accepted in full, so is the import, and the
two end in competitions that show the same — state, heights, bests, places and cards, pass marks aside.
-/
namespace AthlibVerif.HJ
open AthlibVerif.Ranking AthlibVerif.Props.C02

/-- a bar and the trials taken at it -/
abbrev Block := Int × List Op

/-- the calls of a block-structured history -/
def flat (bs : List Block) : List Op := bs.flatMap (fun b => Op.bar b.1 :: b.2)

/-- the same blocks, each replayed attempt by attempt in the order `order` -/
def replayed (order : List Nat) (bs : List Block) : List Op :=
  bs.flatMap (fun b => Op.bar b.1 :: roundRobin order (fun a => marksOf a b.2))

/-- what the card import calls: as `replayed`, passes left out (`bib_trial(bib, '-')` does nothing) -/
def imported (order : List Nat) (bs : List Block) : List Op :=
  bs.flatMap (fun b => Op.bar b.1 :: (roundRobin order (fun a => marksOf a b.2)).filter notPass)

structure BlockOK (order : List Nat) (b : Block) : Prop where
  trials : ∀ op ∈ b.2, ∃ a t, op = Op.trial a t
  known : ∀ a t, Op.trial a t ∈ b.2 → a ∈ order
  short : ∀ a, (marksOf a b.2).length ≤ 3

theorem thread_marks (b : Nat) (l : List Op) : thread b l = (marksOf b l).map (Op.trial b) := by
  unfold thread marksOf
  induction l with
  | nil => rfl
  | cons op rest ih =>
    cases op with
    | add x =>
      have ha : bibOf (Op.add x) = none := rfl
      simp only [List.filter_cons, List.filterMap_cons, ha]; simpa using ih
    | bar x =>
      have ha : bibOf (Op.bar x) = none := rfl
      simp only [List.filter_cons, List.filterMap_cons, ha]; simpa using ih
    | trial b' t =>
      simp only [List.filter_cons, List.filterMap_cons, bibOf_trial]
      by_cases e : b' = b
      · subst e; simp [ih]
      · have h1 : (some b' == some b) = false := by simpa using e
        have h2 : (b' == b) = false := by simpa using e
        simp only [h1, h2, Bool.false_eq_true, if_false]
        exact ih

/-- the attempt-by-attempt order of a block is a chain of exchanges of adjacent trials of different athletes -/
theorem block_swaps (order : List Nat) (hn : order.Nodup) (b : Block) (hb : BlockOK order b) :
    Swaps b.2 (roundRobin order (fun a => marksOf a b.2)) := by
  have hth : ∀ a, thread a b.2 = thread a (roundRobin order (fun a => marksOf a b.2)) := by
    intro a
    rw [thread_roundRobin order _ hn a (hb.short a), thread_marks]
    split
    · rfl
    · next ha =>
      have : marksOf a b.2 = [] := by
        apply marksOf_nil_of_absent
        intro t ht
        exact ha (hb.known a t ht)
      rw [this]; rfl
  have hperm := perm_of_threads b.2 _ hb.trials (roundRobin_trials order _) hth
  exact swaps_of_same_threads b.2 _ hb.trials hperm hth

theorem flat_cons (b : Block) (rest : List Block) : flat (b :: rest) = (Op.bar b.1 :: b.2) ++ flat rest := by
  simp [flat]
theorem replayed_cons (order : List Nat) (b : Block) (rest : List Block) :
    replayed order (b :: rest) = (Op.bar b.1 :: roundRobin order (fun a => marksOf a b.2)) ++ replayed order rest := by
  simp [replayed]

/-- **Replaying every height attempt by attempt**: accepted whenever the recorded order was, same outcome. -/
theorem replay_blocks (order : List Nat) (hn : order.Nodup) (bs : List Block) : ∀ (pre : List Op),
    (∀ b ∈ bs, BlockOK order b) → allOk {} (pre ++ flat bs) = true →
    allOk {} (pre ++ replayed order bs) = true ∧
    SameButRanked (run {} (pre ++ flat bs)) (run {} (pre ++ replayed order bs)) := by
  induction bs with
  | nil => intro pre _ h; exact ⟨h, SameButRanked.refl _⟩
  | cons b rest ih =>
    intro pre hb hok
    have hb0 := hb b (by simp)
    -- up to and including this bar
    have e1 : pre ++ flat (b :: rest) = (pre ++ [Op.bar b.1]) ++ (b.2 ++ flat rest) := by
      rw [flat_cons]; simp
    have e2 : pre ++ replayed order (b :: rest) =
        ((pre ++ [Op.bar b.1]) ++ roundRobin order (fun a => marksOf a b.2)) ++ replayed order rest := by
      rw [replayed_cons]; simp
    rw [e1, allOk_append (pre ++ [Op.bar b.1]), allOk_append b.2] at hok
    simp only [Bool.and_eq_true] at hok
    obtain ⟨hok1, hok2, hok3⟩ := hok
    have hg : Good (run {} (pre ++ [Op.bar b.1])) := good_init.run _
    obtain ⟨hok2', hsame⟩ := swaps_run _ hg (block_swaps order hn b hb0) hok2
    obtain ⟨hok3', hsame'⟩ := same_run (flat rest) _ _ (hg.run b.2).wf hsame
    -- the rest, after this block in the new order
    have hok' : allOk {} (((pre ++ [Op.bar b.1]) ++ roundRobin order (fun a => marksOf a b.2)) ++ flat rest) = true := by
      rw [allOk_append, allOk_append]
      simp only [Bool.and_eq_true]
      refine ⟨⟨hok1, hok2'⟩, ?_⟩
      rw [run_append, ← hok3']; exact hok3
    obtain ⟨h1, h2⟩ := ih _ (fun b' hb' => hb b' (List.mem_cons_of_mem _ hb')) hok'
    rw [e1, e2]
    refine ⟨h1, ?_⟩
    have e3 : run {} ((pre ++ [Op.bar b.1]) ++ (b.2 ++ flat rest)) = run (run (run {} (pre ++ [Op.bar b.1])) b.2) (flat rest) := by
      rw [run_append, run_append]
    have e4 : run {} (((pre ++ [Op.bar b.1]) ++ roundRobin order (fun a => marksOf a b.2)) ++ flat rest) =
        run (run (run {} (pre ++ [Op.bar b.1])) (roundRobin order (fun a => marksOf a b.2))) (flat rest) := by
      rw [run_append, run_append]
    rw [e3]
    rw [e4] at h2
    exact hsame'.trans h2

theorem filter_flatMap_ops (bs : List Block) (f : Block → List Op) (p : Op → Bool) :
    (bs.flatMap f).filter p = bs.flatMap (fun b => (f b).filter p) := by
  induction bs with
  | nil => rfl
  | cons b rest ih => simp only [List.flatMap_cons, List.filter_append, ih]

theorem flatMap_congr_ops (bs : List Block) (f g : Block → List Op) (h : ∀ b ∈ bs, f b = g b) :
    bs.flatMap f = bs.flatMap g := by
  induction bs with
  | nil => rfl
  | cons b rest ih =>
    simp only [List.flatMap_cons]
    rw [h b (by simp), ih (fun b' hb' => h b' (List.mem_cons_of_mem _ hb'))]

theorem obsP_of_same (a b : Comp) (h : SameButRanked a b) : obsP a = obsP b := by
  unfold obsP; rw [h.1, h.2.1, h.2.2.1]

/-- **The card import** of a whole competition: registrations, then for each bar the bar and the trials.  If the
    history is accepted in full, so is "registrations, then for each bar the bar and attempt 1, 2, 3 of everybody in
    card order, passes left out", and both end showing the same: state, heights, bests, places and cards, pass marks
    aside. -/
theorem import_blocks (adds : List Op) (hadds : ∀ op ∈ adds, ∃ b, op = Op.add b) (order : List Nat) (hn : order.Nodup)
    (bs : List Block) (hb : ∀ b ∈ bs, BlockOK order b) (hok : allOk {} (adds ++ flat bs) = true) :
    allOk {} (adds ++ imported order bs) = true ∧
    obsP (run {} (adds ++ imported order bs)) = obsP (run {} (adds ++ flat bs)) := by
  obtain ⟨h1, h2⟩ := replay_blocks order hn bs adds hb hok
  have hfil : (adds ++ replayed order bs).filter notPass = adds ++ imported order bs := by
    rw [List.filter_append]
    congr 1
    · apply List.filter_eq_self.2
      intro op hop
      obtain ⟨b, rfl⟩ := hadds op hop
      rfl
    · unfold replayed imported
      rw [filter_flatMap_ops]
      apply flatMap_congr_ops
      intro b _
      simp only [List.filter_cons, notPass, if_true]
  obtain ⟨h3, h4⟩ := erase_run _ {} {} einv_init good_init.wf sim_init h1
  rw [hfil] at h3 h4
  exact ⟨h3, (sim_obsP _ _ h4).trans (obsP_of_same _ _ h2).symm⟩

/-! ## reading the shape off a log -/

/-- one more call: a bar opens a block, anything else goes to the block that is open (or to the registrations) -/
def blocksStep (acc : List Op × List Block) (op : Op) : List Op × List Block :=
  match op with
  | .bar h => (acc.1, acc.2 ++ [(h, [])])
  | op => match acc.2.reverse with
    | [] => (acc.1 ++ [op], acc.2)
    | last :: rest => (acc.1, (((last.1, last.2 ++ [op]) :: rest).reverse))

/-- the calls before the first bar, and the blocks -/
def blocksOf (log : List Op) : List Op × List Block := log.foldl blocksStep ([], [])

theorem flat_append (a b : List Block) : flat (a ++ b) = flat a ++ flat b := by simp [flat]

theorem blocksStep_flat (acc : List Op × List Block) (op : Op) :
    (blocksStep acc op).1 ++ flat (blocksStep acc op).2 = acc.1 ++ flat acc.2 ++ [op] := by
  unfold blocksStep
  cases op with
  | bar h => simp [flat_append, flat]
  | add b =>
    simp only
    cases hr : acc.2.reverse with
    | nil =>
      have : acc.2 = [] := by simpa using hr
      simp [this, flat]
    | cons last rest =>
      have : acc.2 = rest.reverse ++ [last] := by
        have := congrArg List.reverse hr; simpa using this
      simp [this, flat_append, flat]
  | trial b t =>
    simp only
    cases hr : acc.2.reverse with
    | nil =>
      have : acc.2 = [] := by simpa using hr
      simp [this, flat]
    | cons last rest =>
      have : acc.2 = rest.reverse ++ [last] := by
        have := congrArg List.reverse hr; simpa using this
      simp [this, flat_append, flat]

/-- the split loses nothing: registrations followed by the blocks is the log again -/
theorem blocksOf_flat (log : List Op) : (blocksOf log).1 ++ flat (blocksOf log).2 = log := by
  unfold blocksOf
  suffices h : ∀ (acc : List Op × List Block), (log.foldl blocksStep acc).1 ++ flat (log.foldl blocksStep acc).2 = acc.1 ++ flat acc.2 ++ log by
    simpa [flat] using h ([], [])
  induction log with
  | nil => intro acc; simp
  | cons op rest ih =>
    intro acc
    rw [List.foldl_cons, ih, blocksStep_flat]
    simp

end AthlibVerif.HJ
