import AthlibVerif.Lemmas.Winner
/-!
# A pass is only a mark

An accepted pass writes `-` into the athlete's current cell and marks the athlete as done at this height; state,
heights, bests, places and every other card stay as they were ("explicit pass marks aside" in the card round trip).
-/
namespace AthlibVerif.HJ
open AthlibVerif.Ranking

/-- a card with the pass marks and the empty cells at the end taken out -/
def stripCard (card : List (List Trial)) : List (List Trial) :=
  ((card.map (fun cell => cell.filter (· != .p))).reverse.dropWhile (·.isEmpty)).reverse

/-- what a result sheet shows, pass marks aside: state, heights and per athlete bib, shown place, best, card -/
def obsP (c : Comp) : Phase × List Int × List (Nat × Option Nat × Int × List (List Trial)) :=
  (c.phase, c.heights,
   c.jumpers.map (fun j => (j.bib, (if j.bestIdx.isSome then some j.place else none), j.best, stripCard j.card)))

/-- places follow the keys, or nobody has a clearance yet (then no place is shown) -/
def RankedOrFresh (c : Comp) : Prop := Ranked c ∨ ∀ j ∈ c.jumpers, j.bestIdx = none

theorem stripCard_pass (card : List (List Trial)) (n : Nat) (h : card.length ≤ n) (hn : 0 < n) :
    stripCard (appendLast (padCard card n) .p) = stripCard card := by
  have hpl : (padCard card n).length = n := by rw [padCard_length]; omega
  have hpne : padCard card n ≠ [] := by intro e; rw [e] at hpl; simp at hpl; omega
  obtain ⟨init, last, hsplit⟩ : ∃ init last, padCard card n = init ++ [last] := by
    rcases List.eq_nil_or_concat (padCard card n) with h' | ⟨init, last, h'⟩
    · exact absurd h' hpne
    · exact ⟨init, last, by simpa using h'⟩
  rw [hsplit, appendLast_concat]
  -- taking the pass marks out of the new last cell gives the old last cell without its pass marks
  have hcell : (last ++ [Trial.p]).filter (· != Trial.p) = last.filter (· != Trial.p) := by
    rw [List.filter_append]; simp
  have h1 : stripCard (init ++ [last ++ [Trial.p]]) = stripCard (init ++ [last]) := by
    unfold stripCard
    simp only [List.map_append, List.map_cons, List.map_nil, hcell]
  rw [h1, ← hsplit]
  -- padding with empty cells does not survive the stripping
  unfold stripCard padCard
  simp only [List.map_append, List.map_replicate, List.filter_nil, List.reverse_append, List.reverse_replicate]
  congr 1
  generalize (n - card.length) = k
  induction k with
  | zero => simp
  | succ m ih => rw [List.replicate_succ, List.cons_append, List.dropWhile_cons]; simp [ih]

theorem countX_snoc_p (cell : List Trial) : countX (cell ++ [Trial.p]) = countX cell := by
  unfold countX; simp

/-- the cells of the card after a pass: the old ones, `-` added to the current one -/
theorem pass_card_getD (card : List (List Trial)) (n : Nat) (hlen : card.length ≤ n) (hn : 0 < n) (i : Nat) (hi : i < card.length) :
    countX ((appendLast (padCard card n) .p).getD i []) = countX (card.getD i []) ∧
    (appendLast (padCard card n) .p).take i = card.take i := by
  have hpl : (padCard card n).length = n := by rw [padCard_length]; omega
  have hpne : padCard card n ≠ [] := by intro e; rw [e] at hpl; simp at hpl; omega
  obtain ⟨_, hget⟩ := appendLast_spec (padCard card n) .p hpne
  constructor
  · rw [hget i, padCard_getD]
    split
    · exact countX_snoc_p _
    · rfl
  · -- the first i cells are cells of the old card
    apply List.ext_getElem?
    intro m
    simp only [List.getElem?_take]
    split
    · next hm =>
      have h1 : (appendLast (padCard card n) .p)[m]?.getD [] = card[m]?.getD [] := by
        have := hget m
        rw [List.getD_eq_getElem?_getD, List.getD_eq_getElem?_getD] at this
        rw [this, hpl]
        have hne : m ≠ n - 1 := by omega
        simp only [hne, if_false]
        rw [← List.getD_eq_getElem?_getD, padCard_getD, List.getD_eq_getElem?_getD]
      have hl1 : m < (appendLast (padCard card n) .p).length := by
        rw [(appendLast_spec (padCard card n) .p hpne).1, hpl]; omega
      have hl2 : m < card.length := by omega
      rw [List.getElem?_eq_getElem hl1, List.getElem?_eq_getElem hl2] at h1 ⊢
      simpa using h1
    · rfl

theorem key_pass (hs : List Int) (j : Jumper) (hb : BestInv hs j) (hpos : hs ≠ []) :
    (j.actCore hs.length (hs.getLast?.getD 0) .p).key = j.key := by
  have hp : 0 < hs.length := List.length_pos_iff.2 hpos
  simp only [Jumper.actCore]
  unfold Jumper.key
  simp only
  cases hbi : j.bestIdx with
  | none => rfl
  | some i =>
    obtain ⟨hi, _, _, _⟩ := hb.someCase i hbi
    obtain ⟨h1, h2⟩ := pass_card_getD j.card hs.length hb.len hp i hi
    simp only [h1, h2]

/-- after an accepted pass `_rank` decides nothing beyond `_rankj`: the passer is still in and has not cleared -/
theorem pass_rank_eq (c : Comp) (hw : WF c) (hf : AllFlags c) (b : Nat) (j j' : Jumper) (hfd : c.find b = some j)
    (hne : c.heights ≠ []) (hact : j.act c.heights.length (c.heights.getLast?.getD 0) .p = some j') :
    rank (logTrial c b .p j') = rankj (logTrial c b .p j') := by
  obtain ⟨he, hd, _⟩ := act_some j j' _ _ .p hact
  obtain ⟨hmj, hbj⟩ := find_some_mem c b j hfd
  have hj' : j' = j.actCore c.heights.length (c.heights.getLast?.getD 0) .p := act_core j j' _ _ .p hact
  have hbj' : j'.bib = b := by rw [hj', actCore_bib, hbj]
  have hp : 0 < c.heights.length := List.length_pos_iff.2 hne
  have hwL : WF (logTrial c b .p j') :=
    WF_of_same_bibs c (logTrial c b .p j') (by simp [update_bibs]) (List.Perm.refl _) hw
  have hje : j'.eliminated = false := by rw [hj']; simp [Jumper.actCore, he]
  have hplen : (padCard j.card c.heights.length).length = c.heights.length := by
    rw [padCard_length]; have := (hf j hmj).len; omega
  have hpne : padCard j.card c.heights.length ≠ [] := by
    intro e; rw [e] at hplen; simp at hplen; omega
  have hcard : j'.card = appendLast (padCard j.card c.heights.length) .p := by rw [hj']; rfl
  have hlast : j'.card.getLast?.getD [] = (padCard j.card c.heights.length).getLast?.getD [] ++ [Trial.p] := by
    rw [hcard, appendLast_getLast _ _ hpne]
  have hno : (j'.card.getLast?.getD []).contains Trial.o = false := by
    rw [hlast, List.contains_append, allX_no_o _ ((hf j hmj).openCell he hd)]; rfl
  rw [rank_eq_tail]
  unfold rankTail
  have hj := rankj_jumpers _ hwL
  cases (rankj (logTrial c b .p j')).ranked with
  | nil => rfl
  | cons r0 rest =>
    simp only
    have hmem : ({ j' with place := 1 + ((logTrial c b .p j').jumpers.filter (fun k => Key.lt k.key j'.key)).length } : Jumper) ∈
        (rankj (logTrial c b .p j')).jumpers.filter (fun j => !j.eliminated) := by
      rw [hj]
      refine List.mem_filter.2 ⟨List.mem_map.2 ⟨j', ?_, rfl⟩, by simp [hje]⟩
      simp only [logTrial_jumpers, Comp.update]
      exact List.mem_map.2 ⟨j, hmj, by simp [hbj', hbj]⟩
    generalize (rankj (logTrial c b .p j')).jumpers.filter (fun j => !j.eliminated) = fl at hmem
    match fl, hmem with
    | [], hmem => cases hmem
    | [x], hmem =>
      simp only [List.mem_singleton] at hmem
      subst hmem
      simp only
      unfold rankOneLeft
      have : ¬ ((j'.card.length == (rankj (logTrial c b .p j')).heights.length &&
          (j'.card.getLast?.getD []).contains Trial.o) = true) := by
        rw [hno]; simp
      rw [if_neg this]
    | _ :: _ :: _, _ => rfl

/-- **A pass is only a mark**: an accepted pass leaves state, heights, bests, shown places and every card — pass
    marks aside — exactly as they were. -/
theorem pass_only_a_mark (c : Comp) (hw : WF c) (hf : AllFlags c) (hbest : AllBest c) (hr : RankedOrFresh c) (b : Nat)
    (h : (step c (.trial b .p)).2 = .ok) :
    obsP (step c (.trial b .p)).1 = obsP c ∧ Ranked (step c (.trial b .p)).1 := by
  obtain ⟨j, j', hfd, _, hne, hact, hs⟩ := accepted_trial c b .p h
  rw [hs]
  simp only
  obtain ⟨he, hd, _⟩ := act_some j j' _ _ .p hact
  obtain ⟨hmj, hbj⟩ := find_some_mem c b j hfd
  have hj' : j' = j.actCore c.heights.length (c.heights.getLast?.getD 0) .p := act_core j j' _ _ .p hact
  have hbj' : j'.bib = b := by rw [hj', actCore_bib, hbj]
  have hp : 0 < c.heights.length := List.length_pos_iff.2 hne
  have hwL : WF (logTrial c b .p j') :=
    WF_of_same_bibs c (logTrial c b .p j') (by simp [update_bibs]) (List.Perm.refl _) hw
  have hkey : j'.key = j.key := by rw [hj']; exact key_pass c.heights j (hbest j hmj) hne
  have hje : j'.eliminated = false := by rw [hj']; simp [Jumper.actCore, he]
  -- the new card of the passer: the old cells, the current one closed by the pass
  have hplen : (padCard j.card c.heights.length).length = c.heights.length := by
    rw [padCard_length]; have := (hf j hmj).len; omega
  have hpne : padCard j.card c.heights.length ≠ [] := by
    intro e; rw [e] at hplen; simp at hplen; omega
  have hcard : j'.card = appendLast (padCard j.card c.heights.length) .p := by rw [hj']; rfl
  have hlast : j'.card.getLast?.getD [] = (padCard j.card c.heights.length).getLast?.getD [] ++ [Trial.p] := by
    rw [hcard, appendLast_getLast _ _ hpne]
  have hno : (j'.card.getLast?.getD []).contains Trial.o = false := by
    rw [hlast, List.contains_append, allX_no_o _ ((hf j hmj).openCell he hd)]; rfl
  have hrank := pass_rank_eq c hw hf b j j' hfd hne hact
  rw [hrank]
  refine ⟨?_, rankj_ranked _ hwL⟩
  -- the records after: everybody as before, the passer with the new card; places re-computed from unchanged keys
  have hkeys : ∀ k ∈ c.jumpers, (if k.bib == j'.bib then j' else k).key = k.key := by
    intro k hk
    split
    · next e =>
      have : k = j := bib_inj c.jumpers hw.1 k j hk hmj (by rw [hbj, ← hbj']; simpa using e)
      rw [this]; exact hkey
    · rfl
  have hcount : ∀ key : Key, ((logTrial c b .p j').jumpers.filter (fun k => Key.lt k.key key)).length =
      (c.jumpers.filter (fun k => Key.lt k.key key)).length := by
    intro key
    simp only [logTrial_jumpers, Comp.update]
    rw [List.filter_map, List.length_map]
    congr 1
    apply List.filter_congr
    intro k hk
    simp only [Function.comp_apply, hkeys k hk]
  unfold obsP
  rw [(rankj_frame _).2.2.1, (rankj_frame _).2.1, rankj_jumpers _ hwL]
  simp only [logTrial_phase, logTrial_heights, logTrial_jumpers, Comp.update, List.map_map, Prod.mk.injEq, true_and]
  apply List.map_congr_left
  intro k hk
  simp only [Function.comp_apply]
  have hkk := hkeys k hk
  -- the shown place
  have hplace : ∀ x : Jumper, x.key = k.key → x.bestIdx = k.bestIdx →
      (if x.bestIdx.isSome then some (1 + ((logTrial c b .p j').jumpers.filter (fun q => Key.lt q.key x.key)).length) else none) =
      (if k.bestIdx.isSome then some k.place else none) := by
    intro x hxk hxb
    rw [hxb, hxk, hcount]
    cases hbi : k.bestIdx with
    | none => rfl
    | some i =>
      simp only [Option.isSome_some, if_true]
      rcases hr with hr | hr
      · rw [hr k hk]
      · rw [hr k hk] at hbi; cases hbi
  by_cases e : k.bib = j'.bib
  · have hkj : k = j := bib_inj c.jumpers hw.1 k j hk hmj (by rw [hbj, ← hbj']; exact e)
    have e' : (k.bib == j'.bib) = true := by simpa using e
    simp only [e', if_true]
    subst hkj
    have hb' : j'.bestIdx = k.bestIdx := by rw [hj']; rfl
    have hbest' : j'.best = k.best := by rw [hj']; rfl
    refine Prod.ext (by simp [hbj', hbj]) (Prod.ext ?_ (Prod.ext hbest' ?_))
    · exact hplace j' hkey hb'
    · simp only
      rw [hcard]
      exact stripCard_pass k.card c.heights.length (hf k hk).len hp
  · have e' : (k.bib == j'.bib) = false := by simpa using e
    simp only [e', Bool.false_eq_true, if_false]
    exact Prod.ext rfl (Prod.ext (hplace k rfl rfl) rfl)

end AthlibVerif.HJ
