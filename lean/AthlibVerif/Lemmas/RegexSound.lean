import AthlibVerif.Model.Regex
/-!
# L1 — denotational semantics of `RE`, correctness of derivatives, soundness of the emptiness checker
Core Lean only.  Everything in C04/C07/C10/C17 that says "for all strings" goes through
`isEmptyLang_sound` and its corollaries at the end of this file.
-/
namespace AthlibVerif
namespace RE

/-- star language as an inductive over a base predicate -/
inductive StarL (L : List Nat → Prop) : List Nat → Prop
  | nil : StarL L []
  | cons (u v : List Nat) : u ≠ [] → L u → StarL L v → StarL L (u ++ v)

def lang : RE → List Nat → Prop
  | empty => fun _ => False
  | eps => fun w => w = []
  | cls m => fun w => ∃ x, w = [x] ∧ m.testBit x = true
  | cat a b => fun w => ∃ u v, w = u ++ v ∧ lang a u ∧ lang b v
  | alt a b => fun w => lang a w ∨ lang b w
  | star a => StarL (lang a)
  | and a b => fun w => lang a w ∧ lang b w
  | not a => fun w => ¬ lang a w

theorem nullable_iff (r : RE) : r.nullable = true ↔ lang r [] := by
  induction r with
  | empty => simp [nullable, lang]
  | eps => simp [nullable, lang]
  | cls m => simp [nullable, lang]
  | cat a b iha ihb =>
    simp only [nullable, lang, Bool.and_eq_true, iha, ihb]
    constructor
    · rintro ⟨h1, h2⟩; exact ⟨[], [], rfl, h1, h2⟩
    · rintro ⟨u, v, h, h1, h2⟩
      have : u = [] ∧ v = [] := by simpa using h.symm
      rw [this.1] at h1; rw [this.2] at h2; exact ⟨h1, h2⟩
  | alt a b iha ihb => simp [nullable, lang, iha, ihb]
  | star a _ => simp [nullable, lang]; exact StarL.nil
  | and a b iha ihb => simp [nullable, lang, iha, ihb]
  | not a iha => simp [nullable, lang, ← iha]

theorem lang_mkCat (a b : RE) (w) : lang (mkCat a b) w ↔ lang (cat a b) w := by
  unfold mkCat
  split
  · next h => subst h; simp [lang]
  split
  · next h => subst h; simp [lang]
  split
  · next h =>
    subst h; simp only [lang]
    constructor
    · intro hb; exact ⟨[], w, rfl, rfl, hb⟩
    · rintro ⟨u, v, rfl, rfl, hv⟩; simpa using hv
  split
  · next h =>
    subst h; simp only [lang]
    constructor
    · intro ha; exact ⟨w, [], by simp, ha, rfl⟩
    · rintro ⟨u, v, rfl, hu, rfl⟩; simpa using hu
  · rfl
theorem lang_mkAlt (a b : RE) (w) : lang (mkAlt a b) w ↔ lang a w ∨ lang b w := by
  unfold mkAlt
  split
  · next h => subst h; simp [lang]
  split
  · next h => subst h; simp [lang]
  · rfl
theorem lang_mkAnd (a b : RE) (w) : lang (mkAnd a b) w ↔ lang a w ∧ lang b w := by
  unfold mkAnd
  split
  · next h => subst h; simp [lang]
  split
  · next h => subst h; simp [lang]
  · rfl

theorem starL_cons_iff (L : List Nat → Prop) (x : Nat) (w : List Nat) :
    StarL L (x :: w) ↔ ∃ u v, w = u ++ v ∧ L (x :: u) ∧ StarL L v := by
  constructor
  · intro h
    generalize hz : x :: w = z at h
    induction h with
    | nil => cases hz
    | cons u v hne hu hv _ =>
      cases u with
      | nil => exact absurd rfl hne
      | cons y u' =>
        simp at hz
        obtain ⟨rfl, rfl⟩ := hz
        exact ⟨u', v, rfl, hu, hv⟩
  · rintro ⟨u, v, rfl, hu, hv⟩
    exact StarL.cons (x :: u) v (by simp) hu hv

theorem deriv_lang (x : Nat) (r : RE) : ∀ w, lang (deriv x r) w ↔ lang r (x :: w) := by
  induction r with
  | empty => intro w; simp [deriv, lang]
  | eps => intro w; simp [deriv, lang]
  | cls m =>
    intro w
    simp only [deriv]
    split
    · next h =>
      simp only [lang]
      constructor
      · rintro rfl; exact ⟨x, rfl, h⟩
      · rintro ⟨y, hy, _⟩; simp at hy; exact hy.2
    · next h =>
      simp only [lang]
      constructor
      · intro hf; exact hf.elim
      · rintro ⟨y, hy, hb⟩
        simp at hy; obtain ⟨rfl, _⟩ := hy; exact h hb
  | cat a b iha ihb =>
    intro w
    have key : lang (cat a b) (x :: w) ↔ (lang a [] ∧ lang b (x :: w)) ∨ ∃ u v, w = u ++ v ∧ lang a (x :: u) ∧ lang b v := by
      simp only [lang]
      constructor
      · rintro ⟨u, v, h, hu, hv⟩
        cases u with
        | nil => left; simp at h; subst h; exact ⟨hu, hv⟩
        | cons y u' =>
          right; simp at h; obtain ⟨rfl, rfl⟩ := h
          exact ⟨u', v, rfl, hu, hv⟩
      · rintro (⟨h1, h2⟩ | ⟨u, v, rfl, hu, hv⟩)
        · exact ⟨[], x :: w, rfl, h1, h2⟩
        · exact ⟨x :: u, v, rfl, hu, hv⟩
    rw [key]
    simp only [deriv]
    split
    · next hn =>
      rw [lang_mkAlt, lang_mkCat]
      simp only [lang, iha, ihb]
      have := (nullable_iff a).1 hn
      constructor
      · rintro (h | h)
        · right; exact h
        · left; exact ⟨this, h⟩
      · rintro (⟨_, h⟩ | h)
        · right; exact h
        · left; exact h
    · next hn =>
      rw [lang_mkCat]
      simp only [lang, iha]
      have : ¬ lang a [] := fun h => hn ((nullable_iff a).2 h)
      constructor
      · intro h; right; exact h
      · rintro (⟨h, _⟩ | h)
        · exact absurd h this
        · exact h
  | alt a b iha ihb => intro w; simp [deriv, lang_mkAlt, lang, iha, ihb]
  | star a iha =>
    intro w
    simp only [deriv, lang_mkCat]
    simp only [lang, starL_cons_iff, iha]
  | and a b iha ihb => intro w; simp [deriv, lang_mkAnd, lang, iha, ihb]
  | not a iha => intro w; simp [deriv, mkNot, lang, iha]

theorem accepts_iff (r : RE) (w : List Nat) : accepts r w = true ↔ lang r w := by
  induction w generalizing r with
  | nil => simp [accepts, nullable_iff]
  | cons x xs ih => simp [accepts, ih, deriv_lang]

/-- invariant: everything in seen has all its successors in seen ∪ todo -/
theorem explore_closed (nsym : Nat) : ∀ fuel todo seen res,
    explore nsym fuel todo seen = some res →
    (∀ q ∈ seen, ∀ x ≤ nsym, deriv x q ∈ seen ∨ deriv x q ∈ todo) →
    (∀ q ∈ res, ∀ x ≤ nsym, deriv x q ∈ res) ∧ (∀ q ∈ seen, q ∈ res) ∧ (∀ q ∈ todo, q ∈ res) := by
  intro fuel
  induction fuel with
  | zero => intro todo seen res h; simp [explore] at h
  | succ n ih =>
    intro todo seen res h hinv
    cases todo with
    | nil =>
      simp [explore] at h; subst h
      refine ⟨?_, fun q hq => hq, by simp⟩
      intro q hq x hx
      rcases hinv q hq x hx with h | h
      · exact h
      · simp at h
    | cons r todo =>
      simp only [explore] at h
      split at h
      · next hc =>
        have hr : r ∈ seen := by simpa using hc
        have := ih todo seen res h (by
          intro q hq x hx
          rcases hinv q hq x hx with h' | h'
          · left; exact h'
          · simp at h'
            rcases h' with h' | h'
            · left; rw [h']; exact hr
            · right; exact h')
        refine ⟨this.1, this.2.1, ?_⟩
        intro q hq
        simp at hq
        rcases hq with rfl | hq
        · exact this.2.1 _ hr
        · exact this.2.2 _ hq
      · next hc =>
        have := ih _ _ res h (by
          intro q hq x hx
          simp at hq
          rcases hq with rfl | hq
          · right
            simp
            left
            exact ⟨x, Nat.lt_succ_of_le hx, rfl⟩
          · rcases hinv q hq x hx with h' | h'
            · left; simp; right; exact h'
            · simp at h'
              rcases h' with h' | h'
              · left; simp; left; exact h'
              · right; simp; right; exact h')
        refine ⟨this.1, ?_, ?_⟩
        · intro q hq; exact this.2.1 q (by simp; right; exact hq)
        · intro q hq
          simp at hq
          rcases hq with rfl | hq
          · exact this.2.1 _ (by simp)
          · exact this.2.2 q (by simp; right; exact hq)

theorem isEmptyLang_sound (nsym fuel : Nat) (r : RE) (h : isEmptyLang nsym fuel r = true) :
    ∀ w : List Nat, (∀ x ∈ w, x ≤ nsym) → ¬ lang r w := by
  unfold isEmptyLang at h
  split at h
  · simp at h
  · next seen hs =>
    have hcl := explore_closed nsym fuel [r] [] seen hs (by simp)
    have hall : ∀ q ∈ seen, q.nullable = false := by
      intro q hq
      have := List.all_eq_true.1 h q hq
      simpa using this
    have main : ∀ w : List Nat, (∀ x ∈ w, x ≤ nsym) → ∀ q ∈ seen, ¬ lang q w := by
      intro w
      induction w with
      | nil =>
        intro _ q hq hl
        have := (nullable_iff q).2 hl
        rw [hall q hq] at this; cases this
      | cons x xs ih =>
        intro hw q hq hl
        have hx : x ≤ nsym := hw x (by simp)
        have hd := hcl.1 q hq x hx
        exact ih (fun y hy => hw y (by simp [hy])) _ hd ((deriv_lang x q xs).2 hl)
    intro w hw
    exact main w hw r (hcl.2.2 r (by simp))

/-! ## corollaries used by the obligations -/

/-- words all of whose symbols are inside the alphabet `0..nsym` -/
def InAlpha (nsym : Nat) (w : List Nat) : Prop := ∀ x ∈ w, x ≤ nsym

theorem equiv_of_check (nsym fuel : Nat) (a b : RE)
    (h : isEmptyLang nsym fuel (symdiff a b) = true) :
    ∀ w, InAlpha nsym w → (lang a w ↔ lang b w) := by
  intro w hw
  have := isEmptyLang_sound nsym fuel _ h w hw
  simp only [symdiff, lang] at this
  constructor
  · intro ha
    apply Classical.byContradiction
    intro hb; exact this (Or.inl ⟨ha, hb⟩)
  · intro hb
    apply Classical.byContradiction
    intro ha; exact this (Or.inr ⟨hb, ha⟩)

theorem disjoint_of_check (nsym fuel : Nat) (a b : RE)
    (h : isEmptyLang nsym fuel (RE.and a b) = true) :
    ∀ w, InAlpha nsym w → ¬ (lang a w ∧ lang b w) := by
  intro w hw
  have := isEmptyLang_sound nsym fuel _ h w hw
  simpa [lang] using this

theorem subset_of_check (nsym fuel : Nat) (a b : RE)
    (h : isEmptyLang nsym fuel (RE.and a (RE.not b)) = true) :
    ∀ w, InAlpha nsym w → lang a w → lang b w := by
  intro w hw ha
  have := isEmptyLang_sound nsym fuel _ h w hw
  simp only [lang] at this
  apply Classical.byContradiction
  intro hb; exact this ⟨ha, hb⟩

/-! ## syntactic fast path -/

/-- language of a list of factors -/
def langList : List RE → List Nat → Prop
  | [] => fun w => w = []
  | x :: xs => fun w => ∃ u v, w = u ++ v ∧ lang x u ∧ langList xs v

theorem langList_append (l1 l2 : List RE) : ∀ w,
    langList (l1 ++ l2) w ↔ ∃ u v, w = u ++ v ∧ langList l1 u ∧ langList l2 v := by
  induction l1 with
  | nil =>
    intro w
    simp only [List.nil_append, langList]
    constructor
    · intro h; exact ⟨[], w, rfl, rfl, h⟩
    · rintro ⟨u, v, rfl, rfl, h⟩; simpa using h
  | cons x xs ih =>
    intro w
    simp only [List.cons_append, langList, ih]
    constructor
    · rintro ⟨u, v, rfl, hx, u', v', rfl, h1, h2⟩
      exact ⟨u ++ u', v', by simp, ⟨u, u', rfl, hx, h1⟩, h2⟩
    · rintro ⟨u, v, rfl, ⟨u1, u2, rfl, hx, h1⟩, h2⟩
      exact ⟨u1, u2 ++ v, by simp, hx, u2, v, rfl, h1, h2⟩

theorem langList_singleton (r : RE) (w : List Nat) : langList [r] w ↔ lang r w := by
  simp only [langList]
  constructor
  · rintro ⟨u, v, rfl, h, rfl⟩; simpa using h
  · intro h; exact ⟨w, [], by simp, h, rfl⟩

theorem lang_catList (r : RE) : ∀ w, langList (catList r) w ↔ lang r w := by
  induction r with
  | cat a b iha ihb =>
    intro w
    simp only [catList, langList_append, lang, iha, ihb]
  | eps => intro w; simp [catList, langList, lang]
  | empty => intro w; simp only [catList]; exact langList_singleton _ w
  | cls m => intro w; simp only [catList]; exact langList_singleton _ w
  | alt a b _ _ => intro w; simp only [catList]; exact langList_singleton _ w
  | star a _ => intro w; simp only [catList]; exact langList_singleton _ w
  | and a b _ _ => intro w; simp only [catList]; exact langList_singleton _ w
  | not a _ => intro w; simp only [catList]; exact langList_singleton _ w

theorem lang_flat (r : RE) : ∀ w, lang r w ↔ ∃ l ∈ flat r, langList l w := by
  induction r with
  | alt a b iha ihb =>
    intro w
    simp only [flat, lang, List.mem_append, iha, ihb]
    constructor
    · rintro (⟨l, hl, h⟩ | ⟨l, hl, h⟩)
      · exact ⟨l, Or.inl hl, h⟩
      · exact ⟨l, Or.inr hl, h⟩
    · rintro ⟨l, hl | hl, h⟩
      · exact Or.inl ⟨l, hl, h⟩
      · exact Or.inr ⟨l, hl, h⟩
  | cat a c iha _ =>
    intro w
    simp only [flat, lang, List.mem_map]
    constructor
    · rintro ⟨u, v, rfl, hu, hv⟩
      obtain ⟨l, hl, h⟩ := (iha u).1 hu
      exact ⟨l ++ catList c, ⟨l, hl, rfl⟩, (langList_append _ _ _).2 ⟨u, v, rfl, h, (lang_catList c v).2 hv⟩⟩
    · rintro ⟨_, ⟨l, hl, rfl⟩, h⟩
      obtain ⟨u, v, rfl, hu, hv⟩ := (langList_append _ _ _).1 h
      exact ⟨u, v, rfl, (iha u).2 ⟨l, hl, hu⟩, (lang_catList c v).1 hv⟩
  | eps => intro w; simp [flat, lang, langList]
  | empty => intro w; simp only [flat, List.mem_singleton, exists_eq_left]; exact (langList_singleton _ w).symm
  | cls m => intro w; simp only [flat, List.mem_singleton, exists_eq_left]; exact (langList_singleton _ w).symm
  | star a _ => intro w; simp only [flat, List.mem_singleton, exists_eq_left]; exact (langList_singleton _ w).symm
  | and a b _ _ => intro w; simp only [flat, List.mem_singleton, exists_eq_left]; exact (langList_singleton _ w).symm
  | not a _ => intro w; simp only [flat, List.mem_singleton, exists_eq_left]; exact (langList_singleton _ w).symm

theorem flatEq_sound (a b : RE) (h : flatEq a b = true) : ∀ w, lang a w ↔ lang b w := by
  intro w
  simp only [flatEq, Bool.and_eq_true, List.all_eq_true, List.contains_iff_mem] at h
  rw [lang_flat a, lang_flat b]
  constructor
  · rintro ⟨l, hl, hw⟩; exact ⟨l, h.1 l hl, hw⟩
  · rintro ⟨l, hl, hw⟩; exact ⟨l, h.2 l hl, hw⟩

theorem eqCheck_sound (nsym fuel : Nat) (a b : RE) (h : eqCheck nsym fuel a b = true) :
    ∀ w, InAlpha nsym w → (lang a w ↔ lang b w) := by
  intro w hw
  simp only [eqCheck, Bool.or_eq_true] at h
  rcases h with h | h
  · exact flatEq_sound a b h w
  · exact equiv_of_check nsym fuel a b h w hw

end RE
end AthlibVerif
