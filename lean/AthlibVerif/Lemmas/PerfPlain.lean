import AthlibVerif.Lemmas.NatStr
/-!
# Reading a plain-seconds result back

`"%0.2f"` of a time below 100 s (`fmt2 c`, `c < 10000` hundredths) is a text of at most five characters without a
colon; `timedCore` on such a text does nothing before the parse (none of the colon / stop corrections applies to an
event shorter than 800 m) and hands `(0, 0, c/100)` to `timedDecide`.
-/
namespace AthlibVerif
namespace Codes

theorem digitChar0_ne_colon (d : Nat) (hd : d < 10) : digitChar0 d ≠ ':' := by
  have h : d = 0 ∨ d = 1 ∨ d = 2 ∨ d = 3 ∨ d = 4 ∨ d = 5 ∨ d = 6 ∨ d = 7 ∨ d = 8 ∨ d = 9 := by omega
  rcases h with rfl | rfl | rfl | rfl | rfl | rfl | rfl | rfl | rfl | rfl <;> decide

theorem natStrAux_no_colon : ∀ (fuel n : Nat) (acc : Str) (c : Char),
    c ∈ natStrAux fuel n acc → c ∈ acc ∨ c ≠ ':' := by
  intro fuel
  induction fuel with
  | zero => intro n acc c hc; exact Or.inl (by simpa [natStrAux] using hc)
  | succ f ih =>
    intro n acc c hc
    have hd : digitChar0 (n % 10) ≠ ':' := digitChar0_ne_colon _ (Nat.mod_lt _ (by omega))
    simp only [natStrAux] at hc
    split at hc
    · rcases List.mem_cons.1 hc with rfl | hc
      · exact Or.inr hd
      · exact Or.inl hc
    · rcases ih _ _ c hc with hm | hm
      · rcases List.mem_cons.1 hm with rfl | hm
        · exact Or.inr hd
        · exact Or.inl hm
      · exact Or.inr hm

theorem natStr_no_colon (n : Nat) : ∀ c ∈ natStr n, c ≠ ':' := by
  intro c hc
  rcases natStrAux_no_colon (n + 1) n [] c hc with hm | hm
  · cases hm
  · exact hm

/-- a number below 100 is printed with at most two digits -/
theorem natStr_length_le_two (n : Nat) (hn : n < 100) : (natStr n).length ≤ 2 := by
  unfold natStr
  by_cases h0 : n / 10 = 0
  · simp [natStrAux, h0]
  · obtain ⟨m, rfl⟩ : ∃ m, n = m + 1 := ⟨n - 1, by omega⟩
    have h1 : (m + 1) / 10 / 10 = 0 := by omega
    simp [natStrAux, h0, h1]

end Codes

namespace Perf
open Codes

theorem fmt2_no_colon (c : Nat) : ∀ ch ∈ fmt2 c, ch ≠ ':' := by
  intro ch hch
  simp only [fmt2, twoDigits_eq, List.mem_append, List.mem_cons, List.mem_nil_iff, or_false] at hch
  rcases hch with (h | rfl) | rfl | rfl
  · exact natStr_no_colon _ ch h
  · decide
  · exact digitChar0_ne_colon _ (Nat.mod_lt _ (by omega))
  · exact digitChar0_ne_colon _ (Nat.mod_lt _ (by omega))

theorem fmt2_has_dot (c : Nat) : '.' ∈ fmt2 c := by simp [fmt2]

theorem fmt2_length (c : Nat) (hc : c < 10000) : (fmt2 c).length ≤ 5 := by
  have := natStr_length_le_two (c / 100) (by omega)
  simp only [fmt2, twoDigits, List.length_append, List.length_cons, List.length_nil]
  omega

/-- a text without the separator is one chunk -/
theorem splitOn_no_sep (sep : Char) : ∀ s : Str, (∀ ch ∈ s, ch ≠ sep) → splitOn sep s = [s] := by
  intro s
  induction s with
  | nil => intro _; rfl
  | cons a rest ih =>
    intro h
    have hr := ih (fun ch hch => h ch (List.mem_cons_of_mem _ hch))
    have ha : (a == sep) = false := by simpa using h a (List.mem_cons_self ..)
    unfold splitOn at hr ⊢
    rw [List.foldr_cons, hr]
    simp [ha]

/-- a text that does not contain a character of the prefix does not start with it -/
theorem startsWith_false (s : Str) (p : String) (ch : Char) (hp : ch ∈ p.toList) (hs : ch ∉ s) : startsWith s p = false := by
  unfold startsWith
  cases h : (s.take p.toList.length == p.toList) with
  | false => rfl
  | true =>
    exfalso
    have e : s.take p.toList.length = p.toList := by simpa using h
    have : ch ∈ s.take p.toList.length := by rw [e]; exact hp
    exact hs (List.mem_of_mem_take this)

theorem stripTime_short (t : Str) (h : t.length ≤ 5) : stripTime t = t := by
  unfold stripTime
  rw [if_neg (by omega)]

/-- `timedCore` on a colon-free text with a decimal point, for an event shorter than 800 m: straight to the decision -/
theorem timedCore_plain (disc t : Str) (d : Nat) (hg : getDistance 8 disc = .ok (some d)) (h800 : d < 800)
    (hnc : ∀ ch ∈ t, ch ≠ ':') (hdot : '.' ∈ t) (f : Nat × Nat × Nat) (hf : floatOf t = some f) :
    timedCore disc t = timedDecide disc (some d) 0 0 f.1 f.2.1 f.2.2 := by
  have hcolon : ':' ∉ t := fun hm => hnc ':' hm rfl
  have h0 : startsWith t "0:" = false := startsWith_false t "0:" ':' (by decide) hcolon
  have h00 : startsWith t "00:" = false := startsWith_false t "00:" ':' (by decide) hcolon
  have hc1 : t.contains ':' = false := by simpa using hcolon
  have hc2 : t.contains '.' = true := by simpa using hdot
  have hsp : splitOn ':' t = [t] := splitOn_no_sep ':' t hnc
  unfold timedCore
  rw [hg]
  simp only [h0, h00, Bool.false_eq_true, if_false, hc1, hc2, Bool.and_false, Bool.not_true, Bool.and_true,
    Option.getD_some, Bool.not_false]
  have hge : decide (d ≥ 800) = false := by simpa using h800
  simp only [hge, Bool.and_false, Bool.false_eq_true, if_false, ite_self, hsp, hf, Option.map_some]

theorem floatOf_den (s : Str) (n dd k : Nat) (h : floatOf s = some (n, dd, k)) : dd = 10 ^ k := by
  unfold floatOf at h
  split at h
  · cases h
  · split at h
    · cases h
    · simp only at h
      split at h
      · cases h
      · split at h
        · injection h with h; injection h with _ h; injection h with h1 h2
          rw [← h1, ← h2]
        · cases h

theorem parsed_den (chunks : List Str) (h0 m0 sn0 sd0 dc0 : Nat)
    (heq : (match chunks with
      | [s] => (floatOf s).map (fun f => ((0 : Nat), (0 : Nat), f))
      | [m, s] => match pyInt m, floatOf s with
        | .ok m, some f => some (0, m, f)
        | _, _ => none
      | [h, m, s] => match pyInt h, pyInt m, floatOf s with
        | .ok h, .ok m, some f => some (h, m, f)
        | _, _, _ => none
      | _ => none) = some (h0, m0, sn0, sd0, dc0)) : sd0 = 10 ^ dc0 := by
  rcases chunks with _ | ⟨s1, _ | ⟨s2, _ | ⟨s3, _ | ⟨s4, rest⟩⟩⟩⟩
  · cases heq
  · simp only at heq
    cases hf : floatOf s1 with
    | none => rw [hf] at heq; cases heq
    | some f =>
      rw [hf] at heq
      obtain ⟨n, dd, k⟩ := f
      simp only [Option.map_some, Option.some.injEq, Prod.mk.injEq] at heq
      obtain ⟨_, _, e1, e2, e3⟩ := heq
      subst e2; subst e3
      exact floatOf_den s1 n dd k hf
  · simp only at heq
    split at heq
    · next m1 f hm hf =>
      obtain ⟨n, dd, k⟩ := f
      simp only [Option.some.injEq, Prod.mk.injEq] at heq
      obtain ⟨_, _, e1, e2, e3⟩ := heq
      subst e2; subst e3
      exact floatOf_den s2 n dd k hf
    · cases heq
  · simp only at heq
    split at heq
    · next h1 m1 f _ _ hf =>
      obtain ⟨n, dd, k⟩ := f
      simp only [Option.some.injEq, Prod.mk.injEq] at heq
      obtain ⟨_, _, e1, e2, e3⟩ := heq
      subst e2; subst e3
      exact floatOf_den s3 n dd k hf
    · cases heq
  · cases heq

theorem timedCore_decided (disc t : Str) (dist : Option Nat) (hg : getDistance 8 disc = .ok dist) (h m c : Nat)
    (hr : timedCore disc t = .time h m c) :
    ∃ h0 m0 sn0 dc0, timedDecide disc dist h0 m0 sn0 (10 ^ dc0) dc0 = .time h m c := by
  unfold timedCore at hr
  rw [hg] at hr
  simp only at hr
  generalize splitOn ':' _ = chunks at hr
  split at hr
  · cases hr
  · next h0 m0 sn0 sd0 dc0 heq =>
    refine ⟨h0, m0, sn0, dc0, ?_⟩
    rw [← parsed_den chunks h0 m0 sn0 sd0 dc0 heq]; exact hr

end Perf
end AthlibVerif
