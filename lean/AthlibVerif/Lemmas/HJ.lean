import AthlibVerif.Model.HJ
/-! frame lemmas for the high-jump model: what ranking does not touch -/
namespace AthlibVerif.HJ

@[simp] theorem update_log (c : Comp) (j : Jumper) : (c.update j).log = c.log := rfl
@[simp] theorem update_heights (c : Comp) (j : Jumper) : (c.update j).heights = c.heights := rfl
@[simp] theorem update_phase (c : Comp) (j : Jumper) : (c.update j).phase = c.phase := rfl
@[simp] theorem update_ranked (c : Comp) (j : Jumper) : (c.update j).ranked = c.ranked := rfl
@[simp] theorem update_jumpers_length (c : Comp) (j : Jumper) : (c.update j).jumpers.length = c.jumpers.length := by
  simp [Comp.update]

theorem assignPlaces_frame (l : List Nat) : ∀ (c : Comp) (i : Nat) (prev : Option (Key × Nat)),
    (assignPlaces c l i prev).log = c.log ∧ (assignPlaces c l i prev).heights = c.heights ∧
    (assignPlaces c l i prev).phase = c.phase ∧ (assignPlaces c l i prev).ranked = c.ranked ∧
    (assignPlaces c l i prev).jumpers.length = c.jumpers.length := by
  induction l with
  | nil => intro c i prev; simp [assignPlaces]
  | cons b rest ih =>
    intro c i prev
    simp only [assignPlaces]
    split
    · exact ih c (i+1) prev
    · refine ⟨(ih _ _ _).1.trans ?_, (ih _ _ _).2.1.trans ?_, (ih _ _ _).2.2.1.trans ?_,
        (ih _ _ _).2.2.2.1.trans ?_, (ih _ _ _).2.2.2.2.trans ?_⟩ <;> simp

theorem rankj_frame (c : Comp) :
    (rankj c).log = c.log ∧ (rankj c).heights = c.heights ∧ (rankj c).phase = c.phase ∧
    (rankj c).jumpers.length = c.jumpers.length := by
  unfold rankj
  have := assignPlaces_frame (sortRanked c c.ranked) { c with ranked := sortRanked c c.ranked } 0 none
  exact ⟨this.1, this.2.1, this.2.2.1, this.2.2.2.2⟩

def stage : Phase → Nat
  | .scheduled => 0 | .started => 1 | .jumpoff => 2 | .won => 2 | .finished => 3 | .drawn => 3

/-- log, heights and number of athletes are untouched -/
def Frame (c c' : Comp) : Prop :=
  c'.log = c.log ∧ c'.heights = c.heights ∧ c'.jumpers.length = c.jumpers.length

theorem Frame.refl (c : Comp) : Frame c c := ⟨rfl, rfl, rfl⟩
theorem Frame.trans {a b c : Comp} (h1 : Frame a b) (h2 : Frame b c) : Frame a c :=
  ⟨h2.1.trans h1.1, h2.2.1.trans h1.2.1, h2.2.2.trans h1.2.2⟩

theorem rankj_Frame (c : Comp) : Frame c (rankj c) :=
  ⟨(rankj_frame c).1, (rankj_frame c).2.1, (rankj_frame c).2.2.2⟩

/-- the phase after ranking: unchanged, or one of the decisions -/
def PhaseStep (p p' : Phase) : Prop :=
  p' = p ∨ p' = .jumpoff ∨ p' = .drawn ∨ p' = .finished ∨ (p' = .won ∧ (p = .started ∨ p = .won))

theorem rankTie_frame (c : Comp) : Frame c (rankTie c) ∧ PhaseStep c.phase (rankTie c).phase := by
  unfold rankTie
  simp only
  split
  · refine ⟨Frame.trans ?_ (rankj_Frame _), Or.inr (Or.inl ?_)⟩
    · exact ⟨rfl, rfl, by simp⟩
    · rw [(rankj_frame _).2.2.1]
  · exact ⟨⟨rfl, rfl, by simp⟩, Or.inr (Or.inr (Or.inl rfl))⟩

theorem rankLeader_frame (c : Comp) (r0 : Nat) : Frame c (rankLeader c r0) ∧ PhaseStep c.phase (rankLeader c r0).phase := by
  unfold rankLeader
  split
  · split
    · refine ⟨Frame.trans ?_ (rankj_Frame _), Or.inl ?_⟩
      · exact ⟨rfl, rfl, by simp⟩
      · rw [(rankj_frame _).2.2.1]; rfl
    · exact ⟨Frame.refl _, Or.inr (Or.inr (Or.inr (Or.inl rfl)))⟩
  · exact ⟨Frame.refl _, Or.inl rfl⟩

theorem rankOneLeft_frame (c : Comp) (w : Jumper) : Frame c (rankOneLeft c w) ∧ PhaseStep c.phase (rankOneLeft c w).phase := by
  unfold rankOneLeft
  split
  · refine ⟨Frame.refl _, ?_⟩
    simp only
    split
    · next h => exact Or.inr (Or.inr (Or.inr (Or.inr ⟨rfl, by simpa using h⟩)))
    · exact Or.inr (Or.inr (Or.inr (Or.inl rfl)))
  · exact ⟨Frame.refl _, Or.inl rfl⟩

/-- what `rank` can do to log, heights and phase -/
theorem rank_frame (c : Comp) : Frame c (rank c) ∧ PhaseStep c.phase (rank c).phase := by
  have hf := rankj_Frame c
  have hp := (rankj_frame c).2.2.1
  unfold rank
  simp only
  split
  · exact ⟨hf, Or.inl hp⟩
  · split
    · split
      · have := rankTie_frame (rankj c); rw [hp] at this; exact ⟨hf.trans this.1, this.2⟩
      · have := rankLeader_frame (rankj c) ‹_›; rw [hp] at this; exact ⟨hf.trans this.1, this.2⟩
    · have := rankOneLeft_frame (rankj c) ‹_›; rw [hp] at this; exact ⟨hf.trans this.1, this.2⟩
    · exact ⟨hf, Or.inl hp⟩

/-- what an accepted jumper-level action presupposes, and what it yields -/
theorem act_some (j j' : Jumper) (hc : Nat) (h : Int) (t : Trial) (ha : j.act hc h t = some j') :
    j.eliminated = false ∧ j.dismissed = false ∧ ((padCard j.card hc).getLast?.getD []).length < j.roundLim := by
  unfold Jumper.act at ha
  by_cases hf : (j.eliminated || j.dismissed) = true
  · simp [hf] at ha
  · by_cases hl : ((padCard j.card hc).getLast?.getD []).length + 1 > j.roundLim
    · simp [hf, hl] at ha
    · simp only [Bool.or_eq_true, not_or, Bool.not_eq_true] at hf
      exact ⟨hf.1, hf.2, by omega⟩

theorem act_core (j j' : Jumper) (hc : Nat) (h : Int) (t : Trial) (ha : j.act hc h t = some j') :
    j' = j.actCore hc h t := by
  unfold Jumper.act at ha
  split at ha
  · cases ha
  · split at ha
    · cases ha
    · injection ha with ha; exact ha.symm

/-! ## one-line characterisations of `step` -/

def addResult (c : Comp) (b : Nat) : Comp :=
  { c with jumpers := c.jumpers ++ [{ bib := b, place := c.jumpers.length + 1 }], ranked := c.ranked ++ [b],
           log := c.log ++ [.add b] }

theorem step_add (c : Comp) (b : Nat) :
    step c (.add b) = if c.phase = .scheduled ∧ c.find b = none then (addResult c b, .ok) else (c, .rule) := by
  simp only [step, addResult]
  by_cases h1 : c.phase = .scheduled
  · cases h2 : c.find b <;> simp [h1]
  · simp [h1]

def barAllowed (c : Comp) (h : Int) : Prop :=
  (c.phase = .scheduled ∨ c.phase = .started ∨ c.phase = .jumpoff ∨ c.phase = .won) ∧
  (c.phase = .jumpoff ∨ c.heights.getLast?.getD 0 < h)

instance (c : Comp) (h : Int) : Decidable (barAllowed c h) := by unfold barAllowed; infer_instance

def barResult (c : Comp) (h : Int) : Comp :=
  { c with phase := if c.phase = .scheduled then .started else c.phase,
           jumpers := c.jumpers.map (fun (j : Jumper) => if !j.eliminated then { j with dismissed := false } else j),
           heights := c.heights ++ [h], log := c.log ++ [.bar h] }

theorem step_bar (c : Comp) (h : Int) :
    step c (.bar h) = if barAllowed c h then (barResult c h, .ok) else (c, .rule) := by
  obtain ⟨js, rk, hs, ph, lg⟩ := c
  simp only [step, barAllowed, barResult]
  cases ph <;> simp <;> (try split) <;> simp_all <;> omega

/-- the athlete's new card entered and the call logged, before ranking -/
def logTrial (c : Comp) (b : Nat) (t : Trial) (j' : Jumper) : Comp :=
  { (c.update j') with log := c.log ++ [.trial b t] }

@[simp] theorem logTrial_log (c : Comp) (b : Nat) (t : Trial) (j' : Jumper) :
    (logTrial c b t j').log = c.log ++ [.trial b t] := rfl
@[simp] theorem logTrial_heights (c : Comp) (b : Nat) (t : Trial) (j' : Jumper) :
    (logTrial c b t j').heights = c.heights := rfl
@[simp] theorem logTrial_phase (c : Comp) (b : Nat) (t : Trial) (j' : Jumper) :
    (logTrial c b t j').phase = c.phase := rfl
@[simp] theorem logTrial_ranked (c : Comp) (b : Nat) (t : Trial) (j' : Jumper) :
    (logTrial c b t j').ranked = c.ranked := rfl
@[simp] theorem logTrial_jumpers (c : Comp) (b : Nat) (t : Trial) (j' : Jumper) :
    (logTrial c b t j').jumpers = (c.update j').jumpers := rfl

/-- the state after an accepted trial -/
def trialResult (c : Comp) (b : Nat) (t : Trial) (j' : Jumper) : Comp := rank (logTrial c b t j')

theorem rankLeader_phase (c : Comp) (r0 : Nat) :
    (rankLeader c r0).phase = c.phase ∨ (rankLeader c r0).phase = .finished := by
  unfold rankLeader
  split
  · split
    · left; rw [(rankj_frame _).2.2.1]; rfl
    · right; rfl
  · left; rfl

theorem rankOneLeft_phase (c : Comp) (w : Jumper) :
    (rankOneLeft c w).phase = c.phase ∨ (rankOneLeft c w).phase = .won ∨ (rankOneLeft c w).phase = .finished := by
  unfold rankOneLeft
  split
  · simp only; split
    · right; left; rfl
    · right; right; rfl
  · left; rfl

theorem step_trial (c : Comp) (b : Nat) (t : Trial) :
    (∃ j j', c.find b = some j ∧ trialAllowed c j = true ∧ c.heights ≠ [] ∧
        j.act c.heights.length (c.heights.getLast?.getD 0) t = some j' ∧
        step c (.trial b t) = (trialResult c b t j', .ok)) ∨
    ((step c (.trial b t)).1 = c ∧ (step c (.trial b t)).2 ≠ .ok ∧
      ((step c (.trial b t)).2 = .key ↔ c.find b = none) ∧
      ((step c (.trial b t)).2 = .assert → c.heights = [])) := by
  simp only [step, trialResult, logTrial]
  cases hf : c.find b with
  | none => right; simp
  | some j =>
    simp only
    by_cases ha : trialAllowed c j = true
    · simp only [ha, Bool.not_true, Bool.false_eq_true, if_false]
      by_cases hh : c.heights.length = 0
      · right; simp [hh, List.eq_nil_of_length_eq_zero hh]
      · simp only [beq_iff_eq, hh, if_false]
        cases hact : j.act c.heights.length (c.heights.getLast?.getD 0) t with
        | none => right; simp
        | some j' =>
          left
          refine ⟨j, j', rfl, ha, ?_, hact, rfl⟩
          intro h0; simp [h0] at hh
    · right; simp [ha]

end AthlibVerif.HJ
