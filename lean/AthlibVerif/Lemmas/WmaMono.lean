import AthlibVerif.Lemmas.WmaDist
/-!
Helper lemmas for C15: the list-level side-conditions (`reach`, `chainOK`, `noSeam`) at Prop level,
upper / lower anchors of the interpolated best, and its global monotonicity.
-/
namespace AthlibVerif.Wma

theorem reach_spec (ks : List Nat) (i : Nat) :
    reach ks i = true ↔ ∀ j, j < i → ks.getD j 0 < ks.getD i 0 := by
  unfold reach
  simp only [List.all_eq_true, List.mem_range, decide_eq_true_eq]

theorem chainOK_spec (ks bs : List Nat) (h : chainOK ks bs = true) (i : Nat) (hi : i < ks.length)
    (hr : reach ks i = true) :
    (i ≠ 0 → bs.getD (i - 1) 0 ≤ bs.getD i 0) ∧
    ∀ i', i < i' → i' ≤ ks.length → (i' = ks.length ∨ reach ks i' = true) →
      bs.getD i 0 ≤ bs.getD (i' - 1) 0 := by
  unfold chainOK at h
  simp only [List.all_eq_true, List.mem_range, Bool.or_eq_true, Bool.not_eq_true', Bool.and_eq_true,
    beq_iff_eq, decide_eq_true_eq, decide_eq_false_iff_not] at h
  have hi' := h i hi
  rcases hi' with hnr | ⟨h1, h2⟩
  · rw [hr] at hnr; exact absurd hnr (by simp)
  · constructor
    · intro hne
      rcases h1 with h1 | h1
      · exact absurd h1 hne
      · exact h1
    · intro i' hlt hle hor
      have := h2 i' (by omega)
      rcases this with (hc | hc) | hc
      · exact absurd hlt hc
      · exfalso
        simp only [Bool.or_eq_false_iff, beq_eq_false_iff_ne] at hc
        rcases hor with e | e
        · exact hc.1 e
        · rw [e] at hc; exact absurd hc.2 (by simp)
      · exact hc

theorem noSeam_spec (ks : List Nat) (h : noSeam ks = true) (i : Nat) (hi : i < ks.length)
    (hr : reach ks i = true) (k : Nat) (hk : k ∈ ks) :
    ¬ ((if i = 0 then 0 else ks.getD (i - 1) 0) < k ∧ k < ks.getD i 0) := by
  unfold noSeam at h
  simp only [List.all_eq_true, List.mem_range, Bool.or_eq_true, Bool.not_eq_true', Bool.and_eq_false_iff,
    decide_eq_false_iff_not] at h
  rcases h i hi with hnr | h2
  · rw [hr] at hnr; exact absurd hnr (by simp)
  · intro ⟨a, b⟩
    rcases h2 k hk with c | c
    · exact c a
    · exact c b

theorem runKms_length (rows : List Row) : (runKms rows).length = rows.length - runStart rows := by
  unfold runKms; rw [List.length_map, List.length_drop]

theorem runKms_getD (rows : List Row) (j : Nat) (h : runStart rows + j < rows.length) :
    (runKms rows).getD j 0 = rows[runStart rows + j].km := by
  unfold runKms
  rw [getD_of_lt _ j 0 (by rw [List.length_map, List.length_drop]; omega), List.getElem_map, List.getElem_drop]

theorem runBests_getD (rows : List Row) (j : Nat) (h : runStart rows + j < rows.length) :
    (runBests rows).getD j 0 = rows[runStart rows + j].best := by
  unfold runBests
  rw [getD_of_lt _ j 0 (by rw [List.length_map, List.length_drop]; omega), List.getElem_map, List.getElem_drop]

/-- the row the scan stops at is longer than every run row before it -/
theorem scan_reach (t : Table) (rows : List Row) (d : Rat) (hs : 0 < t.kmScale)
    (h : scanIdx t rows d < rows.length) :
    reach (runKms rows) (scanIdx t rows d - runStart rows) = true := by
  rw [reach_spec]
  intro j hj
  have hle := runStart_le_scanIdx t rows d
  rw [runKms_getD rows j (by omega), runKms_getD rows _ (by omega)]
  have e : runStart rows + (scanIdx t rows d - runStart rows) = scanIdx t rows d := by omega
  simp only [e]
  rw [← kmQ_lt_iff t _ _ hs]
  exact lt_of_lt_of_le (scan_lt t rows d _ (by omega) (by omega) (by omega)) (scan_ge t rows d h)

theorem scan_ge' (t : Table) (rows : List Row) (d : Rat) (h : scanIdx t rows d < rows.length) :
    d ≤ t.kmQ (rows.getD (scanIdx t rows d) default) := by
  rw [getD_of_lt rows _ default h]; exact scan_ge t rows d h

/-- bests are in order inside a reachable bracket of run rows -/
theorem chain_bracket (t : Table) (rows : List Row) (d : Rat) (hks : 0 < t.kmScale)
    (hC : chainOK (runKms rows) (runBests rows) = true)
    (hlt : scanIdx t rows d < rows.length) (hsi : runStart rows < scanIdx t rows d) :
    (rows.getD (scanIdx t rows d - 1) default).best ≤ (rows.getD (scanIdx t rows d) default).best := by
  have hr := scan_reach t rows d hks hlt
  have hlen : scanIdx t rows d - runStart rows < (runKms rows).length := by rw [runKms_length]; omega
  have h := (chainOK_spec _ _ hC _ hlen hr).1 (by omega)
  rw [runBests_getD rows _ (by omega), runBests_getD rows _ (by omega)] at h
  rw [getD_of_lt rows _ default hlt, getD_of_lt rows _ default (by omega)]
  have e1 : runStart rows + (scanIdx t rows d - runStart rows - 1) = scanIdx t rows d - 1 := by omega
  have e2 : runStart rows + (scanIdx t rows d - runStart rows) = scanIdx t rows d := by omega
  simp only [e1, e2] at h
  exact h

/-- bests are in order from a reachable upper row to the lower row of any later reachable bracket -/
theorem chain_across (t : Table) (rows : List Row) (d d' : Rat) (hks : 0 < t.kmScale)
    (hC : chainOK (runKms rows) (runBests rows) = true)
    (hlt : scanIdx t rows d < scanIdx t rows d') :
    (rows.getD (scanIdx t rows d) default).best ≤ (rows.getD (scanIdx t rows d' - 1) default).best := by
  have hle' := scanIdx_le_length t rows d' (runStart_le_length rows)
  have hs := runStart_le_scanIdx t rows d
  have hr := scan_reach t rows d hks (by omega)
  have hlen : scanIdx t rows d - runStart rows < (runKms rows).length := by rw [runKms_length]; omega
  have h := (chainOK_spec _ _ hC _ hlen hr).2 (scanIdx t rows d' - runStart rows) (by omega)
    (by rw [runKms_length]; omega)
    (by
      by_cases he : scanIdx t rows d' = rows.length
      · left; rw [runKms_length]; omega
      · right; exact scan_reach t rows d' hks (by omega))
  rw [runBests_getD rows _ (by omega), runBests_getD rows _ (by omega)] at h
  rw [getD_of_lt rows _ default (by omega), getD_of_lt rows _ default (by omega)]
  have e1 : runStart rows + (scanIdx t rows d' - runStart rows - 1) = scanIdx t rows d' - 1 := by omega
  have e2 : runStart rows + (scanIdx t rows d - runStart rows) = scanIdx t rows d := by omega
  simp only [e1, e2] at h
  exact h

theorem best_no_run_rows (t : Table) (rows : List Row) (dist : Nat) (x : Rat) (e : Err)
    (h : bestByDistance t rows dist = .ok x) (hb : rowByDistance t rows dist = .error e) : False := by
  obtain ⟨_, _, _, hb', _⟩ := bestByDistance_ok t rows dist x h
  rw [hb] at hb'; exact absurd hb' (by simp)

/-- **upper anchor**: the interpolated best does not exceed the best of the row the scan stops at -/
theorem best_upper (t : Table) (rows : List Row) (dist : Nat) (x : Rat) (hks : 0 < t.kmScale)
    (hR : runOK rows = true) (hC : chainOK (runKms rows) (runBests rows) = true)
    (h : bestByDistance t rows dist = .ok x) (hi : scanIdx t rows ((dist : Rat) / 1000) < rows.length) :
    x ≤ t.bestQ (rows.getD (scanIdx t rows ((dist : Rat) / 1000)) default) := by
  obtain ⟨hs, hpre, _⟩ := runOK_spec rows hR
  rcases rowByDistance_cases t rows dist with ⟨_, hb⟩ | ⟨_, hi0, hb⟩ | ⟨_, hpos, hlt, hcase⟩ | ⟨_, _, hend, _⟩
  · exact (best_no_run_rows t rows dist x _ h hb).elim
  · obtain ⟨hz0, hzs, hk, hx⟩ := best_same_row t rows dist 0 x h hb
    have hge := scan_ge' t rows _ hi
    simp only [hi0] at hge ⊢
    have hkpos : 0 < t.kmQ (rows.getD 0 default) := lt_of_le_of_ne (kmQ_nonneg t _) (Ne.symm hk)
    have hbpos := bestQ_pos t _ hzs hz0
    rw [hx, div_le_iff₀ hkpos, mul_comm (t.bestQ _)]
    exact mul_le_mul_of_nonneg_right hge hbpos.le
  · rcases hcase with ⟨_, hb⟩ | ⟨_, hb⟩
    · exact (best_no_run_rows t rows dist x _ h hb).elim
    · have hne : scanIdx t rows ((dist : Rat) / 1000) - 1 ≠ scanIdx t rows ((dist : Rat) / 1000) := by omega
      by_cases hsi : runStart rows < scanIdx t rows ((dist : Rat) / 1000)
      · have hbt := (best_between t rows dist _ _ _ x hR h hb hne).2
        obtain ⟨_, _, _, _, _, _, hzs, _, _⟩ := bestByDistance_ok t rows dist x h
        have hord := (bestQ_le_iff t _ _ hzs).mpr (chain_bracket t rows _ hks hC hlt hsi)
        rwa [max_eq_right hord] at hbt
      · have e : runStart rows = scanIdx t rows ((dist : Rat) / 1000) :=
          le_antisymm (runStart_le_scanIdx t rows _) (not_lt.mp hsi)
        have hkm : (rows.getD (scanIdx t rows ((dist : Rat) / 1000) - 1) default).km = 0 := by
          rcases hpre with h0 | h0
          · omega
          · rw [e] at h0; exact h0
        exact le_of_eq (best_pre_run t rows dist _ _ _ x hR h hb hne hkm)
  · omega

/-- **lower anchor**: past the first run row the interpolated best is at least the best of the row
    before the one the scan stops at -/
theorem best_lower (t : Table) (rows : List Row) (dist : Nat) (x : Rat) (hks : 0 < t.kmScale)
    (hR : runOK rows = true) (hC : chainOK (runKms rows) (runBests rows) = true)
    (h : bestByDistance t rows dist = .ok x) (hsi : runStart rows < scanIdx t rows ((dist : Rat) / 1000)) :
    t.bestQ (rows.getD (scanIdx t rows ((dist : Rat) / 1000) - 1) default) ≤ x := by
  obtain ⟨hs, hpre, _⟩ := runOK_spec rows hR
  rcases rowByDistance_cases t rows dist with ⟨_, hb⟩ | ⟨_, hi0, hb⟩ | ⟨_, hpos, hlt, hcase⟩ | ⟨_, _, hend, hb⟩
  · exact (best_no_run_rows t rows dist x _ h hb).elim
  · omega
  · rcases hcase with ⟨_, hb⟩ | ⟨_, hb⟩
    · exact (best_no_run_rows t rows dist x _ h hb).elim
    · have hne : scanIdx t rows ((dist : Rat) / 1000) - 1 ≠ scanIdx t rows ((dist : Rat) / 1000) := by omega
      have hbt := (best_between t rows dist _ _ _ x hR h hb hne).1
      obtain ⟨_, _, _, _, _, _, hzs, _, _⟩ := bestByDistance_ok t rows dist x h
      have hord := (bestQ_le_iff t _ _ hzs).mpr (chain_bracket t rows _ hks hC hlt hsi)
      rwa [min_eq_left hord] at hbt
  · obtain ⟨hz0, hzs, hk, hx⟩ := best_same_row t rows dist _ x h hb
    have hlt := scan_lt t rows ((dist : Rat) / 1000) (rows.length - 1) (by omega) (by omega) (by omega)
    rw [hend]
    rw [getD_of_lt rows _ default (by omega)] at hz0 hk hx ⊢
    have hkpos : 0 < t.kmQ (rows[rows.length - 1]'(by omega)) := lt_of_le_of_ne (kmQ_nonneg t _) (Ne.symm hk)
    have hbpos := bestQ_pos t _ hzs hz0
    rw [hx, le_div_iff₀ hkpos]
    rw [mul_comm]
    exact mul_le_mul_of_nonneg_right hlt.le hbpos.le

theorem best_same_row_mono (t : Table) (rows : List Row) (dist dist' fx : Nat) (x x' : Rat) (hdd : dist ≤ dist')
    (h : bestByDistance t rows dist = .ok x) (h' : bestByDistance t rows dist' = .ok x')
    (hb : rowByDistance t rows dist = .ok (fx, fx, 0)) (hb' : rowByDistance t rows dist' = .ok (fx, fx, 0)) :
    x ≤ x' := by
  obtain ⟨hz0, hzs, hk, hx⟩ := best_same_row t rows dist fx x h hb
  obtain ⟨_, _, _, hx'⟩ := best_same_row t rows dist' fx x' h' hb'
  have hkpos : 0 < t.kmQ (rows.getD fx default) := lt_of_le_of_ne (kmQ_nonneg t _) (Ne.symm hk)
  have hbpos := bestQ_pos t _ hzs hz0
  have hdq : (dist : Rat) / 1000 ≤ (dist' : Rat) / 1000 := by
    have : (dist : Rat) ≤ (dist' : Rat) := by exact_mod_cast hdd
    linarith
  rw [hx, hx', div_le_div_iff_of_pos_right hkpos]
  exact mul_le_mul_of_nonneg_right hdq hbpos.le

/-- two distances the scan stops at the same row for -/
theorem best_same_idx (t : Table) (rows : List Row) (dist dist' : Nat) (x x' : Rat) (hks : 0 < t.kmScale)
    (hR : runOK rows = true) (hC : chainOK (runKms rows) (runBests rows) = true) (hdd : dist ≤ dist')
    (h : bestByDistance t rows dist = .ok x) (h' : bestByDistance t rows dist' = .ok x')
    (hii : scanIdx t rows ((dist : Rat) / 1000) = scanIdx t rows ((dist' : Rat) / 1000)) : x ≤ x' := by
  obtain ⟨hs, hpre, _⟩ := runOK_spec rows hR
  rcases rowByDistance_cases t rows dist with ⟨_, hb⟩ | ⟨_, hi0, hb⟩ | ⟨_, hpos, hlt, hcase⟩ | ⟨_, hpos, hend, hb⟩
  · exact (best_no_run_rows t rows dist x _ h hb).elim
  · rcases rowByDistance_cases t rows dist' with ⟨_, hb'⟩ | ⟨_, _, hb'⟩ | ⟨_, hpos', _, _⟩ | ⟨_, hpos', _, _⟩
    · exact (best_no_run_rows t rows dist' x' _ h' hb').elim
    · exact best_same_row_mono t rows dist dist' 0 x x' hdd h h' hb hb'
    · omega
    · omega
  · rcases hcase with ⟨_, hb⟩ | ⟨_, hb⟩
    · exact (best_no_run_rows t rows dist x _ h hb).elim
    · rcases rowByDistance_cases t rows dist' with ⟨_, hb'⟩ | ⟨_, hi0', _⟩ | ⟨_, _, _, hcase'⟩ | ⟨_, _, hend', _⟩
      · exact (best_no_run_rows t rows dist' x' _ h' hb').elim
      · omega
      · rcases hcase' with ⟨_, hb'⟩ | ⟨_, hb'⟩
        · exact (best_no_run_rows t rows dist' x' _ h' hb').elim
        · obtain ⟨p', hb'⟩ : ∃ p', rowByDistance t rows dist' = .ok
              (scanIdx t rows ((dist' : Rat) / 1000) - 1, scanIdx t rows ((dist' : Rat) / 1000), p') := ⟨_, hb'⟩
          rw [← hii] at hb'
          have hne : scanIdx t rows ((dist : Rat) / 1000) - 1 ≠ scanIdx t rows ((dist : Rat) / 1000) := by omega
          by_cases hsi : runStart rows < scanIdx t rows ((dist : Rat) / 1000)
          · exact best_mono_bracket t rows dist dist' _ _ _ _ x x' hR hdd h h' hb hb' hne
              (chain_bracket t rows _ hks hC hlt hsi)
          · have e : runStart rows = scanIdx t rows ((dist : Rat) / 1000) :=
              le_antisymm (runStart_le_scanIdx t rows _) (not_lt.mp hsi)
            have hkm : (rows.getD (scanIdx t rows ((dist : Rat) / 1000) - 1) default).km = 0 := by
              rcases hpre with h0 | h0
              · omega
              · rw [e] at h0; exact h0
            rw [best_pre_run t rows dist _ _ _ x hR h hb hne hkm,
              best_pre_run t rows dist' _ _ _ x' hR h' hb' hne hkm]
      · omega
  · rcases rowByDistance_cases t rows dist' with ⟨_, hb'⟩ | ⟨_, hi0', _⟩ | ⟨_, _, hlt', _⟩ | ⟨_, _, _, hb'⟩
    · exact (best_no_run_rows t rows dist' x' _ h' hb').elim
    · omega
    · omega
    · exact best_same_row_mono t rows dist dist' _ x x' hdd h h' hb hb'

/-- **global monotonicity** of the interpolated open best in the distance -/
theorem best_mono (t : Table) (rows : List Row) (dist dist' : Nat) (x x' : Rat) (hks : 0 < t.kmScale)
    (hR : runOK rows = true) (hC : chainOK (runKms rows) (runBests rows) = true) (hdd : dist ≤ dist')
    (h : bestByDistance t rows dist = .ok x) (h' : bestByDistance t rows dist' = .ok x') : x ≤ x' := by
  have hdq : (dist : Rat) / 1000 ≤ (dist' : Rat) / 1000 := by
    have : (dist : Rat) ≤ (dist' : Rat) := by exact_mod_cast hdd
    linarith
  have hmono := scanIdx_mono t rows _ _ hdq
  rcases Nat.eq_or_lt_of_le hmono with hii | hlt
  · exact best_same_idx t rows dist dist' x x' hks hR hC hdd h h' hii
  · have hle' := scanIdx_le_length t rows ((dist' : Rat) / 1000) (runStart_le_length rows)
    have hs := runStart_le_scanIdx t rows ((dist : Rat) / 1000)
    have hU := best_upper t rows dist x hks hR hC h (by omega)
    have hL := best_lower t rows dist' x' hks hR hC h' (by omega)
    obtain ⟨_, _, _, _, _, _, hzs, _, _⟩ := bestByDistance_ok t rows dist x h
    have hmid := (bestQ_le_iff t _ _ hzs).mpr (chain_across t rows _ _ hks hC hlt)
    exact le_trans hU (le_trans hmid hL)

/-! ## nearest tabulated distances -/

theorem mem_runKms (rows : List Row) (r : Row) (h : r ∈ rows.drop (runStart rows)) : r.km ∈ runKms rows := by
  unfold runKms; exact List.mem_map_of_mem h

/-- without a seam the bracket rows are nearest: no run row is shorter than `d` yet longer than the
    lower bracket row, none is at least `d` yet shorter than the upper bracket row -/
theorem bracket_nearest (t : Table) (rows : List Row) (dist fx fx1 : Nat) (p : Rat) (hks : 0 < t.kmScale)
    (hR : runOK rows = true) (hS : noSeam (runKms rows) = true) (hd : 0 < dist)
    (hb : rowByDistance t rows dist = .ok (fx, fx1, p)) (hne : fx ≠ fx1)
    (r : Row) (hr : r ∈ rows.drop (runStart rows)) :
    (t.kmQ r < (dist : Rat) / 1000 → t.kmQ r ≤ t.kmQ (rows.getD fx default)) ∧
    ((dist : Rat) / 1000 ≤ t.kmQ r → t.kmQ (rows.getD fx1 default) ≤ t.kmQ r) := by
  obtain ⟨h1, h0, hadj, hidx, hlow, hhigh, hk, _, hstrict, hprekm⟩ := bracket_spec t rows dist fx fx1 p hR hb hne
  rw [getD_of_lt rows fx default h0, getD_of_lt rows fx1 default h1]
  have hsle := runStart_le_scanIdx t rows ((dist : Rat) / 1000)
  have hreach := scan_reach t rows ((dist : Rat) / 1000) hks (by omega)
  have hlen : scanIdx t rows ((dist : Rat) / 1000) - runStart rows < (runKms rows).length := by
    rw [runKms_length]; omega
  have hseam := noSeam_spec _ hS _ hlen hreach r.km (mem_runKms rows r hr)
  rw [runKms_getD rows (scanIdx t rows ((dist : Rat) / 1000) - runStart rows) (by omega)] at hseam
  have e2 : runStart rows + (scanIdx t rows ((dist : Rat) / 1000) - runStart rows) = fx1 := by omega
  simp only [e2] at hseam
  -- the lower distance of the bracket as the check computes it
  have hlowkm : (if scanIdx t rows ((dist : Rat) / 1000) - runStart rows = 0 then 0
      else (runKms rows).getD (scanIdx t rows ((dist : Rat) / 1000) - runStart rows - 1) 0) = rows[fx].km := by
    by_cases hc : scanIdx t rows ((dist : Rat) / 1000) - runStart rows = 0
    · rw [if_pos hc]; exact (hprekm (by omega)).symm
    · rw [if_neg hc, runKms_getD rows _ (by omega)]
      have e3 : runStart rows + (scanIdx t rows ((dist : Rat) / 1000) - runStart rows - 1) = fx := by omega
      simp only [e3]
  rw [hlowkm] at hseam
  have hdpos : (0 : Rat) < (dist : Rat) / 1000 := by
    have : (0 : Rat) < (dist : Rat) := by exact_mod_cast hd
    positivity
  have hstrict' : t.kmQ rows[fx] < (dist : Rat) / 1000 := by
    by_cases hc : runStart rows < fx1
    · exact hstrict hc
    · rw [kmQ_zero t _ (hprekm (by omega))]; exact hdpos
  constructor
  · intro hlt
    by_contra hcon
    apply hseam
    exact ⟨(kmQ_lt_iff t _ _ hks).mp (not_le.mp hcon), (kmQ_lt_iff t _ _ hks).mp (lt_of_lt_of_le hlt hhigh)⟩
  · intro hge
    by_contra hcon
    apply hseam
    exact ⟨(kmQ_lt_iff t _ _ hks).mp (lt_of_lt_of_le hstrict' hge), (kmQ_lt_iff t _ _ hks).mp (not_le.mp hcon)⟩

end AthlibVerif.Wma
