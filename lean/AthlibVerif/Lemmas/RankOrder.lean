import AthlibVerif.Lemmas.Places
/-!
# The order of `ranked_jumpers` is unobservable

`_rankj` sorts the previous ranked list stably, so among athletes with equal keys the earlier order survives — and
`_rank` then looks at the first and second entries of that list.  This file shows that nothing observable depends on
it: two competitions with the same athletes, heights and state whose ranked lists are permutations of each other
are again such a pair after `_rank` (same records incl. places, same state).
-/
namespace AthlibVerif.HJ
open AthlibVerif.Ranking

/-- the same competition up to the order of the ranked list (and the log) -/
def SameButRanked (a b : Comp) : Prop :=
  a.jumpers = b.jumpers ∧ a.heights = b.heights ∧ a.phase = b.phase ∧ a.ranked.Perm b.ranked

theorem SameButRanked.wf {a b : Comp} (h : SameButRanked a b) (hw : WF a) : WF b :=
  ⟨h.1 ▸ hw.1, h.2.2.2.symm.trans (h.1 ▸ hw.2)⟩

/-- the ranked list is sorted by key -/
def SortedRanked (c : Comp) : Prop := SortedK Key.lt (c.ranked.map (keyOf c))

theorem keyOf_congr (a b : Comp) (h : a.jumpers = b.jumpers) : keyOf a = keyOf b := by
  funext x; unfold keyOf Comp.find; rw [h]

theorem rankj_keyOf (c : Comp) (h : WF c) : keyOf (rankj c) = keyOf c := by
  funext x
  have hj := rankj_jumpers c h
  unfold keyOf Comp.find
  rw [hj]
  have := find_map c.jumpers (fun j => ({ j with place := 1 + (c.jumpers.filter (fun k => Key.lt k.key j.key)).length } : Jumper))
    (fun _ => rfl) x
  rw [this]
  cases c.jumpers.find? (·.bib == x) <;> rfl

theorem rankj_sorted (c : Comp) (h : WF c) : SortedRanked (rankj c) := by
  unfold SortedRanked
  rw [rankj_keyOf c h, rankj_ranked_list, sortRanked_is_key_sort c c.ranked (wf_found c h)]
  exact sortK_sorted Key.lt keyLt_strictTotal _

theorem rankj_same (a b : Comp) (hw : WF a) (h : SameButRanked a b) : SameButRanked (rankj a) (rankj b) := by
  have hwb := h.wf hw
  refine ⟨?_, ?_, ?_, ?_⟩
  · rw [rankj_jumpers a hw, rankj_jumpers b hwb, h.1]
  · rw [(rankj_frame a).2.1, (rankj_frame b).2.1, h.2.1]
  · rw [(rankj_frame a).2.2.1, (rankj_frame b).2.2.1, h.2.2.1]
  · rw [rankj_ranked_list, rankj_ranked_list]
    exact (sortRanked_perm a a.ranked).trans (h.2.2.2.trans (sortRanked_perm b b.ranked).symm)

theorem nodup_of_map_bib (l : List Jumper) (h : (l.map (·.bib)).Nodup) : l.Nodup := by
  induction l with
  | nil => simp
  | cons a rest ih =>
    simp only [List.map_cons, List.nodup_cons, List.mem_map, not_exists, not_and] at h ⊢
    exact ⟨fun hm => h.1 a hm rfl, ih h.2⟩

/-- the athletes in first place -/
def firsts (c : Comp) : List Jumper := c.jumpers.filter (fun j => j.place == 1)

theorem place_one_iff (c : Comp) (hr : Ranked c) (j : Jumper) (hj : j ∈ c.jumpers) :
    j.place = 1 ↔ ∀ k ∈ c.jumpers, Key.lt k.key j.key = false := by
  rw [hr j hj]
  constructor
  · intro h k hk
    have h0 : (c.jumpers.filter (fun k => Key.lt k.key j.key)).length = 0 := by omega
    have := List.filter_eq_nil_iff.1 (List.eq_nil_of_length_eq_zero h0) k hk
    simpa using this
  · intro h
    have : c.jumpers.filter (fun k => Key.lt k.key j.key) = [] :=
      List.filter_eq_nil_iff.2 (fun k hk => by simp [h k hk])
    rw [this]; rfl

theorem same_key_same_place (c : Comp) (hr : Ranked c) (j k : Jumper) (hj : j ∈ c.jumpers) (hk : k ∈ c.jumpers)
    (e : j.key = k.key) : j.place = k.place := by
  rw [hr j hj, hr k hk, e]

theorem bib_in_ranked (c : Comp) (hw : WF c) (j : Jumper) (hj : j ∈ c.jumpers) : j.bib ∈ c.ranked :=
  hw.2.mem_iff.2 (List.mem_map.2 ⟨j, hj, rfl⟩)

theorem keyOf_bib (c : Comp) (hw : WF c) (j : Jumper) (hj : j ∈ c.jumpers) : keyOf c j.bib = j.key := by
  simp [keyOf, find_of_mem c hw.1 j hj]

/-- the head of a sorted ranked list is in first place -/
theorem head_is_first (c : Comp) (hw : WF c) (hr : Ranked c) (hs : SortedRanked c) (r0 : Nat) (rest : List Nat)
    (hl : c.ranked = r0 :: rest) : ∃ j0, c.find r0 = some j0 ∧ j0 ∈ c.jumpers ∧ j0.place = 1 := by
  have hf := wf_found c hw r0 (by rw [hl]; simp)
  obtain ⟨j0, hj0⟩ := Option.isSome_iff_exists.1 hf
  obtain ⟨hm, hb⟩ := find_some_mem c r0 j0 hj0
  refine ⟨j0, hj0, hm, ?_⟩
  rw [place_one_iff c hr j0 hm]
  intro k hk
  unfold SortedRanked at hs
  rw [hl] at hs
  simp only [List.map_cons, SortedK] at hs
  have hk0 : keyOf c r0 = j0.key := by rw [← hb]; exact keyOf_bib c hw j0 hm
  have hkb := bib_in_ranked c hw k hk
  rw [hl] at hkb
  rcases List.mem_cons.1 hkb with e | e
  · have : k = j0 := bib_inj c.jumpers hw.1 k j0 hk hm (by rw [e, hb])
    rw [this]; exact keyLt_strictTotal.irrefl _
  · have := hs.1 (keyOf c k.bib) (List.mem_map.2 ⟨k.bib, e, rfl⟩)
    rw [keyOf_bib c hw k hk, hk0] at this
    exact this

/-- if the second entry of the sorted ranked list is not in first place, the head's athlete is the only one who is -/
theorem only_head_first (c : Comp) (hw : WF c) (hr : Ranked c) (hs : SortedRanked c) (r0 : Nat) (rest : List Nat)
    (hl : c.ranked = r0 :: rest) (h2 : secondIsFirst c rest = false) (j : Jumper) (hj : j ∈ c.jumpers) (hp : j.place = 1) :
    j.bib = r0 := by
  have hjb := bib_in_ranked c hw j hj
  rw [hl] at hjb
  rcases List.mem_cons.1 hjb with e | e
  · exact e
  · exfalso
    cases rest with
    | nil => cases e
    | cons r1 rest' =>
      have hf1 := wf_found c hw r1 (by rw [hl]; simp)
      obtain ⟨j1, hj1⟩ := Option.isSome_iff_exists.1 hf1
      obtain ⟨hm1, hb1⟩ := find_some_mem c r1 j1 hj1
      have hp1 : j1.place ≠ 1 := by
        intro hp1
        simp [secondIsFirst, hj1, hp1] at h2
      -- j's key is minimal, and not before j1's in the sorted order: equal keys, hence equal places
      have hmin := (place_one_iff c hr j hj).1 hp j1 hm1
      unfold SortedRanked at hs
      rw [hl] at hs
      simp only [List.map_cons, SortedK] at hs
      have hk1 : keyOf c r1 = j1.key := by rw [← hb1]; exact keyOf_bib c hw j1 hm1
      have hle : Key.lt j.key j1.key = false := by
        rcases List.mem_cons.1 e with e' | e'
        · have : j = j1 := bib_inj c.jumpers hw.1 j j1 hj hm1 (by rw [e', hb1])
          rw [this]; exact keyLt_strictTotal.irrefl _
        · have := hs.2.1 (keyOf c j.bib) (List.mem_map.2 ⟨j.bib, e', rfl⟩)
          rw [keyOf_bib c hw j hj, hk1] at this
          exact this
      have hkey : j.key = j1.key := by
        rcases keyLt_strictTotal.tri j.key j1.key with h | h | h
        · rw [hle] at h; cases h
        · exact h
        · rw [hmin] at h; cases h
      exact hp1 ((same_key_same_place c hr j j1 hj hm1 hkey).symm.trans hp)

theorem two_firsts (c : Comp) (a b : Jumper) (ha : a ∈ c.jumpers) (hb : b ∈ c.jumpers) (hne : a ≠ b)
    (hpa : a.place = 1) (hpb : b.place = 1) : 2 ≤ (firsts c).length := by
  unfold firsts
  have hma : a ∈ c.jumpers.filter (fun j => j.place == 1) := List.mem_filter.2 ⟨ha, by simp [hpa]⟩
  have hmb : b ∈ c.jumpers.filter (fun j => j.place == 1) := List.mem_filter.2 ⟨hb, by simp [hpb]⟩
  generalize c.jumpers.filter (fun j => j.place == 1) = l at hma hmb
  match l, hma, hmb with
  | [], hma, _ => cases hma
  | [x], hma, hmb =>
    simp only [List.mem_singleton] at hma hmb
    exact absurd (hma.trans hmb.symm) hne
  | _ :: _ :: _, _, _ => simp

/-- **`len(rankj) > 1 and rankj[1]._place == 1` says "at least two athletes are in first place"** — whatever the
    order among equal keys -/
theorem secondIsFirst_iff (c : Comp) (hw : WF c) (hr : Ranked c) (hs : SortedRanked c) (r0 : Nat) (rest : List Nat)
    (hl : c.ranked = r0 :: rest) : secondIsFirst c rest = true ↔ 2 ≤ (firsts c).length := by
  obtain ⟨j0, hj0, hm0, hp0⟩ := head_is_first c hw hr hs r0 rest hl
  constructor
  · intro h
    cases rest with
    | nil => simp [secondIsFirst] at h
    | cons r1 rest' =>
      have hf1 := wf_found c hw r1 (by rw [hl]; simp)
      obtain ⟨j1, hj1⟩ := Option.isSome_iff_exists.1 hf1
      obtain ⟨hm1, hb1⟩ := find_some_mem c r1 j1 hj1
      have hp1 : j1.place = 1 := by simpa [secondIsFirst, hj1] using h
      have hnd : (r0 :: r1 :: rest').Nodup := hl ▸ (hw.2.nodup_iff.2 hw.1)
      have hne : j0 ≠ j1 := by
        intro e
        have : r0 = r1 := by rw [← (find_some_mem c r0 j0 hj0).2, ← hb1, e]
        simp [this] at hnd
      exact two_firsts c j0 j1 hm0 hm1 hne hp0 hp1
  · intro h
    cases h2 : secondIsFirst c rest with
    | true => rfl
    | false =>
      exfalso
      -- every athlete in first place is the head's athlete: at most one
      have hall : ∀ j ∈ firsts c, j = j0 := by
        intro j hj
        obtain ⟨hjm, hjp⟩ := List.mem_filter.1 hj
        have hb := only_head_first c hw hr hs r0 rest hl h2 j hjm (by simpa using hjp)
        exact bib_inj c.jumpers hw.1 j j0 hjm hm0 (by rw [hb, (find_some_mem c r0 j0 hj0).2])
      have hnd : (firsts c).Nodup := (nodup_of_map_bib _ hw.1).filter _
      match hf : firsts c, hall, hnd, h with
      | [], _, _, h => simp at h
      | [x], _, _, h => simp at h
      | x :: y :: _, hall, hnd, _ =>
        have hx := hall x (by simp)
        have hy := hall y (by simp)
        simp [hx, hy] at hnd

/-- with a single leader, the head of the sorted ranked list is that leader -/
theorem head_is_the_leader (c : Comp) (hw : WF c) (hr : Ranked c) (hs : SortedRanked c) (r0 : Nat) (rest : List Nat)
    (hl : c.ranked = r0 :: rest) (j : Jumper) (hj : j ∈ c.jumpers) (hp : j.place = 1)
    (h2 : secondIsFirst c rest = false) : c.find r0 = some j := by
  have hb := only_head_first c hw hr hs r0 rest hl h2 j hj hp
  rw [← hb]; exact find_of_mem c hw.1 j hj

theorem rankTie_same (a b : Comp) (hw : WF a) (h : SameButRanked a b) : SameButRanked (rankTie a) (rankTie b) := by
  obtain ⟨hj, hh, hp, hperm⟩ := h
  have hre : reinstated a = reinstated b := by
    funext j; unfold reinstated; rw [hp, hh]
  unfold rankTie
  simp only
  rw [hj, hre]
  have hb : (b.jumpers.map (fun (j : Jumper) => if reinstated b j then reinstate j else j)).map (·.bib) = b.jumpers.map (·.bib) := by
    rw [List.map_map]
    apply List.map_congr_left
    intro k _
    simp only [Function.comp_apply]
    split <;> rfl
  split
  · apply rankj_same
    · exact WF_of_same_bibs a _ (by rw [hb, hj]) (List.Perm.refl _) hw
    · exact ⟨rfl, hh, rfl, hperm⟩
  · exact ⟨rfl, hh, rfl, hperm⟩

/-- what `_rank` does after `_rankj` -/
def rankTail (c : Comp) : Comp :=
  match c.ranked with
  | [] => c
  | r0 :: rrest =>
    match c.jumpers.filter (fun j => !j.eliminated) with
    | [] => if secondIsFirst c rrest then rankTie c else rankLeader c r0
    | [w] => rankOneLeft c w
    | _ => c

theorem rank_eq_tail (c : Comp) : rank c = rankTail (rankj c) := rfl

theorem rankTail_same (ca cb : Comp) (hwa' : WF ca) (hra : Ranked ca) (hsa : SortedRanked ca)
    (hwb' : WF cb) (hrb : Ranked cb) (hsb : SortedRanked cb) (hs : SameButRanked ca cb) :
    SameButRanked (rankTail ca) (rankTail cb) := by
  unfold rankTail
  obtain ⟨hj, hh, hp, hperm⟩ := hs
  cases hla : ca.ranked with
  | nil =>
    have : cb.ranked = [] := by
      have := hperm.length_eq; rw [hla] at this
      exact List.eq_nil_of_length_eq_zero this.symm
    simp only [this]
    exact ⟨hj, hh, hp, by rw [hla, this]⟩
  | cons r0 rest =>
    cases hlb : cb.ranked with
    | nil =>
      have := hperm.length_eq; rw [hla, hlb] at this; simp at this
    | cons r0' rest' =>
      simp only
      have hP : ca.ranked.Perm cb.ranked := by
        first | exact hperm | (rw [hla, hlb]; exact hperm)
      rw [hj]
      have hfirsts : firsts ca = firsts cb := by unfold firsts; rw [hj]
      have h2 : secondIsFirst ca rest = secondIsFirst cb rest' := by
        have ha := secondIsFirst_iff ca hwa' hra hsa r0 rest hla
        have hb := secondIsFirst_iff cb hwb' hrb hsb r0' rest' hlb
        rw [hfirsts] at ha
        cases h1 : secondIsFirst ca rest <;> cases h2 : secondIsFirst cb rest' <;> simp_all <;> omega
      split
      · -- everybody is out
        rw [h2]
        split
        · exact rankTie_same ca cb hwa' ⟨hj, hh, hp, hP⟩
        · next hnot =>
          have hnot' : secondIsFirst cb rest' = false := by simpa using hnot
          obtain ⟨j0, hj0, hm0, hp0⟩ := head_is_first ca hwa' hra hsa r0 rest hla
          have hfb : cb.find r0' = some j0 :=
            head_is_the_leader cb hwb' hrb hsb r0' rest' hlb j0 (hj ▸ hm0) hp0 hnot'
          unfold rankLeader
          rw [hj0, hfb]
          simp only
          rw [hp]
          split
          · apply rankj_same
            · exact WF_of_same_bibs ca _ (update_bibs ca _) (List.Perm.refl _) hwa'
            · exact ⟨by simp only [Comp.update, hj], hh, hp, hP⟩
          · exact ⟨hj, hh, rfl, hP⟩
      · unfold rankOneLeft
        rw [hh, hp]
        split
        · exact ⟨hj, rfl, rfl, hP⟩
        · exact ⟨hj, hh, hp, hP⟩
      · exact ⟨hj, hh, hp, hP⟩

/-- **The tie-break on the previous position is unobservable**: after `_rank`, two competitions that differed only
    in the order of the ranked list still differ only in that. -/
theorem rank_same (a b : Comp) (hw : WF a) (h : SameButRanked a b) : SameButRanked (rank a) (rank b) := by
  have hwb := h.wf hw
  rw [rank_eq_tail, rank_eq_tail]
  exact rankTail_same _ _ (rankj_WF a hw) (rankj_ranked a hw) (rankj_sorted a hw)
    (rankj_WF b hwb) (rankj_ranked b hwb) (rankj_sorted b hwb) (rankj_same a b hw h)

/-- one call on two competitions that differ only in the order of the ranked list: same verdict, and they still
    differ only in that -/
theorem step_same (a b : Comp) (op : Op) (hw : WF a) (h : SameButRanked a b) :
    (step a op).2 = (step b op).2 ∧ SameButRanked (step a op).1 (step b op).1 := by
  obtain ⟨hj, hh, hp, hperm⟩ := h
  have hfind : ∀ x, a.find x = b.find x := fun x => by unfold Comp.find; rw [hj]
  cases op with
  | add x =>
    rw [step_add, step_add, hp, hfind]
    split
    · exact ⟨rfl, by simp only [addResult, hj], hh, hp, hperm.append_right _⟩
    · exact ⟨rfl, hj, hh, hp, hperm⟩
  | bar x =>
    rw [step_bar, step_bar]
    have hba : barAllowed a x ↔ barAllowed b x := by unfold barAllowed; rw [hp, hh]
    by_cases hb : barAllowed b x
    · rw [if_pos (hba.2 hb), if_pos hb]
      exact ⟨rfl, by simp only [barResult, hj], by simp only [barResult, hh], by simp only [barResult, hp], hperm⟩
    · rw [if_neg (fun h => hb (hba.1 h)), if_neg hb]
      exact ⟨rfl, hj, hh, hp, hperm⟩
  | trial x t =>
    simp only [step, hfind]
    cases hf : b.find x with
    | none => exact ⟨rfl, hj, hh, hp, hperm⟩
    | some j =>
      simp only
      have hta : trialAllowed a j = trialAllowed b j := by unfold trialAllowed; rw [hp]
      rw [hta, hh]
      split
      · exact ⟨rfl, hj, hh, hp, hperm⟩
      · split
        · exact ⟨rfl, hj, hh, hp, hperm⟩
        · split
          · exact ⟨rfl, hj, hh, hp, hperm⟩
          · next j' _ =>
            refine ⟨rfl, ?_⟩
            apply rank_same
            · exact WF_of_same_bibs a _ (update_bibs a j') (List.Perm.refl _) hw
            · exact ⟨by simp only [Comp.update, hj], hh, hp, hperm⟩

end AthlibVerif.HJ
