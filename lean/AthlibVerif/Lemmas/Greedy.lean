import AthlibVerif.Lemmas.MatchSound
/-!
# Which match the engine reports: greedy runs over one class

For the two prefix patterns of `get_distance` (`^\d+` and `^\d+\.\d*`) existence of a match is not enough: what
remains after the match decides the unit.  A backtracking engine tries the longest run first; this file computes
the full, ordered result list of `x*` and `x+` over a class and the first result of `x+ y z*`.
-/
namespace AthlibVerif
namespace GRE

def runL (m : Nat) : List Nat → Nat
  | [] => 0
  | x :: xs => if m.testBit x then runL m xs + 1 else 0

/-- number of consecutive symbols of class `m` from position `i` -/
def run (m : Nat) (inp : List Nat) (i : Nat) : Nat := runL m (inp.drop i)

theorem run_step (m : Nat) (inp : List Nat) (i x : Nat) (hx : inp[i]? = some x) (hb : m.testBit x = true) :
    run m inp i = run m inp (i + 1) + 1 := by
  unfold run
  have hlt : i < inp.length := by
    rcases Nat.lt_or_ge i inp.length with h | h
    · exact h
    · rw [List.getElem?_eq_none h] at hx; cases hx
  rw [List.getElem?_eq_getElem hlt] at hx
  injection hx with hx
  rw [List.drop_eq_getElem_cons hlt, hx]
  simp [runL, hb]

theorem run_zero_of_not (m : Nat) (inp : List Nat) (i : Nat)
    (h : ∀ x, inp[i]? = some x → m.testBit x = false) : run m inp i = 0 := by
  unfold run
  cases hd : inp.drop i with
  | nil => rfl
  | cons y ys =>
    have hlt : i < inp.length := by
      rcases Nat.lt_or_ge i inp.length with h' | h'
      · exact h'
      · rw [List.drop_eq_nil_of_le h'] at hd; cases hd
    have : inp[i]? = some y := by
      rw [List.getElem?_eq_getElem hlt]
      rw [List.drop_eq_getElem_cons hlt] at hd
      injection hd with h1 _
      rw [h1]
    simp [runL, h y this]

theorem run_pos_inv (m : Nat) (inp : List Nat) (i r : Nat) (h : run m inp i = r + 1) :
    ∃ x, inp[i]? = some x ∧ m.testBit x = true ∧ run m inp (i + 1) = r := by
  cases hx : inp[i]? with
  | none => rw [run_zero_of_not m inp i (by intro x h'; rw [hx] at h'; cases h')] at h; cases h
  | some x =>
    cases hb : m.testBit x with
    | false =>
      rw [run_zero_of_not m inp i (by intro y h'; rw [hx] at h'; injection h' with h'; rw [← h']; exact hb)] at h; cases h
    | true =>
      have := run_step m inp i x hx hb
      exact ⟨x, rfl, hb, by omega⟩

/-- positions `i + r, …, i` in descending order -/
def descList (caps : Caps) : Nat → Nat → List (Nat × Caps)
  | i, 0 => [(i, caps)]
  | i, r + 1 => descList caps (i + 1) r ++ [(i, caps)]

theorem descList_head (caps : Caps) : ∀ (r i : Nat), (descList caps i r).head? = some (i + r, caps) := by
  intro r
  induction r with
  | zero => intro i; rfl
  | succ r ih =>
    intro i
    simp only [descList]
    rw [List.head?_append, ih (i + 1)]
    simp; omega

theorem mAll_cls (inp : List Nat) (f m i : Nat) (caps : Caps) :
    mAll inp (f + 1) (.cls m) i caps =
      (match inp[i]? with
       | some x => if m.testBit x then [(i + 1, caps)] else []
       | none => []) := by
  rw [mAll]; rfl

theorem mAll_star_eq (inp : List Nat) (f : Nat) (a : GRE) (i : Nat) (caps : Caps) :
    mAll inp (f + 1) (.star a) i caps =
      ((mAll inp f a i caps).filter (fun r => r.1 > i)).flatMap (fun r => mAll inp f (.star a) r.1 r.2) ++ [(i, caps)] := by
  rw [mAll]

theorem mAll_cat_eq (inp : List Nat) (f : Nat) (a b : GRE) (i : Nat) (caps : Caps) :
    mAll inp (f + 1) (.cat a b) i caps = (mAll inp f a i caps).flatMap (fun r => mAll inp f b r.1 r.2) := by
  rw [mAll]

/-- **`x*` over a class**: every prefix of the run, longest first -/
theorem mAll_star_cls (inp : List Nat) (m : Nat) (caps : Caps) :
    ∀ (r i fuel : Nat), run m inp i = r → r + 2 ≤ fuel →
      mAll inp fuel (.star (.cls m)) i caps = descList caps i r := by
  intro r
  induction r with
  | zero =>
    intro i fuel hr hf
    obtain ⟨f, rfl⟩ : ∃ f, fuel = f + 2 := ⟨fuel - 2, by omega⟩
    have hnone : mAll inp (f + 1) (.cls m) i caps = [] := by
      rw [mAll_cls]
      cases hx : inp[i]? with
      | none => rfl
      | some x =>
        cases hb : m.testBit x with
        | false => simp [hb]
        | true => rw [run_step m inp i x hx hb] at hr; cases hr
    rw [mAll_star_eq, hnone]; rfl
  | succ r ih =>
    intro i fuel hr hf
    obtain ⟨f, rfl⟩ : ∃ f, fuel = f + 2 := ⟨fuel - 2, by omega⟩
    obtain ⟨x, hx, hb, hr1⟩ := run_pos_inv m inp i r hr
    have hone : mAll inp (f + 1) (.cls m) i caps = [(i + 1, caps)] := by
      rw [mAll_cls, hx]; simp [hb]
    have hrec := ih (i + 1) (f + 1) hr1 (by omega)
    rw [mAll_star_eq, hone]
    have : decide (i + 1 > i) = true := by simp
    simp only [List.filter_cons, this, if_true, List.filter_nil, List.flatMap_cons, List.flatMap_nil, List.append_nil, descList]
    rw [hrec]

/-- `x+` over a class -/
def plusG (m : Nat) : GRE := .cat (.cls m) (.star (.cls m))

theorem mAll_plus_cls (inp : List Nat) (m : Nat) (caps : Caps) (r i fuel : Nat) (hr : run m inp i = r + 1)
    (hf : r + 4 ≤ fuel) : mAll inp fuel (plusG m) i caps = descList caps (i + 1) r := by
  obtain ⟨f, rfl⟩ : ∃ f, fuel = f + 2 := ⟨fuel - 2, by omega⟩
  obtain ⟨x, hx, hb, hr1⟩ := run_pos_inv m inp i r hr
  have hone : mAll inp (f + 1) (.cls m) i caps = [(i + 1, caps)] := by
    rw [mAll_cls, hx]; simp [hb]
  unfold plusG
  rw [mAll_cat_eq, hone]
  simp only [List.flatMap_cons, List.flatMap_nil, List.append_nil]
  exact mAll_star_cls inp m caps r (i + 1) (f + 1) hr1 (by omega)

theorem mAll_plus_cls_none (inp : List Nat) (m : Nat) (caps : Caps) (i fuel : Nat) (hr : run m inp i = 0) :
    mAll inp fuel (plusG m) i caps = [] := by
  cases fuel with
  | zero => simp [mAll]
  | succ f =>
    cases f with
    | zero => unfold plusG; rw [mAll_cat_eq]; simp [mAll]
    | succ f =>
      have hnone : mAll inp (f + 1) (.cls m) i caps = [] := by
        rw [mAll_cls]
        cases hx : inp[i]? with
        | none => rfl
        | some x =>
          cases hb : m.testBit x with
          | false => simp [hb]
          | true => rw [run_step m inp i x hx hb] at hr; cases hr
      unfold plusG
      rw [mAll_cat_eq, hnone]; rfl

theorem flatMap_descList {β : Type} (caps : Caps) (g : Nat × Caps → List β) :
    ∀ (r j : Nat), (∀ k, k < r → g (j + k, caps) = []) → (descList caps j r).flatMap g = g (j + r, caps) := by
  intro r
  induction r with
  | zero => intro j _; simp [descList]
  | succ r ih =>
    intro j h
    simp only [descList, List.flatMap_append, List.flatMap_cons, List.flatMap_nil, List.append_nil]
    have h0 := h 0 (by omega)
    simp only [Nat.add_zero] at h0
    rw [h0, List.append_nil, ih (j + 1) (fun k hk => by have := h (k + 1) (by omega); rwa [show j + (k + 1) = j + 1 + k by omega] at this)]
    congr 2; omega

/-- `x+ y z*` with `y` a class disjoint from `x`: after the longest `x` run the next symbol must be a `y` -/
def floatG (m y : Nat) : GRE := .cat (plusG m) (.cat (.cls y) (.star (.cls m)))

theorem run_inner (m : Nat) (inp : List Nat) : ∀ (k r' i : Nat), run m inp i = r' + 1 → k ≤ r' →
    ∃ x, inp[i + k]? = some x ∧ m.testBit x = true := by
  intro k
  induction k with
  | zero => intro r' i h _; obtain ⟨x, hx, hb, _⟩ := run_pos_inv m inp i r' h; exact ⟨x, by simpa using hx, hb⟩
  | succ k ih =>
    intro r' i h hk
    obtain ⟨x, hx, hb, h1⟩ := run_pos_inv m inp i r' h
    obtain ⟨r'', rfl⟩ : ∃ r'', r' = r'' + 1 := ⟨r' - 1, by omega⟩
    obtain ⟨x', hx', hb'⟩ := ih r'' (i + 1) h1 (by omega)
    exact ⟨x', by rw [show i + (k + 1) = i + 1 + k by omega]; exact hx', hb'⟩

theorem run_le_length (m : Nat) (inp : List Nat) (i : Nat) : run m inp i ≤ inp.length - i := by
  unfold run
  have : ∀ l : List Nat, runL m l ≤ l.length := by
    intro l; induction l with
    | nil => simp [runL]
    | cons a as ih => simp only [runL]; split <;> simp <;> omega
  have h1 := this (inp.drop i)
  simpa using h1

theorem matchFirst_floatG (inp : List Nat) (m y : Nat) (hdisj : ∀ x, m.testBit x = true → y.testBit x = false)
    (r : Nat) (hr : run m inp 0 = r + 1) :
    matchFirst (floatG m y) inp =
      (match inp[r + 1]? with
       | some x => if y.testBit x then some (r + 2 + run m inp (r + 2), []) else none
       | none => none) := by
  unfold matchFirst
  have hrl := run_le_length m inp 0
  obtain ⟨F, hF⟩ : ∃ F, fuelFor inp = F + 3 := ⟨fuelFor inp - 3, by unfold fuelFor; omega⟩
  have hFl : inp.length + 10 ≤ F := by unfold fuelFor at hF; omega
  rw [hF]
  unfold floatG
  rw [mAll_cat_eq, show mAll inp (F + 2) (plusG m) 0 [] = descList [] 1 r from by
    have := mAll_plus_cls inp m [] r 0 (F + 2) hr (by omega); simpa using this]
  -- interior positions of the run hold an `x`, so no `y` can follow there
  have hinner : ∀ k, k < r → mAll inp (F + 2) (.cat (.cls y) (.star (.cls m))) (1 + k) [] = [] := by
    intro k hk
    obtain ⟨x, hx, hb⟩ := run_inner m inp (1 + k) r 0 hr (by omega)
    simp only [Nat.zero_add] at hx
    rw [mAll_cat_eq, mAll_cls, hx]
    simp [hdisj x hb]
  rw [flatMap_descList [] _ r 1 (fun k hk => hinner k hk)]
  -- at the end of the run
  rw [mAll_cat_eq, mAll_cls, show 1 + r = r + 1 by omega]
  cases hx : inp[r + 1]? with
  | none => rfl
  | some x =>
    cases hb : y.testBit x with
    | false => simp [hb]
    | true =>
      simp only [hb, if_true, List.flatMap_cons, List.flatMap_nil, List.append_nil]
      have hlen := run_le_length m inp (r + 2)
      have hstar := mAll_star_cls inp m [] (run m inp (r + 2)) (r + 2) (F + 1) rfl (by omega)
      rw [show r + 1 + 1 = r + 2 by omega, hstar, descList_head]

theorem matchFirst_plusG (inp : List Nat) (m : Nat) (r : Nat) (hr : run m inp 0 = r + 1) :
    matchFirst (plusG m) inp = some (r + 1, []) := by
  unfold matchFirst
  have hrl := run_le_length m inp 0
  rw [mAll_plus_cls inp m [] r 0 (fuelFor inp) hr (by unfold fuelFor; omega), descList_head]
  simp; omega

theorem matchFirst_plusG_none (inp : List Nat) (m : Nat) (hr : run m inp 0 = 0) : matchFirst (plusG m) inp = none := by
  unfold matchFirst
  rw [mAll_plus_cls_none inp m [] 0 (fuelFor inp) hr]; rfl

theorem matchFirst_floatG_none (inp : List Nat) (m y : Nat) (hr : run m inp 0 = 0) : matchFirst (floatG m y) inp = none := by
  unfold matchFirst
  cases hF : fuelFor inp with
  | zero => simp [mAll]
  | succ F =>
    unfold floatG
    rw [mAll_cat_eq, mAll_plus_cls_none inp m [] 0 F hr]
    rfl

end GRE
end AthlibVerif
