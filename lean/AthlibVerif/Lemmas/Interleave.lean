import AthlibVerif.Lemmas.Commute
import AthlibVerif.Props.C02
/-!
# Interleavings of the athletes' trials

Lifts `trial_commute` to whole call sequences: exchanging two adjacent trials of different athletes anywhere in
a fully accepted sequence gives a fully accepted sequence with the same outcome up to the order of the ranked list
(`swap_run`), hence so does any chain of such exchanges (`swaps_run`); and every rearrangement of a block of
trials that keeps each athlete's own order is such a chain (`swaps_of_same_threads`).
-/
namespace AthlibVerif.HJ
open AthlibVerif.Props.C02

def run (c : Comp) (ops : List Op) : Comp := ops.foldl (fun c op => (step c op).1) c

/-- every call of the sequence is accepted -/
def allOk (c : Comp) : List Op → Bool
  | [] => true
  | op :: rest => (step c op).2 == .ok && allOk (step c op).1 rest

theorem run_append (c : Comp) (a b : List Op) : run c (a ++ b) = run (run c a) b := by
  simp [run, List.foldl_append]

theorem allOk_append (a : List Op) : ∀ (c : Comp) (b : List Op), allOk c (a ++ b) = (allOk c a && allOk (run c a) b) := by
  induction a with
  | nil => intro c b; simp [allOk, run]
  | cons op rest ih =>
    intro c b
    simp only [List.cons_append, allOk, ih, run, List.foldl_cons, Bool.and_assoc]

/-- the invariants of every reachable state that the commutation needs -/
structure Good (c : Comp) : Prop where
  wf : WF c
  flags : AllFlags c
  won : WonInv c
  drawn : DrawnInv c
  started : StartedInv c

theorem Good.step {c : Comp} (h : Good c) (op : Op) : Good (step c op).1 :=
  ⟨step_WF c op h.wf, step_AllFlags c op h.wf h.flags, step_WonInv c op h.wf h.won,
   (inv_step c op h.drawn h.started).1, (inv_step c op h.drawn h.started).2⟩

theorem Good.run {c : Comp} (h : Good c) (ops : List Op) : Good (run c ops) := by
  induction ops generalizing c with
  | nil => exact h
  | cons op rest ih => exact ih (h.step op)

theorem good_init : Good {} where
  wf := ⟨by simp, by simp⟩
  flags := fun j hj => by cases hj
  won := fun h => by cases h
  drawn := fun h => by cases h
  started := by unfold StartedInv; simp

theorem good_reachable (c : Comp) (h : Reachable c) : Good c := by
  induction h with
  | init => exact good_init
  | step c op _ ih => exact ih.step op

theorem SameButRanked.refl (a : Comp) : SameButRanked a a := ⟨rfl, rfl, rfl, List.Perm.refl _⟩
theorem SameButRanked.symm {a b : Comp} (h : SameButRanked a b) : SameButRanked b a :=
  ⟨h.1.symm, h.2.1.symm, h.2.2.1.symm, h.2.2.2.symm⟩
theorem SameButRanked.trans {a b c : Comp} (h1 : SameButRanked a b) (h2 : SameButRanked b c) : SameButRanked a c :=
  ⟨h1.1.trans h2.1, h1.2.1.trans h2.2.1, h1.2.2.1.trans h2.2.2.1, h1.2.2.2.trans h2.2.2.2⟩

/-- the same calls on two competitions that differ only in the order of the ranked list -/
theorem same_run (ops : List Op) : ∀ (a b : Comp), WF a → SameButRanked a b →
    allOk a ops = allOk b ops ∧ SameButRanked (run a ops) (run b ops) := by
  induction ops with
  | nil => intro a b _ h; exact ⟨rfl, h⟩
  | cons op rest ih =>
    intro a b hw h
    obtain ⟨ho, hs⟩ := step_same a b op hw h
    obtain ⟨h1, h2⟩ := ih _ _ (step_WF a op hw) hs
    refine ⟨?_, h2⟩
    simp only [allOk, ho, h1]

/-- exchanging two adjacent trials of different athletes -/
theorem swap_run (c : Comp) (hg : Good c) (pre post : List Op) (b1 b2 : Nat) (t1 t2 : Trial) (hne : b1 ≠ b2)
    (h : allOk c (pre ++ [Op.trial b1 t1, Op.trial b2 t2] ++ post) = true) :
    allOk c (pre ++ [Op.trial b2 t2, Op.trial b1 t1] ++ post) = true ∧
    SameButRanked (run c (pre ++ [Op.trial b1 t1, Op.trial b2 t2] ++ post))
      (run c (pre ++ [Op.trial b2 t2, Op.trial b1 t1] ++ post)) := by
  have hgm := hg.run pre
  rw [List.append_assoc, allOk_append, allOk_append] at h
  simp only [Bool.and_eq_true] at h
  obtain ⟨hpre, hmid, hpost⟩ := h
  simp only [allOk, Bool.and_true, Bool.and_eq_true, beq_iff_eq] at hmid
  obtain ⟨h1, h2⟩ := hmid
  obtain ⟨k2, k1, hsame⟩ := trial_commute (run c pre) hgm.wf hgm.flags hgm.won hgm.drawn b1 b2 t1 t2 hne h1 h2
  have hrun12 : run (run c pre) [Op.trial b1 t1, Op.trial b2 t2] =
      (step (step (run c pre) (.trial b1 t1)).1 (.trial b2 t2)).1 := rfl
  have hrun21 : run (run c pre) [Op.trial b2 t2, Op.trial b1 t1] =
      (step (step (run c pre) (.trial b2 t2)).1 (.trial b1 t1)).1 := rfl
  have hw12 : WF (run (run c pre) [Op.trial b1 t1, Op.trial b2 t2]) := (hgm.run _).wf
  obtain ⟨hok, hfin⟩ := same_run post (run (run c pre) [Op.trial b1 t1, Op.trial b2 t2])
    (run (run c pre) [Op.trial b2 t2, Op.trial b1 t1]) hw12 (by rw [hrun12, hrun21]; exact hsame)
  constructor
  · rw [List.append_assoc, allOk_append, allOk_append]
    simp only [Bool.and_eq_true]
    refine ⟨hpre, ?_, ?_⟩
    · simp only [allOk, Bool.and_true, Bool.and_eq_true, beq_iff_eq]
      exact ⟨k2, k1⟩
    · rw [← hok]; exact hpost
  · rw [List.append_assoc, List.append_assoc, run_append, run_append, run_append, run_append]
    exact hfin

/-- one exchange of adjacent trials of different athletes -/
def Swap (l l' : List Op) : Prop :=
  ∃ pre post b1 t1 b2 t2, b1 ≠ b2 ∧ l = pre ++ [Op.trial b1 t1, Op.trial b2 t2] ++ post ∧
    l' = pre ++ [Op.trial b2 t2, Op.trial b1 t1] ++ post

/-- any number of them -/
inductive Swaps : List Op → List Op → Prop
  | refl (l : List Op) : Swaps l l
  | tail {a b c : List Op} : Swaps a b → Swap b c → Swaps a c

theorem Swap.symm {l l' : List Op} (h : Swap l l') : Swap l' l := by
  obtain ⟨pre, post, b1, t1, b2, t2, hne, e1, e2⟩ := h
  exact ⟨pre, post, b2, t2, b1, t1, hne.symm, e2, e1⟩

theorem Swaps.trans {a b c : List Op} (h1 : Swaps a b) (h2 : Swaps b c) : Swaps a c := by
  induction h2 with
  | refl => exact h1
  | tail _ hs ih => exact Swaps.tail ih hs

theorem Swaps.single {a b : List Op} (h : Swap a b) : Swaps a b := Swaps.tail (Swaps.refl a) h

theorem Swaps.symm {a b : List Op} (h : Swaps a b) : Swaps b a := by
  induction h with
  | refl => exact Swaps.refl _
  | tail _ hs ih => exact (Swaps.single hs.symm).trans ih

theorem Swap.cons (x : Op) {l l' : List Op} (h : Swap l l') : Swap (x :: l) (x :: l') := by
  obtain ⟨pre, post, b1, t1, b2, t2, hne, e1, e2⟩ := h
  exact ⟨x :: pre, post, b1, t1, b2, t2, hne, by rw [e1]; rfl, by rw [e2]; rfl⟩

theorem Swaps.cons (x : Op) {l l' : List Op} (h : Swaps l l') : Swaps (x :: l) (x :: l') := by
  induction h with
  | refl => exact Swaps.refl _
  | tail _ hs ih => exact Swaps.tail ih (hs.cons x)

/-- **Any chain of exchanges**: acceptance and outcome carry over -/
theorem swaps_run (c : Comp) (hg : Good c) {l l' : List Op} (hs : Swaps l l') (h : allOk c l = true) :
    allOk c l' = true ∧ SameButRanked (run c l) (run c l') := by
  induction hs with
  | refl => exact ⟨h, SameButRanked.refl _⟩
  | tail _ hsw ih =>
    obtain ⟨hok, hsame⟩ := ih
    obtain ⟨pre, post, b1, t1, b2, t2, hne, e1, e2⟩ := hsw
    subst e1; subst e2
    obtain ⟨hok', hsame'⟩ := swap_run c hg pre post b1 b2 t1 t2 hne hok
    exact ⟨hok', hsame.trans hsame'⟩

/-! ## every rearrangement that keeps each athlete's own order is a chain of exchanges -/

def bibOf : Op → Option Nat
  | .trial b _ => some b
  | _ => none

/-- the calls of athlete `b`, in order -/
def thread (b : Nat) (l : List Op) : List Op := l.filter (fun op => bibOf op == some b)

theorem bubble (bx : Nat) (tx : Trial) (v : List Op) (u : List Op)
    (hu : ∀ y ∈ u, ∃ b t, y = Op.trial b t ∧ b ≠ bx) :
    Swaps (u ++ Op.trial bx tx :: v) (Op.trial bx tx :: (u ++ v)) := by
  induction u with
  | nil => exact Swaps.refl _
  | cons y u' ih =>
    obtain ⟨b, t, hyb, hb⟩ := hu y (by simp)
    subst hyb
    have h1 := (ih (fun z hz => hu z (by simp [hz]))).cons (Op.trial b t)
    refine Swaps.tail h1 ?_
    exact ⟨[], u' ++ v, b, t, bx, tx, hb, rfl, rfl⟩

theorem split_first (p : Op → Bool) (l : List Op) :
    ∃ u r, l = u ++ r ∧ (∀ y ∈ u, p y = true) ∧ (r = [] ∨ ∃ y v, r = y :: v ∧ p y = false) := by
  induction l with
  | nil => exact ⟨[], [], rfl, by simp, Or.inl rfl⟩
  | cons a rest ih =>
    cases hpa : p a with
    | false => exact ⟨[], a :: rest, rfl, by simp, Or.inr ⟨a, rest, rfl, hpa⟩⟩
    | true =>
      obtain ⟨u, r, e, hu, hr⟩ := ih
      refine ⟨a :: u, r, by rw [e]; rfl, ?_, hr⟩
      intro y hy
      rcases List.mem_cons.1 hy with h | h
      · rw [h]; exact hpa
      · exact hu y h

theorem bibOf_trial (b : Nat) (t : Trial) : bibOf (Op.trial b t) = some b := rfl

theorem swaps_of_same_threads (l : List Op) : ∀ (l' : List Op), (∀ op ∈ l, ∃ b t, op = Op.trial b t) → l.Perm l' →
    (∀ b, thread b l = thread b l') → Swaps l l' := by
  induction l with
  | nil => intro l' _ hp _; rw [List.Perm.eq_nil hp.symm]; exact Swaps.refl _
  | cons x xs ih =>
    intro l' ht hp hth
    obtain ⟨bx, tx, hxe⟩ := ht x (by simp)
    subst hxe
    -- split l' at the first call of athlete bx
    obtain ⟨u, r, hsplit, hu, hr⟩ := split_first (fun op => bibOf op != some bx) l'
    have htl' : ∀ op ∈ l', ∃ b t, op = Op.trial b t := fun op hop => ht op (hp.mem_iff.2 hop)
    have hxmem : Op.trial bx tx ∈ l' := hp.mem_iff.1 (by simp)
    rcases hr with hr | ⟨y, v, hr, hy⟩
    · exfalso
      rw [hr, List.append_nil] at hsplit
      have := hu _ (hsplit ▸ hxmem)
      simp [bibOf_trial] at this
    · subst hr
      have hthu : thread bx u = [] := by
        unfold thread
        apply List.filter_eq_nil_iff.2
        intro z hz
        have := hu z hz
        simp only [bne_iff_ne, ne_eq] at this
        simpa using this
      have hyb : bibOf y = some bx := by simpa using hy
      -- the first call of bx in l' is x itself
      have hbx := hth bx
      rw [hsplit] at hbx
      unfold thread at hbx hthu
      rw [List.filter_append, hthu, List.nil_append, List.filter_cons, List.filter_cons] at hbx
      simp only [bibOf_trial, hyb, beq_self_eq_true, if_true] at hbx
      injection hbx with hxy hrest
      subst hxy
      -- the remainder
      have hperm : xs.Perm (u ++ v) := by
        have h1 : (Op.trial bx tx :: xs).Perm (Op.trial bx tx :: (u ++ v)) := by
          rw [hsplit] at hp
          exact hp.trans List.perm_middle
        exact h1.cons_inv
      have hthreads : ∀ b, thread b xs = thread b (u ++ v) := by
        intro b
        have hb := hth b
        rw [hsplit] at hb
        unfold thread at hb ⊢
        rw [List.filter_append] at hb ⊢
        by_cases e : b = bx
        · subst e
          rw [hthu, List.nil_append]
          exact hrest
        · have hx : (bibOf (Op.trial bx tx) == some b) = false := by
            rw [bibOf_trial]
            simp only [beq_eq_false_iff_ne, ne_eq, Option.some.injEq]
            exact fun h => e h.symm
          rw [List.filter_cons, List.filter_cons] at hb
          simp only [hx, Bool.false_eq_true, if_false] at hb
          exact hb
      have ih' := ih _ (fun op hop => ht op (by simp [hop])) hperm hthreads
      have hb := bubble bx tx v u (by
        intro z hz
        obtain ⟨b, t, hzb⟩ := htl' z (by rw [hsplit]; simp [hz])
        subst hzb
        refine ⟨b, t, rfl, ?_⟩
        have := hu _ hz
        simpa [bibOf_trial] using this)
      rw [hsplit]
      exact (ih'.cons _).trans hb.symm

end AthlibVerif.HJ
