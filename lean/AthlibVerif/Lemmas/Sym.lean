import AthlibVerif.Model.Sym
import AthlibVerif.Lemmas.RegexSound
/-! every character maps into the generated alphabet, so the "for all symbol words over `0..nsym`"
    theorems of `RegexSound` apply to every string -/
namespace AthlibVerif

theorem symTable_bounded : Gen.symTable.all (fun e => e.2.2 ≤ Gen.nsym) = true := by decide +kernel

theorem symOfNat_le (c : Nat) : symOfNat c ≤ Gen.nsym := by
  unfold symOfNat
  split
  · next e he =>
    have hm := List.mem_of_find?_eq_some he
    have := List.all_eq_true.1 symTable_bounded e hm
    simpa using this
  · exact Nat.zero_le _

theorem symsOf_inAlpha (s : List Char) : RE.InAlpha Gen.nsym (symsOf s) := by
  intro x hx
  simp only [symsOf, List.mem_map] at hx
  obtain ⟨c, _, rfl⟩ := hx
  exact symOfNat_le _

/-- the denotational reading of "pattern `r` matches string `s`" -/
def Matches (r : RE) (s : List Char) : Prop := RE.lang r (symsOf s)

theorem matchesChars_iff (r : RE) (s : List Char) : r.matchesChars s = true ↔ Matches r s := by
  unfold RE.matchesChars Matches; exact RE.accepts_iff r _

end AthlibVerif
