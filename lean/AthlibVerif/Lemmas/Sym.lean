import AthlibVerif.Model.Sym
import AthlibVerif.Lemmas.RegexSound
/-! every character maps into the generated alphabet, so the "for all symbol words over `0..nsym`"
    theorems of `RegexSound` apply to every string -/
namespace AthlibVerif

theorem symTable_bounded : Gen.symTable.all (fun e => e.2.2 ≤ Gen.nsym) = true := by decide +kernel

theorem symOfNat_le (c : Nat) : symOfNat c ≤ Gen.nsym := by
  unfold symOfNat
  split
  · next e he =>
    have hm := List.mem_of_find?_eq_some he
    have := List.all_eq_true.1 symTable_bounded e hm
    simpa using this
  · exact Nat.zero_le _

theorem symsOf_inAlpha (s : List Char) : RE.InAlpha Gen.nsym (symsOf s) := by
  intro x hx
  simp only [symsOf, List.mem_map] at hx
  obtain ⟨c, _, rfl⟩ := hx
  exact symOfNat_le _

/-- the denotational reading of "pattern `r` matches string `s`" -/
def Matches (r : RE) (s : List Char) : Prop := RE.lang r (symsOf s)

theorem matchesChars_iff (r : RE) (s : List Char) : r.matchesChars s = true ↔ Matches r s := by
  unfold RE.matchesChars Matches; exact RE.accepts_iff r _

end AthlibVerif

namespace AthlibVerif

/-- the intervals of a table follow one another without gaps from `a` to `b` -/
def coversFrom : List (Nat × Nat × Nat) → Nat → Nat → Bool
  | [], _, _ => false
  | [e], a, b => e.1 == a && e.2.1 == b && decide (a ≤ b)
  | e :: e' :: rest, a, b => e.1 == a && decide (a ≤ e.2.1) && coversFrom (e' :: rest) (e.2.1 + 1) b

theorem coversFrom_mem : ∀ (l : List (Nat × Nat × Nat)) (a b n : Nat), coversFrom l a b = true → a ≤ n → n ≤ b →
    ∃ e ∈ l, e.1 ≤ n ∧ n ≤ e.2.1 := by
  intro l
  induction l with
  | nil => intro a b n h; simp [coversFrom] at h
  | cons e rest ih =>
    intro a b n h ha hb
    cases rest with
    | nil =>
      simp only [coversFrom, Bool.and_eq_true, beq_iff_eq, decide_eq_true_eq] at h
      exact ⟨e, List.mem_cons_self, by omega, by omega⟩
    | cons e' rest' =>
      simp only [coversFrom, Bool.and_eq_true, beq_iff_eq, decide_eq_true_eq] at h
      by_cases hn : n ≤ e.2.1
      · exact ⟨e, List.mem_cons_self, by omega, hn⟩
      · obtain ⟨x, hx, h1, h2⟩ := ih (e.2.1 + 1) b n h.2 (by omega) hb
        exact ⟨x, List.mem_cons_of_mem _ hx, h1, h2⟩

/-- the regenerated alphabet table is a partition of all code points 0 .. 0x10FFFF into consecutive intervals -/
theorem symTable_covers : coversFrom Gen.symTable 0 1114111 = true := by decide +kernel

/-- **every code point lies in an interval of the table, and `symOfNat` is the symbol of the first such interval**
    (the fall-back value of `symOfNat` is never used for a character) -/
theorem symOfNat_spec (n : Nat) (h : n ≤ 1114111) :
    ∃ e ∈ Gen.symTable, e.1 ≤ n ∧ n ≤ e.2.1 ∧ symOfNat n = e.2.2 := by
  obtain ⟨x, hx, h1, h2⟩ := coversFrom_mem Gen.symTable 0 1114111 n symTable_covers (Nat.zero_le _) h
  unfold symOfNat
  cases hf : Gen.symTable.find? (fun e => e.1 ≤ n && n ≤ e.2.1) with
  | none =>
    have := List.find?_eq_none.1 hf x hx
    simp only [Bool.and_eq_true, decide_eq_true_eq, not_and] at this
    exact (this h1 h2).elim
  | some e =>
    have hm := List.mem_of_find?_eq_some hf
    have hp := List.find?_some hf
    simp only [Bool.and_eq_true, decide_eq_true_eq] at hp
    exact ⟨e, hm, hp.1, hp.2, rfl⟩

theorem char_le_max (c : Char) : c.toNat ≤ 1114111 := by
  have := c.valid
  rcases this with h | h
  · have : c.val.toNat < 55296 := h
    unfold Char.toNat; omega
  · have : c.val.toNat < 1114112 := h.2
    unfold Char.toNat; omega

/-- for characters -/
theorem symOf_spec (c : Char) : ∃ e ∈ Gen.symTable, e.1 ≤ c.toNat ∧ c.toNat ≤ e.2.1 ∧ symOf c = e.2.2 :=
  symOfNat_spec c.toNat (char_le_max c)

end AthlibVerif
