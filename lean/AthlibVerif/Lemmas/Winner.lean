import AthlibVerif.Lemmas.Commute
import AthlibVerif.Lemmas.Best
/-!
# One winner

In every reachable competition that is `won` or `finished` exactly one athlete is in first place; in a `drawn`
competition at least two are.  (`Decided`, an invariant of `step`.)
-/
namespace AthlibVerif.HJ
open AthlibVerif.Ranking

/-- exactly one athlete is in first place -/
def UniqueFirst (c : Comp) : Prop := (firsts c).length = 1

/-- what the state says about first place; and while `won`, the winner is the one athlete still in, with a clearance -/
structure Decided (c : Comp) : Prop where
  finished : c.phase = .finished → UniqueFirst c
  won : c.phase = .won → ∃ w, c.jumpers.filter (fun j => !j.eliminated) = [w] ∧ w.bestIdx.isSome = true ∧ UniqueFirst c
  drawn : c.phase = .drawn → 2 ≤ (firsts c).length

theorem firsts_congr (a b : Comp) (h : a.jumpers = b.jumpers) : firsts a = firsts b := by unfold firsts; rw [h]

/-- the only athlete still in, if they have a clearance, is alone in first place -/
theorem sole_survivor_first (c : Comp) (hr : Ranked c) (w : Jumper)
    (hal : c.jumpers.filter (fun j => !j.eliminated) = [w]) (hb : w.bestIdx.isSome = true) : firsts c = [w] := by
  have hwm : w ∈ c.jumpers.filter (fun j => !j.eliminated) := by rw [hal]; simp
  obtain ⟨hwj, hwe⟩ := List.mem_filter.1 hwm
  have hwe' : w.eliminated = false := by simpa using hwe
  have hstat : w.key.status = 0 := by
    unfold Jumper.key
    cases hbi : w.bestIdx with
    | none => rw [hbi] at hb; cases hb
    | some i => simp [hwe']
  -- everybody else is out: a worse status
  have hothers : ∀ k ∈ c.jumpers, k ≠ w → Key.lt w.key k.key = true := by
    intro k hk hne
    have hke : k.eliminated = true := by
      cases he : k.eliminated with
      | true => rfl
      | false =>
        have : k ∈ c.jumpers.filter (fun j => !j.eliminated) := List.mem_filter.2 ⟨hk, by simp [he]⟩
        rw [hal] at this
        exact absurd (by simpa using this) hne
    have hks : 2 ≤ k.key.status := by
      unfold Jumper.key
      cases k.bestIdx <;> simp [hke]
    unfold Key.lt
    simp only [Bool.or_eq_true, decide_eq_true_eq]
    left; omega
  have hw1 : w.place = 1 := by
    rw [place_one_iff c hr w hwj]
    intro k hk
    by_cases e : k = w
    · rw [e]; exact keyLt_strictTotal.irrefl _
    · have := hothers k hk e
      cases hlt : Key.lt k.key w.key with
      | false => rfl
      | true => have := keyLt_strictTotal.trans _ _ _ this hlt; rw [keyLt_strictTotal.irrefl] at this; cases this
  have hk1 : ∀ k ∈ c.jumpers, k.place = 1 → k = w := by
    intro k hk hp
    by_cases e : k = w
    · exact e
    · exfalso
      have := (place_one_iff c hr k hk).1 hp w hwj
      rw [hothers k hk e] at this; cases this
  -- the filter is exactly [w]
  unfold firsts
  have hsub : ∀ k ∈ c.jumpers.filter (fun j => j.place == 1), k = w := by
    intro k hk
    obtain ⟨hkj, hkp⟩ := List.mem_filter.1 hk
    exact hk1 k hkj (by simpa using hkp)
  have hmem : w ∈ c.jumpers.filter (fun j => j.place == 1) := List.mem_filter.2 ⟨hwj, by simp [hw1]⟩
  -- no duplicates among the athletes still in, hence none of w
  have hnd : (c.jumpers.filter (fun j => !j.eliminated)).Nodup := by rw [hal]; simp
  have hcount : c.jumpers.count w = 1 := by
    have h1 : (c.jumpers.filter (fun j => !j.eliminated)).count w = 1 := by rw [hal]; simp
    rw [List.count_filter (by simp [hwe'])] at h1
    exact h1
  have hlen : (c.jumpers.filter (fun j => j.place == 1)).length = 1 := by
    have hall : c.jumpers.filter (fun j => j.place == 1) = List.replicate (c.jumpers.filter (fun j => j.place == 1)).length w :=
      List.eq_replicate_iff.2 ⟨rfl, hsub⟩
    have hc : (c.jumpers.filter (fun j => j.place == 1)).count w = 1 := by
      rw [List.count_filter (by simp [hw1])]; exact hcount
    rw [hall, List.count_replicate_self] at hc
    exact hc
  generalize c.jumpers.filter (fun j => j.place == 1) = fl at hlen hsub
  match fl, hlen, hsub with
  | [x], _, hsub => rw [hsub x (by simp)]

theorem actCore_bestIdx_isSome (j : Jumper) (hc : Nat) (h : Int) (t : Trial) (hb : j.bestIdx.isSome = true) :
    (j.actCore hc h t).bestIdx.isSome = true := by
  cases t <;> simp only [Jumper.actCore] <;> (try split) <;> first | exact hb | rfl

theorem firsts_map_length (l : List Jumper) (f : Jumper → Jumper) (hf : ∀ k, (f k).place = k.place) :
    ((l.map f).filter (fun j => j.place == 1)).length = (l.filter (fun j => j.place == 1)).length := by
  rw [List.filter_map, List.length_map]
  congr 1
  apply List.filter_congr
  intro k _
  simp [hf k]

theorem alive_map (l : List Jumper) (f : Jumper → Jumper) (hf : ∀ k, (f k).eliminated = k.eliminated) :
    (l.map f).filter (fun j => !j.eliminated) = (l.filter (fun j => !j.eliminated)).map f := by
  rw [List.filter_map]
  congr 1
  apply List.filter_congr
  intro k _
  simp [hf k]

theorem Decided_init : Decided {} :=
  ⟨(fun h => by cases h), (fun h => by cases h), (fun h => by cases h)⟩

/-- a cleared current height means there is a best -/
theorem best_of_cleared_last (hs : List Int) (w : Jumper) (hb : BestInv hs w)
    (hc : (w.card.getLast?.getD []).contains Trial.o = true) : w.bestIdx.isSome = true := by
  cases hbi : w.bestIdx with
  | some _ => rfl
  | none =>
    exfalso
    have hno := hb.noneCase hbi (w.card.length - 1)
    unfold clearedAt at hno
    have hne : w.card ≠ [] := by
      intro e; rw [e] at hc; simp at hc
    have : w.card.getD (w.card.length - 1) [] = w.card.getLast?.getD [] := by
      rw [List.getLast?_eq_getElem?, List.getD_eq_getElem?_getD]
    rw [this, hc] at hno
    cases hno

theorem step_Decided (c : Comp) (op : Op) (hw : WF c) (hbest : AllBest c)
    (hdr : c.phase = .drawn → ∀ j ∈ c.jumpers, j.eliminated = true) (h : Decided c) : Decided (step c op).1 := by
  cases op with
  | add b =>
    rw [step_add]
    split
    · next hc =>
      refine ⟨fun hp => ?_, fun hp => ?_, fun hp => ?_⟩ <;> simp [addResult, hc.1] at hp
    · exact h
  | bar x =>
    rw [step_bar]
    split
    · next hb =>
      have hfl : ((barResult c x).jumpers.filter (fun j => j.place == 1)).length = (firsts c).length := by
        unfold firsts; simp only [barResult]
        exact firsts_map_length _ _ (fun k => by split <;> rfl)
      have hph : (barResult c x).phase = .finished ∨ (barResult c x).phase = .won ∨ (barResult c x).phase = .drawn →
          (barResult c x).phase = c.phase := by
        intro hp
        simp only [barResult] at hp ⊢
        split
        · next hs => simp [hs] at hp
        · rfl
      refine ⟨fun hp => ?_, fun hp => ?_, fun hp => ?_⟩
      · have e := hph (Or.inl hp); rw [e] at hp
        unfold UniqueFirst firsts; rw [hfl]; exact h.finished hp
      · have e := hph (Or.inr (Or.inl hp)); rw [e] at hp
        obtain ⟨w, hal, hwb, hu⟩ := h.won hp
        refine ⟨(if (!w.eliminated) = true then { w with dismissed := false } else w), ?_, ?_,
          by unfold UniqueFirst firsts; rw [hfl]; exact hu⟩
        · simp only [barResult]
          rw [alive_map _ _ (fun k => by split <;> rfl), hal]; rfl
        · split <;> exact hwb
      · have e := hph (Or.inr (Or.inr hp)); rw [e] at hp
        unfold firsts at hfl ⊢; rw [hfl]; exact h.drawn hp
    · exact h
  | trial b t =>
    rcases step_trial c b t with ⟨j, j', hfd, hta, hne, hact, hs⟩ | ⟨h1, _⟩
    · have hfinal := step_AllBest c (.trial b t) hw hbest
      rw [hs] at hfinal ⊢
      show Decided (rank (logTrial c b t j'))
      change AllBest (rank (logTrial c b t j')) at hfinal
      obtain ⟨he, hd, _⟩ := act_some j j' _ _ t hact
      obtain ⟨hmj, hbj⟩ := find_some_mem c b j hfd
      have hbj' : j'.bib = b := by rw [act_core j j' _ _ t hact, actCore_bib, hbj]
      -- the phase in which a trial was accepted
      have hphase : c.phase = .started ∨ c.phase = .jumpoff ∨ c.phase = .won := by
        unfold trialAllowed at hta
        cases hp : c.phase with
        | scheduled => simp [hp] at hta
        | started => exact Or.inl rfl
        | jumpoff => exact Or.inr (Or.inl rfl)
        | won => exact Or.inr (Or.inr rfl)
        | finished => simp [hp] at hta
        | drawn => have := hdr hp j hmj; rw [he] at this; cases this
      have hwL : WF (logTrial c b t j') :=
        WF_of_same_bibs c (logTrial c b t j') (by simp [update_bibs]) (List.Perm.refl _) hw
      have hwR := rankj_WF _ hwL
      have hrR := rankj_ranked _ hwL
      have hsR := rankj_sorted _ hwL
      have hpR : (rankj (logTrial c b t j')).phase = c.phase := (rankj_frame _).2.2.1
      have hle : aliveN (rankj (logTrial c b t j')) ≤ aliveN c := by
        rw [aliveN_rankj _ hwL]
        exact aliveN_update_le c hw b j j' hfd he hbj'
      have hlen : (rankj (logTrial c b t j')).jumpers.length = c.jumpers.length := by
        rw [(rankj_frame _).2.2.2]; simp
      rw [rank_eq_tail] at hfinal ⊢
      -- the won invariant carried by whoever is alone after the trial
      have hwonkeep : c.phase = .won → ∀ w, (rankj (logTrial c b t j')).jumpers.filter (fun j => !j.eliminated) = [w] →
          w.bestIdx.isSome = true := by
        intro hq w hal
        obtain ⟨w0, hal0, hb0, _⟩ := h.won hq
        have hjw0 : j = w0 := by
          have : j ∈ c.jumpers.filter (fun j => !j.eliminated) := List.mem_filter.2 ⟨hmj, by simp [he]⟩
          rw [hal0] at this; simpa using this
        have hwm : w ∈ (rankj (logTrial c b t j')).jumpers.filter (fun j => !j.eliminated) := by rw [hal]; simp
        obtain ⟨hwj, hwe⟩ := List.mem_filter.1 hwm
        rw [rankj_jumpers _ hwL] at hwj
        obtain ⟨x, hx, rfl⟩ := List.mem_map.1 hwj
        have hxe : x.eliminated = false := by simpa using hwe
        show x.bestIdx.isSome = true
        rcases mem_update_cases c j' x (by simpa using hx) with e | e
        · rw [e, act_core j j' _ _ t hact]
          exact actCore_bestIdx_isSome j _ _ t (hjw0 ▸ hb0)
        · have : x ∈ c.jumpers.filter (fun j => !j.eliminated) := List.mem_filter.2 ⟨e, by simp [hxe]⟩
          rw [hal0] at this
          have : x = w0 := by simpa using this
          rw [this]; exact hb0
      generalize rankj (logTrial c b t j') = cr at *
      unfold rankTail at hfinal ⊢
      cases hrk : cr.ranked with
      | nil =>
        exfalso
        have : (cr.jumpers.map (·.bib)).length = 0 := by
          have := hwR.2.length_eq; rw [hrk] at this; simpa using this.symm
        have hpos : 0 < c.jumpers.length := List.length_pos_of_mem hmj
        simp at this
        rw [this] at hlen
        simp at hlen
        omega
      | cons r0 rest =>
        rw [hrk] at hfinal
        simp only at hfinal ⊢
        cases hfl : cr.jumpers.filter (fun j => !j.eliminated) with
        | nil =>
          rw [hfl] at hfinal
          simp only at hfinal ⊢
          by_cases h2 : secondIsFirst cr rest = true
          · simp only [h2, if_true]
            have h2f := (secondIsFirst_iff cr hwR hrR hsR r0 rest hrk).1 h2
            unfold rankTie
            simp only
            split
            · -- jump-off
              have hp : ∀ (x : Comp), (rankj x).phase = x.phase := fun x => (rankj_frame x).2.2.1
              refine ⟨fun hq => ?_, fun hq => ?_, fun hq => ?_⟩ <;> (rw [hp] at hq; cases hq)
            · next hn =>
              have h0 : (cr.jumpers.filter (reinstated cr)).length = 0 := by omega
              have hj := map_if_none cr.jumpers (reinstated cr) reinstate h0
              refine ⟨(fun hq => by cases hq), (fun hq => by cases hq), fun _ => ?_⟩
              unfold firsts; simp only [hj]; exact h2f
          · have h2' : secondIsFirst cr rest = false := by simpa using h2
            simp only [h2', Bool.false_eq_true, if_false]
            obtain ⟨j0, hj0, hm0, hp0⟩ := head_is_first cr hwR hrR hsR r0 rest hrk
            have hlen1 : (firsts cr).length = 1 := by
              have hnot : ¬ 2 ≤ (firsts cr).length := fun hh => by
                have := (secondIsFirst_iff cr hwR hrR hsR r0 rest hrk).2 hh
                rw [h2'] at this; cases this
              have hpos : 0 < (firsts cr).length :=
                List.length_pos_of_mem (List.mem_filter.2 ⟨hm0, by simp [hp0]⟩)
              omega
            unfold rankLeader
            rw [hj0]
            simp only
            split
            · next hc =>
              have hjo : cr.phase = .jumpoff := by
                simp only [Bool.and_eq_true, beq_iff_eq] at hc; exact hc.1
              have hp : (rankj (cr.update (reinstate j0))).phase = .jumpoff := by
                rw [(rankj_frame _).2.2.1]; exact hjo
              refine ⟨fun hq => ?_, fun hq => ?_, fun hq => ?_⟩ <;> (rw [hp] at hq; cases hq)
            · refine ⟨fun _ => ?_, (fun hq => by cases hq), (fun hq => by cases hq)⟩
              unfold UniqueFirst firsts; exact hlen1
        | cons w tl =>
          cases tl with
          | nil =>
            rw [hfl] at hfinal
            simp only at hfinal ⊢
            unfold rankOneLeft at hfinal ⊢
            split
            · next hc =>
              rw [if_pos hc] at hfinal
              simp only [Bool.and_eq_true, beq_iff_eq] at hc
              have hwm : w ∈ cr.jumpers := (List.mem_filter.1 (by rw [hfl]; simp : w ∈ cr.jumpers.filter (fun j => !j.eliminated))).1
              have hbw : w.bestIdx.isSome = true := best_of_cleared_last _ w (hfinal w hwm) hc.2
              have hf1 : firsts cr = [w] := sole_survivor_first cr hrR w hfl hbw
              refine ⟨fun _ => ?_, fun _ => ⟨w, hfl, hbw, ?_⟩, fun hq => ?_⟩
              · unfold UniqueFirst firsts; simp only; unfold firsts at hf1; rw [hf1]; rfl
              · unfold UniqueFirst firsts; simp only; unfold firsts at hf1; rw [hf1]; rfl
              · simp only at hq; split at hq <;> cases hq
            · -- nothing decided: the state of before
              refine ⟨fun hq => ?_, fun hq => ?_, fun hq => ?_⟩
              · rw [hpR] at hq; rcases hphase with e | e | e <;> rw [e] at hq <;> cases hq
              · rw [hpR] at hq
                have hbw := hwonkeep hq w hfl
                exact ⟨w, hfl, hbw, by unfold UniqueFirst; rw [sole_survivor_first cr hrR w hfl hbw]; rfl⟩
              · rw [hpR] at hq; rcases hphase with e | e | e <;> rw [e] at hq <;> cases hq
          | cons w2 tl2 =>
            simp only
            refine ⟨fun hq => ?_, fun hq => ?_, fun hq => ?_⟩
            · rw [hpR] at hq; rcases hphase with e | e | e <;> rw [e] at hq <;> cases hq
            · rw [hpR] at hq
              exfalso
              obtain ⟨w0, hal0, _, _⟩ := h.won hq
              have : aliveN c = 1 := by unfold aliveN; rw [hal0]; rfl
              unfold aliveN at hle
              rw [hfl] at hle
              simp only [List.length_cons] at hle
              unfold aliveN at this
              omega
            · rw [hpR] at hq; rcases hphase with e | e | e <;> rw [e] at hq <;> cases hq
    · rw [h1]; exact h

end AthlibVerif.HJ
