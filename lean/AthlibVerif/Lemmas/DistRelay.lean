import AthlibVerif.Lemmas.Greedy
import AthlibVerif.Lemmas.RelayLeg
/-!
# `get_distance` of a numeric relay leg returns a distance

For `digits [. digits] [H|M|K]` (what the upper-cased leg of a relay can be besides the named medleys) the leading-number
patterns report the longest number (greedy engine, `Lemmas/Greedy`), the rest is the unit, and every such unit is one the
function knows: the answer is a distance, never `None` — so `int(legs) * get_distance(leg)` cannot raise.
-/
namespace AthlibVerif
namespace Codes
open RE GRE

/-- decided on the regenerated patterns: the two leading-number patterns ARE `\d+` and `\d+\.\d*` over the digit class
    and the class of the point, and no digit symbol is in the class of the point -/
def leadingShapeOK : Bool :=
  (pat "PAT_LEADING_DIGITS" == plusG Gen.digitMask) && (pat "PAT_LEADING_FLOAT" == floatG Gen.digitMask Gen.dotMask) &&
  (List.range (Gen.nsym + 1)).all (fun x => !(Gen.digitMask.testBit x && Gen.dotMask.testBit x)) &&
  Gen.digitMask < 2 ^ (Gen.nsym + 1)

theorem runL_digits (D rest : Str) (hD : ∀ c ∈ D, isDigitU c = true)
    (hrest : ∀ c, rest.head? = some c → isDigitU c = false) :
    runL Gen.digitMask (symsOf (D ++ rest)) = D.length := by
  induction D with
  | nil =>
    simp only [List.nil_append, List.length_nil]
    cases rest with
    | nil => rfl
    | cons c cs =>
      have := hrest c rfl
      unfold isDigitU at this
      simp [symsOf, runL, this]
  | cons d ds ih =>
    have hd := hD d List.mem_cons_self
    unfold isDigitU at hd
    simp only [List.cons_append, symsOf, List.map_cons, runL, hd, if_true, List.length_cons]
    have := ih (fun c hc => hD c (List.mem_cons_of_mem _ hc))
    simp only [symsOf] at this
    rw [this]

theorem run_digits0 (D rest : Str) (hD : ∀ c ∈ D, isDigitU c = true)
    (hrest : ∀ c, rest.head? = some c → isDigitU c = false) :
    run Gen.digitMask (symsOf (D ++ rest)) 0 = D.length := by
  unfold run; simp only [List.drop_zero]; exact runL_digits D rest hD hrest

theorem run_digits_at (pre D rest : Str) (hD : ∀ c ∈ D, isDigitU c = true)
    (hrest : ∀ c, rest.head? = some c → isDigitU c = false) :
    run Gen.digitMask (symsOf (pre ++ (D ++ rest))) pre.length = D.length := by
  unfold run
  have : (symsOf (pre ++ (D ++ rest))).drop pre.length = symsOf (D ++ rest) := by
    simp [symsOf, List.map_append]
  rw [this]; exact runL_digits D rest hD hrest

/-- `^\d+` reports the whole leading digit run -/
theorem leadingDigits_end (hS : leadingShapeOK = true) (D rest : Str) (hne : D ≠ []) (hD : ∀ c ∈ D, isDigitU c = true)
    (hrest : ∀ c, rest.head? = some c → isDigitU c = false) :
    pyMatchEnd "PAT_LEADING_DIGITS" (D ++ rest) = some D.length := by
  simp only [leadingShapeOK, Bool.and_eq_true, beq_iff_eq] at hS
  unfold pyMatchEnd
  rw [hS.1.1.1]
  obtain ⟨r, hr⟩ : ∃ r, D.length = r + 1 := ⟨D.length - 1, by have := List.length_pos_iff.2 hne; omega⟩
  rw [matchFirst_plusG (symsOf (D ++ rest)) Gen.digitMask r (by rw [run_digits0 D rest hD hrest, hr])]
  simp [hr]

/-- `^\d+\.\d*` does not match when the digit run is not followed by the point -/
theorem leadingFloat_none (hS : leadingShapeOK = true) (hL : leadingOK = true) (D rest : Str) (hne : D ≠ [])
    (hD : ∀ c ∈ D, isDigitU c = true) (hrest : ∀ c, rest.head? = some c → isDigitU c = false ∧ c ≠ '.') :
    pyMatchEnd "PAT_LEADING_FLOAT" (D ++ rest) = none := by
  have hS' := hS
  simp only [leadingShapeOK, Bool.and_eq_true, beq_iff_eq, List.all_eq_true, List.mem_range, Bool.not_eq_true',
    Bool.and_eq_false_iff, decide_eq_true_eq] at hS'
  obtain ⟨⟨⟨_, hF⟩, hdisj⟩, hbound⟩ := hS'
  have hL' := hL
  simp only [leadingOK, Bool.and_eq_true, beq_iff_eq] at hL'
  obtain ⟨⟨⟨_, hsing⟩, hdm⟩, _⟩ := hL'
  unfold pyMatchEnd
  rw [hF]
  obtain ⟨r, hr⟩ : ∃ r, D.length = r + 1 := ⟨D.length - 1, by have := List.length_pos_iff.2 hne; omega⟩
  have hdj : ∀ x, Gen.digitMask.testBit x = true → Gen.dotMask.testBit x = false := by
    intro x hx
    by_cases hlt : x < Gen.nsym + 1
    · rcases hdisj x hlt with h | h
      · rw [h] at hx; cases hx
      · exact h
    · have : Gen.digitMask.testBit x = false := Nat.testBit_lt_two_pow (Nat.lt_of_lt_of_le hbound (Nat.pow_le_pow_right (by omega) (by omega)))
      rw [this] at hx; cases hx
  rw [matchFirst_floatG (symsOf (D ++ rest)) Gen.digitMask Gen.dotMask hdj r (by rw [run_digits0 D rest hD (fun c hc => (hrest c hc).1), hr])]
  have hidx : (symsOf (D ++ rest))[r + 1]? = (symsOf rest)[0]? := by
    simp only [symsOf, List.map_append]
    rw [List.getElem?_append_right (by simp [hr])]
    simp [hr]
  rw [hidx]
  cases rest with
  | nil => rfl
  | cons c cs =>
    simp only [symsOf, List.map_cons, List.getElem?_cons_zero]
    have hc := (hrest c rfl).2
    have : Gen.dotMask.testBit (symOf c) = false := by
      cases hb : Gen.dotMask.testBit (symOf c) with
      | false => rfl
      | true =>
        rw [hdm, Nat.testBit_two_pow] at hb
        exact (hc (eq_of_symOf_eq '.' hsing c (of_decide_eq_true hb).symm)).elim
    simp [this]

/-- `^\d+\.\d*` reports digits, the point and the whole digit run after it -/
theorem leadingFloat_end (hS : leadingShapeOK = true) (hL : leadingOK = true) (D1 D2 rest : Str) (hne : D1 ≠ [])
    (hD1 : ∀ c ∈ D1, isDigitU c = true) (hD2 : ∀ c ∈ D2, isDigitU c = true)
    (hrest : ∀ c, rest.head? = some c → isDigitU c = false) :
    pyMatchEnd "PAT_LEADING_FLOAT" (D1 ++ '.' :: (D2 ++ rest)) = some (D1.length + 1 + D2.length) := by
  have hS' := hS
  simp only [leadingShapeOK, Bool.and_eq_true, beq_iff_eq, List.all_eq_true, List.mem_range, Bool.not_eq_true',
    Bool.and_eq_false_iff, decide_eq_true_eq] at hS'
  obtain ⟨⟨⟨_, hF⟩, hdisj⟩, hbound⟩ := hS'
  have hL' := hL
  simp only [leadingOK, Bool.and_eq_true, beq_iff_eq] at hL'
  obtain ⟨⟨⟨_, hsing⟩, hdm⟩, _⟩ := hL'
  unfold pyMatchEnd
  rw [hF]
  obtain ⟨r, hr⟩ : ∃ r, D1.length = r + 1 := ⟨D1.length - 1, by have := List.length_pos_iff.2 hne; omega⟩
  have hdj : ∀ x, Gen.digitMask.testBit x = true → Gen.dotMask.testBit x = false := by
    intro x hx
    by_cases hlt : x < Gen.nsym + 1
    · rcases hdisj x hlt with h | h
      · rw [h] at hx; cases hx
      · exact h
    · have : Gen.digitMask.testBit x = false := Nat.testBit_lt_two_pow (Nat.lt_of_lt_of_le hbound (Nat.pow_le_pow_right (by omega) (by omega)))
      rw [this] at hx; cases hx
  have hdot : isDigitU '.' = false := by
    cases h : isDigitU '.' with
    | false => rfl
    | true => exact (digit_ne_point hL '.' h rfl).elim
  have hrun1 : run Gen.digitMask (symsOf (D1 ++ '.' :: (D2 ++ rest))) 0 = r + 1 := by
    rw [run_digits0 D1 _ hD1 (by intro c hc; simp at hc; subst hc; exact hdot), hr]
  rw [matchFirst_floatG _ Gen.digitMask Gen.dotMask hdj r hrun1]
  have hidx : (symsOf (D1 ++ '.' :: (D2 ++ rest)))[r + 1]? = some (symOf '.') := by
    simp only [symsOf, List.map_append, List.map_cons]
    rw [List.getElem?_append_right (by simp [hr])]
    simp [hr]
  rw [hidx]
  have hbit : Gen.dotMask.testBit (symOf '.') = true := by rw [hdm, Nat.testBit_two_pow]; simp
  simp only [hbit, if_true]
  have hrun2 : run Gen.digitMask (symsOf (D1 ++ '.' :: (D2 ++ rest))) (r + 2) = D2.length := by
    have := run_digits_at (D1 ++ ['.']) D2 rest hD2 hrest
    simp only [List.append_assoc, List.singleton_append, List.length_append, List.length_cons, List.length_nil] at this
    rw [hr] at this
    exact this
  rw [hrun2]
  simp [hr]

/-! ## the distance of `digits [. digits] [H|M|K]` -/

/-- decided on the regenerated alphabet: the letters involved are no digits, the unit letters and the point no white
    space, no digit symbol is a white-space symbol -/
def numFactsOK : Bool :=
  !isDigitU 'X' && !isDigitU 'M' && !isDigitU 'H' && !isDigitU 'C' && !isDigitU 'K' && !isDigitU 'x' &&
  !isSpaceC '.' && !isSpaceC 'H' && !isSpaceC 'M' && !isSpaceC 'K' &&
  (List.range (Gen.nsym + 1)).all (fun x => !(Gen.digitMask.testBit x && Gen.spaceMask.testBit x))

theorem digit_not_space (hN : numFactsOK = true) (c : Char) (h : isDigitU c = true) :
    isSpaceC c = false := by
  simp only [numFactsOK, Bool.and_eq_true, List.all_eq_true, List.mem_range, Bool.not_eq_true',
    Bool.and_eq_false_iff] at hN
  unfold isDigitU at h
  unfold isSpaceC
  have hlt : symOf c < Gen.nsym + 1 := by have := symOfNat_le c.toNat; unfold symOf; omega
  rcases hN.2 (symOf c) hlt with h1 | h1
  · rw [h1] at h; cases h
  · exact h1

theorem firstToken_self (s : Str) (hne : s ≠ []) (h : ∀ c ∈ s, isSpaceC c = false) : firstToken s = .ok s := by
  unfold firstToken
  have h1 : s.dropWhile isSpaceC = s := by
    cases s with
    | nil => exact (hne rfl).elim
    | cons a as => rw [List.dropWhile_cons_of_neg (by simp [h a List.mem_cons_self])]
  have h2 : s.takeWhile (fun c => !isSpaceC c) = s := by
    have hp : ∀ a ∈ s, (!isSpaceC a) = true := fun a ha => by simp [h a ha]
    have := List.takeWhile_append_of_pos (l₂ := ([] : Str)) hp
    simpa using this
  have h3 : s.isEmpty = false := by cases s <;> simp_all
  simp only [h1, h3, Bool.false_eq_true, if_false, h2]

theorem strEq_false_of_head (s : Str) (t : String) (c a : Char) (rest : Str) (hs : s = c :: rest)
    (ht : t.toList.head? = some a) (hne : c ≠ a) : strEq s t = false := by
  unfold strEq
  subst hs
  cases hl : t.toList with
  | nil => rw [hl] at ht; cases ht
  | cons b bs =>
    rw [hl] at ht
    simp only [List.head?_cons, Option.some.injEq] at ht
    subst ht
    simp [hne]

/-- a numeric leg is not one of the names `get_distance` knows, and not a relay -/
theorem numeric_prelude (hN : numFactsOK = true) (hO : relayLegOK = true)
    (hrel : tieOK (pat "PAT_RELAYS") Gen.PAT_RELAYS = true) (g2 : Str) (d : Char) (rest : Str) (hg : g2 = d :: rest)
    (hd : isDigitU d = true) (hx : ∀ c ∈ g2, c ≠ 'x' ∧ c ≠ 'X') :
    strEq g2 "XC" = false ∧ strEq g2 "MAR" = false ∧ strEq g2 "HM" = false ∧
    strIn g2 ["MILE", "CHUNDER-MILE"] = false ∧ pyMatch "PAT_RELAYS" g2 = none := by
  have hN' := hN
  simp only [numFactsOK, Bool.and_eq_true, Bool.not_eq_true'] at hN'
  obtain ⟨⟨⟨⟨⟨⟨⟨⟨⟨⟨nX, nM⟩, nH⟩, nC⟩, _⟩, _⟩, _⟩, _⟩, _⟩, _⟩, _⟩ := hN'
  have hne : ∀ a, isDigitU a = false → d ≠ a := by intro a ha e; subst e; rw [hd] at ha; cases ha
  have hO' := hO
  simp only [relayLegOK, Bool.and_eq_true, List.all_eq_true] at hO'
  obtain ⟨⟨⟨⟨⟨hsx, hsX⟩, hrx⟩, _⟩, _⟩, _⟩ := hO'
  refine ⟨strEq_false_of_head g2 "XC" d 'X' rest hg rfl (hne _ nX), strEq_false_of_head g2 "MAR" d 'M' rest hg rfl (hne _ nM),
    strEq_false_of_head g2 "HM" d 'H' rest hg rfl (hne _ nH), ?_, ?_⟩
  · have h1 := strEq_false_of_head g2 "MILE" d 'M' rest hg rfl (hne _ nM)
    have h2 := strEq_false_of_head g2 "CHUNDER-MILE" d 'C' rest hg rfl (hne _ nC)
    unfold strEq at h1 h2
    unfold strIn
    simp only [List.any_cons, List.any_nil, h1, h2, Bool.or_false]
  · cases hm2 : pyMatch "PAT_RELAYS" g2 with
    | none => rfl
    | some rc2 =>
      have : Matches Gen.PAT_RELAYS g2 := (pyMatch_iff _ _ hrel g2).1 (by rw [hm2]; rfl)
      exact (RE.disjoint_of_check Gen.nsym 100000 _ _ hrx _ (symsOf_inAlpha g2) ⟨this, lang_noX hsx hsX g2 hx⟩).elim

/-- the four unit suffixes a numeric leg can carry all give a distance -/
theorem suffix_some (n den : Nat) (sfx : Str) (hs : sfx = [] ∨ sfx = ['H'] ∨ sfx = ['M'] ∨ sfx = ['K']) :
    ∃ leg, (if sfx.isEmpty = true then (Except.ok (some (1 * n / (1 * den))) : Except PyErr (Option Nat))
          else if (strIn (lower sfx) ["sc", "h", "w"] || strIn sfx ["m", "mH"]) = true then Except.ok (some (1 * n / (1 * den)))
          else if strIn sfx ["k", "K", "km"] = true then Except.ok (some (1000 * n / (1 * den)))
          else if strIn (lower sfx) ["kw", "kmw"] = true then Except.ok (some (1000 * n / (1 * den)))
          else if strIn sfx ["M", "Mi", "MI", "MT"] = true then Except.ok (some (1609 * n / (1 * den)))
          else if strIn sfx ["Y", "y", "YD", "yd"] = true then Except.ok (some (9144 * n / (10000 * den)))
          else Except.ok none) = .ok (some leg) := by
  rcases hs with rfl | rfl | rfl | rfl
  · exact ⟨_, rfl⟩
  · have c1 : (['H'] : Str).isEmpty = false := rfl
    have c2 : (strIn (lower ['H']) ["sc", "h", "w"] || strIn ['H'] ["m", "mH"]) = true := by decide
    exact ⟨1 * n / (1 * den), by simp only [c1, c2, Bool.false_eq_true, if_false, if_true]⟩
  · have c1 : (['M'] : Str).isEmpty = false := rfl
    have c2 : (strIn (lower ['M']) ["sc", "h", "w"] || strIn ['M'] ["m", "mH"]) = false := by decide
    have c3 : strIn ['M'] ["k", "K", "km"] = false := by decide
    have c4 : strIn (lower ['M']) ["kw", "kmw"] = false := by decide
    have c5 : strIn ['M'] ["M", "Mi", "MI", "MT"] = true := by decide
    exact ⟨1609 * n / (1 * den), by simp only [c1, c2, c3, c4, c5, Bool.false_eq_true, if_false, if_true]⟩
  · have c1 : (['K'] : Str).isEmpty = false := rfl
    have c2 : (strIn (lower ['K']) ["sc", "h", "w"] || strIn ['K'] ["m", "mH"]) = false := by decide
    have c3 : strIn ['K'] ["k", "K", "km"] = true := by decide
    exact ⟨1000 * n / (1 * den), by simp only [c1, c2, c3, Bool.false_eq_true, if_false, if_true]⟩

theorem sfx_facts (hN : numFactsOK = true) (sfx : Str) (hs : sfx = [] ∨ sfx = ['H'] ∨ sfx = ['M'] ∨ sfx = ['K']) :
    (∀ c ∈ sfx, isSpaceC c = false) ∧ (∀ c, sfx.head? = some c → isDigitU c = false ∧ c ≠ '.') := by
  simp only [numFactsOK, Bool.and_eq_true, Bool.not_eq_true'] at hN
  obtain ⟨⟨⟨⟨⟨⟨⟨⟨⟨⟨_, nM⟩, nH⟩, _⟩, nK⟩, _⟩, _⟩, sH⟩, sM⟩, sK⟩, _⟩ := hN
  rcases hs with rfl | rfl | rfl | rfl
  · exact ⟨by simp, by simp⟩
  · exact ⟨by simpa using sH, by intro c hc; simp at hc; subst hc; exact ⟨nH, by decide⟩⟩
  · exact ⟨by simpa using sM, by intro c hc; simp at hc; subst hc; exact ⟨nM, by decide⟩⟩
  · exact ⟨by simpa using sK, by intro c hc; simp at hc; subst hc; exact ⟨nK, by decide⟩⟩

/-- **`digits [H|M|K]` has a distance** -/
theorem getDistance_int_leg (hT : digitTableOK = true) (hL : leadingOK = true) (hS : leadingShapeOK = true)
    (hN : numFactsOK = true) (hO : relayLegOK = true) (hrel : tieOK (pat "PAT_RELAYS") Gen.PAT_RELAYS = true)
    (D sfx : Str) (hne : D ≠ []) (hD : ∀ c ∈ D, isDigitU c = true)
    (hs : sfx = [] ∨ sfx = ['H'] ∨ sfx = ['M'] ∨ sfx = ['K'])
    (hx : ∀ c ∈ D ++ sfx, c ≠ 'x' ∧ c ≠ 'X') (fuel : Nat) :
    ∃ leg, getDistance (fuel + 1) (D ++ sfx) = .ok (some leg) := by
  obtain ⟨hsfxsp, hsfxhd⟩ := sfx_facts hN sfx hs
  obtain ⟨d, ds, hDd⟩ : ∃ d ds, D = d :: ds := by cases D with
    | nil => exact (hne rfl).elim
    | cons d ds => exact ⟨d, ds, rfl⟩
  have hnsp : ∀ c ∈ D ++ sfx, isSpaceC c = false := by
    intro c hc
    rcases List.mem_append.1 hc with h | h
    · exact digit_not_space hN c (hD c h)
    · exact hsfxsp c h
  have ht := firstToken_self (D ++ sfx) (by simp [hne]) hnsp
  obtain ⟨h1, h2, h3, h4, hr⟩ := numeric_prelude hN hO hrel (D ++ sfx) d (ds ++ sfx) (by rw [hDd]; rfl)
    (hD d (by rw [hDd]; exact List.mem_cons_self)) hx
  have hf := leadingFloat_none hS hL D sfx hne hD hsfxhd
  have hdg := leadingDigits_end hS D sfx hne hD (fun c hc => (hsfxhd c hc).1)
  obtain ⟨⟨n, den⟩, hdec⟩ := decimalOf_digits hT hL D hne hD
  obtain ⟨leg, hleg⟩ := suffix_some n den sfx hs
  refine ⟨leg, ?_⟩
  simp only [getDistance, ht, h1, h2, h3, h4, hr, hf, hdg, Bool.false_eq_true, if_false, List.take_left', List.drop_left',
    dropEnd_digits hL D hne hD, hdec]
  exact hleg

/-- **`digits . digits [H|M|K]` has a distance** -/
theorem getDistance_float_leg (hT : digitTableOK = true) (hL : leadingOK = true) (hS : leadingShapeOK = true)
    (hN : numFactsOK = true) (hO : relayLegOK = true) (hrel : tieOK (pat "PAT_RELAYS") Gen.PAT_RELAYS = true)
    (D1 D2 sfx : Str) (hne1 : D1 ≠ []) (hne2 : D2 ≠ []) (hD1 : ∀ c ∈ D1, isDigitU c = true) (hD2 : ∀ c ∈ D2, isDigitU c = true)
    (hs : sfx = [] ∨ sfx = ['H'] ∨ sfx = ['M'] ∨ sfx = ['K'])
    (hx : ∀ c ∈ D1 ++ '.' :: (D2 ++ sfx), c ≠ 'x' ∧ c ≠ 'X') (fuel : Nat) :
    ∃ leg, getDistance (fuel + 1) (D1 ++ '.' :: (D2 ++ sfx)) = .ok (some leg) := by
  obtain ⟨hsfxsp, hsfxhd⟩ := sfx_facts hN sfx hs
  obtain ⟨d, ds, hDd⟩ : ∃ d ds, D1 = d :: ds := by cases D1 with
    | nil => exact (hne1 rfl).elim
    | cons d ds => exact ⟨d, ds, rfl⟩
  have hdotsp : isSpaceC '.' = false := by
    simp only [numFactsOK, Bool.and_eq_true, Bool.not_eq_true'] at hN
    exact hN.1.1.1.1.2
  have hnsp : ∀ c ∈ D1 ++ '.' :: (D2 ++ sfx), isSpaceC c = false := by
    intro c hc
    rcases List.mem_append.1 hc with h | h
    · exact digit_not_space hN c (hD1 c h)
    · rcases List.mem_cons.1 h with rfl | h
      · exact hdotsp
      · rcases List.mem_append.1 h with h | h
        · exact digit_not_space hN c (hD2 c h)
        · exact hsfxsp c h
  have ht := firstToken_self (D1 ++ '.' :: (D2 ++ sfx)) (by simp) hnsp
  obtain ⟨h1, h2, h3, h4, hr⟩ := numeric_prelude hN hO hrel (D1 ++ '.' :: (D2 ++ sfx)) d (ds ++ '.' :: (D2 ++ sfx))
    (by rw [hDd]; rfl) (hD1 d (by rw [hDd]; exact List.mem_cons_self)) hx
  have hf := leadingFloat_end hS hL D1 D2 sfx hne1 hD1 hD2 (fun c hc => (hsfxhd c hc).1)
  obtain ⟨⟨n, den⟩, hdec⟩ := decimalOf_float hT hL D1 D2 hne1 hne2 hD1 hD2
  obtain ⟨leg, hleg⟩ := suffix_some n den sfx hs
  have hsplit : D1 ++ '.' :: (D2 ++ sfx) = (D1 ++ '.' :: D2) ++ sfx := by simp
  have hlen : D1.length + 1 + D2.length = (D1 ++ '.' :: D2).length := by simp; omega
  have hdrop : dropEndWhileL (fun x => x == '.') (D1 ++ '.' :: D2) = D1 ++ '.' :: D2 := by
    have hl2 : D2.reverse ≠ [] := by simpa using hne2
    unfold dropEndWhileL
    rw [List.reverse_append, List.reverse_cons]
    cases hrv : D2.reverse with
    | nil => exact (hl2 hrv).elim
    | cons c cs =>
      have hc : c ∈ D2 := by
        have : c ∈ D2.reverse := by rw [hrv]; exact List.mem_cons_self
        simpa using this
      have hcf : (c == '.') = false := by simpa using digit_ne_point hL c (hD2 c hc)
      simp only [List.cons_append, List.append_assoc]
      rw [List.dropWhile_cons_of_neg (by simp [hcf])]
      have h3' : D2 = (c :: cs).reverse := by rw [← hrv, List.reverse_reverse]
      rw [h3']; simp
  refine ⟨leg, ?_⟩
  rw [hlen] at hf
  rw [hsplit] at ht h1 h2 h3 h4 hr hf ⊢
  generalize D1 ++ '.' :: D2 = q at ht h1 h2 h3 h4 hr hf hdrop hdec ⊢
  simp only [getDistance, ht, h1, h2, h3, h4, hr, hf, Bool.false_eq_true, if_false, List.take_left', List.drop_left', hdrop, hdec]
  exact hleg

/-! ## what the leg of a relay can be -/

def sfxMask : Nat := maskOf [symOf 'h', symOf 'H', symOf 'M', symOf 'K']
/-- `\d+(\.\d+)?[hHMK]?` -/
def numLeg : RE :=
  .cat (plusCls Gen.digitMask) (.cat (.alt .eps (.cat (.cls Gen.dotMask) (plusCls Gen.digitMask))) (.alt .eps (.cls sfxMask)))
def legNames : List (List Char) := ["RELAY", "DMR", "SMR", "SDMR", "SSMR", "SWR"].map String.toList
def namesRE : List (List Char) → RE
  | [] => .empty
  | w :: ws => .alt (ciWord w) (namesRE ws)

/-- decided on the regenerated pattern and alphabet: a leg is a number with an optional unit letter, or one of six names
    in any letter case -/
def legShapeOK : Bool :=
  legNames.all (fun w => w.all (fun c => capitals.contains c && singletonSym c && singletonSym (lowerC c))) &&
  ['h', 'H', 'M', 'K'].all singletonSym &&
  (List.range 26).all (fun k => !isDigitU (Char.ofNat (97 + k))) &&
  (grpBodies 2 (pat "PAT_RELAYS")).all (fun b =>
    RE.isEmptyLang Gen.nsym 100000 (RE.and (toRE [] b) (RE.not (RE.alt numLeg (namesRE legNames)))))

theorem lang_namesRE (ws : List (List Char)) (x : List Nat) (h : RE.lang (namesRE ws) x) : ∃ w ∈ ws, RE.lang (ciWord w) x := by
  induction ws with
  | nil => simp [namesRE, RE.lang] at h
  | cons w ws ih =>
    simp only [namesRE, RE.lang] at h
    rcases h with h | h
    · exact ⟨w, List.mem_cons_self, h⟩
    · obtain ⟨w', hw', hl⟩ := ih h; exact ⟨w', List.mem_cons_of_mem _ hw', hl⟩

theorem upper_digits (hG : legShapeOK = true) (D : Str) (hD : ∀ c ∈ D, isDigitU c = true) : upper D = D := by
  simp only [legShapeOK, Bool.and_eq_true, List.all_eq_true, List.mem_range, Bool.not_eq_true'] at hG
  obtain ⟨⟨_, hlow⟩, _⟩ := hG
  unfold upper
  have : ∀ c ∈ D, upperC c = c := by
    intro c hc
    cases hl : (97 ≤ c.toNat && c.toNat ≤ 122) with
    | false => exact upperC_of_not_lower c hl
    | true =>
      obtain ⟨k, hk, rfl⟩ := lower_is_ofNat c hl
      have := hlow k hk
      rw [hD _ hc] at this; cases this
  clear hlow
  induction D with
  | nil => rfl
  | cons a as ih =>
    simp only [List.map_cons]
    rw [this a List.mem_cons_self, ih (fun c hc => hD c (List.mem_cons_of_mem _ hc)) (fun c hc => this c (List.mem_cons_of_mem _ hc))]

/-- the shape of a numeric leg, read back as characters -/
theorem numLeg_shape (hL : leadingOK = true) (hG : legShapeOK = true) (t : Str) (h : RE.lang numLeg (symsOf t)) :
    ∃ D1 D2 sfx : Str, D1 ≠ [] ∧ (∀ c ∈ D1, isDigitU c = true) ∧ (∀ c ∈ D2, isDigitU c = true) ∧
      (sfx = [] ∨ sfx = ['h'] ∨ sfx = ['H'] ∨ sfx = ['M'] ∨ sfx = ['K']) ∧
      (t = D1 ++ sfx ∨ (D2 ≠ [] ∧ t = D1 ++ '.' :: (D2 ++ sfx))) := by
  have hL' := hL
  simp only [leadingOK, Bool.and_eq_true, beq_iff_eq] at hL'
  obtain ⟨⟨⟨_, hsing⟩, hdm⟩, _⟩ := hL'
  have hG' := hG
  simp only [legShapeOK, Bool.and_eq_true, List.all_eq_true] at hG'
  obtain ⟨⟨⟨_, hsfxsing⟩, _⟩, _⟩ := hG'
  simp only [numLeg, RE.lang] at h
  obtain ⟨u, v, huv, hu, w1, w2, hw, hfrac, hsfx⟩ := h
  obtain ⟨D1, rest, rfl, hD1s, hrest⟩ := symsOf_eq_append huv
  rw [hw] at hrest
  obtain ⟨F, S, rfl, hFs, hSs⟩ := symsOf_eq_append hrest
  obtain ⟨hne1, hD1⟩ := digits_of_plusCls D1 (by rw [hD1s]; exact hu)
  -- the suffix
  have hS : S = [] ∨ S = ['h'] ∨ S = ['H'] ∨ S = ['M'] ∨ S = ['K'] := by
    rcases hsfx with he | ⟨x, hx, hxb⟩
    · left; subst he; cases S <;> simp_all [symsOf]
    · subst hx
      obtain ⟨a, S', rfl, ha, hS'⟩ := symsOf_eq_cons (v := []) (by simpa using hSs)
      have : S' = [] := by cases S' <;> simp_all [symsOf]
      subst this
      unfold sfxMask at hxb
      rw [testBit_maskOf] at hxb
      simp only [List.contains_eq_mem, List.mem_cons, List.mem_nil_iff, or_false, decide_eq_true_eq] at hxb
      rw [← ha] at hxb
      rcases hxb with e | e | e | e
      · right; left; rw [eq_of_symOf_eq 'h' (hsfxsing 'h' (by simp)) a e]
      · right; right; left; rw [eq_of_symOf_eq 'H' (hsfxsing 'H' (by simp)) a e]
      · right; right; right; left; rw [eq_of_symOf_eq 'M' (hsfxsing 'M' (by simp)) a e]
      · right; right; right; right; rw [eq_of_symOf_eq 'K' (hsfxsing 'K' (by simp)) a e]
  rcases hfrac with he | ⟨f1, f2, hf12, ⟨x, hx, hxb⟩, hd2⟩
  · subst he
    have : F = [] := by cases F <;> simp_all [symsOf]
    subst this
    exact ⟨D1, [], S, hne1, hD1, by simp, hS, Or.inl (by simp)⟩
  · subst hx
    rw [hf12] at hFs
    obtain ⟨c, D2, rfl, hc, hD2s⟩ := symsOf_eq_cons hFs
    have hcd : c = '.' := by
      apply eq_of_symOf_eq '.' hsing c
      rw [hdm, Nat.testBit_two_pow] at hxb
      rw [hc]; exact (of_decide_eq_true hxb).symm
    subst hcd
    obtain ⟨hne2, hD2⟩ := digits_of_plusCls D2 (by rw [hD2s]; exact hd2)
    exact ⟨D1, D2, S, hne1, hD1, hD2, hS, Or.inr ⟨hne2, by simp⟩⟩

/-- everything the relay branch of `get_distance` relies on (each factor decided on the regenerated data) -/
structure RelayFacts : Prop where
  hT : digitTableOK = true
  hL : leadingOK = true
  hS : leadingShapeOK = true
  hN : numFactsOK = true
  hO : relayLegOK = true
  hG : legShapeOK = true
  hrel : tieOK (pat "PAT_RELAYS") Gen.PAT_RELAYS = true
  hlegs : (groupDigits (pat "PAT_RELAYS") 1 && mandatory [1] (pat "PAT_RELAYS")) = true

/-- **the leg of a relay, upper-cased, is one of the names `get_distance` treats specially or has a distance** -/
theorem relay_leg_distance (F : RelayFacts) (tok : Str) (rc : Caps) (hm : pyMatch "PAT_RELAYS" tok = some rc) (fuel : Nat) :
    let g2 := upper ((group tok rc 2).getD [])
    strIn g2 ["RELAY", "DMR", "SDMR"] = true ∨ strEq g2 "SMR" = true ∨ strEq g2 "SSMR" = true ∨ strEq g2 "SWR" = true ∨
      ∃ leg, getDistance (fuel + 1) g2 = .ok (some leg) := by
  intro g2
  have hO' := F.hO
  simp only [relayLegOK, Bool.and_eq_true, List.all_eq_true] at hO'
  obtain ⟨⟨⟨⟨⟨hsx, hsX⟩, hrx⟩, hmand⟩, hbodies⟩, _⟩ := hO'
  have hG' := F.hG
  simp only [legShapeOK, Bool.and_eq_true, List.all_eq_true] at hG'
  obtain ⟨⟨⟨hnames, _⟩, _⟩, hshape⟩ := hG'
  obtain ⟨id, hid, t, hg⟩ := group_mandatory "PAT_RELAYS" [2] hmand tok rc hm
  simp only [List.mem_cons, List.mem_nil_iff, or_false] at hid
  subst hid
  have hne : (grpBodies 2 (pat "PAT_RELAYS")).all noEol = true :=
    List.all_eq_true.2 (fun b hb => (hbodies b hb).1)
  obtain ⟨body, hb, hl⟩ := group_lang "PAT_RELAYS" tok rc hm 2 t hg hne
  have hsub1 := RE.subset_of_check Gen.nsym 100000 _ _ (hbodies body hb).2 _ (symsOf_inAlpha t) hl
  simp only [RE.lang] at hsub1
  have hx := noX_chars t hsub1.1
  have hsub2 := RE.subset_of_check Gen.nsym 100000 _ _ (hshape body hb) _ (symsOf_inAlpha t) hl
  have hg2 : g2 = upper t := by simp only [g2, hg, Option.getD_some]
  have hupx : ∀ c ∈ upper t, c ≠ 'x' ∧ c ≠ 'X' := by
    intro c hc
    simp only [upper, List.mem_map] at hc
    obtain ⟨a, ha, rfl⟩ := hc
    obtain ⟨_, f2, f3⟩ := upper_facts F.hO a
    refine ⟨f3, ?_⟩
    intro hX
    rcases f2 hX with e | e
    · exact (hx a ha).1 e
    · exact (hx a ha).2 e
  simp only [RE.lang] at hsub2
  rcases hsub2 with hnum | hname
  · -- a number with an optional unit letter
    obtain ⟨D1, D2, sfx, hne1, hD1, hD2, hsfx, hshape'⟩ := numLeg_shape F.hL F.hG t hnum
    have hsfxU : upper sfx = [] ∨ upper sfx = ['H'] ∨ upper sfx = ['M'] ∨ upper sfx = ['K'] := by
      rcases hsfx with rfl | rfl | rfl | rfl | rfl
      · left; rfl
      · right; left; decide
      · right; left; decide
      · right; right; left; decide
      · right; right; right; decide
    right; right; right; right
    rcases hshape' with rfl | ⟨hne2, rfl⟩
    · have hu : upper (D1 ++ sfx) = D1 ++ upper sfx := by
        simp only [upper, List.map_append]; rw [show List.map upperC D1 = D1 from upper_digits F.hG D1 hD1]
      rw [hg2, hu]
      exact getDistance_int_leg F.hT F.hL F.hS F.hN F.hO F.hrel D1 (upper sfx) hne1 hD1 hsfxU (by rw [← hu]; exact hupx) fuel
    · have hdot : upperC '.' = '.' := by decide
      have hu : upper (D1 ++ '.' :: (D2 ++ sfx)) = D1 ++ '.' :: (D2 ++ upper sfx) := by
        simp only [upper, List.map_append, List.map_cons, hdot]
        rw [show List.map upperC D1 = D1 from upper_digits F.hG D1 hD1, show List.map upperC D2 = D2 from upper_digits F.hG D2 hD2]
      rw [hg2, hu]
      exact getDistance_float_leg F.hT F.hL F.hS F.hN F.hO F.hrel D1 D2 (upper sfx) hne1 hne2 hD1 hD2 hsfxU (by rw [← hu]; exact hupx) fuel
  · -- one of the six names, in any letter case
    obtain ⟨w, hw, hlw⟩ := lang_namesRE legNames _ hname
    have hup : upper t = w := by
      apply lang_ciWord w _ t hlw
      intro c hc
      have := hnames w hw c hc
      exact ⟨by simpa using this.1.1, this.1.2, this.2⟩
    rw [hg2, hup]
    simp only [legNames, List.map_cons, List.map_nil, List.mem_cons, List.mem_nil_iff, or_false] at hw
    rcases hw with rfl | rfl | rfl | rfl | rfl | rfl
    · left; decide
    · left; decide
    · right; left; decide
    · left; decide
    · right; right; left; decide
    · right; right; right; left; decide

/-- **`get_distance` returns for a string whose first token is a relay** -/
theorem getDistance_relay_ok (F : RelayFacts) (d tok : Str) (rc : Caps) (htok : firstToken d = .ok tok)
    (hm : pyMatch "PAT_RELAYS" tok = some rc) (fuel : Nat) : ∃ r, getDistance (fuel + 2) d = .ok r := by
  have hlegs := F.hlegs
  simp only [Bool.and_eq_true] at hlegs
  obtain ⟨id, hid, t1, hg1⟩ := group_mandatory "PAT_RELAYS" [1] hlegs.2 tok rc hm
  simp only [List.mem_cons, List.mem_nil_iff, or_false] at hid
  subst hid
  obtain ⟨legs, hlegsv⟩ := group_int F.hT "PAT_RELAYS" 1 hlegs.1 tok rc hm t1 hg1
  cases h1 : strEq tok "XC" with
  | true => exact ⟨none, by simp only [getDistance, htok, h1, if_true]⟩
  | false =>
  cases h2 : strEq tok "MAR" with
  | true => exact ⟨some 42195, by simp only [getDistance, htok, h1, h2, if_true, Bool.false_eq_true, if_false]⟩
  | false =>
  cases h3 : strEq tok "HM" with
  | true => exact ⟨some 21098, by simp only [getDistance, htok, h1, h2, h3, if_true, Bool.false_eq_true, if_false]⟩
  | false =>
  cases h4 : strIn tok ["MILE", "CHUNDER-MILE"] with
  | true => exact ⟨some 1609, by simp only [getDistance, htok, h1, h2, h3, h4, if_true, Bool.false_eq_true, if_false]⟩
  | false =>
  have hleg := relay_leg_distance F tok rc hm fuel
  simp only at hleg
  cases c1 : strIn (upper ((group tok rc 2).getD [])) ["RELAY", "DMR", "SDMR"] with
  | true => exact ⟨none, by simp only [getDistance, htok, h1, h2, h3, h4, hm, c1, if_true, Bool.false_eq_true, if_false]⟩
  | false =>
  cases c2 : strEq (upper ((group tok rc 2).getD [])) "SMR" with
  | true => exact ⟨some 1600, by simp only [getDistance, htok, h1, h2, h3, h4, hm, c1, c2, if_true, Bool.false_eq_true, if_false]⟩
  | false =>
  cases c3 : strEq (upper ((group tok rc 2).getD [])) "SSMR" with
  | true => exact ⟨some 800, by simp only [getDistance, htok, h1, h2, h3, h4, hm, c1, c2, c3, if_true, Bool.false_eq_true, if_false]⟩
  | false =>
  cases c4 : strEq (upper ((group tok rc 2).getD [])) "SWR" with
  | true => exact ⟨some 1000, by simp only [getDistance, htok, h1, h2, h3, h4, hm, c1, c2, c3, c4, if_true, Bool.false_eq_true, if_false]⟩
  | false =>
  rw [c1, c2, c3, c4] at hleg
  simp only [Bool.false_eq_true, false_or] at hleg
  obtain ⟨leg, hlegd⟩ := hleg
  refine ⟨some (legs * leg), ?_⟩
  simp only [getDistance, htok, h1, h2, h3, h4, hm, c1, c2, c3, c4, hg1, Option.getD_some, hlegsv, Bool.false_eq_true, if_false]
  have : getDistance (fuel + 1) (upper ((group tok rc 2).getD [])) = .ok (some leg) := hlegd
  simp only [getDistance] at this ⊢
  rw [this]

end Codes
end AthlibVerif
