import AthlibVerif.Lemmas.Commute
/-!
# The cards are the log, athlete by athlete

In every reachable competition the marks on an athlete's card, read left to right across the heights, are exactly
that athlete's accepted trials in the order of the action log.
-/
namespace AthlibVerif.HJ

/-- the trial marks of athlete `b` in a call sequence, in order -/
def marksOf (b : Nat) (log : List Op) : List Trial :=
  log.filterMap (fun op => match op with
    | .trial b' t => if b' == b then some t else none
    | _ => none)

theorem marksOf_append (b : Nat) (l l' : List Op) : marksOf b (l ++ l') = marksOf b l ++ marksOf b l' := by
  unfold marksOf; rw [List.filterMap_append]

def CardLog (c : Comp) : Prop := ∀ j ∈ c.jumpers, j.card.flatten = marksOf j.bib c.log

/-- every trial in the log was made by a registered athlete -/
def LogBibs (c : Comp) : Prop := ∀ b t, Op.trial b t ∈ c.log → b ∈ c.jumpers.map (·.bib)

theorem marksOf_nil_of_absent (b : Nat) (log : List Op) (h : ∀ t, Op.trial b t ∉ log) : marksOf b log = [] := by
  unfold marksOf
  apply List.filterMap_eq_nil_iff.2
  intro op hop
  cases op with
  | add _ => rfl
  | bar _ => rfl
  | trial b' t =>
    simp only
    by_cases e : b' = b
    · subst e; exact absurd hop (h t)
    · have : (b' == b) = false := by simpa using e
      simp [this]

theorem rankTie_bibs (c : Comp) (h : WF c) : (rankTie c).jumpers.map (·.bib) = c.jumpers.map (·.bib) := by
  unfold rankTie
  simp only
  have hb : (c.jumpers.map (fun (j : Jumper) => if reinstated c j then reinstate j else j)).map (·.bib) = c.jumpers.map (·.bib) := by
    rw [List.map_map]
    apply List.map_congr_left
    intro k _
    simp only [Function.comp_apply]
    split <;> rfl
  split
  · have hwf : WF ({ { c with jumpers := c.jumpers.map (fun (j : Jumper) => if reinstated c j then reinstate j else j) } with phase := Phase.jumpoff } : Comp) :=
      WF_of_same_bibs c _ hb (List.Perm.refl _) h
    rw [rankj_bibs _ hwf]; exact hb
  · exact hb

theorem rank_bibs (c0 : Comp) (h : WF c0) : (rank c0).jumpers.map (·.bib) = c0.jumpers.map (·.bib) := by
  have hw := rankj_WF c0 h
  have hb := rankj_bibs c0 h
  unfold rank
  simp only
  split
  · exact hb
  · split
    · split
      · rw [rankTie_bibs _ hw]; exact hb
      · unfold rankLeader
        split
        · next j0 _ =>
          split
          · have hwf : WF ((rankj c0).update (reinstate j0)) := WF_of_same_bibs _ _ (update_bibs _ _) (List.Perm.refl _) hw
            rw [rankj_bibs _ hwf, update_bibs]; exact hb
          · exact hb
        · exact hb
    · unfold rankOneLeft; split <;> exact hb
    · exact hb

theorem step_LogBibs (c : Comp) (op : Op) (hw : WF c) (h : LogBibs c) : LogBibs (step c op).1 := by
  cases op with
  | add b =>
    rw [step_add]
    split
    · intro b' t hm
      simp only [addResult, List.mem_append, List.mem_singleton, List.map_append] at hm ⊢
      rcases hm with hm | hm
      · exact Or.inl (h b' t hm)
      · cases hm
    · exact h
  | bar x =>
    rw [step_bar]
    split
    · intro b' t hm
      simp only [barResult, List.mem_append, List.mem_singleton, List.map_map] at hm ⊢
      rcases hm with hm | hm
      · have := h b' t hm
        obtain ⟨j, hj, hjb⟩ := List.mem_map.1 this
        refine List.mem_map.2 ⟨j, hj, ?_⟩
        simp only [Function.comp_apply]
        split <;> exact hjb
      · cases hm
    · exact h
  | trial b t =>
    rcases step_trial c b t with ⟨j, j', hfd, _, _, _, hs⟩ | ⟨h1, _⟩
    · rw [hs]
      show LogBibs (rank (logTrial c b t j'))
      have hwl : WF (logTrial c b t j') := WF_of_same_bibs c (logTrial c b t j') (by simp [update_bibs]) (List.Perm.refl _) hw
      intro b' t' hm
      rw [rank_bibs _ hwl]
      rw [(rank_frame _).1.1] at hm
      simp only [logTrial_log, List.mem_append, List.mem_singleton, logTrial_jumpers, update_bibs] at hm ⊢
      rcases hm with hm | hm
      · exact h b' t' hm
      · injection hm with e1 e2
        subst e1
        obtain ⟨hmj, hb⟩ := find_some_mem c b' j hfd
        exact List.mem_map.2 ⟨j, hmj, hb⟩
    · rw [h1]; exact h

def CardBibRel (j j' : Jumper) : Prop := j'.card = j.card ∧ j'.bib = j.bib

theorem cardBib_stable : RankStable CardBibRel where
  refl := fun _ => ⟨rfl, rfl⟩
  trans := fun _ _ _ h1 h2 => ⟨h2.1.trans h1.1, h2.2.trans h1.2⟩
  place := fun _ _ => ⟨rfl, rfl⟩
  reinst := fun _ => ⟨rfl, rfl⟩

theorem step_CardLog (c : Comp) (op : Op) (hw : WF c) (hf : AllFlags c) (hl : LogBibs c) (h : CardLog c) : CardLog (step c op).1 := by
  cases op with
  | add b =>
    rw [step_add]
    split
    · next hc =>
      intro j hj
      simp only [addResult, List.mem_append, List.mem_singleton] at hj ⊢
      rw [marksOf_append]
      have hno : marksOf j.bib [Op.add b] = [] := by simp [marksOf]
      rw [hno, List.append_nil]
      rcases hj with hj | rfl
      · exact h j hj
      · -- a new athlete: nothing on the card, and no trial of this bib in the log so far
        simp only [List.flatten_nil]
        -- every trial in the log belongs to a registered bib; b is not registered
        symm
        apply marksOf_nil_of_absent
        intro t ht
        exact find_none_not_mem c b hc.2 (hl b t ht)
    · exact h
  | bar x =>
    rw [step_bar]
    split
    · intro j' hj'
      simp only [barResult] at hj' ⊢
      obtain ⟨j, hj, rfl⟩ := List.mem_map.1 hj'
      rw [marksOf_append]
      have hno : ∀ b, marksOf b [Op.bar x] = [] := fun b => by simp [marksOf]
      split
      · simp only [hno, List.append_nil]; exact h j hj
      · simp only [hno, List.append_nil]; exact h j hj
    · exact h
  | trial b t =>
    rcases step_trial c b t with ⟨j, j', hfd, _, hne, hact, hs⟩ | ⟨h1, _⟩
    · rw [hs]
      show CardLog (rank (logTrial c b t j'))
      have hwl : WF (logTrial c b t j') := WF_of_same_bibs c (logTrial c b t j') (by simp [update_bibs]) (List.Perm.refl _) hw
      obtain ⟨hm, hb⟩ := find_some_mem c b j hfd
      have hbl : CardLog (logTrial c b t j') := by
        intro k' hk'
        simp only [logTrial_jumpers, Comp.update] at hk'
        obtain ⟨k, hk, rfl⟩ := List.mem_map.1 hk'
        simp only [logTrial_log, marksOf_append]
        have hj'b : j'.bib = b := by rw [act_core j j' _ _ t hact, actCore_bib, hb]
        split
        · -- the athlete who jumped
          rw [hj'b]
          have hone : marksOf b [Op.trial b t] = [t] := by simp [marksOf]
          rw [hone, act_core j j' _ _ t hact]
          have hp : 0 < c.heights.length := List.length_pos_iff.2 hne
          have hplen : (padCard j.card c.heights.length).length = c.heights.length := by
            rw [padCard_length]; have := (hf j hm).len; omega
          have hpne : padCard j.card c.heights.length ≠ [] := by
            intro e; rw [e] at hplen; simp at hplen; omega
          have hcard : (j.actCore c.heights.length (c.heights.getLast?.getD 0) t).card =
              appendLast (padCard j.card c.heights.length) t := by
            cases t <;> simp only [Jumper.actCore] <;> (try split) <;> rfl
          rw [hcard, flatten_appendLast _ t hpne, flatten_padCard, h j hm, hb]
        · next hne' =>
          have hkb : k.bib ≠ b := by rw [← hj'b]; simpa using hne'
          have hnone : marksOf k.bib [Op.trial b t] = [] := by
            simp only [marksOf, List.filterMap_cons, List.filterMap_nil]
            have : (b == k.bib) = false := by simpa using fun e => hkb e.symm
            simp [this]
          rw [hnone, List.append_nil]
          exact h k hk
      intro k' hk'
      obtain ⟨k, hk, hr⟩ := rank_relG cardBib_stable _ hwl k' hk'
      rw [(rank_frame _).1.1, hr.1, hr.2]
      exact hbl k hk
    · rw [h1]; exact h

end AthlibVerif.HJ
