/-! first-match classification over families that never overlap (or overlap only with equal labels)
    does not depend on the order of the families -/
namespace AthlibVerif

def classify {α σ : Type} (fams : List (α × (σ → Bool))) (s : σ) : Option α :=
  (fams.find? (fun f => f.2 s)).map (·.1)

theorem classify_of_mem {α σ : Type} (fams : List (α × (σ → Bool))) (s : σ)
    (hdisj : ∀ f ∈ fams, ∀ g ∈ fams, f.2 s = true → g.2 s = true → f.1 = g.1)
    (f : α × (σ → Bool)) (hf : f ∈ fams) (hs : f.2 s = true) : classify fams s = some f.1 := by
  unfold classify
  cases h : fams.find? (fun f => f.2 s) with
  | none =>
    have := List.find?_eq_none.1 h f hf
    simp [hs] at this
  | some g =>
    have hg := List.mem_of_find?_eq_some h
    have hgs : g.2 s = true := by simpa using List.find?_some h
    simp [hdisj g hg f hf hgs hs]

theorem classify_none {α σ : Type} (fams : List (α × (σ → Bool))) (s : σ)
    (h : ∀ f ∈ fams, f.2 s = false) : classify fams s = none := by
  unfold classify
  rw [List.find?_eq_none.2]
  · rfl
  · intro f hf; simp [h f hf]

/-- order independence: any two lists with the same members classify alike -/
theorem classify_order_free {α σ : Type} (fams fams' : List (α × (σ → Bool))) (s : σ)
    (hdisj : ∀ f ∈ fams, ∀ g ∈ fams, f.2 s = true → g.2 s = true → f.1 = g.1)
    (hsame : ∀ f, f ∈ fams ↔ f ∈ fams') : classify fams s = classify fams' s := by
  by_cases h : ∃ f ∈ fams, f.2 s = true
  · obtain ⟨f, hf, hs⟩ := h
    rw [classify_of_mem fams s hdisj f hf hs]
    rw [classify_of_mem fams' s (fun a ha b hb => hdisj a ((hsame a).2 ha) b ((hsame b).2 hb)) f ((hsame f).1 hf) hs]
  · have hn : ∀ f ∈ fams, f.2 s = false := by
      intro f hf
      cases hfs : f.2 s with
      | false => rfl
      | true => exact absurd ⟨f, hf, hfs⟩ h
    rw [classify_none fams s hn, classify_none fams' s (fun f hf => hn f ((hsame f).2 hf))]

end AthlibVerif
