import AthlibVerif.Lemmas.Winner
import AthlibVerif.Lemmas.Consec
/-!
# Attempts per height: three, one in a jump-off

`Jumper.roundLim` is the number the acceptance test of a trial compares the open cell with
(`_set_jump_array`: `len(atts[-1]) > round_lim - 1`).  The invariant `LimInv` says what that number is in every
reachable state: three for everybody while the competition is scheduled, started or won; one for everybody who
is still in while a jump-off runs; never anything but one or three.
-/
namespace AthlibVerif.HJ
open AthlibVerif.Ranking

structure LimInv (c : Comp) : Prop where
  jumpoff : c.phase = .jumpoff → ∀ j ∈ c.jumpers, j.eliminated = false → j.roundLim = 1
  regular : (c.phase = .scheduled ∨ c.phase = .started ∨ c.phase = .won) → ∀ j ∈ c.jumpers, j.roundLim = 3
  either : ∀ j ∈ c.jumpers, j.roundLim = 1 ∨ j.roundLim = 3

theorem LimInv_init : LimInv {} := ⟨fun h => (by cases h), fun _ j hj => (by cases hj), fun j hj => (by cases hj)⟩

theorem actCore_roundLim (j : Jumper) (hc : Nat) (h : Int) (t : Trial) : (j.actCore hc h t).roundLim = j.roundLim := by
  cases t <;> simp only [Jumper.actCore] <;> (try split) <;> rfl

theorem all_out_of_filter (l : List Jumper) (h : l.filter (fun j => !j.eliminated) = []) :
    ∀ k ∈ l, k.eliminated = true := by
  intro k hk
  have := List.filter_eq_nil_iff.1 h k hk
  simpa using this

theorem rankj_LimInv (c : Comp) (hw : WF c) (h : LimInv c) : LimInv (rankj c) := by
  have hp : (rankj c).phase = c.phase := (rankj_frame c).2.2.1
  have hj := rankj_jumpers c hw
  refine ⟨fun hq k hk he => ?_, fun hq k hk => ?_, fun k hk => ?_⟩
  · rw [hp] at hq; rw [hj] at hk
    obtain ⟨x, hx, rfl⟩ := List.mem_map.1 hk
    exact h.jumpoff hq x hx he
  · rw [hp] at hq; rw [hj] at hk
    obtain ⟨x, hx, rfl⟩ := List.mem_map.1 hk
    exact h.regular hq x hx
  · rw [hj] at hk
    obtain ⟨x, hx, rfl⟩ := List.mem_map.1 hk
    exact h.either x hx

/-- what `_rank` does after `_rankj` keeps the invariant -/
theorem rankTail_LimInv (cr : Comp) (hw : WF cr) (h : LimInv cr) : LimInv (rankTail cr) := by
  unfold rankTail
  split
  · exact h
  · next r0 rest _ =>
    split
    · next hfl =>
      have hall := all_out_of_filter _ hfl
      split
      · -- tie for first: jump-off or drawn
        unfold rankTie
        simp only
        have hb : (cr.jumpers.map (fun (j : Jumper) => if reinstated cr j then reinstate j else j)).map (·.bib) = cr.jumpers.map (·.bib) := by
          rw [List.map_map]
          apply List.map_congr_left
          intro k _
          simp only [Function.comp_apply]
          split <;> rfl
        have hei : ∀ k ∈ cr.jumpers.map (fun (j : Jumper) => if reinstated cr j then reinstate j else j),
            k.roundLim = 1 ∨ k.roundLim = 3 := by
          intro k hk
          obtain ⟨x, hx, rfl⟩ := List.mem_map.1 hk
          split
          · exact Or.inl rfl
          · exact h.either x hx
        split
        · apply rankj_LimInv
          · exact WF_of_same_bibs cr _ hb (List.Perm.refl _) hw
          · refine ⟨fun _ k hk he => ?_, fun hq => ?_, hei⟩
            · simp only at hk
              obtain ⟨x, hx, rfl⟩ := List.mem_map.1 hk
              split
              · rfl
              · next hn => rw [if_neg hn] at he; rw [hall x hx] at he; cases he
            · simp only at hq; rcases hq with e | e | e <;> cases e
        · exact ⟨fun hq => (by cases hq), fun hq => (by rcases hq with e | e | e <;> cases e), hei⟩
      · -- a single leader
        unfold rankLeader
        split
        · next j0 hj0 =>
          split
          · next hc =>
            have hjo : cr.phase = .jumpoff := by
              simp only [Bool.and_eq_true, beq_iff_eq] at hc; exact hc.1
            apply rankj_LimInv
            · exact WF_of_same_bibs cr _ (update_bibs cr _) (List.Perm.refl _) hw
            · refine ⟨fun _ k hk he => ?_, fun hq => ?_, fun k hk => ?_⟩
              · rcases mem_update_cases cr _ k hk with e | e
                · rw [e]; rfl
                · rw [hall k e] at he; cases he
              · have : (cr.update (reinstate j0)).phase = cr.phase := rfl
                rw [this, hjo] at hq; rcases hq with e | e | e <;> cases e
              · rcases mem_update_cases cr _ k hk with e | e
                · rw [e]; exact Or.inl rfl
                · exact h.either k e
          · exact ⟨fun hq => (by cases hq), fun hq => (by rcases hq with e | e | e <;> cases e), h.either⟩
        · exact h
    · -- one athlete left
      unfold rankOneLeft
      split
      · refine ⟨fun hq => ?_, fun hq k hk => ?_, h.either⟩
        · simp only at hq; split at hq <;> cases hq
        · simp only at hq
          split at hq
          · next hc =>
            simp only [Bool.or_eq_true, beq_iff_eq] at hc
            exact h.regular (Or.inr hc) k hk
          · rcases hq with e | e | e <;> cases e
      · exact h
    · exact h

theorem step_LimInv (c : Comp) (op : Op) (hw : WF c) (h : LimInv c) : LimInv (step c op).1 := by
  cases op with
  | add b =>
    rw [step_add]
    split
    · next hc =>
      have hmem : ∀ k ∈ (addResult c b).jumpers, k ∈ c.jumpers ∨ k.roundLim = 3 := by
        intro k hk
        simp only [addResult, List.mem_append, List.mem_singleton] at hk
        rcases hk with e | e
        · exact Or.inl e
        · rw [e]; exact Or.inr rfl
      have hph : (addResult c b).phase = .scheduled := hc.1
      refine ⟨fun hq => (by rw [hph] at hq; cases hq), fun _ k hk => ?_, fun k hk => ?_⟩
      · rcases hmem k hk with e | e
        · exact h.regular (Or.inl hc.1) k e
        · exact e
      · rcases hmem k hk with e | e
        · exact h.either k e
        · exact Or.inr e
    · exact h
  | bar x =>
    rw [step_bar]
    split
    · have hmem : ∀ k ∈ (barResult c x).jumpers, ∃ k0 ∈ c.jumpers, k.roundLim = k0.roundLim ∧ k.eliminated = k0.eliminated := by
        intro k hk
        simp only [barResult] at hk
        obtain ⟨k0, hk0, rfl⟩ := List.mem_map.1 hk
        exact ⟨k0, hk0, by split <;> exact ⟨rfl, rfl⟩⟩
      refine ⟨fun hq k hk he => ?_, fun hq k hk => ?_, fun k hk => ?_⟩
      · obtain ⟨k0, hk0, e1, e2⟩ := hmem k hk
        rw [e1]; rw [e2] at he
        apply h.jumpoff _ k0 hk0 he
        simp only [barResult] at hq
        split at hq
        · cases hq
        · exact hq
      · obtain ⟨k0, hk0, e1, _⟩ := hmem k hk
        rw [e1]
        apply h.regular _ k0 hk0
        simp only [barResult] at hq
        split at hq
        · next hs => exact Or.inl hs
        · exact hq
      · obtain ⟨k0, hk0, e1, _⟩ := hmem k hk
        rw [e1]; exact h.either k0 hk0
    · exact h
  | trial b t =>
    rcases step_trial c b t with ⟨j, j', hfd, _, _, hact, hs⟩ | ⟨h1, _⟩
    · rw [hs]
      show LimInv (rank (logTrial c b t j'))
      obtain ⟨he, _, _⟩ := act_some j j' _ _ t hact
      obtain ⟨hmj, _⟩ := find_some_mem c b j hfd
      have hjl : j'.roundLim = j.roundLim := by rw [act_core j j' _ _ t hact, actCore_roundLim]
      have hwL : WF (logTrial c b t j') :=
        WF_of_same_bibs c (logTrial c b t j') (by simp [update_bibs]) (List.Perm.refl _) hw
      have hL : LimInv (logTrial c b t j') := by
        have hph : (logTrial c b t j').phase = c.phase := rfl
        have hmem : ∀ k ∈ (logTrial c b t j').jumpers, k = j' ∨ k ∈ c.jumpers := fun k hk =>
          mem_update_cases c j' k (by simpa using hk)
        refine ⟨fun hq k hk hke => ?_, fun hq k hk => ?_, fun k hk => ?_⟩
        · rw [hph] at hq
          rcases hmem k hk with e | e
          · rw [e, hjl]; exact h.jumpoff hq j hmj he
          · exact h.jumpoff hq k e hke
        · rw [hph] at hq
          rcases hmem k hk with e | e
          · rw [e, hjl]; exact h.regular hq j hmj
          · exact h.regular hq k e
        · rcases hmem k hk with e | e
          · rw [e, hjl]; exact h.either j hmj
          · exact h.either k e
      rw [rank_eq_tail]
      exact rankTail_LimInv _ (rankj_WF _ hwL) (rankj_LimInv _ hwL hL)
    · rw [h1]; exact h

/-! ## who comes back after being out -/

/-- record by record: the same athlete, either with the flags and limit of before or back in with a single attempt -/
def BackRel (k k' : Jumper) : Prop :=
  k'.bib = k.bib ∧ ((k'.eliminated = k.eliminated ∧ k'.roundLim = k.roundLim) ∨ (k'.roundLim = 1 ∧ k'.eliminated = false))

theorem backRel_stable : RankStable BackRel where
  refl := fun j => ⟨rfl, Or.inl ⟨rfl, rfl⟩⟩
  trans := by
    intro a b c ⟨hb1, h1⟩ ⟨hb2, h2⟩
    refine ⟨hb2.trans hb1, ?_⟩
    rcases h2 with ⟨e1, e2⟩ | h2
    · rcases h1 with ⟨f1, f2⟩ | ⟨f1, f2⟩
      · exact Or.inl ⟨e1.trans f1, e2.trans f2⟩
      · exact Or.inr ⟨e2.trans f1, e1.trans f2⟩
    · exact Or.inr h2
  place := fun j p => ⟨rfl, Or.inl ⟨rfl, rfl⟩⟩
  reinst := fun j => ⟨rfl, Or.inr ⟨rfl, rfl⟩⟩

theorem same_bib_eq (c : Comp) (hw : WF c) (a b : Jumper) (ha : a ∈ c.jumpers) (hb : b ∈ c.jumpers) (h : a.bib = b.bib) : a = b := by
  have h1 := find_of_mem c hw.1 a ha
  have h2 := find_of_mem c hw.1 b hb
  rw [h] at h1
  rw [h1] at h2
  exact Option.some.inj h2

theorem find_none_bib (c : Comp) (b : Nat) (h : c.find b = none) : ∀ k ∈ c.jumpers, k.bib ≠ b := by
  intro k hk hb
  unfold Comp.find at h
  have := List.find?_eq_none.1 h k hk
  simp [hb] at this

/-- **Whoever comes back after being out comes back with a single attempt per height**: an athlete who was out before
    a call and is in after it has attempt limit 1 (and, with `LimInv`, the competition is then not in its regular
    phases). -/
theorem step_back (c : Comp) (op : Op) (hw : WF c) (j j' : Jumper) (hj : j ∈ c.jumpers)
    (hj' : j' ∈ (step c op).1.jumpers) (hb : j'.bib = j.bib) (he : j.eliminated = true) (he' : j'.eliminated = false) :
    j'.roundLim = 1 := by
  cases op with
  | add b =>
    rw [step_add] at hj'
    split at hj'
    · next hc =>
      exfalso
      simp only [addResult, List.mem_append, List.mem_singleton] at hj'
      rcases hj' with h | h
      · have := same_bib_eq c hw j' j h hj hb
        rw [this, he] at he'; cases he'
      · have : j'.bib = b := by rw [h]
        exact find_none_bib c b hc.2 j hj (by rw [← hb, this])
    · have := same_bib_eq c hw j' j hj' hj hb
      rw [this, he] at he'; cases he'
  | bar x =>
    rw [step_bar] at hj'
    split at hj'
    · exfalso
      simp only [barResult] at hj'
      obtain ⟨k, hk, rfl⟩ := List.mem_map.1 hj'
      have hkb : k.bib = j.bib := by rw [← hb]; split <;> rfl
      have hkj := same_bib_eq c hw k j hk hj hkb
      subst hkj
      simp [he] at he'
    · have := same_bib_eq c hw j' j hj' hj hb
      rw [this, he] at he'; cases he'
  | trial b t =>
    rcases step_trial c b t with ⟨ja, ja', hfd, _, _, hact, hs⟩ | ⟨h1, _⟩
    · rw [hs] at hj'
      change j' ∈ (rank (logTrial c b t ja')).jumpers at hj'
      obtain ⟨hea, _, _⟩ := act_some ja ja' _ _ t hact
      obtain ⟨hma, hba⟩ := find_some_mem c b ja hfd
      have hwL : WF (logTrial c b t ja') :=
        WF_of_same_bibs c (logTrial c b t ja') (by simp [update_bibs]) (List.Perm.refl _) hw
      obtain ⟨k, hk, hkb, hrel⟩ := rank_relG backRel_stable (logTrial c b t ja') hwL j' hj'
      -- k is j itself: the actor was not out, so j is another record and was left alone by the update
      have hkm : k = ja' ∨ k ∈ c.jumpers := mem_update_cases c ja' k (by simpa using hk)
      have hkj : k = j := by
        rcases hkm with e | e
        · exfalso
          have hjab : ja'.bib = ja.bib := by rw [act_core ja ja' _ _ t hact, actCore_bib]
          have : j = ja := same_bib_eq c hw j ja hj hma (by rw [← hb, hkb, e, hjab])
          rw [this, hea] at he; cases he
        · exact same_bib_eq c hw k j e hj (by rw [← hkb, hb])
      subst hkj
      rcases hrel with ⟨e1, _⟩ | ⟨e1, _⟩
      · rw [e1, he] at he'; cases he'
      · exact e1
    · rw [h1] at hj'
      have := same_bib_eq c hw j' j hj' hj hb
      rw [this, he] at he'; cases he'

/-- after the tail of `_rank`: either a jump-off is on, or every record has the bib and the in / out flag of a record of before -/
def TailKeeps (cr c' : Comp) : Prop :=
  c'.phase = .jumpoff ∨ ∀ k' ∈ c'.jumpers, ∃ k ∈ cr.jumpers, k'.bib = k.bib ∧ k'.eliminated = k.eliminated

theorem tailKeeps_same (cr c' : Comp) (h : c'.jumpers = cr.jumpers) : TailKeeps cr c' :=
  Or.inr (fun k' hk' => ⟨k', h ▸ hk', rfl, rfl⟩)

theorem rankTail_keeps (cr : Comp) : TailKeeps cr (rankTail cr) := by
  unfold rankTail
  split
  · exact tailKeeps_same cr cr rfl
  · split
    · split
      · unfold rankTie
        simp only
        split
        · exact Or.inl (by rw [(rankj_frame _).2.2.1])
        · next hn =>
          have h0 : (cr.jumpers.filter (reinstated cr)).length = 0 := by omega
          exact tailKeeps_same cr _ (map_if_none cr.jumpers (reinstated cr) reinstate h0)
      · unfold rankLeader
        split
        · split
          · next hc =>
            refine Or.inl ?_
            rw [(rankj_frame _).2.2.1]
            simp only [Bool.and_eq_true, beq_iff_eq] at hc
            exact hc.1
          · exact tailKeeps_same cr _ rfl
        · exact tailKeeps_same cr cr rfl
    · unfold rankOneLeft
      split
      · exact tailKeeps_same cr _ rfl
      · exact tailKeeps_same cr cr rfl
    · exact tailKeeps_same cr cr rfl

theorem rankTail_back (cr : Comp) (hw : WF cr) (k k' : Jumper) (hk : k ∈ cr.jumpers) (hk' : k' ∈ (rankTail cr).jumpers)
    (hb : k'.bib = k.bib) (he : k.eliminated = true) (he' : k'.eliminated = false) : (rankTail cr).phase = .jumpoff := by
  rcases rankTail_keeps cr with h | h
  · exact h
  · exfalso
    obtain ⟨k2, hk2, hb2, he2⟩ := h k' hk'
    have := same_bib_eq cr hw k2 k hk2 hk (by rw [← hb2, hb])
    rw [this, he] at he2
    rw [he2] at he'; cases he'

/-- **Whoever comes back after being out comes back into a jump-off** -/
theorem step_back_phase (c : Comp) (op : Op) (hw : WF c) (j j' : Jumper) (hj : j ∈ c.jumpers)
    (hj' : j' ∈ (step c op).1.jumpers) (hb : j'.bib = j.bib) (he : j.eliminated = true) (he' : j'.eliminated = false) :
    (step c op).1.phase = .jumpoff := by
  cases op with
  | add b =>
    exfalso
    rw [step_add] at hj'
    split at hj'
    · next hc =>
      simp only [addResult, List.mem_append, List.mem_singleton] at hj'
      rcases hj' with h | h
      · have := same_bib_eq c hw j' j h hj hb
        rw [this, he] at he'; cases he'
      · have : j'.bib = b := by rw [h]
        exact find_none_bib c b hc.2 j hj (by rw [← hb, this])
    · have := same_bib_eq c hw j' j hj' hj hb
      rw [this, he] at he'; cases he'
  | bar x =>
    exfalso
    rw [step_bar] at hj'
    split at hj'
    · simp only [barResult] at hj'
      obtain ⟨k, hk, rfl⟩ := List.mem_map.1 hj'
      have hkb : k.bib = j.bib := by rw [← hb]; split <;> rfl
      have hkj := same_bib_eq c hw k j hk hj hkb
      subst hkj
      simp [he] at he'
    · have := same_bib_eq c hw j' j hj' hj hb
      rw [this, he] at he'; cases he'
  | trial b t =>
    rcases step_trial c b t with ⟨ja, ja', hfd, _, _, hact, hs⟩ | ⟨h1, _⟩
    · rw [hs] at hj' ⊢
      change j' ∈ (rank (logTrial c b t ja')).jumpers at hj'
      show (rank (logTrial c b t ja')).phase = .jumpoff
      obtain ⟨hea, _, _⟩ := act_some ja ja' _ _ t hact
      obtain ⟨hma, hba⟩ := find_some_mem c b ja hfd
      have hwL : WF (logTrial c b t ja') :=
        WF_of_same_bibs c (logTrial c b t ja') (by simp [update_bibs]) (List.Perm.refl _) hw
      have hwR := rankj_WF _ hwL
      rw [rank_eq_tail] at hj' ⊢
      -- the record of j in the ranked state: j itself (the actor was not out), with another place
      have hjne : j ≠ ja := fun e => by rw [e, hea] at he; cases he
      have hjL : j ∈ (logTrial c b t ja').jumpers := by
        show j ∈ (c.update ja').jumpers
        unfold Comp.update
        refine List.mem_map.2 ⟨j, hj, ?_⟩
        have hjab : ja'.bib = ja.bib := by rw [act_core ja ja' _ _ t hact, actCore_bib]
        have : ¬ (j.bib == ja'.bib) = true := by
          intro e
          have e' : j.bib = ja.bib := by rw [← hjab]; simpa using e
          exact hjne (same_bib_eq c hw j ja hj hma e')
        simp [this]
      have hjR : ({ j with place := 1 + ((logTrial c b t ja').jumpers.filter (fun k => Key.lt k.key j.key)).length } : Jumper) ∈ (rankj (logTrial c b t ja')).jumpers := by
        rw [rankj_jumpers _ hwL]
        exact List.mem_map.2 ⟨j, hjL, rfl⟩
      exact rankTail_back _ hwR _ j' hjR hj' hb he he'
    · exfalso
      rw [h1] at hj'
      have := same_bib_eq c hw j' j hj' hj hb
      rw [this, he] at he'; cases he'

end AthlibVerif.HJ
