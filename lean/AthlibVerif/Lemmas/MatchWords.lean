import AthlibVerif.Lemmas.MatchCodes
/-!
# From symbol words back to characters

The regular-expression theorems speak about words over the generated symbol alphabet; the transcription of
`discipline_sort_key` compares characters (`"MILE"`, the entries of `FIELD_SORT_ORDER`).  A symbol that stands
for exactly one code point (`singletonSym`, decided on the regenerated alphabet) lets a symbol-level fact be read
back as a fact about the character.
-/
namespace AthlibVerif
namespace Codes
open RE GRE

/-- the symbol of `c` stands for the code point of `c` and nothing else -/
def singletonSym (c : Char) : Bool :=
  symOf c != 0 && Gen.symTable.all (fun e => e.2.2 != symOf c || (e.1 == c.toNat && e.2.1 == c.toNat))

theorem eq_of_symOf_eq (c : Char) (h : singletonSym c = true) (x : Char) (hx : symOf x = symOf c) : x = c := by
  simp only [singletonSym, Bool.and_eq_true, bne_iff_ne, ne_eq, List.all_eq_true, Bool.or_eq_true,
    beq_iff_eq] at h
  obtain ⟨h0, hall⟩ := h
  generalize symOf c = k at h0 hall hx
  unfold symOf symOfNat at hx
  split at hx
  · next e he =>
    have hmem := List.mem_of_find?_eq_some he
    have hin := List.find?_some he
    simp only [Bool.and_eq_true, decide_eq_true_eq] at hin
    rcases hall e hmem with h1 | h1
    · exact (h1 hx).elim
    · exact Char.toNat_inj.1 (by omega)
  · exact (h0 hx.symm).elim

/-- the class holding exactly the symbol of `c` -/
def charCls (c : Char) : RE := .cls (2 ^ symOf c)
/-- the class holding the symbols of `c` and of its lower-case form -/
def ciCls (c : Char) : RE := .cls (2 ^ symOf c ||| 2 ^ symOf (lowerC c))
def wordRE : List Char → RE
  | [] => .eps
  | c :: cs => .cat (charCls c) (wordRE cs)
def ciWord : List Char → RE
  | [] => .eps
  | c :: cs => .cat (ciCls c) (ciWord cs)

theorem symsOf_eq_cons {t : Str} {x : Nat} {v : List Nat} (h : symsOf t = [x] ++ v) :
    ∃ a t', t = a :: t' ∧ symOf a = x ∧ symsOf t' = v := by
  unfold symsOf at h
  exact List.map_eq_cons_iff.1 h

/-- a string whose symbols spell `cs` (all singleton symbols) IS `cs` -/
theorem lang_wordRE (cs : List Char) (hs : ∀ c ∈ cs, singletonSym c = true) :
    ∀ t : Str, RE.lang (wordRE cs) (symsOf t) → t = cs := by
  induction cs with
  | nil => intro t h; simp only [wordRE, RE.lang] at h; cases t <;> simp_all [symsOf]
  | cons c cs ih =>
    intro t h
    simp only [wordRE, charCls, RE.lang] at h
    obtain ⟨u, v, huv, ⟨x, rfl, hx⟩, hv⟩ := h
    obtain ⟨a, t', rfl, ha, ht'⟩ := symsOf_eq_cons huv
    rw [Nat.testBit_two_pow] at hx
    have hxc : symOf a = symOf c := by rw [ha]; exact (of_decide_eq_true hx).symm
    rw [eq_of_symOf_eq c (hs c List.mem_cons_self) a hxc,
      ih (fun c' hc' => hs c' (List.mem_cons_of_mem _ hc')) t' (by rw [ht']; exact hv)]

/-- the 26 capital letters -/
def capitals : List Char := "ABCDEFGHIJKLMNOPQRSTUVWXYZ".toList

theorem capitals_upper : ∀ c ∈ capitals, upperC c = c ∧ upperC (lowerC c) = c := by decide

/-- a string whose symbols spell the capitals `w` up to letter case upper-cases to `w` -/
theorem lang_ciWord (w : List Char)
    (hw : ∀ c ∈ w, c ∈ capitals ∧ singletonSym c = true ∧ singletonSym (lowerC c) = true) :
    ∀ t : Str, RE.lang (ciWord w) (symsOf t) → upper t = w := by
  induction w with
  | nil => intro t h; simp only [ciWord, RE.lang] at h; cases t <;> simp_all [symsOf, upper]
  | cons c cs ih =>
    intro t h
    simp only [ciWord, ciCls, RE.lang] at h
    obtain ⟨u, v, huv, ⟨x, rfl, hx⟩, hv⟩ := h
    obtain ⟨a, t', rfl, ha, ht'⟩ := symsOf_eq_cons huv
    obtain ⟨hcap, hs1, hs2⟩ := hw c List.mem_cons_self
    rw [Nat.testBit_or, Nat.testBit_two_pow, Nat.testBit_two_pow, Bool.or_eq_true] at hx
    have hup : upperC a = c := by
      rcases hx with hx | hx
      · rw [eq_of_symOf_eq c hs1 a (by rw [ha]; exact (of_decide_eq_true hx).symm)]
        exact (capitals_upper c hcap).1
      · rw [eq_of_symOf_eq (lowerC c) hs2 a (by rw [ha]; exact (of_decide_eq_true hx).symm)]
        exact (capitals_upper c hcap).2
    have := ih (fun c' hc' => hw c' (List.mem_cons_of_mem _ hc')) t' (by rw [ht']; exact hv)
    simp only [upper, List.map_cons] at this ⊢
    rw [hup, this]

/-- splitting a string along a split of its symbol word -/
theorem symsOf_eq_append {t : Str} {u v : List Nat} (h : symsOf t = u ++ v) :
    ∃ t1 t2, t = t1 ++ t2 ∧ symsOf t1 = u ∧ symsOf t2 = v := by
  unfold symsOf at h
  exact List.map_eq_append_iff.1 h

theorem pyInt_of_digits (hT : digitTableOK = true) (t : Str) (hne : t ≠ []) (h : ∀ c ∈ t, isDigitU c = true) :
    ∃ n, pyInt t = .ok n := by
  have hne' : t.isEmpty = false := by cases t <;> simp_all
  obtain ⟨n, hn⟩ := foldl_digits t (fun c hc => digitVal_isSome hT c (h c hc)) 0
  exact ⟨n, by unfold pyInt; simp only [hne', Bool.false_eq_true, if_false, hn]⟩

theorem digits_of_plusCls (t : Str) (h : RE.lang (plusCls Gen.digitMask) (symsOf t)) :
    t ≠ [] ∧ ∀ c ∈ t, isDigitU c = true := by
  obtain ⟨hne, hall⟩ := lang_plusCls _ _ h
  refine ⟨by intro h0; subst h0; exact hne rfl, ?_⟩
  intro c hc
  unfold isDigitU
  exact hall (symOf c) (by simp only [symsOf, List.mem_map]; exact ⟨c, hc, rfl⟩)

end Codes
end AthlibVerif

namespace AthlibVerif
namespace Codes
open RE GRE

/-! ## the metres group of the track pattern: `\d+`, `MILE`, or one digit and `MILE` -/

def mileWord : List Char := "MILE".toList

def metresShape : RE :=
  .alt (plusCls Gen.digitMask) (.cat (.alt .eps (.cls Gen.digitMask)) (wordRE mileWord))

/-- decided on the regenerated pattern and alphabet -/
def trackMetresOK : Bool :=
  mileWord.all singletonSym &&
  (grpBodies 1 (pat "PAT_TRACK")).all (fun b => noEol b &&
    RE.isEmptyLang Gen.nsym 100000 (RE.and (toRE [] b) (RE.not metresShape)))

theorem track_metres_shape (h : trackMetresOK = true) (d : Str) (tc : Caps) (g1 : Str)
    (hm : pyMatch "PAT_TRACK" d = some tc) (hg : group d tc 1 = some g1) :
    (g1 ≠ [] ∧ ∀ c ∈ g1, isDigitU c = true) ∨ g1 = mileWord ∨ ∃ c, isDigitU c = true ∧ g1 = c :: mileWord := by
  simp only [trackMetresOK, Bool.and_eq_true, List.all_eq_true] at h
  obtain ⟨hsing, hall⟩ := h
  have hne : (grpBodies 1 (pat "PAT_TRACK")).all noEol = true :=
    List.all_eq_true.2 (fun b hb => (hall b hb).1)
  obtain ⟨body, hb, hl⟩ := group_lang "PAT_TRACK" d tc hm 1 g1 hg hne
  have hsub := RE.subset_of_check Gen.nsym 100000 _ _ (hall body hb).2 _ (symsOf_inAlpha g1) hl
  simp only [metresShape, RE.lang] at hsub
  rcases hsub with hd | ⟨u, v, huv, hu, hv⟩
  · exact Or.inl (digits_of_plusCls g1 hd)
  · obtain ⟨t1, t2, rfl, ht1, ht2⟩ := symsOf_eq_append huv
    have e2 : t2 = mileWord := lang_wordRE mileWord hsing t2 (by rw [ht2]; exact hv)
    rcases hu with hu | ⟨x, hx, hxb⟩
    · subst hu
      have : t1 = [] := by cases t1 <;> simp_all [symsOf]
      subst this; exact Or.inr (Or.inl (by simpa using e2))
    · subst hx
      obtain ⟨a, t', rfl, ha, ht'⟩ := symsOf_eq_cons (v := []) (by simpa using ht1)
      have : t' = [] := by cases t' <;> simp_all [symsOf]
      subst this
      exact Or.inr (Or.inr ⟨a, by unfold isDigitU; rw [ha]; exact hxb, by simp [e2]⟩)

/-! ## field events: the code starts with an entry of `FIELD_SORT_ORDER`, up to letter case -/

/-- every character whose symbol is `k` (read off the interval table) -/
def symChars (k : Nat) : List Char :=
  (Gen.symTable.filter (fun e => e.2.2 == k)).flatMap
    (fun e => (List.range (e.2.1 - e.1 + 1)).map (fun i => Char.ofNat (e.1 + i)))

theorem mem_symChars (a : Char) (h : symOf a ≠ 0) : a ∈ symChars (symOf a) := by
  generalize hk : symOf a = k at h
  unfold symOf symOfNat at hk
  split at hk
  · next e he =>
    have hmem := List.mem_of_find?_eq_some he
    have hin := List.find?_some he
    simp only [Bool.and_eq_true, decide_eq_true_eq] at hin
    unfold symChars
    simp only [List.mem_flatMap, List.mem_filter, List.mem_map, List.mem_range]
    refine ⟨e, ⟨hmem, beq_iff_eq.2 hk⟩, a.toNat - e.1, by omega, ?_⟩
    have : e.1 + (a.toNat - e.1) = a.toNat := by omega
    rw [this]; exact Char.ofNat_toNat a
  · exact (h hk.symm).elim

/-- the symbols a character of a `FIELD_SORT_ORDER` entry may be spelt with: a capital also in lower case -/
def posSyms (c : Char) : List Nat := if capitals.contains c then [symOf c, symOf (lowerC c)] else [symOf c]
def maskOf (l : List Nat) : Nat := l.foldl (fun m k => m ||| 2 ^ k) 0
def posChars (c : Char) : List Char := (posSyms c).flatMap symChars

theorem testBit_foldl_or (l : List Nat) (m0 x : Nat) :
    (l.foldl (fun m k => m ||| 2 ^ k) m0).testBit x = (m0.testBit x || l.contains x) := by
  induction l generalizing m0 with
  | nil => simp
  | cons k ks ih =>
    simp only [List.foldl_cons, ih, Nat.testBit_or, Nat.testBit_two_pow, List.contains_cons]
    rw [Bool.or_assoc]
    congr 2
    by_cases h : k = x
    · subst h; simp
    · have h' : ¬ x = k := fun e => h e.symm
      simp [h, h']

theorem testBit_maskOf (l : List Nat) (x : Nat) : (maskOf l).testBit x = l.contains x := by
  unfold maskOf; rw [testBit_foldl_or]; simp

def ciWord' : List Char → RE
  | [] => .eps
  | c :: cs => .cat (.cls (maskOf (posSyms c))) (ciWord' cs)

/-- every string the entry `w` may be spelt as -/
def expand : List Char → List (List Char)
  | [] => [[]]
  | c :: cs => (posChars c).flatMap (fun a => (expand cs).map (a :: ·))

theorem expand_length (w : List Char) : ∀ t ∈ expand w, t.length = w.length := by
  induction w with
  | nil => intro t ht; simp [expand] at ht; subst ht; rfl
  | cons c cs ih =>
    intro t ht
    simp only [expand, List.mem_flatMap, List.mem_map] at ht
    obtain ⟨a, _, t', ht', rfl⟩ := ht
    simp [ih t' ht']

theorem lang_ciWord' (w : List Char) (hw : ∀ c ∈ w, ∀ k ∈ posSyms c, k ≠ 0) :
    ∀ t : Str, RE.lang (ciWord' w) (symsOf t) → t ∈ expand w := by
  induction w with
  | nil => intro t h; simp only [ciWord', RE.lang] at h; cases t <;> simp_all [symsOf, expand]
  | cons c cs ih =>
    intro t h
    simp only [ciWord', RE.lang] at h
    obtain ⟨u, v, huv, ⟨x, rfl, hx⟩, hv⟩ := h
    obtain ⟨a, t', rfl, ha, ht'⟩ := symsOf_eq_cons huv
    rw [testBit_maskOf] at hx
    have hx' : symOf a ∈ posSyms c := by rw [ha]; simpa using hx
    have ha0 : symOf a ≠ 0 := hw c List.mem_cons_self _ hx'
    have := ih (fun c' hc' => hw c' (List.mem_cons_of_mem _ hc')) t' (by rw [ht']; exact hv)
    simp only [expand, posChars, List.mem_flatMap, List.mem_map]
    exact ⟨a, ⟨symOf a, hx', mem_symChars a ha0⟩, t', this, rfl⟩

def anyStar : RE := .star (.cls (2 ^ (Gen.nsym + 1) - 1))

/-- the entries of `FIELD_SORT_ORDER` of the lengths the look-up tries -/
def fieldWords (long : Bool) : List (List Char) :=
  (Gen.FIELD_SORT_ORDER.map String.toList).filter
    (fun w => decide (2 ≤ w.length) && decide (w.length ≤ (if long then 4 else 3)))

def prefixUnion : List (List Char) → RE
  | [] => .empty
  | w :: ws => .alt (.cat (ciWord' w) anyStar) (prefixUnion ws)

/-- decided on the regenerated pattern, alphabet and `FIELD_SORT_ORDER`: every word of the language starts with
    a spelling of an entry (capitals in either case; other characters by their symbol), and every such spelling
    upper-cases to an entry -/
def fieldPrefixOK (long : Bool) (p : RE) : Bool :=
  (fieldWords long).all (fun w => w.all (fun c => (posSyms c).all (· != 0)) &&
    (expand w).all (fun t => (indexOf? Gen.FIELD_SORT_ORDER (upper t)).isSome)) &&
  RE.isEmptyLang Gen.nsym 100000 (RE.and p (RE.not (prefixUnion (fieldWords long))))

theorem lang_prefixUnion (ws : List (List Char)) (x : List Nat) (h : RE.lang (prefixUnion ws) x) :
    ∃ w ∈ ws, RE.lang (.cat (ciWord' w) anyStar) x := by
  induction ws with
  | nil => simp [prefixUnion, RE.lang] at h
  | cons w ws ih =>
    simp only [prefixUnion, RE.lang] at h
    rcases h with h | h
    · exact ⟨w, List.mem_cons_self, h⟩
    · obtain ⟨w', hw', hl⟩ := ih h; exact ⟨w', List.mem_cons_of_mem _ hw', hl⟩

/-- **the field-order look-up succeeds on every string of a language all of whose words start with a spelling of
    an entry of `FIELD_SORT_ORDER` (of a length the look-up tries)** -/
theorem fieldOrder_total (long : Bool) (p : RE) (h : fieldPrefixOK long p = true) (d : Str) (hd : Matches p d) :
    ∃ n, fieldOrder long d = .ok n := by
  simp only [fieldPrefixOK, Bool.and_eq_true, List.all_eq_true] at h
  obtain ⟨hwords, hsub⟩ := h
  have hl := RE.subset_of_check Gen.nsym 100000 _ _ hsub _ (symsOf_inAlpha d) hd
  obtain ⟨w, hw, hcat⟩ := lang_prefixUnion _ _ hl
  simp only [RE.lang] at hcat
  obtain ⟨u, v, huv, hu, _⟩ := hcat
  obtain ⟨d1, d2, rfl, hd1, _⟩ := symsOf_eq_append huv
  obtain ⟨hsyms, hexp⟩ := hwords w hw
  have hmem : d1 ∈ expand w := by
    apply lang_ciWord' w _ d1 (by rw [hd1]; exact hu)
    intro c hc k hk
    simpa using hsyms c hc k hk
  have hfound := hexp d1 hmem
  have hlen := expand_length w d1 hmem
  have hwf := hw
  simp only [fieldWords, List.mem_filter, Bool.and_eq_true, decide_eq_true_eq] at hwf
  obtain ⟨_, hlen2, hlen4⟩ := hwf
  have htake : (upper (d1 ++ d2)).take d1.length = upper d1 := by
    simp only [upper, List.map_append]
    rw [List.take_left']; simp
  rw [← htake] at hfound
  rw [← hlen] at hlen2 hlen4
  unfold fieldOrder
  simp only
  have hk : d1.length = 2 ∨ d1.length = 3 ∨ (d1.length = 4 ∧ long = true) := by
    clear htake hfound hmem hexp
    generalize d1.length = n at hlen2 hlen4 ⊢
    cases long
    · simp at hlen4
      rcases (by omega : n = 2 ∨ n = 3) with h | h
      · exact Or.inl h
      · exact Or.inr (Or.inl h)
    · simp at hlen4
      rcases (by omega : n = 2 ∨ n = 3 ∨ n = 4) with h | h | h
      · exact Or.inl h
      · exact Or.inr (Or.inl h)
      · exact Or.inr (Or.inr ⟨h, rfl⟩)
  rcases hk with hk | hk | ⟨hk, hlong⟩
  · rw [hk] at hfound
    obtain ⟨i, hi⟩ := Option.isSome_iff_exists.1 hfound
    split
    · exact ⟨_, rfl⟩
    · split
      · exact ⟨_, rfl⟩
      · rw [hi]; exact ⟨_, rfl⟩
  · rw [hk] at hfound
    obtain ⟨i, hi⟩ := Option.isSome_iff_exists.1 hfound
    split
    · exact ⟨_, rfl⟩
    · rw [hi]; exact ⟨_, rfl⟩
  · rw [hk] at hfound
    obtain ⟨i, hi⟩ := Option.isSome_iff_exists.1 hfound
    subst hlong
    simp only [if_true, hi]
    exact ⟨_, rfl⟩

end Codes
end AthlibVerif
