import AthlibVerif.Model.Exact
/-! specification of `iroot` / `floorPow` (core Lean only) -/
namespace AthlibVerif

theorem irootAux_spec (b n lo hi : Nat) (hlo : lo ^ b ≤ n) (hhi : n < hi ^ b) (hlt : lo < hi) :
    (irootAux b n lo hi) ^ b ≤ n ∧ n < (irootAux b n lo hi + 1) ^ b := by
  fun_induction irootAux b n lo hi with
  | case1 lo hi h mid hm ih => exact ih hm hhi (by omega)
  | case2 lo hi h mid hm ih => exact ih hlo (by omega) (by omega)
  | case3 lo hi h =>
    have : hi = lo + 1 := by omega
    subst this
    exact ⟨hlo, hhi⟩

theorem lt_succ_pow (b n : Nat) (hb : 0 < b) : n < (n + 1) ^ b := by
  calc n < n + 1 := Nat.lt_succ_self n
    _ = (n + 1) ^ 1 := (Nat.pow_one _).symm
    _ ≤ (n + 1) ^ b := Nat.pow_le_pow_right (by omega) hb

theorem iroot_spec (b n : Nat) (hb : 0 < b) : (iroot b n) ^ b ≤ n ∧ n < (iroot b n + 1) ^ b := by
  unfold iroot
  simp only
  split
  · next h =>
    apply irootAux_spec _ _ _ _ _ h
    · apply Nat.pos_of_ne_zero
      intro h0
      rw [h0, Nat.zero_pow hb] at h
      exact Nat.not_lt_zero _ h
    · rw [Nat.zero_pow hb]; exact Nat.zero_le _
  · apply irootAux_spec
    · rw [Nat.zero_pow hb]; exact Nat.zero_le _
    · exact lt_succ_pow b n hb
    · omega

/-- characterisation: `p ≤ iroot b n ↔ p^b ≤ n` -/
theorem le_iroot_iff (b n p : Nat) (hb : 0 < b) : p ≤ iroot b n ↔ p ^ b ≤ n := by
  have ⟨h1, h2⟩ := iroot_spec b n hb
  constructor
  · intro h
    exact Nat.le_trans (Nat.pow_le_pow_left h b) h1
  · intro h
    by_cases hp : p ≤ iroot b n
    · exact hp
    · exfalso
      have : iroot b n + 1 ≤ p := by omega
      have := Nat.pow_le_pow_left this b
      omega

theorem iroot_mono (b n m : Nat) (hb : 0 < b) (h : n ≤ m) : iroot b n ≤ iroot b m := by
  rw [le_iroot_iff b m _ hb]
  exact Nat.le_trans (iroot_spec b n hb).1 h

/-- `p ≤ floorPow … ↔ p^xb · aD^xb · dD^xa ≤ aN^xb · dN^xa` : the integer form of `p ≤ A·D^(xa/xb)` -/
theorem le_floorPow_iff (aN aD dN dD xa xb p : Nat) (hb : 0 < xb) (haD : 0 < aD) (hdD : 0 < dD) :
    p ≤ floorPow aN aD dN dD xa xb ↔ p ^ xb * (aD ^ xb * dD ^ xa) ≤ aN ^ xb * dN ^ xa := by
  unfold floorPow
  rw [le_iroot_iff _ _ _ hb]
  have hpos : 0 < aD ^ xb * dD ^ xa := Nat.mul_pos (Nat.pow_pos haD) (Nat.pow_pos hdD)
  exact Nat.le_div_iff_mul_le hpos

/-- a larger base never scores less -/
theorem floorPow_mono (aN aD dN dN' dD xa xb : Nat) (hb : 0 < xb) (h : dN ≤ dN') :
    floorPow aN aD dN dD xa xb ≤ floorPow aN aD dN' dD xa xb := by
  unfold floorPow
  apply iroot_mono _ _ _ hb
  apply Nat.div_le_div_right
  exact Nat.mul_le_mul_left _ (Nat.pow_le_pow_left h xa)

theorem ceilDiv_spec (n d : Nat) (hd : 0 < d) : n ≤ ceilDiv n d * d ∧ (ceilDiv n d - 1) * d < n ∨ (n = 0 ∧ ceilDiv n d = 0) := by
  unfold ceilDiv
  by_cases hn : n = 0
  · right; subst hn; simp; omega
  · left
    have h1 := Nat.div_add_mod (n + d - 1) d
    have h2 := Nat.mod_lt (n + d - 1) hd
    have hq : 1 ≤ (n + d - 1) / d := by
      apply (Nat.le_div_iff_mul_le hd).2; omega
    constructor
    · calc n ≤ d * ((n + d - 1) / d) + d - 1 - (d - 1) + 0 := by omega
        _ ≤ (n + d - 1) / d * d := by rw [Nat.mul_comm]; omega
    · have : ((n + d - 1) / d - 1) * d = (n + d - 1) / d * d - d := by
        rw [Nat.sub_mul, Nat.one_mul]
      rw [this, Nat.mul_comm]; omega

end AthlibVerif

namespace AthlibVerif
/-- Galois form of the ceiling division: `⌈n/d⌉ ≤ m ↔ n ≤ m·d` -/
theorem ceilDiv_le_iff (n d m : Nat) (hd : 0 < d) : ceilDiv n d ≤ m ↔ n ≤ m * d := by
  unfold ceilDiv
  rw [Nat.div_le_iff_le_mul_add_pred hd]
  have hc : d * m = m * d := Nat.mul_comm d m
  constructor <;> intro h <;> omega

/-- Galois form of the floor division: `m ≤ ⌊n/d⌋ ↔ m·d ≤ n` -/
theorem le_floorDiv_iff (n d m : Nat) (hd : 0 < d) : m ≤ floorDiv n d ↔ m * d ≤ n := by
  unfold floorDiv; exact Nat.le_div_iff_mul_le hd

theorem ceilDiv_mono (n n' d : Nat) (h : n ≤ n') : ceilDiv n d ≤ ceilDiv n' d := by
  unfold ceilDiv; apply Nat.div_le_div_right; omega
end AthlibVerif
