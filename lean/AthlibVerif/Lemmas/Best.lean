import AthlibVerif.Lemmas.Places
/-!
# The stored best is the greatest height on the card — in every reachable state

`Jumper.key` ranks by the stored `best` / `bestIdx`.  `BestInv` says what they are in terms of the printed card
and the list of heights: no column with a clearance when `bestIdx` is `none`; otherwise `bestIdx` is the FIRST
column among those cleared at the GREATEST cleared height and `best` is that height.  It is an invariant of
`step` (with `WF`), so the key the places follow is the countback key of the card.
-/
namespace AthlibVerif.HJ

def clearedAt (card : List (List Trial)) (i : Nat) : Bool := (card.getD i []).contains .o

structure BestInv (hs : List Int) (j : Jumper) : Prop where
  len : j.card.length ≤ hs.length
  noneCase : j.bestIdx = none → ∀ i, clearedAt j.card i = false
  someCase : ∀ i, j.bestIdx = some i →
    i < j.card.length ∧ clearedAt j.card i = true ∧ j.best = hs.getD i 0 ∧
    ∀ i', clearedAt j.card i' = true → hs.getD i' 0 ≤ j.best ∧ (hs.getD i' 0 = j.best → i ≤ i')

theorem padCard_length (card : List (List Trial)) (n : Nat) : (padCard card n).length = max card.length n := by
  unfold padCard; simp; omega

theorem padCard_getD (card : List (List Trial)) (n i : Nat) : (padCard card n).getD i [] = card.getD i [] := by
  unfold padCard
  simp only [List.getD_eq_getElem?_getD, List.getElem?_append]
  split
  · rfl
  · next h =>
    have : card[i]? = none := List.getElem?_eq_none (by omega)
    rw [this]
    cases hr : (List.replicate (n - card.length) ([] : List Trial))[i - card.length]? with
    | none => rfl
    | some x =>
      have := List.mem_of_getElem? hr
      simp at this
      simp [this.2]

theorem appendLast_concat (init : List (List Trial)) (last : List Trial) (t : Trial) :
    appendLast (init ++ [last]) t = init ++ [last ++ [t]] := by
  simp [appendLast, List.reverse_append]

theorem appendLast_spec (card : List (List Trial)) (t : Trial) (h : card ≠ []) :
    (appendLast card t).length = card.length ∧
    ∀ i, (appendLast card t).getD i [] = if i = card.length - 1 then card.getD i [] ++ [t] else card.getD i [] := by
  obtain ⟨init, last, rfl⟩ : ∃ init last, card = init ++ [last] := by
    rcases List.eq_nil_or_concat card with h' | ⟨init, last, h'⟩
    · exact absurd h' h
    · exact ⟨init, last, by simpa using h'⟩
  rw [appendLast_concat]
  refine ⟨by simp, ?_⟩
  intro i
  simp only [List.length_append, List.length_cons, List.length_nil, Nat.add_sub_cancel, List.getD_eq_getElem?_getD,
    List.getElem?_append]
  by_cases h1 : i < init.length
  · have : i ≠ init.length := by omega
    simp [h1, this]
  · by_cases h2 : i = init.length
    · subst h2; simp
    · have : ¬ i - init.length = 0 := by omega
      simp only [h1, if_false, h2]
      cases hi : i - init.length with
      | zero => exact absurd hi this
      | succ m => simp

/-- the card after an accepted trial: same clearances, plus the current column if the trial is a clearance -/
theorem clearedAt_act (card : List (List Trial)) (hc : Nat) (t : Trial) (hlen : card.length ≤ hc) (hpos : 0 < hc) :
    (appendLast (padCard card hc) t).length = hc ∧
    ∀ i, clearedAt (appendLast (padCard card hc) t) i = (clearedAt card i || (decide (i = hc - 1) && t == .o)) := by
  have hl : (padCard card hc).length = hc := by rw [padCard_length]; omega
  have hne : padCard card hc ≠ [] := by intro e; rw [e] at hl; simp at hl; omega
  obtain ⟨h1, h2⟩ := appendLast_spec (padCard card hc) t hne
  refine ⟨h1.trans hl, ?_⟩
  intro i
  unfold clearedAt
  rw [h2 i, hl, padCard_getD]
  by_cases e : i = hc - 1
  · simp only [e, if_true, decide_true, Bool.true_and]
    rw [List.contains_append]
    cases t <;> simp
  · simp [e]

theorem getD_append_left (hs : List Int) (x : Int) (i : Nat) (h : i < hs.length) : (hs ++ [x]).getD i 0 = hs.getD i 0 := by
  simp [List.getD_eq_getElem?_getD, List.getElem?_append, h]

theorem clearedAt_lt (card : List (List Trial)) (i : Nat) (h : clearedAt card i = true) : i < card.length := by
  unfold clearedAt at h
  by_cases hi : i < card.length
  · exact hi
  · have : card.getD i [] = [] := by simp [List.getD_eq_getElem?_getD, List.getElem?_eq_none (Nat.le_of_not_lt hi)]
    rw [this] at h; simp at h

/-- a new height keeps the invariant -/
theorem BestInv_bar (hs : List Int) (x : Int) (j : Jumper) (h : BestInv hs j) : BestInv (hs ++ [x]) j := by
  refine ⟨by have := h.len; simp; omega, h.noneCase, ?_⟩
  intro i hi
  obtain ⟨h1, h2, h3, h4⟩ := h.someCase i hi
  refine ⟨h1, h2, ?_, ?_⟩
  · rw [getD_append_left hs x i (by have := h.len; omega)]; exact h3
  · intro i' hi'
    have hlt := clearedAt_lt j.card i' hi'
    rw [getD_append_left hs x i' (by have := h.len; omega)]
    exact h4 i' hi'

/-- an accepted trial at the current (last) height keeps the invariant -/
theorem BestInv_act (hs : List Int) (j : Jumper) (t : Trial) (h : BestInv hs j) (hpos : hs ≠ []) :
    BestInv hs (j.actCore hs.length (hs.getLast?.getD 0) t) := by
  have hp : 0 < hs.length := List.length_pos_iff.2 hpos
  obtain ⟨hlen, hcl⟩ := clearedAt_act j.card hs.length t h.len hp
  have hlast : hs.getLast?.getD 0 = hs.getD (hs.length - 1) 0 := by
    rw [List.getLast?_eq_getElem?, List.getD_eq_getElem?_getD]
  -- facts about the old card
  cases t with
  | o =>
    simp only [Jumper.actCore]
    split
    · next hcond =>
      -- the best is replaced by the current height
      refine ⟨by simp [hlen], by intro hn; simp at hn, ?_⟩
      intro i hi
      simp only [Option.some.injEq] at hi
      subst hi
      simp only [hlen]
      refine ⟨by omega, by rw [hcl]; simp, hlast, ?_⟩
      intro i' hi'
      rw [hcl] at hi'
      simp only [Bool.or_eq_true, Bool.and_eq_true, decide_eq_true_eq, beq_self_eq_true, and_true] at hi'
      simp only [Bool.or_eq_true, decide_eq_true_eq, Option.isNone_iff_eq_none] at hcond
      rcases hi' with hold | hcur
      · -- an older clearance: below the old best, hence below the new one
        rcases hcond with hn | hgt
        · have := h.noneCase hn i'; rw [this] at hold; cases hold
        · cases hb : j.bestIdx with
          | none => have := h.noneCase hb i'; rw [this] at hold; cases hold
          | some i0 =>
            obtain ⟨_, _, _, h4⟩ := h.someCase i0 hb
            have := (h4 i' hold).1
            constructor
            · omega
            · intro e; omega
      · subst hcur
        exact ⟨by rw [hlast]; exact Int.le_refl _, fun _ => Nat.le_refl _⟩
    · next hcond =>
      simp only [Bool.or_eq_true, decide_eq_true_eq, Option.isNone_iff_eq_none, not_or] at hcond
      obtain ⟨hsome, hle⟩ := hcond
      refine ⟨by simp [hlen], by intro hn; exact absurd hn hsome, ?_⟩
      intro i hi
      simp only at hi
      obtain ⟨h1, h2, h3, h4⟩ := h.someCase i hi
      simp only [hlen]
      refine ⟨by have := h.len; omega, by rw [hcl, h2]; rfl, h3, ?_⟩
      intro i' hi'
      rw [hcl] at hi'
      simp only [Bool.or_eq_true, Bool.and_eq_true, decide_eq_true_eq, beq_self_eq_true, and_true] at hi'
      rcases hi' with hold | hcur
      · exact h4 i' hold
      · subst hcur
        rw [← hlast]
        exact ⟨by omega, fun _ => by have := h.len; omega⟩
  | x =>
    simp only [Jumper.actCore]
    have hsame : ∀ i, clearedAt (appendLast (padCard j.card hs.length) Trial.x) i = clearedAt j.card i := by
      intro i; rw [hcl]; simp
    split
    · refine ⟨by simp [hlen], fun hn i => by simp only [hsame]; exact h.noneCase hn i, ?_⟩
      intro i hi
      obtain ⟨h1, h2, h3, h4⟩ := h.someCase i hi
      simp only [hlen, hsame]
      exact ⟨by have := h.len; omega, h2, h3, h4⟩
    · refine ⟨by simp [hlen], fun hn i => by simp only [hsame]; exact h.noneCase hn i, ?_⟩
      intro i hi
      obtain ⟨h1, h2, h3, h4⟩ := h.someCase i hi
      simp only [hlen, hsame]
      exact ⟨by have := h.len; omega, h2, h3, h4⟩
  | p =>
    simp only [Jumper.actCore]
    have hsame : ∀ i, clearedAt (appendLast (padCard j.card hs.length) Trial.p) i = clearedAt j.card i := by
      intro i; rw [hcl]; simp
    refine ⟨by simp [hlen], fun hn i => by simp only [hsame]; exact h.noneCase hn i, ?_⟩
    intro i hi
    obtain ⟨h1, h2, h3, h4⟩ := h.someCase i hi
    simp only [hlen, hsame]
    exact ⟨by have := h.len; omega, h2, h3, h4⟩
  | r =>
    simp only [Jumper.actCore]
    have hsame : ∀ i, clearedAt (appendLast (padCard j.card hs.length) Trial.r) i = clearedAt j.card i := by
      intro i; rw [hcl]; simp
    refine ⟨by simp [hlen], fun hn i => by simp only [hsame]; exact h.noneCase hn i, ?_⟩
    intro i hi
    obtain ⟨h1, h2, h3, h4⟩ := h.someCase i hi
    simp only [hlen, hsame]
    exact ⟨by have := h.len; omega, h2, h3, h4⟩

/-! ## ranking does not touch cards or bests -/

theorem BestInv_congr (hs : List Int) (j j' : Jumper) (hc : j'.card = j.card) (hb : j'.best = j.best)
    (hi : j'.bestIdx = j.bestIdx) (h : BestInv hs j) : BestInv hs j' := by
  refine ⟨by rw [hc]; exact h.len, by rw [hc, hi]; exact h.noneCase, ?_⟩
  rw [hc, hb, hi]; exact h.someCase

/-- every record of `l'` carries the card, best and best column of some record of `l` -/
def CardsFrom (l l' : List Jumper) : Prop :=
  ∀ j' ∈ l', ∃ j ∈ l, j'.card = j.card ∧ j'.best = j.best ∧ j'.bestIdx = j.bestIdx

theorem CardsFrom.refl (l : List Jumper) : CardsFrom l l := fun j hj => ⟨j, hj, rfl, rfl, rfl⟩
theorem CardsFrom.trans {a b c : List Jumper} (h1 : CardsFrom a b) (h2 : CardsFrom b c) : CardsFrom a c := by
  intro j'' hj''
  obtain ⟨j', hj', e1, e2, e3⟩ := h2 j'' hj''
  obtain ⟨j, hj, f1, f2, f3⟩ := h1 j' hj'
  exact ⟨j, hj, e1.trans f1, e2.trans f2, e3.trans f3⟩

theorem CardsFrom_map (l : List Jumper) (f : Jumper → Jumper)
    (hf : ∀ k, (f k).card = k.card ∧ (f k).best = k.best ∧ (f k).bestIdx = k.bestIdx) : CardsFrom l (l.map f) := by
  intro j' hj'
  obtain ⟨j, hj, rfl⟩ := List.mem_map.1 hj'
  exact ⟨j, hj, hf j⟩

theorem CardsFrom_update (c : Comp) (j0 j1 : Jumper) (h0 : j0 ∈ c.jumpers)
    (h : j1.card = j0.card ∧ j1.best = j0.best ∧ j1.bestIdx = j0.bestIdx) : CardsFrom c.jumpers (c.update j1).jumpers := by
  intro j' hj'
  unfold Comp.update at hj'
  obtain ⟨k, hk, rfl⟩ := List.mem_map.1 hj'
  split
  · exact ⟨j0, h0, h⟩
  · exact ⟨k, hk, rfl, rfl, rfl⟩

theorem rankj_cards (c : Comp) (h : WF c) : CardsFrom c.jumpers (rankj c).jumpers := by
  rw [rankj_jumpers c h]
  exact CardsFrom_map _ _ (fun k => ⟨rfl, rfl, rfl⟩)

theorem rankTie_cards (c : Comp) (h : WF c) : CardsFrom c.jumpers (rankTie c).jumpers := by
  unfold rankTie
  simp only
  have hm : CardsFrom c.jumpers (c.jumpers.map (fun (j : Jumper) => if reinstated c j then reinstate j else j)) :=
    CardsFrom_map _ _ (fun k => by split <;> exact ⟨rfl, rfl, rfl⟩)
  have hb : (c.jumpers.map (fun (j : Jumper) => if reinstated c j then reinstate j else j)).map (·.bib) = c.jumpers.map (·.bib) := by
    rw [List.map_map]
    apply List.map_congr_left
    intro k _
    simp only [Function.comp_apply]
    split <;> rfl
  split
  · have hwf : WF ({ { c with jumpers := c.jumpers.map (fun (j : Jumper) => if reinstated c j then reinstate j else j) } with phase := Phase.jumpoff } : Comp) :=
      WF_of_same_bibs c _ hb (List.Perm.refl _) h
    exact hm.trans (rankj_cards _ hwf)
  · exact hm

theorem rankLeader_cards (c : Comp) (r0 : Nat) (h : WF c) : CardsFrom c.jumpers (rankLeader c r0).jumpers := by
  unfold rankLeader
  split
  · next j0 hj0 =>
    split
    · have hwf : WF (c.update (reinstate j0)) := WF_of_same_bibs c _ (update_bibs c _) (List.Perm.refl _) h
      exact (CardsFrom_update c j0 (reinstate j0) (find_some_mem c r0 j0 hj0).1 ⟨rfl, rfl, rfl⟩).trans (rankj_cards _ hwf)
    · exact CardsFrom.refl _
  · exact CardsFrom.refl _

theorem rank_cards (c0 : Comp) (h : WF c0) : CardsFrom c0.jumpers (rank c0).jumpers := by
  have hw := rankj_WF c0 h
  have hc := rankj_cards c0 h
  unfold rank
  simp only
  split
  · exact hc
  · split
    · split
      · exact hc.trans (rankTie_cards _ hw)
      · exact hc.trans (rankLeader_cards _ _ hw)
    · unfold rankOneLeft; split <;> exact hc
    · exact hc

/-- every athlete's stored best is the card's -/
def AllBest (c : Comp) : Prop := ∀ j ∈ c.jumpers, BestInv c.heights j

theorem AllBest_of_cards (c c' : Comp) (hh : c'.heights = c.heights) (hc : CardsFrom c.jumpers c'.jumpers)
    (h : AllBest c) : AllBest c' := by
  intro j' hj'
  obtain ⟨j, hj, e1, e2, e3⟩ := hc j' hj'
  rw [hh]
  exact BestInv_congr _ j j' e1 e2 e3 (h j hj)

theorem step_AllBest (c : Comp) (op : Op) (hw : WF c) (h : AllBest c) : AllBest (step c op).1 := by
  cases op with
  | add b =>
    rw [step_add]
    split
    · intro j hj
      simp only [addResult, List.mem_append, List.mem_singleton] at hj ⊢
      rcases hj with hj | rfl
      · exact h j hj
      · exact ⟨by simp, fun _ i => by simp [clearedAt], fun i hi => by simp at hi⟩
    · exact h
  | bar x =>
    rw [step_bar]
    split
    · intro j' hj'
      simp only [barResult] at hj' ⊢
      obtain ⟨j, hj, rfl⟩ := List.mem_map.1 hj'
      have := BestInv_bar c.heights x j (h j hj)
      split
      · exact BestInv_congr _ j _ rfl rfl rfl this
      · exact this
    · exact h
  | trial b t =>
    rcases step_trial c b t with ⟨j, j', hf, _, hne, hact, hs⟩ | ⟨h1, _⟩
    · rw [hs]
      show AllBest (rank (logTrial c b t j'))
      have hwl : WF (logTrial c b t j') := WF_of_same_bibs c (logTrial c b t j') (by simp [update_bibs]) (List.Perm.refl _) hw
      have hbl : AllBest (logTrial c b t j') := by
        intro k' hk'
        simp only [logTrial_jumpers, Comp.update] at hk'
        obtain ⟨k, hk, rfl⟩ := List.mem_map.1 hk'
        show BestInv c.heights _
        split
        · rw [act_core j j' _ _ t hact]
          exact BestInv_act c.heights j t (h j (find_some_mem c b j hf).1) hne
        · exact h k hk
      exact AllBest_of_cards _ _ (rank_frame _).1.2.1 (rank_cards _ hwl) hbl
    · rw [h1]; exact h

end AthlibVerif.HJ
