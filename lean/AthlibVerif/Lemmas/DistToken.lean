import AthlibVerif.Lemmas.DistTotal
/-!
# The first token of a code, and when it cannot be a relay

`get_distance` works on `discipline.split()[0]`.  This file relates that token to the language of the code:
a word of a language none of whose words consists of white space only has a token; if no word of the language has
a relay as its first token, `get_distance` stays outside its relay branch and returns.
-/
namespace AthlibVerif
namespace Codes
open RE GRE

theorem mem_takeWhile {p : Char → Bool} : ∀ (l : Str) (c : Char), c ∈ l.takeWhile p → p c = true := by
  intro l
  induction l with
  | nil => intro c h; cases h
  | cons a as ih =>
    intro c h
    by_cases ha : p a = true
    · rw [List.takeWhile_cons_of_pos ha] at h
      rcases List.mem_cons.1 h with rfl | h
      · exact ha
      · exact ih c h
    · rw [List.takeWhile_cons_of_neg ha] at h; cases h

/-- what `split()[0]` returns: the string is white space, the token (no white space, non-empty), and then nothing or
    something starting with white space -/
theorem firstToken_split (d tok : Str) (h : firstToken d = .ok tok) :
    ∃ pre post, d = pre ++ tok ++ post ∧ (∀ c ∈ pre, isSpaceC c = true) ∧ (∀ c ∈ tok, isSpaceC c = false) ∧ tok ≠ [] ∧
      (post = [] ∨ ∃ c rest, post = c :: rest ∧ isSpaceC c = true) := by
  unfold firstToken at h
  simp only at h
  split at h
  · cases h
  · next hne =>
    injection h with h
    refine ⟨d.takeWhile isSpaceC, (d.dropWhile isSpaceC).dropWhile (fun c => !isSpaceC c), ?_, ?_, ?_, ?_, ?_⟩
    · rw [← h, List.append_assoc, List.takeWhile_append_dropWhile, List.takeWhile_append_dropWhile]
    · exact fun c hc => mem_takeWhile d c hc
    · intro c hc; rw [← h] at hc; simpa using mem_takeWhile _ c hc
    · rw [← h]
      cases ht : d.dropWhile isSpaceC with
      | nil => rw [ht] at hne; simp at hne
      | cons a as =>
        have := List.head?_dropWhile_not isSpaceC d
        rw [ht] at this
        simp only [List.head?_cons] at this
        rw [List.takeWhile_cons_of_pos (by simp [this])]; simp
    · cases hp : (d.dropWhile isSpaceC).dropWhile (fun c => !isSpaceC c) with
      | nil => exact Or.inl rfl
      | cons a as =>
        right
        have := List.head?_dropWhile_not (fun c => !isSpaceC c) (d.dropWhile isSpaceC)
        rw [hp] at this
        simp only [List.head?_cons] at this
        exact ⟨a, as, rfl, by simpa using this⟩

theorem firstToken_ok (d : Str) (h : ∃ c ∈ d, isSpaceC c = false) : ∃ tok, firstToken d = .ok tok := by
  unfold firstToken
  simp only
  split
  · next he =>
    obtain ⟨c, hc, hs⟩ := h
    have hnil : d.dropWhile isSpaceC = [] := by cases hh : d.dropWhile isSpaceC <;> simp_all
    have : d.takeWhile isSpaceC = d := by
      have := List.takeWhile_append_dropWhile (p := isSpaceC) (l := d)
      rw [hnil, List.append_nil] at this; exact this
    have := mem_takeWhile d c (by rw [this]; exact hc)
    rw [hs] at this; cases this
  · exact ⟨_, rfl⟩

/-! ## symbol-level renderings -/

def spaceStar : RE := .star (.cls Gen.spaceMask)

theorem starL_of_all (m : Nat) (w : List Nat) (h : ∀ x ∈ w, m.testBit x = true) : StarL (RE.lang (.cls m)) w := by
  induction w with
  | nil => exact StarL.nil
  | cons x xs ih =>
    have := StarL.cons [x] xs (by simp) (show RE.lang (.cls m) [x] from ⟨x, rfl, h x List.mem_cons_self⟩)
      (ih (fun y hy => h y (List.mem_cons_of_mem _ hy)))
    simpa using this

theorem lang_anyStar (t : Str) : RE.lang anyStar (symsOf t) := by
  apply starL_of_all
  intro x hx
  rw [Nat.testBit_two_pow_sub_one]
  have := symsOf_inAlpha t x hx
  simp; omega

theorem lang_spaceStar (t : Str) (h : ∀ c ∈ t, isSpaceC c = true) : RE.lang spaceStar (symsOf t) := by
  apply starL_of_all
  intro x hx
  simp only [symsOf, List.mem_map] at hx
  obtain ⟨c, hc, rfl⟩ := hx
  exact h c hc

/-- words whose first token is in the language of `p` -/
def tokenOf (p : RE) : RE := .cat spaceStar (.cat p (.alt .eps (.cat (.cls Gen.spaceMask) anyStar)))

theorem lang_tokenOf (p : RE) (d tok : Str) (h : firstToken d = .ok tok) (hp : Matches p tok) :
    RE.lang (tokenOf p) (symsOf d) := by
  obtain ⟨pre, post, rfl, hpre, _, _, hpost⟩ := firstToken_split d tok h
  simp only [tokenOf, RE.lang]
  refine ⟨symsOf pre, symsOf (tok ++ post), by simp [symsOf], lang_spaceStar pre hpre, symsOf tok, symsOf post,
    by simp [symsOf], hp, ?_⟩
  rcases hpost with rfl | ⟨c, rest, rfl, hc⟩
  · left; rfl
  · right
    exact ⟨[symOf c], symsOf rest, by simp [symsOf], ⟨symOf c, rfl, hc⟩, lang_anyStar rest⟩

/-- decided per language `p`: no word is white space only, and no word has a relay as its first token -/
def tokenNotRelayOK (p : RE) : Bool :=
  RE.isEmptyLang Gen.nsym 100000 (RE.and p spaceStar) &&
  RE.isEmptyLang Gen.nsym 100000 (RE.and p (tokenOf Gen.PAT_RELAYS))

/-- **`get_distance` returns on every word of such a language** -/
theorem getDistance_ok_of_language (hT : digitTableOK = true) (hL : leadingOK = true) (p : RE)
    (hp : tokenNotRelayOK p = true) (hrel : tieOK (pat "PAT_RELAYS") Gen.PAT_RELAYS = true)
    (fuel : Nat) (d : Str) (hd : Matches p d) : ∃ r, getDistance (fuel + 1) d = .ok r := by
  simp only [tokenNotRelayOK, Bool.and_eq_true] at hp
  have hns : ∃ c ∈ d, isSpaceC c = false := by
    apply Classical.byContradiction
    intro hno
    have hall : ∀ c ∈ d, isSpaceC c = true := by
      intro c hc
      cases hs : isSpaceC c with
      | true => rfl
      | false => exact (hno ⟨c, hc, hs⟩).elim
    exact RE.disjoint_of_check Gen.nsym 100000 _ _ hp.1 _ (symsOf_inAlpha d) ⟨hd, lang_spaceStar d hall⟩
  obtain ⟨tok, htok⟩ := firstToken_ok d hns
  have hnr : pyMatch "PAT_RELAYS" tok = none := by
    cases hm : pyMatch "PAT_RELAYS" tok with
    | none => rfl
    | some rc =>
      have : Matches Gen.PAT_RELAYS tok := (pyMatch_iff _ _ hrel tok).1 (by rw [hm]; rfl)
      exact (RE.disjoint_of_check Gen.nsym 100000 _ _ hp.2 _ (symsOf_inAlpha d)
        ⟨hd, lang_tokenOf _ d tok htok this⟩).elim
  exact getDistance_nonrelay_ok hT hL fuel d tok htok hnr

end Codes
end AthlibVerif
