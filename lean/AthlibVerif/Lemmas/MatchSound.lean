import AthlibVerif.Model.Match
import AthlibVerif.Lemmas.RegexSound
/-!
# The capture-reporting matcher is sound and complete for the language of its pattern

`Model/Match.lean` transcribes a backtracking engine (`mAll`: every way to match, in priority order, with
fuel).  This file relates it to the denotational semantics `RE.lang` used by the C04 theorems:

* `Ms inp g i j` — relational semantics "`g` matches `inp` from position `i` to position `j`";
* `mAll_sound`  — every result of `mAll` is a match in that sense;
* `mAll_complete` — with fuel `costA g + costB g * (remaining input)` every match is among the results;
* `matchFirst_isSome_iff` — `re.match` succeeds iff some match from position 0 exists, for every pattern within
  the fuel budget (`FuelOK`, a decidable condition on the regenerated pattern);
* `ms_iff_lang` — for patterns without `$`: a match from `i` to `j` iff the slice `inp[i:j]` is in the language;
* `anchored_iff_lang` — for patterns whose every branch ends in `$` (`tailEol`): a match from `i` exists iff the
  rest of the input is in the language of `toRE` (where `$` is `ε | "\n"`);
* `span_sound` — every capture `(id, a, b)` reported by a match is a match of the body of a group numbered `id`
  of the pattern, inside the matched range.
Core Lean only.
-/
namespace AthlibVerif
namespace GRE

/-- relational semantics of the matcher: `g` matches `inp` from `i` to `j` -/
inductive Ms (inp : List Nat) : GRE → Nat → Nat → Prop
  | eps (i : Nat) : Ms inp .eps i i
  | cls (m i x : Nat) : inp[i]? = some x → m.testBit x = true → Ms inp (.cls m) i (i+1)
  | cat (a b : GRE) (i j k : Nat) : Ms inp a i j → Ms inp b j k → Ms inp (.cat a b) i k
  | altL (a b : GRE) (i j : Nat) : Ms inp a i j → Ms inp (.alt a b) i j
  | altR (a b : GRE) (i j : Nat) : Ms inp b i j → Ms inp (.alt a b) i j
  | starNil (a : GRE) (i : Nat) : Ms inp (.star a) i i
  | starCons (a : GRE) (i j k : Nat) : i < j → Ms inp a i j → Ms inp (.star a) j k → Ms inp (.star a) i k
  | grp (id : Nat) (a : GRE) (i j : Nat) : Ms inp a i j → Ms inp (.grp id a) i j
  | eolEnd (nl i : Nat) : i = inp.length → Ms inp (.eol nl) i i
  | eolNl (nl i x : Nat) : i + 1 = inp.length → inp[i]? = some x → nl.testBit x = true → Ms inp (.eol nl) i i

theorem ms_le {inp : List Nat} {g : GRE} {i j : Nat} (h : Ms inp g i j) : i ≤ j := by
  induction h with
  | eps => exact Nat.le_refl _
  | cls => exact Nat.le_succ _
  | cat _ _ _ _ _ _ _ ih1 ih2 => exact Nat.le_trans ih1 ih2
  | altL _ _ _ _ _ ih => exact ih
  | altR _ _ _ _ _ ih => exact ih
  | starNil => exact Nat.le_refl _
  | starCons _ _ _ _ _ _ _ ih1 ih2 => exact Nat.le_trans ih1 ih2
  | grp _ _ _ _ _ ih => exact ih
  | eolEnd => exact Nat.le_refl _
  | eolNl => exact Nat.le_refl _

theorem ms_bound {inp : List Nat} {g : GRE} {i j : Nat} (h : Ms inp g i j) (hi : i ≤ inp.length) :
    j ≤ inp.length := by
  induction h with
  | eps => exact hi
  | cls m i x hx _ =>
    have : i < inp.length := by
      rcases Nat.lt_or_ge i inp.length with h | h
      · exact h
      · rw [List.getElem?_eq_none h] at hx; cases hx
    exact this
  | cat _ _ _ _ _ _ _ ih1 ih2 => exact ih2 (ih1 hi)
  | altL _ _ _ _ _ ih => exact ih hi
  | altR _ _ _ _ _ ih => exact ih hi
  | starNil => exact hi
  | starCons _ _ _ _ _ _ _ ih1 ih2 => exact ih2 (ih1 hi)
  | grp _ _ _ _ _ ih => exact ih hi
  | eolEnd => exact hi
  | eolNl => exact hi

/-! ## soundness of `mAll` -/

theorem mAll_sound (inp : List Nat) : ∀ (fuel : Nat) (g : GRE) (i : Nat) (caps : Caps) (r : Nat × Caps),
    r ∈ mAll inp fuel g i caps → Ms inp g i r.1 := by
  intro fuel
  induction fuel with
  | zero => intro g i caps r h; simp [mAll] at h
  | succ f ih =>
    intro g i caps r h
    cases g with
    | eps => simp [mAll] at h; subst h; exact Ms.eps i
    | cls m =>
      simp only [mAll, symAt] at h
      split at h
      · next x hx =>
        split at h
        · next hb => simp at h; subst h; exact Ms.cls m i x hx hb
        · simp at h
      · simp at h
    | cat a b =>
      simp only [mAll, List.mem_flatMap] at h
      obtain ⟨r1, h1, h2⟩ := h
      exact Ms.cat a b i r1.1 r.1 (ih a i caps r1 h1) (ih b r1.1 r1.2 r h2)
    | alt a b =>
      simp only [mAll, List.mem_append] at h
      rcases h with h | h
      · exact Ms.altL a b i r.1 (ih a i caps r h)
      · exact Ms.altR a b i r.1 (ih b i caps r h)
    | star a =>
      simp only [mAll, List.mem_append, List.mem_flatMap, List.mem_filter, List.mem_singleton] at h
      rcases h with ⟨r1, ⟨h1, hgt⟩, h2⟩ | h
      · have hgt' : i < r1.1 := by simpa using hgt
        exact Ms.starCons a i r1.1 r.1 hgt' (ih a i caps r1 h1) (ih (.star a) r1.1 r1.2 r h2)
      · subst h; exact Ms.starNil a i
    | grp id a =>
      simp only [mAll, List.mem_map] at h
      obtain ⟨r1, h1, rfl⟩ := h
      exact Ms.grp id a i r1.1 (ih a i caps r1 h1)
    | eol nl =>
      simp only [mAll, symAt] at h
      split at h
      · next he => simp at h; subst h; exact Ms.eolEnd nl i (by simpa using he)
      · split at h
        · next he =>
          split at h
          · next x hx =>
            split at h
            · next hb => simp at h; subst h; exact Ms.eolNl nl i x (by simpa using he) hx hb
            · simp at h
          · simp at h
        · simp at h

/-! ## completeness of `mAll` under a fuel budget -/

/-- depth of the recursion that does not depend on the input -/
def costA : GRE → Nat
  | .eps => 1 | .cls _ => 1 | .eol _ => 1
  | .cat a b => 1 + max (costA a) (costA b)
  | .alt a b => 1 + max (costA a) (costA b)
  | .star a => 1 + costA a
  | .grp _ a => 1 + costA a

/-- nesting depth of stars: recursion depth per remaining input symbol -/
def costB : GRE → Nat
  | .eps => 0 | .cls _ => 0 | .eol _ => 0
  | .cat a b => max (costB a) (costB b)
  | .alt a b => max (costB a) (costB b)
  | .star a => 1 + costB a
  | .grp _ a => costB a

theorem costA_pos (g : GRE) : 1 ≤ costA g := by
  cases g <;> simp [costA] <;> omega

theorem mAll_complete (inp : List Nat) {g : GRE} {i j : Nat} (h : Ms inp g i j) :
    ∀ (fuel : Nat) (caps : Caps), i ≤ inp.length → costA g + costB g * (inp.length - i) ≤ fuel →
      ∃ caps', (j, caps') ∈ mAll inp fuel g i caps := by
  induction h with
  | eps i =>
    intro fuel caps _ hf
    cases fuel with
    | zero => simp [costA] at hf
    | succ f => exact ⟨caps, by simp [mAll]⟩
  | cls m i x hx hb =>
    intro fuel caps _ hf
    cases fuel with
    | zero => simp [costA] at hf
    | succ f => exact ⟨caps, by simp [mAll, symAt, hx, hb]⟩
  | cat a b i j k h1 h2 ih1 ih2 =>
    intro fuel caps hi hf
    cases fuel with
    | zero => simp [costA] at hf
    | succ f =>
      have hj := ms_bound h1 hi
      have hij := ms_le h1
      simp only [costA, costB] at hf
      have m1 : costB a * (inp.length - i) ≤ max (costB a) (costB b) * (inp.length - i) :=
        Nat.mul_le_mul_right _ (Nat.le_max_left _ _)
      have m2 : costB b * (inp.length - j) ≤ max (costB a) (costB b) * (inp.length - i) :=
        Nat.mul_le_mul (Nat.le_max_right _ _) (by omega)
      have a1 : costA a ≤ max (costA a) (costA b) := Nat.le_max_left _ _
      have a2 : costA b ≤ max (costA a) (costA b) := Nat.le_max_right _ _
      obtain ⟨c1, hc1⟩ := ih1 f caps hi (by omega)
      obtain ⟨c2, hc2⟩ := ih2 f c1 hj (by omega)
      exact ⟨c2, by simp only [mAll, List.mem_flatMap]; exact ⟨(j, c1), hc1, hc2⟩⟩
  | altL a b i j h1 ih1 =>
    intro fuel caps hi hf
    cases fuel with
    | zero => simp [costA] at hf
    | succ f =>
      simp only [costA, costB] at hf
      have m1 : costB a * (inp.length - i) ≤ max (costB a) (costB b) * (inp.length - i) :=
        Nat.mul_le_mul_right _ (Nat.le_max_left _ _)
      have a1 : costA a ≤ max (costA a) (costA b) := Nat.le_max_left _ _
      obtain ⟨c1, hc1⟩ := ih1 f caps hi (by omega)
      exact ⟨c1, by simp only [mAll, List.mem_append]; exact Or.inl hc1⟩
  | altR a b i j h1 ih1 =>
    intro fuel caps hi hf
    cases fuel with
    | zero => simp [costA] at hf
    | succ f =>
      simp only [costA, costB] at hf
      have m1 : costB b * (inp.length - i) ≤ max (costB a) (costB b) * (inp.length - i) :=
        Nat.mul_le_mul_right _ (Nat.le_max_right _ _)
      have a1 : costA b ≤ max (costA a) (costA b) := Nat.le_max_right _ _
      obtain ⟨c1, hc1⟩ := ih1 f caps hi (by omega)
      exact ⟨c1, by simp only [mAll, List.mem_append]; exact Or.inr hc1⟩
  | starNil a i =>
    intro fuel caps _ hf
    cases fuel with
    | zero => simp [costA] at hf
    | succ f => exact ⟨caps, by simp [mAll]⟩
  | starCons a i j k hlt h1 h2 ih1 ih2 =>
    intro fuel caps hi hf
    cases fuel with
    | zero => simp [costA] at hf
    | succ f =>
      have hj := ms_bound h1 hi
      simp only [costA, costB] at hf ih2
      have e1 : (1 + costB a) * (inp.length - i) = (inp.length - i) + costB a * (inp.length - i) := by
        rw [Nat.add_mul, Nat.one_mul]
      have e2 : (1 + costB a) * (inp.length - j) = (inp.length - j) + costB a * (inp.length - j) := by
        rw [Nat.add_mul, Nat.one_mul]
      have m2 : costB a * (inp.length - j) ≤ costB a * (inp.length - i) :=
        Nat.mul_le_mul_left _ (by omega)
      obtain ⟨c1, hc1⟩ := ih1 f caps hi (by omega)
      obtain ⟨c2, hc2⟩ := ih2 f c1 hj (by omega)
      refine ⟨c2, ?_⟩
      simp only [mAll, List.mem_append, List.mem_flatMap, List.mem_filter]
      exact Or.inl ⟨(j, c1), ⟨hc1, by simpa using hlt⟩, hc2⟩
  | grp id a i j h1 ih1 =>
    intro fuel caps hi hf
    cases fuel with
    | zero => simp [costA] at hf
    | succ f =>
      simp only [costA, costB] at hf
      obtain ⟨c1, hc1⟩ := ih1 f caps hi (by omega)
      exact ⟨(id, i, j) :: c1, by simp only [mAll, List.mem_map]; exact ⟨(j, c1), hc1, rfl⟩⟩
  | eolEnd nl i he =>
    intro fuel caps _ hf
    cases fuel with
    | zero => simp [costA] at hf
    | succ f => exact ⟨caps, by simp [mAll, he]⟩
  | eolNl nl i x he hx hb =>
    intro fuel caps _ hf
    cases fuel with
    | zero => simp [costA] at hf
    | succ f =>
      have hne : (i == inp.length) = false := by simp; omega
      exact ⟨caps, by simp [mAll, hne, he, symAt, hx, hb]⟩

/-- the fuel `matchFirst` gives itself is enough for this pattern on every input -/
def fuelOK (g : GRE) : Bool := costA g ≤ 400 && costB g ≤ 40

theorem fuel_enough (g : GRE) (h : fuelOK g = true) (inp : List Nat) :
    costA g + costB g * (inp.length - 0) ≤ fuelFor inp := by
  simp only [fuelOK, Bool.and_eq_true, decide_eq_true_eq] at h
  unfold fuelFor
  have : costB g * inp.length ≤ 40 * inp.length := Nat.mul_le_mul_right _ h.2
  simp only [Nat.sub_zero]
  omega

/-- **`re.match` succeeds iff the pattern has a match from position 0** -/
theorem matchFirst_isSome_iff (g : GRE) (h : fuelOK g = true) (inp : List Nat) :
    (matchFirst g inp).isSome = true ↔ ∃ j, Ms inp g 0 j := by
  unfold matchFirst
  constructor
  · intro hs
    cases hm : mAll inp (fuelFor inp) g 0 [] with
    | nil => rw [hm] at hs; simp at hs
    | cons r rest =>
      exact ⟨r.1, mAll_sound inp _ g 0 [] r (by rw [hm]; exact List.mem_cons_self)⟩
  · rintro ⟨j, hj⟩
    obtain ⟨c, hc⟩ := mAll_complete inp hj (fuelFor inp) [] (Nat.zero_le _) (fuel_enough g h inp)
    cases hm : mAll inp (fuelFor inp) g 0 [] with
    | nil => rw [hm] at hc; cases hc
    | cons r rest => simp

theorem matchFirst_sound (g : GRE) (inp : List Nat) (r : Nat × Caps) (h : matchFirst g inp = some r) :
    Ms inp g 0 r.1 := by
  unfold matchFirst at h
  exact mAll_sound inp _ g 0 [] r (List.mem_of_mem_head? (by rw [h]; rfl))

/-! ## matches and the language of the pattern -/

def slice (inp : List Nat) (i j : Nat) : List Nat := (inp.drop i).take (j - i)

theorem slice_self (inp : List Nat) (i : Nat) : slice inp i i = [] := by simp [slice]

theorem slice_append (inp : List Nat) {i j k : Nat} (h1 : i ≤ j) (h2 : j ≤ k) :
    slice inp i k = slice inp i j ++ slice inp j k := by
  unfold slice
  have hk : k - i = (j - i) + (k - j) := by omega
  rw [hk, List.take_add]
  congr 1
  rw [List.drop_drop]
  congr 2
  omega

theorem slice_length (inp : List Nat) {i j : Nat} (h1 : i ≤ j) (h2 : j ≤ inp.length) :
    (slice inp i j).length = j - i := by
  unfold slice; simp; omega

theorem slice_one (inp : List Nat) (i x : Nat) (h : inp[i]? = some x) : slice inp i (i+1) = [x] := by
  unfold slice
  have : i + 1 - i = 1 := by omega
  rw [this]
  have hlt : i < inp.length := by
    rcases Nat.lt_or_ge i inp.length with h' | h'
    · exact h'
    · rw [List.getElem?_eq_none h'] at h; cases h
  rw [List.getElem?_eq_getElem hlt] at h
  injection h with h
  rw [List.drop_eq_getElem_cons hlt, h]; simp

theorem slice_to_end (inp : List Nat) (i : Nat) : slice inp i inp.length = inp.drop i := by
  unfold slice
  rw [List.take_of_length_le]; simp

/-- no `$` anywhere -/
def noEol : GRE → Bool
  | .eps => true | .cls _ => true | .eol _ => false
  | .cat a b => noEol a && noEol b
  | .alt a b => noEol a && noEol b
  | .star a => noEol a
  | .grp _ a => noEol a

/-- every branch ends in exactly one `$`, and `$` occurs nowhere else -/
def tailEol : GRE → Bool
  | .eol _ => true
  | .cat a b => noEol a && tailEol b
  | .alt a b => tailEol a && tailEol b
  | .grp _ a => tailEol a
  | _ => false

theorem ms_to_lang {inp : List Nat} {g : GRE} {i j : Nat} (h : Ms inp g i j) :
    noEol g = true → i ≤ inp.length → RE.lang (toRE [] g) (slice inp i j) := by
  induction h with
  | eps i => intro _ _; simp [toRE, RE.lang, slice_self]
  | cls m i x hx hb => intro _ _; simp only [toRE, RE.lang]; exact ⟨x, slice_one inp i x hx, hb⟩
  | cat a b i j k h1 h2 ih1 ih2 =>
    intro hn hi
    simp only [noEol, Bool.and_eq_true] at hn
    simp only [toRE, RE.lang]
    exact ⟨slice inp i j, slice inp j k, slice_append inp (ms_le h1) (ms_le h2), ih1 hn.1 hi,
      ih2 hn.2 (ms_bound h1 hi)⟩
  | altL a b i j h1 ih1 =>
    intro hn hi
    simp only [noEol, Bool.and_eq_true] at hn
    simp only [toRE, RE.lang]; exact Or.inl (ih1 hn.1 hi)
  | altR a b i j h1 ih1 =>
    intro hn hi
    simp only [noEol, Bool.and_eq_true] at hn
    simp only [toRE, RE.lang]; exact Or.inr (ih1 hn.2 hi)
  | starNil a i => intro _ _; simp only [toRE, RE.lang, slice_self]; exact RE.StarL.nil
  | starCons a i j k hlt h1 h2 ih1 ih2 =>
    intro hn hi
    have hn' : noEol a = true := by simpa [noEol] using hn
    simp only [toRE, RE.lang] at ih2 ⊢
    rw [slice_append inp (Nat.le_of_lt hlt) (ms_le h2)]
    refine RE.StarL.cons _ _ ?_ (ih1 hn' hi) (ih2 hn (ms_bound h1 hi))
    intro he
    have := slice_length inp (Nat.le_of_lt hlt) (ms_bound h1 hi)
    rw [he] at this; simp at this; omega
  | grp id a i j h1 ih1 =>
    intro hn hi
    have hn' : noEol a = true := by simpa [noEol] using hn
    simp only [toRE]; exact ih1 hn' hi
  | eolEnd => intro hn; simp [noEol] at hn
  | eolNl => intro hn; simp [noEol] at hn

/-- splitting a slice that is a concatenation -/
theorem slice_split (inp : List Nat) {i j : Nat} (hij : i ≤ j) (hj : j ≤ inp.length) (u v : List Nat)
    (h : slice inp i j = u ++ v) :
    i ≤ i + u.length ∧ i + u.length ≤ j ∧ u = slice inp i (i + u.length) ∧ v = slice inp (i + u.length) j := by
  have hl := slice_length inp hij hj
  rw [h, List.length_append] at hl
  have h1 : i + u.length ≤ j := by omega
  refine ⟨Nat.le_add_right _ _, h1, ?_, ?_⟩
  · have := slice_append inp (Nat.le_add_right i u.length) h1
    rw [h] at this
    have hlen : (slice inp i (i + u.length)).length = u.length := by
      rw [slice_length inp (Nat.le_add_right _ _) (Nat.le_trans h1 hj)]; omega
    exact (List.append_inj this hlen.symm).1
  · have := slice_append inp (Nat.le_add_right i u.length) h1
    rw [h] at this
    have hlen : (slice inp i (i + u.length)).length = u.length := by
      rw [slice_length inp (Nat.le_add_right _ _) (Nat.le_trans h1 hj)]; omega
    exact (List.append_inj this hlen.symm).2

theorem lang_to_ms (inp : List Nat) : ∀ (g : GRE), noEol g = true → ∀ (i j : Nat), i ≤ j → j ≤ inp.length →
    RE.lang (toRE [] g) (slice inp i j) → Ms inp g i j := by
  intro g
  induction g with
  | eps =>
    intro _ i j hij hj h
    simp only [toRE, RE.lang] at h
    have := slice_length inp hij hj
    rw [h] at this; simp at this
    have : j = i := by omega
    subst this; exact Ms.eps _
  | cls m =>
    intro _ i j hij hj h
    simp only [toRE, RE.lang] at h
    obtain ⟨x, hx, hb⟩ := h
    have hl := slice_length inp hij hj
    rw [hx] at hl; simp at hl
    have hj' : j = i + 1 := by omega
    subst hj'
    have hlt : i < inp.length := by omega
    have h1 := slice_one inp i inp[i] (List.getElem?_eq_getElem hlt)
    rw [hx] at h1
    injection h1 with h1 _
    exact Ms.cls m i x (by rw [List.getElem?_eq_getElem hlt, h1]) hb
  | cat a b iha ihb =>
    intro hn i j hij hj h
    simp only [noEol, Bool.and_eq_true] at hn
    simp only [toRE, RE.lang] at h
    obtain ⟨u, v, huv, hu, hv⟩ := h
    obtain ⟨h1, h2, eu, ev⟩ := slice_split inp hij hj u v huv
    rw [eu] at hu; rw [ev] at hv
    exact Ms.cat a b i (i + u.length) j (iha hn.1 _ _ h1 (Nat.le_trans h2 hj) hu) (ihb hn.2 _ _ h2 hj hv)
  | alt a b iha ihb =>
    intro hn i j hij hj h
    simp only [noEol, Bool.and_eq_true] at hn
    simp only [toRE, RE.lang] at h
    rcases h with h | h
    · exact Ms.altL a b i j (iha hn.1 i j hij hj h)
    · exact Ms.altR a b i j (ihb hn.2 i j hij hj h)
  | star a iha =>
    intro hn i j hij hj h
    have hn' : noEol a = true := by simpa [noEol] using hn
    simp only [toRE, RE.lang] at h
    generalize hw : slice inp i j = w at h
    induction h generalizing i with
    | nil =>
      have := slice_length inp hij hj
      rw [hw] at this; simp at this
      have : j = i := by omega
      subst this; exact Ms.starNil a _
    | cons u v hne hu _ ihv =>
      obtain ⟨h1, h2, eu, ev⟩ := slice_split inp hij hj u v hw
      have hpos : 0 < u.length := List.length_pos_iff.2 hne
      rw [eu] at hu
      exact Ms.starCons a i (i + u.length) j (by omega) (iha hn' _ _ h1 (Nat.le_trans h2 hj) hu)
        (ihv (i + u.length) h2 ev.symm)
  | grp id a iha =>
    intro hn i j hij hj h
    have hn' : noEol a = true := by simpa [noEol] using hn
    simp only [toRE] at h
    exact Ms.grp id a i j (iha hn' i j hij hj h)
  | eol nl => intro hn; simp [noEol] at hn

/-- **patterns without `$`**: a match from `i` to `j` iff the slice is in the language -/
theorem ms_iff_lang (inp : List Nat) (g : GRE) (hn : noEol g = true) (i j : Nat) (hi : i ≤ inp.length) :
    Ms inp g i j ↔ (i ≤ j ∧ j ≤ inp.length ∧ RE.lang (toRE [] g) (slice inp i j)) :=
  ⟨fun h => ⟨ms_le h, ms_bound h hi, ms_to_lang h hn hi⟩, fun ⟨h1, h2, h3⟩ => lang_to_ms inp g hn i j h1 h2 h3⟩

theorem drop_split (inp : List Nat) {i j : Nat} (hij : i ≤ j) (hj : j ≤ inp.length) :
    inp.drop i = slice inp i j ++ inp.drop j := by
  rw [← slice_to_end inp i, ← slice_to_end inp j]; exact slice_append inp hij hj

/-- **patterns anchored by `$`**: a match from `i` exists iff the rest of the input is in the language
    (where `$` reads `ε | "\n"`) -/
theorem anchored_iff_lang (inp : List Nat) : ∀ (g : GRE), tailEol g = true → ∀ (i : Nat), i ≤ inp.length →
    ((∃ j, Ms inp g i j) ↔ RE.lang (toRE [] g) (inp.drop i)) := by
  intro g
  induction g with
  | eps => intro h; simp [tailEol] at h
  | cls m => intro h; simp [tailEol] at h
  | star a _ => intro h; simp [tailEol] at h
  | eol nl =>
    intro _ i hi
    simp only [toRE, RE.lang]
    constructor
    · rintro ⟨j, hj⟩
      cases hj with
      | eolEnd _ _ he => left; subst he; simp
      | eolNl _ _ x he hx hb =>
        right
        refine ⟨x, ?_, hb⟩
        have := slice_one inp i x hx
        rw [he, slice_to_end] at this; exact this
    · rintro (h | ⟨x, hx, hb⟩)
      · have : inp.length ≤ i := by simpa using h
        exact ⟨i, Ms.eolEnd nl i (by omega)⟩
      · have hl : (inp.drop i).length = 1 := by rw [hx]; rfl
        simp at hl
        have hlt : i < inp.length := by omega
        have h1 := List.drop_eq_getElem_cons hlt
        rw [hx] at h1
        injection h1 with h1 _
        exact ⟨i, Ms.eolNl nl i x (by omega) (by rw [List.getElem?_eq_getElem hlt, h1]) hb⟩
  | cat a b _ ihb =>
    intro ht i hi
    simp only [tailEol, Bool.and_eq_true] at ht
    simp only [toRE, RE.lang]
    constructor
    · rintro ⟨k, hk⟩
      cases hk with
      | cat _ _ _ j _ h1 h2 =>
        have hj := ms_bound h1 hi
        exact ⟨slice inp i j, inp.drop j, drop_split inp (ms_le h1) hj, ms_to_lang h1 ht.1 hi,
          (ihb ht.2 j hj).1 ⟨k, h2⟩⟩
    · rintro ⟨u, v, huv, hu, hv⟩
      rw [← slice_to_end] at huv
      obtain ⟨h1, h2, eu, ev⟩ := slice_split inp hi (Nat.le_refl _) u v huv
      rw [eu] at hu
      rw [ev, slice_to_end] at hv
      obtain ⟨k, hk⟩ := (ihb ht.2 (i + u.length) h2).2 hv
      exact ⟨k, Ms.cat a b i _ k (lang_to_ms inp a ht.1 i _ h1 h2 hu) hk⟩
  | alt a b iha ihb =>
    intro ht i hi
    simp only [tailEol, Bool.and_eq_true] at ht
    simp only [toRE, RE.lang]
    constructor
    · rintro ⟨k, hk⟩
      cases hk with
      | altL _ _ _ _ h => exact Or.inl ((iha ht.1 i hi).1 ⟨k, h⟩)
      | altR _ _ _ _ h => exact Or.inr ((ihb ht.2 i hi).1 ⟨k, h⟩)
    · rintro (h | h)
      · obtain ⟨k, hk⟩ := (iha ht.1 i hi).2 h; exact ⟨k, Ms.altL a b i k hk⟩
      · obtain ⟨k, hk⟩ := (ihb ht.2 i hi).2 h; exact ⟨k, Ms.altR a b i k hk⟩
  | grp id a iha =>
    intro ht i hi
    have ht' : tailEol a = true := by simpa [tailEol] using ht
    simp only [toRE]
    constructor
    · rintro ⟨k, hk⟩
      cases hk with
      | grp _ _ _ _ h => exact (iha ht' i hi).1 ⟨k, h⟩
    · intro h
      obtain ⟨k, hk⟩ := (iha ht' i hi).2 h; exact ⟨k, Ms.grp id a i k hk⟩

/-- **`re.match` of an anchored pattern = membership in its language** -/
theorem matchFirst_anchored (g : GRE) (hf : fuelOK g = true) (ht : tailEol g = true) (inp : List Nat) :
    (matchFirst g inp).isSome = true ↔ RE.lang (toRE [] g) inp := by
  rw [matchFirst_isSome_iff g hf inp, anchored_iff_lang inp g ht 0 (Nat.zero_le _)]; simp

/-- **`re.match` of a prefix pattern (no `$`)**: succeeds iff some prefix is in the language -/
theorem matchFirst_prefix (g : GRE) (hf : fuelOK g = true) (hn : noEol g = true) (inp : List Nat) :
    (matchFirst g inp).isSome = true ↔ ∃ j, j ≤ inp.length ∧ RE.lang (toRE [] g) (inp.take j) := by
  rw [matchFirst_isSome_iff g hf inp]
  constructor
  · rintro ⟨j, hj⟩
    have := (ms_iff_lang inp g hn 0 j (Nat.zero_le _)).1 hj
    exact ⟨j, this.2.1, by simpa [slice] using this.2.2⟩
  · rintro ⟨j, hj, hl⟩
    exact ⟨j, (ms_iff_lang inp g hn 0 j (Nat.zero_le _)).2 ⟨Nat.zero_le _, hj, by simpa [slice] using hl⟩⟩

/-! ## captures -/

/-- bodies of the groups numbered `id` in a pattern -/
def grpBodies (id : Nat) : GRE → List GRE
  | .cat a b => grpBodies id a ++ grpBodies id b
  | .alt a b => grpBodies id a ++ grpBodies id b
  | .star a => grpBodies id a
  | .grp k a => (if k = id then [a] else []) ++ grpBodies id a
  | _ => []

/-- a capture `(id, a, b)` is good for pattern `g` inside `[i, j]` -/
def CapOK (inp : List Nat) (g : GRE) (i j : Nat) (c : Nat × Nat × Nat) : Prop :=
  i ≤ c.2.1 ∧ c.2.2 ≤ j ∧ ∃ body ∈ grpBodies c.1 g, Ms inp body c.2.1 c.2.2

theorem mAll_caps (inp : List Nat) : ∀ (fuel : Nat) (g : GRE) (i : Nat) (caps : Caps) (r : Nat × Caps),
    r ∈ mAll inp fuel g i caps → ∃ new, r.2 = new ++ caps ∧ ∀ c ∈ new, CapOK inp g i r.1 c := by
  intro fuel
  induction fuel with
  | zero => intro g i caps r h; simp [mAll] at h
  | succ f ih =>
    intro g i caps r h
    cases g with
    | eps => simp [mAll] at h; subst h; exact ⟨[], rfl, by simp⟩
    | cls m =>
      simp only [mAll, symAt] at h
      split at h
      · split at h
        · simp at h; subst h; exact ⟨[], rfl, by simp⟩
        · simp at h
      · simp at h
    | cat a b =>
      simp only [mAll, List.mem_flatMap] at h
      obtain ⟨r1, h1, h2⟩ := h
      obtain ⟨n1, e1, p1⟩ := ih a i caps r1 h1
      obtain ⟨n2, e2, p2⟩ := ih b r1.1 r1.2 r h2
      have l1 := ms_le (mAll_sound inp f a i caps r1 h1)
      have l2 := ms_le (mAll_sound inp f b r1.1 r1.2 r h2)
      refine ⟨n2 ++ n1, by rw [e2, e1, List.append_assoc], ?_⟩
      intro c hc
      rcases List.mem_append.1 hc with hc | hc
      · obtain ⟨q1, q2, body, hb, hm⟩ := p2 c hc
        exact ⟨Nat.le_trans l1 q1, q2, body, by simp only [grpBodies, List.mem_append]; exact Or.inr hb, hm⟩
      · obtain ⟨q1, q2, body, hb, hm⟩ := p1 c hc
        exact ⟨q1, Nat.le_trans q2 l2, body, by simp only [grpBodies, List.mem_append]; exact Or.inl hb, hm⟩
    | alt a b =>
      simp only [mAll, List.mem_append] at h
      rcases h with h | h
      · obtain ⟨n1, e1, p1⟩ := ih a i caps r h
        refine ⟨n1, e1, fun c hc => ?_⟩
        obtain ⟨q1, q2, body, hb, hm⟩ := p1 c hc
        exact ⟨q1, q2, body, by simp only [grpBodies, List.mem_append]; exact Or.inl hb, hm⟩
      · obtain ⟨n1, e1, p1⟩ := ih b i caps r h
        refine ⟨n1, e1, fun c hc => ?_⟩
        obtain ⟨q1, q2, body, hb, hm⟩ := p1 c hc
        exact ⟨q1, q2, body, by simp only [grpBodies, List.mem_append]; exact Or.inr hb, hm⟩
    | star a =>
      simp only [mAll, List.mem_append, List.mem_flatMap, List.mem_filter, List.mem_singleton] at h
      rcases h with ⟨r1, ⟨h1, _⟩, h2⟩ | h
      · obtain ⟨n1, e1, p1⟩ := ih a i caps r1 h1
        obtain ⟨n2, e2, p2⟩ := ih (.star a) r1.1 r1.2 r h2
        have l1 := ms_le (mAll_sound inp f a i caps r1 h1)
        have l2 := ms_le (mAll_sound inp f (.star a) r1.1 r1.2 r h2)
        refine ⟨n2 ++ n1, by rw [e2, e1, List.append_assoc], ?_⟩
        intro c hc
        rcases List.mem_append.1 hc with hc | hc
        · obtain ⟨q1, q2, body, hb, hm⟩ := p2 c hc
          exact ⟨Nat.le_trans l1 q1, q2, body, by simpa only [grpBodies] using hb, hm⟩
        · obtain ⟨q1, q2, body, hb, hm⟩ := p1 c hc
          exact ⟨q1, Nat.le_trans q2 l2, body, by simpa only [grpBodies] using hb, hm⟩
      · subst h; exact ⟨[], rfl, by simp⟩
    | grp id a =>
      simp only [mAll, List.mem_map] at h
      obtain ⟨r1, h1, rfl⟩ := h
      obtain ⟨n1, e1, p1⟩ := ih a i caps r1 h1
      have hm1 := mAll_sound inp f a i caps r1 h1
      refine ⟨(id, i, r1.1) :: n1, by simp [e1], ?_⟩
      intro c hc
      rcases List.mem_cons.1 hc with rfl | hc
      · exact ⟨Nat.le_refl _, Nat.le_refl _, a, by simp [grpBodies], hm1⟩
      · obtain ⟨q1, q2, body, hb, hm⟩ := p1 c hc
        exact ⟨q1, q2, body, by simp only [grpBodies, List.mem_append]; exact Or.inr hb, hm⟩
    | eol nl =>
      simp only [mAll, symAt] at h
      split at h
      · simp at h; subst h; exact ⟨[], rfl, by simp⟩
      · split at h
        · split at h
          · split at h
            · simp at h; subst h; exact ⟨[], rfl, by simp⟩
            · simp at h
          · simp at h
        · simp at h

/-- **captures are matches of their group**: the span `re.match` reports for group `id` lies inside the
    match and is matched by the body of a group numbered `id` -/
theorem span_sound (g : GRE) (inp : List Nat) (r : Nat × Caps) (h : matchFirst g inp = some r)
    (id a b : Nat) (hs : span r.2 id = some (a, b)) :
    a ≤ b ∧ b ≤ r.1 ∧ r.1 ≤ inp.length ∧ ∃ body ∈ grpBodies id g, Ms inp body a b := by
  have hmem : r ∈ mAll inp (fuelFor inp) g 0 [] := by
    unfold matchFirst at h; exact List.mem_of_mem_head? (by rw [h]; rfl)
  obtain ⟨new, e, p⟩ := mAll_caps inp _ g 0 [] r hmem
  simp only [List.append_nil] at e
  unfold span at hs
  cases hf : List.find? (fun c => c.1 == id) r.2 with
  | none => rw [hf] at hs; cases hs
  | some c =>
    rw [hf] at hs
    simp only [Option.map_some, Option.some.injEq] at hs
    have hc : c ∈ new := by rw [← e]; exact List.mem_of_find?_eq_some hf
    have hid : c.1 = id := by simpa using List.find?_some hf
    obtain ⟨_, q2, body, hb, hm⟩ := p c hc
    rw [hs] at q2 hm
    rw [hid] at hb
    exact ⟨ms_le hm, q2, ms_bound (mAll_sound inp _ g 0 [] r hmem) (Nat.zero_le _), body, hb, hm⟩

/-- every match of `g` records a capture for at least one of the groups `ids` -/
def mandatory (ids : List Nat) : GRE → Bool
  | .cat a b => mandatory ids a || mandatory ids b
  | .alt a b => mandatory ids a && mandatory ids b
  | .grp k a => ids.contains k || mandatory ids a
  | _ => false

theorem mAll_mandatory (inp : List Nat) (ids : List Nat) : ∀ (fuel : Nat) (g : GRE) (i : Nat) (caps : Caps)
    (r : Nat × Caps), mandatory ids g = true → r ∈ mAll inp fuel g i caps →
    ∃ new, r.2 = new ++ caps ∧ ∃ c ∈ new, ids.contains c.1 = true := by
  intro fuel
  induction fuel with
  | zero => intro g i caps r _ h; simp [mAll] at h
  | succ f ih =>
    intro g i caps r hm h
    cases g with
    | eps => simp [mandatory] at hm
    | cls m => simp [mandatory] at hm
    | star a => simp [mandatory] at hm
    | eol nl => simp [mandatory] at hm
    | cat a b =>
      simp only [mAll, List.mem_flatMap] at h
      obtain ⟨r1, h1, h2⟩ := h
      obtain ⟨n1, e1, _⟩ := mAll_caps inp f a i caps r1 h1
      obtain ⟨n2, e2, _⟩ := mAll_caps inp f b r1.1 r1.2 r h2
      simp only [mandatory, Bool.or_eq_true] at hm
      refine ⟨n2 ++ n1, by rw [e2, e1, List.append_assoc], ?_⟩
      rcases hm with hm | hm
      · obtain ⟨n1', e1', c, hc, hid⟩ := ih a i caps r1 hm h1
        have : n1' = n1 := List.append_cancel_right (e1'.symm.trans e1)
        subst this
        exact ⟨c, List.mem_append.2 (Or.inr hc), hid⟩
      · obtain ⟨n2', e2', c, hc, hid⟩ := ih b r1.1 r1.2 r hm h2
        have : n2' = n2 := List.append_cancel_right (e2'.symm.trans e2)
        subst this
        exact ⟨c, List.mem_append.2 (Or.inl hc), hid⟩
    | alt a b =>
      simp only [mAll, List.mem_append] at h
      simp only [mandatory, Bool.and_eq_true] at hm
      rcases h with h | h
      · exact ih a i caps r hm.1 h
      · exact ih b i caps r hm.2 h
    | grp id a =>
      simp only [mAll, List.mem_map] at h
      obtain ⟨r1, h1, rfl⟩ := h
      obtain ⟨n1, e1, _⟩ := mAll_caps inp f a i caps r1 h1
      simp only [mandatory, Bool.or_eq_true] at hm
      refine ⟨(id, i, r1.1) :: n1, by simp [e1], ?_⟩
      rcases hm with hm | hm
      · exact ⟨(id, i, r1.1), List.mem_cons_self, hm⟩
      · obtain ⟨n1', e1', c, hc, hid⟩ := ih a i caps r1 hm h1
        have : n1' = n1 := List.append_cancel_right (e1'.symm.trans e1)
        subst this
        exact ⟨c, List.mem_cons_of_mem _ hc, hid⟩

/-- **a mandatory group always has a span**: if every match of `g` passes through a group among `ids`,
    `re.match` reports a span for one of them -/
theorem span_mandatory (g : GRE) (ids : List Nat) (hm : mandatory ids g = true) (inp : List Nat) (r : Nat × Caps)
    (h : matchFirst g inp = some r) : ∃ id ∈ ids, (span r.2 id).isSome = true := by
  have hmem : r ∈ mAll inp (fuelFor inp) g 0 [] := by
    unfold matchFirst at h; exact List.mem_of_mem_head? (by rw [h]; rfl)
  obtain ⟨new, e, c, hc, hid⟩ := mAll_mandatory inp ids _ g 0 [] r hm hmem
  simp only [List.append_nil] at e
  refine ⟨c.1, by simpa using hid, ?_⟩
  unfold span
  rw [Option.isSome_map, List.find?_isSome]
  exact ⟨c, by rw [e]; exact hc, by simp⟩

end GRE
end AthlibVerif
