import AthlibVerif.Model.Digits
/-! # L3 lemmas: `val` of concatenations, bounds, `render`, zero padding/stripping, slicing.  Core Lean only. -/
namespace AthlibVerif.Digits

theorem dval_le (c : Char) : dval c ≤ 9 := by
  unfold dval; repeat' split
  all_goals omega

theorem dval_digitChar (d : Nat) (h : d < 10) : dval (digitChar d) = d := by
  match d, h with
  | 0, _ | 1, _ | 2, _ | 3, _ | 4, _ | 5, _ | 6, _ | 7, _ | 8, _ | 9, _ => decide

theorem isDig_digitChar (d : Nat) : isDig (digitChar d) = true := by
  unfold digitChar; split <;> decide

theorem eq_digitChar_of_isDig (c : Char) (h : isDig c = true) : c = digitChar (c.toNat - 48) ∧ c.toNat - 48 < 10 := by
  have hc : Char.ofNat c.toNat = c := Char.ofNat_toNat c
  unfold isDig at h
  simp only [Bool.and_eq_true, decide_eq_true_eq] at h
  obtain ⟨h1, h2⟩ := h
  generalize c.toNat = n at *
  have : n = 48 ∨ n = 49 ∨ n = 50 ∨ n = 51 ∨ n = 52 ∨ n = 53 ∨ n = 54 ∨ n = 55 ∨ n = 56 ∨ n = 57 := by omega
  rcases this with rfl | rfl | rfl | rfl | rfl | rfl | rfl | rfl | rfl | rfl <;> (subst hc; exact ⟨by decide, by omega⟩)

/-- a digit other than `'0'` has a positive value -/
theorem dval_pos (c : Char) (h : isDig c = true) (h0 : c ≠ '0') : 0 < dval c := by
  obtain ⟨e, hlt⟩ := eq_digitChar_of_isDig c h
  rw [e, dval_digitChar _ hlt]
  rcases Nat.eq_zero_or_pos (c.toNat - 48) with hz | hz
  · rw [hz] at e; exact absurd e h0
  · exact hz

theorem valAux_eq (a : Nat) (l : List Char) : valAux a l = a * 10 ^ l.length + valAux 0 l := by
  induction l generalizing a with
  | nil => simp [valAux]
  | cons c cs ih =>
    simp only [valAux, List.length_cons]
    rw [ih (10 * a + dval c), ih (10 * 0 + dval c)]
    grind

@[simp] theorem val_nil : val [] = 0 := rfl

theorem val_cons (c : Char) (cs : List Char) : val (c :: cs) = dval c * 10 ^ cs.length + val cs := by
  simp only [val, valAux]; rw [valAux_eq]; simp

theorem val_append (a b : List Char) : val (a ++ b) = val a * 10 ^ b.length + val b := by
  induction a with
  | nil => simp
  | cons c cs ih =>
    rw [List.cons_append, val_cons, val_cons, ih, List.length_append]
    grind

theorem val_lt (l : List Char) : val l < 10 ^ l.length := by
  induction l with
  | nil => simp
  | cons c cs ih =>
    rw [val_cons, List.length_cons, Nat.pow_succ]
    have := dval_le c
    have h1 : dval c * 10 ^ cs.length ≤ 9 * 10 ^ cs.length := Nat.mul_le_mul_right _ this
    omega

theorem val_singleton (c : Char) : val [c] = dval c := by simp [val_cons]

@[simp] theorem zeros_length (k : Nat) : (zeros k).length = k := by simp [zeros]

theorem val_zeros (k : Nat) : val (zeros k) = 0 := by
  induction k with
  | zero => rfl
  | succ k ih =>
    have : zeros (k + 1) = '0' :: zeros k := by simp [zeros, List.replicate_succ]
    have h0 : dval '0' = 0 := by decide
    rw [this, val_cons, ih, h0]; simp

theorem val_zeros_append (k : Nat) (l : List Char) : val (zeros k ++ l) = val l := by
  rw [val_append, val_zeros]; simp

theorem val_append_zeros (l : List Char) (k : Nat) : val (l ++ zeros k) = val l * 10 ^ k := by
  rw [val_append, val_zeros]; simp

theorem allDig_nil : allDig [] = true := rfl
theorem allDig_cons (c : Char) (cs : List Char) : allDig (c :: cs) = (isDig c && allDig cs) := by
  simp [allDig]
theorem allDig_append (a b : List Char) : allDig (a ++ b) = (allDig a && allDig b) := by
  simp [allDig]
theorem allDig_zeros (k : Nat) : allDig (zeros k) = true := by
  simp only [allDig, zeros, List.all_replicate]; simp; right; decide
theorem allDig_take (l : List Char) (k : Nat) (h : allDig l = true) : allDig (l.take k) = true := by
  simp only [allDig, List.all_eq_true] at *
  exact fun x hx => h x (List.mem_of_mem_take hx)
theorem allDig_drop (l : List Char) (k : Nat) (h : allDig l = true) : allDig (l.drop k) = true := by
  simp only [allDig, List.all_eq_true] at *
  exact fun x hx => h x (List.mem_of_mem_drop hx)
theorem not_mem_of_allDig (l : List Char) (c : Char) (h : allDig l = true) (hc : isDig c = false) : c ∉ l := by
  intro hm
  simp only [allDig, List.all_eq_true] at h
  have := h c hm; simp [hc] at this

/-- slicing a string splits its value: `val l = val l[:k] · 10^(len − k) + val l[k:]` -/
theorem val_take_drop (l : List Char) (k : Nat) :
    val l = val (l.take k) * 10 ^ (l.length - k) + val (l.drop k) := by
  have h := val_append (l.take k) (l.drop k)
  rw [List.take_append_drop, List.length_drop] at h
  exact h

/-! ### render -/

theorem renderAux_spec (fuel n : Nat) (acc : List Char) (h : n < fuel) :
    val (renderAux fuel n acc) = n * 10 ^ acc.length + val acc ∧
    (allDig acc = true → allDig (renderAux fuel n acc) = true) ∧
    acc.length < (renderAux fuel n acc).length := by
  induction fuel generalizing n acc with
  | zero => omega
  | succ fuel ih =>
    unfold renderAux
    split
    · rename_i hn
      refine ⟨?_, ?_, by simp⟩
      · rw [val_cons, dval_digitChar n hn]
      · intro ha; rw [allDig_cons, isDig_digitChar, ha]; rfl
    · rename_i hn
      have hlt : n / 10 < fuel := by omega
      obtain ⟨h1, h2, h3⟩ := ih (n / 10) (digitChar (n % 10) :: acc) hlt
      refine ⟨?_, ?_, ?_⟩
      · rw [h1, val_cons, dval_digitChar _ (Nat.mod_lt _ (by omega)), List.length_cons, Nat.pow_succ]
        have := Nat.div_add_mod n 10
        grind
      · intro ha; apply h2; rw [allDig_cons, isDig_digitChar, ha]; rfl
      · simp only [List.length_cons] at h3; omega

theorem val_render (n : Nat) : val (render n) = n := by
  have := (renderAux_spec (n + 1) n [] (by omega)).1
  simpa [render] using this

theorem allDig_render (n : Nat) : allDig (render n) = true :=
  (renderAux_spec (n + 1) n [] (by omega)).2.1 rfl

theorem render_length_pos (n : Nat) : 0 < (render n).length := by
  have := (renderAux_spec (n + 1) n [] (by omega)).2.2
  simpa [render] using this

theorem render_ne_nil (n : Nat) : render n ≠ [] := by
  intro h; have := render_length_pos n; rw [h] at this; simp at this

/-! ### stripping zeros -/

theorem val_stripZeros (l : List Char) : val (stripZeros l) = val l := by
  induction l with
  | nil => rfl
  | cons c cs ih =>
    unfold stripZeros
    split
    · rename_i h; subst h; rw [ih, val_cons]
      have : dval '0' = 0 := by decide
      rw [this]; simp
    · rfl

/-- for digit strings: nothing is left after stripping zeros exactly when the value is zero -/
theorem stripZeros_eq_nil_iff (l : List Char) (h : allDig l = true) : stripZeros l = [] ↔ val l = 0 := by
  induction l with
  | nil => simp [stripZeros]
  | cons c cs ih =>
    rw [allDig_cons, Bool.and_eq_true] at h
    unfold stripZeros
    split
    · rename_i hc; subst hc
      rw [ih h.2, val_cons]
      have : dval '0' = 0 := by decide
      rw [this]; simp
    · rename_i hc
      simp only [reduceCtorEq, false_iff]
      rw [val_cons]
      have hpos : 0 < dval c := dval_pos c h.1 hc
      have : 0 < 10 ^ cs.length := Nat.pow_pos (by omega)
      have := Nat.mul_pos hpos this
      omega

end AthlibVerif.Digits
