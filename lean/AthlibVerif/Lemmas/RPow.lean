import Mathlib.Analysis.SpecialFunctions.Pow.Real
import Mathlib.Algebra.Order.Floor.Semifield
import AthlibVerif.Lemmas.Exact
/-! bridge from the integer computation `floorPow` to the real formula `⌊A · D ^ X⌋` (Mathlib's `Real.rpow`) -/
namespace AthlibVerif
open Real

/-- `p ≤ A · D^(a/b) ↔ p^b ≤ A^b · D^a` for `A, D, p ≥ 0`, `b > 0` -/
theorem le_mul_rpow_iff (p A D : ℝ) (a b : ℕ) (hb : 0 < b) (hp : 0 ≤ p) (hA : 0 ≤ A) (hD : 0 ≤ D) :
    p ≤ A * D ^ ((a : ℝ) / (b : ℝ)) ↔ p ^ b ≤ A ^ b * D ^ a := by
  have hb' : (b : ℝ) ≠ 0 := by exact_mod_cast hb.ne'
  have h1 : (A * D ^ ((a : ℝ) / (b : ℝ))) ^ b = A ^ b * D ^ a := by
    rw [mul_pow, ← Real.rpow_natCast (D ^ ((a:ℝ)/(b:ℝ))) b, ← Real.rpow_mul hD, div_mul_cancel₀ _ hb', Real.rpow_natCast]
  have hR : 0 ≤ A * D ^ ((a : ℝ) / (b : ℝ)) := mul_nonneg hA (Real.rpow_nonneg hD _)
  rw [← h1]
  exact (pow_le_pow_iff_left₀ hp hR hb.ne').symm

theorem natCast_le_formula_iff (aN aD dN dD xa xb p : ℕ) (hb : 0 < xb) (haD : 0 < aD) (hdD : 0 < dD) :
    (p : ℝ) ≤ ((aN : ℝ) / aD) * ((dN : ℝ) / dD) ^ ((xa : ℝ) / (xb : ℝ)) ↔ p ≤ floorPow aN aD dN dD xa xb := by
  rw [le_floorPow_iff aN aD dN dD xa xb p hb haD hdD]
  rw [le_mul_rpow_iff _ _ _ xa xb hb (Nat.cast_nonneg p) (by positivity) (by positivity)]
  have haD' : (0 : ℝ) < (aD : ℝ) ^ xb := by positivity
  have hdD' : (0 : ℝ) < (dD : ℝ) ^ xa := by positivity
  rw [div_pow, div_pow, div_mul_div_comm, le_div_iff₀ (by positivity)]
  exact_mod_cast Iff.rfl

/-- the integer computation equals the floor of the real formula -/
theorem floorPow_eq_floor_rpow (aN aD dN dD xa xb : ℕ) (hb : 0 < xb) (haD : 0 < aD) (hdD : 0 < dD) :
    floorPow aN aD dN dD xa xb = ⌊((aN : ℝ) / aD) * ((dN : ℝ) / dD) ^ ((xa : ℝ) / (xb : ℝ))⌋₊ := by
  have h0 : (0 : ℝ) ≤ ((aN : ℝ) / aD) * ((dN : ℝ) / dD) ^ ((xa : ℝ) / (xb : ℝ)) := by positivity
  apply le_antisymm
  · rw [Nat.le_floor_iff h0, natCast_le_formula_iff _ _ _ _ _ _ _ hb haD hdD]
  · rw [← natCast_le_formula_iff _ _ _ _ _ _ _ hb haD hdD]
    exact Nat.floor_le h0

end AthlibVerif
