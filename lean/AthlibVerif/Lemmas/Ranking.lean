/-!
# Shared-place numbering over a stable sort — the algorithm of `_rankj`, abstractly

`insertK` / `sortK` is the stable insertion sort used by `HJ.sortRanked`, `placesK` the place
assignment of `HJ.assignPlaces`, both on bare keys.  Theorem `placesK_sorted`: on a sorted list the
place of every entry is `1 +` the number of entries with a strictly smaller key — so equal keys share a
place and places form a standard competition ranking (1, 2, 2, 4 …), whatever the previous order was.
-/
namespace AthlibVerif.Ranking

variable {α : Type} [DecidableEq α]

/-- a strict total order given as a Boolean relation -/
structure StrictTotal (lt : α → α → Bool) : Prop where
  irrefl : ∀ a, lt a a = false
  trans : ∀ a b c, lt a b = true → lt b c = true → lt a c = true
  tri : ∀ a b, lt a b = true ∨ a = b ∨ lt b a = true

def insertK (lt : α → α → Bool) (x : α) : List α → List α
  | [] => [x]
  | a :: rest => if lt x a then x :: a :: rest else a :: insertK lt x rest

def sortK (lt : α → α → Bool) (l : List α) : List α := l.foldl (fun acc x => insertK lt x acc) []

/-- place numbering along a list: first gets 1; same key as the previous entry shares its place; else index+1 -/
def nextPlace (prev : Option (α × Nat)) (k : α) (i : Nat) : Nat :=
  match prev with
  | none => 1
  | some (pk, pp) => if k = pk then pp else i + 1

def placesK : List α → Nat → Option (α × Nat) → List Nat
  | [], _, _ => []
  | k :: rest, i, prev => nextPlace prev k i :: placesK rest (i + 1) (some (k, nextPlace prev k i))

/-- non-decreasing: nothing later is strictly smaller than something earlier -/
def SortedK (lt : α → α → Bool) : List α → Prop
  | [] => True
  | a :: rest => (∀ b ∈ rest, lt b a = false) ∧ SortedK lt rest

def countLt (lt : α → α → Bool) (l : List α) (k : α) : Nat := (l.filter (fun x => lt x k)).length

theorem insertK_mem (lt : α → α → Bool) (x : α) (l : List α) (y : α) : y ∈ insertK lt x l ↔ y = x ∨ y ∈ l := by
  induction l with
  | nil => simp [insertK]
  | cons a rest ih =>
    simp only [insertK]
    split
    · simp
    · simp only [List.mem_cons, ih]
      constructor
      · rintro (h | h | h) <;> simp [h]
      · rintro (h | h | h) <;> simp [h]

theorem insertK_sorted (lt : α → α → Bool) (st : StrictTotal lt) (x : α) (l : List α) (h : SortedK lt l) :
    SortedK lt (insertK lt x l) := by
  induction l with
  | nil => simp [insertK, SortedK]
  | cons a rest ih =>
    simp only [insertK]
    split
    · next hxa =>
      refine ⟨?_, h⟩
      intro b hb
      rcases List.mem_cons.1 hb with rfl | hb
      · -- lt a x = false since lt x a
        cases hax : lt b x with
        | false => rfl
        | true => have := st.trans _ _ _ hxa hax; rw [st.irrefl] at this; cases this
      · cases hbx : lt b x with
        | false => rfl
        | true => have := st.trans _ _ _ hbx hxa; rw [h.1 b hb] at this; cases this
    · next hxa =>
      refine ⟨?_, ih h.2⟩
      intro b hb
      rcases (insertK_mem lt x rest b).1 hb with rfl | hb
      · simpa using hxa
      · exact h.1 b hb

theorem sortK_sorted (lt : α → α → Bool) (st : StrictTotal lt) (l : List α) : SortedK lt (sortK lt l) := by
  unfold sortK
  suffices ∀ acc, SortedK lt acc → SortedK lt (l.foldl (fun acc x => insertK lt x acc) acc) from this [] trivial
  induction l with
  | nil => intro acc h; exact h
  | cons x rest ih => intro acc h; exact ih _ (insertK_sorted lt st x acc h)

theorem sortK_mem (lt : α → α → Bool) (l : List α) (y : α) : y ∈ sortK lt l ↔ y ∈ l := by
  unfold sortK
  suffices ∀ acc, y ∈ l.foldl (fun acc x => insertK lt x acc) acc ↔ y ∈ acc ∨ y ∈ l by simpa using this []
  induction l with
  | nil => intro acc; simp
  | cons x rest ih =>
    intro acc
    rw [List.foldl_cons, ih, insertK_mem]
    simp only [List.mem_cons]
    constructor
    · rintro ((h | h) | h) <;> simp [h]
    · rintro (h | h | h) <;> simp [h]

theorem sorted_append (lt : α → α → Bool) (p s : List α) (h : SortedK lt (p ++ s)) :
    SortedK lt p ∧ SortedK lt s ∧ ∀ a ∈ p, ∀ b ∈ s, lt b a = false := by
  induction p with
  | nil => exact ⟨trivial, by simpa using h, by intro a ha; cases ha⟩
  | cons x p ih =>
    obtain ⟨h1, h2⟩ := h
    obtain ⟨ihp, ihs, ihc⟩ := ih h2
    refine ⟨⟨fun c hc => h1 c (by simp [hc]), ihp⟩, ihs, ?_⟩
    intro a ha b hb
    rcases List.mem_cons.1 ha with rfl | ha
    · exact h1 b (by simp [hb])
    · exact ihc a ha b hb

theorem sorted_last_ge (lt : α → α → Bool) (st : StrictTotal lt) (p : List α) (z : α)
    (h : SortedK lt p) (hl : p.getLast? = some z) : ∀ a ∈ p, lt z a = false := by
  induction p with
  | nil => intro a ha; cases ha
  | cons x p ih =>
    intro a ha
    cases p with
    | nil =>
      simp at hl ha; subst hl; subst ha; exact st.irrefl _
    | cons c p' =>
      have hl' : (c :: p').getLast? = some z := by simpa [List.getLast?_cons_cons] using hl
      rcases List.mem_cons.1 ha with rfl | ha
      · exact h.1 z (List.mem_of_getLast? hl')
      · exact ih h.2 hl' a ha

/-- the invariant of the numbering loop: `p` already numbered, `s` to go; `prev` is the last of `p` with its place -/
theorem placesK_suffix (lt : α → α → Bool) (st : StrictTotal lt) (s : List α) :
    ∀ (p : List α) (prev : Option (α × Nat)),
      SortedK lt (p ++ s) →
      (match prev with
        | none => p = []
        | some (pk, pp) => p.getLast? = some pk ∧ pp = 1 + countLt lt p pk) →
      placesK s p.length prev = s.map (fun k => 1 + countLt lt (p ++ s) k) := by
  induction s with
  | nil => intro p prev _ _; simp [placesK]
  | cons k rest ih =>
    intro p prev hs hprev
    obtain ⟨hsp, hss, hcross⟩ := sorted_append lt p (k :: rest) hs
    have hsort_k : ∀ b ∈ rest, lt b k = false := hss.1
    have hp_le : ∀ a ∈ p, lt k a = false := fun a ha => hcross a ha k (by simp)
    -- count of strictly smaller entries in the whole list = count within p
    have hcount : countLt lt (p ++ k :: rest) k = countLt lt p k := by
      unfold countLt
      rw [List.filter_append, List.length_append]
      have : (List.filter (fun x => lt x k) (k :: rest)) = [] := by
        apply List.filter_eq_nil_iff.2
        intro b hb
        rcases List.mem_cons.1 hb with rfl | hb
        · simp [st.irrefl]
        · simp [hsort_k b hb]
      rw [this]; simp
    simp only [placesK, List.map_cons]
    have hpl : nextPlace prev k p.length = 1 + countLt lt (p ++ k :: rest) k := by
      rw [hcount]
      cases prev with
      | none => simp only at hprev; subst hprev; simp [countLt, nextPlace]
      | some q =>
        obtain ⟨pk, pp⟩ := q
        simp only [nextPlace] at hprev ⊢
        obtain ⟨hlast, hpp⟩ := hprev
        split
        · next hk => subst hk; exact hpp
        · next hk =>
          -- pk ≤ k and pk ≠ k, so pk < k; every entry of p is ≤ pk < k
          have hpkmem : pk ∈ p := List.mem_of_getLast? hlast
          have hpk : lt pk k = true := by
            rcases st.tri pk k with h | h | h
            · exact h
            · exact absurd h.symm hk
            · rw [hp_le pk hpkmem] at h; cases h
          have hall : ∀ a ∈ p, lt a k = true := by
            intro a ha
            have hpa : lt pk a = false := sorted_last_ge lt st p pk hsp hlast a ha
            rcases st.tri a pk with h | h | h
            · exact st.trans _ _ _ h hpk
            · rw [h]; exact hpk
            · rw [hpa] at h; cases h
          unfold countLt
          rw [List.filter_eq_self.2 (by intro a ha; simpa using hall a ha)]
          omega
    rw [hpl]
    congr 1
    have := ih (p ++ [k]) (some (k, 1 + countLt lt (p ++ k :: rest) k)) (by simpa using hs)
      (by
        simp only
        refine ⟨by simp, ?_⟩
        rw [hcount]
        unfold countLt
        rw [List.filter_append, List.length_append]
        simp [st.irrefl])
    simpa using this

/-- **Places are a function of the keys alone.**  After the stable sort, every entry's place is
    `1 +` the number of entries with a strictly smaller key. -/
theorem placesK_sorted (lt : α → α → Bool) (st : StrictTotal lt) (l : List α) :
    placesK (sortK lt l) 0 none = (sortK lt l).map (fun k => 1 + countLt lt (sortK lt l) k) := by
  have := placesK_suffix lt st (sortK lt l) [] none (by simpa using sortK_sorted lt st l) rfl
  simpa using this

end AthlibVerif.Ranking
