import AthlibVerif.Lemmas.Best
/-!
# The shape of every card, in every reachable state

Observable content of the attempt rules: every cell of every card holds at most three marks, failures first and
then at most one closing mark (clearance, pass or retirement) — `CellOK`.  Behind it: the flags the guard of
`_set_jump_array` reads (`eliminated`, `dismissed`, `round_lim`) are tied to the card (`FlagInv`), and ranking only
ever re-instates (`RankRel`).
-/
namespace AthlibVerif.HJ

/-- only failures so far: the cell is still open -/
def allX (cell : List Trial) : Bool := cell.all (· == .x)

/-- failures, then at most one closing mark; at most three marks -/
def CellOK (cell : List Trial) : Prop := allX cell.dropLast = true ∧ cell.length ≤ 3

theorem cellOK_nil : CellOK [] := ⟨rfl, by simp⟩

theorem cellOK_snoc (cell : List Trial) (t : Trial) (h : allX cell = true) (hl : cell.length < 3) : CellOK (cell ++ [t]) := by
  refine ⟨by simpa using h, by simp; omega⟩

theorem allX_snoc (cell : List Trial) (h : allX cell = true) : allX (cell ++ [.x]) = true := by
  unfold allX at *; simp [List.all_append, h]

/-- what the flags say about the card -/
structure FlagInv (hs : List Int) (j : Jumper) : Prop where
  len : j.card.length ≤ hs.length
  cells : ∀ cell ∈ j.card, CellOK cell
  lim : j.roundLim = 1 ∨ j.roundLim = 3
  outDone : j.eliminated = true → j.dismissed = true
  openCell : j.eliminated = false → j.dismissed = false → allX ((padCard j.card hs.length).getLast?.getD []) = true

/-- what ranking may do to a record: places, and re-instatement -/
def RankRel (j j' : Jumper) : Prop :=
  j'.card = j.card ∧ j'.dismissed = j.dismissed ∧ (j'.roundLim = j.roundLim ∨ j'.roundLim = 1) ∧
  (j'.eliminated = j.eliminated ∨ j'.eliminated = false)

theorem RankRel.refl (j : Jumper) : RankRel j j := ⟨rfl, rfl, Or.inl rfl, Or.inl rfl⟩
theorem RankRel.trans {a b c : Jumper} (h1 : RankRel a b) (h2 : RankRel b c) : RankRel a c := by
  obtain ⟨a1, a2, a3, a4⟩ := h1
  obtain ⟨b1, b2, b3, b4⟩ := h2
  refine ⟨b1.trans a1, b2.trans a2, ?_, ?_⟩
  · rcases b3 with h | h
    · rw [h]; exact a3
    · exact Or.inr h
  · rcases b4 with h | h
    · rw [h]; exact a4
    · exact Or.inr h

theorem FlagInv_of_rel (hs : List Int) (j j' : Jumper) (hr : RankRel j j') (h : FlagInv hs j) : FlagInv hs j' := by
  obtain ⟨r1, r2, r3, r4⟩ := hr
  refine ⟨by rw [r1]; exact h.len, by rw [r1]; exact h.cells, ?_, ?_, ?_⟩
  · rcases r3 with e | e
    · rw [e]; exact h.lim
    · exact Or.inl e
  · intro he
    rw [r2]
    rcases r4 with e | e
    · exact h.outDone (e ▸ he)
    · rw [e] at he; cases he
  · intro he hd
    rw [r1]
    rw [r2] at hd
    rcases r4 with e | e
    · exact h.openCell (e ▸ he) hd
    · -- re-instated: if it was out it is still marked done, so this case is empty; if it was in, nothing changed
      cases hel : j.eliminated with
      | false => exact h.openCell hel hd
      | true => have := h.outDone hel; rw [this] at hd; cases hd

/-- every record after comes, by `RankRel`, from a record before -/
def RelFrom (l l' : List Jumper) : Prop := ∀ j' ∈ l', ∃ j ∈ l, RankRel j j'

theorem RelFrom.refl (l : List Jumper) : RelFrom l l := fun j hj => ⟨j, hj, RankRel.refl j⟩
theorem RelFrom.trans {a b c : List Jumper} (h1 : RelFrom a b) (h2 : RelFrom b c) : RelFrom a c := by
  intro j'' hj''
  obtain ⟨j', hj', e⟩ := h2 j'' hj''
  obtain ⟨j, hj, f⟩ := h1 j' hj'
  exact ⟨j, hj, f.trans e⟩

theorem RelFrom_map (l : List Jumper) (f : Jumper → Jumper) (hf : ∀ k, RankRel k (f k)) : RelFrom l (l.map f) := by
  intro j' hj'
  obtain ⟨j, hj, rfl⟩ := List.mem_map.1 hj'
  exact ⟨j, hj, hf j⟩

theorem rel_reinstate (j : Jumper) : RankRel j (reinstate j) := ⟨rfl, rfl, Or.inr rfl, Or.inr rfl⟩

theorem RelFrom_update (c : Comp) (j0 j1 : Jumper) (h0 : j0 ∈ c.jumpers) (h : RankRel j0 j1) :
    RelFrom c.jumpers (c.update j1).jumpers := by
  intro j' hj'
  unfold Comp.update at hj'
  obtain ⟨k, hk, rfl⟩ := List.mem_map.1 hj'
  split
  · exact ⟨j0, h0, h⟩
  · exact ⟨k, hk, RankRel.refl k⟩

theorem rankj_rel (c : Comp) (h : WF c) : RelFrom c.jumpers (rankj c).jumpers := by
  rw [rankj_jumpers c h]
  exact RelFrom_map _ _ (fun k => ⟨rfl, rfl, Or.inl rfl, Or.inl rfl⟩)

theorem rankTie_rel (c : Comp) (h : WF c) : RelFrom c.jumpers (rankTie c).jumpers := by
  unfold rankTie
  simp only
  have hm : RelFrom c.jumpers (c.jumpers.map (fun (j : Jumper) => if reinstated c j then reinstate j else j)) :=
    RelFrom_map _ _ (fun k => by split; exact rel_reinstate k; exact RankRel.refl k)
  have hb : (c.jumpers.map (fun (j : Jumper) => if reinstated c j then reinstate j else j)).map (·.bib) = c.jumpers.map (·.bib) := by
    rw [List.map_map]
    apply List.map_congr_left
    intro k _
    simp only [Function.comp_apply]
    split <;> rfl
  split
  · have hwf : WF ({ { c with jumpers := c.jumpers.map (fun (j : Jumper) => if reinstated c j then reinstate j else j) } with phase := Phase.jumpoff } : Comp) :=
      WF_of_same_bibs c _ hb (List.Perm.refl _) h
    exact hm.trans (rankj_rel _ hwf)
  · exact hm

theorem rankLeader_rel (c : Comp) (r0 : Nat) (h : WF c) : RelFrom c.jumpers (rankLeader c r0).jumpers := by
  unfold rankLeader
  split
  · next j0 hj0 =>
    split
    · have hwf : WF (c.update (reinstate j0)) := WF_of_same_bibs c _ (update_bibs c _) (List.Perm.refl _) h
      exact (RelFrom_update c j0 (reinstate j0) (find_some_mem c r0 j0 hj0).1 (rel_reinstate j0)).trans (rankj_rel _ hwf)
    · exact RelFrom.refl _
  · exact RelFrom.refl _

theorem rank_rel (c0 : Comp) (h : WF c0) : RelFrom c0.jumpers (rank c0).jumpers := by
  have hw := rankj_WF c0 h
  have hc := rankj_rel c0 h
  unfold rank
  simp only
  split
  · exact hc
  · split
    · split
      · exact hc.trans (rankTie_rel _ hw)
      · exact hc.trans (rankLeader_rel _ _ hw)
    · unfold rankOneLeft; split <;> exact hc
    · exact hc

/-- the flags of every athlete agree with the card -/
def AllFlags (c : Comp) : Prop := ∀ j ∈ c.jumpers, FlagInv c.heights j

theorem padCard_mem (card : List (List Trial)) (n : Nat) (cell : List Trial) (h : cell ∈ padCard card n) :
    cell ∈ card ∨ cell = [] := by
  unfold padCard at h
  rcases List.mem_append.1 h with h | h
  · exact Or.inl h
  · exact Or.inr (List.eq_of_mem_replicate h)

theorem appendLast_mem (card : List (List Trial)) (t : Trial) (cell : List Trial) (hne : card ≠ [])
    (h : cell ∈ appendLast card t) : cell ∈ card ∨ cell = card.getLast?.getD [] ++ [t] := by
  obtain ⟨init, last, rfl⟩ : ∃ init last, card = init ++ [last] := by
    rcases List.eq_nil_or_concat card with h' | ⟨init, last, h'⟩
    · exact absurd h' hne
    · exact ⟨init, last, by simpa using h'⟩
  rw [appendLast_concat] at h
  rcases List.mem_append.1 h with h | h
  · exact Or.inl (List.mem_append.2 (Or.inl h))
  · right
    simp only [List.mem_singleton] at h
    simp [h]

theorem appendLast_getLast (card : List (List Trial)) (t : Trial) (hne : card ≠ []) :
    (appendLast card t).getLast?.getD [] = card.getLast?.getD [] ++ [t] := by
  obtain ⟨init, last, rfl⟩ : ∃ init last, card = init ++ [last] := by
    rcases List.eq_nil_or_concat card with h' | ⟨init, last, h'⟩
    · exact absurd h' hne
    · exact ⟨init, last, by simpa using h'⟩
  rw [appendLast_concat]; simp

theorem padCard_of_full (card : List (List Trial)) (n : Nat) (h : card.length = n) : padCard card n = card := by
  unfold padCard; simp [h]

/-- an accepted trial keeps the flags in step with the card -/
theorem FlagInv_act (hs : List Int) (j j' : Jumper) (t : Trial) (h : FlagInv hs j) (hpos : hs ≠ [])
    (hact : j.act hs.length (hs.getLast?.getD 0) t = some j') : FlagInv hs j' := by
  obtain ⟨he, hd, hlt⟩ := act_some j j' _ _ t hact
  rw [act_core j j' _ _ t hact]
  have hp : 0 < hs.length := List.length_pos_iff.2 hpos
  have hopen := h.openCell he hd
  have hl3 : ((padCard j.card hs.length).getLast?.getD []).length < 3 := by
    rcases h.lim with e | e <;> omega
  have hplen : (padCard j.card hs.length).length = hs.length := by
    rw [padCard_length]; have := h.len; omega
  have hpne : padCard j.card hs.length ≠ [] := by
    intro e; rw [e] at hplen; simp at hplen; omega
  have hnewlen : (appendLast (padCard j.card hs.length) t).length = hs.length :=
    ((appendLast_spec _ t hpne).1).trans hplen
  have hcells : ∀ cell ∈ appendLast (padCard j.card hs.length) t, CellOK cell := by
    intro cell hc
    rcases appendLast_mem _ t cell hpne hc with hc | hc
    · rcases padCard_mem _ _ _ hc with hc | hc
      · exact h.cells cell hc
      · rw [hc]; exact cellOK_nil
    · rw [hc]; exact cellOK_snoc _ t hopen hl3
  have hlastnew : (padCard (appendLast (padCard j.card hs.length) t) hs.length).getLast?.getD [] =
      (padCard j.card hs.length).getLast?.getD [] ++ [t] := by
    rw [padCard_of_full _ _ hnewlen, appendLast_getLast _ t hpne]
  cases t with
  | o =>
    simp only [Jumper.actCore]
    split
    · exact ⟨by simp [hnewlen], hcells, h.lim, fun _ => rfl, fun _ hd' => by simp at hd'⟩
    · exact ⟨by simp [hnewlen], hcells, h.lim, fun _ => rfl, fun _ hd' => by simp at hd'⟩
  | x =>
    simp only [Jumper.actCore]
    split
    · exact ⟨by simp [hnewlen], hcells, h.lim, fun _ => rfl, fun he' _ => by simp at he'⟩
    · refine ⟨by simp [hnewlen], hcells, h.lim, fun he' => ?_, fun _ _ => ?_⟩
      · simp only at he'; rw [he] at he'; cases he'
      · simp only
        rw [hlastnew]
        exact allX_snoc _ hopen
  | p =>
    simp only [Jumper.actCore]
    exact ⟨by simp [hnewlen], hcells, h.lim, fun _ => rfl, fun _ hd' => by simp at hd'⟩
  | r =>
    simp only [Jumper.actCore]
    exact ⟨by simp [hnewlen], hcells, h.lim, fun _ => rfl, fun he' _ => by simp at he'⟩

theorem padCard_last_of_short (card : List (List Trial)) (n : Nat) (h : card.length < n) :
    (padCard card n).getLast?.getD [] = [] := by
  unfold padCard
  have : n - card.length = (n - card.length - 1) + 1 := by omega
  rw [this, List.replicate_succ', ← List.append_assoc]
  simp

theorem step_AllFlags (c : Comp) (op : Op) (hw : WF c) (h : AllFlags c) : AllFlags (step c op).1 := by
  cases op with
  | add b =>
    rw [step_add]
    split
    · intro j hj
      simp only [addResult, List.mem_append, List.mem_singleton] at hj ⊢
      rcases hj with hj | rfl
      · exact h j hj
      · refine ⟨by simp, by simp, Or.inr rfl, by simp, fun _ _ => ?_⟩
        simp only [padCard, List.length_nil, Nat.sub_zero, List.nil_append]
        cases hl : c.heights.length with
        | zero => rfl
        | succ n => rw [List.replicate_succ']; simp; rfl
    · exact h
  | bar x =>
    rw [step_bar]
    split
    · intro j' hj'
      simp only [barResult] at hj' ⊢
      obtain ⟨j, hj, rfl⟩ := List.mem_map.1 hj'
      have hj0 := h j hj
      have hshort : j.card.length < (c.heights ++ [x]).length := by have := hj0.len; simp; omega
      split
      · refine ⟨Nat.le_of_lt hshort, hj0.cells, hj0.lim, fun he => ?_, fun _ _ => ?_⟩
        · simp_all
        · rw [padCard_last_of_short _ _ hshort]; rfl
      · next hel =>
        refine ⟨Nat.le_of_lt hshort, hj0.cells, hj0.lim, hj0.outDone, fun he _ => ?_⟩
        simp_all
    · exact h
  | trial b t =>
    rcases step_trial c b t with ⟨j, j', hf, _, hne, hact, hs⟩ | ⟨h1, _⟩
    · rw [hs]
      show AllFlags (rank (logTrial c b t j'))
      have hwl : WF (logTrial c b t j') := WF_of_same_bibs c (logTrial c b t j') (by simp [update_bibs]) (List.Perm.refl _) hw
      have hbl : AllFlags (logTrial c b t j') := by
        intro k' hk'
        simp only [logTrial_jumpers, Comp.update] at hk'
        obtain ⟨k, hk, rfl⟩ := List.mem_map.1 hk'
        show FlagInv c.heights _
        split
        · exact FlagInv_act c.heights j j' t (h j (find_some_mem c b j hf).1) hne hact
        · exact h k hk
      intro k' hk'
      obtain ⟨k, hk, hr⟩ := rank_rel _ hwl k' hk'
      rw [(rank_frame _).1.2.1]
      exact FlagInv_of_rel _ k k' hr (hbl k hk)
    · rw [h1]; exact h

end AthlibVerif.HJ
