import AthlibVerif.Lemmas.Times
/-! # helper lemmas for C06: `format_seconds_as_time` on a fixed-notation residue.  Core Lean only. -/
namespace AthlibVerif.Times
open AthlibVerif.Digits

/-- the residue texts a fixed-notation rendering of a float in `[0, 1]` can be: `'0'` (an `int` argument),
`'0.ddd…'`, or `'1.000…'` (a residue that rounds to one) -/
inductive FixedResidue : List Char → Prop
  | zero : FixedResidue ['0']
  | frac (ds : List Char) : allDig ds = true → FixedResidue ('0' :: '.' :: ds)
  | one (k : Nat) : FixedResidue ('1' :: '.' :: zeros k)

/-- a decimal text cut after `m` decimals, as `(numerator, number of decimals)`: value = `num / 10^dec` -/
def truncDec (t : List Char) (m : Nat) : Nat × Nat :=
  match splitDot t with
  | (i, none) => (val i, 0)
  | (i, some f) => (val i * 10 ^ (f.take m).length + val (f.take m), (f.take m).length)

/-- `'.' + digits` at precision `p > 0`, nothing at precision 0 -/
def fracPart (fd : List Char) (p : Nat) : List Char := if p = 0 then [] else '.' :: fd

theorem join_single (c : Char) (fd : List Char) (p : Nat) : join [c] fd p = c :: fracPart fd p := by
  unfold join fracPart; split <;> simp_all

theorem length_one {α} (l : List α) (h : l.length = 1) : ∃ c, l = [c] := by
  match l, h with
  | [c], _ => exact ⟨c, rfl⟩

theorem take_zeros (k m : Nat) : (zeros k).take m = zeros (min m k) := by
  simp [zeros, List.take_replicate]

/-- what `round_up_str_num` makes of a fixed-notation residue: one leading digit `c`, then `p` decimals;
together the ceiling of the residue cut to five decimals, and at most one whole second -/
theorem roundUp_residue (t : List Char) (p : Nat) (ht : FixedResidue t) :
    ∃ c fd, roundUpStr t p 5 = c :: fracPart fd p ∧ isDig c = true ∧ allDig fd = true ∧ fd.length = p ∧
      IsCeil (dval c * 10 ^ p + val fd) ((truncDec t 5).1 * 10 ^ p) (10 ^ (truncDec t 5).2) ∧
      dval c * 10 ^ p + val fd ≤ 10 ^ p := by
  -- all three shapes go through `roundUpCore_spec` with a one-character integer part
  have key : ∀ (i g : List Char), i.length = 1 → allDig i = true → allDig g = true →
      (val i = 0 ∨ (val i = 1 ∧ val g = 0)) →
      ∃ c fd, roundUpCore i g p = c :: fracPart fd p ∧ isDig c = true ∧ allDig fd = true ∧ fd.length = p ∧
        IsCeil (dval c * 10 ^ p + val fd) ((val i * 10 ^ g.length + val g) * 10 ^ p) (10 ^ g.length) ∧
        dval c * 10 ^ p + val fd ≤ 10 ^ p := by
    intro i g hl hi hg hv
    obtain ⟨i', f', he, cs⟩ := roundUpCore_spec i g p hi hg
    have h1 : i'.length = 1 := cs.one hl (by rcases hv with h | h; exact Or.inl h; exact Or.inr h.2)
    obtain ⟨c, rfl⟩ := length_one i' h1
    refine ⟨c, f', by rw [he, join_single], ?_, cs.df, cs.len, ?_, ?_⟩
    · have := cs.di; rw [allDig_cons, Bool.and_eq_true] at this; exact this.1
    · have := cs.ceil; rwa [val_singleton] at this
    · have hc := cs.ceil.2
      rw [val_singleton] at hc
      have hg' := val_lt g
      have hC : 0 < 10 ^ g.length := Nat.pow_pos (by omega)
      have hT : val i * 10 ^ g.length + val g ≤ 10 ^ g.length := by
        rcases hv with h | ⟨h, h0⟩
        · rw [h]; omega
        · rw [h, h0]; omega
      have hT' : (val i * 10 ^ g.length + val g) * 10 ^ p ≤ 10 ^ g.length * 10 ^ p := Nat.mul_le_mul_right _ hT
      have : (dval c * 10 ^ p + val f') * 10 ^ g.length < (10 ^ p + 1) * 10 ^ g.length := by
        rw [Nat.add_mul (10 ^ p) 1, Nat.mul_comm (10 ^ p) (10 ^ g.length)]; omega
      have := Nat.lt_of_mul_lt_mul_right this
      omega
  cases ht with
  | zero =>
    have e : splitDot ['0'] = (['0'], none) := by decide
    have ht : truncDec ['0'] 5 = (0, 0) := by simp only [truncDec, e]; decide
    obtain ⟨c, fd, h1, h2, h3, h4, h5, h6⟩ := key ['0'] (zeros p) rfl (by decide) (allDig_zeros p) (Or.inl (by decide))
    refine ⟨c, fd, by simp only [roundUpStr, e]; exact h1, h2, h3, h4, ?_, h6⟩
    rw [ht]
    have hz : val ['0'] = 0 := by decide
    rw [hz, val_zeros, zeros_length] at h5
    obtain ⟨a1, a2⟩ := h5
    have hA : 0 < 10 ^ p := Nat.pow_pos (by omega)
    have : dval c * 10 ^ p + val fd = 0 := by
      rcases Nat.eq_zero_or_pos (dval c * 10 ^ p + val fd) with h | h
      · exact h
      · exfalso
        have : 1 * 10 ^ p ≤ (dval c * 10 ^ p + val fd) * 10 ^ p := Nat.mul_le_mul_right _ h
        simp at a2; omega
    rw [this]; simp [IsCeil]
  | frac ds hds =>
    have e : splitDot ('0' :: '.' :: ds) = (['0'], some ds) := splitDot_dot ['0'] ds (by decide)
    have ht : truncDec ('0' :: '.' :: ds) 5 = (val ['0'] * 10 ^ (ds.take 5).length + val (ds.take 5), (ds.take 5).length) := by
      simp only [truncDec, e]
    obtain ⟨c, fd, h1, h2, h3, h4, h5, h6⟩ := key ['0'] (ds.take 5) rfl (by decide) (allDig_take _ _ hds) (Or.inl (by decide))
    exact ⟨c, fd, by simp only [roundUpStr, e]; exact h1, h2, h3, h4, by rw [ht]; exact h5, h6⟩
  | one k =>
    have e : splitDot ('1' :: '.' :: zeros k) = (['1'], some (zeros k)) := splitDot_dot ['1'] (zeros k) (by decide)
    have ht : truncDec ('1' :: '.' :: zeros k) 5 =
        (val ['1'] * 10 ^ ((zeros k).take 5).length + val ((zeros k).take 5), ((zeros k).take 5).length) := by
      simp only [truncDec, e]
    have hz : val ((zeros k).take 5) = 0 := by rw [take_zeros, val_zeros]
    obtain ⟨c, fd, h1, h2, h3, h4, h5, h6⟩ := key ['1'] ((zeros k).take 5) rfl (by decide)
      (allDig_take _ _ (allDig_zeros k)) (Or.inr ⟨by decide, hz⟩)
    exact ⟨c, fd, by simp only [roundUpStr, e]; exact h1, h2, h3, h4, by rw [ht]; exact h5, h6⟩

/-- the h/m/s fields after the optional carry: they add up to the right number of whole seconds -/
theorem bump_spec (w : Nat) : ∀ h m s, bump (w / 60 / 60) (w / 60 % 60) (w % 60) = (h, m, s) →
    m < 60 ∧ s < 60 ∧ h * 3600 + m * 60 + s = w + 1 := by
  intro h m s hb
  unfold bump at hb
  split at hb
  · split at hb <;> (simp only [Prod.mk.injEq] at hb; omega)
  · simp only [Prod.mk.injEq] at hb; omega

/-- adding `w` whole units to both sides of a ceiling -/
theorem isCeil_shift (N T w A C : Nat) (h : IsCeil N (T * A) C) : IsCeil (w * A + N) ((w * C + T) * A) C := by
  obtain ⟨a1, a2⟩ := h
  constructor <;> grind

/-- `format_seconds_as_time` on a fixed-notation residue: shape and value of the output -/
theorem formatSeconds_spec (whole p : Nat) (t : List Char) (hp : p ≤ 3) (ht : FixedResidue t) :
    ∃ h m s fd, formatSeconds whole t p = .ok (fmtHMS h m s ++ fracPart fd p) ∧ m < 60 ∧ s < 60 ∧
      allDig fd = true ∧ fd.length = p ∧
      IsCeil ((h * 3600 + m * 60 + s) * 10 ^ p + val fd)
        ((whole * 10 ^ (truncDec t 5).2 + (truncDec t 5).1) * 10 ^ p) (10 ^ (truncDec t 5).2) := by
  obtain ⟨c, fd, hr, hc, hfd, hlen, hceil, hle⟩ := roundUp_residue t p ht
  have hA : 0 < 10 ^ p := Nat.pow_pos (by omega)
  have hfdlt : val fd < 10 ^ p := by have := val_lt fd; rwa [hlen] at this
  unfold formatSeconds
  rw [if_pos hp, hr]
  generalize (truncDec t 5).1 = T at *
  generalize (truncDec t 5).2 = n at *
  by_cases h0 : c = '0'
  · subst h0
    have hd : dval '0' = 0 := by decide
    rw [hd] at hceil
    refine ⟨whole / 60 / 60, whole / 60 % 60, whole % 60, fd, by simp, by omega, by omega, hfd, hlen, ?_⟩
    have : whole / 60 / 60 * 3600 + whole / 60 % 60 * 60 + whole % 60 = whole := by omega
    rw [this]
    simp only [Nat.zero_mul, Nat.zero_add] at hceil
    exact isCeil_shift _ _ _ _ _ hceil
  · have hpos := dval_pos c hc h0
    have hge : 1 * 10 ^ p ≤ dval c * 10 ^ p := Nat.mul_le_mul_right _ hpos
    have hv : dval c * 10 ^ p + val fd = 10 ^ p := by omega
    rw [hv] at hceil
    have hfd0 : val fd = 0 := by omega
    obtain ⟨h, m, s, hb⟩ : ∃ h m s, bump (whole / 60 / 60) (whole / 60 % 60) (whole % 60) = (h, m, s) :=
      ⟨_, _, _, rfl⟩
    obtain ⟨hm, hs, hsum⟩ := bump_spec whole h m s hb
    refine ⟨h, m, s, fd, by simp [h0, hb], hm, hs, hfd, hlen, ?_⟩
    rw [hsum, hfd0, Nat.add_zero, Nat.add_mul, Nat.one_mul]
    exact isCeil_shift _ _ _ _ _ hceil

end AthlibVerif.Times
