import AthlibVerif.Lemmas.Uka
/-!
Spec side of C13 (core Lean): the rule-text decision lists have the same rank sums as the code's
lists once the ages satisfy the calendar relations between the cut-off dates; those relations; the
cut-off of `prior_date` is the last 31 August on or before the day.
-/
namespace AthlibVerif.Uka
open AthlibVerif.Cal

theorem list107_rank (s8 s12 sD : Int) (v u : Bool) (f1 : s12 ≤ s8 + 1) (f2 : sD ≤ s12) :
    (Spec.list107 s8 s12 sD v u).rank = tfRank s8 s12 sD v u := by
  unfold Spec.list107 tfRank Spec.mastersBand vetBand
  rcases bandTf s8 with h | h | h | h | h | h <;>
  rcases (by omega : s12 < 20 ∨ 20 ≤ s12) with h2 | h2 <;>
  rcases (by omega : sD < 35 ∨ 35 ≤ sD) with h3 | h3 <;>
  cases u <;> cases v <;> uka_decide

theorem listRoadXc_rank (s8 sD : Int) (v u : Bool) (f1 : s8 ≤ sD) (f2 : sD ≤ s8 + 1) :
    (Spec.listRoadXc s8 sD v u).rank = xcRank s8 sD v u := by
  unfold Spec.listRoadXc xcRank Spec.mastersBand vetBand
  rcases bandXc s8 with h | h | h | h | h | h <;>
  rcases bandDay sD with h3 | h3 | h3 | h3 <;>
  cases u <;> cases v <;> uka_decide

/-- ages that agree, or are both non-positive, give the same TF decision -/
theorem tfRank_congr (c8 c12 cD s8 s12 sD : Int) (v u : Bool)
    (h8 : c8 = s8 ∨ (c8 ≤ 0 ∧ s8 < 0)) (h12 : c12 = s12 ∨ (c12 ≤ 0 ∧ s12 < 0))
    (hD : cD = sD ∨ (cD ≤ 0 ∧ sD < 0)) :
    tfRank c8 c12 cD v u = tfRank s8 s12 sD v u := by
  unfold tfRank
  cases u <;> cases v <;>
    simp only [Bool.false_eq_true, false_and, true_and, not_false_eq_true, if_true, if_false] <;>
    (repeat' apply add_congr) <;> (try apply ind_congr) <;> (try rfl) <;> (try intro) <;>
    (try (have : cD = sD := by omega)) <;> (try subst_vars) <;> omega

theorem xcRank_congr (c8 cD s8 sD : Int) (v u : Bool)
    (h8 : c8 = s8 ∨ (c8 ≤ 0 ∧ s8 < 0)) (hD : cD = sD ∨ (cD ≤ 0 ∧ sD < 0)) :
    xcRank c8 cD v u = xcRank s8 sD v u := by
  unfold xcRank
  cases u <;> cases v <;>
    simp only [Bool.false_eq_true, false_and, true_and, not_false_eq_true, if_true, if_false] <;>
    (repeat' apply add_congr) <;> (try apply ind_congr) <;> (try rfl) <;> (try intro) <;>
    (try (have : cD = sD := by omega)) <;> (try subst_vars) <;> omega

/-! ## calendar relations between the cut-off dates -/

theorem aug31_valid (y : Int) : (⟨y, 8, 31⟩ : Date).valid := by simp [Date.valid, daysIn]
theorem dec31_valid (y : Int) : (⟨y, 12, 31⟩ : Date).valid := by simp [Date.valid, daysIn]

theorem floorYears_bounds (b on : Date) : on.y - b.y - 1 ≤ floorYears b on ∧ floorYears b on ≤ on.y - b.y := by
  unfold floorYears; simp only []; split <;> omega

/-- 31 August and 31 December of the calendar year of the meeting, and the day itself -/
theorem floor_tf_facts (b md : Date) (hb : b.valid) (hm : md.valid) :
    floorYears b ⟨md.y, 12, 31⟩ ≤ floorYears b ⟨md.y, 8, 31⟩ + 1 ∧
    floorYears b md ≤ floorYears b ⟨md.y, 12, 31⟩ := by
  constructor
  · have h1 := floorYears_bounds b ⟨md.y, 12, 31⟩
    have h2 := floorYears_bounds b ⟨md.y, 8, 31⟩
    dsimp only at h1 h2
    omega
  · apply floorYears_mono_on b md ⟨md.y, 12, 31⟩ hb hm (dec31_valid _)
    have := daysIn_le md.y md.m
    unfold Date.valid at hm
    unfold Date.le; dsimp only; omega

/-- the cut-off of `prior_date(match_date, 8, 31)` is the last 31 August on or before the day -/
theorem priorDate_eq_lastAug31 (md : Date) (hm : md.valid) : priorDate md 8 31 = Spec.lastAug31 md := by
  have := daysIn_le md.y md.m
  unfold Date.valid at hm
  have key : md.lt ⟨md.y, 8, 31⟩ ↔ ¬ (md.m ≥ 9 ∨ (md.m = 8 ∧ md.d = 31)) := by
    unfold Date.lt; dsimp only; omega
  unfold priorDate Spec.lastAug31
  dsimp only
  by_cases h : md.m ≥ 9 ∨ (md.m = 8 ∧ md.d = 31)
  · rw [if_pos h, if_neg (fun c => key.1 c h)]
  · rw [if_neg h, if_pos (key.2 h)]

theorem lastAug31_valid (md : Date) : (Spec.lastAug31 md).valid := by
  unfold Spec.lastAug31; split <;> exact aug31_valid _

/-- the last 31 August on or before the day is at most a year back -/
theorem floor_xc_facts (b md : Date) (hb : b.valid) (hm : md.valid) :
    floorYears b (Spec.lastAug31 md) ≤ floorYears b md ∧
    floorYears b md ≤ floorYears b (Spec.lastAug31 md) + 1 := by
  have dm := daysIn_le md.y md.m
  have db := daysIn_le b.y b.m
  constructor
  · apply floorYears_mono_on b _ md hb (lastAug31_valid md) hm
    unfold Date.valid at hm
    unfold Spec.lastAug31 Date.le
    split <;> dsimp only <;> omega
  · unfold Date.valid at hm hb
    unfold Spec.lastAug31
    split
    · have h1 := floorYears_bounds b md
      have h2 := floorYears_bounds b ⟨md.y, 8, 31⟩
      dsimp only at h1 h2
      omega
    · unfold floorYears
      dsimp only
      generalize isLeap md.y = L
      generalize isLeap (md.y - 1) = L'
      cases L <;> cases L' <;>
        simp only [Bool.not_false, Bool.not_true, and_true, and_false, if_false, Bool.false_eq_true] <;>
        (repeat' split) <;> omega

end AthlibVerif.Uka
