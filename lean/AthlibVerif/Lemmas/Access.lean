import AthlibVerif.Model.Access
/-! what the Boolean discipline checkers of `Model/Access.lean` mean (soundness of the checkers) -/
namespace AthlibVerif.Access

theorem noScratchReadBack_tail (x : Acc) (l : List Acc) (h : noScratchReadBack (x :: l) = true) :
    noScratchReadBack l = true := by
  cases x with
  | sStore a b => cases b <;> simp_all [noScratchReadBack]
  | _ => simpa [noScratchReadBack] using h

/-- D2: wherever an argument-dependent store to `self.a` occurs, no load of `self.a` follows -/
theorem noScratchReadBack_spec (l pre post : List Acc) (a : Nat) (h : noScratchReadBack l = true)
    (hl : l = pre ++ .sStore a true :: post) : Acc.sLoad a ∉ post := by
  induction pre generalizing l with
  | nil =>
    subst hl
    simp only [List.nil_append, noScratchReadBack, Bool.and_eq_true, Bool.not_eq_true'] at h
    simpa using h.1
  | cons x pre ih =>
    subst hl
    exact ih _ (noScratchReadBack_tail x _ h) rfl

theorem completedLocals_tail (x : Acc) (l : List Acc) (h : completedLocals (x :: l) = true) :
    completedLocals l = true := by
  cases x with
  | gRebind g r => cases r <;> simp_all [completedLocals]
  | _ => simpa [completedLocals] using h

/-- D1b: after a global is rebound to local `v`, `v` is not mutated any more -/
theorem completedLocals_spec (l pre post : List Acc) (g v : Nat) (h : completedLocals l = true)
    (hl : l = pre ++ .gRebind g (.localVar v) :: post) : Acc.lMutate v ∉ post := by
  induction pre generalizing l with
  | nil =>
    subst hl
    simp only [List.nil_append, completedLocals, Bool.and_eq_true, Bool.not_eq_true'] at h
    simpa using h.1
  | cons x pre ih =>
    subst hl
    exact ih _ (completedLocals_tail x _ h) rfl

/-- D1a: a published global is never mutated in place -/
theorem noMutateOfPublished_spec (rb : List Nat) (l : List Acc) (g : Nat) (b : Bool)
    (h : noMutateOfPublished rb l = true) (hm : Acc.gMutate g b ∈ l) : g ∉ rb := by
  have := List.all_eq_true.1 h _ hm
  simpa using this

/-- D3a: a mutation of a never-rebound global happens under the lock -/
theorem lockedMutations_spec (rb : List Nat) (l : List Acc) (g : Nat) (b : Bool)
    (h : lockedMutations rb l = true) (hm : Acc.gMutate g b ∈ l) (hg : g ∉ rb) : b = true := by
  have := List.all_eq_true.1 h _ hm
  simp only [Bool.or_eq_true] at this
  rcases this with h | h
  · exact absurd (by simpa using h) hg
  · exact h

end AthlibVerif.Access
