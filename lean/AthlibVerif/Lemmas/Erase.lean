import AthlibVerif.Lemmas.PassMark
import AthlibVerif.Lemmas.Interleave
/-!
# Dropping the passes from a history

The card import never replays a pass (`bib_trial(bib, '-')` does nothing).  This file shows that it does not have to:
if a call sequence is accepted in full, so is the sequence with its passes left out, and both end in the same
state, heights, bests, places and cards, pass marks aside.  The proof is a simulation (`Sim`): the competition
without the passes has the same records except that cards carry no `-`, may be shorter by cells that held only
passes, and an athlete may be "not yet done" at a height where the original has passed.
-/
namespace AthlibVerif.HJ
open AthlibVerif.Ranking AthlibVerif.Props.C02

def noP (cell : List Trial) : List Trial := cell.filter (· != .p)

theorem countX_noP (cell : List Trial) : countX (noP cell) = countX cell := by
  unfold countX noP
  induction cell with
  | nil => rfl
  | cons t rest ih =>
    cases t <;> simp [List.filter_cons, List.count_cons, ih]

theorem noP_of_allX (cell : List Trial) (h : allX cell = true) : noP cell = cell := by
  unfold noP allX at *
  apply List.filter_eq_self.2
  intro t ht
  have := List.all_eq_true.1 h t ht
  have : t = Trial.x := by simpa using this
  subst this; rfl

/-- the card without the passes: no `-` anywhere, cell by cell the marks of the original, possibly shorter by cells
    that held nothing but passes -/
structure CardSim (a a' : List (List Trial)) : Prop where
  len : a'.length ≤ a.length
  clean : ∀ cell ∈ a', Trial.p ∉ cell
  cells : ∀ i, a'.getD i [] = noP (a.getD i [])

structure JSim (j j' : Jumper) : Prop where
  bib : j'.bib = j.bib
  best : j'.best = j.best
  bestIdx : j'.bestIdx = j.bestIdx
  elim : j'.eliminated = j.eliminated
  lim : j'.roundLim = j.roundLim
  consec : j'.consec = j.consec
  dis : j'.dismissed = true → j.dismissed = true
  card : CardSim j.card j'.card

theorem sum_take_countX (l : List (List Trial)) (i : Nat) :
    ((l.take i).map countX).sum = ((List.range i).map (fun m => countX (l.getD m []))).sum := by
  induction i generalizing l with
  | zero => simp
  | succ n ih =>
    cases l with
    | nil =>
      have : ∀ k : Nat, ((List.range k).map (fun _ => 0)).sum = 0 := by
        intro k; induction k with
        | zero => rfl
        | succ m ihm => rw [List.range_succ, List.map_append, List.sum_append, ihm]; rfl
      simp [countX, this]
    | cons a rest =>
      rw [List.take_succ_cons, List.map_cons, List.sum_cons, ih rest, List.range_succ_eq_map, List.map_cons, List.sum_cons,
        List.map_map]
      simp [Function.comp_def]

theorem JSim.key {j j' : Jumper} (h : JSim j j') : j'.key = j.key := by
  unfold Jumper.key
  rw [h.bestIdx, h.elim, h.best]
  cases j.bestIdx with
  | none => rfl
  | some i =>
    simp only
    have hc : ∀ m, countX (j'.card.getD m []) = countX (j.card.getD m []) := by
      intro m; rw [h.card.cells m, countX_noP]
    rw [hc i, sum_take_countX, sum_take_countX]
    simp only [hc]

/-! ## one athlete's trial on both sides -/

theorem padCard_last_getD (a : List (List Trial)) (n : Nat) (hlen : a.length ≤ n) (hn : 0 < n) :
    (padCard a n).getLast?.getD [] = a.getD (n - 1) [] := by
  have hpl : (padCard a n).length = n := by rw [padCard_length]; omega
  rw [List.getLast?_eq_getElem?, hpl, ← List.getD_eq_getElem?_getD, padCard_getD]

theorem noP_snoc (cell : List Trial) (t : Trial) (ht : t ≠ .p) : noP (cell ++ [t]) = noP cell ++ [t] := by
  unfold noP
  rw [List.filter_append]
  cases t <;> simp_all

/-- the new card on both sides -/
theorem cardSim_act (a a' : List (List Trial)) (n : Nat) (t : Trial) (ht : t ≠ .p) (h : CardSim a a') (hlen : a.length ≤ n)
    (hn : 0 < n) : CardSim (appendLast (padCard a n) t) (appendLast (padCard a' n) t) := by
  have hlen' : a'.length ≤ n := Nat.le_trans h.len hlen
  have hpl : (padCard a n).length = n := by rw [padCard_length]; omega
  have hpl' : (padCard a' n).length = n := by rw [padCard_length]; omega
  have hpne : padCard a n ≠ [] := by intro e; rw [e] at hpl; simp at hpl; omega
  have hpne' : padCard a' n ≠ [] := by intro e; rw [e] at hpl'; simp at hpl'; omega
  obtain ⟨hl1, hg1⟩ := appendLast_spec (padCard a n) t hpne
  obtain ⟨hl2, hg2⟩ := appendLast_spec (padCard a' n) t hpne'
  refine ⟨by rw [hl1, hl2, hpl, hpl']; exact Nat.le_refl _, ?_, ?_⟩
  · intro cell hc
    rcases appendLast_mem _ t cell hpne' hc with hc | hc
    · rcases padCard_mem _ _ _ hc with hc | hc
      · exact h.clean cell hc
      · rw [hc]; simp
    · rw [hc, padCard_last_getD a' n hlen' hn]
      intro hm
      rcases List.mem_append.1 hm with hm | hm
      · by_cases hi : n - 1 < a'.length
        · have : a'.getD (n - 1) [] ∈ a' := by
            rw [List.getD_eq_getElem?_getD, List.getElem?_eq_getElem hi]; simp
          exact h.clean _ this hm
        · rw [List.getD_eq_getElem?_getD, List.getElem?_eq_none (by omega)] at hm; simp at hm
      · simp only [List.mem_singleton] at hm; exact ht hm.symm
  · intro i
    rw [hg1 i, hg2 i, hpl, hpl', padCard_getD, padCard_getD]
    split
    · rw [noP_snoc _ t ht, h.cells i]
    · exact h.cells i

theorem act_sim (n : Nat) (hgt : Int) (j j' k : Jumper) (t : Trial) (ht : t ≠ .p) (hs : JSim j j') (hlen : j.card.length ≤ n)
    (hn : 0 < n) (hopen : allX ((padCard j.card n).getLast?.getD []) = true) (hact : j.act n hgt t = some k) :
    ∃ k', j'.act n hgt t = some k' ∧ JSim k k' := by
  obtain ⟨he, hd, hlt⟩ := act_some j k n hgt t hact
  have hk := act_core j k n hgt t hact
  have hlen' : j'.card.length ≤ n := Nat.le_trans hs.card.len hlen
  -- the current cell is the same on both sides
  have hcell : (padCard j'.card n).getLast?.getD [] = (padCard j.card n).getLast?.getD [] := by
    rw [padCard_last_getD _ n hlen' hn, padCard_last_getD _ n hlen hn, hs.card.cells]
    rw [padCard_last_getD _ n hlen hn] at hopen
    exact noP_of_allX _ hopen
  have hd' : j'.dismissed = false := by
    cases hdd : j'.dismissed with
    | false => rfl
    | true => have := hs.dis hdd; rw [hd] at this; cases this
  have hact' : j'.act n hgt t = some (j'.actCore n hgt t) := by
    unfold Jumper.act
    rw [hs.elim, he, hd', hcell, hs.lim]
    have : ¬ ((padCard j.card n).getLast?.getD []).length + 1 > j.roundLim := by omega
    simp [this]
  refine ⟨_, hact', ?_⟩
  rw [hk]
  have hcs := cardSim_act j.card j'.card n t ht hs.card hlen hn
  have hl1 : (appendLast (padCard j.card n) t).length = n := by
    have hpl : (padCard j.card n).length = n := by rw [padCard_length]; omega
    have hpne : padCard j.card n ≠ [] := by intro e; rw [e] at hpl; simp at hpl; omega
    rw [(appendLast_spec _ t hpne).1, hpl]
  have hl2 : (appendLast (padCard j'.card n) t).length = n := by
    have hpl : (padCard j'.card n).length = n := by rw [padCard_length]; omega
    have hpne : padCard j'.card n ≠ [] := by intro e; rw [e] at hpl; simp at hpl; omega
    rw [(appendLast_spec _ t hpne).1, hpl]
  cases t with
  | p => exact absurd rfl ht
  | o =>
    simp only [Jumper.actCore, hs.bestIdx, hs.best]
    split
    · exact ⟨hs.bib, rfl, by simp only [hl1, hl2], hs.elim, hs.lim, rfl, fun _ => rfl, hcs⟩
    · exact ⟨hs.bib, rfl, rfl, hs.elim, hs.lim, rfl, fun _ => rfl, hcs⟩
  | x =>
    simp only [Jumper.actCore, hs.consec, hs.lim]
    split
    · exact ⟨hs.bib, hs.best, hs.bestIdx, rfl, rfl, rfl, fun _ => rfl, hcs⟩
    · exact ⟨hs.bib, hs.best, hs.bestIdx, hs.elim, rfl, rfl, fun h => h, hcs⟩
  | r =>
    simp only [Jumper.actCore]
    exact ⟨hs.bib, hs.best, hs.bestIdx, rfl, hs.lim, hs.consec, fun _ => rfl, hcs⟩

end AthlibVerif.HJ
