import AthlibVerif.Lemmas.MatchWords
/-!
# `get_distance` does not fail outside the relay branch

Whatever prefix the leading-number patterns match, the matched text is in their language (`\d+\.\d*` or `\d+`),
so `float()` accepts it; every case of the unit suffix returns.  Hence the only failure of the non-relay path
is `split()[0]` on a string without a token.
-/
namespace AthlibVerif
namespace Codes
open RE GRE

/-- `\d+\.\d*` and `\d+` over the digit class and the class of the point -/
def floatShape : RE := .cat (plusCls Gen.digitMask) (.cat (.cls Gen.dotMask) (.star (.cls Gen.digitMask)))

/-- decided on the regenerated patterns and alphabet: the two leading-number patterns have no `$`, accept only
    `\d+\.\d*` / `\d+`; the class of the point holds the point alone and no digit -/
def leadingOK : Bool :=
  noEol (pat "PAT_LEADING_FLOAT") && noEol (pat "PAT_LEADING_DIGITS") &&
  RE.isEmptyLang Gen.nsym 100000 (RE.and (toRE [] (pat "PAT_LEADING_FLOAT")) (RE.not floatShape)) &&
  RE.isEmptyLang Gen.nsym 100000 (RE.and (toRE [] (pat "PAT_LEADING_DIGITS")) (RE.not (plusCls Gen.digitMask))) &&
  singletonSym '.' && (Gen.dotMask == 2 ^ symOf '.') && !Gen.digitMask.testBit (symOf '.')

theorem take_eq_sub (s : Str) (e : Nat) : s.take e = sub s 0 e := by simp [sub]

/-- the text a leading-number pattern matched is in the language of that pattern -/
theorem matchEnd_lang (name : String) (hn : noEol (pat name) = true) (d : Str) (e : Nat)
    (h : pyMatchEnd name d = some e) : RE.lang (toRE [] (pat name)) (symsOf (d.take e)) ∧ e ≤ d.length := by
  unfold pyMatchEnd at h
  cases hm : matchFirst (pat name) (symsOf d) with
  | none => rw [hm] at h; cases h
  | some r =>
    rw [hm] at h
    simp only [Option.map_some, Option.some.injEq] at h
    have hs := matchFirst_sound (pat name) (symsOf d) r hm
    rw [h] at hs
    have hl : (symsOf d).length = d.length := by simp [symsOf]
    refine ⟨?_, by have := ms_bound hs (Nat.zero_le _); omega⟩
    rw [take_eq_sub, symsOf_sub]
    exact ms_to_lang hs hn (Nat.zero_le _)

theorem digit_ne_point (h : leadingOK = true) (c : Char) (hc : isDigitU c = true) : c ≠ '.' := by
  simp only [leadingOK, Bool.and_eq_true, Bool.not_eq_true'] at h
  intro he; subst he
  unfold isDigitU at hc
  rw [h.2] at hc; cases hc

theorem all_digits_star (t : Str) (h : StarL (RE.lang (.cls Gen.digitMask)) (symsOf t)) : ∀ c ∈ t, isDigitU c = true := by
  intro c hc
  unfold isDigitU
  exact lang_star_cls _ _ h (symOf c) (by simp only [symsOf, List.mem_map]; exact ⟨c, hc, rfl⟩)

/-- a text in `\d+\.\d*`: digits, the point, digits -/
theorem float_shape (h : leadingOK = true) (q : Str) (hq : RE.lang floatShape (symsOf q)) :
    ∃ D1 D2 : Str, q = D1 ++ '.' :: D2 ∧ D1 ≠ [] ∧ (∀ c ∈ D1, isDigitU c = true) ∧ (∀ c ∈ D2, isDigitU c = true) := by
  have h' := h
  simp only [leadingOK, Bool.and_eq_true, beq_iff_eq] at h'
  obtain ⟨⟨⟨_, hsing⟩, hdm⟩, _⟩ := h'
  simp only [floatShape, RE.lang] at hq
  obtain ⟨u, v, huv, hu, w1, w2, hw, ⟨x, rfl, hx⟩, hw2⟩ := hq
  obtain ⟨D1, rest, rfl, hD1, hrest⟩ := symsOf_eq_append huv
  rw [hw] at hrest
  obtain ⟨c, D2, rfl, hc, hD2⟩ := symsOf_eq_cons hrest
  have hcd : c = '.' := by
    apply eq_of_symOf_eq '.' hsing c
    rw [hdm, Nat.testBit_two_pow] at hx
    rw [hc]; exact (of_decide_eq_true hx).symm
  subst hcd
  obtain ⟨hne, hdig⟩ := digits_of_plusCls D1 (by rw [hD1]; exact hu)
  exact ⟨D1, D2, rfl, hne, hdig, all_digits_star D2 (by rw [hD2]; exact hw2)⟩

theorem takeWhile_digits (h : leadingOK = true) (D : Str) (hD : ∀ c ∈ D, isDigitU c = true) (rest : Str) :
    (D ++ '.' :: rest).takeWhile (· != '.') = D ∧ (D ++ '.' :: rest).dropWhile (· != '.') = '.' :: rest := by
  have hp : ∀ a ∈ D, (a != '.') = true := fun a ha => by simpa using digit_ne_point h a (hD a ha)
  constructor
  · rw [List.takeWhile_append_of_pos hp]; simp
  · rw [List.dropWhile_append_of_pos hp]; simp

theorem takeWhile_all_digits (h : leadingOK = true) (D : Str) (hD : ∀ c ∈ D, isDigitU c = true) :
    D.takeWhile (· != '.') = D ∧ D.dropWhile (· != '.') = [] := by
  have hp : ∀ a ∈ D, (a != '.') = true := fun a ha => by simpa using digit_ne_point h a (hD a ha)
  constructor
  · have := List.takeWhile_append_of_pos (l₂ := ([] : Str)) hp
    simpa using this
  · have := List.dropWhile_append_of_pos (l₂ := ([] : Str)) hp
    simpa using this

theorem dropEnd_digits (h : leadingOK = true) (D : Str) (hne : D ≠ []) (hD : ∀ c ∈ D, isDigitU c = true) :
    dropEndWhileL (· == '.') D = D := by
  unfold dropEndWhileL
  have hl : D.reverse ≠ [] := by simpa using hne
  cases hr : D.reverse with
  | nil => exact (hl hr).elim
  | cons c cs =>
    have hc : c ∈ D := by
      have : c ∈ D.reverse := by rw [hr]; exact List.mem_cons_self
      simpa using this
    have : (c == '.') = false := by simpa using digit_ne_point h c (hD c hc)
    rw [List.dropWhile_cons_of_neg (by simp [this]), ← hr, List.reverse_reverse]

/-- `float()` of digits -/
theorem decimalOf_digits (hT : digitTableOK = true) (h : leadingOK = true) (D : Str) (hne : D ≠ [])
    (hD : ∀ c ∈ D, isDigitU c = true) : ∃ r, decimalOf D = some r := by
  obtain ⟨n, hn⟩ := pyInt_of_digits hT D hne hD
  obtain ⟨h1, h2⟩ := takeWhile_all_digits h D hD
  unfold decimalOf
  simp only [h1, h2, hn, List.drop_nil, List.isEmpty_nil, if_true]
  exact ⟨_, rfl⟩

/-- `float()` of digits, the point, digits -/
theorem decimalOf_float (hT : digitTableOK = true) (h : leadingOK = true) (D1 D2 : Str) (hne1 : D1 ≠ []) (hne2 : D2 ≠ [])
    (hD1 : ∀ c ∈ D1, isDigitU c = true) (hD2 : ∀ c ∈ D2, isDigitU c = true) :
    ∃ r, decimalOf (D1 ++ '.' :: D2) = some r := by
  obtain ⟨n1, hn1⟩ := pyInt_of_digits hT D1 hne1 hD1
  obtain ⟨n2, hn2⟩ := pyInt_of_digits hT D2 hne2 hD2
  obtain ⟨h1, h2⟩ := takeWhile_digits h D1 hD1 D2
  have he : D2.isEmpty = false := by cases D2 <;> simp_all
  unfold decimalOf
  simp only [h1, h2, hn1, hn2, List.drop_succ_cons, List.drop_zero, he, Bool.false_eq_true, if_false]
  exact ⟨_, rfl⟩

/-- the quantity text of `get_distance` is always a number -/
theorem qty_ok (hT : digitTableOK = true) (h : leadingOK = true) (d : Str) (e : Nat)
    (hm : (match pyMatchEnd "PAT_LEADING_FLOAT" d with
            | some e => some e
            | none => pyMatchEnd "PAT_LEADING_DIGITS" d) = some e) :
    ∃ r, decimalOf (dropEndWhileL (· == '.') (d.take e)) = some r := by
  have h' := h
  simp only [leadingOK, Bool.and_eq_true] at h'
  obtain ⟨⟨⟨⟨⟨⟨hnF, hnD⟩, hsF⟩, hsD⟩, _⟩, _⟩, _⟩ := h'
  cases hf : pyMatchEnd "PAT_LEADING_FLOAT" d with
  | some e' =>
    rw [hf] at hm
    simp only [Option.some.injEq] at hm
    subst hm
    obtain ⟨hl, _⟩ := matchEnd_lang "PAT_LEADING_FLOAT" hnF d e' hf
    have hsh := RE.subset_of_check Gen.nsym 100000 _ _ hsF _ (symsOf_inAlpha _) hl
    obtain ⟨D1, D2, hq, hne1, hD1, hD2⟩ := float_shape h _ hsh
    rw [hq]
    by_cases h2 : D2 = []
    · subst h2
      have : dropEndWhileL (· == '.') (D1 ++ ['.']) = D1 := by
        have := dropEnd_digits h D1 hne1 hD1
        unfold dropEndWhileL at this ⊢
        rw [List.reverse_append]
        simp only [List.reverse_cons, List.reverse_nil, List.nil_append, List.singleton_append]
        rw [List.dropWhile_cons_of_pos (by simp)]
        exact this
      rw [this]
      exact decimalOf_digits hT h D1 hne1 hD1
    · have hall : ∀ c ∈ D1 ++ '.' :: D2, c = '.' ∨ isDigitU c = true := by
        intro c hc
        rcases List.mem_append.1 hc with hc | hc
        · exact Or.inr (hD1 c hc)
        · rcases List.mem_cons.1 hc with rfl | hc
          · exact Or.inl rfl
          · exact Or.inr (hD2 c hc)
      have : dropEndWhileL (· == '.') (D1 ++ '.' :: D2) = D1 ++ '.' :: D2 := by
        have hl2 : D2.reverse ≠ [] := by simpa using h2
        unfold dropEndWhileL
        rw [List.reverse_append, List.reverse_cons]
        cases hr : D2.reverse with
        | nil => exact (hl2 hr).elim
        | cons c cs =>
          have hc : c ∈ D2 := by
            have : c ∈ D2.reverse := by rw [hr]; exact List.mem_cons_self
            simpa using this
          have hcf : (c == '.') = false := by simpa using digit_ne_point h c (hD2 c hc)
          simp only [List.cons_append, List.append_assoc]
          rw [List.dropWhile_cons_of_neg (by simp [hcf])]
          have : (c :: (cs ++ (['.'] ++ D1.reverse))).reverse = D1 ++ '.' :: D2 := by
            have h3 : D2 = (c :: cs).reverse := by rw [← hr, List.reverse_reverse]
            rw [h3]; simp
          exact this
      rw [this]
      exact decimalOf_float hT h D1 D2 hne1 h2 hD1 hD2
  | none =>
    rw [hf] at hm
    simp only at hm
    obtain ⟨hl, _⟩ := matchEnd_lang "PAT_LEADING_DIGITS" hnD d e hm
    have hsh := RE.subset_of_check Gen.nsym 100000 _ _ hsD _ (symsOf_inAlpha _) hl
    obtain ⟨hne, hD⟩ := digits_of_plusCls _ hsh
    rw [dropEnd_digits h _ hne hD]
    exact decimalOf_digits hT h _ hne hD

/-- **Outside the relay branch `get_distance` only fails on a string without a token.** -/
theorem getDistance_nonrelay_ok (hT : digitTableOK = true) (h : leadingOK = true) (fuel : Nat) (d0 d : Str)
    (ht : firstToken d0 = .ok d) (hr : pyMatch "PAT_RELAYS" d = none) : ∃ r, getDistance (fuel + 1) d0 = .ok r := by
  cases h1 : strEq d "XC" with
  | true => exact ⟨none, by simp only [getDistance, ht, h1, if_true]⟩
  | false =>
  cases h2 : strEq d "MAR" with
  | true => exact ⟨some 42195, by simp only [getDistance, ht, h1, h2, if_true, Bool.false_eq_true, if_false]⟩
  | false =>
  cases h3 : strEq d "HM" with
  | true => exact ⟨some 21098, by simp only [getDistance, ht, h1, h2, h3, if_true, Bool.false_eq_true, if_false]⟩
  | false =>
  cases h4 : strIn d ["MILE", "CHUNDER-MILE"] with
  | true => exact ⟨some 1609, by simp only [getDistance, ht, h1, h2, h3, h4, if_true, Bool.false_eq_true, if_false]⟩
  | false =>
  have key : ∀ e, (match pyMatchEnd "PAT_LEADING_FLOAT" d with
            | some e => some e
            | none => pyMatchEnd "PAT_LEADING_DIGITS" d) = some e →
      ∃ r, (match decimalOf (dropEndWhileL (fun x => x == '.') (List.take e d)) with
        | none => (Except.error PyErr.valueError : Except PyErr (Option Nat))
        | some (n, den) =>
          if (List.drop e d).isEmpty = true then Except.ok (some (1 * n / (1 * den)))
          else if (strIn (lower (List.drop e d)) ["sc", "h", "w"] || strIn (List.drop e d) ["m", "mH"]) = true then Except.ok (some (1 * n / (1 * den)))
          else if strIn (List.drop e d) ["k", "K", "km"] = true then Except.ok (some (1000 * n / (1 * den)))
          else if strIn (lower (List.drop e d)) ["kw", "kmw"] = true then Except.ok (some (1000 * n / (1 * den)))
          else if strIn (List.drop e d) ["M", "Mi", "MI", "MT"] = true then Except.ok (some (1609 * n / (1 * den)))
          else if strIn (List.drop e d) ["Y", "y", "YD", "yd"] = true then Except.ok (some (9144 * n / (10000 * den)))
          else Except.ok none) = .ok r := by
    intro e hm
    obtain ⟨r, hr'⟩ := qty_ok hT h d e hm
    simp only [hr']
    repeat' split
    all_goals exact ⟨_, rfl⟩
  cases hf : pyMatchEnd "PAT_LEADING_FLOAT" d with
  | some e =>
    obtain ⟨r, hr'⟩ := key e (by rw [hf])
    exact ⟨r, by simp only [getDistance, ht, h1, h2, h3, h4, hr, hf, Bool.false_eq_true, if_false]; exact hr'⟩
  | none =>
    cases hd : pyMatchEnd "PAT_LEADING_DIGITS" d with
    | none => exact ⟨none, by simp only [getDistance, ht, h1, h2, h3, h4, hr, hf, hd, Bool.false_eq_true, if_false]⟩
    | some e =>
      obtain ⟨r, hr'⟩ := key e (by rw [hf]; exact hd)
      exact ⟨r, by simp only [getDistance, ht, h1, h2, h3, h4, hr, hf, hd, Bool.false_eq_true, if_false]; exact hr'⟩

end Codes
end AthlibVerif
