import AthlibVerif.Lemmas.Erase
/-!
# Ranking on both sides of the pass-erasure simulation

`Paired ps c c'`: the records of `c` and `c'` are the first and second components of `ps`, pair by pair related by
`JSim`; state and heights agree; the ranked lists are rearrangements of each other.  `_rankj` and the rest of `_rank`
keep the pairing and make the places agree.
-/
namespace AthlibVerif.HJ
open AthlibVerif.Ranking AthlibVerif.Props.C02

structure Paired (ps : List (Jumper × Jumper)) (c c' : Comp) : Prop where
  left : c.jumpers = ps.map Prod.fst
  right : c'.jumpers = ps.map Prod.snd
  sim : ∀ p ∈ ps, JSim p.1 p.2
  phase : c'.phase = c.phase
  heights : c'.heights = c.heights
  ranked : c'.ranked.Perm c.ranked

def PlacesEq (ps : List (Jumper × Jumper)) : Prop := ∀ p ∈ ps, p.2.place = p.1.place

theorem count_keys (ps : List (Jumper × Jumper)) (hs : ∀ p ∈ ps, JSim p.1 p.2) (k : Key) :
    ((ps.map Prod.snd).filter (fun q => Key.lt q.key k)).length = ((ps.map Prod.fst).filter (fun q => Key.lt q.key k)).length := by
  rw [List.filter_map, List.filter_map, List.length_map, List.length_map]
  congr 1
  apply List.filter_congr
  intro p hp
  simp only [Function.comp_apply, (hs p hp).key]

theorem JSim.setPlace {j j' : Jumper} (h : JSim j j') (p q : Nat) : JSim { j with place := p } { j' with place := q } :=
  ⟨h.bib, h.best, h.bestIdx, h.elim, h.lim, h.consec, h.dis, h.card⟩

theorem JSim.reinstate {j j' : Jumper} (h : JSim j j') : JSim (reinstate j) (reinstate j') :=
  ⟨h.bib, h.best, h.bestIdx, rfl, rfl, rfl, h.dis, h.card⟩

/-- a map applied pair by pair -/
theorem Paired.map {ps : List (Jumper × Jumper)} {c c' : Comp} (h : Paired ps c c') (f g : Jumper → Jumper)
    (hfg : ∀ p ∈ ps, JSim (f p.1) (g p.2)) (d d' : Comp) (hd : d.jumpers = c.jumpers.map f) (hd' : d'.jumpers = c'.jumpers.map g)
    (hp : d'.phase = d.phase) (hh : d'.heights = d.heights) (hr : d'.ranked.Perm d.ranked) :
    Paired (ps.map (fun p => (f p.1, g p.2))) d d' where
  left := by rw [hd, h.left, List.map_map, List.map_map]; rfl
  right := by rw [hd', h.right, List.map_map, List.map_map]; rfl
  sim := by
    intro p hp
    obtain ⟨q, hq, rfl⟩ := List.mem_map.1 hp
    exact hfg q hq
  phase := hp
  heights := hh
  ranked := hr

theorem rankj_paired (ps : List (Jumper × Jumper)) (c c' : Comp) (h : Paired ps c c') (hw : WF c) (hw' : WF c') :
    ∃ ps', Paired ps' (rankj c) (rankj c') ∧ PlacesEq ps' := by
  refine ⟨ps.map (fun p => (({ p.1 with place := 1 + (c.jumpers.filter (fun k => Key.lt k.key p.1.key)).length } : Jumper),
      ({ p.2 with place := 1 + (c'.jumpers.filter (fun k => Key.lt k.key p.2.key)).length } : Jumper))), ?_, ?_⟩
  · apply h.map (fun j => { j with place := 1 + (c.jumpers.filter (fun k => Key.lt k.key j.key)).length })
      (fun j => { j with place := 1 + (c'.jumpers.filter (fun k => Key.lt k.key j.key)).length })
    · intro p hp; exact (h.sim p hp).setPlace _ _
    · exact rankj_jumpers c hw
    · exact rankj_jumpers c' hw'
    · rw [(rankj_frame c).2.2.1, (rankj_frame c').2.2.1, h.phase]
    · rw [(rankj_frame c).2.1, (rankj_frame c').2.1, h.heights]
    · rw [rankj_ranked_list, rankj_ranked_list]
      exact (sortRanked_perm c' c'.ranked).trans (h.ranked.trans (sortRanked_perm c c.ranked).symm)
  · intro p hp
    obtain ⟨q, hq, rfl⟩ := List.mem_map.1 hp
    simp only
    rw [h.left, h.right, (h.sim q hq).key, count_keys ps h.sim]

/-! ## what the card of an eliminated athlete ends with -/

/-- an athlete who is out has a card whose last mark is the failure or the retirement that put them out -/
def ElimMark (j : Jumper) : Prop :=
  j.eliminated = true → ∃ init cell t, j.card = init ++ [cell ++ [t]] ∧ (t = Trial.x ∨ t = Trial.r)

theorem getLast_getD (card : List (List Trial)) : card.getLast?.getD [] = card.getD (card.length - 1) [] := by
  rw [List.getLast?_eq_getElem?, List.getD_eq_getElem?_getD]

theorem JSim.elim_facts {j j' : Jumper} (h : JSim j j') (he : ElimMark j) (hel : j.eliminated = true) :
    j'.card.length = j.card.length ∧ j'.hasRetired = j.hasRetired := by
  obtain ⟨init, cell, t, hc, ht⟩ := he hel
  have htp : t ≠ Trial.p := by rcases ht with rfl | rfl <;> simp
  have hL : j.card.length = init.length + 1 := by rw [hc]; simp
  have hcell : j'.card.getD init.length [] = noP cell ++ [t] := by
    rw [h.card.cells, hc, List.getD_eq_getElem?_getD]
    simp [noP_snoc _ _ htp]
  have hlt : init.length < j'.card.length := by
    by_cases hlt : init.length < j'.card.length
    · exact hlt
    · rw [List.getD_eq_getElem?_getD, List.getElem?_eq_none (by omega)] at hcell
      simp at hcell
  have hlen : j'.card.length = j.card.length := by have := h.card.len; omega
  refine ⟨hlen, ?_⟩
  unfold Jumper.hasRetired
  have h1 : j.card.getLast? = some (cell ++ [t]) := by rw [hc]; simp
  have h2 : j'.card.getLast? = some (noP cell ++ [t]) := by
    rw [List.getLast?_eq_getElem?, hlen, hL]
    simp only [Nat.add_sub_cancel]
    rw [List.getD_eq_getElem?_getD, List.getElem?_eq_getElem hlt] at hcell
    rw [List.getElem?_eq_getElem hlt]
    simpa using hcell
  rw [h1, h2]
  simp

/-- the test of `rankOneLeft` (the survivor has cleared the current height) on both sides -/
theorem JSim.cleared_now {w w' : Jumper} (h : JSim w w') (n : Nat) (hlen : w.card.length ≤ n) :
    (w'.card.length == n && (w'.card.getLast?.getD []).contains Trial.o) =
    (w.card.length == n && (w.card.getLast?.getD []).contains Trial.o) := by
  have hmemo : ∀ cell : List Trial, (noP cell).contains Trial.o = cell.contains Trial.o := by
    intro cell
    unfold noP
    induction cell with
    | nil => rfl
    | cons t rest ih => cases t <;> simp_all [List.filter_cons]
  have hcells := h.card.cells
  have hl' := h.card.len
  by_cases h1 : w.card.length = n
  · by_cases h2 : w'.card.length = n
    · rw [getLast_getD, getLast_getD, h1, h2, hcells, hmemo]
    · -- the other card is shorter: its cell at this height is empty, so this one shows no clearance
      have : w'.card.getD (n - 1) [] = [] := by
        rw [List.getD_eq_getElem?_getD, List.getElem?_eq_none (by omega)]; rfl
      rw [hcells, ] at this
      have hno : (w.card.getD (n - 1) []).contains Trial.o = false := by
        rw [← hmemo, this]; rfl
      rw [getLast_getD w.card, h1, hno]
      simp [h2]
  · have h2 : w'.card.length ≠ n := by omega
    have e1 : (w.card.length == n) = false := by simpa using h1
    have e2 : (w'.card.length == n) = false := by simpa using h2
    rw [e1, e2]; rfl

/-! ## the rest of `_rank` on both sides -/

theorem Paired.mem_left {ps : List (Jumper × Jumper)} {c c' : Comp} (h : Paired ps c c') (p : Jumper × Jumper) (hp : p ∈ ps) :
    p.1 ∈ c.jumpers := by rw [h.left]; exact List.mem_map.2 ⟨p, hp, rfl⟩
theorem Paired.mem_right {ps : List (Jumper × Jumper)} {c c' : Comp} (h : Paired ps c c') (p : Jumper × Jumper) (hp : p ∈ ps) :
    p.2 ∈ c'.jumpers := by rw [h.right]; exact List.mem_map.2 ⟨p, hp, rfl⟩
theorem Paired.of_left {ps : List (Jumper × Jumper)} {c c' : Comp} (h : Paired ps c c') (j : Jumper) (hj : j ∈ c.jumpers) :
    ∃ p ∈ ps, p.1 = j := by
  rw [h.left] at hj
  obtain ⟨p, hp, e⟩ := List.mem_map.1 hj
  exact ⟨p, hp, e⟩

theorem firsts_paired {ps : List (Jumper × Jumper)} {c c' : Comp} (h : Paired ps c c') (hpl : PlacesEq ps) :
    (firsts c').length = (firsts c).length := by
  unfold firsts
  rw [h.left, h.right, List.filter_map, List.filter_map, List.length_map, List.length_map]
  congr 1
  apply List.filter_congr
  intro p hp
  simp only [Function.comp_apply, hpl p hp]

theorem reinstated_paired {ps : List (Jumper × Jumper)} {c c' : Comp} (h : Paired ps c c') (hpl : PlacesEq ps)
    (hem : ∀ j ∈ c.jumpers, ElimMark j) (hall : ∀ p ∈ ps, p.1.eliminated = true) (p : Jumper × Jumper) (hp : p ∈ ps) :
    reinstated c' p.2 = reinstated c p.1 := by
  obtain ⟨hl, hr⟩ := (h.sim p hp).elim_facts (hem p.1 (h.mem_left p hp)) (hall p hp)
  unfold reinstated
  rw [hpl p hp, hr, hl, h.phase, h.heights]

theorem rankTie_paired (ps : List (Jumper × Jumper)) (c c' : Comp) (h : Paired ps c c') (hpl : PlacesEq ps)
    (hw : WF c) (hw' : WF c') (hem : ∀ j ∈ c.jumpers, ElimMark j) (hall : ∀ p ∈ ps, p.1.eliminated = true) :
    ∃ ps', Paired ps' (rankTie c) (rankTie c') ∧ PlacesEq ps' := by
  have hre := reinstated_paired h hpl hem hall
  have hnc : (c'.jumpers.filter (reinstated c')).length = (c.jumpers.filter (reinstated c)).length := by
    rw [h.left, h.right, List.filter_map, List.filter_map, List.length_map, List.length_map]
    congr 1
    apply List.filter_congr
    intro p hp
    simp only [Function.comp_apply, hre p hp]
  have hbib : ∀ (d : Comp), (d.jumpers.map (fun (j : Jumper) => if reinstated d j then reinstate j else j)).map (·.bib) = d.jumpers.map (·.bib) := by
    intro d
    rw [List.map_map]
    apply List.map_congr_left
    intro k _
    simp only [Function.comp_apply]
    split <;> rfl
  have hsim : ∀ p ∈ ps, JSim (if reinstated c p.1 then reinstate p.1 else p.1) (if reinstated c' p.2 then reinstate p.2 else p.2) := by
    intro p hp
    rw [hre p hp]
    split
    · exact (h.sim p hp).reinstate
    · exact h.sim p hp
  unfold rankTie
  simp only
  rw [hnc]
  split
  · -- a jump-off
    have hP := h.map (fun (j : Jumper) => if reinstated c j then reinstate j else j) (fun (j : Jumper) => if reinstated c' j then reinstate j else j) hsim
      ({ { c with jumpers := c.jumpers.map (fun (j : Jumper) => if reinstated c j then reinstate j else j) } with phase := Phase.jumpoff } : Comp)
      ({ { c' with jumpers := c'.jumpers.map (fun (j : Jumper) => if reinstated c' j then reinstate j else j) } with phase := Phase.jumpoff } : Comp)
      rfl rfl rfl h.heights h.ranked
    exact rankj_paired _ _ _ hP (WF_of_same_bibs c _ (hbib c) (List.Perm.refl _) hw) (WF_of_same_bibs c' _ (hbib c') (List.Perm.refl _) hw')
  · -- a draw
    refine ⟨_, h.map (fun (j : Jumper) => if reinstated c j then reinstate j else j) (fun (j : Jumper) => if reinstated c' j then reinstate j else j) hsim
      _ _ rfl rfl rfl h.heights h.ranked, ?_⟩
    intro q hq
    obtain ⟨p, hp, rfl⟩ := List.mem_map.1 hq
    simp only
    rw [hre p hp]
    split
    · exact hpl p hp
    · exact hpl p hp

theorem Paired.update {ps : List (Jumper × Jumper)} {c c' : Comp} (h : Paired ps c c') (k k' : Jumper) (hk : JSim k k') :
    Paired (ps.map (fun p => ((if p.1.bib == k.bib then k else p.1), (if p.2.bib == k'.bib then k' else p.2)))) (c.update k) (c'.update k') := by
  apply h.map (fun j => if j.bib == k.bib then k else j) (fun j => if j.bib == k'.bib then k' else j)
  · intro p hp
    show JSim (if p.1.bib == k.bib then k else p.1) (if p.2.bib == k'.bib then k' else p.2)
    rw [(h.sim p hp).bib, hk.bib]
    split
    · exact hk
    · exact h.sim p hp
  · rfl
  · rfl
  · exact h.phase
  · exact h.heights
  · exact h.ranked

theorem rankLeader_paired (ps : List (Jumper × Jumper)) (c c' : Comp) (h : Paired ps c c') (hpl : PlacesEq ps)
    (hw : WF c) (hw' : WF c') (hem : ∀ j ∈ c.jumpers, ElimMark j) (hall : ∀ p ∈ ps, p.1.eliminated = true)
    (r0 r0' : Nat) (p0 : Jumper × Jumper) (hp0 : p0 ∈ ps) (hf : c.find r0 = some p0.1) (hf' : c'.find r0' = some p0.2) :
    ∃ ps', Paired ps' (rankLeader c r0) (rankLeader c' r0') ∧ PlacesEq ps' := by
  obtain ⟨_, hr⟩ := (h.sim p0 hp0).elim_facts (hem p0.1 (h.mem_left p0 hp0)) (hall p0 hp0)
  unfold rankLeader
  rw [hf, hf']
  show ∃ ps', Paired ps' (if (c.phase == Phase.jumpoff && !p0.1.hasRetired) = true then rankj (c.update (reinstate p0.1))
      else { c with phase := Phase.finished })
    (if (c'.phase == Phase.jumpoff && !p0.2.hasRetired) = true then rankj (c'.update (reinstate p0.2))
      else { c' with phase := Phase.finished }) ∧ PlacesEq ps'
  rw [h.phase, hr]
  split
  · have hP := h.update (reinstate p0.1) (reinstate p0.2) (h.sim p0 hp0).reinstate
    exact rankj_paired _ _ _ hP (WF_of_same_bibs c _ (update_bibs c _) (List.Perm.refl _) hw)
      (WF_of_same_bibs c' _ (update_bibs c' _) (List.Perm.refl _) hw')
  · exact ⟨ps, ⟨h.left, h.right, h.sim, rfl, h.heights, h.ranked⟩, hpl⟩

theorem rankTail_paired (ps : List (Jumper × Jumper)) (c c' : Comp) (h : Paired ps c c') (hpl : PlacesEq ps)
    (hw : WF c) (hr : Ranked c) (hs : SortedRanked c) (hw' : WF c') (hr' : Ranked c') (hs' : SortedRanked c')
    (hlen : ∀ j ∈ c.jumpers, j.card.length ≤ c.heights.length) (hem : ∀ j ∈ c.jumpers, ElimMark j) :
    ∃ ps', Paired ps' (rankTail c) (rankTail c') ∧ PlacesEq ps' := by
  unfold rankTail
  cases hla : c.ranked with
  | nil =>
    have : c'.ranked = [] := by
      have := h.ranked.length_eq; rw [hla] at this
      exact List.eq_nil_of_length_eq_zero this
    simp only [this]
    exact ⟨ps, h, hpl⟩
  | cons r0 rest =>
    cases hlb : c'.ranked with
    | nil => have := h.ranked.length_eq; rw [hla, hlb] at this; simp at this
    | cons r0' rest' =>
      simp only
      -- who is still in, pair by pair
      have hfl : c.jumpers.filter (fun j => !j.eliminated) = (ps.filter (fun p => !p.1.eliminated)).map Prod.fst := by
        rw [h.left, List.filter_map]; rfl
      have hfl' : c'.jumpers.filter (fun j => !j.eliminated) = (ps.filter (fun p => !p.1.eliminated)).map Prod.snd := by
        rw [h.right, List.filter_map]
        congr 1
        apply List.filter_congr
        intro p hp
        simp only [Function.comp_apply, (h.sim p hp).elim]
      rw [hfl, hfl']
      have h2 : secondIsFirst c' rest' = secondIsFirst c rest := by
        have ha := secondIsFirst_iff c hw hr hs r0 rest hla
        have hb := secondIsFirst_iff c' hw' hr' hs' r0' rest' hlb
        rw [firsts_paired h hpl] at hb
        cases h1 : secondIsFirst c rest <;> cases h2 : secondIsFirst c' rest' <;> simp_all <;> omega
      cases hfilt : ps.filter (fun p => !p.1.eliminated) with
      | nil =>
        have hall : ∀ p ∈ ps, p.1.eliminated = true := by
          intro p hp
          have := List.filter_eq_nil_iff.1 hfilt p hp
          simpa using this
        simp only [List.map_nil]
        rw [h2]
        split
        · exact rankTie_paired ps c c' h hpl hw hw' hem hall
        · next hnot =>
          have hnot1 : secondIsFirst c rest = false := by simpa using hnot
          have hnot2 : secondIsFirst c' rest' = false := by rw [h2]; exact hnot1
          obtain ⟨j0, hj0, hm0, hp0⟩ := head_is_first c hw hr hs r0 rest hla
          obtain ⟨p0, hp0m, hp0e⟩ := h.of_left j0 hm0
          have hf' : c'.find r0' = some p0.2 :=
            head_is_the_leader c' hw' hr' hs' r0' rest' hlb p0.2 (h.mem_right p0 hp0m)
              (by rw [hpl p0 hp0m, hp0e]; exact hp0) hnot2
          exact rankLeader_paired ps c c' h hpl hw hw' hem hall r0 r0' p0 hp0m (by rw [hp0e]; exact hj0) hf'
      | cons p1 tl =>
        cases tl with
        | nil =>
          simp only [List.map_cons, List.map_nil]
          have hp1 : p1 ∈ ps := by
            have : p1 ∈ ps.filter (fun p => !p.1.eliminated) := by rw [hfilt]; simp
            exact (List.mem_filter.1 this).1
          unfold rankOneLeft
          rw [h.heights, (h.sim p1 hp1).cleared_now c.heights.length (hlen p1.1 (h.mem_left p1 hp1)), h.phase]
          split
          · exact ⟨ps, ⟨h.left, h.right, h.sim, rfl, rfl, h.ranked⟩, hpl⟩
          · exact ⟨ps, ⟨h.left, h.right, h.sim, h.phase, h.heights, h.ranked⟩, hpl⟩
        | cons p2 tl2 =>
          simp only [List.map_cons]
          exact ⟨ps, h, hpl⟩

theorem rank_paired (ps : List (Jumper × Jumper)) (c c' : Comp) (h : Paired ps c c') (hw : WF c) (hw' : WF c')
    (hlen : ∀ j ∈ c.jumpers, j.card.length ≤ c.heights.length) (hem : ∀ j ∈ c.jumpers, ElimMark j) :
    ∃ ps', Paired ps' (rank c) (rank c') ∧ PlacesEq ps' := by
  obtain ⟨ps1, hP1, hpl1⟩ := rankj_paired ps c c' h hw hw'
  rw [rank_eq_tail, rank_eq_tail]
  apply rankTail_paired ps1 _ _ hP1 hpl1 (rankj_WF c hw) (rankj_ranked c hw) (rankj_sorted c hw)
    (rankj_WF c' hw') (rankj_ranked c' hw') (rankj_sorted c' hw')
  · intro j hj
    rw [rankj_jumpers c hw] at hj
    obtain ⟨k, hk, rfl⟩ := List.mem_map.1 hj
    rw [(rankj_frame c).2.1]
    exact hlen k hk
  · intro j hj
    rw [rankj_jumpers c hw] at hj
    obtain ⟨k, hk, rfl⟩ := List.mem_map.1 hj
    exact hem k hk

end AthlibVerif.HJ
