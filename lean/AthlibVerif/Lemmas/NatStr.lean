import AthlibVerif.Model.Codes
import AthlibVerif.Model.Perf
/-!
# `str(int)` and `int(str)` are inverse, for every number

`Codes.natStr` (decimal rendering, structurally recursive for the kernel) read back by `Codes.pyInt`
(any-script digits through the regenerated digit blocks) gives the number again — for all `n`, replacing
the 10 000-entry table the multi-event idempotence used; and `"%0.2f"` read back by `floatOf`.
-/
namespace AthlibVerif
namespace Codes

/-- the ten ASCII digits have their values in the regenerated digit blocks -/
def asciiDigitsOK : Bool := (List.range 10).all (fun d => digitVal (digitChar0 d) == some d && digitChar0 d != '.')

theorem pyIntStep_digit (h : asciiDigitsOK = true) (k d : Nat) (hd : d < 10) :
    pyIntStep (some k) (digitChar0 d) = some (10 * k + d) := by
  have := List.all_eq_true.1 h d (List.mem_range.2 hd)
  simp only [Bool.and_eq_true, beq_iff_eq] at this
  simp [pyIntStep, this.1]

theorem natStrAux_fold (h : asciiDigitsOK = true) : ∀ (fuel n : Nat) (acc : Str), n < fuel →
    ∃ L, ∀ k, (natStrAux fuel n acc).foldl pyIntStep (some k) = acc.foldl pyIntStep (some (k * 10 ^ L + n)) := by
  intro fuel
  induction fuel with
  | zero => intro n acc hn; omega
  | succ f ih =>
    intro n acc hn
    simp only [natStrAux]
    split
    · next h0 =>
      refine ⟨1, fun k => ?_⟩
      have hlt : n < 10 := by omega
      rw [List.foldl_cons, Nat.mod_eq_of_lt hlt, pyIntStep_digit h k n hlt]
      congr 2; omega
    · next h0 =>
      obtain ⟨L, hL⟩ := ih (n / 10) (digitChar0 (n % 10) :: acc) (by omega)
      refine ⟨L + 1, fun k => ?_⟩
      rw [hL k, List.foldl_cons, pyIntStep_digit h _ _ (Nat.mod_lt _ (by omega))]
      congr 2
      rw [Nat.pow_succ]
      have := Nat.div_add_mod n 10
      rw [Nat.mul_add, ← Nat.mul_assoc, Nat.mul_comm 10 k, Nat.mul_assoc k, Nat.mul_comm 10 (10 ^ L)]
      omega

theorem natStrAux_ne_nil : ∀ (fuel n : Nat) (acc : Str), (0 < fuel ∨ acc ≠ []) → natStrAux fuel n acc ≠ [] := by
  intro fuel
  induction fuel with
  | zero => intro n acc h; rcases h with h | h; omega; simpa [natStrAux] using h
  | succ f ih =>
    intro n acc _
    simp only [natStrAux]
    split
    · simp
    · exact ih _ _ (Or.inr (by simp))

/-- **`int(str(n)) == n` for every `n`** -/
theorem pyInt_natStr (h : asciiDigitsOK = true) (n : Nat) : pyInt (natStr n) = .ok n := by
  obtain ⟨L, hL⟩ := natStrAux_fold h (n + 1) n [] (Nat.lt_succ_self n)
  have hne : (natStr n).isEmpty = false := by
    have := natStrAux_ne_nil (n + 1) n [] (Or.inl (Nat.succ_pos n))
    unfold natStr
    cases hh : natStrAux (n + 1) n [] with
    | nil => exact (this hh).elim
    | cons _ _ => rfl
  unfold pyInt
  simp only [hne, Bool.false_eq_true, if_false]
  have := hL 0
  simp only [Nat.zero_mul, Nat.zero_add, List.foldl_nil] at this
  unfold natStr
  rw [this]

theorem natStrAux_mem (h : asciiDigitsOK = true) : ∀ (fuel n : Nat) (acc : Str) (c : Char),
    c ∈ natStrAux fuel n acc → c ∈ acc ∨ c ≠ '.' := by
  intro fuel
  induction fuel with
  | zero => intro n acc c hc; exact Or.inl (by simpa [natStrAux] using hc)
  | succ f ih =>
    intro n acc c hc
    have hd : digitChar0 (n % 10) ≠ '.' := by
      have := List.all_eq_true.1 h (n % 10) (List.mem_range.2 (Nat.mod_lt _ (by omega)))
      simp only [Bool.and_eq_true, bne_iff_ne, ne_eq] at this
      exact this.2
    simp only [natStrAux] at hc
    split at hc
    · rcases List.mem_cons.1 hc with rfl | hc
      · exact Or.inr hd
      · exact Or.inl hc
    · rcases ih _ _ c hc with hm | hm
      · rcases List.mem_cons.1 hm with rfl | hm
        · exact Or.inr hd
        · exact Or.inl hm
      · exact Or.inr hm

theorem natStr_no_dot (h : asciiDigitsOK = true) (n : Nat) : ∀ c ∈ natStr n, c ≠ '.' := by
  intro c hc
  rcases natStrAux_mem h (n + 1) n [] c hc with hm | hm
  · cases hm
  · exact hm

end Codes

namespace Perf
open Codes

theorem twoDigits_eq (c : Nat) : twoDigits c = [digitChar0 (c / 10 % 10), digitChar0 (c % 10)] := rfl

/-- **`float("%0.2f" % x)` reads the hundredths back**, for every value -/
theorem digit_ne_dot (h : asciiDigitsOK = true) (d : Nat) (hd : d < 10) : digitChar0 d ≠ '.' := by
  have := List.all_eq_true.1 h d (List.mem_range.2 hd)
  simp only [Bool.and_eq_true, bne_iff_ne, ne_eq] at this; exact this.2

theorem floatOf_fmt2 (h : asciiDigitsOK = true) (c : Nat) : floatOf (fmt2 c) = some (c, 100, 2) := by
  have hnd := natStr_no_dot h (c / 100)
  have hd1 : digitChar0 (c % 100 / 10 % 10) ≠ '.' := digit_ne_dot h _ (Nat.mod_lt _ (by omega))
  have hd2 : digitChar0 (c % 100 % 10) ≠ '.' := digit_ne_dot h _ (Nat.mod_lt _ (by omega))
  have hne : natStr (c / 100) ≠ [] := natStrAux_ne_nil (c / 100 + 1) (c / 100) [] (Or.inl (Nat.succ_pos _))
  have hfmt : fmt2 c = natStr (c / 100) ++ ('.' :: twoDigits (c % 100)) := by simp [fmt2]
  have htw : (fmt2 c).takeWhile (· != '.') = natStr (c / 100) := by
    rw [hfmt, List.takeWhile_append_of_pos (by intro x hx; simpa using hnd x hx)]
    simp
  have hdw : (fmt2 c).dropWhile (· != '.') = '.' :: twoDigits (c % 100) := by
    rw [hfmt, List.dropWhile_append_of_pos (by intro x hx; simpa using hnd x hx)]
    simp
  have hfilter : ((fmt2 c).filter (· == '.')).length = 1 := by
    have h1 : (natStr (c / 100)).filter (· == '.') = [] := by
      rw [List.filter_eq_nil_iff]; intro x hx; simpa using hnd x hx
    have h2 : (twoDigits (c % 100)).filter (· == '.') = [] := by
      rw [List.filter_eq_nil_iff]; intro x hx
      simp only [twoDigits_eq, List.mem_cons, List.mem_nil_iff, or_false] at hx
      rcases hx with rfl | rfl
      · simpa using hd1
      · simpa using hd2
    rw [hfmt, List.filter_append, h1, List.filter_cons, h2]; simp
  have hfp : pyInt (twoDigits (c % 100)) = .ok (c % 100) := by
    unfold pyInt
    simp only [twoDigits_eq, List.isEmpty_cons, Bool.false_eq_true, if_false, List.foldl_cons, List.foldl_nil]
    rw [pyIntStep_digit h 0 _ (Nat.mod_lt _ (by omega)), pyIntStep_digit h _ _ (Nat.mod_lt _ (by omega))]
    have : 10 * (10 * 0 + c % 100 / 10 % 10) + c % 100 % 10 = c % 100 := by omega
    rw [this]
  have hemp : (fmt2 c).isEmpty = false := by rw [hfmt]; cases natStr (c / 100) <;> rfl
  have hip : (natStr (c / 100)).isEmpty = false := by
    cases hh : natStr (c / 100) with
    | nil => exact (hne hh).elim
    | cons _ _ => rfl
  have htl : (twoDigits (c % 100)).length = 2 := rfl
  have hte : (twoDigits (c % 100)).isEmpty = false := rfl
  unfold floatOf
  simp only [hemp, hfilter, htw, hdw, hip, hte, htl, Bool.false_eq_true, if_false, Bool.false_and,
    Nat.lt_irrefl, List.drop_succ_cons, List.drop_zero, pyInt_natStr h, hfp, gt_iff_lt]
  have := Nat.div_add_mod c 100
  have h100 : (10 : Nat) ^ 2 = 100 := rfl
  simp only [h100, Option.some.injEq, Prod.mk.injEq, and_true]
  omega

end Perf
end AthlibVerif
