import AthlibVerif.Lemmas.TimesFormat
import AthlibVerif.Lemmas.TimesParse
/-! # helper lemmas for C06: parsing what `format_seconds_as_time` printed.  Core Lean only. -/
namespace AthlibVerif.Times
open AthlibVerif.Digits

theorem add60_int (a : Int) (b : Bool) (x : Int) (e : Nat) :
    (⟨true, a, 0⟩ : Num).add60 ⟨b, x, e⟩ = ⟨b, a * 60 * (10 : Int) ^ e + x, e⟩ := by
  simp [Num.add60]

theorem num3 (h m s p v : Nat) : ((h : Int) * 60 + m) * 60 * 10 ^ p + ((s * 10 ^ p + v : Nat) : Int) =
    (((h * 3600 + m * 60 + s) * 10 ^ p + v : Nat) : Int) := by grind

theorem num2 (m s p v : Nat) : (m : Int) * 60 * 10 ^ p + ((s * 10 ^ p + v : Nat) : Int) =
    (((0 * 3600 + m * 60 + s) * 10 ^ p + v : Nat) : Int) := by grind

theorem num1 (s p v : Nat) : ((s * 10 ^ p + v : Nat) : Int) = (((0 * 3600 + 0 * 60 + s) * 10 ^ p + v : Nat) : Int) := by
  simp

theorem pad2_ne_nil (x : Nat) : padLeft 2 (render x) ≠ [] := by
  unfold padLeft; intro h
  have := List.append_eq_nil_iff.1 h
  exact render_ne_nil x this.2

theorem allDig_pad2 (x : Nat) : allDig (padLeft 2 (render x)) = true := by
  unfold padLeft; rw [allDig_append, allDig_zeros, allDig_render]; rfl

theorem val_pad2 (x : Nat) : val (padLeft 2 (render x)) = x := by
  unfold padLeft; rw [val_zeros_append, val_render]

/-- `'%02d'` gives exactly two digits below 100 -/
theorem pad2_length (x : Nat) (h : x < 100) : (padLeft 2 (render x)).length = 2 := by
  have h1 := render_length_le x 2 (by omega) (by omega)
  have h2 := render_length_pos x
  unfold padLeft; rw [List.length_append, zeros_length]; omega

/-- the last field: digits, then the fraction part at precision `p` -/
theorem parseField_last (d fd : List Char) (p : Nat) (hne : d ≠ []) (hd : allDig d = true) (hfd : allDig fd = true)
    (hlen : fd.length = p) :
    parseField (d ++ fracPart fd p) = some ⟨decide (p = 0), ((val d * 10 ^ p + val fd : Nat) : Int), p⟩ := by
  unfold fracPart
  by_cases hp : p = 0
  · subst hp
    have : fd = [] := List.length_eq_zero_iff.1 hlen
    subst this
    simp [parseField_digits d hne hd]
  · rw [if_neg hp, parseField_decimal d fd hne hd hfd, val_append, hlen]
    simp [hp]

/-- parsing the text `fmtHMS h m s` followed by `p` decimals gives back exactly the number printed:
an `int` at precision 0, else the decimal with `p` places -/
theorem parseHms_fmtHMS (h m s p : Nat) (fd : List Char) (hfd : allDig fd = true) (hlen : fd.length = p) :
    parseHms (fmtHMS h m s ++ fracPart fd p) =
      .ok ⟨decide (p = 0), (((h * 3600 + m * 60 + s) * 10 ^ p + val fd : Nat) : Int), p⟩ := by
  have hH := parseField_digits (render h) (render_ne_nil h) (allDig_render h)
  have hM := parseField_digits (render m) (render_ne_nil m) (allDig_render m)
  have hM2 := parseField_digits _ (pad2_ne_nil m) (allDig_pad2 m)
  have hS := parseField_last (render s) fd p (render_ne_nil s) (allDig_render s) hfd hlen
  have hS2 := parseField_last _ fd p (pad2_ne_nil s) (allDig_pad2 s) hfd hlen
  rw [val_render] at hH hM hS
  rw [val_pad2] at hM2 hS2
  unfold fmtHMS
  by_cases h0 : h ≠ 0
  · rw [if_pos h0]
    have e : (render h ++ ':' :: (padLeft 2 (render m) ++ ':' :: padLeft 2 (render s))) ++ fracPart fd p =
        joinWith ':' [render h, padLeft 2 (render m), padLeft 2 (render s) ++ fracPart fd p] := by
      show _ = render h ++ ':' :: (padLeft 2 (render m) ++ ':' :: (padLeft 2 (render s) ++ fracPart fd p))
      rw [List.append_assoc, List.cons_append, List.append_assoc, List.cons_append]
    rw [e, parseHms_joinWith ':' (Or.inl rfl) _ (by simp)]
    · rw [parseFields_cons _ _ _ _ hH, parseFields_cons _ _ _ _ hM2, parseFields_cons _ _ _ _ hS2, zero_add60,
        add60_int, add60_int]
      simp only [parseFields, toExcept, Int.pow_zero, Int.mul_one]
      rw [num3]
    · intro f hf
      simp only [List.mem_cons, List.not_mem_nil, or_false] at hf
      rcases hf with rfl | rfl | rfl
      · exact parseField_no_sep _ _ hH
      · exact parseField_no_sep _ _ hM2
      · exact parseField_no_sep _ _ hS2
  · rw [if_neg h0]
    have h0' : h = 0 := by omega
    subst h0'
    by_cases m0 : m ≠ 0
    · rw [if_pos m0]
      have e : (render m ++ ':' :: padLeft 2 (render s)) ++ fracPart fd p =
          joinWith ':' [render m, padLeft 2 (render s) ++ fracPart fd p] := by
        show _ = render m ++ ':' :: (padLeft 2 (render s) ++ fracPart fd p)
        rw [List.append_assoc, List.cons_append]
      rw [e, parseHms_joinWith ':' (Or.inl rfl) _ (by simp)]
      · rw [parseFields_cons _ _ _ _ hM, parseFields_cons _ _ _ _ hS2, zero_add60, add60_int]
        simp only [parseFields, toExcept]
        rw [num2]
      · intro f hf
        simp only [List.mem_cons, List.not_mem_nil, or_false] at hf
        rcases hf with rfl | rfl
        · exact parseField_no_sep _ _ hM
        · exact parseField_no_sep _ _ hS2
    · rw [if_neg m0]
      have m0' : m = 0 := by omega
      subst m0'
      have e : render s ++ fracPart fd p = joinWith ':' [render s ++ fracPart fd p] := rfl
      rw [e, parseHms_joinWith ':' (Or.inl rfl) _ (by simp)]
      · rw [parseFields_cons _ _ _ _ hS, zero_add60]
        simp only [parseFields, toExcept]
        rw [num1]
      · intro f hf
        simp only [List.mem_cons, List.not_mem_nil, or_false] at hf
        subst hf
        exact parseField_no_sep _ _ hS

end AthlibVerif.Times
