import AthlibVerif.Model.Times
import AthlibVerif.Lemmas.Digits
/-! # helper lemmas for C06: splitting, the carry branch, the core of `round_up_str_num`.  Core Lean only. -/
namespace AthlibVerif.Times
open AthlibVerif.Digits

/-- `N = ⌈a / b⌉` stated without division: `a ≤ N·b < a + b` -/
def IsCeil (N a b : Nat) : Prop := a ≤ N * b ∧ N * b < a + b

theorem IsCeil.unique {N M a b : Nat} (h1 : IsCeil N a b) (h2 : IsCeil M a b) : N = M := by
  obtain ⟨a1, b1⟩ := h1; obtain ⟨a2, b2⟩ := h2
  rcases Nat.lt_trichotomy N M with h | h | h
  · exfalso
    have : (N + 1) * b ≤ M * b := Nat.mul_le_mul_right _ h
    rw [Nat.add_mul] at this; omega
  · exact h
  · exfalso
    have : (M + 1) * b ≤ N * b := Nat.mul_le_mul_right _ h
    rw [Nat.add_mul] at this; omega

/-- `IsCeil` is ceiling division: for `b > 0`, `IsCeil N a b ↔ N = (a + b − 1) / b` -/
theorem isCeil_iff_ceilDiv (N a b : Nat) (hb : 0 < b) : IsCeil N a b ↔ N = (a + b - 1) / b := by
  have hq : IsCeil ((a + b - 1) / b) a b := by
    have h1 := Nat.div_add_mod (a + b - 1) b
    have h2 := Nat.mod_lt (a + b - 1) hb
    unfold IsCeil
    rw [Nat.mul_comm]
    generalize b * ((a + b - 1) / b) = bq at *
    omega
  constructor
  · intro h; exact h.unique hq
  · intro h; rw [h]; exact hq

/-! ### splitting at the dot -/

theorem splitDot_nodot (l : List Char) (h : '.' ∉ l) : splitDot l = (l, none) := by
  induction l with
  | nil => rfl
  | cons c cs ih =>
    have hc : c ≠ '.' := fun e => h (by simp [e])
    have hcs : '.' ∉ cs := fun e => h (by simp [e])
    simp only [splitDot, hc, if_false, ih hcs]

theorem splitDot_dot (a b : List Char) (h : '.' ∉ a) : splitDot (a ++ '.' :: b) = (a, some b) := by
  induction a with
  | nil => simp [splitDot]
  | cons c cs ih =>
    have hc : c ≠ '.' := fun e => h (by simp [e])
    have hcs : '.' ∉ cs := fun e => h (by simp [e])
    simp only [List.cons_append, splitDot, hc, if_false, ih hcs]

theorem dot_not_mem (l : List Char) (h : allDig l = true) : '.' ∉ l :=
  not_mem_of_allDig l '.' h (by decide)

/-! ### the carry branch -/

theorem render_one : render 1 = ['1'] := by decide

/-- the number of digits `str(n)` has is at most `k` when `n < 10^k` -/
theorem renderAux_length (fuel n k : Nat) (acc : List Char) (h : n < fuel) (hk : 0 < k) (hn : n < 10 ^ k) :
    (renderAux fuel n acc).length ≤ k + acc.length := by
  induction fuel generalizing n k acc with
  | zero => omega
  | succ fuel ih =>
    unfold renderAux
    split
    · simp; omega
    · rename_i h10
      have hk2 : 2 ≤ k := by
        rcases Nat.lt_or_ge k 2 with h1 | h1
        · have : k = 1 := by omega
          subst this; simp at hn; omega
        · exact h1
      have hdiv : n / 10 < 10 ^ (k - 1) := by
        apply Nat.div_lt_of_lt_mul
        have : 10 ^ k = 10 * 10 ^ (k - 1) := by
          rw [← Nat.pow_succ']; congr 1; omega
        omega
      have := ih (n / 10) (k - 1) (digitChar (n % 10) :: acc) (by omega) (by omega) hdiv
      simp only [List.length_cons] at this
      omega

theorem render_length_le (n k : Nat) (hk : 0 < k) (hn : n < 10 ^ k) : (render n).length ≤ k := by
  have := renderAux_length (n + 1) n k [] (by omega) hk hn
  simpa [render] using this

structure CarrySpec (i f : List Char) (p : Nat) (i' f' : List Char) : Prop where
  ne : i' ≠ []
  di : allDig i' = true
  df : allDig f' = true
  len : f'.length = p
  value : val i' * 10 ^ p + val f' = val (i ++ f) + 1
  /-- the integer part is one digit when the incremented number fits `p + 1` digits -/
  one : val (i ++ f) + 1 < 10 ^ (p + 1) → i'.length = 1

/-- `carry` returns the incremented number `int(i ++ f) + 1`, re-split `p` digits from the right
(`f'` below is `r.2` except at `p = 0`, where Python's `i[-0:]` is the whole string and is not used) -/
theorem carry_spec (i f : List Char) (p : Nat) (hf : f.length = p) :
    ∃ f', join (carry i f p).1 (carry i f p).2 p = join (carry i f p).1 f' p ∧
      CarrySpec i f p (carry i f p).1 f' := by
  -- the incremented number and its padded spelling
  let i3 : List Char := if i ++ f ≠ [] then render (val (i ++ f) + 1) else ['1']
  have hi3 : i3 = render (val (i ++ f) + 1) := by
    show (if i ++ f ≠ [] then render (val (i ++ f) + 1) else ['1']) = _
    split
    · rfl
    · rename_i h; simp only [ne_eq, Decidable.not_not] at h; rw [h]; exact render_one.symm
  let i4 : List Char := if i3.length < p + 1 then zeros (p + 1 - i3.length) ++ i3 else i3
  have hcarry : carry i f p = (i4.take (i4.length - p), if p = 0 then i4 else i4.drop (i4.length - p)) := rfl
  have hv4 : val i4 = val (i ++ f) + 1 := by
    show val (if i3.length < p + 1 then zeros (p + 1 - i3.length) ++ i3 else i3) = _
    split
    · rw [val_zeros_append, hi3, val_render]
    · rw [hi3, val_render]
  have hd4 : allDig i4 = true := by
    show allDig (if i3.length < p + 1 then zeros (p + 1 - i3.length) ++ i3 else i3) = true
    split
    · rw [allDig_append, allDig_zeros, hi3, allDig_render]; rfl
    · rw [hi3, allDig_render]
  have hl4 : p + 1 ≤ i4.length := by
    show p + 1 ≤ (if i3.length < p + 1 then zeros (p + 1 - i3.length) ++ i3 else i3).length
    split
    · rw [List.length_append, zeros_length]; omega
    · omega
  have hl4' : val (i ++ f) + 1 < 10 ^ (p + 1) → i4.length = p + 1 := by
    intro hlt
    have h3 : i3.length ≤ p + 1 := by rw [hi3]; exact render_length_le _ _ (by omega) hlt
    show (if i3.length < p + 1 then zeros (p + 1 - i3.length) ++ i3 else i3).length = p + 1
    split
    · rw [List.length_append, zeros_length]; omega
    · omega
  rw [hcarry]
  refine ⟨i4.drop (i4.length - p), ?_, ?_⟩
  · simp only [join]; split <;> simp_all
  · refine ⟨?_, allDig_take _ _ hd4, allDig_drop _ _ hd4, ?_, ?_, ?_⟩
    · intro h
      have := congrArg List.length h
      simp only [List.length_take, List.length_nil] at this
      omega
    · rw [List.length_drop]; omega
    · have := val_take_drop i4 (i4.length - p)
      have e : i4.length - (i4.length - p) = p := by omega
      rw [e] at this
      show val (i4.take (i4.length - p)) * 10 ^ p + val (i4.drop (i4.length - p)) = _
      omega
    · intro hlt
      show (i4.take (i4.length - p)).length = 1
      rw [List.length_take, hl4' hlt]; omega

/-! ### the core of `round_up_str_num` -/

structure CoreSpec (i g : List Char) (p : Nat) (i' f' : List Char) : Prop where
  ne : i' ≠ []
  di : allDig i' = true
  df : allDig f' = true
  len : f'.length = p
  /-- the value written, `int(i').f'`, is the ceiling at `p` decimals of the value read, `int(i).g` -/
  ceil : IsCeil (val i' * 10 ^ p + val f') ((val i * 10 ^ g.length + val g) * 10 ^ p) (10 ^ g.length)
  one : i.length = 1 → (val i = 0 ∨ val g = 0) → i'.length = 1

theorem val_orZero (i : List Char) : val (if i = [] then ['0'] else i) = val i := by
  split
  · rename_i h; rw [h]; decide
  · rfl

theorem allDig_orZero (i : List Char) (h : allDig i = true) : allDig (if i = [] then ['0'] else i) = true := by
  split
  · decide
  · exact h

theorem orZero_ne_nil (i : List Char) : (if i = [] then ['0'] else i) ≠ [] := by
  split
  · simp
  · assumption

theorem orZero_length_one (i : List Char) (h : i.length = 1) : (if i = [] then ['0'] else i).length = 1 := by
  split
  · rfl
  · exact h

theorem roundUpCore_spec (i g : List Char) (p : Nat) (hi : allDig i = true) (hg : allDig g = true) :
    ∃ i' f', roundUpCore i g p = join i' f' p ∧ CoreSpec i g p i' f' := by
  have hA : 0 < 10 ^ p := Nat.pow_pos (by omega)
  unfold roundUpCore
  by_cases hn : g.length > p
  · rw [if_pos hn]
    have hpow : 10 ^ g.length = 10 ^ p * 10 ^ (g.length - p) := by
      rw [← Nat.pow_add]; congr 1; omega
    have hB : 0 < 10 ^ (g.length - p) := Nat.pow_pos (by omega)
    have hsplit := val_take_drop g p
    have hr : val (g.drop p) < 10 ^ (g.length - p) := by
      have := val_lt (g.drop p); rwa [List.length_drop] at this
    have hlt : (g.take p).length = p := by rw [List.length_take]; omega
    by_cases ht : stripZeros (g.drop p) ≠ []
    · rw [if_pos ht]
      obtain ⟨f', hj, cs⟩ := carry_spec i (g.take p) p hlt
      refine ⟨_, f', hj, cs.ne, cs.di, cs.df, cs.len, ?_, ?_⟩
      · have hpos : 0 < val (g.drop p) := by
          rcases Nat.eq_zero_or_pos (val (g.drop p)) with h0 | h0
          · exact absurd ((stripZeros_eq_nil_iff _ (allDig_drop _ _ hg)).2 h0) ht
          · exact h0
        rw [cs.value, val_append, hlt]
        generalize val i = a at *
        generalize val (g.take p) = b at *
        generalize val (g.drop p) = r at *
        generalize 10 ^ (g.length - p) = B at *
        generalize 10 ^ p = A at *
        rw [hpow, hsplit]
        have h1 : r * A ≤ B * A := Nat.mul_le_mul_right _ (Nat.le_of_lt hr)
        have h2 : 0 < r * A := Nat.mul_pos hpos hA
        constructor <;> grind
      · intro h1 h0
        apply cs.one
        rw [val_append, hlt]
        have hb : val (g.take p) < 10 ^ p := by have := val_lt (g.take p); rwa [hlt] at this
        rcases h0 with h0 | h0
        · rw [h0, Nat.pow_succ]; omega
        · exfalso
          have hz : val (g.drop p) = 0 := by
            rw [h0] at hsplit; omega
          exact ht ((stripZeros_eq_nil_iff _ (allDig_drop _ _ hg)).2 hz)
    · rw [if_neg ht]
      have hz : val (g.drop p) = 0 := (stripZeros_eq_nil_iff _ (allDig_drop _ _ hg)).1 (by simpa using ht)
      refine ⟨_, g.take p, rfl, orZero_ne_nil i, allDig_orZero i hi, allDig_take _ _ hg, hlt, ?_, ?_⟩
      · rw [val_orZero]
        generalize val i = a at *
        generalize val (g.take p) = b at *
        generalize 10 ^ (g.length - p) = B at *
        generalize 10 ^ p = A at *
        rw [hpow, hsplit, hz]
        have h2 : 0 < A * B := Nat.mul_pos hA hB
        constructor <;> grind
      · intro h1 _; exact orZero_length_one i h1
  · rw [if_neg hn]
    have hpow : 10 ^ p = 10 ^ g.length * 10 ^ (p - g.length) := by
      rw [← Nat.pow_add]; congr 1; omega
    have hC : 0 < 10 ^ g.length := Nat.pow_pos (by omega)
    refine ⟨_, g ++ zeros (p - g.length), rfl, orZero_ne_nil i, allDig_orZero i hi, ?_, ?_, ?_, ?_⟩
    · rw [allDig_append, hg, allDig_zeros]; rfl
    · rw [List.length_append, zeros_length]; omega
    · rw [val_orZero, val_append_zeros]
      generalize val i = a at *
      generalize val g = c at *
      generalize 10 ^ (p - g.length) = D at *
      generalize 10 ^ g.length = C at *
      rw [hpow]
      constructor <;> grind
    · intro h1 _; exact orZero_length_one i h1

end AthlibVerif.Times
