import AthlibVerif.Lemmas.CardLog
/-!
# Cell by cell: what stands in the column of a bar is what the athlete did at that bar

`CardLog` says the card read left to right is the athlete's accepted trials.  This file sharpens it to the cells: in every
reachable competition the card, padded with empty cells to the number of bars so far (what `to_matrix` writes), has in its
`i`-th cell exactly the athlete's accepted trials made between the `i`-th bar call and the next one, in order.
-/
namespace AthlibVerif.HJ

/-- one step of reading a log into the cells of athlete `b`: a bar opens a cell, a trial of `b` goes into the last one -/
def cellStep (b : Nat) (cells : List (List Trial)) (op : Op) : List (List Trial) :=
  match op with
  | .bar _ => cells ++ [[]]
  | .trial b' t => if b' == b then appendLast cells t else cells
  | .add _ => cells

/-- the cells of athlete `b` according to the log: one per bar, holding `b`'s trials at that bar -/
def cellsOf (b : Nat) (log : List Op) : List (List Trial) := log.foldl (cellStep b) []

theorem cellsOf_snoc (b : Nat) (log : List Op) (op : Op) : cellsOf b (log ++ [op]) = cellStep b (cellsOf b log) op := by
  unfold cellsOf; rw [List.foldl_append]; rfl

theorem appendLast_length (card : List (List Trial)) (t : Trial) : (appendLast card t).length = card.length := by
  unfold appendLast
  cases h : card.reverse with
  | nil => have : card = [] := by simpa using h
           subst this; rfl
  | cons l rest =>
    have : card.length = (l :: rest).length := by rw [← h]; simp
    simp [this]

/-- the number of bar calls in a log -/
def bars (log : List Op) : Nat := (log.filter (fun op => match op with | .bar _ => true | _ => false)).length

theorem bars_cons (op : Op) (l : List Op) : bars (op :: l) = (match op with | .bar _ => 1 | _ => 0) + bars l := by
  unfold bars
  cases op <;> simp [List.filter_cons] <;> omega

theorem foldl_cells_length (b : Nat) : ∀ (log : List Op) (acc : List (List Trial)),
    (log.foldl (cellStep b) acc).length = acc.length + bars log := by
  intro log
  induction log with
  | nil => intro acc; simp [bars]
  | cons op l ih =>
    intro acc
    rw [List.foldl_cons, ih, bars_cons]
    cases op with
    | add x => simp [cellStep]
    | bar x => simp [cellStep]; omega
    | trial b' t =>
      simp only [cellStep]
      split
      · rw [appendLast_length]; simp
      · simp

theorem cellsOf_length (b : Nat) (log : List Op) : (cellsOf b log).length = bars log := by
  unfold cellsOf; rw [foldl_cells_length]; simp

theorem foldl_cells_absent (b : Nat) : ∀ (log : List Op) (acc : List (List Trial)), (∀ t, Op.trial b t ∉ log) →
    log.foldl (cellStep b) acc = acc ++ List.replicate (bars log) [] := by
  intro log
  induction log with
  | nil => intro acc _; simp [bars]
  | cons op l ih =>
    intro acc h
    have hl : ∀ t, Op.trial b t ∉ l := fun t hm => h t (List.mem_cons_of_mem _ hm)
    rw [List.foldl_cons, ih _ hl, bars_cons]
    cases op with
    | add x => simp [cellStep]
    | bar x =>
      simp only [cellStep, List.append_assoc]
      rw [show 1 + bars l = bars l + 1 by omega, List.replicate_succ]; rfl
    | trial b' t =>
      have hne : (b' == b) = false := by
        cases hb : (b' == b) with
        | false => rfl
        | true =>
          have : b' = b := by simpa using hb
          subst this
          exact (h t List.mem_cons_self).elim
      simp [cellStep, hne]

/-- an athlete without a trial in the log has only empty cells -/
theorem cellsOf_absent (b : Nat) (log : List Op) (h : ∀ t, Op.trial b t ∉ log) :
    cellsOf b log = List.replicate (bars log) [] := by
  unfold cellsOf; rw [foldl_cells_absent b log [] h]; simp

theorem bars_snoc (l : List Op) (op : Op) : bars (l ++ [op]) = bars l + (match op with | .bar _ => 1 | _ => 0) := by
  unfold bars
  rw [List.filter_append]
  cases op <;> simp

/-- the reading of the bar history: as many heights as bar calls -/
def BarsLog (c : Comp) : Prop := c.heights.length = bars c.log

/-- **the cell invariant**: the padded card is the log read into cells -/
def CardCells (c : Comp) : Prop := ∀ j ∈ c.jumpers, padCard j.card c.heights.length = cellsOf j.bib c.log

theorem padCard_succ (card : List (List Trial)) (n : Nat) (h : card.length ≤ n) :
    padCard card (n + 1) = padCard card n ++ [[]] := by
  unfold padCard
  have : n + 1 - card.length = (n - card.length) + 1 := by omega
  rw [this, List.replicate_succ', List.append_assoc]

theorem step_BarsLog (c : Comp) (op : Op) (h : BarsLog c) : BarsLog (step c op).1 := by
  unfold BarsLog at *
  cases op with
  | add b =>
    rw [step_add]
    split
    · simp only [addResult]; rw [bars_snoc]; simpa using h
    · exact h
  | bar x =>
    rw [step_bar]
    split
    · simp only [barResult]; rw [bars_snoc]; simp [h]
    · exact h
  | trial b t =>
    rcases step_trial c b t with ⟨j, j', hfd, _, hne, hact, hs⟩ | ⟨h1, _⟩
    · rw [hs]
      show (rank (logTrial c b t j')).heights.length = bars (rank (logTrial c b t j')).log
      rw [(rank_frame _).1.1, (rank_frame _).1.2.1]
      simp only [logTrial_log, logTrial_heights]
      rw [bars_snoc]; simpa using h
    · rw [h1]; exact h

theorem step_CardCells (c : Comp) (op : Op) (hw : WF c) (hf : AllFlags c) (hl : LogBibs c) (hb : BarsLog c)
    (h : CardCells c) : CardCells (step c op).1 := by
  cases op with
  | add b =>
    rw [step_add]
    split
    · next hc =>
      intro j hj
      simp only [addResult, List.mem_append, List.mem_singleton] at hj ⊢
      rw [cellsOf_snoc]
      simp only [cellStep]
      rcases hj with hj | rfl
      · exact h j hj
      · -- a new athlete: an empty card, and no trial of this bib in the log so far
        rw [cellsOf_absent b c.log (fun t ht => find_none_not_mem c b hc.2 (hl b t ht)), ← hb]
        simp [padCard]
    · exact h
  | bar x =>
    rw [step_bar]
    split
    · intro j' hj'
      simp only [barResult] at hj' ⊢
      obtain ⟨j, hj, rfl⟩ := List.mem_map.1 hj'
      rw [cellsOf_snoc]
      simp only [cellStep, List.length_append, List.length_cons, List.length_nil]
      have hlen := (hf j hj).len
      split
      · simp only
        rw [padCard_succ _ _ hlen]; congr 1; exact h j hj
      · rw [padCard_succ _ _ hlen]; congr 1; exact h j hj
    · exact h
  | trial b t =>
    rcases step_trial c b t with ⟨j, j', hfd, _, hne, hact, hs⟩ | ⟨h1, _⟩
    · rw [hs]
      show CardCells (rank (logTrial c b t j'))
      have hwl : WF (logTrial c b t j') := WF_of_same_bibs c (logTrial c b t j') (by simp [update_bibs]) (List.Perm.refl _) hw
      obtain ⟨hm, hbb⟩ := find_some_mem c b j hfd
      have hbl : CardCells (logTrial c b t j') := by
        intro k' hk'
        simp only [logTrial_jumpers, Comp.update] at hk'
        obtain ⟨k, hk, rfl⟩ := List.mem_map.1 hk'
        simp only [logTrial_log, logTrial_heights]
        rw [cellsOf_snoc]
        simp only [cellStep]
        have hj'b : j'.bib = b := by rw [act_core j j' _ _ t hact, actCore_bib, hbb]
        split
        · -- the athlete who jumped
          rw [hj'b]
          simp only [beq_self_eq_true, if_true]
          have hp : 0 < c.heights.length := List.length_pos_iff.2 hne
          have hplen : (padCard j.card c.heights.length).length = c.heights.length := by
            rw [padCard_length]; have := (hf j hm).len; omega
          have hcard : j'.card = appendLast (padCard j.card c.heights.length) t := by
            rw [act_core j j' _ _ t hact]
            cases t <;> simp only [Jumper.actCore] <;> (try split) <;> rfl
          have hclen : j'.card.length = c.heights.length := by rw [hcard, appendLast_length, hplen]
          have hpad : padCard j'.card c.heights.length = j'.card := by
            unfold padCard; rw [hclen]; simp
          rw [hpad, hcard, ← hbb, h j hm]
        · next hne' =>
          have hkb : k.bib ≠ b := by rw [← hj'b]; simpa using hne'
          have : (b == k.bib) = false := by simpa using fun e => hkb e.symm
          simp only [this, Bool.false_eq_true, if_false]
          exact h k hk
      intro k' hk'
      obtain ⟨k, hk, hr⟩ := rank_relG cardBib_stable _ hwl k' hk'
      rw [(rank_frame _).1.1, (rank_frame _).1.2.1, hr.1, hr.2]
      exact hbl k hk
    · rw [h1]; exact h

end AthlibVerif.HJ
