import AthlibVerif.Lemmas.Times
/-! # helper lemmas for C06: `parse_hms` on separated fields.  Core Lean only. -/
namespace AthlibVerif.Times
open AthlibVerif.Digits

/-! ### fields -/

theorem splitSign_digit (c : Char) (r : List Char) (h : isDig c = true) : splitSign (c :: r) = (false, c :: r) := by
  unfold splitSign
  split
  · rename_i e; injection e with e1 _; subst e1; exact absurd h (by decide)
  · rename_i e; injection e with e1 _; subst e1; exact absurd h (by decide)
  · rfl

/-- the text is the sign (if any) followed by the body -/
theorem splitSign_eq (s : List Char) :
    (s = '-' :: (splitSign s).2 ∧ (splitSign s).1 = true) ∨ (s = '+' :: (splitSign s).2 ∧ (splitSign s).1 = false) ∨
      (s = (splitSign s).2 ∧ (splitSign s).1 = false) := by
  unfold splitSign
  split
  · exact Or.inl ⟨rfl, rfl⟩
  · exact Or.inr (Or.inl ⟨rfl, rfl⟩)
  · exact Or.inr (Or.inr ⟨rfl, rfl⟩)

theorem splitDot_eq (l : List Char) : ∀ a b, splitDot l = (a, b) →
    (b = none ∧ l = a) ∨ (∃ f, b = some f ∧ l = a ++ '.' :: f) := by
  induction l with
  | nil => intro a b h; simp [splitDot] at h; exact Or.inl ⟨h.2.symm, h.1.symm⟩
  | cons c cs ih =>
    intro a b h
    unfold splitDot at h
    split at h
    · rename_i hc; subst hc
      simp only [Prod.mk.injEq] at h
      exact Or.inr ⟨cs, h.2.symm, by rw [← h.1]; rfl⟩
    · split at h
      rename_i a' b' e
      simp only [Prod.mk.injEq] at h
      obtain ⟨rfl, rfl⟩ := h
      rcases ih a' b' e with ⟨h1, h2⟩ | ⟨f, h1, h2⟩
      · exact Or.inl ⟨h1, by rw [h2]⟩
      · exact Or.inr ⟨f, h1, by rw [h2]; rfl⟩

/-- a non-empty run of ASCII digits is read as that integer -/
theorem parseField_digits (d : List Char) (hne : d ≠ []) (hd : allDig d = true) :
    parseField d = some ⟨true, (val d : Int), 0⟩ := by
  match d, hne with
  | c :: r, _ =>
    have hc : isDig c = true := by rw [allDig_cons, Bool.and_eq_true] at hd; exact hd.1
    unfold parseField
    rw [splitSign_digit c r hc, splitDot_nodot _ (dot_not_mem _ hd)]
    simp [hd]

/-- digits, a dot, digits: read as the decimal `int(d ++ fd) / 10^len(fd)` -/
theorem parseField_decimal (d fd : List Char) (hne : d ≠ []) (hd : allDig d = true) (hfd : allDig fd = true) :
    parseField (d ++ '.' :: fd) = some ⟨false, (val (d ++ fd) : Int), fd.length⟩ := by
  match d, hne with
  | c :: r, _ =>
    have hc : isDig c = true := by rw [allDig_cons, Bool.and_eq_true] at hd; exact hd.1
    unfold parseField
    rw [List.cons_append, splitSign_digit c (r ++ '.' :: fd) hc, ← List.cons_append,
      splitDot_dot _ _ (dot_not_mem _ hd)]
    simp [hd, hfd]

/-- an accepted field consists of digits, dots and signs only -/
theorem parseField_chars (s : List Char) (x : Num) (h : parseField s = some x) :
    ∀ c ∈ s, isDig c = true ∨ c = '.' ∨ c = '-' ∨ c = '+' := by
  have hbody : ∀ c ∈ (splitSign s).2, isDig c = true ∨ c = '.' := by
    unfold parseField at h
    generalize hsd : splitDot (splitSign s).2 = sd at h
    obtain ⟨i, b⟩ := sd
    cases b with
    | none =>
      by_cases hi : i ≠ [] ∧ allDig i = true
      · rcases splitDot_eq _ _ _ hsd with ⟨_, h2⟩ | ⟨f, h1, _⟩
        · intro c hc; rw [h2] at hc
          have := hi.2; simp only [allDig, List.all_eq_true] at this
          exact Or.inl (this c hc)
        · cases h1
      · simp [hi] at h
    | some f =>
      by_cases hi : (i ≠ [] ∨ f ≠ []) ∧ allDig i = true ∧ allDig f = true
      · rcases splitDot_eq _ _ _ hsd with ⟨h1, _⟩ | ⟨f', h1, h2⟩
        · cases h1
        · injection h1 with h1; subst h1
          intro c hc; rw [h2] at hc
          have d1 := hi.2.1; have d2 := hi.2.2
          simp only [allDig, List.all_eq_true] at d1 d2
          rcases List.mem_append.1 hc with hc | hc
          · exact Or.inl (d1 c hc)
          · rcases List.mem_cons.1 hc with hc | hc
            · exact Or.inr hc
            · exact Or.inl (d2 c hc)
      · simp [hi] at h
  intro c hc
  rcases splitSign_eq s with ⟨e, _⟩ | ⟨e, _⟩ | ⟨e, _⟩
  · rw [e] at hc
    rcases List.mem_cons.1 hc with hc | hc
    · exact Or.inr (Or.inr (Or.inl hc))
    · rcases hbody c hc with h | h
      exact Or.inl h; exact Or.inr (Or.inl h)
  · rw [e] at hc
    rcases List.mem_cons.1 hc with hc | hc
    · exact Or.inr (Or.inr (Or.inr hc))
    · rcases hbody c hc with h | h
      exact Or.inl h; exact Or.inr (Or.inl h)
  · rw [e] at hc
    rcases hbody c hc with h | h
    exact Or.inl h; exact Or.inr (Or.inl h)

theorem parseField_no_sep (s : List Char) (x : Num) (h : parseField s = some x) : ':' ∉ s ∧ ';' ∉ s := by
  have := parseField_chars s x h
  constructor
  · intro hm; rcases this _ hm with h | h | h | h <;> revert h <;> decide
  · intro hm; rcases this _ hm with h | h | h | h <;> revert h <;> decide

/-! ### splitting at a separator -/

/-- `sep.join(fields)` -/
def joinWith (sep : Char) : List (List Char) → List Char
  | [] => []
  | [f] => f
  | f :: g :: rest => f ++ sep :: joinWith sep (g :: rest)

theorem splitOn_nosep (sep : Char) (l : List Char) (h : sep ∉ l) : splitOn sep l = [l] := by
  induction l with
  | nil => rfl
  | cons c cs ih =>
    have hc : c ≠ sep := fun e => h (by simp [e])
    have hcs : sep ∉ cs := fun e => h (by simp [e])
    simp only [splitOn, hc, if_false, ih hcs]

theorem splitOn_append (sep : Char) (a b : List Char) (h : sep ∉ a) :
    splitOn sep (a ++ sep :: b) = a :: splitOn sep b := by
  induction a with
  | nil => simp [splitOn]
  | cons c cs ih =>
    have hc : c ≠ sep := fun e => h (by simp [e])
    have hcs : sep ∉ cs := fun e => h (by simp [e])
    simp only [List.cons_append, splitOn, hc, if_false, ih hcs]

theorem splitOn_joinWith (sep : Char) (fs : List (List Char)) (hne : fs ≠ []) (h : ∀ f ∈ fs, sep ∉ f) :
    splitOn sep (joinWith sep fs) = fs := by
  induction fs with
  | nil => exact absurd rfl hne
  | cons f rest ih =>
    match rest with
    | [] => exact splitOn_nosep sep f (h f (by simp))
    | g :: rest' =>
      rw [joinWith, splitOn_append sep f _ (h f (by simp)), ih (by simp) (fun x hx => h x (by simp [hx]))]

theorem mem_joinWith (sep c : Char) (fs : List (List Char)) (h : c ∈ joinWith sep fs) :
    c = sep ∨ ∃ f ∈ fs, c ∈ f := by
  induction fs with
  | nil => simp [joinWith] at h
  | cons f rest ih =>
    match rest with
    | [] => exact Or.inr ⟨f, by simp, h⟩
    | g :: rest' =>
      rw [joinWith] at h
      rcases List.mem_append.1 h with h | h
      · exact Or.inr ⟨f, by simp, h⟩
      · rcases List.mem_cons.1 h with h | h
        · exact Or.inl h
        · rcases ih h with h | ⟨x, hx, hc⟩
          · exact Or.inl h
          · exact Or.inr ⟨x, by simp [hx], hc⟩

theorem sep_mem_joinWith (sep : Char) (f g : List Char) (rest : List (List Char)) :
    sep ∈ joinWith sep (f :: g :: rest) := by
  rw [joinWith]; simp

/-! ### the accumulation `sec = sec * 60 + field` -/

theorem zero_add60 (x : Num) : Num.zero.add60 x = x := by
  cases x with
  | mk b n e => simp [Num.add60, Num.zero]

theorem parseFields_cons (acc x : Num) (f : List Char) (fs : List (List Char)) (h : parseField f = some x) :
    parseFields acc (f :: fs) = parseFields (acc.add60 x) fs := by
  simp only [parseFields, h]

/-- the loop fails exactly when some field is not in the grammar -/
theorem parseFields_eq_none_iff (acc : Num) (fs : List (List Char)) :
    parseFields acc fs = none ↔ ∃ f ∈ fs, parseField f = none := by
  induction fs generalizing acc with
  | nil => simp [parseFields]
  | cons f rest ih =>
    cases hx : parseField f with
    | none => simp [parseFields, hx]
    | some x => rw [parseFields_cons acc x f rest hx, ih]; simp [hx]

/-- `parse_hms` of fields (none containing a separator) joined by `:` or by `;` is the loop over the fields -/
theorem parseHms_joinWith (sep : Char) (hsep : sep = ':' ∨ sep = ';') (fs : List (List Char))
    (hne : fs ≠ []) (hno : ∀ f ∈ fs, ':' ∉ f ∧ ';' ∉ f) :
    parseHms (joinWith sep fs) = toExcept (parseFields .zero fs) := by
  match fs, hne with
  | [f], _ =>
    have := hno f (by simp)
    unfold parseHms
    simp only [joinWith, List.contains_iff_mem, this.1, this.2, if_false]
    cases hx : parseField f with
    | none => simp [parseFields, hx]
    | some x => simp [parseFields, hx, zero_add60]
  | f :: g :: rest, _ =>
    unfold parseHms
    rcases hsep with rfl | rfl
    · have hin : ':' ∈ joinWith ':' (f :: g :: rest) := sep_mem_joinWith _ _ _ _
      rw [splitOn_joinWith ':' _ (by simp) (fun x hx => (hno x hx).1)]
      simp only [List.contains_iff_mem, hin, if_true]
    · have hin : ';' ∈ joinWith ';' (f :: g :: rest) := sep_mem_joinWith _ _ _ _
      have hnot : ':' ∉ joinWith ';' (f :: g :: rest) := by
        intro hm
        rcases mem_joinWith _ _ _ hm with e | ⟨x, hx, hc⟩
        · exact absurd e (by decide)
        · exact (hno x hx).1 hc
      rw [splitOn_joinWith ';' _ (by simp) (fun x hx => (hno x hx).2)]
      simp only [List.contains_iff_mem, hin, hnot, if_true, if_false]

/-- `acc * 60 + x` is exact: on any common scale `10^E` the numerators add up -/
theorem add60_exact (acc x : Num) (E : Nat) (h1 : acc.exp ≤ E) (h2 : x.exp ≤ E) :
    (acc.add60 x).exp = max acc.exp x.exp ∧
    (acc.add60 x).num * (10 : Int) ^ (E - (acc.add60 x).exp) =
      acc.num * 60 * (10 : Int) ^ (E - acc.exp) + x.num * (10 : Int) ^ (E - x.exp) := by
  refine ⟨rfl, ?_⟩
  simp only [Num.add60]
  rw [Int.add_mul, Int.mul_assoc (acc.num * 60), ← Int.pow_add, Int.mul_assoc x.num, ← Int.pow_add]
  congr 3 <;> omega

end AthlibVerif.Times
