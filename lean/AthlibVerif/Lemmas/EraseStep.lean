import AthlibVerif.Lemmas.EraseRank
/-!
# Dropping the passes, call by call

`Sim c c'`: `c'` is what `c` would be had nobody ever passed.  An accepted call that is not a pass is accepted on
both sides and keeps `Sim`; an accepted pass keeps `Sim` with the other side standing still.
-/
namespace AthlibVerif.HJ
open AthlibVerif.Ranking AthlibVerif.Props.C02

/-! ## the invariants the full history needs -/

def AllElim (c : Comp) : Prop := ∀ j ∈ c.jumpers, ElimMark j

theorem padCard_split (card : List (List Trial)) (n : Nat) (hlen : card.length ≤ n) (hn : 0 < n) :
    ∃ init last, padCard card n = init ++ [last] := by
  have hpl : (padCard card n).length = n := by rw [padCard_length]; omega
  rcases List.eq_nil_or_concat (padCard card n) with h' | ⟨init, last, h'⟩
  · rw [h'] at hpl; simp at hpl; omega
  · exact ⟨init, last, by simpa using h'⟩

theorem ElimMark_act (j j' : Jumper) (n : Nat) (hgt : Int) (t : Trial) (hn : 0 < n) (hlen : j.card.length ≤ n)
    (hact : j.act n hgt t = some j') : ElimMark j' := by
  obtain ⟨he, _, _⟩ := act_some j j' n hgt t hact
  have hk := act_core j j' n hgt t hact
  obtain ⟨init, last, hsplit⟩ := padCard_split j.card n hlen hn
  subst hk
  intro hel
  cases t with
  | o =>
    simp only [Jumper.actCore] at hel
    split at hel <;> simp [he] at hel
  | p => simp [Jumper.actCore, he] at hel
  | x =>
    by_cases hc : j.consec + 1 ≥ j.roundLim
    · refine ⟨init, last, .x, ?_, Or.inl rfl⟩
      simp only [Jumper.actCore, hc, if_true]
      rw [hsplit, appendLast_concat]
    · simp [Jumper.actCore, hc, he] at hel
  | r =>
    refine ⟨init, last, .r, ?_, Or.inr rfl⟩
    simp only [Jumper.actCore]
    rw [hsplit, appendLast_concat]

theorem ElimMark_of_rel (j j' : Jumper) (hr : RankRel j j') (h : ElimMark j) : ElimMark j' := by
  obtain ⟨r1, _, _, r4⟩ := hr
  intro hel
  rcases r4 with e | e
  · rw [e] at hel; rw [r1]; exact h hel
  · rw [e] at hel; cases hel

theorem step_AllElim (c : Comp) (op : Op) (hw : WF c) (hf : AllFlags c) (h : AllElim c) : AllElim (step c op).1 := by
  cases op with
  | add b =>
    rw [step_add]
    split
    · intro j hj
      simp only [addResult, List.mem_append, List.mem_singleton] at hj
      rcases hj with hj | rfl
      · exact h j hj
      · intro hel; cases hel
    · exact h
  | bar x =>
    rw [step_bar]
    split
    · intro j' hj'
      simp only [barResult] at hj'
      obtain ⟨j, hj, rfl⟩ := List.mem_map.1 hj'
      split
      · exact h j hj
      · exact h j hj
    · exact h
  | trial b t =>
    rcases step_trial c b t with ⟨j, j', hfd, _, hne, hact, hs⟩ | ⟨h1, _⟩
    · rw [hs]
      show AllElim (rank (logTrial c b t j'))
      have hwl : WF (logTrial c b t j') := WF_of_same_bibs c (logTrial c b t j') (by simp [update_bibs]) (List.Perm.refl _) hw
      have hmj := (find_some_mem c b j hfd).1
      have hbl : AllElim (logTrial c b t j') := by
        intro k' hk'
        simp only [logTrial_jumpers, Comp.update] at hk'
        obtain ⟨k, hk, rfl⟩ := List.mem_map.1 hk'
        split
        · exact ElimMark_act j j' _ _ t (List.length_pos_iff.2 hne) (hf j hmj).len hact
        · exact h k hk
      intro k' hk'
      obtain ⟨k, hk, hr⟩ := rank_rel _ hwl k' hk'
      exact ElimMark_of_rel k k' hr (hbl k hk)
    · rw [h1]; exact h

/-- no trial has been accepted yet: nobody has a clearance, and the places are still those of the registration -/
def Unranked (c : Comp) : Prop := (∀ j ∈ c.jumpers, j.bestIdx = none) ∧ (c.phase = .scheduled ∨ c.phase = .started)

/-- places follow the keys as soon as a trial has been accepted -/
def RU (c : Comp) : Prop := Unranked c ∨ (Ranked c ∧ c.phase ≠ .scheduled)

theorem step_RU (c : Comp) (op : Op) (hw : WF c) (ih : RU c) : RU (step c op).1 := by
  cases op with
  | add b =>
    rw [step_add]
    split
    · next hc =>
      rcases ih with ih | ih
      · left
        refine ⟨?_, Or.inl hc.1⟩
        intro j hj
        simp only [addResult, List.mem_append, List.mem_singleton] at hj
        rcases hj with hj | rfl
        · exact ih.1 j hj
        · rfl
      · exact absurd hc.1 ih.2
    · exact ih
  | bar x =>
    rw [step_bar]
    split
    · rcases ih with ih | ih
      · left
        refine ⟨?_, ?_⟩
        · intro j' hj'
          simp only [barResult] at hj'
          obtain ⟨j, hj, rfl⟩ := List.mem_map.1 hj'
          split <;> exact ih.1 j hj
        · simp only [barResult]
          rcases ih.2 with e | e
          · right; simp [e]
          · right; simp [e]
      · right
        refine ⟨barResult_ranked c x ih.1, ?_⟩
        simp only [barResult]
        split
        · intro e; cases e
        · exact ih.2
    · exact ih
  | trial b t =>
    rcases step_trial c b t with ⟨j, j', _, hta, _, _, hs⟩ | ⟨h1, _⟩
    · rw [hs]
      right
      show Ranked (rank (logTrial c b t j')) ∧ (rank (logTrial c b t j')).phase ≠ .scheduled
      have hwl : WF (logTrial c b t j') :=
        WF_of_same_bibs c (logTrial c b t j') (by simp [update_bibs]) (List.Perm.refl _) hw
      refine ⟨(rank_ok _ hwl).2, ?_⟩
      have hps := (rank_frame (logTrial c b t j')).2
      simp only [logTrial_phase] at hps
      have hcs : c.phase ≠ .scheduled := by
        intro e; unfold trialAllowed at hta; simp [e] at hta
      rcases hps with e | e | e | e | ⟨e, _⟩ <;> rw [e] <;> first | exact hcs | (intro h; cases h)
    · rw [h1]; exact ih

/-- what the full history is known to satisfy -/
structure EInv (c : Comp) : Prop where
  good : Good c
  elim : AllElim c
  best : AllBest c
  ru : RU c

theorem EInv.step {c : Comp} (h : EInv c) (op : Op) : EInv (step c op).1 :=
  ⟨h.good.step op, step_AllElim c op h.good.wf h.good.flags h.elim, step_AllBest c op h.good.wf h.best,
   step_RU c op h.good.wf h.ru⟩

theorem einv_init : EInv {} :=
  ⟨good_init, (fun j hj => by cases hj), (fun j hj => by cases hj), Or.inl ⟨(fun j hj => by cases hj), Or.inl rfl⟩⟩

/-! ## the simulation -/

/-- `c'` is `c` with the passes taken out of its history -/
def Sim (c c' : Comp) : Prop := ∃ ps, Paired ps c c' ∧ (Unranked c ∨ PlacesEq ps)

theorem noP_snoc_p (cell : List Trial) : noP (cell ++ [Trial.p]) = noP cell := by
  unfold noP; rw [List.filter_append]; simp

/-- a pass on the full side only: the pair stays related -/
theorem JSim.pass {j j2 : Jumper} (h : JSim j j2) (n : Nat) (hgt : Int) (hlen : j.card.length ≤ n) (hn : 0 < n) :
    JSim (j.actCore n hgt .p) j2 := by
  have hpl : (padCard j.card n).length = n := by rw [padCard_length]; omega
  have hpne : padCard j.card n ≠ [] := by intro e; rw [e] at hpl; simp at hpl; omega
  obtain ⟨hl1, hg1⟩ := appendLast_spec (padCard j.card n) .p hpne
  refine ⟨h.bib, h.best, h.bestIdx, h.elim, h.lim, h.consec, fun _ => rfl, ?_⟩
  show CardSim (appendLast (padCard j.card n) .p) j2.card
  refine ⟨?_, h.card.clean, ?_⟩
  · rw [hl1, hpl]; exact Nat.le_trans h.card.len hlen
  · intro i
    rw [hg1 i, padCard_getD, h.card.cells i]
    split
    · rw [noP_snoc_p]
    · rfl

theorem Paired.length_eq {ps : List (Jumper × Jumper)} {c c' : Comp} (h : Paired ps c c') :
    c'.jumpers.length = c.jumpers.length := by rw [h.left, h.right]; simp

theorem Paired.bibs {ps : List (Jumper × Jumper)} {c c' : Comp} (h : Paired ps c c') :
    c'.jumpers.map (·.bib) = c.jumpers.map (·.bib) := by
  rw [h.left, h.right, List.map_map, List.map_map]
  apply List.map_congr_left
  intro p hp
  exact (h.sim p hp).bib

theorem Paired.find_none {ps : List (Jumper × Jumper)} {c c' : Comp} (h : Paired ps c c') (b : Nat) (hf : c.find b = none) :
    c'.find b = none := by
  unfold Comp.find at hf ⊢
  rw [List.find?_eq_none] at hf ⊢
  intro x hx
  have : x.bib ∈ c'.jumpers.map (·.bib) := List.mem_map.2 ⟨x, hx, rfl⟩
  rw [h.bibs] at this
  obtain ⟨y, hy, e⟩ := List.mem_map.1 this
  have := hf y hy
  simp only [e] at this
  exact this

theorem Paired.find {ps : List (Jumper × Jumper)} {c c' : Comp} (h : Paired ps c c') (hw' : WF c') (b : Nat) (j : Jumper)
    (hf : c.find b = some j) : ∃ p ∈ ps, p.1 = j ∧ c'.find b = some p.2 := by
  obtain ⟨hm, hb⟩ := find_some_mem c b j hf
  obtain ⟨p, hp, e⟩ := h.of_left j hm
  refine ⟨p, hp, e, ?_⟩
  have := find_of_mem c' hw'.1 p.2 (h.mem_right p hp)
  rw [(h.sim p hp).bib, e, hb] at this
  exact this

theorem sim_add (c c' : Comp) (hs : Sim c c') (b : Nat) (hok : (step c (.add b)).2 = .ok) :
    (step c' (.add b)).2 = .ok ∧ Sim (step c (.add b)).1 (step c' (.add b)).1 := by
  obtain ⟨ps, h, hpl⟩ := hs
  rw [step_add] at hok ⊢
  rw [step_add]
  by_cases hc : c.phase = .scheduled ∧ c.find b = none
  · have hc' : c'.phase = .scheduled ∧ c'.find b = none := ⟨by rw [h.phase]; exact hc.1, h.find_none b hc.2⟩
    rw [if_pos hc, if_pos hc']
    refine ⟨rfl, ps ++ [(({ bib := b, place := c.jumpers.length + 1 } : Jumper), ({ bib := b, place := c'.jumpers.length + 1 } : Jumper))], ?_, ?_⟩
    · refine ⟨by simp [addResult, h.left], by simp [addResult, h.right], ?_, h.phase, h.heights, ?_⟩
      · intro p hp
        rcases List.mem_append.1 hp with hp | hp
        · exact h.sim p hp
        · simp only [List.mem_singleton] at hp
          subst hp
          exact ⟨rfl, rfl, rfl, rfl, rfl, rfl, fun e => e, ⟨Nat.le_refl _, (fun cell hcell => by cases hcell), fun i => by simp [noP]⟩⟩
      · exact List.Perm.append_right _ h.ranked
    · rcases hpl with hu | hpl
      · left
        refine ⟨?_, Or.inl hc.1⟩
        intro j hj
        simp only [addResult, List.mem_append, List.mem_singleton] at hj
        rcases hj with hj | rfl
        · exact hu.1 j hj
        · rfl
      · right
        intro p hp
        rcases List.mem_append.1 hp with hp | hp
        · exact hpl p hp
        · simp only [List.mem_singleton] at hp
          subst hp
          simp only [h.length_eq]
  · rw [if_neg hc] at hok; cases hok

theorem sim_bar (c c' : Comp) (hs : Sim c c') (x : Int) (hok : (step c (.bar x)).2 = .ok) :
    (step c' (.bar x)).2 = .ok ∧ Sim (step c (.bar x)).1 (step c' (.bar x)).1 := by
  obtain ⟨ps, h, hpl⟩ := hs
  rw [step_bar] at hok ⊢
  rw [step_bar]
  by_cases hc : barAllowed c x
  · have hc' : barAllowed c' x := by unfold barAllowed at hc ⊢; rw [h.phase, h.heights]; exact hc
    rw [if_pos hc, if_pos hc']
    refine ⟨rfl, _, h.map (fun (j : Jumper) => if !j.eliminated then { j with dismissed := false } else j)
      (fun (j : Jumper) => if !j.eliminated then { j with dismissed := false } else j) ?_ (barResult c x) (barResult c' x) rfl rfl
      (by simp only [barResult, h.phase]) (by simp only [barResult, h.heights]) h.ranked, ?_⟩
    · intro p hp
      have hsim := h.sim p hp
      by_cases h1 : p.1.eliminated = true
      · have h2 : p.2.eliminated = true := by rw [hsim.elim]; exact h1
        simp only [h1, h2, Bool.not_true, Bool.false_eq_true, if_false]; exact hsim
      · have h1' : p.1.eliminated = false := by simpa using h1
        have h2 : p.2.eliminated = false := by rw [hsim.elim]; exact h1'
        simp only [h1', h2, Bool.not_false, if_true]
        exact ⟨hsim.bib, hsim.best, hsim.bestIdx, rfl, hsim.lim, hsim.consec, (fun e => by cases e), hsim.card⟩
    · rcases hpl with hu | hpl
      · left
        refine ⟨?_, ?_⟩
        · intro j' hj'
          simp only [barResult] at hj'
          obtain ⟨j, hj, rfl⟩ := List.mem_map.1 hj'
          split <;> exact hu.1 j hj
        · simp only [barResult]
          rcases hu.2 with e | e
          · right; simp [e]
          · right; simp [e]
      · right
        intro q hq
        obtain ⟨p, hp, rfl⟩ := List.mem_map.1 hq
        simp only
        split <;> split <;> exact hpl p hp
  · rw [if_neg hc] at hok; cases hok

theorem Paired.logTrial {ps : List (Jumper × Jumper)} {c c' : Comp} (h : Paired ps (c.update k) (c'.update k')) (b : Nat) (t t' : Trial) :
    Paired ps (logTrial c b t k) (logTrial c' b t' k') :=
  ⟨h.left, h.right, h.sim, h.phase, h.heights, h.ranked⟩

/-- an accepted call that is not a pass is accepted without the passes too -/
theorem sim_trial (c c' : Comp) (hi : EInv c) (hw' : WF c') (hs : Sim c c') (b : Nat) (t : Trial) (ht : t ≠ .p)
    (hok : (step c (.trial b t)).2 = .ok) :
    (step c' (.trial b t)).2 = .ok ∧ Sim (step c (.trial b t)).1 (step c' (.trial b t)).1 := by
  obtain ⟨ps, h, hpl⟩ := hs
  obtain ⟨j, j', hfd, hta, hne, hact, hst⟩ := accepted_trial c b t hok
  obtain ⟨p0, hp0, hp0e, hfd'⟩ := h.find hw' b j hfd
  have hw := hi.good.wf
  have hmj := (find_some_mem c b j hfd).1
  have hfl := hi.good.flags j hmj
  obtain ⟨he, hd, _⟩ := act_some j j' _ _ t hact
  have hn : 0 < c.heights.length := List.length_pos_iff.2 hne
  have hsim0 : JSim j p0.2 := hp0e ▸ h.sim p0 hp0
  obtain ⟨k', hact', hjk⟩ := act_sim c.heights.length (c.heights.getLast?.getD 0) j p0.2 j' t ht hsim0 hfl.len hn
    (hfl.openCell he hd) hact
  have hta' : trialAllowed c' p0.2 = true := by
    unfold trialAllowed at hta ⊢
    rw [h.phase]
    rcases hpl with hu | hpl
    · rcases hu.2 with e | e
      · simp [e] at hta
      · simp [e]
    · rw [hpl p0 hp0, hp0e]; exact hta
  have hst' := trial_accepts c' b t p0.2 k' hfd' hta' (by rw [h.heights]; exact hne) (by rw [h.heights]; exact hact')
  rw [hst, hst']
  refine ⟨rfl, ?_⟩
  have hP := (h.update j' k' hjk).logTrial b t t
  have hwl : WF (logTrial c b t j') := WF_of_same_bibs c (logTrial c b t j') (by simp [update_bibs]) (List.Perm.refl _) hw
  have hwl' : WF (logTrial c' b t k') := WF_of_same_bibs c' (logTrial c' b t k') (by simp [update_bibs]) (List.Perm.refl _) hw'
  have hlen : ∀ k ∈ (logTrial c b t j').jumpers, k.card.length ≤ (logTrial c b t j').heights.length := by
    intro k1 hk1
    simp only [logTrial_jumpers, Comp.update, logTrial_heights] at hk1 ⊢
    obtain ⟨k, hk, rfl⟩ := List.mem_map.1 hk1
    split
    · exact (FlagInv_act c.heights j j' t hfl hne hact).len
    · exact (hi.good.flags k hk).len
  have hem : ∀ k ∈ (logTrial c b t j').jumpers, ElimMark k := by
    intro k1 hk1
    simp only [logTrial_jumpers, Comp.update] at hk1
    obtain ⟨k, hk, rfl⟩ := List.mem_map.1 hk1
    split
    · exact ElimMark_act j j' _ _ t hn hfl.len hact
    · exact hi.elim k hk
  obtain ⟨ps', hP', hpl'⟩ := rank_paired _ _ _ hP hwl hwl' hlen hem
  exact ⟨ps', hP', Or.inr hpl'⟩

theorem JSim.setPlaceLeft {j j' : Jumper} (h : JSim j j') (p : Nat) : JSim { j with place := p } j' :=
  ⟨h.bib, h.best, h.bestIdx, h.elim, h.lim, h.consec, h.dis, h.card⟩

/-- an accepted pass: the side without passes stands still -/
theorem sim_pass (c c' : Comp) (hi : EInv c) (hs : Sim c c') (b : Nat) (hok : (step c (.trial b .p)).2 = .ok) :
    Sim (step c (.trial b .p)).1 c' := by
  obtain ⟨ps, h, hpl⟩ := hs
  obtain ⟨j, j', hfd, hta, hne, hact, hst⟩ := accepted_trial c b .p hok
  have hw := hi.good.wf
  have hf := hi.good.flags
  obtain ⟨hmj, hbj⟩ := find_some_mem c b j hfd
  have hn : 0 < c.heights.length := List.length_pos_iff.2 hne
  have hj' : j' = j.actCore c.heights.length (c.heights.getLast?.getD 0) .p := act_core j j' _ _ .p hact
  have hbj' : j'.bib = b := by rw [hj', actCore_bib, hbj]
  have hkey : j'.key = j.key := by rw [hj']; exact key_pass c.heights j (hi.best j hmj) hne
  have hbi : j'.bestIdx = j.bestIdx := by rw [hj']; rfl
  have hwL : WF (logTrial c b .p j') :=
    WF_of_same_bibs c (logTrial c b .p j') (by simp [update_bibs]) (List.Perm.refl _) hw
  rw [hst]
  simp only
  rw [pass_rank_eq c hw hf b j j' hfd hne hact]
  -- who is who after the pass
  have hwho : ∀ k ∈ c.jumpers, (k.bib == j'.bib) = true → k = j := by
    intro k hk e
    exact bib_inj c.jumpers hw.1 k j hk hmj (by rw [hbj, ← hbj']; simpa using e)
  have hkeys : ∀ k ∈ c.jumpers, (if k.bib == j'.bib then j' else k).key = k.key := by
    intro k hk
    split
    · next e => rw [hwho k hk e]; exact hkey
    · rfl
  have hcount : ∀ key : Key, ((logTrial c b .p j').jumpers.filter (fun k => Key.lt k.key key)).length =
      (c.jumpers.filter (fun k => Key.lt k.key key)).length := by
    intro key
    simp only [logTrial_jumpers, Comp.update]
    rw [List.filter_map, List.length_map]
    congr 1
    apply List.filter_congr
    intro k hk
    simp only [Function.comp_apply, hkeys k hk]
  refine ⟨ps.map (fun p => (({ (if p.1.bib == j'.bib then j' else p.1) with
      place := 1 + ((logTrial c b .p j').jumpers.filter (fun k => Key.lt k.key (if p.1.bib == j'.bib then j' else p.1).key)).length } : Jumper), p.2)), ?_, ?_⟩
  · refine ⟨?_, ?_, ?_, ?_, ?_, ?_⟩
    · rw [rankj_jumpers _ hwL]
      have hd : (logTrial c b .p j').jumpers = ps.map (fun p => if p.1.bib == j'.bib then j' else p.1) := by
        simp only [logTrial_jumpers, Comp.update]; rw [h.left, List.map_map]; rfl
      generalize (logTrial c b .p j').jumpers = D at hd ⊢
      conv => lhs; arg 2; rw [hd]
      rw [List.map_map, List.map_map]
      rfl
    · rw [h.right, List.map_map]; rfl
    · intro q hq
      obtain ⟨p, hp, rfl⟩ := List.mem_map.1 hq
      apply JSim.setPlaceLeft
      show JSim (if p.1.bib == j'.bib then j' else p.1) p.2
      split
      · next e =>
        have : p.1 = j := hwho p.1 (h.mem_left p hp) e
        rw [hj']
        exact (this ▸ h.sim p hp).pass _ _ (hf j hmj).len hn
      · exact h.sim p hp
    · rw [(rankj_frame _).2.2.1]; exact h.phase
    · rw [(rankj_frame _).2.1]; exact h.heights
    · rw [rankj_ranked_list]
      exact h.ranked.trans (sortRanked_perm _ _).symm
  · -- the places
    have hunr : Unranked c → Unranked (rankj (logTrial c b .p j')) := by
      intro hu
      refine ⟨?_, by rw [(rankj_frame _).2.2.1]; exact hu.2⟩
      intro k1 hk1
      rw [rankj_jumpers _ hwL] at hk1
      obtain ⟨k2, hk2, rfl⟩ := List.mem_map.1 hk1
      simp only [logTrial_jumpers, Comp.update] at hk2
      obtain ⟨k, hk, rfl⟩ := List.mem_map.1 hk2
      show (if k.bib == j'.bib then j' else k).bestIdx = none
      split
      · next e => rw [hbi, ← hwho k hk e]; exact hu.1 k hk
      · exact hu.1 k hk
    rcases hpl with hu | hpl
    · exact Or.inl (hunr hu)
    · rcases hi.ru with hu | ⟨hr, _⟩
      · exact Or.inl (hunr hu)
      · right
        intro q hq
        obtain ⟨p, hp, rfl⟩ := List.mem_map.1 hq
        show p.2.place = 1 + ((logTrial c b .p j').jumpers.filter (fun k => Key.lt k.key (if p.1.bib == j'.bib then j' else p.1).key)).length
        rw [hkeys p.1 (h.mem_left p hp), hcount, ← hr p.1 (h.mem_left p hp)]
        exact hpl p hp

/-! ## whole histories -/

/-- every call but the passes -/
def notPass : Op → Bool
  | .trial _ .p => false
  | _ => true

theorem run_cons (c : Comp) (op : Op) (rest : List Op) : run c (op :: rest) = run (step c op).1 rest := rfl

/-- **Dropping the passes**: if every call of a history is accepted, so is every call of the history without its
    passes, and the two end in competitions related by `Sim`. -/
theorem erase_run (ops : List Op) : ∀ (c c' : Comp), EInv c → WF c' → Sim c c' → allOk c ops = true →
    allOk c' (ops.filter notPass) = true ∧ Sim (run c ops) (run c' (ops.filter notPass)) := by
  induction ops with
  | nil => intro c c' _ _ hs _; exact ⟨rfl, hs⟩
  | cons op rest ih =>
    intro c c' hi hw' hs hok
    simp only [allOk, Bool.and_eq_true, beq_iff_eq] at hok
    obtain ⟨hok1, hok2⟩ := hok
    rw [run_cons]
    cases op with
    | add b =>
      obtain ⟨h1, h2⟩ := sim_add c c' hs b hok1
      obtain ⟨h3, h4⟩ := ih _ _ (hi.step _) (step_WF c' _ hw') h2 hok2
      simp only [List.filter_cons, notPass, if_true, allOk, run_cons, h1, h3, beq_self_eq_true, Bool.and_self]
      exact ⟨trivial, h4⟩
    | bar x =>
      obtain ⟨h1, h2⟩ := sim_bar c c' hs x hok1
      obtain ⟨h3, h4⟩ := ih _ _ (hi.step _) (step_WF c' _ hw') h2 hok2
      simp only [List.filter_cons, notPass, if_true, allOk, run_cons, h1, h3, beq_self_eq_true, Bool.and_self]
      exact ⟨trivial, h4⟩
    | trial b t =>
      by_cases ht : t = .p
      · subst ht
        have h2 := sim_pass c c' hi hs b hok1
        obtain ⟨h3, h4⟩ := ih _ _ (hi.step _) hw' h2 hok2
        simp only [List.filter_cons, notPass, Bool.false_eq_true, if_false]
        exact ⟨h3, h4⟩
      · obtain ⟨h1, h2⟩ := sim_trial c c' hi hw' hs b t ht hok1
        obtain ⟨h3, h4⟩ := ih _ _ (hi.step _) (step_WF c' _ hw') h2 hok2
        have hnp : notPass (.trial b t) = true := by cases t <;> first | rfl | exact absurd rfl ht
        simp only [List.filter_cons, hnp, if_true, allOk, run_cons, h1, h3, beq_self_eq_true, Bool.and_self]
        exact ⟨trivial, h4⟩

/-! ## what `Sim` lets one observe -/

theorem dropWhile_replicate_nil (k : Nat) (l : List (List Trial)) :
    (List.replicate k ([] : List Trial) ++ l).dropWhile (·.isEmpty) = l.dropWhile (·.isEmpty) := by
  induction k with
  | zero => simp
  | succ m ih => rw [List.replicate_succ, List.cons_append, List.dropWhile_cons]; simp [ih]

theorem noP_clean (cell : List Trial) (h : Trial.p ∉ cell) : noP cell = cell := by
  unfold noP
  apply List.filter_eq_self.2
  intro t ht
  cases t <;> first | rfl | exact absurd ht h

theorem stripCard_sim (a a' : List (List Trial)) (h : CardSim a a') : stripCard a' = stripCard a := by
  -- the card with passes, marks only, is the other card followed by empty cells
  have hmap' : a'.map noP = a' := by
    have : a'.map noP = a'.map id := List.map_congr_left (fun cell hc => noP_clean cell (h.clean cell hc))
    rw [this, List.map_id]
  have hsplit : a.map noP = a' ++ List.replicate (a.length - a'.length) [] := by
    apply List.ext_getElem?
    intro i
    have hc := h.cells i
    rw [List.getD_eq_getElem?_getD, List.getD_eq_getElem?_getD] at hc
    rw [List.getElem?_map, List.getElem?_append]
    by_cases hi : i < a'.length
    · have hi2 : i < a.length := Nat.lt_of_lt_of_le hi h.len
      simp only [hi, if_true]
      rw [List.getElem?_eq_getElem hi, List.getElem?_eq_getElem hi2] at hc ⊢
      simp only [Option.getD_some, Option.map_some] at hc ⊢
      rw [hc]
    · simp only [hi, if_false]
      rw [List.getElem?_eq_none (by omega)] at hc
      by_cases hi2 : i < a.length
      · rw [List.getElem?_eq_getElem hi2] at hc ⊢
        simp only [Option.getD_none, Option.getD_some, Option.map_some] at hc ⊢
        rw [← hc, List.getElem?_replicate]
        simp; omega
      · rw [List.getElem?_eq_none (by omega), List.getElem?_eq_none (by simp; omega)]
        rfl
  have h1 : stripCard a = ((a.map noP).reverse.dropWhile (·.isEmpty)).reverse := rfl
  have h2 : stripCard a' = ((a'.map noP).reverse.dropWhile (·.isEmpty)).reverse := rfl
  rw [h1, h2, hsplit, hmap', List.reverse_append, List.reverse_replicate, dropWhile_replicate_nil]

/-- pass marks aside, the two competitions show the same: state, heights, bib, shown place, best and card of everybody -/
theorem sim_obsP (c c' : Comp) (hs : Sim c c') : obsP c' = obsP c := by
  obtain ⟨ps, h, hpl⟩ := hs
  unfold obsP
  rw [h.phase, h.heights, h.left, h.right, List.map_map, List.map_map]
  simp only [Prod.mk.injEq, true_and]
  apply List.map_congr_left
  intro p hp
  have hsim := h.sim p hp
  simp only [Function.comp_apply]
  refine Prod.ext hsim.bib (Prod.ext ?_ (Prod.ext hsim.best (stripCard_sim _ _ hsim.card)))
  simp only
  rw [hsim.bestIdx]
  rcases hpl with hu | hpl
  · rw [hu.1 p.1 (h.mem_left p hp)]; rfl
  · rw [hpl p hp]

theorem sim_init : Sim {} {} :=
  ⟨[], ⟨rfl, rfl, (fun p hp => by cases hp), rfl, rfl, List.Perm.refl _⟩, Or.inr (fun p hp => by cases hp)⟩

end AthlibVerif.HJ
