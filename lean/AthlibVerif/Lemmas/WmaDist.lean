import AthlibVerif.Lemmas.Wma
/-!
Helper lemmas for C15: the speed-interpolated open best as a weighted average / Möbius map, and what
the linear scan `scanIdx` / `rowByDistance` returns.
-/
namespace AthlibVerif.Wma

/-! ## the interpolated best over `Rat` -/

/-- weight of the bracket: `p = (d − k0)/(k1 − k0)` lies in `[0,1]` and reproduces `d` -/
theorem pfac_spec {d k0 k1 : Rat} (h01 : k0 < k1) (hd0 : k0 ≤ d) (hd1 : d ≤ k1) :
    0 ≤ (d - k0) / (k1 - k0) ∧ (d - k0) / (k1 - k0) ≤ 1 ∧
      d = (1 - (d - k0) / (k1 - k0)) * k0 + (d - k0) / (k1 - k0) * k1 := by
  have hpos : 0 < k1 - k0 := by linarith
  refine ⟨div_nonneg (by linarith) hpos.le, by rw [div_le_one hpos]; linarith, ?_⟩
  field_simp
  ring

/-- the denominator of `interpBest` is the interpolated speed -/
theorem interpBest_eq (dist p k0 bS k1 bL : Rat) :
    interpBest dist p k0 bS k1 bL = dist / ((1 - p) * (k0 * 1000 / bS) + p * (k1 * 1000 / bL)) := by
  unfold interpBest
  ring

/-- with `d = (1−p)·k0 + p·k1` the interpolated best is the average of the two bests weighted by
    `(1−p)·v_s` and `p·v_l` -/
theorem interpBest_wavg {d p k0 bS k1 bL : Rat} (hbS : bS ≠ 0) (hbL : bL ≠ 0)
    (hd : d = (1 - p) * k0 + p * k1) :
    interpBest (1000 * d) p k0 bS k1 bL =
      ((1 - p) * (k0 * 1000 / bS) * bS + p * (k1 * 1000 / bL) * bL) /
        ((1 - p) * (k0 * 1000 / bS) + p * (k1 * 1000 / bL)) := by
  rw [interpBest_eq]
  congr 1
  rw [hd]
  field_simp

/-- **Möbius betweenness**: the interpolated best lies between the bracket rows' bests -/
theorem interpBest_between {d p k0 bS k1 bL : Rat} (hp0 : 0 ≤ p) (hp1 : p ≤ 1) (hk0 : 0 ≤ k0) (hk1 : 0 ≤ k1)
    (hbS : 0 < bS) (hbL : 0 < bL) (hd : d = (1 - p) * k0 + p * k1)
    (hv : (1 - p) * (k0 * 1000 / bS) + p * (k1 * 1000 / bL) ≠ 0) :
    min bS bL ≤ interpBest (1000 * d) p k0 bS k1 bL ∧ interpBest (1000 * d) p k0 bS k1 bL ≤ max bS bL := by
  rw [interpBest_wavg (ne_of_gt hbS) (ne_of_gt hbL) hd]
  have hs : 0 ≤ (1 - p) * (k0 * 1000 / bS) := mul_nonneg (by linarith) (div_nonneg (by positivity) hbS.le)
  have hl : 0 ≤ p * (k1 * 1000 / bL) := mul_nonneg hp0 (div_nonneg (by positivity) hbL.le)
  exact wavg_between hs hl (lt_of_le_of_ne (add_nonneg hs hl) (Ne.symm hv))

/-- a bracket whose lower row has no distance (the row before `"50"`): the best is the upper row's -/
theorem interpBest_lower_zero {d p bS k1 bL : Rat} (hbL : bL ≠ 0) (hd : d = p * k1)
    (hv : p * (k1 * 1000 / bL) ≠ 0) : interpBest (1000 * d) p 0 bS k1 bL = bL := by
  rw [interpBest_eq]
  have : (1 - p) * (0 * 1000 / bS) + p * (k1 * 1000 / bL) = p * (k1 * 1000 / bL) := by ring
  rw [this, hd]
  have hp : p ≠ 0 := fun h => hv (by rw [h]; ring)
  have hk : k1 ≠ 0 := fun h => hv (by rw [h]; ring)
  field_simp

/-- **Möbius monotonicity**: inside one bracket with `t_s ≤ t_l` the interpolated best does not
    decrease with the distance -/
theorem interpBest_mono {p p' k0 bS k1 bL : Rat} (hpp : p ≤ p') (hk0 : 0 ≤ k0) (hk1 : 0 ≤ k1)
    (hbS : 0 < bS) (hbL : 0 < bL) (hb : bS ≤ bL)
    (hv : 0 < (1 - p) * (k0 * 1000 / bS) + p * (k1 * 1000 / bL))
    (hv' : 0 < (1 - p') * (k0 * 1000 / bS) + p' * (k1 * 1000 / bL)) :
    interpBest (1000 * ((1 - p) * k0 + p * k1)) p k0 bS k1 bL ≤
      interpBest (1000 * ((1 - p') * k0 + p' * k1)) p' k0 bS k1 bL := by
  rw [interpBest_eq, interpBest_eq, div_le_div_iff₀ hv hv']
  -- d·V(p') ≤ d'·V(p)  ⇔  0 ≤ (p' − p)·(k1·v_s − k0·v_l) = (p' − p)·1000·k0·k1·(1/bS − 1/bL)
  have key : 1000 * ((1 - p') * k0 + p' * k1) * ((1 - p) * (k0 * 1000 / bS) + p * (k1 * 1000 / bL)) -
      1000 * ((1 - p) * k0 + p * k1) * ((1 - p') * (k0 * 1000 / bS) + p' * (k1 * 1000 / bL)) =
      (p' - p) * (1000000 * k0 * k1 * (bL - bS) / (bS * bL)) := by
    field_simp
    ring
  have hnn : 0 ≤ (p' - p) * (1000000 * k0 * k1 * (bL - bS) / (bS * bL)) :=
    mul_nonneg (by linarith) (div_nonneg (by have : 0 ≤ bL - bS := by linarith
                                             positivity) (by positivity))
  linarith

/-! ## the linear scan -/

theorem scanIdx_le_length (t : Table) (rows : List Row) (d : Rat) (hs : runStart rows ≤ rows.length) :
    scanIdx t rows d ≤ rows.length := by
  unfold scanIdx
  have := List.findIdx_le_length (p := fun r => decide (d ≤ t.kmQ r)) (xs := rows.drop (runStart rows))
  rw [List.length_drop] at this
  omega

theorem runStart_le_length (rows : List Row) : runStart rows ≤ rows.length := List.findIdx_le_length

theorem runStart_le_scanIdx (t : Table) (rows : List Row) (d : Rat) : runStart rows ≤ scanIdx t rows d := by
  unfold scanIdx; omega

/-- the row the scan stops at is not shorter than `d` -/
theorem scan_ge (t : Table) (rows : List Row) (d : Rat) (h : scanIdx t rows d < rows.length) :
    d ≤ t.kmQ (rows[scanIdx t rows d]) := by
  unfold scanIdx at h ⊢
  have hlt : (rows.drop (runStart rows)).findIdx (fun r => decide (d ≤ t.kmQ r)) < (rows.drop (runStart rows)).length := by
    rw [List.length_drop]; omega
  have := List.findIdx_getElem (p := fun r => decide (d ≤ t.kmQ r)) (xs := rows.drop (runStart rows)) (w := hlt)
  rw [List.getElem_drop] at this
  simpa using this

/-- every run row the scan passed is shorter than `d` -/
theorem scan_lt (t : Table) (rows : List Row) (d : Rat) (m : Nat) (hm0 : runStart rows ≤ m)
    (hm1 : m < scanIdx t rows d) (hm : m < rows.length) : t.kmQ (rows[m]) < d := by
  unfold scanIdx at hm1
  have hlt : m - runStart rows < (rows.drop (runStart rows)).findIdx (fun r => decide (d ≤ t.kmQ r)) := by omega
  have := List.not_of_lt_findIdx (p := fun r => decide (d ≤ t.kmQ r)) (xs := rows.drop (runStart rows)) hlt
  rw [List.getElem_drop] at this
  have e : runStart rows + (m - runStart rows) = m := by omega
  simp only [e] at this
  simpa using this

/-- the scan index does not decrease with the distance (whatever the order of the rows) -/
theorem scanIdx_mono (t : Table) (rows : List Row) (d d' : Rat) (h : d ≤ d') :
    scanIdx t rows d ≤ scanIdx t rows d' := by
  by_contra hc
  have hlt : scanIdx t rows d' < scanIdx t rows d := not_le.mp hc
  have hlen : scanIdx t rows d ≤ rows.length := scanIdx_le_length t rows d (runStart_le_length rows)
  have h1 := scan_ge t rows d' (by omega)
  have h2 := scan_lt t rows d (scanIdx t rows d') (runStart_le_scanIdx t rows d') hlt (by omega)
  linarith

/-- what `rowByDistance` returns, case by case -/
theorem rowByDistance_cases (t : Table) (rows : List Row) (dist : Nat) :
    let d : Rat := (dist : Rat) / 1000
    let i := scanIdx t rows d
    (runStart rows = rows.length ∧ rowByDistance t rows dist = .error .noRunRows) ∨
    (runStart rows < rows.length ∧ i = 0 ∧ rowByDistance t rows dist = .ok (0, 0, 0)) ∨
    (runStart rows < rows.length ∧ 0 < i ∧ ∃ h : i < rows.length,
        ((t.kmQ rows[i] = t.kmQ (rows[i - 1]'(by omega)) ∧ rowByDistance t rows dist = .error .zeroDiv) ∨
         (t.kmQ rows[i] ≠ t.kmQ (rows[i - 1]'(by omega)) ∧ rowByDistance t rows dist =
            .ok (i - 1, i, (d - t.kmQ (rows[i - 1]'(by omega))) / (t.kmQ rows[i] - t.kmQ (rows[i - 1]'(by omega))))))) ∨
    (runStart rows < rows.length ∧ 0 < i ∧ i = rows.length ∧
        rowByDistance t rows dist = .ok (rows.length - 1, rows.length - 1, 0)) := by
  intro d i
  have hdef : rowByDistance t rows dist =
      (if runStart rows = rows.length then .error .noRunRows else
       if i = 0 then .ok (0, 0, 0)
       else if i < rows.length then
         (if t.kmQ (rows.getD i default) = t.kmQ (rows.getD (i - 1) default) then .error .zeroDiv
          else .ok (i - 1, i, (d - t.kmQ (rows.getD (i - 1) default)) /
                (t.kmQ (rows.getD i default) - t.kmQ (rows.getD (i - 1) default))))
       else .ok (rows.length - 1, rows.length - 1, 0)) := rfl
  by_cases hs : runStart rows = rows.length
  · left; exact ⟨hs, by rw [hdef, if_pos hs]⟩
  · right
    have hs' : runStart rows < rows.length := lt_of_le_of_ne (runStart_le_length rows) hs
    by_cases h0 : i = 0
    · left; exact ⟨hs', h0, by rw [hdef, if_neg hs, if_pos h0]⟩
    · right
      have hpos : 0 < i := Nat.pos_of_ne_zero h0
      by_cases hlt : i < rows.length
      · left
        refine ⟨hs', hpos, hlt, ?_⟩
        rw [hdef, if_neg hs, if_neg h0, if_pos hlt, getD_of_lt rows i default hlt,
          getD_of_lt rows (i - 1) default (by omega)]
        by_cases hk : t.kmQ rows[i] = t.kmQ (rows[i - 1]'(by omega))
        · left; exact ⟨hk, by rw [if_pos hk]⟩
        · right; exact ⟨hk, by rw [if_neg hk]⟩
      · right
        have : i = rows.length := le_antisymm (scanIdx_le_length t rows d (runStart_le_length rows)) (not_lt.mp hlt)
        exact ⟨hs', hpos, this, by rw [hdef, if_neg hs, if_neg h0, if_neg hlt]⟩

/-! ## the side-conditions, Prop-level -/

theorem runOK_spec (rows : List Row) (h : runOK rows = true) :
    runStart rows < rows.length ∧
    (runStart rows = 0 ∨ (rows.getD (runStart rows - 1) default).km = 0) ∧
    ∀ m, runStart rows ≤ m → ∀ hm : m < rows.length, 0 < rows[m].km := by
  unfold runOK at h
  simp only [Bool.and_eq_true, decide_eq_true_eq, Bool.or_eq_true, beq_iff_eq, List.all_eq_true] at h
  obtain ⟨⟨h1, h2⟩, h3⟩ := h
  refine ⟨h1, h2, ?_⟩
  intro m hm0 hm
  have hmem : rows[m] ∈ rows.drop (runStart rows) := by
    have e : rows[m] = (rows.drop (runStart rows))[m - runStart rows]'(by rw [List.length_drop]; omega) := by
      rw [List.getElem_drop]; congr 1; omega
    rw [e]; exact List.getElem_mem _
  exact h3 _ hmem

theorem bestsOK_spec (t : Table) (h : bestsOK t = true) :
    0 < t.bestScale ∧ 0 < t.kmScale ∧ ∀ g, ∀ r ∈ t.rows g, 0 < r.best := by
  unfold bestsOK at h
  simp only [Bool.and_eq_true, decide_eq_true_eq, List.all_eq_true, List.mem_append] at h
  obtain ⟨⟨h1, h2⟩, h3⟩ := h
  refine ⟨h1, h2, ?_⟩
  intro g r hr
  cases g with
  | m => exact h3 r (Or.inl hr)
  | f => exact h3 r (Or.inr hr)

theorem kmQ_nonneg (t : Table) (r : Row) : 0 ≤ t.kmQ r := by
  unfold Table.kmQ; exact div_nonneg (Nat.cast_nonneg _) (Nat.cast_nonneg _)

theorem kmQ_zero (t : Table) (r : Row) (h : r.km = 0) : t.kmQ r = 0 := by
  unfold Table.kmQ; rw [h]; simp

theorem bestQ_pos (t : Table) (r : Row) (hs : 0 < t.bestScale) (h : 0 < r.best) : 0 < t.bestQ r := by
  unfold Table.bestQ
  have h1 : (0 : Rat) < (r.best : Rat) := by exact_mod_cast h
  have h2 : (0 : Rat) < (t.bestScale : Rat) := by exact_mod_cast hs
  exact div_pos h1 h2

theorem kmQ_lt_iff (t : Table) (r r' : Row) (hs : 0 < t.kmScale) : t.kmQ r < t.kmQ r' ↔ r.km < r'.km := by
  unfold Table.kmQ
  have h2 : (0 : Rat) < (t.kmScale : Rat) := by exact_mod_cast hs
  rw [div_lt_div_iff_of_pos_right h2]
  exact Nat.cast_lt

theorem bestQ_le_iff (t : Table) (r r' : Row) (hs : 0 < t.bestScale) : t.bestQ r ≤ t.bestQ r' ↔ r.best ≤ r'.best := by
  unfold Table.bestQ
  have h2 : (0 : Rat) < (t.bestScale : Rat) := by exact_mod_cast hs
  rw [div_le_div_iff_of_pos_right h2]
  exact Nat.cast_le

/-- an interior bracket `(fx, fx1)`, `fx ≠ fx1`: adjacent rows around `d`, weight in `[0,1]` -/
theorem bracket_spec (t : Table) (rows : List Row) (dist fx fx1 : Nat) (p : Rat) (hR : runOK rows = true)
    (hb : rowByDistance t rows dist = .ok (fx, fx1, p)) (hne : fx ≠ fx1) :
    ∃ (h1 : fx1 < rows.length) (h0 : fx < rows.length), fx + 1 = fx1 ∧ fx1 = scanIdx t rows ((dist : Rat) / 1000) ∧
      t.kmQ rows[fx] ≤ (dist : Rat) / 1000 ∧ (dist : Rat) / 1000 ≤ t.kmQ rows[fx1] ∧
      t.kmQ rows[fx] < t.kmQ rows[fx1] ∧
      p = ((dist : Rat) / 1000 - t.kmQ rows[fx]) / (t.kmQ rows[fx1] - t.kmQ rows[fx]) ∧
      (runStart rows < fx1 → t.kmQ rows[fx] < (dist : Rat) / 1000) ∧
      (runStart rows = fx1 → rows[fx].km = 0) := by
  obtain ⟨hs, hpre, _⟩ := runOK_spec rows hR
  rcases rowByDistance_cases t rows dist with ⟨_, h⟩ | ⟨_, _, h⟩ | ⟨_, hpos, hlt, h⟩ | ⟨_, _, _, h⟩
  · rw [h] at hb; exact absurd hb (by simp)
  · rw [h] at hb; injection hb with hb; simp only [Prod.mk.injEq] at hb; exact absurd (hb.1.symm.trans hb.2.1) hne
  · rcases h with ⟨_, h⟩ | ⟨hk, h⟩
    · rw [h] at hb; exact absurd hb (by simp)
    · rw [h] at hb
      injection hb with hb
      simp only [Prod.mk.injEq] at hb
      obtain ⟨e0, e1, ep⟩ := hb
      subst e0 e1
      have hge := scan_ge t rows _ hlt
      have hpre' : runStart rows = scanIdx t rows ((dist : Rat) / 1000) →
          (rows[scanIdx t rows ((dist : Rat) / 1000) - 1]'(by omega)).km = 0 := by
        intro e
        rcases hpre with h0 | h0
        · omega
        · rw [e, getD_of_lt rows _ default (by omega)] at h0; exact h0
      have hlow : t.kmQ (rows[scanIdx t rows ((dist : Rat) / 1000) - 1]'(by omega)) ≤ (dist : Rat) / 1000 := by
        by_cases hc : runStart rows < scanIdx t rows ((dist : Rat) / 1000)
        · exact le_of_lt (scan_lt t rows _ _ (by omega) (by omega) (by omega))
        · have e : runStart rows = scanIdx t rows ((dist : Rat) / 1000) :=
            le_antisymm (runStart_le_scanIdx t rows _) (not_lt.mp hc)
          rw [kmQ_zero t _ (hpre' e)]
          exact div_nonneg (Nat.cast_nonneg _) (by norm_num)
      refine ⟨hlt, by omega, by omega, rfl, hlow, hge, ?_, ep.symm, ?_, hpre'⟩
      · exact lt_of_le_of_ne (le_trans hlow hge) (Ne.symm hk)
      · intro hc; exact scan_lt t rows _ _ (by omega) (by omega) (by omega)
  · rw [h] at hb; injection hb with hb; simp only [Prod.mk.injEq] at hb; exact absurd (hb.1.symm.trans hb.2.1) hne

/-! ## what a successful `bestByDistance` is made of -/

theorem speed_eq (p vs vl : Rat) : vl + (1 - p) * (vs - vl) = (1 - p) * vs + p * vl := by ring

theorem bestByDistance_ok (t : Table) (rows : List Row) (dist : Nat) (x : Rat)
    (h : bestByDistance t rows dist = .ok x) :
    ∃ fx fx1 p, rowByDistance t rows dist = .ok (fx, fx1, p) ∧
      0 < (rows.getD fx default).best ∧ 0 < (rows.getD fx1 default).best ∧ 0 < t.bestScale ∧
      (1 - p) * (t.kmQ (rows.getD fx default) * 1000 / t.bestQ (rows.getD fx default)) +
        p * (t.kmQ (rows.getD fx1 default) * 1000 / t.bestQ (rows.getD fx1 default)) ≠ 0 ∧
      x = interpBest (dist : Rat) p (t.kmQ (rows.getD fx default)) (t.bestQ (rows.getD fx default))
            (t.kmQ (rows.getD fx1 default)) (t.bestQ (rows.getD fx1 default)) := by
  unfold bestByDistance at h
  split at h
  · exact absurd h (by simp)
  · rename_i fx fx1 p hb
    simp only at h
    split at h
    · exact absurd h (by simp)
    · rename_i hz
      simp only [not_or] at hz
      split at h
      · exact absurd h (by simp)
      · rename_i hv
        injection h with h
        rw [speed_eq] at hv
        exact ⟨fx, fx1, p, hb, Nat.pos_of_ne_zero hz.1, Nat.pos_of_ne_zero hz.2.1, Nat.pos_of_ne_zero hz.2.2, hv, h.symm⟩

/-- interior bracket: between the bracket rows' bests -/
theorem best_between (t : Table) (rows : List Row) (dist fx fx1 : Nat) (p x : Rat)
    (hR : runOK rows = true) (h : bestByDistance t rows dist = .ok x)
    (hb : rowByDistance t rows dist = .ok (fx, fx1, p)) (hne : fx ≠ fx1) :
    min (t.bestQ (rows.getD fx default)) (t.bestQ (rows.getD fx1 default)) ≤ x ∧
    x ≤ max (t.bestQ (rows.getD fx default)) (t.bestQ (rows.getD fx1 default)) := by
  obtain ⟨fx', fx1', p', hb', hz0, hz1, hzs, hv, hx⟩ := bestByDistance_ok t rows dist x h
  rw [hb] at hb'; injection hb' with hb'; simp only [Prod.mk.injEq] at hb'
  obtain ⟨e0, e1, ep⟩ := hb'; subst e0 e1 ep
  obtain ⟨h1, h0, _, _, hlow, hhigh, hk, hp, _, _⟩ := bracket_spec t rows dist fx fx1 p hR hb hne
  simp only [getD_of_lt rows fx default h0, getD_of_lt rows fx1 default h1] at hz0 hz1 hv hx ⊢
  have hsp := pfac_spec hk hlow hhigh
  rw [← hp] at hsp
  have hbS := bestQ_pos t rows[fx] hzs hz0
  have hbL := bestQ_pos t rows[fx1] hzs hz1
  have hd : (dist : Rat) = 1000 * ((dist : Rat) / 1000) := by ring
  rw [hx, hd]
  exact interpBest_between hsp.1 hsp.2.1 (kmQ_nonneg t _) (kmQ_nonneg t _) hbS hbL hsp.2.2 hv

/-- the bracket below the first run row (lower row without distance): the first run row's best -/
theorem best_pre_run (t : Table) (rows : List Row) (dist fx fx1 : Nat) (p x : Rat)
    (hR : runOK rows = true) (h : bestByDistance t rows dist = .ok x)
    (hb : rowByDistance t rows dist = .ok (fx, fx1, p)) (hne : fx ≠ fx1)
    (hkm : (rows.getD fx default).km = 0) : x = t.bestQ (rows.getD fx1 default) := by
  obtain ⟨fx', fx1', p', hb', hz0, hz1, hzs, hv, hx⟩ := bestByDistance_ok t rows dist x h
  rw [hb] at hb'; injection hb' with hb'; simp only [Prod.mk.injEq] at hb'
  obtain ⟨e0, e1, ep⟩ := hb'; subst e0 e1 ep
  obtain ⟨h1, h0, _, _, hlow, hhigh, hk, hp, _, _⟩ := bracket_spec t rows dist fx fx1 p hR hb hne
  rw [getD_of_lt rows fx default h0] at hkm
  simp only [getD_of_lt rows fx default h0, getD_of_lt rows fx1 default h1] at hz0 hz1 hv hx ⊢
  have hk0 : t.kmQ rows[fx] = 0 := kmQ_zero t _ hkm
  have hsp := pfac_spec hk hlow hhigh
  rw [← hp, hk0] at hsp
  rw [hk0] at hv hx
  have hbL := bestQ_pos t rows[fx1] hzs hz1
  have hd : (dist : Rat) = 1000 * ((dist : Rat) / 1000) := by ring
  rw [hx, hd]
  apply interpBest_lower_zero (ne_of_gt hbL)
  · have := hsp.2.2; linarith
  · intro hc; apply hv; rw [hc]; ring

/-- degenerate bracket `(fx, fx, 0)` (before the first / beyond the last row): that row's speed -/
theorem best_same_row (t : Table) (rows : List Row) (dist fx : Nat) (x : Rat)
    (h : bestByDistance t rows dist = .ok x) (hb : rowByDistance t rows dist = .ok (fx, fx, 0)) :
    0 < (rows.getD fx default).best ∧ 0 < t.bestScale ∧ t.kmQ (rows.getD fx default) ≠ 0 ∧
    x = (dist : Rat) / 1000 * t.bestQ (rows.getD fx default) / t.kmQ (rows.getD fx default) := by
  obtain ⟨fx', fx1', p', hb', hz0, _, hzs, hv, hx⟩ := bestByDistance_ok t rows dist x h
  rw [hb] at hb'; injection hb' with hb'; simp only [Prod.mk.injEq] at hb'
  obtain ⟨e0, e1, ep⟩ := hb'; subst e0 e1 ep
  have hb0 := bestQ_pos t (rows.getD fx default) hzs hz0
  have hk : t.kmQ (rows.getD fx default) ≠ 0 := by
    intro hc; apply hv; rw [hc]; ring
  refine ⟨hz0, hzs, hk, ?_⟩
  rw [hx, interpBest_eq]
  have hb0' := ne_of_gt hb0
  field_simp
  ring

/-- best monotone inside a bracket: two distances bracketed by the same interior pair of rows
    whose bests are in order: the longer distance has the larger (or equal) open best -/
theorem best_mono_bracket (t : Table) (rows : List Row) (dist dist' fx fx1 : Nat) (p p' x x' : Rat)
    (hR : runOK rows = true) (hdd : dist ≤ dist')
    (h : bestByDistance t rows dist = .ok x) (h' : bestByDistance t rows dist' = .ok x')
    (hb : rowByDistance t rows dist = .ok (fx, fx1, p))
    (hb' : rowByDistance t rows dist' = .ok (fx, fx1, p')) (hne : fx ≠ fx1)
    (hbest : (rows.getD fx default).best ≤ (rows.getD fx1 default).best) : x ≤ x' := by
  obtain ⟨h1, h0, _, _, hlow, hhigh, hk, hp, _, _⟩ := bracket_spec t rows dist fx fx1 p hR hb hne
  obtain ⟨_, _, _, _, hlow', hhigh', _, hp', _, _⟩ := bracket_spec t rows dist' fx fx1 p' hR hb' hne
  rw [getD_of_lt rows fx default h0, getD_of_lt rows fx1 default h1] at hbest
  unfold bestByDistance at h h'
  rw [hb] at h; rw [hb'] at h'
  simp only [getD_of_lt rows fx default h0, getD_of_lt rows fx1 default h1] at h h'
  split at h
  · exact absurd h (by simp)
  · rename_i hz
    simp only [not_or] at hz
    obtain ⟨hz0, hz1, hzs⟩ := hz
    rw [if_neg (by simp only [not_or]; exact ⟨hz0, hz1, hzs⟩)] at h'
    split at h
    · exact absurd h (by simp)
    · rename_i hv
      split at h'
      · exact absurd h' (by simp)
      · rename_i hv'
        injection h with h; injection h' with h'
        subst h h'
        have hsp := pfac_spec hk hlow hhigh
        have hsp' := pfac_spec hk hlow' hhigh'
        rw [← hp] at hsp; rw [← hp'] at hsp'
        have hbS := bestQ_pos t rows[fx] (Nat.pos_of_ne_zero hzs) (Nat.pos_of_ne_zero hz0)
        have hbL := bestQ_pos t rows[fx1] (Nat.pos_of_ne_zero hzs) (Nat.pos_of_ne_zero hz1)
        have hble := (bestQ_le_iff t rows[fx] rows[fx1] (Nat.pos_of_ne_zero hzs)).mpr hbest
        have hd : (dist : Rat) = 1000 * ((1 - p) * t.kmQ rows[fx] + p * t.kmQ rows[fx1]) := by
          rw [← hsp.2.2]; ring
        have hd' : (dist' : Rat) = 1000 * ((1 - p') * t.kmQ rows[fx] + p' * t.kmQ rows[fx1]) := by
          rw [← hsp'.2.2]; ring
        rw [hd, hd']
        rw [speed_eq] at hv hv'
        have hk0 := kmQ_nonneg t rows[fx]
        have hk1 := kmQ_nonneg t rows[fx1]
        have hvs : 0 ≤ (1 - p) * (t.kmQ rows[fx] * 1000 / t.bestQ rows[fx]) :=
          mul_nonneg (by linarith [hsp.2.1]) (div_nonneg (by positivity) hbS.le)
        have hvl : 0 ≤ p * (t.kmQ rows[fx1] * 1000 / t.bestQ rows[fx1]) :=
          mul_nonneg hsp.1 (div_nonneg (by positivity) hbL.le)
        have hvs' : 0 ≤ (1 - p') * (t.kmQ rows[fx] * 1000 / t.bestQ rows[fx]) :=
          mul_nonneg (by linarith [hsp'.2.1]) (div_nonneg (by positivity) hbS.le)
        have hvl' : 0 ≤ p' * (t.kmQ rows[fx1] * 1000 / t.bestQ rows[fx1]) :=
          mul_nonneg hsp'.1 (div_nonneg (by positivity) hbL.le)
        have hpp : p ≤ p' := by
          rw [hp, hp']
          have hpos : 0 < t.kmQ rows[fx1] - t.kmQ rows[fx] := by linarith
          rw [div_le_div_iff_of_pos_right hpos]
          have : (dist : Rat) ≤ (dist' : Rat) := by exact_mod_cast hdd
          linarith
        exact interpBest_mono hpp hk0 hk1 hbS hbL hble
          (lt_of_le_of_ne (add_nonneg hvs hvl) (Ne.symm hv))
          (lt_of_le_of_ne (add_nonneg hvs' hvl') (Ne.symm hv'))

end AthlibVerif.Wma
