import AthlibVerif.Lemmas.RankOrder
import AthlibVerif.Lemmas.CardShape
import AthlibVerif.Lemmas.Consec
/-!
# Trials of different athletes commute

If, from a state satisfying the invariants of every reachable state, athlete `b1`'s trial and then athlete
`b2`'s trial are both accepted, then so are they in the other order, and the two outcomes differ only in the order
of the ranked list (and of the log): same records incl. places, same heights, same state.
-/
namespace AthlibVerif.HJ
open AthlibVerif.Ranking

def noPlace (j : Jumper) : Jumper := { j with place := 0 }

@[simp] theorem noPlace_bib (j : Jumper) : (noPlace j).bib = j.bib := rfl
@[simp] theorem noPlace_key (j : Jumper) : (noPlace j).key = j.key := rfl
@[simp] theorem noPlace_setplace (j : Jumper) (p : Nat) : noPlace { j with place := p } = noPlace j := rfl

/-- the same competition up to places, the order of the ranked list, and the log -/
def SameModPlaces (a b : Comp) : Prop :=
  a.jumpers.map noPlace = b.jumpers.map noPlace ∧ a.heights = b.heights ∧ a.phase = b.phase ∧ a.ranked.Perm b.ranked

theorem map_bib_of_noPlace (l l' : List Jumper) (h : l.map noPlace = l'.map noPlace) : l.map (·.bib) = l'.map (·.bib) := by
  have := congrArg (List.map (·.bib)) h
  simpa [List.map_map, Function.comp_def] using this

theorem SameModPlaces.wf {a b : Comp} (h : SameModPlaces a b) (hw : WF a) : WF b := by
  have hb := map_bib_of_noPlace _ _ h.1
  exact ⟨hb ▸ hw.1, h.2.2.2.symm.trans (hb ▸ hw.2)⟩

/-- `_rankj` overwrites every place from the keys: what the places were before does not matter -/
theorem rankj_jumpers_noPlace (c : Comp) (h : WF c) :
    (rankj c).jumpers = (c.jumpers.map noPlace).map (fun j' =>
      { j' with place := 1 + ((c.jumpers.map noPlace).filter (fun k => Key.lt k.key j'.key)).length }) := by
  rw [rankj_jumpers c h, List.map_map]
  apply List.map_congr_left
  intro j _
  simp only [Function.comp_apply, List.filter_map, List.length_map]
  rfl

theorem rankj_modPlaces (a b : Comp) (hw : WF a) (h : SameModPlaces a b) : SameButRanked (rankj a) (rankj b) := by
  have hwb := h.wf hw
  refine ⟨?_, ?_, ?_, ?_⟩
  · rw [rankj_jumpers_noPlace a hw, rankj_jumpers_noPlace b hwb, h.1]
  · rw [(rankj_frame a).2.1, (rankj_frame b).2.1, h.2.1]
  · rw [(rankj_frame a).2.2.1, (rankj_frame b).2.2.1, h.2.2.1]
  · rw [rankj_ranked_list, rankj_ranked_list]
    exact (sortRanked_perm a a.ranked).trans (h.2.2.2.trans (sortRanked_perm b b.ranked).symm)

theorem rank_modPlaces (a b : Comp) (hw : WF a) (h : SameModPlaces a b) : SameButRanked (rank a) (rank b) := by
  have hwb := h.wf hw
  rw [rank_eq_tail, rank_eq_tail]
  exact rankTail_same _ _ (rankj_WF a hw) (rankj_ranked a hw) (rankj_sorted a hw)
    (rankj_WF b hwb) (rankj_ranked b hwb) (rankj_sorted b hwb) (rankj_modPlaces a b hw h)

theorem allX_no_o (cell : List Trial) (h : allX cell = true) : cell.contains .o = false := by
  unfold allX at h
  cases hc : cell.contains Trial.o with
  | false => rfl
  | true =>
    have hm : Trial.o ∈ cell := by simpa using hc
    have := List.all_eq_true.1 h _ hm
    simp at this

/-- while somebody who is still in has an open cell at the current height, `_rank` decides nothing: it only
    re-numbers the places -/
theorem rank_eq_rankj (c0 : Comp) (hw : WF c0) (w : Jumper) (hm : w ∈ c0.jumpers) (hal : w.eliminated = false)
    (hnd : w.dismissed = false) (hfl : FlagInv c0.heights w) : rank c0 = rankj c0 := by
  rw [rank_eq_tail]
  unfold rankTail
  have hj := rankj_jumpers c0 hw
  have hh : (rankj c0).heights = c0.heights := (rankj_frame c0).2.1
  cases (rankj c0).ranked with
  | nil => rfl
  | cons r0 rest =>
    simp only
    -- w's record after the re-numbering
    have hw' : ({ w with place := 1 + (c0.jumpers.filter (fun k => Key.lt k.key w.key)).length } : Jumper) ∈
        (rankj c0).jumpers.filter (fun j => !j.eliminated) := by
      rw [hj]
      exact List.mem_filter.2 ⟨List.mem_map.2 ⟨w, hm, rfl⟩, by simp [hal]⟩
    generalize (rankj c0).jumpers.filter (fun j => !j.eliminated) = fl at hw'
    match fl, hw' with
    | [], hw' => cases hw'
    | [x], hw' =>
      simp only [List.mem_singleton] at hw'
      subst hw'
      simp only
      unfold rankOneLeft
      have hopen := hfl.openCell hal hnd
      have : ¬ ((w.card.length == (rankj c0).heights.length && (w.card.getLast?.getD []).contains Trial.o) = true) := by
        rw [hh]
        intro hc
        simp only [Bool.and_eq_true, beq_iff_eq] at hc
        rw [padCard_of_full _ _ hc.1] at hopen
        have := allX_no_o _ hopen
        rw [this] at hc
        exact absurd hc.2 (by simp)
      rw [if_neg this]
    | _ :: _ :: _, _ => rfl

/-- once a winner is declared, at most one athlete is still in -/
def WonInv (c : Comp) : Prop := c.phase = .won → (c.jumpers.filter (fun j => !j.eliminated)).length ≤ 1

theorem two_alive (c : Comp) (a b : Jumper) (ha : a ∈ c.jumpers) (hb : b ∈ c.jumpers) (hne : a ≠ b)
    (hea : a.eliminated = false) (heb : b.eliminated = false) :
    2 ≤ (c.jumpers.filter (fun j => !j.eliminated)).length := by
  have hma : a ∈ c.jumpers.filter (fun j => !j.eliminated) := List.mem_filter.2 ⟨ha, by simp [hea]⟩
  have hmb : b ∈ c.jumpers.filter (fun j => !j.eliminated) := List.mem_filter.2 ⟨hb, by simp [heb]⟩
  generalize c.jumpers.filter (fun j => !j.eliminated) = l at hma hmb
  match l, hma, hmb with
  | [], hma, _ => cases hma
  | [x], hma, hmb =>
    simp only [List.mem_singleton] at hma hmb
    exact absurd (hma.trans hmb.symm) hne
  | _ :: _ :: _, _, _ => simp

theorem actCore_bib (j : Jumper) (hc : Nat) (h : Int) (t : Trial) : (j.actCore hc h t).bib = j.bib := by
  cases t <;> simp only [Jumper.actCore] <;> (try split) <;> rfl

theorem actCore_place (j : Jumper) (p : Nat) (hc : Nat) (h : Int) (t : Trial) :
    ({ j with place := p } : Jumper).actCore hc h t = { j.actCore hc h t with place := p } := by
  cases t <;> simp only [Jumper.actCore] <;> (try split) <;> rfl

theorem act_place (j : Jumper) (p : Nat) (hc : Nat) (h : Int) (t : Trial) :
    ({ j with place := p } : Jumper).act hc h t = (j.act hc h t).map (fun j' => { j' with place := p }) := by
  unfold Jumper.act
  simp only
  split
  · rfl
  · split
    · rfl
    · simp [actCore_place]

/-- the record of a bib in the re-numbered competition -/
theorem rankj_find (c : Comp) (hw : WF c) (b : Nat) :
    (rankj c).find b = (c.find b).map (fun j => { j with place := 1 + (c.jumpers.filter (fun k => Key.lt k.key j.key)).length }) := by
  unfold Comp.find
  rw [rankj_jumpers c hw]
  exact find_map c.jumpers (fun j => ({ j with place := 1 + (c.jumpers.filter (fun k => Key.lt k.key j.key)).length } : Jumper))
    (fun _ => rfl) b

theorem update_find_other (c : Comp) (j' : Jumper) (b : Nat) (hne : j'.bib ≠ b) : (c.update j').find b = c.find b := by
  unfold Comp.find Comp.update
  simp only
  induction c.jumpers with
  | nil => rfl
  | cons a rest ih =>
    simp only [List.map_cons, List.find?_cons]
    by_cases e : a.bib = j'.bib
    · have h1 : (a.bib == j'.bib) = true := by simpa using e
      have h2 : (j'.bib == b) = false := by simpa using hne
      have h3 : (a.bib == b) = false := by rw [e]; exact h2
      simp only [h1, if_true, h2, h3]
      exact ih
    · have h1 : (a.bib == j'.bib) = false := by simpa using e
      simp only [h1, Bool.false_eq_true, if_false]
      split
      · rfl
      · exact ih

/-- the records after "b1's trial, re-number, b2's trial", up to places -/
theorem two_updates_noPlace (c L : Comp) (hwL : WF L) (j1' j2' : Jumper) (hL : L.jumpers = (c.update j1').jumpers)
    (hne : j1'.bib ≠ j2'.bib) :
    ((rankj L).update j2').jumpers.map noPlace =
      c.jumpers.map (fun k => if k.bib == j2'.bib then noPlace j2' else if k.bib == j1'.bib then noPlace j1' else noPlace k) := by
  have hj := rankj_jumpers L hwL
  rw [hL] at hj
  simp only [Comp.update] at hj ⊢
  rw [hj]
  simp only [List.map_map]
  apply List.map_congr_left
  intro k _
  simp only [Function.comp_apply]
  by_cases e1 : k.bib = j1'.bib
  · have h1 : (k.bib == j1'.bib) = true := by simpa using e1
    have h2 : (j1'.bib == j2'.bib) = false := by simpa using hne
    have h3 : (k.bib == j2'.bib) = false := by rw [e1]; exact h2
    simp only [h1, if_true, h2, h3, Bool.false_eq_true, if_false]
    rfl
  · have h1 : (k.bib == j1'.bib) = false := by simpa using e1
    simp only [h1, Bool.false_eq_true, if_false]
    by_cases e2 : k.bib = j2'.bib
    · have h2 : (k.bib == j2'.bib) = true := by simpa using e2
      simp only [h2, if_true]
    · have h2 : (k.bib == j2'.bib) = false := by simpa using e2
      simp only [h2, Bool.false_eq_true, if_false]
      rfl

/-! ## the commutation -/

theorem accepted_trial (c : Comp) (b : Nat) (t : Trial) (h : (step c (.trial b t)).2 = .ok) :
    ∃ j j', c.find b = some j ∧ trialAllowed c j = true ∧ c.heights ≠ [] ∧
      j.act c.heights.length (c.heights.getLast?.getD 0) t = some j' ∧
      step c (.trial b t) = (rank (logTrial c b t j'), .ok) := by
  rcases step_trial c b t with ⟨j, j', h1, h2, h3, h4, h5⟩ | ⟨_, hne, _⟩
  · exact ⟨j, j', h1, h2, h3, h4, h5⟩
  · exact absurd h hne

theorem trial_accepts (c : Comp) (b : Nat) (t : Trial) (j j' : Jumper) (hf : c.find b = some j)
    (ha : trialAllowed c j = true) (hh : c.heights ≠ [])
    (hact : j.act c.heights.length (c.heights.getLast?.getD 0) t = some j') :
    step c (.trial b t) = (rank (logTrial c b t j'), .ok) := by
  have hl : ¬ c.heights.length = 0 := fun e => hh (List.eq_nil_of_length_eq_zero e)
  simp only [step, hf, ha, hact, logTrial]
  simp [hl]

def BibDisRel (j j' : Jumper) : Prop := j'.bib = j.bib ∧ j'.dismissed = j.dismissed

theorem bibDis_stable : RankStable BibDisRel where
  refl := fun _ => ⟨rfl, rfl⟩
  trans := fun _ _ _ h1 h2 => ⟨h2.1.trans h1.1, h2.2.trans h1.2⟩
  place := fun _ _ => ⟨rfl, rfl⟩
  reinst := fun _ => ⟨rfl, rfl⟩

theorem mem_update_other (c : Comp) (j' x : Jumper) (hx : x ∈ c.jumpers) (hne : x.bib ≠ j'.bib) :
    x ∈ (c.update j').jumpers := by
  unfold Comp.update
  simp only
  refine List.mem_map.2 ⟨x, hx, ?_⟩
  have : (x.bib == j'.bib) = false := by simpa using hne
  simp [this]

theorem mem_update_cases (c : Comp) (j' k : Jumper) (hk : k ∈ (c.update j').jumpers) : k = j' ∨ k ∈ c.jumpers := by
  unfold Comp.update at hk
  obtain ⟨x, hx, rfl⟩ := List.mem_map.1 hk
  split
  · exact Or.inl rfl
  · exact Or.inr hx

/-- the state in which a second, different athlete's trial can still be accepted after the first one's: the
    second athlete was in and not done before, the competition is under way, and `_rank` after the first trial
    only re-numbered the places -/
theorem second_trial_facts (c : Comp) (hw : WF c) (hf : AllFlags c) (hwon : WonInv c)
    (hdr : c.phase = .drawn → ∀ j ∈ c.jumpers, j.eliminated = true)
    (b1 b2 : Nat) (t1 t2 : Trial) (hne : b1 ≠ b2) (j1 j1' : Jumper)
    (hf1 : c.find b1 = some j1) (ha1 : trialAllowed c j1 = true)
    (hact1 : j1.act c.heights.length (c.heights.getLast?.getD 0) t1 = some j1')
    (h2 : (step (rank (logTrial c b1 t1 j1')) (.trial b2 t2)).2 = .ok) :
    ∃ j2 j2', c.find b2 = some j2 ∧ j2.eliminated = false ∧ j2.dismissed = false ∧
      (c.phase = .started ∨ c.phase = .jumpoff) ∧
      j2.act c.heights.length (c.heights.getLast?.getD 0) t2 = some j2' ∧
      rank (logTrial c b1 t1 j1') = rankj (logTrial c b1 t1 j1') ∧
      ∃ p, step (rank (logTrial c b1 t1 j1')) (.trial b2 t2) =
        (rank (logTrial (rankj (logTrial c b1 t1 j1')) b2 t2 { j2' with place := p }), .ok) := by
  obtain ⟨hm1, hb1⟩ := find_some_mem c b1 j1 hf1
  obtain ⟨he1, hd1, _⟩ := act_some j1 j1' _ _ t1 hact1
  have hb1' : j1'.bib = b1 := by rw [act_core j1 j1' _ _ t1 hact1, actCore_bib, hb1]
  have hwL1 : WF (logTrial c b1 t1 j1') :=
    WF_of_same_bibs c (logTrial c b1 t1 j1') (by simp [update_bibs]) (List.Perm.refl _) hw
  have hhL1 : (rank (logTrial c b1 t1 j1')).heights = c.heights := (rank_frame _).1.2.1
  obtain ⟨j2c, j2c', hf2c, ha2c, hh2, hact2c, hs2⟩ := accepted_trial _ b2 t2 h2
  obtain ⟨he2c, hd2c, _⟩ := act_some j2c j2c' _ _ t2 hact2c
  obtain ⟨hm2c, hb2c⟩ := find_some_mem _ b2 j2c hf2c
  -- the record it comes from
  obtain ⟨k, hk, hkb, hkd⟩ := rank_relG bibDis_stable _ hwL1 j2c hm2c
  have hkc : k ∈ c.jumpers := by
    rcases mem_update_cases c j1' k (by simpa using hk) with e | e
    · exfalso; rw [e] at hkb; exact hne (by rw [← hb1', ← hkb, hb2c])
    · exact e
  have hkbib : k.bib = b2 := by rw [← hkb, hb2c]
  have hkdis : k.dismissed = false := by rw [← hkd, hd2c]
  have hkel : k.eliminated = false := by
    cases hel : k.eliminated with
    | false => rfl
    | true => have := (hf k hkc).outDone hel; rw [hkdis] at this; cases this
  have hfk : c.find b2 = some k := by rw [← hkbib]; exact find_of_mem c hw.1 k hkc
  have hne12 : j1 ≠ k := fun e => hne (by rw [← hb1, e, hkbib])
  -- the competition is under way
  have hphase : c.phase = .started ∨ c.phase = .jumpoff := by
    unfold trialAllowed at ha1
    cases hp : c.phase with
    | scheduled => simp [hp] at ha1
    | started => exact Or.inl rfl
    | jumpoff => exact Or.inr rfl
    | won =>
      have := hwon hp
      have h2a := two_alive c j1 k hm1 hkc hne12 he1 hkel
      omega
    | finished => simp [hp] at ha1
    | drawn => have := hdr hp j1 hm1; rw [he1] at this; cases this
  -- `_rank` after the first trial only re-numbers
  have hkL1 : k ∈ (logTrial c b1 t1 j1').jumpers := by
    simp only [logTrial_jumpers]
    exact mem_update_other c j1' k hkc (by rw [hkbib, hb1']; exact fun e => hne e.symm)
  have hr1 : rank (logTrial c b1 t1 j1') = rankj (logTrial c b1 t1 j1') :=
    rank_eq_rankj _ hwL1 k hkL1 hkel hkdis (hf k hkc)
  -- identify the record the second trial acted on
  have hfind : (rankj (logTrial c b1 t1 j1')).find b2 =
      some { k with place := 1 + ((logTrial c b1 t1 j1').jumpers.filter (fun x => Key.lt x.key k.key)).length } := by
    rw [rankj_find _ hwL1]
    have : (logTrial c b1 t1 j1').find b2 = some k := by
      show (c.update j1').find b2 = some k
      rw [update_find_other c j1' b2 (by rw [hb1']; exact hne)]; exact hfk
    rw [this]; rfl
  rw [hr1] at hf2c hs2
  rw [hfind] at hf2c
  injection hf2c with hj2c
  rw [← hj2c, act_place, hhL1] at hact2c
  cases hact2 : k.act c.heights.length (c.heights.getLast?.getD 0) t2 with
  | none => rw [hact2] at hact2c; cases hact2c
  | some j2' =>
    rw [hact2] at hact2c
    simp only [Option.map_some, Option.some.injEq] at hact2c
    refine ⟨k, j2', hfk, hkel, hkdis, hphase, hact2, hr1,
      1 + ((logTrial c b1 t1 j1').jumpers.filter (fun x => Key.lt x.key k.key)).length, ?_⟩
    rw [hr1, hs2, ← hact2c]

/-- **Trials of different athletes commute.**  From a state with the invariants of every reachable state: if
    `b1`'s trial and then `b2`'s trial are accepted, so are they in the other order, and the outcomes are the same
    competition up to the order of the ranked list and of the log. -/
theorem trial_commute (c : Comp) (hw : WF c) (hf : AllFlags c) (hwon : WonInv c)
    (hdr : c.phase = .drawn → ∀ j ∈ c.jumpers, j.eliminated = true)
    (b1 b2 : Nat) (t1 t2 : Trial) (hne : b1 ≠ b2)
    (h1 : (step c (.trial b1 t1)).2 = .ok)
    (h2 : (step (step c (.trial b1 t1)).1 (.trial b2 t2)).2 = .ok) :
    (step c (.trial b2 t2)).2 = .ok ∧ (step (step c (.trial b2 t2)).1 (.trial b1 t1)).2 = .ok ∧
    SameButRanked (step (step c (.trial b1 t1)).1 (.trial b2 t2)).1 (step (step c (.trial b2 t2)).1 (.trial b1 t1)).1 := by
  obtain ⟨j1, j1', hf1, ha1, hh, hact1, hs1⟩ := accepted_trial c b1 t1 h1
  rw [hs1] at h2 ⊢
  simp only at h2 ⊢
  obtain ⟨j2, j2', hf2, he2, hd2, hphase, hact2, hr1, p, hs12⟩ :=
    second_trial_facts c hw hf hwon hdr b1 b2 t1 t2 hne j1 j1' hf1 ha1 hact1 h2
  have ha2 : trialAllowed c j2 = true := by unfold trialAllowed; rcases hphase with h | h <;> simp [h]
  have hs2 := trial_accepts c b2 t2 j2 j2' hf2 ha2 hh hact2
  obtain ⟨hm1, hb1⟩ := find_some_mem c b1 j1 hf1
  obtain ⟨he1, hd1, _⟩ := act_some j1 j1' _ _ t1 hact1
  obtain ⟨hm2, hb2⟩ := find_some_mem c b2 j2 hf2
  have hb1' : j1'.bib = b1 := by rw [act_core j1 j1' _ _ t1 hact1, actCore_bib, hb1]
  have hb2' : j2'.bib = b2 := by rw [act_core j2 j2' _ _ t2 hact2, actCore_bib, hb2]
  have hwL1 : WF (logTrial c b1 t1 j1') :=
    WF_of_same_bibs c (logTrial c b1 t1 j1') (by simp [update_bibs]) (List.Perm.refl _) hw
  have hwL2 : WF (logTrial c b2 t2 j2') :=
    WF_of_same_bibs c (logTrial c b2 t2 j2') (by simp [update_bibs]) (List.Perm.refl _) hw
  have hj1L2 : j1 ∈ (logTrial c b2 t2 j2').jumpers := by
    simp only [logTrial_jumpers]
    exact mem_update_other c j2' j1 hm1 (by rw [hb1, hb2']; exact hne)
  have hr2 : rank (logTrial c b2 t2 j2') = rankj (logTrial c b2 t2 j2') :=
    rank_eq_rankj _ hwL2 j1 hj1L2 he1 hd1 (hf j1 hm1)
  -- the second call of the other order
  have hfind1 : (rankj (logTrial c b2 t2 j2')).find b1 =
      some { j1 with place := 1 + ((logTrial c b2 t2 j2').jumpers.filter (fun x => Key.lt x.key j1.key)).length } := by
    rw [rankj_find _ hwL2]
    have : (logTrial c b2 t2 j2').find b1 = some j1 := by
      show (c.update j2').find b1 = some j1
      rw [update_find_other c j2' b1 (by rw [hb2']; exact fun e => hne e.symm)]; exact hf1
    rw [this]; rfl
  have hh2 : (rankj (logTrial c b2 t2 j2')).heights = c.heights := (rankj_frame _).2.1
  have hp2 : (rankj (logTrial c b2 t2 j2')).phase = c.phase := (rankj_frame _).2.2.1
  have hp1 : (rankj (logTrial c b1 t1 j1')).phase = c.phase := (rankj_frame _).2.2.1
  have hh1 : (rankj (logTrial c b1 t1 j1')).heights = c.heights := (rankj_frame _).2.1
  have hs21 := trial_accepts (rankj (logTrial c b2 t2 j2')) b1 t1 _
    { j1' with place := 1 + ((logTrial c b2 t2 j2').jumpers.filter (fun x => Key.lt x.key j1.key)).length } hfind1
    (by unfold trialAllowed; rw [hp2]; rcases hphase with h | h <;> simp [h])
    (by rw [hh2]; exact hh)
    (by rw [act_place, hh2, hact1]; rfl)
  rw [hs2]
  simp only
  rw [hr2, hs21, hs12]
  refine ⟨by first | trivial | rfl, by first | trivial | rfl, ?_⟩
  simp only
  apply rank_modPlaces
  · exact WF_of_same_bibs (rankj (logTrial c b1 t1 j1')) (logTrial (rankj (logTrial c b1 t1 j1')) b2 t2 _)
      (by simp [update_bibs]) (List.Perm.refl _) (rankj_WF _ hwL1)
  · refine ⟨?_, ?_, ?_, ?_⟩
    · simp only [logTrial_jumpers]
      rw [two_updates_noPlace c (logTrial c b1 t1 j1') hwL1 j1' _ rfl (by simp only [hb1', hb2']; exact hne),
        two_updates_noPlace c (logTrial c b2 t2 j2') hwL2 j2' _ rfl (by simp only [hb1', hb2']; exact fun e => hne e.symm)]
      apply List.map_congr_left
      intro k _
      have hneb : j1'.bib ≠ j2'.bib := by rw [hb1', hb2']; exact hne
      simp only [noPlace_setplace]
      by_cases e1 : k.bib = j1'.bib
      · have h1 : (k.bib == j1'.bib) = true := by simpa using e1
        have h2 : (k.bib == j2'.bib) = false := by rw [e1]; simpa using hneb
        simp only [h1, h2, if_true, Bool.false_eq_true, if_false]
      · have h1 : (k.bib == j1'.bib) = false := by simpa using e1
        simp only [h1, Bool.false_eq_true, if_false]
    · simp only [logTrial_heights, hh1, hh2]
    · simp only [logTrial_phase, hp1, hp2]
    · simp only [logTrial_ranked, rankj_ranked_list]
      exact (sortRanked_perm _ _).trans (sortRanked_perm _ _).symm

/-! ## `WonInv` is an invariant of `step` -/

def aliveN (c : Comp) : Nat := (c.jumpers.filter (fun j => !j.eliminated)).length

theorem aliveN_map_le (l : List Jumper) (f : Jumper → Jumper) (h : ∀ k ∈ l, (f k).eliminated = false → k.eliminated = false) :
    ((l.map f).filter (fun j => !j.eliminated)).length ≤ (l.filter (fun j => !j.eliminated)).length := by
  induction l with
  | nil => simp
  | cons a rest ih =>
    have ih' := ih (fun k hk => h k (by simp [hk]))
    simp only [List.map_cons, List.filter_cons]
    cases hfa : (f a).eliminated with
    | true => simp only [Bool.not_true, Bool.false_eq_true, if_false]; split <;> simp <;> omega
    | false =>
      have := h a (by simp) hfa
      simp only [this, Bool.not_false, if_true, List.length_cons]
      omega

theorem aliveN_map_eq (l : List Jumper) (f : Jumper → Jumper) (h : ∀ k, (f k).eliminated = k.eliminated) :
    ((l.map f).filter (fun j => !j.eliminated)).length = (l.filter (fun j => !j.eliminated)).length := by
  rw [List.filter_map, List.length_map]
  congr 1
  apply List.filter_congr
  intro k _
  simp [h k]

theorem aliveN_rankj (c : Comp) (hw : WF c) : aliveN (rankj c) = aliveN c := by
  unfold aliveN
  rw [rankj_jumpers c hw]
  exact aliveN_map_eq _ _ (fun _ => rfl)

theorem aliveN_update_le (c : Comp) (hw : WF c) (b : Nat) (j j' : Jumper) (hf : c.find b = some j)
    (he : j.eliminated = false) (hb : j'.bib = b) : aliveN (c.update j') ≤ aliveN c := by
  unfold aliveN Comp.update
  simp only
  apply aliveN_map_le
  intro k hk hfk
  split at hfk
  · next e =>
    have : k = j := bib_inj c.jumpers hw.1 k j hk (find_some_mem c b j hf).1
      (by rw [(find_some_mem c b j hf).2, ← hb]; simpa using e)
    rw [this]; exact he
  · exact hfk

theorem step_WonInv (c : Comp) (op : Op) (hw : WF c) (h : WonInv c) : WonInv (step c op).1 := by
  cases op with
  | add b =>
    rw [step_add]
    split
    · next hc => intro hp; simp [addResult, hc.1] at hp
    · exact h
  | bar x =>
    rw [step_bar]
    split
    · intro hp
      simp only [barResult] at hp ⊢
      have hcw : c.phase = .won := by
        split at hp
        · cases hp
        · exact hp
      have := h hcw
      rw [aliveN_map_eq _ _ (fun k => by split <;> rfl)]
      exact this
    · exact h
  | trial b t =>
    rcases step_trial c b t with ⟨j, j', hf, _, _, hact, hs⟩ | ⟨h1, _⟩
    · rw [hs]
      show WonInv (rank (logTrial c b t j'))
      obtain ⟨he, _, _⟩ := act_some j j' _ _ t hact
      have hbj : j'.bib = b := by rw [act_core j j' _ _ t hact, actCore_bib, (find_some_mem c b j hf).2]
      have hwL : WF (logTrial c b t j') :=
        WF_of_same_bibs c (logTrial c b t j') (by simp [update_bibs]) (List.Perm.refl _) hw
      have hwR := rankj_WF _ hwL
      have hpR : (rankj (logTrial c b t j')).phase = c.phase := (rankj_frame _).2.2.1
      have hle : aliveN (rankj (logTrial c b t j')) ≤ aliveN c := by
        rw [aliveN_rankj _ hwL]
        exact aliveN_update_le c hw b j j' hf he hbj
      rw [rank_eq_tail]
      generalize rankj (logTrial c b t j') = cr at *
      unfold rankTail
      cases cr.ranked with
      | nil => intro hp; rw [hpR] at hp; exact Nat.le_trans hle (h hp)
      | cons r0 rest =>
        simp only
        cases hfl : cr.jumpers.filter (fun j => !j.eliminated) with
        | nil =>
          simp only
          split
          · -- a tie: jump-off or draw
            intro hp
            exfalso
            unfold rankTie at hp
            simp only at hp
            split at hp
            · rw [(rankj_frame _).2.2.1] at hp; cases hp
            · cases hp
          · intro hp
            unfold rankLeader at hp ⊢
            split at hp
            · split at hp
              · next hc =>
                exfalso
                rw [(rankj_frame _).2.2.1] at hp
                simp only [update_phase] at hp
                simp [hp] at hc
              · cases hp
            · rw [hfl]; simp
        | cons w tl =>
          cases tl with
          | nil =>
            simp only
            intro _
            unfold rankOneLeft
            split
            · simp only; rw [hfl]; simp
            · rw [hfl]; simp
          | cons w2 tl2 =>
            simp only
            intro hp
            rw [hpR] at hp
            exact Nat.le_trans hle (h hp)
    · rw [h1]; exact h

end AthlibVerif.HJ
