import AthlibVerif.Lemmas.RegexSound
/-!
# Image of a regular language under a symbol map (positive fragment)

`mapSyms f n r` replaces every class of `r` by its image under `f` (symbols `0..n`).  For expressions
without `and`/`not`: if `w ∈ L(r)` then `w.map f ∈ L(mapSyms f n r)`.  Used for "upper-casing an accepted
event code gives an accepted event code" (C07): `L(mapSyms upper EVENT) ⊆ L(EVENT)` is kernel-decided.
-/
namespace AthlibVerif.RE

def imageMask (f : Nat → Nat) (n : Nat) (m : Nat) : Nat :=
  (List.range (n + 1)).foldl (fun acc x => if m.testBit x then acc ||| (1 <<< f x) else acc) 0

def mapSyms (f : Nat → Nat) (n : Nat) : RE → RE
  | empty => empty
  | eps => eps
  | cls m => cls (imageMask f n m)
  | cat a b => cat (mapSyms f n a) (mapSyms f n b)
  | alt a b => alt (mapSyms f n a) (mapSyms f n b)
  | star a => star (mapSyms f n a)
  | and a b => and (mapSyms f n a) (mapSyms f n b)
  | not a => not (mapSyms f n a)

/-- no intersection / complement inside -/
def positive : RE → Bool
  | empty => true | eps => true | cls _ => true
  | cat a b => positive a && positive b
  | alt a b => positive a && positive b
  | star a => positive a
  | and _ _ => false
  | not _ => false

theorem testBit_foldl_or (f : Nat → Nat) (m : Nat) (l : List Nat) (acc : Nat) (x : Nat)
    (hx : x ∈ l) (hm : m.testBit x = true) :
    (l.foldl (fun acc x => if m.testBit x then acc ||| (1 <<< f x) else acc) acc).testBit (f x) = true := by
  induction l generalizing acc with
  | nil => cases hx
  | cons y ys ih =>
    simp only [List.foldl_cons]
    rcases List.mem_cons.1 hx with rfl | hx
    · -- the bit is set now and never cleared
      rw [hm]
      simp only [if_true]
      have keep : ∀ (l : List Nat) (a : Nat), a.testBit (f x) = true →
          (l.foldl (fun acc x => if m.testBit x then acc ||| (1 <<< f x) else acc) a).testBit (f x) = true := by
        intro l
        induction l with
        | nil => intro a h; exact h
        | cons z zs ihz =>
          intro a h
          simp only [List.foldl_cons]
          apply ihz
          split
          · simp [Nat.testBit_or, h]
          · exact h
      apply keep
      simp [Nat.testBit_or, Nat.testBit_shiftLeft]
    · exact ih _ hx

theorem imageMask_testBit (f : Nat → Nat) (n m x : Nat) (hx : x ≤ n) (hm : m.testBit x = true) :
    (imageMask f n m).testBit (f x) = true := by
  unfold imageMask
  exact testBit_foldl_or f m _ 0 x (List.mem_range.2 (Nat.lt_succ_of_le hx)) hm

theorem starL_map (f : Nat → Nat) (L L' : List Nat → Prop) (h : ∀ u, L u → L' (u.map f)) :
    ∀ w, StarL L w → StarL L' (w.map f) := by
  intro w hw
  induction hw with
  | nil => exact StarL.nil
  | cons u v hne hu _ ih =>
    rw [List.map_append]
    exact StarL.cons _ _ (by simpa using hne) (h u hu) ih

/-- the image of an accepted word is accepted by the mapped expression (positive fragment) -/
theorem lang_mapSyms (f : Nat → Nat) (n : Nat) (r : RE) (hp : positive r = true) :
    ∀ w, InAlpha n w → lang r w → lang (mapSyms f n r) (w.map f) := by
  induction r with
  | empty => intro w _ h; exact h.elim
  | eps => intro w _ h; simp only [lang] at h; subst h; simp [mapSyms, lang]
  | cls m =>
    intro w hw h
    simp only [lang] at h
    obtain ⟨x, rfl, hm⟩ := h
    simp only [mapSyms, lang, List.map_cons, List.map_nil]
    exact ⟨f x, rfl, imageMask_testBit f n m x (hw x (by simp)) hm⟩
  | cat a b iha ihb =>
    intro w hw h
    simp only [positive, Bool.and_eq_true] at hp
    simp only [lang] at h
    obtain ⟨u, v, rfl, hu, hv⟩ := h
    simp only [mapSyms, lang, List.map_append]
    exact ⟨u.map f, v.map f, rfl, iha hp.1 u (fun x hx => hw x (by simp [hx])) hu,
      ihb hp.2 v (fun x hx => hw x (by simp [hx])) hv⟩
  | alt a b iha ihb =>
    intro w hw h
    simp only [positive, Bool.and_eq_true] at hp
    simp only [lang] at h
    simp only [mapSyms, lang]
    rcases h with h | h
    · exact Or.inl (iha hp.1 w hw h)
    · exact Or.inr (ihb hp.2 w hw h)
  | star a iha =>
    intro w hw h
    simp only [positive] at hp
    simp only [lang] at h
    simp only [mapSyms, lang]
    -- every factor of a word over the alphabet is over the alphabet
    have key : ∀ w, StarL (lang a) w → InAlpha n w → StarL (lang (mapSyms f n a)) (w.map f) := by
      intro w hs
      induction hs with
      | nil => intro _; exact StarL.nil
      | cons u v hne hu _ ih =>
        intro hw'
        rw [List.map_append]
        exact StarL.cons _ _ (by simpa using hne) (iha hp u (fun x hx => hw' x (by simp [hx])) hu)
          (ih (fun x hx => hw' x (by simp [hx])))
    exact key w h hw
  | and a b _ _ => simp [positive] at hp
  | not a _ => simp [positive] at hp

end AthlibVerif.RE
