import AthlibVerif.Lemmas.DistToken
/-!
# The leg of a relay code handed to `get_distance` by the sort key

`discipline_sort_key` upper-cases the leg (`100H`, `1.5K`, `RELAY`, `DMR`, …) and asks `get_distance` for it.
The leg contains no white space and no `x`, so — upper-cased — it has a token and that token is not itself a relay:
the call stays outside the relay branch of `get_distance` and returns.
-/
namespace AthlibVerif
namespace Codes
open RE GRE

def noXMask : Nat := maskOf ((List.range (Gen.nsym + 1)).filter (fun s => s != symOf 'x' && s != symOf 'X'))
def solidMask : Nat := maskOf ((List.range (Gen.nsym + 1)).filter (fun s => !Gen.spaceMask.testBit s))
/-- words without the symbols of `x` / `X` -/
def noX : RE := .star (.cls noXMask)
/-- non-empty words without white space -/
def solid : RE := plusCls solidMask

/-- decided on the regenerated patterns and alphabet -/
def relayLegOK : Bool :=
  singletonSym 'x' && singletonSym 'X' &&
  -- every relay code contains an `x` or an `X`
  RE.isEmptyLang Gen.nsym 100000 (RE.and Gen.PAT_RELAYS noX) &&
  -- the leg group always takes part, has no `$`, and captures a non-empty text without white space, `x`, `X`
  mandatory [2] (pat "PAT_RELAYS") &&
  (grpBodies 2 (pat "PAT_RELAYS")).all (fun b => noEol b &&
    RE.isEmptyLang Gen.nsym 100000 (RE.and (toRE [] b) (RE.not (RE.and noX solid)))) &&
  -- lower-case letters and their capitals are not white space; upper-casing only produces `X` from `x`
  (List.range 26).all (fun k => !isSpaceC (Char.ofNat (97 + k)) && !isSpaceC (upperC (Char.ofNat (97 + k))) &&
    upperC (Char.ofNat (97 + k)) != 'x' && (upperC (Char.ofNat (97 + k)) != 'X' || k == 23))

theorem lower_is_ofNat (c : Char) (h : (97 ≤ c.toNat && c.toNat ≤ 122) = true) : ∃ k, k < 26 ∧ c = Char.ofNat (97 + k) := by
  simp only [Bool.and_eq_true, decide_eq_true_eq] at h
  refine ⟨c.toNat - 97, by omega, ?_⟩
  have : 97 + (c.toNat - 97) = c.toNat := by omega
  rw [this, Char.ofNat_toNat]

theorem upperC_of_not_lower (c : Char) (h : (97 ≤ c.toNat && c.toNat ≤ 122) = false) : upperC c = c := by
  unfold upperC; simp [h]

/-- white space stays white space under upper-casing, and `x`/`X` only come from `x`/`X` -/
theorem upper_facts (hO : relayLegOK = true) (c : Char) :
    isSpaceC (upperC c) = isSpaceC c ∧ (upperC c = 'X' → c = 'x' ∨ c = 'X') ∧ upperC c ≠ 'x' := by
  simp only [relayLegOK, Bool.and_eq_true, List.all_eq_true, List.mem_range, Bool.not_eq_true', bne_iff_ne, ne_eq,
    Bool.or_eq_true, beq_iff_eq] at hO
  obtain ⟨_, hletters⟩ := hO
  cases hl : (97 ≤ c.toNat && c.toNat ≤ 122) with
  | true =>
    obtain ⟨k, hk, rfl⟩ := lower_is_ofNat c hl
    obtain ⟨⟨⟨h1, h2⟩, h3⟩, h4⟩ := hletters k hk
    refine ⟨by rw [h1, h2], ?_, h3⟩
    intro hX
    rcases h4 with h4 | h4
    · exact (h4 hX).elim
    · subst h4; left; rfl
  | false =>
    rw [upperC_of_not_lower c hl]
    refine ⟨rfl, fun h => Or.inr h, ?_⟩
    intro hx; subst hx
    simp at hl

theorem testBit_noXMask (x : Nat) : noXMask.testBit x = true ↔ x ≤ Gen.nsym ∧ x ≠ symOf 'x' ∧ x ≠ symOf 'X' := by
  unfold noXMask
  rw [testBit_maskOf]
  simp only [List.contains_eq_mem, List.mem_filter, List.mem_range, Bool.and_eq_true, bne_iff_ne, ne_eq,
    decide_eq_true_eq]
  constructor
  · rintro ⟨h1, h2, h3⟩; exact ⟨by omega, h2, h3⟩
  · rintro ⟨h1, h2, h3⟩; exact ⟨by omega, h2, h3⟩

theorem testBit_solidMask (x : Nat) : solidMask.testBit x = true ↔ x ≤ Gen.nsym ∧ Gen.spaceMask.testBit x = false := by
  unfold solidMask
  rw [testBit_maskOf]
  simp only [List.contains_eq_mem, List.mem_filter, List.mem_range, Bool.not_eq_true', decide_eq_true_eq]
  constructor
  · rintro ⟨h1, h2⟩; exact ⟨by omega, h2⟩
  · rintro ⟨h1, h2⟩; exact ⟨by omega, h2⟩

theorem noX_chars (t : Str) (h : RE.lang noX (symsOf t)) : ∀ c ∈ t, c ≠ 'x' ∧ c ≠ 'X' := by
  intro c hc
  have := lang_star_cls _ _ h (symOf c) (by simp only [symsOf, List.mem_map]; exact ⟨c, hc, rfl⟩)
  rw [testBit_noXMask] at this
  exact ⟨fun e => this.2.1 (by rw [e]), fun e => this.2.2 (by rw [e])⟩

theorem lang_noX (hsx : singletonSym 'x' = true) (hsX : singletonSym 'X' = true) (t : Str)
    (h : ∀ c ∈ t, c ≠ 'x' ∧ c ≠ 'X') : RE.lang noX (symsOf t) := by
  apply starL_of_all
  intro x hx
  simp only [symsOf, List.mem_map] at hx
  obtain ⟨c, hc, rfl⟩ := hx
  rw [testBit_noXMask]
  exact ⟨symOfNat_le _, fun e => (h c hc).1 (eq_of_symOf_eq 'x' hsx c e), fun e => (h c hc).2 (eq_of_symOf_eq 'X' hsX c e)⟩

theorem solid_chars (t : Str) (h : RE.lang solid (symsOf t)) : t ≠ [] ∧ ∀ c ∈ t, isSpaceC c = false := by
  obtain ⟨hne, hall⟩ := lang_plusCls _ _ h
  refine ⟨by intro h0; subst h0; exact hne rfl, ?_⟩
  intro c hc
  have := hall (symOf c) (by simp only [symsOf, List.mem_map]; exact ⟨c, hc, rfl⟩)
  rw [testBit_solidMask] at this
  exact this.2

/-- **the sort key's `get_distance` call for the leg of a relay always returns** -/
theorem relay_leg_ok (hT : digitTableOK = true) (hL : leadingOK = true) (hO : relayLegOK = true)
    (hrel : tieOK (pat "PAT_RELAYS") Gen.PAT_RELAYS = true)
    (d : Str) (rc : Caps) (hm : pyMatch "PAT_RELAYS" d = some rc) (fuel : Nat) :
    ∃ r, getDistance (fuel + 1) (upper ((group d rc 2).getD [])) = .ok r := by
  have hO' := hO
  simp only [relayLegOK, Bool.and_eq_true, List.all_eq_true] at hO'
  obtain ⟨⟨⟨⟨⟨hsx, hsX⟩, hrx⟩, hmand⟩, hbodies⟩, _⟩ := hO'
  obtain ⟨id, hid, t, hg⟩ := group_mandatory "PAT_RELAYS" [2] hmand d rc hm
  simp only [List.mem_cons, List.mem_nil_iff, or_false] at hid
  subst hid
  have hne : (grpBodies 2 (pat "PAT_RELAYS")).all noEol = true :=
    List.all_eq_true.2 (fun b hb => (hbodies b hb).1)
  obtain ⟨body, hb, hl⟩ := group_lang "PAT_RELAYS" d rc hm 2 t hg hne
  have hsub := RE.subset_of_check Gen.nsym 100000 _ _ (hbodies body hb).2 _ (symsOf_inAlpha t) hl
  simp only [RE.lang] at hsub
  obtain ⟨hnoX, hsolid⟩ := hsub
  have hx := noX_chars t hnoX
  obtain ⟨htne, hsp⟩ := solid_chars t hsolid
  rw [hg]
  simp only [Option.getD_some]
  -- the upper-cased leg: no white space, no x / X
  have hup : ∀ c ∈ upper t, isSpaceC c = false ∧ c ≠ 'x' ∧ c ≠ 'X' := by
    intro c hc
    simp only [upper, List.mem_map] at hc
    obtain ⟨a, ha, rfl⟩ := hc
    obtain ⟨f1, f2, f3⟩ := upper_facts hO a
    refine ⟨by rw [f1]; exact hsp a ha, f3, ?_⟩
    intro hX
    rcases f2 hX with e | e
    · exact (hx a ha).1 e
    · exact (hx a ha).2 e
  have hns : ∃ c ∈ upper t, isSpaceC c = false := by
    cases t with
    | nil => exact (htne rfl).elim
    | cons a as => exact ⟨upperC a, by simp [upper], (hup _ (by simp [upper])).1⟩
  obtain ⟨tok, htok⟩ := firstToken_ok (upper t) hns
  obtain ⟨pre, post, hsplit, _, _, _, _⟩ := firstToken_split (upper t) tok htok
  have htokx : ∀ c ∈ tok, c ≠ 'x' ∧ c ≠ 'X' := by
    intro c hc
    have : c ∈ upper t := by rw [hsplit]; simp [hc]
    exact (hup c this).2
  have hnr : pyMatch "PAT_RELAYS" tok = none := by
    cases hm2 : pyMatch "PAT_RELAYS" tok with
    | none => rfl
    | some rc2 =>
      have : Matches Gen.PAT_RELAYS tok := (pyMatch_iff _ _ hrel tok).1 (by rw [hm2]; rfl)
      exact (RE.disjoint_of_check Gen.nsym 100000 _ _ hrx _ (symsOf_inAlpha tok)
        ⟨this, lang_noX hsx hsX tok htokx⟩).elim
  exact getDistance_nonrelay_ok hT hL fuel (upper t) tok htok hnr

end Codes
end AthlibVerif
