import AthlibVerif.Model.Uka
import AthlibVerif.Lemmas.Cal
/-!
Helper lemmas for C13 (core Lean): the spec age is the floor age and is characterised by
anniversaries; `completedYears` differs from it only below zero; monotonicity of the two decision
lists; relations between the ages on the cut-off dates.
-/
namespace AthlibVerif.Uka
open AthlibVerif.Cal

theorem rank_injective (g h : Group) (e : g.rank = h.rank) : g = h := by
  cases g <;> cases h <;> simp [Group.rank] at e ⊢ <;> omega

/-- the yyyymmdd formula is the floor age -/
theorem ageOn_eq_floorYears (b on : Date) (hb : b.valid) (ho : on.valid) :
    Spec.ageOn b on = floorYears b on := by
  have db := daysIn_le b.y b.m
  have d1 := daysIn_le on.y on.m
  unfold Spec.ageOn floorYears Date.valid at *
  generalize isLeap on.y = L at *
  cases L <;> simp only [Bool.not_false, Bool.not_true, and_true, and_false, if_false, Bool.false_eq_true] <;>
    (repeat' split) <;> omega

theorem valid_feb29 (b : Date) (hb : b.valid) : ¬ (b.m = 2 ∧ b.d = 29) ∨ isLeap b.y = true := by
  by_cases hm : b.m = 2 ∧ b.d = 29
  · right
    unfold Date.valid at hb
    rw [hm.1, daysIn_feb] at hb
    cases h : isLeap b.y
    · rw [h] at hb; simp at hb; omega
    · rfl
  · left; exact hm

theorem floorYears_neg (b on : Date) (hb : b.valid) (h : ¬ b.le on) : floorYears b on < 0 := by
  by_cases hy : on.y = b.y
  · have hl := valid_feb29 b hb
    unfold floorYears Date.le at *
    rw [hy]
    generalize isLeap b.y = L at *
    cases L <;> simp only [Bool.not_false, Bool.not_true, and_true, and_false, if_false, Bool.false_eq_true,
      or_false, or_true] at * <;> (repeat' split) <;> omega
  · have : floorYears b on ≤ on.y - b.y := by unfold floorYears; simp only []; split <;> omega
    unfold Date.le at h
    omega

/-- dateutil's years and the spec age agree from the birth on; before the birth both are `≤ 0`
    (dateutil truncates toward zero, the spec floors) -/
theorem age_cases (b on : Date) (hb : b.valid) (ho : on.valid) :
    completedYears b on = Spec.ageOn b on ∨ (completedYears b on ≤ 0 ∧ Spec.ageOn b on < 0) := by
  rw [ageOn_eq_floorYears b on hb ho]
  by_cases h : b.le on
  · left; exact completedYears_of_le h
  · right; exact ⟨completedYears_nonpos b on h, floorYears_neg b on hb h⟩

/-- "aged n" by anniversaries is the floor age -/
theorem floorYears_iff_aged (b on : Date) (n : Int) :
    Spec.Aged b on n ↔ floorYears b on = n := by
  unfold Spec.Aged Spec.anniv floorYears Date.le Date.lt at *
  by_cases h1 : on.y = b.y + n
  · have e : isLeap (b.y + n) = isLeap on.y := by rw [h1]
    rw [e]
    generalize isLeap on.y = L
    generalize isLeap (b.y + (n + 1)) = L'
    cases L <;> cases L' <;>
      simp only [Bool.not_false, Bool.not_true, and_true, and_false, if_false, Bool.false_eq_true] <;>
      (repeat' split) <;> omega
  · by_cases h2 : on.y = b.y + (n + 1)
    · have e : isLeap (b.y + (n + 1)) = isLeap on.y := by rw [h2]
      rw [e]
      generalize isLeap on.y = L
      generalize isLeap (b.y + n) = L'
      cases L <;> cases L' <;>
        simp only [Bool.not_false, Bool.not_true, and_true, and_false, if_false, Bool.false_eq_true] <;>
        (repeat' split) <;> omega
    · generalize isLeap on.y = L
      generalize isLeap (b.y + n) = L'
      generalize isLeap (b.y + (n + 1)) = L''
      simp only []
      (repeat' split) <;> omega

/-- `Spec.ageOn b on = n` exactly when the n-th anniversary has been reached and the next has not -/
theorem ageOn_iff_aged (b on : Date) (n : Int) (hb : b.valid) (ho : on.valid) :
    Spec.Aged b on n ↔ Spec.ageOn b on = n := by
  rw [ageOn_eq_floorYears b on hb ho]; exact floorYears_iff_aged b on n

/-! ## the decision lists as sums of threshold indicators -/

theorem ind_mono {p q : Prop} [Decidable p] [Decidable q] {k k' : Nat} (h : p → q) (hk : k ≤ k') :
    (if p then k else 0) ≤ (if q then k' else 0) := by
  by_cases hp : p
  · rw [if_pos hp, if_pos (h hp)]; exact hk
  · rw [if_neg hp]; exact Nat.zero_le _

theorem ind_congr {p q : Prop} [Decidable p] [Decidable q] {k k' : Nat} (h : p ↔ q) (hk : p → k = k') :
    (if p then k else 0) = (if q then k' else 0) := by
  by_cases hp : p
  · rw [if_pos hp, if_pos (h.1 hp)]; exact hk hp
  · rw [if_neg hp, if_neg (fun hq => hp (h.2 hq))]

theorem add_congr {a b c d : Nat} (h1 : a = c) (h2 : b = d) : a + b = c + d := by omega

theorem vetBand_mono {a a' : Int} (h : a ≤ a') : vetBand a ≤ vetBand a' := by unfold vetBand; omega

/-- rank of the TF decision -/
def tfRank (a8 a12 aD : Int) (v u : Bool) : Nat :=
  (if ¬ (u ∧ a8 < 9) then 1 else 0) + (if 11 ≤ a8 then 1 else 0) + (if 13 ≤ a8 then 1 else 0)
  + (if 15 ≤ a8 then 1 else 0) + (if 17 ≤ a8 then 1 else 0) + (if 17 ≤ a8 ∧ 20 ≤ a12 then 1 else 0)
  + (if v ∧ 17 ≤ a8 ∧ 20 ≤ a12 ∧ 35 ≤ aD then 1 + vetBand aD else 0)

/-- rank of the road / cross-country decision -/
def xcRank (a8 aD : Int) (v u : Bool) : Nat :=
  (if ¬ (u ∧ aD < 9) then 1 else 0) + (if 11 ≤ aD then 1 else 0) + (if 11 ≤ aD ∧ 13 ≤ a8 then 1 else 0)
  + (if 11 ≤ aD ∧ 15 ≤ a8 then 1 else 0) + (if 11 ≤ aD ∧ 17 ≤ a8 then 1 else 0)
  + (if 11 ≤ aD ∧ 20 ≤ a8 then 1 else 0)
  + (if v ∧ 11 ≤ aD ∧ 20 ≤ a8 ∧ 35 ≤ aD then 1 + vetBand aD else 0)

theorem bandTf (a : Int) : a < 9 ∨ (9 ≤ a ∧ a < 11) ∨ (11 ≤ a ∧ a < 13) ∨ (13 ≤ a ∧ a < 15) ∨
    (15 ≤ a ∧ a < 17) ∨ 17 ≤ a := by omega

theorem bandXc (a : Int) : a < 10 ∨ (10 ≤ a ∧ a < 13) ∨ (13 ≤ a ∧ a < 15) ∨
    (15 ≤ a ∧ a < 17) ∨ (17 ≤ a ∧ a < 20) ∨ 20 ≤ a := by omega

theorem bandDay (a : Int) : a < 9 ∨ (9 ≤ a ∧ a < 11) ∨ (11 ≤ a ∧ a < 35) ∨ 35 ≤ a := by omega

/-- decide every `if` whose condition follows (or is refuted) by linear arithmetic from the context -/
macro "uka_decide" : tactic =>
  `(tactic| ((simp (disch := omega) only [if_pos, if_neg, Group.rank, Bool.false_eq_true, false_and, true_and,
      and_false, and_true, if_false, if_true, not_false_eq_true, not_true_eq_false, Nat.add_zero, Nat.zero_add]) <;>
      (try omega)))

theorem tfOfAges_rank (a8 a12 aD : Int) (v u : Bool) :
    (tfOfAges a8 a12 aD v u).rank = tfRank a8 a12 aD v u := by
  unfold tfOfAges tfRank
  rcases bandTf a8 with h | h | h | h | h | h <;>
  rcases (by omega : a12 < 20 ∨ 20 ≤ a12) with h2 | h2 <;>
  rcases (by omega : aD < 35 ∨ 35 ≤ aD) with h3 | h3 <;>
  cases u <;> cases v <;> uka_decide

theorem xcOfAges_rank (a8 aD : Int) (v u : Bool) (hrel : 11 ≤ aD → 10 ≤ a8) :
    (xcOfAges a8 aD v u).rank = xcRank a8 aD v u := by
  unfold xcOfAges xcRank
  rcases bandXc a8 with h | h | h | h | h | h <;>
  rcases bandDay aD with h3 | h3 | h3 | h3 <;>
  cases u <;> cases v <;> uka_decide

theorem tfRank_mono (a8 a12 aD a8' a12' aD' : Int) (v u : Bool)
    (h8 : a8 ≤ a8') (h12 : a12 ≤ a12') (hD : aD ≤ aD') :
    tfRank a8 a12 aD v u ≤ tfRank a8' a12' aD' v u := by
  unfold tfRank
  have hb := vetBand_mono hD
  cases u <;> cases v <;>
    simp only [Bool.false_eq_true, false_and, true_and, not_false_eq_true, if_true, if_false,
      Nat.add_zero] <;>
    (repeat' apply Nat.add_le_add) <;> (try apply ind_mono) <;> omega

theorem xcRank_mono (a8 aD a8' aD' : Int) (v u : Bool) (h8 : a8 ≤ a8') (hD : aD ≤ aD') :
    xcRank a8 aD v u ≤ xcRank a8' aD' v u := by
  unfold xcRank
  have hb := vetBand_mono hD
  cases u <;> cases v <;>
    simp only [Bool.false_eq_true, false_and, true_and, not_false_eq_true, if_true, if_false,
      Nat.add_zero] <;>
    (repeat' apply Nat.add_le_add) <;> (try apply ind_mono) <;> omega

end AthlibVerif.Uka
