import AthlibVerif.Model.Cal
/-!
Calendar lemmas for all years (core Lean, `omega` after splitting the leap flags).
-/
namespace AthlibVerif.Cal

theorem daysIn_le (y : Int) (m : Nat) : daysIn y m ≤ 31 ∧ (m = 2 → daysIn y m ≤ 29) := by
  unfold daysIn; split <;> (try split) <;> simp_all

theorem daysIn_feb (y : Int) : daysIn y 2 = if isLeap y then 29 else 28 := by
  simp [daysIn]

theorem Date.le_refl (a : Date) : a.le a := by unfold Date.le; omega

theorem Date.le_trans {a b c : Date} (h1 : a.le b) (h2 : b.le c) : a.le c := by
  unfold Date.le at *; omega

theorem Date.lt_iff_not_le (a b : Date) : a.lt b ↔ ¬ b.le a := by
  unfold Date.lt Date.le; omega

theorem Date.le_of_lt {a b : Date} (h : a.lt b) : a.le b := by
  unfold Date.lt at h; unfold Date.le; omega

/-- the two branches of `completedYears` -/
def floorYears (birth on : Date) : Int :=
  let bd := if birth.m = 2 ∧ birth.d = 29 ∧ !isLeap on.y then 28 else birth.d
  on.y - birth.y - (if on.m < birth.m ∨ (on.m = birth.m ∧ on.d < bd) then 1 else 0)
def truncYears (birth on : Date) : Int :=
  on.y - birth.y + (if birth.m < on.m ∨ (birth.m = on.m ∧ birth.d < on.d) then 1 else 0)

theorem completedYears_of_le {b on : Date} (h : b.le on) : completedYears b on = floorYears b on := by
  unfold completedYears floorYears; rw [if_pos h]
theorem completedYears_of_not_le {b on : Date} (h : ¬ b.le on) : completedYears b on = truncYears b on := by
  unfold completedYears truncYears; rw [if_neg h]

theorem floorYears_mono_birth (b1 b2 on : Date) (h1 : b1.valid) (h2 : b2.valid) (h : b1.le b2) :
    floorYears b2 on ≤ floorYears b1 on := by
  have d1 := daysIn_le b1.y b1.m
  have d2 := daysIn_le b2.y b2.m
  unfold floorYears Date.le Date.valid at *
  generalize isLeap on.y = L at *
  cases L <;> simp only [Bool.not_false, Bool.not_true, and_true, and_false, if_false, Bool.false_eq_true] <;>
    (repeat' split) <;> omega

theorem floorYears_nonneg (b on : Date) (h : b.le on) : 0 ≤ floorYears b on := by
  unfold floorYears Date.le at *
  generalize isLeap on.y = L at *
  cases L <;> simp only [Bool.not_false, Bool.not_true, and_true, and_false, if_false, Bool.false_eq_true] <;>
    (repeat' split) <;> omega

theorem truncYears_nonpos (b on : Date) (h : ¬ b.le on) : truncYears b on ≤ 0 := by
  unfold truncYears Date.le at *
  split <;> omega

/-- an earlier birth date never gives a smaller age (any years, any reference date, dateutil's
    convention on both sides of the reference date) -/
theorem completedYears_mono_birth (b1 b2 on : Date) (h1 : b1.valid) (h2 : b2.valid) (h : b1.le b2) :
    completedYears b2 on ≤ completedYears b1 on := by
  by_cases c2 : b2.le on
  · rw [completedYears_of_le c2, completedYears_of_le (Date.le_trans h c2)]
    exact floorYears_mono_birth b1 b2 on h1 h2 h
  · by_cases c1 : b1.le on
    · rw [completedYears_of_le c1, completedYears_of_not_le c2]
      have := floorYears_nonneg b1 on c1
      have := truncYears_nonpos b2 on c2
      omega
    · rw [completedYears_of_not_le c1, completedYears_of_not_le c2]
      unfold truncYears Date.le at *
      (repeat' split) <;> omega

/-- floor bounds when the birth is not after the reference date -/
theorem completedYears_bounds (b on : Date) (h : b.le on) :
    on.y - b.y - 1 ≤ completedYears b on ∧ completedYears b on ≤ on.y - b.y ∧ 0 ≤ completedYears b on := by
  have := floorYears_nonneg b on h
  rw [completedYears_of_le h]
  refine ⟨?_, ?_, this⟩ <;> (unfold floorYears; simp only []; split <;> omega)

/-- born after the reference date: the (truncated) age is never positive -/
theorem completedYears_nonpos (b on : Date) (h : ¬ b.le on) : completedYears b on ≤ 0 := by
  rw [completedYears_of_not_le h]; exact truncYears_nonpos b on h

theorem floorYears_mono_on (b o1 o2 : Date) (hb : b.valid) (h1 : o1.valid) (h2 : o2.valid) (h : o1.le o2) :
    floorYears b o1 ≤ floorYears b o2 := by
  by_cases hy : o1.y = o2.y
  · have db := daysIn_le b.y b.m
    have hl : isLeap o1.y = isLeap o2.y := by rw [hy]
    unfold floorYears Date.le Date.valid at *
    rw [hl]
    generalize isLeap o2.y = L
    cases L <;> simp only [Bool.not_false, Bool.not_true, and_true, and_false, if_false, Bool.false_eq_true] <;>
      (repeat' split) <;> omega
  · have a1 : floorYears b o1 ≤ o1.y - b.y := by unfold floorYears; simp only []; split <;> omega
    have a2 : o2.y - b.y - 1 ≤ floorYears b o2 := by unfold floorYears; simp only []; split <;> omega
    unfold Date.le at h
    omega

/-- a later reference date never gives a smaller age -/
theorem completedYears_mono_on (b o1 o2 : Date) (hb : b.valid) (h1 : o1.valid) (h2 : o2.valid) (h : o1.le o2) :
    completedYears b o1 ≤ completedYears b o2 := by
  by_cases c1 : b.le o1
  · rw [completedYears_of_le c1, completedYears_of_le (Date.le_trans c1 h)]
    exact floorYears_mono_on b o1 o2 hb h1 h2 h
  · by_cases c2 : b.le o2
    · rw [completedYears_of_not_le c1, completedYears_of_le c2]
      have := floorYears_nonneg b o2 c2
      have := truncYears_nonpos b o1 c1
      omega
    · rw [completedYears_of_not_le c1, completedYears_of_not_le c2]
      unfold truncYears Date.le at *
      (repeat' split) <;> omega

theorem Date.succ_valid (a : Date) (h : a.valid) : a.succ.valid := by
  unfold Date.succ Date.valid at *
  split
  · simp only []; omega
  · split
    · simp only [daysIn] at *; (repeat' split) <;> simp_all <;> omega
    · simp only [daysIn] at *; (repeat' split) <;> simp_all <;> omega

theorem Date.lt_succ (a : Date) : a.lt a.succ := by
  unfold Date.succ Date.lt
  (repeat' split) <;> simp <;> omega

end AthlibVerif.Cal
