import AthlibVerif.Lemmas.PerfPlain
/-!
# Reading an `m:ss.cc` result back

The validator prints a time with a minutes field as `"%d:%05.2f"` and then strips trailing zeros and a trailing point
(`1:05.30 → 1:05.3`, `1:05.00 → 1:05`).  For an event between 200 m and 800 m (400 m excepted: it has its own
`63:40` re-reading) none of the colon / stop corrections applies to such a text, the fields parse back to the same
minutes and the same hundredths, and the checks pass again.
-/
namespace AthlibVerif
namespace Codes

theorem natStr_lt10 (n : Nat) (h : n < 10) : natStr n = [digitChar0 n] := by
  unfold natStr
  have h0 : n / 10 = 0 := by omega
  have hm : n % 10 = n := by omega
  simp [natStrAux, h0, hm]

theorem natStr_lt100 (n : Nat) (h1 : 10 ≤ n) (h : n < 100) : natStr n = [digitChar0 (n / 10), digitChar0 (n % 10)] := by
  unfold natStr
  obtain ⟨m, rfl⟩ : ∃ m, n = m + 1 := ⟨n - 1, by omega⟩
  have h0 : ¬ ((m + 1) / 10 = 0) := by omega
  have h2 : (m + 1) / 10 / 10 = 0 := by omega
  have hm : (m + 1) / 10 % 10 = (m + 1) / 10 := by omega
  simp [natStrAux, h0, h2, hm]

theorem digitChar0_eq_zero (d : Nat) (hd : d < 10) : digitChar0 d = '0' ↔ d = 0 := by
  have h : d = 0 ∨ d = 1 ∨ d = 2 ∨ d = 3 ∨ d = 4 ∨ d = 5 ∨ d = 6 ∨ d = 7 ∨ d = 8 ∨ d = 9 := by omega
  rcases h with rfl | rfl | rfl | rfl | rfl | rfl | rfl | rfl | rfl | rfl <;> decide

theorem digitChar0_ne_dot' (d : Nat) (hd : d < 10) : digitChar0 d ≠ '.' := by
  have h : d = 0 ∨ d = 1 ∨ d = 2 ∨ d = 3 ∨ d = 4 ∨ d = 5 ∨ d = 6 ∨ d = 7 ∨ d = 8 ∨ d = 9 := by omega
  rcases h with rfl | rfl | rfl | rfl | rfl | rfl | rfl | rfl | rfl | rfl <;> decide

/-- a positive number is not printed with a leading zero -/
theorem natStrAux_head (fuel n : Nat) (acc : Str) (hn : 0 < n) (hf : n < fuel) :
    ∃ d rest, natStrAux fuel n acc = digitChar0 d :: rest ∧ 0 < d ∧ d < 10 := by
  induction fuel generalizing n acc with
  | zero => omega
  | succ f ih =>
    simp only [natStrAux]
    split
    · next h0 => exact ⟨n % 10, acc, rfl, by omega, by omega⟩
    · next h0 => exact ih (n / 10) _ (by omega) (by omega)

theorem natStr_head (n : Nat) (hn : 0 < n) : ∃ d rest, natStr n = digitChar0 d :: rest ∧ 0 < d ∧ d < 10 :=
  natStrAux_head (n + 1) n [] hn (Nat.lt_succ_self n)

end Codes

namespace Perf
open Codes

/-- `"%05.2f"` of a time below a minute, spelt out -/
theorem fmt52_lt6000 (c : Nat) (hc : c < 6000) :
    fmt52 c = [digitChar0 (c / 1000), digitChar0 (c / 100 % 10), '.', digitChar0 (c / 10 % 10), digitChar0 (c % 10)] := by
  unfold fmt52 fmt2
  rw [twoDigits_eq]
  have e1 : c % 100 / 10 % 10 = c / 10 % 10 := by omega
  have e2 : c % 100 % 10 = c % 10 := by omega
  by_cases h : c / 100 < 10
  · rw [if_pos h, natStr_lt10 _ h]
    have z : c / 1000 = 0 := by omega
    have y : c / 100 % 10 = c / 100 := by omega
    have hz : digitChar0 0 = '0' := by decide
    rw [z, y, e1, e2, hz]; rfl
  · rw [if_neg h, natStr_lt100 _ (by omega) (by omega)]
    have z : c / 100 / 10 = c / 1000 := by omega
    rw [z, e1, e2]; rfl

theorem go_stop (n : Nat) (s : Str) (h : (s.getLast? == some '0' && decide (s.length > 4)) = false) : stripTime.go (n + 1) s = s := by
  simp only [stripTime.go, h, Bool.false_eq_true, if_false]

theorem go_drop (n : Nat) (s : Str) (h : (s.getLast? == some '0' && decide (s.length > 4)) = true) :
    stripTime.go (n + 1) s = stripTime.go n s.dropLast := by
  simp only [stripTime.go, h, if_true]

/-- the three shapes of a stripped `pre ++ "ab.ef"` -/
theorem stripTime_mss (pre : Str) (a b e f : Char) (hp : 2 ≤ pre.length) (he : e ≠ '.') (hf : f ≠ '.') :
    stripTime (pre ++ [a, b, '.', e, f]) =
      if f ≠ '0' then pre ++ [a, b, '.', e, f]
      else if e ≠ '0' then pre ++ [a, b, '.', e]
      else pre ++ [a, b] := by
  have hlen : (pre ++ [a, b, '.', e, f]).length = pre.length + 5 := by simp
  unfold stripTime
  rw [if_pos (by rw [hlen]; omega), hlen]
  simp only
  by_cases h1 : f = '0'
  · subst h1
    rw [go_drop _ _ (by simp)]
    have hd1 : (pre ++ [a, b, '.', e, '0']).dropLast = pre ++ [a, b, '.', e] := by
      rw [List.dropLast_append_of_ne_nil (by simp)]; rfl
    rw [hd1]
    by_cases h2 : e = '0'
    · subst h2
      obtain ⟨k, hk⟩ : ∃ k, pre.length + 4 = k + 1 := ⟨pre.length + 3, by omega⟩
      rw [hk, go_drop _ _ (by simp; omega)]
      have hd2 : (pre ++ [a, b, '.', '0']).dropLast = pre ++ [a, b, '.'] := by
        rw [List.dropLast_append_of_ne_nil (by simp)]; rfl
      rw [hd2]
      obtain ⟨k2, hk2⟩ : ∃ k2, k = k2 + 1 := ⟨k - 1, by omega⟩
      rw [hk2, go_stop _ _ (by simp)]
      have hd3 : (pre ++ [a, b, '.']).dropLast = pre ++ [a, b] := by
        rw [List.dropLast_append_of_ne_nil (by simp)]; rfl
      simp [hd3]
    · obtain ⟨k, hk⟩ : ∃ k, pre.length + 4 = k + 1 := ⟨pre.length + 3, by omega⟩
      rw [hk, go_stop _ _ (by simp [h2])]
      simp [h2, he]
  · rw [go_stop _ _ (by simp [h1])]
    simp [h1, hf]

theorem pyInt_one (h : asciiDigitsOK = true) (a : Nat) (ha : a < 10) : pyInt [digitChar0 a] = .ok a := by
  unfold pyInt
  simp only [List.isEmpty_cons, Bool.false_eq_true, if_false, List.foldl_cons, List.foldl_nil]
  rw [pyIntStep_digit h 0 a ha]
  simp

theorem pyInt_two (h : asciiDigitsOK = true) (a b : Nat) (ha : a < 10) (hb : b < 10) :
    pyInt [digitChar0 a, digitChar0 b] = .ok (10 * a + b) := by
  unfold pyInt
  simp only [List.isEmpty_cons, Bool.false_eq_true, if_false, List.foldl_cons, List.foldl_nil]
  rw [pyIntStep_digit h 0 a ha, pyIntStep_digit h _ b hb]
  simp

theorem floatOf_ss (h : asciiDigitsOK = true) (a b : Nat) (ha : a < 10) (hb : b < 10) :
    floatOf [digitChar0 a, digitChar0 b] = some (10 * a + b, 1, 0) := by
  have na := digitChar0_ne_dot' a ha
  have nb := digitChar0_ne_dot' b hb
  unfold floatOf
  simp [na, nb, pyInt_two h a b ha hb]

theorem floatOf_ss_c (h : asciiDigitsOK = true) (a b e : Nat) (ha : a < 10) (hb : b < 10) (he : e < 10) :
    floatOf [digitChar0 a, digitChar0 b, '.', digitChar0 e] = some ((10 * a + b) * 10 + e, 10, 1) := by
  have na := digitChar0_ne_dot' a ha
  have nb := digitChar0_ne_dot' b hb
  have ne := digitChar0_ne_dot' e he
  unfold floatOf
  simp [na, nb, ne, pyInt_two h a b ha hb, pyInt_one h e he]

theorem floatOf_ss_cc (h : asciiDigitsOK = true) (a b e f : Nat) (ha : a < 10) (hb : b < 10) (he : e < 10) (hf : f < 10) :
    floatOf [digitChar0 a, digitChar0 b, '.', digitChar0 e, digitChar0 f] = some ((10 * a + b) * 100 + (10 * e + f), 100, 2) := by
  have na := digitChar0_ne_dot' a ha
  have nb := digitChar0_ne_dot' b hb
  have ne := digitChar0_ne_dot' e he
  have nf := digitChar0_ne_dot' f hf
  unfold floatOf
  simp [na, nb, ne, nf, pyInt_two h a b ha hb, pyInt_two h e f he hf]

theorem splitOn_one (c : Char) (b : Str) (hb : ∀ ch ∈ b, ch ≠ c) : ∀ a : Str, (∀ ch ∈ a, ch ≠ c) →
    splitOn c (a ++ c :: b) = [a, b] := by
  intro a
  induction a with
  | nil =>
    intro _
    have := splitOn_no_sep c b hb
    unfold splitOn at this ⊢
    simp only [List.nil_append, List.foldr_cons, this]
    simp
  | cons x rest ih =>
    intro h
    have hr := ih (fun ch hch => h ch (List.mem_cons_of_mem _ hch))
    have hx : (x == c) = false := by simpa using h x (List.mem_cons_self ..)
    unfold splitOn at hr ⊢
    rw [List.cons_append, List.foldr_cons, hr]
    simp [hx]

theorem startsWith_head_ne (c : Char) (rest : Str) (p : String) (p0 : Char) (ptl : List Char)
    (hp : p.toList = p0 :: ptl) (hne : c ≠ p0) : startsWith (c :: rest) p = false := by
  unfold startsWith
  rw [hp]
  simp [List.take, hne]

theorem timedCore_mss (hA : asciiDigitsOK = true) (disc : Str) (m : Nat) (hm : 0 < m) (sec : Str) (d : Nat)
    (hg : getDistance 8 disc = .ok (some d)) (h200 : 200 < d) (hsc : ∀ ch ∈ sec, ch ≠ ':')
    (f : Nat × Nat × Nat) (hf : floatOf sec = some f) :
    timedCore disc (natStr m ++ ':' :: sec) = timedDecide disc (some d) 0 m f.1 f.2.1 f.2.2 := by
  obtain ⟨d0, rest, hnat, hd0, hd10⟩ := natStr_head m hm
  have hne0 : digitChar0 d0 ≠ '0' := fun e => by have := (digitChar0_eq_zero d0 hd10).1 e; omega
  have ht : natStr m ++ ':' :: sec = digitChar0 d0 :: (rest ++ ':' :: sec) := by rw [hnat]; rfl
  have h0 : startsWith (natStr m ++ ':' :: sec) "0:" = false := by
    rw [ht]; exact startsWith_head_ne _ _ "0:" '0' [':'] rfl hne0
  have h00 : startsWith (natStr m ++ ':' :: sec) "00:" = false := by
    rw [ht]; exact startsWith_head_ne _ _ "00:" '0' ['0', ':'] rfl hne0
  have hsp : splitOn ':' (natStr m ++ ':' :: sec) = [natStr m, sec] :=
    splitOn_one ':' sec hsc (natStr m) (natStr_no_colon m)
  have hle : decide (d ≤ 200) = false := by simpa using h200
  have hcol : (natStr m ++ ':' :: sec).contains ':' = true := by simp
  unfold timedCore
  rw [hg]
  simp only [h0, h00, Bool.false_eq_true, if_false, Option.getD_some, hle, Bool.and_false, Bool.false_and, hcol,
    Bool.not_true]
  -- the `a:b:c → a:b.c` re-reading of 800 / 1500 / 3000 needs three fields: there are two
  by_cases hc : (strIn disc ["800", "1500", "3000"] && !(natStr m ++ ':' :: sec).contains '.') = true
  · simp only [hc, if_true, hsp, pyInt_natStr hA m, hf]
  · simp only [hc, Bool.false_eq_true, if_false, hsp, pyInt_natStr hA m, hf]

theorem splitOn_cons_sep (c : Char) (rest : Str) : ∀ a : Str, (∀ ch ∈ a, ch ≠ c) →
    splitOn c (a ++ c :: rest) = a :: splitOn c rest := by
  intro a
  induction a with
  | nil =>
    intro _
    unfold splitOn
    simp only [List.nil_append, List.foldr_cons]
    simp
  | cons x tl ih =>
    intro h
    have hr := ih (fun ch hch => h ch (List.mem_cons_of_mem _ hch))
    have hx : (x == c) = false := by simpa using h x (List.mem_cons_self ..)
    unfold splitOn at hr ⊢
    rw [List.cons_append, List.foldr_cons, hr]
    simp [hx]

theorem timedCore_hmmss (hA : asciiDigitsOK = true) (disc : Str) (h m : Nat) (hh : 0 < h) (hm : m < 60) (sec : Str) (d : Nat)
    (hg : getDistance 8 disc = .ok (some d)) (h200 : 200 < d)
    (hno : strIn disc ["800", "1500", "3000"] = false) (hsc : ∀ ch ∈ sec, ch ≠ ':')
    (f : Nat × Nat × Nat) (hf : floatOf sec = some f) :
    timedCore disc (natStr h ++ ':' :: (twoDigits m ++ ':' :: sec)) = timedDecide disc (some d) h m f.1 f.2.1 f.2.2 := by
  obtain ⟨d0, rest, hnat, hd0, hd10⟩ := natStr_head h hh
  have hne0 : digitChar0 d0 ≠ '0' := fun e => by have := (digitChar0_eq_zero d0 hd10).1 e; omega
  have ht : natStr h ++ ':' :: (twoDigits m ++ ':' :: sec) = digitChar0 d0 :: (rest ++ ':' :: (twoDigits m ++ ':' :: sec)) := by
    rw [hnat]; rfl
  have h0 : startsWith (natStr h ++ ':' :: (twoDigits m ++ ':' :: sec)) "0:" = false := by
    rw [ht]; exact startsWith_head_ne _ _ "0:" '0' [':'] rfl hne0
  have h00 : startsWith (natStr h ++ ':' :: (twoDigits m ++ ':' :: sec)) "00:" = false := by
    rw [ht]; exact startsWith_head_ne _ _ "00:" '0' ['0', ':'] rfl hne0
  have htw : ∀ ch ∈ twoDigits m, ch ≠ ':' := by
    intro ch hch
    simp only [twoDigits_eq, List.mem_cons, List.mem_nil_iff, or_false] at hch
    rcases hch with rfl | rfl
    · exact digitChar0_ne_colon _ (Nat.mod_lt _ (by omega))
    · exact digitChar0_ne_colon _ (Nat.mod_lt _ (by omega))
  have hsp : splitOn ':' (natStr h ++ ':' :: (twoDigits m ++ ':' :: sec)) = [natStr h, twoDigits m, sec] := by
    rw [splitOn_cons_sep ':' _ (natStr h) (natStr_no_colon h), splitOn_cons_sep ':' _ (twoDigits m) htw,
      splitOn_no_sep ':' sec hsc]
  have hpm : pyInt (twoDigits m) = .ok m := by
    rw [twoDigits_eq, pyInt_two hA _ _ (Nat.mod_lt _ (by omega)) (Nat.mod_lt _ (by omega))]
    congr 1; omega
  have hle : decide (d ≤ 200) = false := by simpa using h200
  have hcol : (natStr h ++ ':' :: (twoDigits m ++ ':' :: sec)).contains ':' = true := by simp
  unfold timedCore
  rw [hg]
  simp only [h0, h00, Bool.false_eq_true, if_false, Option.getD_some, hle, Bool.and_false, Bool.false_and, hcol,
    Bool.not_true, hno, hsp, pyInt_natStr hA h, hpm, hf]


theorem timedCore_mss_nodist (hA : asciiDigitsOK = true) (disc : Str) (m : Nat) (hm : 0 < m) (sec : Str)
    (hg : getDistance 8 disc = .ok none) (hsc : ∀ ch ∈ sec, ch ≠ ':')
    (f : Nat × Nat × Nat) (hf : floatOf sec = some f) :
    timedCore disc (natStr m ++ ':' :: sec) = timedDecide disc none 0 m f.1 f.2.1 f.2.2 := by
  obtain ⟨d0, rest, hnat, hd0, hd10⟩ := natStr_head m hm
  have hne0 : digitChar0 d0 ≠ '0' := fun e => by have := (digitChar0_eq_zero d0 hd10).1 e; omega
  have ht : natStr m ++ ':' :: sec = digitChar0 d0 :: (rest ++ ':' :: sec) := by rw [hnat]; rfl
  have h0 : startsWith (natStr m ++ ':' :: sec) "0:" = false := by
    rw [ht]; exact startsWith_head_ne _ _ "0:" '0' [':'] rfl hne0
  have h00 : startsWith (natStr m ++ ':' :: sec) "00:" = false := by
    rw [ht]; exact startsWith_head_ne _ _ "00:" '0' ['0', ':'] rfl hne0
  have hsp : splitOn ':' (natStr m ++ ':' :: sec) = [natStr m, sec] :=
    splitOn_one ':' sec hsc (natStr m) (natStr_no_colon m)
  unfold timedCore
  rw [hg]
  simp only [h0, h00, Bool.false_eq_true, if_false, Bool.false_and]
  by_cases hc : (strIn disc ["800", "1500", "3000"] && !(natStr m ++ ':' :: sec).contains '.') = true
  · simp only [hc, if_true, hsp, pyInt_natStr hA m, hf]
  · simp only [hc, Bool.false_eq_true, if_false, hsp, pyInt_natStr hA m, hf]

theorem timedCore_hmmss_nodist (hA : asciiDigitsOK = true) (disc : Str) (h m : Nat) (hh : 0 < h) (hm : m < 60) (sec : Str)
    (hg : getDistance 8 disc = .ok none)
    (hno : strIn disc ["800", "1500", "3000"] = false) (hsc : ∀ ch ∈ sec, ch ≠ ':')
    (f : Nat × Nat × Nat) (hf : floatOf sec = some f) :
    timedCore disc (natStr h ++ ':' :: (twoDigits m ++ ':' :: sec)) = timedDecide disc none h m f.1 f.2.1 f.2.2 := by
  obtain ⟨d0, rest, hnat, hd0, hd10⟩ := natStr_head h hh
  have hne0 : digitChar0 d0 ≠ '0' := fun e => by have := (digitChar0_eq_zero d0 hd10).1 e; omega
  have ht : natStr h ++ ':' :: (twoDigits m ++ ':' :: sec) = digitChar0 d0 :: (rest ++ ':' :: (twoDigits m ++ ':' :: sec)) := by
    rw [hnat]; rfl
  have h0 : startsWith (natStr h ++ ':' :: (twoDigits m ++ ':' :: sec)) "0:" = false := by
    rw [ht]; exact startsWith_head_ne _ _ "0:" '0' [':'] rfl hne0
  have h00 : startsWith (natStr h ++ ':' :: (twoDigits m ++ ':' :: sec)) "00:" = false := by
    rw [ht]; exact startsWith_head_ne _ _ "00:" '0' ['0', ':'] rfl hne0
  have htw : ∀ ch ∈ twoDigits m, ch ≠ ':' := by
    intro ch hch
    simp only [twoDigits_eq, List.mem_cons, List.mem_nil_iff, or_false] at hch
    rcases hch with rfl | rfl
    · exact digitChar0_ne_colon _ (Nat.mod_lt _ (by omega))
    · exact digitChar0_ne_colon _ (Nat.mod_lt _ (by omega))
  have hsp : splitOn ':' (natStr h ++ ':' :: (twoDigits m ++ ':' :: sec)) = [natStr h, twoDigits m, sec] := by
    rw [splitOn_cons_sep ':' _ (natStr h) (natStr_no_colon h), splitOn_cons_sep ':' _ (twoDigits m) htw,
      splitOn_no_sep ':' sec hsc]
  have hpm : pyInt (twoDigits m) = .ok m := by
    rw [twoDigits_eq, pyInt_two hA _ _ (Nat.mod_lt _ (by omega)) (Nat.mod_lt _ (by omega))]
    congr 1; omega
  unfold timedCore
  rw [hg]
  simp only [h0, h00, Bool.false_eq_true, if_false, Bool.false_and, hno, hsp, pyInt_natStr hA h, hpm, hf]

end Perf
end AthlibVerif
