import Mathlib.Tactic.Linarith
import Mathlib.Tactic.Positivity
import Mathlib.Tactic.Ring
import Mathlib.Tactic.FieldSimp
import Mathlib.Algebra.Order.Field.Basic
import Mathlib.Algebra.Order.Field.Rat
import Mathlib.Data.Rat.Cast.Order
import AthlibVerif.Model.WmaChecks
/-!
Helper lemmas for C14 / C15: convex combinations, weighted averages, the Möbius map of the
speed-interpolated open best, and what `findAge` / `scanIdx` return.
-/
namespace AthlibVerif.Wma

/-! ## generic interpolation facts over `Rat` -/

theorem lerp_pos {p x y : Rat} (h0 : 0 ≤ p) (h1 : p ≤ 1) (hx : 0 < x) (hy : 0 < y) : 0 < lerp p x y := by
  unfold lerp
  rcases eq_or_lt_of_le h0 with h | h
  · subst h; simpa using hx
  · have : 0 ≤ (1 - p) * x := mul_nonneg (by linarith) hx.le
    have : 0 < p * y := mul_pos h hy
    linarith

theorem lerp_between {t x y : Rat} (h0 : 0 ≤ t) (h1 : t ≤ 1) :
    min x y ≤ lerp t x y ∧ lerp t x y ≤ max x y := by
  unfold lerp
  constructor
  · have a : min x y ≤ x := min_le_left _ _
    have b : min x y ≤ y := min_le_right _ _
    nlinarith [mul_le_mul_of_nonneg_left a (by linarith : (0:Rat) ≤ 1 - t), mul_le_mul_of_nonneg_left b h0]
  · have a : x ≤ max x y := le_max_left _ _
    have b : y ≤ max x y := le_max_right _ _
    nlinarith [mul_le_mul_of_nonneg_left a (by linarith : (0:Rat) ≤ 1 - t), mul_le_mul_of_nonneg_left b h0]

theorem lerp_zero (x y : Rat) : lerp 0 x y = x := by unfold lerp; ring
theorem lerp_one (x y : Rat) : lerp 1 x y = y := by unfold lerp; ring
theorem lerp_self (p x : Rat) : lerp p x x = x := by unfold lerp; ring

theorem clamp01_bounds (x : Rat) : 0 ≤ clamp01 x ∧ clamp01 x ≤ 1 := by
  unfold clamp01
  split
  · exact ⟨le_refl _, by norm_num⟩
  · split
    · exact ⟨by norm_num, le_refl _⟩
    · constructor <;> linarith

theorem clamp01_id {x : Rat} (h0 : 0 ≤ x) (h1 : x ≤ 1) : clamp01 x = x := by
  unfold clamp01
  rw [if_neg (by linarith), if_neg (by linarith)]

/-- a weighted average lies between its two values -/
theorem wavg_between {ws wl a b : Rat} (hs : 0 ≤ ws) (hl : 0 ≤ wl) (h : 0 < ws + wl) :
    min a b ≤ (ws * a + wl * b) / (ws + wl) ∧ (ws * a + wl * b) / (ws + wl) ≤ max a b := by
  constructor
  · rw [le_div_iff₀ h]
    have ha : min a b ≤ a := min_le_left _ _
    have hb : min a b ≤ b := min_le_right _ _
    nlinarith [mul_le_mul_of_nonneg_left ha hs, mul_le_mul_of_nonneg_left hb hl]
  · rw [div_le_iff₀ h]
    have ha : a ≤ max a b := le_max_left _ _
    have hb : b ≤ max a b := le_max_right _ _
    nlinarith [mul_le_mul_of_nonneg_left ha hs, mul_le_mul_of_nonneg_left hb hl]

/-! ## lists -/

theorem getD_of_lt {α} (l : List α) (i : Nat) (d : α) (h : i < l.length) : l.getD i d = l[i] := by
  rw [List.getD_eq_getElem?_getD, List.getElem?_eq_getElem h]; rfl

/-! ## `findAge` -/

/-- the age after the "falsy means 29" substitution -/
def effAge (age : Rat) : Rat := if age = 0 then 29 else age

theorem findAge_cases (ages : List Nat) (age : Rat) :
    let a := effAge age
    let i := ages.findIdx (fun (x : Nat) => decide (a ≤ (x : Rat)))
    (i = 0 ∧ findAge ages age = (0, 0, 0)) ∨
    (0 < i ∧ ∃ h : i < ages.length, (ages[i] : Rat) = a ∧ findAge ages age = (i, i, 0)) ∨
    (0 < i ∧ ∃ h : i < ages.length, (ages[i - 1] : Rat) < a ∧ a < (ages[i] : Rat) ∧
        findAge ages age = (i - 1, i, (a - (ages[i - 1] : Rat)) / ((ages[i] : Rat) - (ages[i - 1] : Rat)))) ∨
    (0 < i ∧ i = ages.length ∧ findAge ages age = (ages.length - 1, ages.length - 1, 0)) := by
  intro a i
  have hdef : findAge ages age =
      (if i = 0 then (0, 0, 0)
       else if i < ages.length then
         (if ((ages.getD i 0 : Nat) : Rat) = a then (i, i, 0)
          else (i - 1, i, (a - ((ages.getD (i - 1) 0 : Nat) : Rat)) / (((ages.getD i 0 : Nat) : Rat) - ((ages.getD (i - 1) 0 : Nat) : Rat))))
       else (ages.length - 1, ages.length - 1, 0)) := rfl
  by_cases h0 : i = 0
  · left; exact ⟨h0, by rw [hdef, if_pos h0]⟩
  · right
    have hpos : 0 < i := Nat.pos_of_ne_zero h0
    by_cases hlt : i < ages.length
    · have hge : a ≤ (ages[i] : Rat) := by
        have := List.findIdx_getElem (p := fun (x : Nat) => decide (a ≤ (x : Rat))) (xs := ages) (w := hlt)
        simpa using this
      have hprev : (ages[i - 1] : Rat) < a := by
        have := List.not_of_lt_findIdx (p := fun (x : Nat) => decide (a ≤ (x : Rat))) (xs := ages) (i := i - 1) (by omega)
        simpa using this
      rw [hdef, if_neg h0, if_pos hlt, getD_of_lt ages i 0 hlt, getD_of_lt ages (i - 1) 0 (by omega)]
      by_cases heq : (ages[i] : Rat) = a
      · left; exact ⟨hpos, hlt, heq, by rw [if_pos heq]⟩
      · right; left
        exact ⟨hpos, hlt, hprev, lt_of_le_of_ne hge (Ne.symm heq), by rw [if_neg heq]⟩
    · right; right
      have : i = ages.length := le_antisymm List.findIdx_le_length (not_lt.mp hlt)
      exact ⟨hpos, this, by rw [hdef, if_neg h0, if_neg hlt]⟩

theorem findAge_page_bounds (ages : List Nat) (age : Rat) :
    0 ≤ (findAge ages age).2.2 ∧ (findAge ages age).2.2 ≤ 1 := by
  rcases findAge_cases ages age with ⟨_, h⟩ | ⟨_, _, _, h⟩ | ⟨_, _, h0, h1, h⟩ | ⟨_, _, h⟩ <;> rw [h] <;> simp only
  · exact ⟨le_refl _, by norm_num⟩
  · exact ⟨le_refl _, by norm_num⟩
  · constructor
    · apply div_nonneg <;> linarith
    · rw [div_le_one (by linarith)]; linarith
  · exact ⟨le_refl _, by norm_num⟩

/-! ## positivity of factors -/

theorem getD_prop {α} (P : α → Prop) (l : List α) (i : Nat) (d : α) (hd : P d) (h : ∀ x ∈ l, P x) :
    P (l.getD i d) := by
  by_cases hi : i < l.length
  · rw [getD_of_lt l i d hi]; exact h _ (List.getElem_mem hi)
  · rw [List.getD_eq_getElem?_getD, List.getElem?_eq_none (by omega)]; exact hd

theorem cell_pos_of_getD {facs : List (Option Nat)} {i n : Nat} (hall : facs.all cellPos = true)
    (h : facs.getD i none = some n) : 0 < n := by
  have := getD_prop (fun c => cellPos c = true) facs i none rfl (List.all_eq_true.mp hall)
  rw [h] at this
  simpa [cellPos] using this

theorem facQ_pos (t : Table) (n : Nat) (hs : 0 < t.facScale) (hn : 0 < n) : 0 < t.facQ n := by
  unfold Table.facQ
  have h1 : (0 : Rat) < (n : Rat) := by exact_mod_cast hn
  have h2 : (0 : Rat) < (t.facScale : Rat) := by exact_mod_cast hs
  exact div_pos h1 h2

theorem rowFactor_pos (t : Table) (r : Row) (age x : Rat) (hs : 0 < t.facScale)
    (hr : r.facs.all cellPos = true) (h : rowFactor t r age = .ok x) : 0 < x := by
  unfold rowFactor at h
  simp only at h
  split at h
  · rename_i a b ha hb
    injection h with h
    subst h
    have hp := findAge_page_bounds t.ages age
    exact lerp_pos hp.1 hp.2 (facQ_pos t a hs (cell_pos_of_getD hr ha)) (facQ_pos t b hs (cell_pos_of_getD hr hb))
  · exact absurd h (by simp)

/-- the Prop-level content of `factorsOK` -/
theorem factorsOK_spec (t : Table) (h : factorsOK t = true) :
    0 < t.facScale ∧ agesSorted t.ages = true ∧ t.ages ≠ [] ∧
      ∀ g, ∀ r ∈ t.rows g, r.facs.length = t.ages.length ∧ r.facs.all cellPos = true := by
  unfold factorsOK at h
  simp only [Bool.and_eq_true, decide_eq_true_eq, List.all_eq_true, beq_iff_eq, Bool.not_eq_true',
    List.isEmpty_eq_false_iff, List.mem_append] at h
  obtain ⟨⟨⟨h1, h2⟩, h3⟩, h4⟩ := h
  refine ⟨h1, h2, h3, ?_⟩
  intro g r hr
  cases g with
  | m => exact ⟨(h4 r (Or.inl hr)).1, List.all_eq_true.mpr (h4 r (Or.inl hr)).2⟩
  | f => exact ⟨(h4 r (Or.inr hr)).1, List.all_eq_true.mpr (h4 r (Or.inr hr)).2⟩

theorem default_row_cells : (default : Row).facs.all cellPos = true := rfl

theorem factorByDistance_pos (t : Table) (rows : List Row) (age : Rat) (dist : Nat) (x : Rat)
    (hs : 0 < t.facScale) (hrows : ∀ r ∈ rows, r.facs.all cellPos = true)
    (h : factorByDistance t rows age dist = .ok x) : 0 < x := by
  have hg : ∀ i, (rows.getD i default).facs.all cellPos = true := fun i =>
    getD_prop (fun r => r.facs.all cellPos = true) rows i default default_row_cells hrows
  unfold factorByDistance at h
  split at h
  · exact absurd h (by simp)
  · rename_i fx fx1 _ _
    simp only at h
    split at h
    · exact rowFactor_pos t _ age x hs (hg fx1) h
    · split at h
      · exact absurd h (by simp)
      · rename_i fs hfs
        have hfs' := rowFactor_pos t _ age fs hs (hg fx) hfs
        split at h
        · injection h with h; subst h; exact hfs'
        · split at h
          · injection h with h; subst h; exact hfs'
          · split at h
            · exact absurd h (by simp)
            · rename_i fl hfl
              have hfl' := rowFactor_pos t _ age fl hs (hg fx1) hfl
              injection h with h; subst h
              exact lerp_pos (clamp01_bounds _).1 (clamp01_bounds _).2 hfs' hfl'

/-! ## the age enters only through `findAge` -/

theorem rowFactor_congr (t : Table) (r : Row) (a a' : Rat) (h : findAge t.ages a = findAge t.ages a') :
    rowFactor t r a = rowFactor t r a' := by
  unfold rowFactor; rw [h]

theorem factorByDistance_congr (t : Table) (rows : List Row) (a a' : Rat) (dist : Nat)
    (h : findAge t.ages a = findAge t.ages a') :
    factorByDistance t rows a dist = factorByDistance t rows a' dist := by
  have hr : ∀ r, rowFactor t r a = rowFactor t r a' := fun r => rowFactor_congr t r a a' h
  unfold factorByDistance
  simp only [hr]

theorem factorCore_congr (t : Table) (g : Gender) (a a' : Rat) (ev : String) (hint : Option Nat)
    (h : findAge t.ages a = findAge t.ages a') :
    factorCore t g a ev hint = factorCore t g a' ev hint := by
  unfold factorCore
  simp only [fun r => rowFactor_congr t r a a' h, fun d => factorByDistance_congr t (t.rows g) a a' d h]

/-! ## clamping to the last age column -/

theorem agesSorted_pairwise : ∀ (l : List Nat), agesSorted l = true → l.Pairwise (· < ·)
  | [], _ => List.Pairwise.nil
  | [_], _ => List.pairwise_singleton _ _
  | a :: b :: rest, h => by
    simp only [agesSorted, Bool.and_eq_true, decide_eq_true_eq] at h
    have ih := agesSorted_pairwise (b :: rest) h.2
    refine List.Pairwise.cons ?_ ih
    intro x hx
    rcases List.mem_cons.mp hx with rfl | hx
    · exact h.1
    · exact lt_trans h.1 (List.rel_of_pairwise_cons ih hx)

theorem sorted_le_last (l : List Nat) (hs : l.Pairwise (· < ·)) (i : Nat) (hi : i < l.length) :
    l[i] ≤ l[l.length - 1]'(by omega) ∧ (l[i] = l[l.length - 1]'(by omega) → i = l.length - 1) := by
  by_cases h : i = l.length - 1
  · subst h; exact ⟨le_refl _, fun _ => rfl⟩
  · have hlt : i < l.length - 1 := by omega
    have := (List.pairwise_iff_getElem.mp hs) i (l.length - 1) hi (by omega) hlt
    exact ⟨by omega, fun e => by omega⟩

/-- at or beyond the last age column `find_age` selects the last column, with no interpolation -/
theorem findAge_clamp (ages : List Nat) (hs : agesSorted ages = true) (hne : ages ≠ []) (age : Rat)
    (h : ((ages[ages.length - 1]'(by have := List.length_pos_iff.mpr hne; omega) : Nat) : Rat) ≤ effAge age) :
    findAge ages age = (ages.length - 1, ages.length - 1, 0) := by
  have hlen : 0 < ages.length := List.length_pos_iff.mpr hne
  have hp := agesSorted_pairwise ages hs
  rcases findAge_cases ages age with ⟨hi0, hres⟩ | ⟨_, hlt, heq, hres⟩ | ⟨_, hlt, _, hlt2, _⟩ | ⟨_, _, hres⟩
  · -- first column already reaches the age: the list has one column
    rw [hres]
    have h0 : effAge age ≤ (ages[0] : Rat) := by
      have := List.findIdx_getElem (p := fun (x : Nat) => decide (effAge age ≤ (x : Rat))) (xs := ages)
        (w := by rw [hi0]; exact hlen)
      simp only [hi0] at this
      simpa using this
    have hle : ages[ages.length - 1] ≤ ages[0] := by exact_mod_cast le_trans h h0
    have := (sorted_le_last ages hp 0 hlen)
    have h1 : 0 = ages.length - 1 := this.2 (le_antisymm this.1 hle)
    rw [← h1]
  · rw [hres]
    have hle : ages[ages.length - 1] ≤ ages[List.findIdx (fun (x : Nat) => decide (effAge age ≤ (x : Rat))) ages] := by
      exact_mod_cast (heq ▸ h)
    have := sorted_le_last ages hp _ hlt
    rw [this.2 (le_antisymm this.1 hle)]
  · exfalso
    have := sorted_le_last ages hp _ hlt
    have h2 : ((ages[List.findIdx (fun (x : Nat) => decide (effAge age ≤ (x : Rat))) ages] : Nat) : Rat)
        ≤ ((ages[ages.length - 1] : Nat) : Rat) := by exact_mod_cast this.1
    linarith
  · exact hres

end AthlibVerif.Wma
