import AthlibVerif.Lemmas.MatchSound
import AthlibVerif.Lemmas.Sym
import AthlibVerif.Model.Codes
import AthlibVerif.Gen.Patterns
/-!
# Tie between the two renderings of a pattern

`tools/gen_regex.py` emits every pattern twice: as an `RE` (`Gen/Patterns.lean`, the object of the C04
language theorems) and as a `GRE` with groups and priorities (`Gen/GPatterns.lean`, what the transcription of
`normalize_event_code` / `discipline_sort_key` / … runs).  They differ only in the order of the two
alternatives of an optional part (`x?` is `ε | x` in the first, `x | ε` — greedy — in the second) and in `$`.
`tieOK` checks, by evaluation on the regenerated terms, that a `GRE` is within the matcher's fuel budget,
anchored by `$` on every branch, and equal to the `RE` modulo that order; `tie_sound` concludes that
`re.match` of the one succeeds exactly on the language of the other.
-/
namespace AthlibVerif
namespace RE

/-- canonical order of an optional part: `ε` first -/
def normOpt : RE → RE
  | alt a b => if normOpt b = eps then alt eps (normOpt a) else alt (normOpt a) (normOpt b)
  | cat a b => cat (normOpt a) (normOpt b)
  | star a => star (normOpt a)
  | and a b => and (normOpt a) (normOpt b)
  | not a => not (normOpt a)
  | empty => empty
  | eps => eps
  | cls m => cls m

theorem starL_congr {L L' : List Nat → Prop} (h : ∀ w, L w ↔ L' w) (w : List Nat) : StarL L w ↔ StarL L' w := by
  constructor
  · intro hs
    induction hs with
    | nil => exact StarL.nil
    | cons u v hne hu _ ih => exact StarL.cons u v hne ((h u).1 hu) ih
  · intro hs
    induction hs with
    | nil => exact StarL.nil
    | cons u v hne hu _ ih => exact StarL.cons u v hne ((h u).2 hu) ih

theorem lang_normOpt (r : RE) : ∀ w, lang (normOpt r) w ↔ lang r w := by
  induction r with
  | empty => intro w; rfl
  | eps => intro w; rfl
  | cls m => intro w; rfl
  | cat a b iha ihb =>
    intro w; simp only [normOpt, lang]
    constructor
    · rintro ⟨u, v, h, hu, hv⟩; exact ⟨u, v, h, (iha u).1 hu, (ihb v).1 hv⟩
    · rintro ⟨u, v, h, hu, hv⟩; exact ⟨u, v, h, (iha u).2 hu, (ihb v).2 hv⟩
  | alt a b iha ihb =>
    intro w
    simp only [normOpt]
    split
    · next hb =>
      have := ihb w
      rw [hb] at this
      simp only [lang] at this ⊢
      rw [iha w, ← this]; exact Or.comm
    · simp only [lang, iha w, ihb w]
  | star a iha => intro w; simp only [normOpt, lang]; exact starL_congr iha w
  | and a b iha ihb => intro w; simp only [normOpt, lang, iha w, ihb w]
  | not a iha => intro w; simp only [normOpt, lang, iha w]

end RE

open RE GRE

/-- the `GRE` rendering `g` and the `RE` rendering `p` of one pattern agree, `g` is anchored and within fuel -/
def tieOK (g : GRE) (p : RE) : Bool :=
  fuelOK g && tailEol g && (normOpt (toRE [] g) == normOpt p)

/-- **`re.match` on the rendering with groups succeeds exactly on the language of the plain rendering** -/
theorem tie_sound (g : GRE) (p : RE) (h : tieOK g p = true) (inp : List Nat) :
    (matchFirst g inp).isSome = true ↔ RE.lang p inp := by
  simp only [tieOK, Bool.and_eq_true, beq_iff_eq] at h
  rw [matchFirst_anchored g h.1.1 h.1.2 inp, ← lang_normOpt (toRE [] g) inp, h.2, lang_normOpt]

namespace Codes

theorem pyMatch_isSome (name : String) (s : Str) :
    (pyMatch name s).isSome = (matchFirst (pat name) (symsOf s)).isSome := by
  unfold pyMatch; cases matchFirst (pat name) (symsOf s) <;> rfl

/-- `PAT.match(s)` in the transcription ⇔ `s` is in the language of `PAT` (the C04 reading) -/
theorem pyMatch_iff (name : String) (p : RE) (h : tieOK (pat name) p = true) (s : Str) :
    (pyMatch name s).isSome = true ↔ Matches p s := by
  rw [pyMatch_isSome]; exact tie_sound (pat name) p h (symsOf s)

end Codes
end AthlibVerif
