import AthlibVerif.Lemmas.MatchTie
/-!
# What a captured group of the transcription can contain

String-level consequences of `GRE.span_sound` for `Model/Codes.lean`: the text of group `id` after
`PAT.match(s)` is in the language of the body of a group numbered `id` of the pattern; a text in the
language `\d+` (any script) is accepted by `int()`.
-/
namespace AthlibVerif
namespace Codes
open RE GRE

theorem symsOf_sub (s : Str) (a b : Nat) : symsOf (sub s a b) = slice (symsOf s) a b := by
  simp [symsOf, sub, slice, List.map_take, List.map_drop]

/-- **the text of a captured group is matched by the body of that group** -/
theorem group_sound (name : String) (s : Str) (caps : Caps) (h : pyMatch name s = some caps)
    (id : Nat) (t : Str) (hg : group s caps id = some t) :
    ∃ body ∈ grpBodies id (pat name), ∃ a b, a ≤ b ∧ b ≤ s.length ∧ t = sub s a b ∧ Ms (symsOf s) body a b := by
  unfold pyMatch at h
  cases hm : matchFirst (pat name) (symsOf s) with
  | none => rw [hm] at h; cases h
  | some r =>
    rw [hm] at h
    simp only [Option.map_some, Option.some.injEq] at h
    unfold group at hg
    cases hs : span caps id with
    | none => rw [hs] at hg; cases hg
    | some se =>
      rw [hs] at hg
      simp only [Option.map_some, Option.some.injEq] at hg
      obtain ⟨h1, h2, h3, body, hb, hms⟩ := span_sound (pat name) (symsOf s) r hm id se.1 se.2 (by rw [h]; exact hs)
      refine ⟨body, hb, se.1, se.2, h1, ?_, hg.symm, hms⟩
      have : (symsOf s).length = s.length := by simp [symsOf]
      omega

/-- … hence, when that body has no `$`, the text is in its language -/
theorem group_lang (name : String) (s : Str) (caps : Caps) (h : pyMatch name s = some caps)
    (id : Nat) (t : Str) (hg : group s caps id = some t)
    (hne : (grpBodies id (pat name)).all noEol = true) :
    ∃ body ∈ grpBodies id (pat name), RE.lang (toRE [] body) (symsOf t) := by
  obtain ⟨body, hb, a, b, hab, hbl, rfl, hms⟩ := group_sound name s caps h id t hg
  refine ⟨body, hb, ?_⟩
  rw [symsOf_sub]
  have hl : (symsOf s).length = s.length := by simp [symsOf]
  exact ms_to_lang hms (List.all_eq_true.1 hne body hb) (by omega)

/-- `\d+` over the class `m` -/
def plusCls (m : Nat) : RE := .cat (.cls m) (.star (.cls m))

theorem lang_star_cls (m : Nat) (w : List Nat) (h : StarL (RE.lang (.cls m)) w) : ∀ x ∈ w, m.testBit x = true := by
  induction h with
  | nil => intro x hx; cases hx
  | cons u v _ hu _ ih =>
    intro x hx
    simp only [RE.lang] at hu
    obtain ⟨y, rfl, hy⟩ := hu
    rcases List.mem_append.1 hx with h | h
    · simp at h; subst h; exact hy
    · exact ih x h

theorem lang_plusCls (m : Nat) (w : List Nat) (h : RE.lang (plusCls m) w) : w ≠ [] ∧ ∀ x ∈ w, m.testBit x = true := by
  simp only [plusCls, RE.lang] at h
  obtain ⟨u, v, rfl, ⟨y, rfl, hy⟩, hv⟩ := h
  refine ⟨by simp, ?_⟩
  intro x hx
  rcases List.mem_append.1 hx with h | h
  · simp at h; subst h; exact hy
  · exact lang_star_cls m v hv x h

/-- every code point whose symbol lies in the digit class has a digit value (a decidable fact about the
    regenerated alphabet and digit blocks) -/
def digitTableOK : Bool :=
  !Gen.digitMask.testBit 0 &&
  Gen.symTable.all (fun e => !Gen.digitMask.testBit e.2.2 || Gen.digitBlocks.any (fun b => b.1 ≤ e.1 && e.2.1 ≤ b.2))

theorem digitVal_isSome (hT : digitTableOK = true) (c : Char) (h : isDigitU c = true) : (digitVal c).isSome = true := by
  simp only [digitTableOK, Bool.and_eq_true, Bool.not_eq_true', List.all_eq_true, Bool.or_eq_true] at hT
  unfold isDigitU symOf symOfNat at h
  unfold digitVal
  rw [Option.isSome_map]
  split at h
  · next e he =>
    have hmem := List.mem_of_find?_eq_some he
    have hin := List.find?_some he
    simp only [Bool.and_eq_true, decide_eq_true_eq] at hin
    rcases hT.2 e hmem with h1 | h1
    · rw [h] at h1; cases h1
    · obtain ⟨b, hb, hbb⟩ := List.any_eq_true.1 h1
      simp only [Bool.and_eq_true, decide_eq_true_eq] at hbb
      rw [List.find?_isSome]
      exact ⟨b, hb, by simp only [Bool.and_eq_true, decide_eq_true_eq]; omega⟩
  · rw [hT.1] at h; cases h

theorem foldl_digits (s : Str) (h : ∀ c ∈ s, (digitVal c).isSome = true) (k : Nat) :
    ∃ n, s.foldl pyIntStep (some k) = some n := by
  induction s generalizing k with
  | nil => exact ⟨k, rfl⟩
  | cons c cs ih =>
    have hc := h c List.mem_cons_self
    obtain ⟨d, hd⟩ := Option.isSome_iff_exists.1 hc
    simp only [List.foldl_cons, pyIntStep, hd]
    exact ih (fun c' hc' => h c' (List.mem_cons_of_mem _ hc')) _

/-- **`int()` accepts every non-empty run of decimal digits of any script** -/
theorem pyInt_total (hT : digitTableOK = true) (t : Str) (h : RE.lang (plusCls Gen.digitMask) (symsOf t)) :
    ∃ n, pyInt t = .ok n := by
  obtain ⟨hne, hall⟩ := lang_plusCls _ _ h
  have hne' : t.isEmpty = false := by cases t <;> simp_all [symsOf]
  have hd : ∀ c ∈ t, (digitVal c).isSome = true := by
    intro c hc
    apply digitVal_isSome hT
    unfold isDigitU
    exact hall (symOf c) (by simp only [symsOf, List.mem_map]; exact ⟨c, hc, rfl⟩)
  obtain ⟨n, hn⟩ := foldl_digits t hd 0
  exact ⟨n, by unfold pyInt; simp only [hne', Bool.false_eq_true, if_false, hn]⟩

/-- every body of group `id` of pattern `g` is `$`-free and only accepts `\d+` (decided on the regenerated term) -/
def groupDigits (g : GRE) (id : Nat) : Bool :=
  (grpBodies id g).all (fun b => noEol b &&
    RE.isEmptyLang Gen.nsym 100000 (RE.and (toRE [] b) (RE.not (plusCls Gen.digitMask))))

/-- **a captured group whose bodies are all `\d+` is accepted by `int()`** -/
theorem group_int (hT : digitTableOK = true) (name : String) (id : Nat) (hG : groupDigits (pat name) id = true)
    (s : Str) (caps : Caps) (h : pyMatch name s = some caps) (t : Str) (hg : group s caps id = some t) :
    ∃ n, pyInt t = .ok n := by
  unfold groupDigits at hG
  have hall := List.all_eq_true.1 hG
  have hne : (grpBodies id (pat name)).all noEol = true :=
    List.all_eq_true.2 (fun b hb => (Bool.and_eq_true _ _ ▸ hall b hb).1)
  obtain ⟨body, hb, hl⟩ := group_lang name s caps h id t hg hne
  have h2 := (Bool.and_eq_true _ _ ▸ hall body hb).2
  exact pyInt_total hT t (RE.subset_of_check Gen.nsym 100000 _ _ h2 _ (symsOf_inAlpha t) hl)

/-- **a mandatory group is always captured** -/
theorem group_mandatory (name : String) (ids : List Nat) (hm : mandatory ids (pat name) = true) (s : Str)
    (caps : Caps) (h : pyMatch name s = some caps) : ∃ id ∈ ids, ∃ t, group s caps id = some t := by
  unfold pyMatch at h
  cases hmf : matchFirst (pat name) (symsOf s) with
  | none => rw [hmf] at h; cases h
  | some r =>
    rw [hmf] at h
    simp only [Option.map_some, Option.some.injEq] at h
    obtain ⟨id, hid, hs⟩ := span_mandatory (pat name) ids hm (symsOf s) r hmf
    rw [h] at hs
    obtain ⟨se, hse⟩ := Option.isSome_iff_exists.1 hs
    exact ⟨id, hid, sub s se.1 se.2, by unfold group; rw [hse]; rfl⟩

end Codes
end AthlibVerif
