import AthlibVerif.Lemmas.HJ
import AthlibVerif.Lemmas.Ranking
/-!
# The places of the high-jump model follow the keys — in every state a trial leaves behind

`rankj` (= `_rankj` of athlib/highjump.py) walks the ranked bibs, looks each athlete up in the competition,
and writes a place into the record; the records it reads later have already been rewritten.  This file shows
that, as long as bibs are distinct and `ranked` lists every bib once (`WF`, an invariant of `step`), the
result is the abstract numbering of Lemmas/Ranking on the keys: every athlete's place is `1 +` the number of
athletes with a strictly better key (`Ranked`).  `rank` ends, on every path, either in `rankj` or in a change
of phase only, so `Ranked` holds after every accepted trial; raising the bar does not touch keys or places.
-/
namespace AthlibVerif.HJ
open AthlibVerif.Ranking

/-- bibs are distinct and the ranked list is a permutation of them -/
def WF (c : Comp) : Prop :=
  (c.jumpers.map (·.bib)).Nodup ∧ c.ranked.Perm (c.jumpers.map (·.bib))

/-- every athlete's place is one more than the number of athletes with a strictly better key -/
def Ranked (c : Comp) : Prop :=
  ∀ j ∈ c.jumpers, j.place = 1 + (c.jumpers.filter (fun k => Key.lt k.key j.key)).length

def setPlace (b pl : Nat) (k : Jumper) : Jumper := if k.bib == b then { k with place := pl } else k

@[simp] theorem setPlace_bib (b pl : Nat) (k : Jumper) : (setPlace b pl k).bib = k.bib := by
  unfold setPlace; split <;> rfl
@[simp] theorem setPlace_key (b pl : Nat) (k : Jumper) : (setPlace b pl k).key = k.key := by
  unfold setPlace; split <;> rfl

theorem bib_inj (l : List Jumper) (h : (l.map (·.bib)).Nodup) (j k : Jumper) (hj : j ∈ l) (hk : k ∈ l)
    (e : j.bib = k.bib) : j = k := by
  induction l with
  | nil => cases hj
  | cons a rest ih =>
    simp only [List.map_cons, List.nodup_cons, List.mem_map, not_exists, not_and] at h
    rcases List.mem_cons.1 hj with rfl | hj' <;> rcases List.mem_cons.1 hk with rfl | hk'
    · rfl
    · exact absurd e.symm (h.1 k hk')
    · exact absurd e (h.1 j hj')
    · exact ih h.2 hj' hk'

theorem find_some_mem (c : Comp) (b : Nat) (j : Jumper) (h : c.find b = some j) : j ∈ c.jumpers ∧ j.bib = b := by
  unfold Comp.find at h
  exact ⟨List.mem_of_find?_eq_some h, by simpa using List.find?_some h⟩

theorem find_of_mem (c : Comp) (hn : (c.jumpers.map (·.bib)).Nodup) (j : Jumper) (hj : j ∈ c.jumpers) :
    c.find j.bib = some j := by
  unfold Comp.find
  cases hf : c.jumpers.find? (·.bib == j.bib) with
  | none =>
    have := List.find?_eq_none.1 hf j hj
    simp at this
  | some k =>
    have hk := List.mem_of_find?_eq_some hf
    have hb : k.bib = j.bib := by simpa using List.find?_some hf
    rw [bib_inj c.jumpers hn k j hk hj hb]

/-- with distinct bibs, overwriting the place of the athlete found under `b` is `setPlace` on every record -/
theorem update_setPlace (c : Comp) (hn : (c.jumpers.map (·.bib)).Nodup) (b pl : Nat) (j : Jumper)
    (hf : c.find b = some j) :
    (c.update { j with place := pl }).jumpers = c.jumpers.map (setPlace b pl) := by
  obtain ⟨hj, hb⟩ := find_some_mem c b j hf
  subst hb
  unfold Comp.update
  simp only
  apply List.map_congr_left
  intro k hk
  unfold setPlace
  split
  · next e =>
    have : k = j := bib_inj c.jumpers hn k j hk hj (by simpa using e)
    rw [this]
  · rfl

theorem find_map (l : List Jumper) (f : Jumper → Jumper) (hf : ∀ k, (f k).bib = k.bib) (b : Nat) :
    (l.map f).find? (·.bib == b) = (l.find? (·.bib == b)).map f := by
  induction l with
  | nil => rfl
  | cons a rest ih =>
    simp only [List.map_cons, List.find?_cons, hf]
    split
    · rfl
    · exact ih

/-- the key of a registered bib (default for unknown bibs) -/
def keyOf (c : Comp) (b : Nat) : Key := ((c.find b).map Jumper.key).getD ⟨0, 0, 0, 0⟩

theorem keyOf_map (c : Comp) (f : Jumper → Jumper) (hb : ∀ k, (f k).bib = k.bib) (hk : ∀ k, (f k).key = k.key) (b : Nat) :
    keyOf { c with jumpers := c.jumpers.map f } b = keyOf c b := by
  unfold keyOf Comp.find
  simp only [find_map _ f hb]
  cases c.jumpers.find? (·.bib == b) <;> simp [hk]

/-- the place the loop of `assignPlaces` hands to bib `x` (none: `x` is not in the list) -/
def assigned (kf : Nat → Key) : List Nat → Nat → Option (Key × Nat) → Nat → Option Nat
  | [], _, _, _ => none
  | b :: rest, i, prev, x =>
    if x = b then some (nextPlace prev (kf b) i)
    else assigned kf rest (i + 1) (some (kf b, nextPlace prev (kf b) i)) x

def applyAssigned (a : Nat → Option Nat) (j : Jumper) : Jumper :=
  match a j.bib with
  | some p => { j with place := p }
  | none => j

theorem assigned_not_mem (kf : Nat → Key) (l : List Nat) : ∀ (i : Nat) (prev : Option (Key × Nat)) (x : Nat),
    x ∉ l → assigned kf l i prev x = none := by
  induction l with
  | nil => intro i prev x _; rfl
  | cons b rest ih =>
    intro i prev x hx
    simp only [List.mem_cons, not_or] at hx
    simp only [assigned, hx.1, if_false]
    exact ih _ _ _ hx.2

theorem assignPlaces_cons_some (c : Comp) (b : Nat) (rest : List Nat) (i : Nat) (prev : Option (Key × Nat)) (j : Jumper)
    (h : c.find b = some j) :
    assignPlaces c (b :: rest) i prev =
      assignPlaces (c.update { j with place := nextPlace prev j.key i }) rest (i + 1) (some (j.key, nextPlace prev j.key i)) := by
  simp only [assignPlaces, h]
  cases prev with
  | none => rfl
  | some q => obtain ⟨pk, pp⟩ := q; rfl

/-- `assignPlaces` = write the `assigned` place into every record -/
theorem assignPlaces_spec (l : List Nat) : ∀ (c : Comp) (i : Nat) (prev : Option (Key × Nat)),
    (c.jumpers.map (·.bib)).Nodup → l.Nodup → (∀ b ∈ l, (c.find b).isSome) →
    (assignPlaces c l i prev).jumpers = c.jumpers.map (applyAssigned (assigned (keyOf c) l i prev)) := by
  induction l with
  | nil =>
    intro c i prev _ _ _
    simp only [assignPlaces, assigned]
    rw [List.map_congr_left (g := id)]
    · simp
    · intro j _; rfl
  | cons b rest ih =>
    intro c i prev hn hl hfound
    obtain ⟨j, hj⟩ := Option.isSome_iff_exists.1 (hfound b (by simp))
    have hl' := List.nodup_cons.1 hl
    rw [assignPlaces_cons_some c b rest i prev j hj]
    have hkb : keyOf c b = j.key := by simp [keyOf, hj]
    -- the updated competition
    have hup := update_setPlace c hn b (nextPlace prev j.key i) j hj
    have hc1 : c.update { j with place := nextPlace prev j.key i } =
        { c with jumpers := c.jumpers.map (setPlace b (nextPlace prev j.key i)) } := by
      cases c; simp only [Comp.update] at hup ⊢; simp only [hup]
    rw [hc1]
    have hn1 : (({ c with jumpers := c.jumpers.map (setPlace b (nextPlace prev j.key i)) } : Comp).jumpers.map (·.bib)).Nodup := by
      simpa [List.map_map, Function.comp_def] using hn
    have hf1 : ∀ b' ∈ rest, (({ c with jumpers := c.jumpers.map (setPlace b (nextPlace prev j.key i)) } : Comp).find b').isSome := by
      intro b' hb'
      have := hfound b' (by simp [hb'])
      unfold Comp.find at this ⊢
      simp only [find_map _ _ (setPlace_bib b _)]
      simpa using this
    rw [ih _ (i + 1) (some (j.key, nextPlace prev j.key i)) hn1 hl'.2 hf1]
    simp only [List.map_map]
    apply List.map_congr_left
    intro k hk
    simp only [Function.comp_apply]
    have hkf : ∀ x, keyOf ({ c with jumpers := c.jumpers.map (setPlace b (nextPlace prev j.key i)) } : Comp) x = keyOf c x :=
      fun x => keyOf_map c _ (setPlace_bib b _) (setPlace_key b _) x
    have hkf' : keyOf ({ c with jumpers := c.jumpers.map (setPlace b (nextPlace prev j.key i)) } : Comp) = keyOf c := funext hkf
    rw [hkf']
    unfold applyAssigned
    simp only [setPlace_bib, assigned, hkb]
    by_cases e : k.bib = b
    · simp only [e, if_true]
      rw [assigned_not_mem _ _ _ _ _ hl'.1]
      unfold setPlace
      simp [e]
    · simp only [e, if_false]
      have : setPlace b (nextPlace prev j.key i) k = k := by unfold setPlace; simp [e]
      rw [this]

/-- along a duplicate-free list the assigned places are the abstract numbering of the keys -/
theorem assigned_eq_placesK (kf : Nat → Key) (l : List Nat) : ∀ (i : Nat) (prev : Option (Key × Nat)) (n : Nat) (b : Nat),
    l.Nodup → l[n]? = some b → assigned kf l i prev b = (placesK (l.map kf) i prev)[n]? := by
  induction l with
  | nil => intro i prev n b _ h; simp at h
  | cons a rest ih =>
    intro i prev n b hl h
    have hl' := List.nodup_cons.1 hl
    cases n with
    | zero =>
      simp only [List.getElem?_cons_zero, Option.some.injEq] at h
      subst h
      simp [assigned, placesK]
    | succ m =>
      simp only [List.getElem?_cons_succ] at h
      have hb : b ∈ rest := List.mem_of_getElem? h
      have hne : b ≠ a := fun e => hl'.1 (e ▸ hb)
      simp only [assigned, hne, if_false, List.map_cons, placesK, List.getElem?_cons_succ]
      exact ih _ _ m b hl'.2 h

/-! ## the ranking order on keys, and the model's sort as the abstract stable sort -/

theorem keyLt_strictTotal : StrictTotal Key.lt where
  irrefl := by
    intro a; unfold Key.lt; simp
  trans := by
    intro a b c h1 h2
    unfold Key.lt at *
    simp only [Bool.or_eq_true, Bool.and_eq_true, decide_eq_true_eq, beq_iff_eq] at *
    omega
  tri := by
    intro a b
    unfold Key.lt
    simp only [Bool.or_eq_true, Bool.and_eq_true, decide_eq_true_eq, beq_iff_eq]
    have : a = b ↔ (a.status = b.status ∧ a.negBest = b.negBest ∧ a.fa = b.fa ∧ a.fb = b.fb) := by
      constructor
      · rintro rfl; simp
      · cases a; cases b; simp_all
    rw [this]
    omega

theorem insertBy_mem (c : Comp) (b : Nat) (l : List Nat) (a : Nat) : a ∈ insertBy c b l ↔ a = b ∨ a ∈ l := by
  induction l with
  | nil => simp [insertBy]
  | cons x xs ih =>
    simp only [insertBy]
    split
    · split
      · simp
      · simp only [List.mem_cons, ih]
        constructor
        · rintro (h | h | h) <;> simp [h]
        · rintro (h | h | h) <;> simp [h]
    · simp only [List.mem_cons, ih]
      constructor
      · rintro (h | h | h) <;> simp [h]
      · rintro (h | h | h) <;> simp [h]

theorem insertBy_perm (c : Comp) (b : Nat) (l : List Nat) : (insertBy c b l).Perm (b :: l) := by
  induction l with
  | nil => simp [insertBy]
  | cons x xs ih =>
    simp only [insertBy]
    split
    · split
      · exact List.Perm.refl _
      · exact ((List.Perm.cons x ih).trans (List.Perm.swap b x xs))
    · exact ((List.Perm.cons x ih).trans (List.Perm.swap b x xs))

theorem sortRanked_perm (c : Comp) (l : List Nat) : (sortRanked c l).Perm l := by
  unfold sortRanked
  suffices ∀ acc : List Nat, (l.foldl (fun acc b => insertBy c b acc) acc).Perm (acc ++ l) by simpa using this []
  induction l with
  | nil => intro acc; simp
  | cons b rest ih =>
    intro acc
    simp only [List.foldl_cons]
    refine (ih _).trans ?_
    refine (List.Perm.append_right rest (insertBy_perm c b acc)).trans ?_
    simpa using (List.perm_middle (a := b) (l₁ := acc) (l₂ := rest)).symm

theorem insertBy_is_insertK (c : Comp) (b : Nat) (hb : (c.find b).isSome) :
    ∀ l : List Nat, (∀ a ∈ l, (c.find a).isSome) →
      (insertBy c b l).map (keyOf c) = insertK Key.lt (keyOf c b) (l.map (keyOf c)) := by
  intro l
  induction l with
  | nil => intro _; simp [insertBy, insertK]
  | cons a rest ih =>
    intro hl
    obtain ⟨jb, hjb⟩ := Option.isSome_iff_exists.1 hb
    obtain ⟨ja, hja⟩ := Option.isSome_iff_exists.1 (hl a (by simp))
    simp only [insertBy, hjb, hja, List.map_cons, insertK]
    have e1 : keyOf c b = jb.key := by simp [keyOf, hjb]
    have e2 : keyOf c a = ja.key := by simp [keyOf, hja]
    rw [e1, e2]
    split
    · simp [e1, e2]
    · simp only [List.map_cons, e2]
      rw [ih (fun x hx => hl x (by simp [hx])), e1]

/-- the model's ranking sort, seen through the athletes' keys, is the stable key sort -/
theorem sortRanked_is_key_sort (c : Comp) (l : List Nat) (hl : ∀ a ∈ l, (c.find a).isSome) :
    (sortRanked c l).map (keyOf c) = sortK Key.lt (l.map (keyOf c)) := by
  unfold sortRanked sortK
  suffices ∀ acc : List Nat, (∀ a ∈ acc, (c.find a).isSome) →
      (l.foldl (fun acc b => insertBy c b acc) acc).map (keyOf c) =
        (l.map (keyOf c)).foldl (fun acc x => insertK Key.lt x acc) (acc.map (keyOf c)) by
    simpa using this [] (by simp)
  induction l with
  | nil => intro acc _; rfl
  | cons b rest ih =>
    intro acc hacc
    simp only [List.foldl_cons, List.map_cons]
    have hb := hl b (by simp)
    have hmem : ∀ a ∈ insertBy c b acc, (c.find a).isSome := by
      intro a ha
      rcases (insertBy_mem c b acc a).1 ha with rfl | h
      · exact hb
      · exact hacc a h
    rw [ih (fun a ha => hl a (by simp [ha])) _ hmem, insertBy_is_insertK c b hb acc hacc]

/-! ## `rankj` establishes `Ranked` -/

theorem applyAssigned_key (a : Nat → Option Nat) (j : Jumper) : (applyAssigned a j).key = j.key := by
  unfold applyAssigned; split <;> rfl
theorem applyAssigned_bib (a : Nat → Option Nat) (j : Jumper) : (applyAssigned a j).bib = j.bib := by
  unfold applyAssigned; split <;> rfl

theorem wf_found (c : Comp) (h : WF c) : ∀ b ∈ c.ranked, (c.find b).isSome := by
  intro b hb
  have : b ∈ c.jumpers.map (·.bib) := h.2.mem_iff.1 hb
  obtain ⟨j, hj, rfl⟩ := List.mem_map.1 this
  rw [find_of_mem c h.1 j hj]; rfl

theorem rankj_jumpers (c : Comp) (h : WF c) :
    (rankj c).jumpers = c.jumpers.map (fun j =>
      { j with place := 1 + (c.jumpers.filter (fun k => Key.lt k.key j.key)).length }) := by
  unfold rankj
  have hperm := sortRanked_perm c c.ranked
  have hR : (sortRanked c c.ranked).Nodup := hperm.nodup_iff.2 (h.2.nodup_iff.2 h.1)
  have hfound : ∀ b ∈ sortRanked c c.ranked, (({ c with ranked := sortRanked c c.ranked } : Comp).find b).isSome :=
    fun b hb => wf_found c h b (hperm.mem_iff.1 hb)
  have hspec := assignPlaces_spec (sortRanked c c.ranked) { c with ranked := sortRanked c c.ranked } 0 none h.1 hR hfound
  simp only at hspec
  rw [hspec]
  apply List.map_congr_left
  intro j hj
  have hkf : keyOf ({ c with ranked := sortRanked c c.ranked } : Comp) = keyOf c := rfl
  rw [hkf]
  -- position of j's bib in the sorted list
  have hjR : j.bib ∈ sortRanked c c.ranked := hperm.mem_iff.2 (h.2.mem_iff.2 (List.mem_map.2 ⟨j, hj, rfl⟩))
  obtain ⟨n, hn⟩ := List.getElem?_of_mem hjR
  have hass := assigned_eq_placesK (keyOf c) (sortRanked c c.ranked) 0 none n j.bib hR hn
  have hsort := sortRanked_is_key_sort c c.ranked (wf_found c h)
  rw [hsort, placesK_sorted Key.lt keyLt_strictTotal, ← hsort] at hass
  rw [List.getElem?_map, List.getElem?_map, hn] at hass
  simp only [Option.map_some] at hass
  have hkj : keyOf c j.bib = j.key := by simp [keyOf, find_of_mem c h.1 j hj]
  -- counting over the sorted keys = counting over the athletes
  have hcount : countLt Key.lt ((sortRanked c c.ranked).map (keyOf c)) j.key =
      (c.jumpers.filter (fun k => Key.lt k.key j.key)).length := by
    unfold countLt
    have hp : ((sortRanked c c.ranked).map (keyOf c)).Perm (c.jumpers.map Jumper.key) := by
      have h1 : ((sortRanked c c.ranked).map (keyOf c)).Perm ((c.jumpers.map (·.bib)).map (keyOf c)) :=
        (hperm.trans h.2).map _
      have h2 : (c.jumpers.map (·.bib)).map (keyOf c) = c.jumpers.map Jumper.key := by
        rw [List.map_map]
        apply List.map_congr_left
        intro k hk
        simp [keyOf, find_of_mem c h.1 k hk]
      rw [h2] at h1; exact h1
    rw [(hp.filter _).length_eq, List.filter_map, List.length_map]
    rfl
  unfold applyAssigned
  rw [hass, hkj, hcount]

theorem rankj_ranked (c : Comp) (h : WF c) : Ranked (rankj c) := by
  intro j' hj'
  rw [rankj_jumpers c h] at hj' ⊢
  obtain ⟨j, hj, rfl⟩ := List.mem_map.1 hj'
  simp only [List.filter_map, List.length_map]
  rfl

/-! ## `WF` is an invariant of `step`; `Ranked` holds after every accepted trial and survives a bar change -/

theorem WF_of_same_bibs (c c' : Comp) (hb : c'.jumpers.map (·.bib) = c.jumpers.map (·.bib)) (hr : c'.ranked.Perm c.ranked)
    (h : WF c) : WF c' := by
  unfold WF at *
  rw [hb]
  exact ⟨h.1, hr.trans h.2⟩

theorem Ranked_of_same_jumpers (c c' : Comp) (hj : c'.jumpers = c.jumpers) (h : Ranked c) : Ranked c' := by
  unfold Ranked at *; rw [hj]; exact h

theorem update_bibs (c : Comp) (j : Jumper) : (c.update j).jumpers.map (·.bib) = c.jumpers.map (·.bib) := by
  unfold Comp.update
  simp only [List.map_map]
  apply List.map_congr_left
  intro k _
  simp only [Function.comp_apply]
  split
  · next e => simpa using (beq_iff_eq.1 e).symm
  · rfl

theorem rankj_bibs (c : Comp) (h : WF c) : (rankj c).jumpers.map (·.bib) = c.jumpers.map (·.bib) := by
  rw [rankj_jumpers c h, List.map_map]
  rfl

theorem rankj_ranked_list (c : Comp) : (rankj c).ranked = sortRanked c c.ranked := by
  unfold rankj
  exact (assignPlaces_frame _ _ _ _).2.2.2.1

theorem rankj_WF (c : Comp) (h : WF c) : WF (rankj c) :=
  WF_of_same_bibs c _ (rankj_bibs c h) (by rw [rankj_ranked_list]; exact sortRanked_perm c c.ranked) h

theorem map_if_none (l : List Jumper) (p : Jumper → Bool) (f : Jumper → Jumper) (h : (l.filter p).length = 0) :
    l.map (fun j => if p j then f j else j) = l := by
  have hnil : l.filter p = [] := List.eq_nil_of_length_eq_zero h
  have hall := List.filter_eq_nil_iff.1 hnil
  rw [List.map_congr_left (g := id)]
  · simp
  · intro j hj; simp [hall j hj]

theorem rankTie_ok (c : Comp) (h : WF c) (hr : Ranked c) : WF (rankTie c) ∧ Ranked (rankTie c) := by
  unfold rankTie
  simp only
  have hb : (c.jumpers.map (fun (j : Jumper) => if reinstated c j then reinstate j else j)).map (·.bib) = c.jumpers.map (·.bib) := by
    rw [List.map_map]
    apply List.map_congr_left
    intro k _
    simp only [Function.comp_apply]
    split <;> rfl
  split
  · have hwf : WF ({ { c with jumpers := c.jumpers.map (fun (j : Jumper) => if reinstated c j then reinstate j else j) } with phase := Phase.jumpoff } : Comp) :=
      WF_of_same_bibs c _ hb (List.Perm.refl _) h
    exact ⟨rankj_WF _ hwf, rankj_ranked _ hwf⟩
  · next hn =>
    have h0 : (c.jumpers.filter (reinstated c)).length = 0 := by omega
    have hj := map_if_none c.jumpers (reinstated c) reinstate h0
    exact ⟨WF_of_same_bibs c _ (by simp only [hj]) (List.Perm.refl _) h, Ranked_of_same_jumpers c _ (by simp only [hj]) hr⟩

theorem rankLeader_ok (c : Comp) (r0 : Nat) (h : WF c) (hr : Ranked c) : WF (rankLeader c r0) ∧ Ranked (rankLeader c r0) := by
  unfold rankLeader
  split
  · next j0 _ =>
    split
    · have hwf : WF (c.update (reinstate j0)) := WF_of_same_bibs c _ (update_bibs c _) (List.Perm.refl _) h
      exact ⟨rankj_WF _ hwf, rankj_ranked _ hwf⟩
    · exact ⟨WF_of_same_bibs c _ rfl (List.Perm.refl _) h, Ranked_of_same_jumpers c _ rfl hr⟩
  · exact ⟨h, hr⟩

theorem rankOneLeft_ok (c : Comp) (w : Jumper) (h : WF c) (hr : Ranked c) : WF (rankOneLeft c w) ∧ Ranked (rankOneLeft c w) := by
  unfold rankOneLeft
  split
  · exact ⟨WF_of_same_bibs c _ rfl (List.Perm.refl _) h, Ranked_of_same_jumpers c _ rfl hr⟩
  · exact ⟨h, hr⟩

/-- **After `_rank` every place is `1 +` the number of athletes with a strictly better key** -/
theorem rank_ok (c0 : Comp) (h : WF c0) : WF (rank c0) ∧ Ranked (rank c0) := by
  have hw := rankj_WF c0 h
  have hr := rankj_ranked c0 h
  unfold rank
  simp only
  split
  · exact ⟨hw, hr⟩
  · split
    · split
      · exact rankTie_ok _ hw hr
      · exact rankLeader_ok _ _ hw hr
    · exact rankOneLeft_ok _ _ hw hr
    · exact ⟨hw, hr⟩

theorem find_none_not_mem (c : Comp) (b : Nat) (h : c.find b = none) : b ∉ c.jumpers.map (·.bib) := by
  intro hb
  obtain ⟨j, hj, rfl⟩ := List.mem_map.1 hb
  unfold Comp.find at h
  have := List.find?_eq_none.1 h j hj
  simp at this

theorem step_WF (c : Comp) (op : Op) (h : WF c) : WF (step c op).1 := by
  cases op with
  | add b =>
    rw [step_add]
    split
    · next hc =>
      unfold WF addResult
      simp only [List.map_append, List.map_cons, List.map_nil]
      refine ⟨?_, h.2.append_right _⟩
      rw [List.nodup_append]
      refine ⟨h.1, by simp, ?_⟩
      intro a ha b' hb'
      simp only [List.mem_singleton] at hb'
      subst hb'
      intro e; subst e
      exact find_none_not_mem c _ hc.2 ha
    · exact h
  | bar x =>
    rw [step_bar]
    split
    · refine WF_of_same_bibs c _ ?_ (List.Perm.refl _) h
      simp only [barResult, List.map_map]
      apply List.map_congr_left
      intro k _
      simp only [Function.comp_apply]
      split <;> rfl
    · exact h
  | trial b t =>
    rcases step_trial c b t with ⟨j, j', _, _, _, _, hs⟩ | ⟨h1, _⟩
    · rw [hs]
      show WF (rank (logTrial c b t j'))
      exact (rank_ok _ (WF_of_same_bibs c (logTrial c b t j') (by simp [update_bibs]) (List.Perm.refl _) h)).1
    · rw [h1]; exact h

theorem barResult_ranked (c : Comp) (x : Int) (h : Ranked c) : Ranked (barResult c x) := by
  intro j' hj'
  simp only [barResult] at hj' ⊢
  obtain ⟨j, hj, rfl⟩ := List.mem_map.1 hj'
  have hkey : ∀ k : Jumper, (if (!k.eliminated) = true then { k with dismissed := false } else k).key = k.key := by
    intro k; split <;> rfl
  have hplace : (if (!j.eliminated) = true then { j with dismissed := false } else j).place = j.place := by
    split <;> rfl
  rw [hplace, List.filter_map, List.length_map]
  simp only [Function.comp_def, hkey]
  exact h j hj

/-- the ranking invariant: once the competition is past `started`, places follow the keys -/
def PlacesInv (c : Comp) : Prop :=
  WF c ∧ (c.phase = .scheduled ∨ c.phase = .started ∨ Ranked c)

theorem step_PlacesInv (c : Comp) (op : Op) (h : PlacesInv c) : PlacesInv (step c op).1 := by
  refine ⟨step_WF c op h.1, ?_⟩
  cases op with
  | add b =>
    rw [step_add]
    split
    · next hc => left; simp [addResult, hc.1]
    · exact h.2
  | bar x =>
    rw [step_bar]
    split
    · next hb =>
      rcases h.2 with hs | hs | hr
      · right; left; simp [barResult, hs]
      · right; left; simp [barResult, hs]
      · right; right; exact barResult_ranked c x hr
    · exact h.2
  | trial b t =>
    rcases step_trial c b t with ⟨j, j', _, _, _, _, hs⟩ | ⟨h1, _⟩
    · rw [hs]
      right; right
      show Ranked (rank (logTrial c b t j'))
      exact (rank_ok _ (WF_of_same_bibs c (logTrial c b t j') (by simp [update_bibs]) (List.Perm.refl _) h.1)).2
    · rw [h1]; exact h.2

end AthlibVerif.HJ
