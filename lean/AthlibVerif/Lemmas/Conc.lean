import AthlibVerif.Model.Conc
/-!
Invariant reasoning for `Conc`: one generic rule (`runSched_inv`) and the per-protocol step lemmas.
Core Lean only.
-/
namespace AthlibVerif.Conc

/-- **Invariant rule.**  `GI` talks about the store, `TI` about one thread in a store.  If one step of a
thread that satisfies `TI` keeps `GI`, re-establishes `TI` for the stepping thread and does not disturb `TI`
of any other thread, then both hold after *every* schedule, for any number of threads. -/
theorem runSched_inv {S T : Type} (step : S → T → S × T) (GI : S → Prop) (TI : S → T → Prop)
    (hstep : ∀ s t, GI s → TI s t →
      GI (step s t).1 ∧ TI (step s t).1 (step s t).2 ∧ ∀ u, TI s u → TI (step s t).1 u)
    (w : World S T) (hg : GI w.g) (ht : ∀ t ∈ w.ts, TI w.g t) (sched : List Nat) :
    GI (runSched step w sched).g ∧ ∀ t ∈ (runSched step w sched).ts, TI (runSched step w sched).g t := by
  unfold runSched
  induction sched generalizing w with
  | nil => exact ⟨hg, ht⟩
  | cons i rest ih =>
    simp only [List.foldl_cons]
    apply ih
    · unfold stepW
      split
      · exact hg
      · next t hti => exact (hstep w.g t hg (ht t (List.mem_of_getElem? hti))).1
    · unfold stepW
      split
      · exact ht
      · next t hti =>
        have key := hstep w.g t hg (ht t (List.mem_of_getElem? hti))
        intro u hu
        rcases List.mem_or_eq_of_mem_set hu with hu' | hu'
        · exact key.2.2 u (ht u hu')
        · rw [hu']; exact key.2.1

/-! ### tables -/

theorem take_succ_getElem (src : Table) (i : Nat) (e : Nat × Nat) (h : src[i]? = some e) :
    src.take i ++ [e] = src.take (i + 1) := by
  rw [List.take_add_one, h]; rfl

theorem take_of_none (src : Table) (i : Nat) (h : src[i]? = none) : src.take i = src :=
  List.take_of_length_le (List.getElem?_eq_none_iff.1 h)

/-! ### 1. lazy dictionary, repaired -/

def lazyTI (src : Table) (g : Option Table) (t : LazyT) : Prop :=
  match t.pc with
  | .start => True
  | .build i acc => acc = src.take i
  | .publish acc => acc = src
  | .check => g = some src
  | .fetch => g = some src
  | .done r => r = src.lookup t.key

def tableGI (src : Table) (g : Option Table) : Prop := g = none ∨ g = some src

theorem lazyTI_mono (src : Table) (g g' : Option Table) (t : LazyT)
    (hmono : g = some src → g' = some src) (ht : lazyTI src g t) : lazyTI src g' t := by
  unfold lazyTI at *
  cases hpc : t.pc <;> simp only [hpc] at ht ⊢ <;> first | exact ht | exact hmono ht | trivial

theorem lazyStep_inv (src : Table) (g : Option Table) (t : LazyT) (hg : tableGI src g) (ht : lazyTI src g t) :
    tableGI src (lazyStep src g t).1 ∧ lazyTI src (lazyStep src g t).1 (lazyStep src g t).2 ∧
      ∀ u, lazyTI src g u → lazyTI src (lazyStep src g t).1 u := by
  have same : ∀ u, lazyTI src g u → lazyTI src g u := fun _ h => h
  cases hpc : t.pc with
  | start =>
    simp only [lazyStep, hpc]
    split
    · exact ⟨hg, by simp [lazyTI], same⟩
    · next h =>
      have : g = some src := by
        rcases hg with h' | h'
        · simp [h'] at h
        · exact h'
      exact ⟨hg, by simp [lazyTI, this], same⟩
  | build i acc =>
    simp only [lazyTI, hpc] at ht
    simp only [lazyStep, hpc]
    split
    · next e he => exact ⟨hg, by simp [lazyTI, ht, take_succ_getElem src i e he], same⟩
    · next he => exact ⟨hg, by simp [lazyTI, ht, take_of_none src i he], same⟩
  | publish acc =>
    simp only [lazyTI, hpc] at ht
    simp only [lazyStep, hpc]
    exact ⟨Or.inr (by rw [ht]), by simp [lazyTI, ht], fun u hu => lazyTI_mono src g _ u (fun _ => by rw [ht]) hu⟩
  | check =>
    simp only [lazyTI, hpc] at ht
    simp only [lazyStep, hpc]
    split
    · exact ⟨hg, by simp [lazyTI, ht], same⟩
    · next h =>
      refine ⟨hg, ?_, same⟩
      simp only [lazyTI]
      simp only [ht, Option.getD_some] at h
      cases hl : src.lookup t.key with
      | none => rfl
      | some v => simp [hl] at h
  | fetch =>
    simp only [lazyTI, hpc] at ht
    simp only [lazyStep, hpc]
    exact ⟨hg, by simp [lazyTI, ht], same⟩
  | done r =>
    simp only [lazyStep, hpc]
    exact ⟨hg, by simpa [lazyTI, hpc] using ht, same⟩

/-! ### 2. assign after build -/

def assignTI (src : Table) (g : Option Table) (t : AssignT) : Prop :=
  match t.pc with
  | .start => True
  | .load => True
  | .assign tbl => tbl = src
  | .check => g = some src
  | .fetch => g = some src
  | .done r => r = src.lookup t.key

theorem assignTI_mono (src : Table) (g g' : Option Table) (t : AssignT)
    (hmono : g = some src → g' = some src) (ht : assignTI src g t) : assignTI src g' t := by
  unfold assignTI at *
  cases hpc : t.pc <;> simp only [hpc] at ht ⊢ <;> first | exact ht | exact hmono ht | trivial

theorem assignStep_inv (src : Table) (g : Option Table) (t : AssignT) (hg : tableGI src g)
    (ht : assignTI src g t) :
    tableGI src (assignStep src g t).1 ∧ assignTI src (assignStep src g t).1 (assignStep src g t).2 ∧
      ∀ u, assignTI src g u → assignTI src (assignStep src g t).1 u := by
  have same : ∀ u, assignTI src g u → assignTI src g u := fun _ h => h
  cases hpc : t.pc with
  | start =>
    simp only [assignStep, hpc]
    split
    · exact ⟨hg, by simp [assignTI], same⟩
    · next h =>
      have : g = some src := by
        rcases hg with h' | h'
        · simp [h'] at h
        · exact h'
      exact ⟨hg, by simp [assignTI, this], same⟩
  | load =>
    simp only [assignStep, hpc]
    exact ⟨hg, by simp [assignTI], same⟩
  | assign tbl =>
    simp only [assignTI, hpc] at ht
    simp only [assignStep, hpc]
    exact ⟨Or.inr (by rw [ht]), by simp [assignTI, ht], fun u hu => assignTI_mono src g _ u (fun _ => by rw [ht]) hu⟩
  | check =>
    simp only [assignTI, hpc] at ht
    simp only [assignStep, hpc]
    split
    · exact ⟨hg, by simp [assignTI, ht], same⟩
    · next h =>
      refine ⟨hg, ?_, same⟩
      simp only [assignTI]
      simp only [ht, Option.getD_some] at h
      cases hl : src.lookup t.key with
      | none => rfl
      | some v => simp [hl] at h
  | fetch =>
    simp only [assignTI, hpc] at ht
    simp only [assignStep, hpc]
    exact ⟨hg, by simp [assignTI, ht], same⟩
  | done r =>
    simp only [assignStep, hpc]
    exact ⟨hg, by simpa [assignTI, hpc] using ht, same⟩

/-! ### 3. look-up with thread-local results -/

def lookTI (G : Grader) (t : LookT) : Prop :=
  match t.pc with
  | .start => True
  | .gotAge ax => ax = G.findAge t.q.age
  | .gotRow ax fx => ax = G.findAge t.q.age ∧ fx = G.findRow t.q.ev
  | .done r => r = lookSpec G t.q

theorem lookLocalStep_inv (G : Grader) (s : Scratch) (t : LookT) (ht : lookTI G t) :
    lookTI G (lookLocalStep G s t).2 := by
  cases hpc : t.pc with
  | start => simp [lookLocalStep, hpc, lookTI]
  | gotAge ax =>
    simp only [lookTI, hpc] at ht
    simp [lookLocalStep, hpc, lookTI, ht]
  | gotRow ax fx =>
    simp only [lookTI, hpc] at ht
    simp [lookLocalStep, hpc, lookTI, lookSpec, ht.1, ht.2]
  | done r =>
    simp only [lookLocalStep, hpc]
    simpa [lookTI, hpc] using ht

/-! ### 4. bounded memo cache -/

def cacheGI (truth : Nat → Bool) (c : Cache) : Prop := ∀ p ∈ c, p.2 = truth p.1

def cacheTI (truth : Nat → Bool) (t : CacheT) : Prop :=
  match t.pc with
  | .done r => r = truth t.key
  | _ => True

theorem mem_of_lookup (c : Cache) (k : Nat) (v : Bool) (h : c.lookup k = some v) : (k, v) ∈ c := by
  induction c with
  | nil => simp [List.lookup] at h
  | cons p rest ih =>
    obtain ⟨k', v'⟩ := p
    by_cases hk : k = k'
    · subst hk
      simp [List.lookup] at h
      simp [h]
    · have : (k == k') = false := by simpa using hk
      simp only [List.lookup, this] at h
      exact List.mem_cons_of_mem _ (ih h)

theorem mem_put (c : Cache) (k : Nat) (v : Bool) (p : Nat × Bool) (h : p ∈ put c k v) : p ∈ c ∨ p = (k, v) := by
  induction c with
  | nil => simp [put] at h; exact Or.inr h
  | cons q rest ih =>
    obtain ⟨k', v'⟩ := q
    simp only [put] at h
    split at h
    · rcases List.mem_cons.1 h with h | h
      · exact Or.inr h
      · exact Or.inl (List.mem_cons_of_mem _ h)
    · rcases List.mem_cons.1 h with h | h
      · exact Or.inl (by rw [h]; exact List.mem_cons_self)
      · rcases ih h with h | h
        · exact Or.inl (List.mem_cons_of_mem _ h)
        · exact Or.inr h

theorem length_put (c : Cache) (k : Nat) (v : Bool) : (put c k v).length ≤ c.length + 1 := by
  induction c with
  | nil => simp [put]
  | cons q rest ih =>
    obtain ⟨k', v'⟩ := q
    simp only [put]
    split <;> simp <;> omega

theorem mem_evict (cap : Nat) (c : Cache) (p : Nat × Bool) (h : p ∈ evict cap c) : p ∈ c := by
  unfold evict at h
  split at h
  · exact List.mem_of_mem_take h
  · exact h

theorem length_evict (cap : Nat) (c : Cache) (hcap : 1 ≤ cap) : (evict cap c).length + 1 ≤ cap := by
  unfold evict
  split
  · rw [List.length_take]; omega
  · omega

theorem cacheStep_inv (truth : Nat → Bool) (cap : Nat) (c : Cache) (t : CacheT)
    (hg : cacheGI truth c) (ht : cacheTI truth t) :
    cacheGI truth (cacheStep truth cap c t).1 ∧ cacheTI truth (cacheStep truth cap c t).2 := by
  cases hpc : t.pc with
  | start =>
    simp only [cacheStep, hpc]
    split
    · next v hv =>
      refine ⟨hg, ?_⟩
      simp only [cacheTI]
      exact hg _ (mem_of_lookup c t.key v hv)
    · exact ⟨hg, by simp [cacheTI]⟩
  | miss =>
    simp only [cacheStep, hpc]
    refine ⟨?_, by simp [cacheTI]⟩
    intro p hp
    rcases mem_put _ _ _ _ hp with h | h
    · exact hg p (mem_evict cap c p h)
    · rw [h]
  | done r =>
    simp only [cacheStep, hpc]
    exact ⟨hg, by simpa [cacheTI, hpc] using ht⟩

theorem cacheStep_bounded (truth : Nat → Bool) (cap : Nat) (hcap : 1 ≤ cap) (c : Cache) (t : CacheT)
    (hc : c.length ≤ cap) : (cacheStep truth cap c t).1.length ≤ cap := by
  cases hpc : t.pc with
  | start => simp only [cacheStep, hpc]; split <;> exact hc
  | miss =>
    simp only [cacheStep, hpc]
    have h1 := length_put (evict cap c) t.key (truth t.key)
    have h2 := length_evict cap c hcap
    omega
  | done r => simp only [cacheStep, hpc]; exact hc

/-! ### single-threaded runs (what "the sequential result" is) -/

/-- `n` steps of one thread running alone -/
def iter {S T : Type} (step : S → T → S × T) : Nat → S × T → S × T
  | 0, x => x
  | n + 1, x => iter step n (step x.1 x.2)

theorem iter_add {S T : Type} (step : S → T → S × T) (a b : Nat) (x : S × T) :
    iter step (a + b) x = iter step b (iter step a x) := by
  induction a generalizing x with
  | zero => simp [iter]
  | succ a ih => rw [Nat.add_right_comm]; exact ih _

theorem runSched_solo {S T : Type} (step : S → T → S × T) (g : S) (t : T) (n : Nat) :
    runSched step ⟨g, [t]⟩ (List.replicate n 0) = ⟨(iter step n (g, t)).1, [(iter step n (g, t)).2]⟩ := by
  induction n generalizing g t with
  | zero => rfl
  | succ n ih =>
    have h := ih (step g t).1 (step g t).2
    simp only [runSched, List.replicate_succ, List.foldl_cons] at h ⊢
    simpa [stepW, iter] using h

theorem lazy_build_loop (src : Table) (k d i : Nat) (h : i + d = src.length) :
    iter (lazyStep src) d (none, ⟨.build i (src.take i), k⟩) = (none, ⟨.build src.length src, k⟩) := by
  induction d generalizing i with
  | zero =>
    have : i = src.length := by omega
    subst this
    simp [iter]
  | succ d ih =>
    have hi : i < src.length := by omega
    have he : src[i]? = some src[i] := List.getElem?_eq_getElem hi
    simp only [iter, lazyStep, he]
    rw [take_succ_getElem src i _ he]
    exact ih (i + 1) (by omega)

/-- a first call running alone returns `src.lookup key` after `src.length + 5` steps -/
theorem lazy_solo (src : Table) (k : Nat) :
    iter (lazyStep src) (src.length + 5) (none, ⟨.start, k⟩) = (some src, ⟨.done (src.lookup k), k⟩) := by
  have h1 : iter (lazyStep src) 1 (none, ⟨.start, k⟩) = (none, ⟨.build 0 (src.take 0), k⟩) := by
    simp [iter, lazyStep]
  have h2 := lazy_build_loop src k src.length 0 (by omega)
  have h3 : iter (lazyStep src) 4 (none, ⟨.build src.length src, k⟩) = (some src, ⟨.done (src.lookup k), k⟩) := by
    cases hl : src.lookup k <;> simp [iter, lazyStep, hl]
  have e : src.length + 5 = 1 + src.length + 4 := by omega
  rw [e, iter_add, iter_add, h1, h2, h3]

end AthlibVerif.Conc
