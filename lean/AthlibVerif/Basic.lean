def hello := "world"
