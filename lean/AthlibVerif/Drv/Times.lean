import AthlibVerif.Model.Times
/-! driver commands for C06/C18 (area `tm`).  Strings travel as space-separated decimal code points. -/
namespace AthlibVerif.Drv
open AthlibVerif AthlibVerif.Digits AthlibVerif.Times

def decodeCps (s : String) : Option (List Char) :=
  (s.splitOn " ").filter (· ≠ "") |>.mapM (fun w => w.toNat?.map Char.ofNat)

def encodeCps (l : List Char) : String :=
  " ".intercalate (l.map (fun c => toString c.toNat))

def showNum (n : Num) : String :=
  if n.isInt then s!"i {n.num}" else s!"f {n.num} {n.exp}"

def handleTimes (args : List String) : String :=
  match args with
  | ["rus", s, p, m] =>
    match decodeCps s, p.toNat?, m.toNat? with
    | some s, some p, some m => "s " ++ encodeCps (roundUpStr s p m)
    | _, _, _ => "bad-op"
  | ["fmt", w, t, p] =>
    match w.toNat?, decodeCps t, p.toNat? with
    | some w, some t, some p =>
      match formatSeconds w t p with
      | .ok s => "s " ++ encodeCps s
      | .valueError => "ValueError"
      | .indexError => "IndexError"
    | _, _, _ => "bad-op"
  | ["hms", t] =>
    match decodeCps t with
    | some t => match parseHms t with
      | .ok n => showNum n
      | .error _ => "ValueError"
    | none => "bad-op"
  | ["hand", t] =>
    match decodeCps t with
    | some t => if isHandTiming t then "true" else "false"
    | none => "bad-op"
  | _ => "bad-op"
end AthlibVerif.Drv
