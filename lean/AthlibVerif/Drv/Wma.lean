import AthlibVerif.Model.Wma
import AthlibVerif.Gen.WmaData
/-! driver commands for WMA age grading (area `wma`).  Replies: exact fractions `num/den` or an error word. -/
namespace AthlibVerif.Drv
open AthlibVerif AthlibVerif.Wma

def showErr : Err → String
  | .value => "ValueError" | .noFactor => "NoFactor" | .noDistance => "NoDistance"
  | .zeroDiv => "ZeroDivisionError" | .noOpenBest => "NoOpenBest" | .noRunRows => "NoRunRows"

def showRat (q : Rat) : String := s!"{q.num}/{q.den}"

def showWma : Res → String
  | .ok q => showRat q
  | .error e => showErr e

/-- `n` or `n/d` (d > 0) -/
def parseRat (s : String) : Option Rat :=
  match s.splitOn "/" with
  | [n] => n.toInt?.map (fun (i : Int) => (i : Rat))
  | [n, d] => match n.toInt?, d.toNat? with
    | some i, some k => if k = 0 then none else some ((i : Rat) / (k : Rat))
    | _, _ => none
  | _ => none

/-- age field: `-` is Python's `None` (falsy, like 0) -/
def parseAge (s : String) : Option Rat := if s == "-" then some 0 else parseRat s

def parseHint (s : String) : Option (Option Nat) := if s == "-" then some none else s.toNat?.map some

/-- the wrappers pick the 2015 tables only for the *integer* 2015 (`year == 2015`); the string
    spellings and the defaults all fall through to the 2023 tables -/
def tableOfYear (y : String) : Option Table :=
  if y == "2015" then some Gen.wma2015
  else if y == "2023" || y == "s2015" || y == "s2023" || y == "dflt" then some Gen.wma2023
  else none

def showRow (r : Row) : String :=
  s!"{r.event}:{r.km}:{r.best}:" ++ ",".intercalate (r.facs.map (fun x => match x with | some v => toString v | none => "n"))

def handleWma (args : List String) : String :=
  match args with
  | ["factor", y, g, age, e, hint] =>
    match parseAge age, parseHint hint with
    | some a, some h =>
      if y == "athlons" then showWma (athlonFactor Gen.wmaAthlons Gen.wmaMinAge g a e)
      else match tableOfYear y with
        | some t => showWma (factor t g a e h)
        | none => "bad-op"
    | _, _ => "bad-op"
  | ["facs", y, g, e, hint, ages] =>
    -- `factor` for a list of ages: kind and gender are looked at once (same value as `factor` per age:
    -- `factor t g a e h = factorCore t g' a (upper e) h` once `kindOf e` and `normGender g` succeed)
    match parseHint hint, tableOfYear y with
    | some h, some t =>
      let one : Rat → String := match kindOf e, normGender g with
        | none, _ => fun _ => showErr .value
        | some _, .error er => fun _ => showErr er
        | some _, .ok gg => let ev := upper e; fun a => showWma (factorCore t gg a ev h)
      " ".intercalate ((ages.splitOn ",").map (fun a => match parseAge a with
        | some a => one a
        | none => "bad-op"))
    | _, _ => "bad-op"
  | ["best", y, g, e, hint] =>
    match parseHint hint with
    | some h =>
      if y == "athlons" then showErr .noOpenBest
      else match tableOfYear y with
        | some t => showWma (best t g e h)
        | none => "bad-op"
    | none => "bad-op"
  | ["grade", y, g, age, e, perf, hint] =>
    match parseAge age, parseRat perf, parseHint hint with
    | some a, some p, some h =>
      if y == "athlons" then showErr .noOpenBest
      else match tableOfYear y with
        | some t => showWma (grade t g a e p h)
        | none => "bad-op"
    | _, _, _ => "bad-op"
  | ["dist", e] => match getDistance e with | some d => toString d | none => "none"
  | ["kind", e] => match kindOf e with
    | some .throw => "throw" | some .jump => "jump" | some .track => "track" | some .road => "road" | none => "none"
  | ["dump", y, g] =>
    let t? := if y == "athlons" then some Gen.wmaAthlons else if y == "2015" then some Gen.wma2015
              else if y == "2023" then some Gen.wma2023 else none
    match t?, normGender g with
    | some t, .ok gg =>
      s!"{t.kmScale} {t.bestScale} {t.facScale} " ++ ",".intercalate (t.ages.map toString) ++ " " ++
        " ".intercalate ((t.rows gg).map showRow)
    | _, _ => "bad-op"
  | _ => "bad-op"
end AthlibVerif.Drv
