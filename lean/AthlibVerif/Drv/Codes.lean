import AthlibVerif.Model.Codes
/-! driver commands for the event-code utilities (area "cd"); strings travel as space-separated code points -/
namespace AthlibVerif.Drv
open AthlibVerif AthlibVerif.Codes AthlibVerif.GRE

def cdChars (s : String) : List Char := (s.splitOn " ").filterMap (fun t => t.toNat?.map Char.ofNat)
def cdShow (s : List Char) : String := " ".intercalate (s.map (fun c => toString c.toNat))
def cdErr : PyErr → String
  | .valueError => "ValueError" | .attributeError => "AttributeError" | .typeError => "TypeError" | .indexError => "IndexError"

def cdDedupSpans (caps : Caps) : List (Nat × Nat × Nat) :=
  -- most recent capture of each group, ascending group number
  let ids := (caps.map (·.1)).eraseDups
  let l := ids.filterMap (fun id => (span caps id).map (fun se => (id, se.1, se.2)))
  l.mergeSort (fun a b => a.1 ≤ b.1)

def handleCodes (args : List String) : String :=
  match args with
  | ["norm", s] => match normalize (cdChars s) with
    | .ok r => "ok " ++ cdShow r
    | .error e => cdErr e
  | ["key", s] => match sortKey (cdChars s) with
    | .ok k => s!"ok {k.1} {k.2}"
    | .error e => cdErr e
  | ["text", s] => match textKey (cdChars s) with
    | .ok r => "ok " ++ cdShow r
    | .error e => cdErr e
  | ["dist", s] => match getDistance 8 (cdChars s) with
    | .ok (some n) => s!"ok {n}"
    | .ok none => "ok none"
    | .error e => cdErr e
  | ["dur", s] => match durationTime (cdChars s) with
    | .ok (some n) => s!"ok {n}"
    | .ok none => "ok none"
    | .error e => cdErr e
  | ["unit", s] => unitName (cdChars s)
  | ["sort", s] => match sortBy ((s.splitOn "|").map cdChars) with
    | .ok l => "ok " ++ "|".intercalate (l.map cdShow)
    | .error e => cdErr e
  | ["m", p, s] =>
    match matchFirst (pat p) (symsOf (cdChars s)) with
    | none => "none"
    | some (e, caps) => s!"e={e} " ++ " ".intercalate ((cdDedupSpans caps).map (fun t => s!"{t.1}:{t.2.1}-{t.2.2}"))
  | _ => "bad-op"
end AthlibVerif.Drv
