import AthlibVerif.Model.Perf
/-! driver commands for performance validation (area "pf") -/
namespace AthlibVerif.Drv
open AthlibVerif AthlibVerif.Perf

def pfChars (s : String) : List Char := (s.splitOn " ").filterMap (fun t => t.toNat?.map Char.ofNat)
def pfShow (s : List Char) : String := " ".intercalate (s.map (fun c => toString c.toNat))

def handlePerf (args : List String) : String :=
  match args with
  | ["check", d, t, g] => match check (pfChars d) (pfChars t) (pfChars g) with
    | .ok r => ("ok " ++ pfShow r).trimAscii.toString
    | .refused => "refused"
    | .skip => "skip"
  | _ => "bad-op"
end AthlibVerif.Drv
