import AthlibVerif.Model.Junior
import AthlibVerif.Gen.Junior
/-! driver commands for the junior / table scoring systems (area `jr`)

* `jr ty <gender> <age> <event> <k> <hand 0|1>`   Tyrving
* `jr qk <competition type> <event> <k>`          QuadKids
* `jr sh <event> <k>`                             Sportshall
* `jr bg <ag> <gender> <event> <k>`               Bulgarian U16
* `jr hu <gender> <inout> <event> <k>`            Hungarian: `p <repaired points> raw <⌊a(p+b)²+c⌋>`
* `jr stat`                                       row counts and checksums of the generated tables
Reply: `p <points>` or `ValueError` / `KeyError`. -/
namespace AthlibVerif.Drv
open AthlibVerif AthlibVerif.Junior

def jrShow : JRes → String
  | .pts p => s!"p {p}" | .valueError => "ValueError" | .keyError => "KeyError"

def jrTabSum (t : List (Nat × Nat)) : Nat := t.foldl (fun s e => s + e.1 + e.2) 0

def jrTySum (r : TyRow) : Nat :=
  match r.cal with
  | .race d m b => d + m + jrTabSum b
  | .jump m b => m + jrTabSum b
  | .stav a b c x y z => a + b + c + jrTabSum x + jrTabSum y + jrTabSum z
  | .bad => 0

def jrStat : String :=
  let ty := Gen.tyrvingTables.foldl (fun s r => s + jrTySum r) Gen.tyrvingScale
  let qk := Gen.qkidsTables.foldl (fun s r => s + r.incN + r.incD + r.base + r.top) 0
  let sh := Gen.sportshallTables.foldl (fun s e => s + e.incN + e.incD + e.incPts + jrTabSum e.rows) 0
  let bg := Gen.bulgarianTables.foldl (fun s t => s + t.minV + t.maxV + t.runs.foldl (fun s r => s + r.1 + r.2.1 + r.2.2) 0) 0
  let hu := Gen.hungarianFactors.foldl (fun s r => s + r.aN + r.aD + r.bN.natAbs + r.bD + r.cN.natAbs + r.cD) 0
  s!"ty {Gen.tyrvingTables.length} {ty} qk {Gen.qkidsTables.length} {qk} sh {Gen.sportshallTables.length} {sh} bg {Gen.bulgarianTables.length} {bg} hu {Gen.hungarianFactors.length} {hu}"

def handleJunior (args : List String) : String :=
  match args with
  | ["ty", g, age, e, k, hand] =>
    match age.toNat?, k.toNat? with
    | some a, some k => jrShow (Tyrving.score Gen.tyrvingScale Gen.tyrvingTables g a e k (hand == "1"))
    | _, _ => "bad-op"
  | ["qk", c, e, k] =>
    match k.toNat? with
    | some k => jrShow (Qkids.score Gen.qkidsTables Gen.qkidsTypeMap c e k)
    | none => "bad-op"
  | ["sh", e, k] =>
    match k.toNat? with
    | some k => jrShow (Sportshall.score Gen.sportshallTables e k)
    | none => "bad-op"
  | ["bg", ag, g, e, k] =>
    match k.toNat? with
    | some k => jrShow (Bulgarian.score Gen.bulgarianTables ag g e k)
    | none => "bad-op"
  | ["hu", g, io, e, k] =>
    match k.toNat? with
    | some k => match Hungarian.find Gen.hungarianFactors g io e with
      | some r => s!"p {Hungarian.points r k} raw {Hungarian.raw r k}"
      | none => "KeyError"
    | none => "bad-op"
  | ["stat"] => jrStat
  | _ => "bad-op"
end AthlibVerif.Drv
