import AthlibVerif.Model.Conc
import AthlibVerif.Model.Access
import AthlibVerif.Gen.SharedAccess
/-! driver commands for the concurrency model: run a protocol along a schedule, bounded exploration of all
    schedules of small instances, evaluation of the access discipline on the regenerated lists -/
namespace AthlibVerif.Drv
open AthlibVerif AthlibVerif.Conc

def demoSrc : Table := [(1, 10), (2, 20)]
def demoKeys (n : Nat) : List Nat := [1, 2, 1, 3].take n
def demoG : Grader := { findRow := id, findAge := id, cell := fun fx ax => 10 * fx + ax }
def demoQs (n : Nat) : List Query := [⟨1, 2⟩, ⟨3, 4⟩, ⟨5, 6⟩, ⟨1, 2⟩].take n
def demoTruth (k : Nat) : Bool := k % 2 == 0
def demoCache : Cache := [(9, false), (1, false)]
def demoCKeys (n : Nat) : List Nat := [1, 2, 4, 1].take n

def showSched (s : List Nat) : String := " ".intercalate (s.map toString)

/-- the schedule reported is the list as given to `runSched` (first element runs first) -/
def explore (proto : String) (n d : Nat) : String :=
  let fix (r : Option (List Nat)) := match r with
    | some s => "race " ++ showSched s
    | none => s!"ok {n ^ d}"
  match proto with
  | "lazy" => fix (findRace (lazyStep demoSrc) (lazyInit none (demoKeys n))
      (fun t => match t.pc with | .done r => r != demoSrc.lookup t.key | _ => false) n d)
  | "lazyPinned" => fix (findRace (lazyPinnedStep demoSrc) (lazyPinnedInit none (demoKeys n))
      (fun t => match t.pc with | .done r => r != demoSrc.lookup t.key | _ => false) n d)
  | "assign" => fix (findRace (assignStep demoSrc) (assignInit none (demoKeys n))
      (fun t => match t.pc with | .done r => r != demoSrc.lookup t.key | _ => false) n d)
  | "lookupLocal" => fix (findRace (lookLocalStep demoG) (lookLocalInit ⟨0, 0⟩ (demoQs n))
      (fun t => match t.pc with | .done r => r != lookSpec demoG t.q | _ => false) n d)
  | "lookupShared" => fix (findRace (lookSharedStep demoG) (lookSharedInit ⟨0, 0⟩ (demoQs n))
      (fun t => match t.pc with | .done r => r != lookSpec demoG t.q | _ => false) n d)
  | "cache" => fix (findRace (cacheStep demoTruth 2) (cacheInit demoCache (demoCKeys n))
      (fun t => match t.pc with | .done r => r != demoTruth t.key | _ => false) n d)
  | "cachePinned" => fix (findRace (cachePinnedStep demoTruth 2) (cachePinnedInit demoCache (demoCKeys n))
      (fun t => match t.pc with | .done r => r != some (demoTruth t.key) | _ => false) n d)
  | _ => "error unknown-protocol"

def showONat : Option Nat → String
  | none => "none" | some v => toString v

def runProto (proto : String) (n : Nat) (sched : List Nat) : String :=
  match proto with
  | "lazy" => " | ".intercalate ((runSched (lazyStep demoSrc) (lazyInit none (demoKeys n)) sched).ts.map fun t =>
      match t.pc with | .done r => "done " ++ showONat r | _ => "running")
  | "lazyPinned" => " | ".intercalate ((runSched (lazyPinnedStep demoSrc) (lazyPinnedInit none (demoKeys n)) sched).ts.map fun t =>
      match t.pc with | .done r => "done " ++ showONat r | _ => "running")
  | "assign" => " | ".intercalate ((runSched (assignStep demoSrc) (assignInit none (demoKeys n)) sched).ts.map fun t =>
      match t.pc with | .done r => "done " ++ showONat r | _ => "running")
  | "lookupLocal" => " | ".intercalate ((runSched (lookLocalStep demoG) (lookLocalInit ⟨0, 0⟩ (demoQs n)) sched).ts.map fun t =>
      match t.pc with | .done r => s!"done {r}" | _ => "running")
  | "lookupShared" => " | ".intercalate ((runSched (lookSharedStep demoG) (lookSharedInit ⟨0, 0⟩ (demoQs n)) sched).ts.map fun t =>
      match t.pc with | .done r => s!"done {r}" | _ => "running")
  | "cache" => " | ".intercalate ((runSched (cacheStep demoTruth 2) (cacheInit demoCache (demoCKeys n)) sched).ts.map fun t =>
      match t.pc with | .done r => s!"done {r}" | _ => "running")
  | "cachePinned" => " | ".intercalate ((runSched (cachePinnedStep demoTruth 2) (cachePinnedInit demoCache (demoCKeys n)) sched).ts.map fun t =>
      match t.pc with | .done (some r) => s!"done {r}" | .done none => "done KeyError" | _ => "running")
  | _ => "error unknown-protocol"

def handleConc (args : List String) : String :=
  match args with
  | ["explore", proto, n, d] =>
    match n.toNat?, d.toNat? with
    | some n, some d => if n ≤ 4 ∧ d ≤ 14 then explore proto n d else "error too-large"
    | _, _ => "bad-op"
  | ["run", proto, n, sched] =>
    match n.toNat? with
    | some n => runProto proto n ((sched.splitOn " ").filterMap String.toNat?)
    | none => "bad-op"
  | ["discipline"] =>
    if Access.disciplineOK Gen.sharedAccess then s!"ok {Gen.sharedAccess.length}"
    else "broken " ++ ", ".intercalate (Access.offenders Gen.sharedAccess)
  | _ => "bad-op"
end AthlibVerif.Drv
