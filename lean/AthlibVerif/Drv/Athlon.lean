import AthlibVerif.Model.Athlon
import AthlibVerif.Gen.AthlonData
/-! driver commands for combined-events scoring -/
namespace AthlibVerif.Drv
open AthlibVerif AthlibVerif.Athlon

def showRes : Res → String
  | .none => "none" | .points p => s!"p {p}" | .valueError => "ValueError" | .otherError => "OtherError"

def handleAthlon (args : List String) : String :=
  match args with
  | ["score", g, e, k, age, esaa] =>
    match k.toNat? with
    | some k =>
      let age? : Option (Option Nat) := if age == "-" then some none else age.toNat?.map some
      match age? with
      | some a => showRes (score Gen.scoringTable Gen.esaaRow Gen.athlonAges g e k a (esaa == "1"))
      | none => "bad-op"
    | none => "bad-op"
  | ["needed", g, e, s] =>
    match s.toInt? with
    | some s => match needed Gen.scoringTable g e s with
      | .none => "none" | .mark k => s!"k {k}" | .unreachable => "unreachable"
    | none => "bad-op"
  | ["rows"] => toString (Gen.scoringTable.map (fun r => s!"{r.gender}-{r.event}:{r.aN}/{r.aD}:{r.z100}:{r.xa}/{r.xb}"))
  | _ => "bad-op"
end AthlibVerif.Drv
