import AthlibVerif.Model.Uka
/-! driver commands for the UK age groups (area prefix `uka`)

* `group  cat by bm bd my mm md vets underage` → label | `NotImplementedError` | `ValueError`
* `sweep  cat my mm md vets underage ranges` with `ranges = y.m.d:n,y.m.d:n,…` (start date and number
  of consecutive birth dates) → `count checksum|LABEL*run,LABEL*run,…` over the concatenation of the
  ranges; `checksum` = Σ (y·10000+m·100+d) mod 1000000007 of the birth dates visited, so that the
  harness can confirm both sides walked the same dates.
  `cat` is a category of `calc_uka_age_group`, or `@107`, `@507`, `@207L`, `@507L` for the rule-text
  specifications (used to tie the Python oracle of the check to the Lean Spec).
* `agesweep oy om od ranges` → the same encoding of `relativedelta(on, birth).years` (the model's
  `Cal.completedYears`) over the birth dates of the ranges
* `age by bm bd oy om od` → `relativedelta(on, birth).years` of the model and the spec age -/
namespace AthlibVerif.Drv
open AthlibVerif AthlibVerif.Cal AthlibVerif.Uka

def parseDate (y m d : String) : Option Date :=
  match y.toInt?, m.toNat?, d.toNat? with
  | some y, some m, some d => let a : Date := ⟨y, m, d⟩; if a.valid then some a else none
  | _, _, _ => none

def parseBool (s : String) : Option Bool :=
  if s == "1" then some true else if s == "0" then some false else none

/-- result of one evaluation as a comparable value -/
def evalCat (cat : String) (b md : Date) (v u : Bool) : Res :=
  if cat == "@107" then .ok (Spec.rule107 b md v u)
  else if cat == "@507" then .ok (Spec.rule507 b md v u)
  else if cat == "@207L" then .ok (Spec.rule207Literal b md v u)
  else if cat == "@507L" then .ok (Spec.rule507Literal b md v u)
  else calcGroup cat b md v u

structure SweepSt (α : Type) where
  cur : Date
  last : Option α
  run : Nat
  out : Array String
  count : Nat
  sum : Nat

def SweepSt.flush {α : Type} (sh : α → String) (s : SweepSt α) : SweepSt α :=
  match s.last with
  | some r => { s with out := s.out.push s!"{sh r}*{s.run}", last := none, run := 0 }
  | none => s

/-- evaluate `f` on `n` consecutive dates from `s.cur`, run-length encoding the answers -/
def sweepLoop {α : Type} [BEq α] (f : Date → α) (sh : α → String) : Nat → SweepSt α → SweepSt α
  | 0, s => s
  | n + 1, s =>
    let r := f s.cur
    let s := if s.last == some r then { s with run := s.run + 1 } else { s.flush sh with last := some r, run := 1 }
    let c := s.cur
    sweepLoop f sh n { s with cur := c.succ, count := s.count + 1,
                              sum := (s.sum + (c.y.toNat * 10000 + c.m * 100 + c.d)) % 1000000007 }

def parseRange (t : String) : Option (Date × Nat) :=
  match t.splitOn ":" with
  | [d, n] => match d.splitOn ".", n.toNat? with
    | [y, m, dd], some n => (parseDate y m dd).map (·, n)
    | _, _ => none
  | _ => none

def sweepRanges {α : Type} [BEq α] (f : Date → α) (sh : α → String) (d0 : Date) (ranges : String) : String :=
  let rs := (ranges.splitOn ",").map parseRange
  if rs.any (·.isNone) then "bad-date" else
  let st := rs.foldl (fun (s : SweepSt α) r => match r with
    | some (d, n) => sweepLoop f sh n { s with cur := d }
    | none => s) ⟨d0, none, 0, #[], 0, 0⟩
  let st := st.flush sh
  s!"{st.count} {st.sum}|" ++ ",".intercalate st.out.toList

def handleUka (args : List String) : String :=
  match args with
  | ["group", cat, by_, bm, bd, my, mm, md, v, u] =>
    match parseDate by_ bm bd, parseDate my mm md, parseBool v, parseBool u with
    | some b, some m, some v, some u => (evalCat cat b m v u).show
    | none, _, _, _ | _, none, _, _ => "bad-date"
    | _, _, _, _ => "bad-op"
  | ["sweep", cat, my, mm, md, v, u, ranges] =>
    match parseDate my mm md, parseBool v, parseBool u with
    | some m, some v, some u => sweepRanges (fun b => evalCat cat b m v u) Res.show m ranges
    | none, _, _ => "bad-date"
    | _, _, _ => "bad-op"
  | ["agesweep", oy, om, od, ranges] =>
    match parseDate oy om od with
    | some o => sweepRanges (fun b => completedYears b o) (fun (a : Int) => toString a) o ranges
    | none => "bad-date"
  | ["age", by_, bm, bd, oy, om, od] =>
    match parseDate by_ bm bd, parseDate oy om od with
    | some b, some o => s!"{completedYears b o} {Spec.ageOn b o}"
    | _, _ => "bad-date"
  | _ => "bad-op"
end AthlibVerif.Drv
