import AthlibVerif.Model.Implements
import AthlibVerif.Gen.Implements
/-! driver commands for implement weights (area "imp"); strings arrive as space-separated code points -/
namespace AthlibVerif.Drv
open AthlibVerif.Implements

def impChars (s : String) : List Char :=
  (s.splitOn " ").filterMap (fun t => t.toNat?.map Char.ofNat)

def handleImplements (args : List String) : String :=
  match args with
  | ["weight", ev, g, ag] =>
    String.ofList (weight Gen.implementRenames Gen.implementRules (impChars ev) (impChars g) (impChars ag))
  | ["code", ev, g, ag] =>
    match specificCode Gen.implementRenames Gen.implementRules (impChars ev) (impChars g) (impChars ag) with
    | some c => "ok " ++ String.ofList c
    | none => "ValueError"
  | _ => "bad-op"
end AthlibVerif.Drv
