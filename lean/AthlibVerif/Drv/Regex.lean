import AthlibVerif.Model.Sym
import AthlibVerif.Gen.Patterns
/-! driver commands for the regex layer -/
namespace AthlibVerif.Drv
open AthlibVerif

def lookupPat (n : String) : Option RE := (Gen.patternTable.find? (·.1 == n)).map (·.2)

def parseNats (s : String) : List Nat := (s.splitOn " ").filterMap (·.toNat?)

def showNats (l : List Nat) : String := " ".intercalate (l.map toString)

def binop (k : String) (a b : RE) : Option RE :=
  match k with
  | "and" => some (RE.and a b)
  | "symdiff" => some (RE.symdiff a b)
  | "diff" => some (RE.and a (RE.not b))
  | _ => none

/-- union of named patterns -/
def unionOf (names : List String) : Option RE :=
  names.foldr (fun n acc => match lookupPat n, acc with
    | some r, some RE.empty => some r
    | some r, some a => some (RE.alt r a)
    | _, _ => none) (some RE.empty)

def handleRegex (args : List String) : String :=
  match args with
  | ["re", p, cps] =>
    match lookupPat p with
    | some r => if r.accepts ((parseNats cps).map symOfNat) then "1" else "0"
    | none => "bad-pattern"
  | ["sym", cp] => match cp.toNat? with
    | some c => toString (symOfNat c)
    | none => "bad-op"
  | ["eqcheck", a, bs] =>
    match lookupPat a, unionOf (bs.splitOn " ") with
    | some ra, some rb => toString (RE.eqCheck Gen.nsym 100000 ra rb)
    | _, _ => "bad-pattern"
  | ["disjcheck", a, b] =>
    match lookupPat a, lookupPat b with
    | some ra, some rb => toString (RE.isEmptyLang Gen.nsym 100000 (RE.and ra rb))
    | _, _ => "bad-pattern"
  | ["witness", k, a, bs] =>
    match lookupPat a, unionOf (bs.splitOn " ") with
    | some ra, some rb =>
      match binop k ra rb with
      | some q => match RE.findWord Gen.nsym 64 q with
        | some w => "word " ++ showNats (w.map (fun x => Gen.symRep.getD x 0))
        | none => "none"
      | none => "bad-op"
    | _, _ => "bad-pattern"
  | _ => "bad-op"


end AthlibVerif.Drv
