import AthlibVerif.Model.HJ
import AthlibVerif.Lemmas.Import
/-! driver commands for the high-jump state machine (stateful: one competition at a time) -/
namespace AthlibVerif.Drv
open AthlibVerif.HJ

def hjTrialOf : String → Option Trial
  | "o" => some .o | "x" => some .x | "p" => some .p | "r" => some .r | _ => none
def hjShowTrial : Trial → String | .o => "o" | .x => "x" | .p => "-" | .r => "r"
def hjShowPhase : Phase → String
  | .scheduled => "scheduled" | .started => "started" | .jumpoff => "jumpoff" | .won => "won"
  | .finished => "finished" | .drawn => "drawn"
def hjShowOutcome : Outcome → String | .ok => "ok" | .rule => "rule" | .key => "key" | .assert => "assert"

def hjShowOp : Op → String
  | .add b => s!"a{b}" | .bar h => s!"b{h}" | .trial b t => s!"{hjShowTrial t}{b}"

/-- `trials`: (bib, bar at that time, letter) derived from the log -/
def trialsOf (log : List Op) : List String :=
  (log.foldl (fun (acc : List String × Int) op => match op with
    | .bar h => (acc.1, h)
    | .trial b t => (acc.1 ++ [s!"{b}@{acc.2}{hjShowTrial t}"], acc.2)
    | .add _ => acc) ([], 0)).1

/-- the observable snapshot, same canonical text as `tools/hj_common.hjSnap` -/
def hjSnap (c : Comp) : String :=
  let js := c.jumpers.map (fun j =>
    let pl := match j.bestIdx with | some _ => toString j.place | none => "-"
    s!"{j.bib}:{pl}:{j.best}:{"/".intercalate (j.card.map (fun l => String.join (l.map hjShowTrial)))}")
  let rem := ",".intercalate ((c.jumpers.filter (fun j => !j.eliminated)).map (fun j => toString j.bib))
  s!"{hjShowPhase c.phase}|{",".intercalate (c.heights.map toString)}|{";".intercalate js}|{rem}|{" ".intercalate (c.log.map hjShowOp)}|{",".intercalate (trialsOf c.log)}"

/-- driver state: the current competition and a stack of saved ones (`push` / `pop`) -/
structure HJState where
  cur : Comp := {}
  stack : List Comp := []

def handleHJ1 (c : Comp) (args : List String) : Comp × String :=
  match args with
  | ["new"] => ({}, "new")
  | ["add", b] => match b.toNat? with
    | some b => let (c', o) := step c (.add b); (c', s!"{hjShowOutcome o}|{hjSnap c'}")
    | none => (c, "bad-op")
  | ["bar", h] => match h.toInt? with
    | some h => let (c', o) := step c (.bar h); (c', s!"{hjShowOutcome o}|{hjSnap c'}")
    | none => (c, "bad-op")
  | ["trial", b, t] => match b.toNat?, hjTrialOf t with
    | some b, some t => let (c', o) := step c (.trial b t); (c', s!"{hjShowOutcome o}|{hjSnap c'}")
    | _, _ => (c, "bad-op")
  | _ => (c, "bad-op")

def handleHJ (st : HJState) (args : List String) : HJState × String :=
  match args with
  | ["push"] => ({ st with stack := st.cur :: st.stack }, "pushed")
  | ["pop"] => match st.stack with
    | c :: rest => ({ cur := c, stack := rest }, "popped")
    | [] => (st, "bad-op")
  | ["new"] => ({ cur := {}, stack := [] }, "new")
  | ["import", order] =>
    -- the calls `from_matrix` makes for the current competition's log (`imported`), cards listed in the order given
    match (order.splitOn ",").mapM (·.toNat?) with
    | some ord =>
      let (adds, bs) := blocksOf st.cur.log
      (st, " ".intercalate ((adds ++ imported ord bs).map hjShowOp))
    | none => (st, "bad-op")
  | _ => let (c, out) := handleHJ1 st.cur args; ({ st with cur := c }, out)
end AthlibVerif.Drv
