import AthlibVerif.Model.Cache
/-! driver commands for the result caches (C19)

`cache<TAB>run|runpinned<TAB>cap<TAB>truth<TAB>calls`
* `truth`: blank-separated `s<id>=1|0|e` / `v<id>=1|0|e` (s = schema_valid, v = valid_against_schema;
  1 passes, 0 raises the expected error, e raises something else; a key not listed is `e`);
* `calls`: blank-separated `s<id>+` / `s<id>-` (`+` = expect_failure=True).
Reply: one letter per call (`T F R E I`), then `|len(sv),len(va)`. -/
namespace AthlibVerif.Drv
open AthlibVerif AthlibVerif.Cache

def natOfChars (cs : List Char) : Option Nat :=
  if cs.isEmpty then none
  else cs.foldl (fun acc c => acc.bind fun n => if c.isDigit then some (n * 10 + (c.toNat - 48)) else none) (some 0)

def parseKey : List Char → Option Key
  | 's' :: r => (natOfChars r).map (⟨.schemaValid, ·⟩)
  | 'v' :: r => (natOfChars r).map (⟨.validAgainst, ·⟩)
  | _ => none

def parseTruth (tok : String) : Option (Key × Option Bool) :=
  match tok.toList.reverse with
  | '1' :: '=' :: r => (parseKey r.reverse).map (·, some true)
  | '0' :: '=' :: r => (parseKey r.reverse).map (·, some false)
  | 'e' :: '=' :: r => (parseKey r.reverse).map (·, none)
  | _ => none

def parseCall (tok : String) : Option Call :=
  match tok.toList.reverse with
  | '+' :: r => (parseKey r.reverse).map (⟨·, true⟩)
  | '-' :: r => (parseKey r.reverse).map (⟨·, false⟩)
  | _ => none

def tokens (s : String) : List String := (s.splitOn " ").filter (· ≠ "")

def showOutcome : Outcome → String
  | .retTrue => "T" | .retFalse => "F" | .raised => "R" | .error => "E" | .iterError => "I"

def handleCache (args : List String) : String :=
  match args with
  | [cmd, cap, truth, calls] =>
    match cap.toNat?, (tokens truth).mapM parseTruth, (tokens calls).mapM parseCall with
    | some cap, some tbl, some cs =>
      let tr : Key → Option Bool := fun k => (tbl.lookup k).getD none
      let res? :=
        if cmd == "run" then some (run tr cap Store.empty cs)
        else if cmd == "runpinned" then some (runPinned tr cap Store.empty cs)
        else none
      match res? with
      | some (s, out) => " ".intercalate (out.map showOutcome) ++ s!"|{s.sv.length},{s.va.length}"
      | none => "bad-op"
    | _, _, _ => "bad-op"
  | _ => "bad-op"
end AthlibVerif.Drv
