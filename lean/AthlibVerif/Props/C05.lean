import AthlibVerif.Lemmas.Exact
import AthlibVerif.Lemmas.Junior
import AthlibVerif.Oblig.C01.Table
import AthlibVerif.Oblig.C05.Tyrving
import AthlibVerif.Oblig.C05.Tables
/-!
# C05 — A better performance never scores fewer points, in any scoring system

Generic monotonicity theorems over PARAMETERS (any coefficients, tables, marks), then the property itself
over the regenerated data: the generic theorem plus a kernel-decided side-condition (`Oblig/C05`, `Oblig/C01`).
Marks are hundredths; "better" is smaller for timed events and larger for field events.  Bounds: points are
`Nat` (never negative); QuadKids 10…100; Bulgarian 0…150; a hand-timed Tyrving mark never beats the same figure
timed electronically.  The Hungarian model is the REPAIRED behaviour (fixes/hungarian-zero-point-clamp.diff);
the unrepaired parabola is `Hungarian.raw`, monotone only on the range the property states.
-/
namespace AthlibVerif.Props.C05
open AthlibVerif AthlibVerif.Junior AthlibVerif.Athlon

/-! ## combined events (power law) -/

/-- track: a slower (larger) adjusted mark never scores more -/
theorem powerLaw_mono_track (r : ScoreRow) (k k' : Nat) (hb : 0 < r.xb) (h : k ≤ k') :
    Athlon.points r .track k' ≤ Athlon.points r .track k := by
  unfold Athlon.points
  exact floorPow_mono _ _ _ _ _ _ _ hb (by unfold base; simp only; omega)

/-- field: a longer / higher adjusted mark never scores less -/
theorem powerLaw_mono_field (r : ScoreRow) (kind : EvKind) (k k' : Nat) (hk : kind ≠ .track) (hb : 0 < r.xb) (h : k ≤ k') :
    Athlon.points r kind k ≤ Athlon.points r kind k' := by
  unfold Athlon.points
  apply floorPow_mono _ _ _ _ _ _ _ hb
  cases kind with
  | track => exact absurd rfl hk
  | jump => unfold base; simp only; omega
  | throw => unfold base; simp only; omega

/-- the age adjustment with a fixed factor keeps the order of the marks -/
theorem adjust_mono (kind : EvKind) (k k' fN fD : Nat) (h : k ≤ k') : adjust kind k fN fD ≤ adjust kind k' fN fD := by
  have hm : k * fN ≤ k' * fN := Nat.mul_le_mul_right _ h
  cases kind <;> simp only [adjust, floorDiv]
  · exact Nat.div_le_div_right hm
  · exact Nat.div_le_div_right hm
  · exact ceilDiv_mono _ _ _ hm

/-- power law, both directions, with or without the age adjustment (`fN = fD` is "no adjustment") -/
theorem powerLaw_mono (r : ScoreRow) (kind : EvKind) (k k' fN fD : Nat) (hb : 0 < r.xb) (h : k ≤ k') :
    if kind = .track then Athlon.points r kind (adjust kind k' fN fD) ≤ Athlon.points r kind (adjust kind k fN fD)
    else Athlon.points r kind (adjust kind k fN fD) ≤ Athlon.points r kind (adjust kind k' fN fD) := by
  have ha := adjust_mono kind k k' fN fD h
  by_cases hk : kind = .track
  · rw [if_pos hk]; subst hk; exact powerLaw_mono_track r _ _ hb ha
  · rw [if_neg hk]; exact powerLaw_mono_field r kind _ _ hk hb ha

/-! ## Hungarian (quadratic) -/

/-- timed events, unrepaired parabola: `p₁ ≤ p₂ ≤ −b → score p₂ ≤ score p₁` -/
theorem quadratic_mono_timed (r : HuRow) (k k' : Nat) (h : k ≤ k') (hz : Hungarian.dist r k' ≤ 0) :
    Hungarian.raw r k' ≤ Hungarian.raw r k := Hungarian.raw_mono_timed r k k' h hz

/-- field events (`b ≥ 0`), unrepaired parabola: `0 ≤ p₁ ≤ p₂ → score p₁ ≤ score p₂` -/
theorem quadratic_mono_field (r : HuRow) (k k' : Nat) (hb : 0 ≤ r.bN) (h : k ≤ k') :
    Hungarian.raw r k ≤ Hungarian.raw r k' :=
  Hungarian.raw_mono_field r k k' h (Hungarian.dist_nonneg_of_field r k hb)

/-- repaired score: monotone over the whole grid in the direction of the event (and `Nat`: never negative) -/
theorem hungarian_mono (r : HuRow) (k k' : Nat) (h : k ≤ k') :
    if Hungarian.timed r then Hungarian.points r k' ≤ Hungarian.points r k
    else Hungarian.points r k ≤ Hungarian.points r k' := by
  cases ht : Hungarian.timed r
  · simpa using Hungarian.points_mono_field r k k' ht h
  · simpa using Hungarian.points_mono_timed r k k' ht h

/-- the unrepaired behaviour violates both clauses (men's 100 m: 20.00 s scores more than 17.00 s; high jump
    0.50 m scores below zero) -/
theorem hungarian_pinned_rises :
    Hungarian.raw ⟨"M", "OUT", "100", 2463, 100, -17, 1, 0, 1⟩ 1700 < Hungarian.raw ⟨"M", "OUT", "100", 2463, 100, -17, 1, 0, 1⟩ 2000 := by
  decide
theorem hungarian_pinned_negative : Hungarian.raw ⟨"M", "OUT", "HJ", 3229, 100, 5767, 500, -5000, 1⟩ 50 < 0 := by decide

/-! ## Tyrving (piecewise linear) -/

theorem tyrving_race_mono (S dist mN B k k' : Nat) (manual : Bool) (h : k ≤ k') :
    Tyrving.race S dist mN B k' manual ≤ Tyrving.race S dist mN B k manual := Tyrving.race_mono S dist mN B k k' manual h

theorem tyrving_jump_mono (S mN B k k' : Nat) (h : k ≤ k') : Tyrving.jump S mN B k ≤ Tyrving.jump S mN B k' :=
  Tyrving.jump_mono S mN B k k' h

theorem tyrving_stav_mono (S m0 m1 m2 L0 L1 P2 k k' : Nat) (hj : Tyrving.stavJoin S m1 L0 L1 P2) (h : k ≤ k') :
    Tyrving.stav S m0 m1 m2 L0 L1 P2 k ≤ Tyrving.stav S m0 m1 m2 L0 L1 P2 k' :=
  Tyrving.stav_mono S m0 m1 m2 L0 L1 P2 k k' hj h

theorem tyrving_manual_le_auto (S dist mN B k : Nat) :
    Tyrving.race S dist mN B k true ≤ Tyrving.race S dist mN B k false := Tyrving.manual_le_auto S dist mN B k

theorem baseAt_mem (t : BaseTab) (age v : Nat) (h : baseAt t age = some v) : (age, v) ∈ t := by
  unfold baseAt at h
  cases hf : t.find? (fun e => e.1 == age) with
  | none => rw [hf] at h; cases h
  | some e =>
    rw [hf] at h
    simp only [Option.map_some, Option.some.injEq] at h
    have h1 := List.find?_some hf
    have h2 := List.mem_of_find?_eq_some hf
    simp only [beq_iff_eq] at h1
    obtain ⟨a, b⟩ := e
    simp only at h1 h
    subst h1; subst h; exact h2

def isRace : TyCalc → Bool
  | .race _ _ _ => true
  | _ => false

/-- a whole Tyrving calculator: monotone in the direction of its kind, for every age, once the join condition holds -/
theorem tyrving_calc_mono (S : Nat) (c : TyCalc) (age k k' p p' : Nat) (manual : Bool)
    (hj : Oblig.C05.stavJoinB S c = true) (h : k ≤ k')
    (hp : Tyrving.calcPoints S c age k manual = .pts p) (hp' : Tyrving.calcPoints S c age k' manual = .pts p') :
    if isRace c then p' ≤ p else p ≤ p' := by
  cases c with
  | race dist mN base =>
    simp only [Tyrving.calcPoints] at hp hp'
    cases hB : baseAt base age with
    | none => rw [hB] at hp; cases hp
    | some B =>
      rw [hB] at hp hp'
      simp only [JRes.pts.injEq] at hp hp'
      subst hp; subst hp'
      simpa [isRace] using Tyrving.race_mono S dist mN B k k' manual h
  | jump mN base =>
    simp only [Tyrving.calcPoints] at hp hp'
    cases hB : baseAt base age with
    | none => rw [hB] at hp; cases hp
    | some B =>
      rw [hB] at hp hp'
      simp only [JRes.pts.injEq] at hp hp'
      subst hp; subst hp'
      simpa [isRace] using Tyrving.jump_mono S mN B k k' h
  | stav m0 m1 m2 l0 l1 p2 =>
    simp only [Tyrving.calcPoints] at hp hp'
    cases h0 : baseAt l0 age with
    | none => rw [h0] at hp; simp at hp
    | some L0 =>
      cases h1 : baseAt l1 age with
      | none => rw [h0, h1] at hp; simp at hp
      | some L1 =>
        cases h2 : baseAt p2 age with
        | none => rw [h0, h1, h2] at hp; simp at hp
        | some P2 =>
          rw [h0, h1, h2] at hp hp'
          simp only [JRes.pts.injEq] at hp hp'
          subst hp; subst hp'
          have hmem := baseAt_mem l0 age L0 h0
          simp only [Oblig.C05.stavJoinB, List.all_eq_true] at hj
          have hj' := hj (age, L0) hmem
          simp only [h1, h2, decide_eq_true_eq] at hj'
          simpa [isRace] using Tyrving.stav_mono S m0 m1 m2 L0 L1 P2 k k' hj' h
  | bad => simp [Tyrving.calcPoints] at hp

/-! ## QuadKids (linear, clamped) -/

theorem qkids_mono (incN incD base k k' : Nat) (run : Bool) (h : k ≤ k') :
    if run then Qkids.points incN incD run base k' ≤ Qkids.points incN incD run base k
    else Qkids.points incN incD run base k ≤ Qkids.points incN incD run base k' := by
  cases run
  · simpa using Qkids.points_mono_of_raw _ _ _ _ _ false false (Qkids.raw_mono_field incN incD base k k' h)
  · simpa using Qkids.points_mono_of_raw _ _ _ _ _ true true (Qkids.raw_mono_run incN incD base k k' h)

theorem qkids_bounds (incN incD base k : Nat) (run : Bool) :
    10 ≤ Qkids.points incN incD run base k ∧ Qkids.points incN incD run base k ≤ 100 := Qkids.points_bounds incN incD base k run

/-! ## Sportshall (step table + increments) -/

theorem lastMax_of_B (rows : List (Nat × Nat)) (h : Oblig.C05.lastMaxB rows = true) : Sportshall.lastMax rows := by
  intro l hl r hr
  unfold Oblig.C05.lastMaxB at h
  rw [hl] at h
  simp only [List.all_eq_true, decide_eq_true_eq] at h
  exact h r hr

/-- from sortedness (the last row carries the greatest points): a better mark never scores less -/
theorem sportshall_mono (e : ShEvent) (k k' : Nat) (hs : Oblig.C05.lastMaxB e.rows = true)
    (h : Sportshall.better e.high k k') : Sportshall.points e k ≤ Sportshall.points e k' :=
  Sportshall.points_mono e k k' (lastMax_of_B _ hs) h

/-! ## Bulgarian (per-centi run-length tables, clamps) -/

theorem bulgarian_mono (t : BgTable) (k k' p p' : Nat) (hc : Bulgarian.chainB t.timed t.runs = true)
    (hb : ∀ r ∈ t.runs, r.2.2 ≤ 150) (h : k ≤ k')
    (hp : Bulgarian.points t k = some p) (hp' : Bulgarian.points t k' = some p') :
    if t.timed then p' ≤ p else p ≤ p' :=
  Bulgarian.points_mono t k k' p p' (Bulgarian.ordered_of_chainB _ _ hc).1 hb h hp hp'

theorem bulgarian_bounds (t : BgTable) (k p : Nat) (hb : ∀ r ∈ t.runs, r.2.2 ≤ 150)
    (hp : Bulgarian.points t k = some p) : p ≤ 150 := Bulgarian.points_bounds t k p hb hp

/-! ## the property over the regenerated data -/

/-- For every scoring system and every table / row of the regenerated data, every pair of marks `k ≤ k'`
    (hundredths) and every age / age factor: the better mark never receives fewer points; results are naturals
    within the system's bounds; a hand-timed Tyrving mark never beats the electronic one. -/
def C05_statement : Prop :=
  -- combined events, with any age factor fN/fD (fN = fD: none)
  (∀ r ∈ Gen.esaaRow :: Gen.scoringTable, ∀ (kind : EvKind) (k k' fN fD : Nat), k ≤ k' →
    if kind = .track then Athlon.points r kind (adjust kind k' fN fD) ≤ Athlon.points r kind (adjust kind k fN fD)
    else Athlon.points r kind (adjust kind k fN fD) ≤ Athlon.points r kind (adjust kind k' fN fD)) ∧
  -- Hungarian (repaired)
  (∀ r ∈ Gen.hungarianFactors, ∀ k k' : Nat, k ≤ k' →
    if Hungarian.timed r then Hungarian.points r k' ≤ Hungarian.points r k
    else Hungarian.points r k ≤ Hungarian.points r k') ∧
  -- Tyrving: every row, every age
  (∀ r ∈ Gen.tyrvingTables, ∀ (age k k' p p' : Nat) (manual : Bool), k ≤ k' →
    Tyrving.calcPoints Gen.tyrvingScale r.cal age k manual = .pts p →
    Tyrving.calcPoints Gen.tyrvingScale r.cal age k' manual = .pts p' →
    if isRace r.cal then p' ≤ p else p ≤ p') ∧
  (∀ S dist mN B k : Nat, Tyrving.race S dist mN B k true ≤ Tyrving.race S dist mN B k false) ∧
  -- QuadKids
  (∀ r ∈ Gen.qkidsTables, ∀ (run : Bool) (k k' : Nat), k ≤ k' →
    (if run then Qkids.points r.incN r.incD run r.base k' ≤ Qkids.points r.incN r.incD run r.base k
     else Qkids.points r.incN r.incD run r.base k ≤ Qkids.points r.incN r.incD run r.base k') ∧
    10 ≤ Qkids.points r.incN r.incD run r.base k ∧ Qkids.points r.incN r.incD run r.base k ≤ 100) ∧
  -- Sportshall
  (∀ e ∈ Gen.sportshallTables, ∀ k k' : Nat, Sportshall.better e.high k k' → Sportshall.points e k ≤ Sportshall.points e k') ∧
  -- Bulgarian
  (∀ t ∈ Gen.bulgarianTables, ∀ k k' p p' : Nat, k ≤ k' → Bulgarian.points t k = some p → Bulgarian.points t k' = some p' →
    (if t.timed then p' ≤ p else p ≤ p') ∧ p ≤ 150)

set_option linter.dupNamespace false in
theorem C05 : C05_statement := by
  refine ⟨?_, ?_, ?_, ?_, ?_, ?_, ?_⟩
  · intro r hr kind k k' fN fD h
    have hok := List.all_eq_true.1 Oblig.C01.table_ok r hr
    simp only [Oblig.C01.rowOK, Bool.and_eq_true, decide_eq_true_eq] at hok
    exact powerLaw_mono r kind k k' fN fD hok.2 h
  · intro r _ k k' h
    exact hungarian_mono r k k' h
  · intro r hr age k k' p p' manual h hp hp'
    exact tyrving_calc_mono _ r.cal age k k' p p' manual (List.all_eq_true.1 Oblig.C05.tyrving_join r hr) h hp hp'
  · exact tyrving_manual_le_auto
  · intro r _ run k k' h
    exact ⟨qkids_mono r.incN r.incD r.base k k' run h, qkids_bounds r.incN r.incD r.base k run⟩
  · intro e he k k' h
    exact sportshall_mono e k k' (List.all_eq_true.1 Oblig.C05.sportshall_last_max e he) h
  · intro t ht k k' p p' h hp hp'
    have hok := List.all_eq_true.1 Oblig.C05.bulgarian_ordered t ht
    simp only [Bool.and_eq_true, List.all_eq_true, decide_eq_true_eq] at hok
    exact ⟨bulgarian_mono t k k' p p' hok.1 hok.2 h hp hp', bulgarian_bounds t k p hok.2 hp⟩

/-! ### non-vacuity: the hypotheses are met by regenerated rows, and the conclusions are strict somewhere -/
example : Tyrving.calcPoints Gen.tyrvingScale (.stav 30 60 120 [(10, 680)] [(10, 544)] [(10, 918)]) 10 500 false = .pts 865 := by decide
example : Tyrving.calcPoints Gen.tyrvingScale (.stav 30 60 120 [(10, 680)] [(10, 544)] [(10, 918)]) 10 700 false = .pts 1006 := by decide
example : Tyrving.stavJoin 100 60 680 544 918 := by decide
example : Sportshall.better true 150 300 := by simp [Sportshall.better]
example : Tyrving.race 100 100 160 1290 1300 true < Tyrving.race 100 100 160 1290 1300 false := by decide
/-- a table violating the join condition is NOT monotone: the side-condition is needed -/
example : Tyrving.stav 100 30 60 120 680 544 990 544 > Tyrving.stav 100 30 60 120 680 544 990 545 := by decide

end AthlibVerif.Props.C05
