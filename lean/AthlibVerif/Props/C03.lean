import AthlibVerif.Props.C02
import AthlibVerif.Lemmas.Ranking
import AthlibVerif.Lemmas.Places
import AthlibVerif.Lemmas.Best
import AthlibVerif.Lemmas.Winner
/-!
# C03 — High jump: final placings follow the countback rule and the jump-off result

Proved here, for all inputs:
* the ranking key order is a strict total order (countback: status, greatest height, failures at it,
  failures up to it);
* the ranking algorithm of `_rankj` (stable insertion sort + shared-place numbering) assigns every entry
  the place `1 +` number of entries with a strictly better key — equal keys share a place, places are a
  standard competition ranking, and they do not depend on the previous order (`C03_places_from_keys`);
  the model's `sortRanked` on bibs is that sort on the athletes' keys (`C03_sortRanked_is_key_sort`);
* a clearance never lowers an athlete's best, the best only changes by a clearance and is then the bar
  height cleared (`C03_best_*`) — the repaired behaviour; on the pinned code the best was overwritten.
* **the placing clause itself** (`C03`, `C03_places_every_decided_state`): in every state reachable from the empty
  competition whose phase is past `started` — jump-off, won, finished, drawn — every athlete's place is `1 +` the
  number of athletes with a strictly better key.  Proof (Lemmas/Places.lean): bibs stay distinct and `ranked` stays a
  permutation of them (`WF`, invariant of `step`); under `WF` the record-rewriting loop of `assignPlaces` is the
  abstract numbering on the sorted keys; `_rank` ends on every path in `_rankj` or in a change of phase only; raising
  the bar touches neither keys nor places.
The key is the one the code ranks by (stored best, its column, failures from the card, eliminated flag); that the
stored best is the greatest height cleared is `C03_best_*`; the comparison with places recomputed from the printed
cards alone is the referee's part in tools/checks/c03.py.
-/
namespace AthlibVerif.Props.C03
open AthlibVerif AthlibVerif.HJ AthlibVerif.Ranking

theorem keyLt_strictTotal : StrictTotal Key.lt := HJ.keyLt_strictTotal

/-- **Places follow the keys** (the algorithm of `_rankj`): after the stable sort every entry's place is
    `1 +` the number of entries with a strictly smaller (better) key. -/
theorem C03_places_from_keys (ks : List Key) :
    placesK (sortK Key.lt ks) 0 none =
      (sortK Key.lt ks).map (fun k => 1 + countLt Key.lt (sortK Key.lt ks) k) :=
  placesK_sorted Key.lt keyLt_strictTotal ks

/-- equal keys share a place; a strictly better key has a strictly smaller place number (competition ranking) -/
theorem C03_equal_keys_share (ks : List Key) (a b : Key) :
    (a = b → 1 + countLt Key.lt ks a = 1 + countLt Key.lt ks b) ∧
    (Key.lt a b = true → a ∈ ks → 1 + countLt Key.lt ks a < 1 + countLt Key.lt ks b) := by
  refine ⟨fun h => by rw [h], ?_⟩
  intro hab ha
  unfold countLt
  have hsub : ∀ x, Key.lt x a = true → Key.lt x b = true := fun x hx => keyLt_strictTotal.trans _ _ _ hx hab
  have h1 : (ks.filter (fun x => Key.lt x a)).length ≤ ((ks.filter (fun x => Key.lt x b)).filter (fun x => Key.lt x a)).length := by
    rw [List.filter_filter]
    apply Nat.le_of_eq
    congr 1
    apply List.filter_congr
    intro x _
    cases hxa : Key.lt x a with
    | false => simp
    | true => simp [hsub x hxa]
  have h2 : ((ks.filter (fun x => Key.lt x b)).filter (fun x => Key.lt x a)).length <
      (ks.filter (fun x => Key.lt x b)).length := by
    apply List.length_filter_lt_length_iff_exists.2
    exact ⟨a, List.mem_filter.2 ⟨ha, hab⟩, by simp [keyLt_strictTotal.irrefl]⟩
  omega

/-- somebody is always first: the smallest place number handed out is 1 -/
theorem C03_first_place_exists (ks : List Key) (h : ks ≠ []) :
    ∃ k ∈ sortK Key.lt ks, 1 + countLt Key.lt (sortK Key.lt ks) k = 1 := by
  have hs := sortK_sorted Key.lt keyLt_strictTotal ks
  cases hl : sortK Key.lt ks with
  | nil =>
    exfalso
    cases ks with
    | nil => exact h rfl
    | cons x xs => have := (sortK_mem Key.lt (x :: xs) x).2 (by simp); rw [hl] at this; cases this
  | cons k rest =>
    refine ⟨k, by simp, ?_⟩
    rw [hl] at hs
    unfold countLt
    have : (k :: rest).filter (fun x => Key.lt x k) = [] := by
      apply List.filter_eq_nil_iff.2
      intro b hb
      rcases List.mem_cons.1 hb with rfl | hb
      · simp [keyLt_strictTotal.irrefl]
      · simp [hs.1 b hb]
    rw [this]; rfl

/-- **The model's ranking sort is the stable key sort**: `sortRanked` on the ranked bibs, seen through the
    athletes' keys, is `sortK` on the keys — so the order of `ranked_jumpers` matters only through keys. -/
theorem C03_sortRanked_is_key_sort (c : Comp) (l : List Nat) (hl : ∀ a ∈ l, (c.find a).isSome) :
    (sortRanked c l).map (keyOf c) = sortK Key.lt (l.map (keyOf c)) :=
  sortRanked_is_key_sort c l hl

/-! ## the athlete's best -/

/-- a clearance never lowers the best; anything else leaves best and its column alone -/
theorem C03_best_never_decreases (j j' : Jumper) (hc : Nat) (h : Int) (t : Trial)
    (ha : j.act hc h t = some j') :
    (j.bestIdx.isSome → j.best ≤ j'.best ∧ j'.bestIdx.isSome) ∧
    (t ≠ .o → j'.best = j.best ∧ j'.bestIdx = j.bestIdx) := by
  rw [act_core j j' hc h t ha]
  cases t <;> simp only [Jumper.actCore]
  · refine ⟨fun hs => ?_, fun hne => absurd rfl hne⟩
    split
    · next hcond =>
      simp only [Bool.or_eq_true, decide_eq_true_eq] at hcond
      rcases hcond with hn | hgt
      · simp [Option.isNone_iff_eq_none.1 hn] at hs
      · exact ⟨Int.le_of_lt hgt, rfl⟩
    · exact ⟨Int.le_refl _, hs⟩
  · split <;> exact ⟨fun hs => ⟨Int.le_refl _, hs⟩, fun _ => ⟨rfl, rfl⟩⟩
  · exact ⟨fun hs => ⟨Int.le_refl _, hs⟩, fun _ => by simp⟩
  · exact ⟨fun hs => ⟨Int.le_refl _, hs⟩, fun _ => by simp⟩

/-- after a clearance the best is the greater of the old best and the bar just cleared -/
theorem C03_best_is_a_cleared_height (j j' : Jumper) (hc : Nat) (h : Int)
    (ha : j.act hc h .o = some j') :
    j'.bestIdx.isSome ∧ (j'.best = h ∨ (j'.best = j.best ∧ h ≤ j.best ∧ j.bestIdx.isSome)) := by
  rw [act_core j j' hc h .o ha]
  simp only [Jumper.actCore]
  split
  · exact ⟨rfl, Or.inl rfl⟩
  · next hcond =>
    simp only [Bool.or_eq_true, decide_eq_true_eq, not_or, Bool.not_eq_true, Option.isNone_eq_false_iff] at hcond
    exact ⟨hcond.1, Or.inr ⟨rfl, Int.not_lt.1 hcond.2, hcond.1⟩⟩

/-- an athlete is shown a place exactly when they have a clearance (`place` hides unplaced athletes):
    the observable place is `some` iff `bestIdx` is -/
def shownPlace (j : Jumper) : Option Nat := if j.bestIdx.isSome then some j.place else none

theorem C03_unplaced_iff_no_clearance (j : Jumper) : (shownPlace j).isNone ↔ j.bestIdx.isNone := by
  unfold shownPlace; cases j.bestIdx <;> simp

/-- The full statement of C03's placing clause: in every reachable terminal state the places are `1 +` the
    number of athletes with a strictly better key. -/
def C03_statement : Prop :=
  ∀ c : Comp, Props.C02.Reachable c → (c.phase = .finished ∨ c.phase = .won ∨ c.phase = .drawn) →
    ∀ j ∈ c.jumpers, j.place = 1 + ((c.jumpers.filter (fun k => Key.lt k.key j.key)).length)

theorem placesInv_reachable (c : Comp) (h : Props.C02.Reachable c) : PlacesInv c := by
  induction h with
  | init => exact ⟨⟨by simp, by simp⟩, Or.inl rfl⟩
  | step c op _ ih => exact step_PlacesInv c op ih

/-- bibs are distinct and the ranked list names every athlete once — every reachable state -/
theorem C03_ranked_is_permutation (c : Comp) (h : Props.C02.Reachable c) :
    (c.jumpers.map (·.bib)).Nodup ∧ c.ranked.Perm (c.jumpers.map (·.bib)) :=
  (placesInv_reachable c h).1

/-- **Places follow the countback keys in every decided state** (jump-off, won, finished, drawn), for every call
    sequence from the empty competition. -/
theorem C03_places_every_decided_state (c : Comp) (h : Props.C02.Reachable c)
    (hp : c.phase ≠ .scheduled ∧ c.phase ≠ .started) :
    ∀ j ∈ c.jumpers, j.place = 1 + ((c.jumpers.filter (fun k => Key.lt k.key j.key)).length) := by
  rcases (placesInv_reachable c h).2 with h1 | h1 | h1
  · exact absurd h1 hp.1
  · exact absurd h1 hp.2
  · exact h1

theorem C03 : C03_statement := by
  intro c hr hp
  apply C03_places_every_decided_state c hr
  rcases hp with h | h | h <;> simp [h]

/-- equal keys share a place, a better key has a smaller place number — in every decided reachable state -/
theorem C03_ties_and_order (c : Comp) (h : Props.C02.Reachable c) (hp : c.phase ≠ .scheduled ∧ c.phase ≠ .started)
    (a b : Jumper) (ha : a ∈ c.jumpers) (hb : b ∈ c.jumpers) :
    (a.key = b.key → a.place = b.place) ∧ (Key.lt a.key b.key = true → a.place < b.place) := by
  have hpl := C03_places_every_decided_state c h hp
  rw [hpl a ha, hpl b hb]
  have hcount : ∀ k : Key, (c.jumpers.filter (fun x => Key.lt x.key k)).length = countLt Key.lt (c.jumpers.map Jumper.key) k := by
    intro k; unfold countLt; rw [List.filter_map, List.length_map]; rfl
  rw [hcount, hcount]
  have := C03_equal_keys_share (c.jumpers.map Jumper.key) a.key b.key
  exact ⟨this.1, fun hlt => this.2 hlt (List.mem_map.2 ⟨a, ha, rfl⟩)⟩

/-! ## the key is the card's countback key -/

theorem allBest_reachable (c : Comp) (h : Props.C02.Reachable c) : AllBest c := by
  induction h with
  | init => intro j hj; cases hj
  | step c op hr ih => exact step_AllBest c op (placesInv_reachable c hr).1 ih

/-- **The stored best is the greatest height on the card, its column the first at that height** — every reachable
    state, every athlete: no clearance on the card when there is no best; otherwise the best column `i` holds a
    clearance, `best` is the height of that column, every cleared column is at most that high, and the cleared
    columns at exactly that height (a jump-off may revisit it) are not before `i`. -/
theorem C03_best_is_greatest_cleared (c : Comp) (h : Props.C02.Reachable c) (j : Jumper) (hj : j ∈ c.jumpers) :
    (j.bestIdx = none → ∀ i, clearedAt j.card i = false) ∧
    (∀ i, j.bestIdx = some i →
      i < j.card.length ∧ clearedAt j.card i = true ∧ j.best = c.heights.getD i 0 ∧
      ∀ i', clearedAt j.card i' = true → c.heights.getD i' 0 ≤ j.best ∧ (c.heights.getD i' 0 = j.best → i ≤ i')) :=
  ⟨(allBest_reachable c h j hj).noneCase, (allBest_reachable c h j hj).someCase⟩

/-- … and the card determines it: a column that is the first among those cleared at the greatest cleared height
    IS the stored best column -/
theorem C03_best_column_unique (c : Comp) (h : Props.C02.Reachable c) (j : Jumper) (hj : j ∈ c.jumpers) (i : Nat)
    (hi : clearedAt j.card i = true)
    (hmax : ∀ i', clearedAt j.card i' = true →
      c.heights.getD i' 0 ≤ c.heights.getD i 0 ∧ (c.heights.getD i' 0 = c.heights.getD i 0 → i ≤ i')) :
    j.bestIdx = some i ∧ j.best = c.heights.getD i 0 := by
  have hb := allBest_reachable c h j hj
  cases hbi : j.bestIdx with
  | none => have := hb.noneCase hbi i; rw [this] at hi; cases hi
  | some i0 =>
    obtain ⟨_, h2, h3, h4⟩ := hb.someCase i0 hbi
    have a := h4 i hi
    have b := hmax i0 h2
    rw [h3] at a
    have e : c.heights.getD i 0 = c.heights.getD i0 0 := by omega
    have : i0 = i := by
      have h5 := a.2 e
      have h6 := b.2 e.symm
      omega
    subst this
    exact ⟨rfl, h3⟩

/-- the card is never longer than the list of heights -/
theorem C03_card_within_heights (c : Comp) (h : Props.C02.Reachable c) (j : Jumper) (hj : j ∈ c.jumpers) :
    j.card.length ≤ c.heights.length := (allBest_reachable c h j hj).len

/-! ## one winner -/

theorem decided_reachable (c : Comp) (h : Props.C02.Reachable c) : Decided c := by
  induction h with
  | init => exact Decided_init
  | step c op hr ih =>
    exact step_Decided c op (placesInv_reachable c hr).1 (allBest_reachable c hr)
      (Props.C02.inv_reachable c hr).1 ih

/-- **A won or finished competition has exactly one athlete in first place** — the jump-off (or the countback) has
    decided it; every call sequence from the empty competition. -/
theorem C03_one_winner (c : Comp) (h : Props.C02.Reachable c) (hp : c.phase = .finished ∨ c.phase = .won) :
    ∃ w ∈ c.jumpers, w.place = 1 ∧ ∀ k ∈ c.jumpers, k.place = 1 → k = w := by
  have hu : (firsts c).length = 1 := by
    rcases hp with hp | hp
    · exact (decided_reachable c h).finished hp
    · obtain ⟨_, _, _, hu⟩ := (decided_reachable c h).won hp; exact hu
  match hf : firsts c, hu with
  | [w], _ =>
    have hw : w ∈ firsts c := by rw [hf]; simp
    obtain ⟨hwj, hwp⟩ := List.mem_filter.1 hw
    refine ⟨w, hwj, by simpa using hwp, ?_⟩
    intro k hk hkp
    have : k ∈ firsts c := List.mem_filter.2 ⟨hk, by simp [hkp]⟩
    rw [hf] at this; simpa using this

/-- while the competition is `won`, the winner is the one athlete still in, and has a clearance -/
theorem C03_winner_still_in (c : Comp) (h : Props.C02.Reachable c) (hp : c.phase = .won) :
    ∃ w, c.jumpers.filter (fun j => !j.eliminated) = [w] ∧ w.bestIdx.isSome = true ∧ w.place = 1 := by
  obtain ⟨w, hal, hb, _⟩ := (decided_reachable c h).won hp
  have hr : Ranked c := by
    rcases (placesInv_reachable c h).2 with h1 | h1 | h1
    · rw [hp] at h1; cases h1
    · rw [hp] at h1; cases h1
    · exact h1
  have hf := sole_survivor_first c hr w hal hb
  have hw : w ∈ firsts c := by rw [hf]; simp
  exact ⟨w, hal, hb, by simpa using (List.mem_filter.1 hw).2⟩

/-- **A drawn competition leaves a tie for first standing**: at least two athletes are in first place -/
theorem C03_draw_is_a_tie (c : Comp) (h : Props.C02.Reachable c) (hp : c.phase = .drawn) :
    2 ≤ (c.jumpers.filter (fun j => j.place == 1)).length :=
  (decided_reachable c h).drawn hp

/-! non-vacuity: a reachable finished competition with a tie for second (kernel-evaluated) -/
example : let c := Props.C02.runOps [.add 1, .add 2, .add 3, .bar 105, .trial 1 .o, .trial 2 .x, .trial 2 .o, .trial 3 .x, .trial 3 .o,
      .bar 110, .trial 1 .o, .trial 2 .x, .trial 2 .x, .trial 2 .x, .trial 3 .x, .trial 3 .x, .trial 3 .x]
    c.phase = .won ∧ c.jumpers.map (·.place) = [1, 2, 2] := by decide +kernel

end AthlibVerif.Props.C03
