import AthlibVerif.Props.C02
import AthlibVerif.Lemmas.Ranking
/-!
# C03 — High jump: final placings follow the countback rule and the jump-off result

Proved here, for all inputs:
* the ranking key order is a strict total order (countback: status, greatest height, failures at it,
  failures up to it);
* the ranking algorithm of `_rankj` (stable insertion sort + shared-place numbering) assigns every entry
  the place `1 +` number of entries with a strictly better key — equal keys share a place, places are a
  standard competition ranking, and they do not depend on the previous order (`C03_places_from_keys`);
  the model's `sortRanked` on bibs is that sort on the athletes' keys (`C03_sortRanked_is_key_sort`);
* a clearance never lowers an athlete's best, the best only changes by a clearance and is then the bar
  height cleared (`C03_best_*`) — the repaired behaviour; on the pinned code the best was overwritten.
Not proved (kept as the full statement `C03_statement`; decided by the correspondence + referee):
that the places of every reachable terminal state equal the referee's places computed from the cards.
-/
namespace AthlibVerif.Props.C03
open AthlibVerif AthlibVerif.HJ AthlibVerif.Ranking

theorem keyLt_strictTotal : StrictTotal Key.lt where
  irrefl := by
    intro a; unfold Key.lt; simp
  trans := by
    intro a b c h1 h2
    unfold Key.lt at *
    simp only [Bool.or_eq_true, Bool.and_eq_true, decide_eq_true_eq, beq_iff_eq] at *
    omega
  tri := by
    intro a b
    unfold Key.lt
    simp only [Bool.or_eq_true, Bool.and_eq_true, decide_eq_true_eq, beq_iff_eq]
    have : a = b ↔ (a.status = b.status ∧ a.negBest = b.negBest ∧ a.fa = b.fa ∧ a.fb = b.fb) := by
      constructor
      · rintro rfl; simp
      · cases a; cases b; simp_all
    rw [this]
    omega

/-- **Places follow the keys** (the algorithm of `_rankj`): after the stable sort every entry's place is
    `1 +` the number of entries with a strictly smaller (better) key. -/
theorem C03_places_from_keys (ks : List Key) :
    placesK (sortK Key.lt ks) 0 none =
      (sortK Key.lt ks).map (fun k => 1 + countLt Key.lt (sortK Key.lt ks) k) :=
  placesK_sorted Key.lt keyLt_strictTotal ks

/-- equal keys share a place; a strictly better key has a strictly smaller place number (competition ranking) -/
theorem C03_equal_keys_share (ks : List Key) (a b : Key) :
    (a = b → 1 + countLt Key.lt ks a = 1 + countLt Key.lt ks b) ∧
    (Key.lt a b = true → a ∈ ks → 1 + countLt Key.lt ks a < 1 + countLt Key.lt ks b) := by
  refine ⟨fun h => by rw [h], ?_⟩
  intro hab ha
  unfold countLt
  have hsub : ∀ x, Key.lt x a = true → Key.lt x b = true := fun x hx => keyLt_strictTotal.trans _ _ _ hx hab
  have h1 : (ks.filter (fun x => Key.lt x a)).length ≤ ((ks.filter (fun x => Key.lt x b)).filter (fun x => Key.lt x a)).length := by
    rw [List.filter_filter]
    apply Nat.le_of_eq
    congr 1
    apply List.filter_congr
    intro x _
    cases hxa : Key.lt x a with
    | false => simp
    | true => simp [hsub x hxa]
  have h2 : ((ks.filter (fun x => Key.lt x b)).filter (fun x => Key.lt x a)).length <
      (ks.filter (fun x => Key.lt x b)).length := by
    apply List.length_filter_lt_length_iff_exists.2
    exact ⟨a, List.mem_filter.2 ⟨ha, hab⟩, by simp [keyLt_strictTotal.irrefl]⟩
  omega

/-- somebody is always first: the smallest place number handed out is 1 -/
theorem C03_first_place_exists (ks : List Key) (h : ks ≠ []) :
    ∃ k ∈ sortK Key.lt ks, 1 + countLt Key.lt (sortK Key.lt ks) k = 1 := by
  have hs := sortK_sorted Key.lt keyLt_strictTotal ks
  cases hl : sortK Key.lt ks with
  | nil =>
    exfalso
    cases ks with
    | nil => exact h rfl
    | cons x xs => have := (sortK_mem Key.lt (x :: xs) x).2 (by simp); rw [hl] at this; cases this
  | cons k rest =>
    refine ⟨k, by simp, ?_⟩
    rw [hl] at hs
    unfold countLt
    have : (k :: rest).filter (fun x => Key.lt x k) = [] := by
      apply List.filter_eq_nil_iff.2
      intro b hb
      rcases List.mem_cons.1 hb with rfl | hb
      · simp [keyLt_strictTotal.irrefl]
      · simp [hs.1 b hb]
    rw [this]; rfl

/-- the key of a registered bib (default for unknown bibs, which never occur in `ranked`) -/
def keyOf (c : Comp) (b : Nat) : Key := ((c.find b).map Jumper.key).getD ⟨0, 0, 0, 0⟩

theorem insertBy_is_insertK (c : Comp) (b : Nat) (hb : (c.find b).isSome) :
    ∀ l : List Nat, (∀ a ∈ l, (c.find a).isSome) →
      (insertBy c b l).map (keyOf c) = insertK Key.lt (keyOf c b) (l.map (keyOf c)) := by
  intro l
  induction l with
  | nil => intro _; simp [insertBy, insertK]
  | cons a rest ih =>
    intro hl
    obtain ⟨jb, hjb⟩ := Option.isSome_iff_exists.1 hb
    obtain ⟨ja, hja⟩ := Option.isSome_iff_exists.1 (hl a (by simp))
    simp only [insertBy, hjb, hja, List.map_cons, insertK]
    have e1 : keyOf c b = jb.key := by simp [keyOf, hjb]
    have e2 : keyOf c a = ja.key := by simp [keyOf, hja]
    rw [e1, e2]
    split
    · simp [e1, e2]
    · simp only [List.map_cons, e2]
      rw [ih (fun x hx => hl x (by simp [hx])), e1]

/-- **The model's ranking sort is the stable key sort**: `sortRanked` on the ranked bibs, seen through the
    athletes' keys, is `sortK` on the keys — so the order of `ranked_jumpers` matters only through keys. -/
theorem C03_sortRanked_is_key_sort (c : Comp) (l : List Nat) (hl : ∀ a ∈ l, (c.find a).isSome) :
    (sortRanked c l).map (keyOf c) = sortK Key.lt (l.map (keyOf c)) := by
  unfold sortRanked sortK
  suffices ∀ acc : List Nat, (∀ a ∈ acc, (c.find a).isSome) →
      (l.foldl (fun acc b => insertBy c b acc) acc).map (keyOf c) =
        (l.map (keyOf c)).foldl (fun acc x => insertK Key.lt x acc) (acc.map (keyOf c)) by
    simpa using this [] (by simp)
  induction l with
  | nil => intro acc _; rfl
  | cons b rest ih =>
    intro acc hacc
    simp only [List.foldl_cons, List.map_cons]
    have hb := hl b (by simp)
    have hmem : ∀ a ∈ insertBy c b acc, (c.find a).isSome := by
      intro a ha
      have : a = b ∨ a ∈ acc := by
        clear ih
        induction acc with
        | nil => simp [insertBy] at ha; exact Or.inl ha
        | cons x xs ihx =>
          simp only [insertBy] at ha
          split at ha
          · split at ha
            · simp at ha; rcases ha with h | h | h <;> simp [h]
            · simp at ha
              rcases ha with h | h
              · simp [h]
              · rcases ihx (fun y hy => hacc y (by simp [hy])) h with h' | h' <;> simp [h']
          · simp at ha
            rcases ha with h | h
            · simp [h]
            · rcases ihx (fun y hy => hacc y (by simp [hy])) h with h' | h' <;> simp [h']
      rcases this with rfl | h
      · exact hb
      · exact hacc a h
    rw [ih (fun a ha => hl a (by simp [ha])) _ hmem, insertBy_is_insertK c b hb acc hacc]

/-! ## the athlete's best -/

/-- a clearance never lowers the best; anything else leaves best and its column alone -/
theorem C03_best_never_decreases (j j' : Jumper) (hc : Nat) (h : Int) (t : Trial)
    (ha : j.act hc h t = some j') :
    (j.bestIdx.isSome → j.best ≤ j'.best ∧ j'.bestIdx.isSome) ∧
    (t ≠ .o → j'.best = j.best ∧ j'.bestIdx = j.bestIdx) := by
  rw [act_core j j' hc h t ha]
  cases t <;> simp only [Jumper.actCore]
  · refine ⟨fun hs => ?_, fun hne => absurd rfl hne⟩
    split
    · next hcond =>
      simp only [Bool.or_eq_true, decide_eq_true_eq] at hcond
      rcases hcond with hn | hgt
      · simp [Option.isNone_iff_eq_none.1 hn] at hs
      · exact ⟨Int.le_of_lt hgt, rfl⟩
    · exact ⟨Int.le_refl _, hs⟩
  · split <;> exact ⟨fun hs => ⟨Int.le_refl _, hs⟩, fun _ => ⟨rfl, rfl⟩⟩
  · exact ⟨fun hs => ⟨Int.le_refl _, hs⟩, fun _ => by simp⟩
  · exact ⟨fun hs => ⟨Int.le_refl _, hs⟩, fun _ => by simp⟩

/-- after a clearance the best is the greater of the old best and the bar just cleared -/
theorem C03_best_is_a_cleared_height (j j' : Jumper) (hc : Nat) (h : Int)
    (ha : j.act hc h .o = some j') :
    j'.bestIdx.isSome ∧ (j'.best = h ∨ (j'.best = j.best ∧ h ≤ j.best ∧ j.bestIdx.isSome)) := by
  rw [act_core j j' hc h .o ha]
  simp only [Jumper.actCore]
  split
  · exact ⟨rfl, Or.inl rfl⟩
  · next hcond =>
    simp only [Bool.or_eq_true, decide_eq_true_eq, not_or, Bool.not_eq_true, Option.isNone_eq_false_iff] at hcond
    exact ⟨hcond.1, Or.inr ⟨rfl, Int.not_lt.1 hcond.2, hcond.1⟩⟩

/-- an athlete is shown a place exactly when they have a clearance (`place` hides unplaced athletes):
    the observable place is `some` iff `bestIdx` is -/
def shownPlace (j : Jumper) : Option Nat := if j.bestIdx.isSome then some j.place else none

theorem C03_unplaced_iff_no_clearance (j : Jumper) : (shownPlace j).isNone ↔ j.bestIdx.isNone := by
  unfold shownPlace; cases j.bestIdx <;> simp

/-- The full statement of C03's placing clause (NOT proved here; see the header): in every reachable
    terminal state the shown places are `1 +` the number of athletes with a strictly better key, where
    the key is the countback key computed from the card. Decided by tools/checks/c03.py. -/
def C03_statement : Prop :=
  ∀ c : Comp, Props.C02.Reachable c → (c.phase = .finished ∨ c.phase = .won ∨ c.phase = .drawn) →
    ∀ j ∈ c.jumpers, j.place = 1 + ((c.jumpers.filter (fun k => Key.lt k.key j.key)).length)

end AthlibVerif.Props.C03
