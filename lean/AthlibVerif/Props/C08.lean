import AthlibVerif.Props.C02
import AthlibVerif.Lemmas.RankOrder
import AthlibVerif.Lemmas.Interleave
import AthlibVerif.Lemmas.CardLog
import AthlibVerif.Lemmas.CardCells
import AthlibVerif.Lemmas.RoundRobin
import AthlibVerif.Lemmas.Import
/-!
# C08 — High jump: replaying the log or the card, in any jumping order, rebuilds it

Proved (all histories, no bound): replaying the recorded action log of any reachable competition from
the empty competition reproduces the **whole** state (hence every observable) — `C08_replay`; the log is
exactly the subsequence of accepted calls — `C08_log_is_accepted_calls`.
Also proved, for every history (Lemmas/RankOrder, Commute, Interleave): the order of `ranked_jumpers` — the tie-break
of `_rankj` on the previous position — is unobservable (`C08_ranked_order_unobservable*`), and the interleaving
clause itself, `C08_interleaving : C08_interleaving_statement`: after any history, a block of trials accepted in
full is accepted in full in every rearrangement that keeps each athlete's own order, and whatever follows ends in
the same state, heights, cards, bests and places.  The chain of reasoning: two trials of different athletes commute
from every state with the invariants of reachable states (`trial_commute`: the second athlete was in and not done,
so `_rank` in between only re-numbered the places; places are recomputed from keys; the rest of `_rank` does not
depend on the order of equal keys); every such rearrangement is a chain of adjacent exchanges
(`swaps_of_same_threads`).
Not proved here (decided by tools/checks/c08.py on the implementation and on the model): the card export/import
round trip.
-/
namespace AthlibVerif.Props.C08
open AthlibVerif AthlibVerif.HJ AthlibVerif.Props.C02

/-- run a call sequence from a given state, keeping whatever each call leaves behind -/
def runFrom (c : Comp) (ops : List Op) : Comp := ops.foldl (fun c op => (step c op).1) c

theorem runFrom_append (c : Comp) (a b : List Op) : runFrom c (a ++ b) = runFrom (runFrom c a) b := by
  simp [runFrom, List.foldl_append]

/-- the accepted calls of a sequence, in order -/
def acceptedFrom (c : Comp) : List Op → List Op
  | [] => []
  | op :: rest => if (step c op).2 = .ok then op :: acceptedFrom (step c op).1 rest
                  else acceptedFrom (step c op).1 rest

/-- **The log is exactly the accepted calls.** -/
theorem C08_log_is_accepted_calls (ops : List Op) : ∀ c, (runFrom c ops).log = c.log ++ acceptedFrom c ops := by
  induction ops with
  | nil => intro c; simp [runFrom, acceptedFrom]
  | cons op rest ih =>
    intro c
    have h := ih (step c op).1
    simp only [runFrom, List.foldl_cons] at h ⊢
    rw [h, C02_log_only_accepted]
    simp only [acceptedFrom]
    split <;> simp

/-- replaying a state's own log from the empty competition gives the state back -/
def Replays (c : Comp) : Prop := runFrom {} c.log = c

theorem replays_step (c : Comp) (op : Op) (h : Replays c) : Replays (step c op).1 := by
  unfold Replays at *
  by_cases hok : (step c op).2 = .ok
  · rw [C02_log_only_accepted, if_pos hok, runFrom_append, h]
    simp [runFrom]
  · rw [C02_atomic c op hok]; exact h

/-- **Replaying the recorded action log reproduces the competition** — every reachable state, the whole
    state (state, heights, cards, bests, places, log, and with them `trials`). -/
theorem C08_replay (c : Comp) (h : Reachable c) : runFrom {} c.log = c := by
  induction h with
  | init => rfl
  | step c op _ ih => exact replays_step c op ih

/-- the same, for any call sequence (legal or not): only its accepted calls matter -/
theorem C08_replay_of_run (ops : List Op) : runFrom {} (runFrom {} ops).log = runFrom {} ops := by
  apply C08_replay
  have := reachable_runOps ops
  simpa [runOps, runFrom] using this

/-- refused calls can be dropped from a history without changing the outcome -/
theorem C08_refused_calls_are_noise (ops : List Op) : runFrom {} (acceptedFrom {} ops) = runFrom {} ops := by
  have h := C08_log_is_accepted_calls ops {}
  have h2 := C08_replay_of_run ops
  rw [h] at h2
  simpa using h2

/-- observables compared by the property: everything except the order of the action log -/
structure Obs where
  phase : Phase
  heights : List Int
  cards : List (Nat × Option Nat × Int × List (List Trial))
  deriving DecidableEq

def obs (c : Comp) : Obs :=
  { phase := c.phase, heights := c.heights,
    cards := c.jumpers.map (fun j => (j.bib, (if j.bestIdx.isSome then some j.place else none), j.best, j.card)) }

/-- Full statement of the interleaving clause (proved below as `C08_interleaving`): two call sequences that differ only by a permutation, within one bar height, that keeps each
    athlete's own order, are either both fully accepted with equal observables, or neither is. -/
def C08_interleaving_statement : Prop :=
  ∀ (pre seg seg' post : List Op),
    (∀ op ∈ seg, ∃ b t, op = .trial b t) → seg.Perm seg' →
    (∀ b, seg.filter (fun op => match op with | .trial b' _ => b' == b | _ => false) =
          seg'.filter (fun op => match op with | .trial b' _ => b' == b | _ => false)) →
    acceptedFrom {} (pre ++ seg) = pre ++ seg →
    (acceptedFrom {} (pre ++ seg') = pre ++ seg' ∧
     obs (runFrom {} (pre ++ seg ++ post)) = obs (runFrom {} (pre ++ seg' ++ post)))

theorem runFrom_eq_run (c : Comp) (ops : List Op) : runFrom c ops = HJ.run c ops := rfl

theorem accepted_length (ops : List Op) : ∀ c, (acceptedFrom c ops).length ≤ ops.length := by
  induction ops with
  | nil => intro c; simp [acceptedFrom]
  | cons op rest ih =>
    intro c
    simp only [acceptedFrom]
    split
    · simp only [List.length_cons]; have := ih (step c op).1; omega
    · simp only [List.length_cons]; have := ih (step c op).1; omega

/-- "every call of the sequence is accepted", in the two forms used here -/
theorem accepted_eq_iff (ops : List Op) : ∀ c, acceptedFrom c ops = ops ↔ allOk c ops = true := by
  induction ops with
  | nil => intro c; simp [acceptedFrom, allOk]
  | cons op rest ih =>
    intro c
    simp only [acceptedFrom, allOk]
    by_cases hok : (step c op).2 = .ok
    · simp only [hok, if_true, List.cons.injEq, true_and, beq_self_eq_true, Bool.true_and]
      exact ih _
    · simp only [hok, if_false]
      constructor
      · intro h
        have := accepted_length rest (step c op).1
        rw [h] at this
        simp only [List.length_cons] at this
        omega
      · intro h
        have : ((step c op).2 == Outcome.ok) = false := by simpa using hok
        simp [this] at h

theorem obs_of_same (a b : Comp) (h : SameButRanked a b) : obs a = obs b := by
  unfold obs
  rw [h.1, h.2.1, h.2.2.1]

/-- **The tie-break of `_rankj` on the previous position is unobservable**: two competitions that differ only in the
    order of `ranked_jumpers` give the same verdict on every further call and stay observably equal, for every
    continuation. -/
theorem C08_ranked_order_unobservable (a b : Comp) (hw : WF a) (h : SameButRanked a b) (ops : List Op) :
    acceptedFrom a ops = ops ↔ acceptedFrom b ops = ops := by
  rw [accepted_eq_iff, accepted_eq_iff, (same_run ops a b hw h).1]

theorem C08_ranked_order_unobservable_obs (a b : Comp) (hw : WF a) (h : SameButRanked a b) (ops : List Op) :
    obs (runFrom a ops) = obs (runFrom b ops) :=
  obs_of_same _ _ (same_run ops a b hw h).2

/-- **The order in which different athletes take their trials does not matter** (`C08_interleaving_statement`):
    after any history `pre`, if a block of trials is accepted in full, then so is every rearrangement of it that keeps
    each athlete's own order, and whatever follows (`post`) ends in the same state, heights, cards, bests and places. -/
theorem C08_interleaving : C08_interleaving_statement := by
  intro pre seg seg' post htr hperm hthreads hacc
  have hg : Good (HJ.run {} pre) := good_init.run pre
  rw [accepted_eq_iff, allOk_append] at hacc
  simp only [Bool.and_eq_true] at hacc
  have hsw : Swaps seg seg' := by
    apply swaps_of_same_threads seg seg' htr hperm
    intro b
    have := hthreads b
    unfold thread
    have hfun : (fun op => bibOf op == some b) =
        (fun op => match op with | Op.trial b' _ => b' == b | _ => false) := by
      funext op
      cases op <;> simp [bibOf]
    rw [hfun]; exact this
  obtain ⟨hok', hsame⟩ := swaps_run (HJ.run {} pre) hg hsw hacc.2
  constructor
  · rw [accepted_eq_iff, allOk_append]
    simp only [Bool.and_eq_true]
    exact ⟨hacc.1, hok'⟩
  · rw [runFrom_eq_run, runFrom_eq_run, List.append_assoc, List.append_assoc, run_append, run_append,
      run_append, run_append]
    exact obs_of_same _ _ (same_run post _ _ (hg.run seg).wf hsame).2

theorem cardLog_reachable (c : Comp) (h : Reachable c) : LogBibs c ∧ CardLog c := by
  induction h with
  | init => exact ⟨(fun b t hm => by cases hm), (fun j hj => by cases hj)⟩
  | step c op hr ih =>
    have hg := good_reachable c hr
    exact ⟨step_LogBibs c op hg.wf ih.1, step_CardLog c op hg.wf hg.flags ih.1 ih.2⟩

/-- **The cards are the log, athlete by athlete**: in every reachable competition the marks on an athlete's card,
    read left to right across the heights, are exactly that athlete's accepted trials in the order of the action log
    (so `trials`, which the library derives from the log, and the cards cannot disagree). -/
theorem C08_cards_are_the_log (c : Comp) (h : Reachable c) (j : Jumper) (hj : j ∈ c.jumpers) :
    j.card.flatten = marksOf j.bib c.log :=
  (cardLog_reachable c h).2 j hj

theorem cells_reachable (c : Comp) (h : Reachable c) : BarsLog c ∧ CardCells c := by
  induction h with
  | init => exact ⟨rfl, (fun j hj => by cases hj)⟩
  | step c op hr ih =>
    have hg := good_reachable c hr
    exact ⟨step_BarsLog c op ih.1, step_CardCells c op hg.wf hg.flags (cardLog_reachable c hr).1 ih.1 ih.2⟩

/-- **Cell by cell**: in every reachable competition an athlete's card, padded with empty cells to the number of bars so
    far (the row `to_matrix` writes), holds in the column of each bar exactly the athlete's accepted trials made between
    that bar call and the next one, in order — and there are as many bars as accepted bar calls. -/
theorem C08_cells_are_the_log (c : Comp) (h : Reachable c) (j : Jumper) (hj : j ∈ c.jumpers) :
    padCard j.card c.heights.length = cellsOf j.bib c.log ∧ c.heights.length = bars c.log :=
  ⟨(cells_reachable c h).2 j hj, (cells_reachable c h).1⟩

/-- … in particular, cell `i` of the card itself (an absent trailing cell reads as empty) -/
theorem C08_cell (c : Comp) (h : Reachable c) (j : Jumper) (hj : j ∈ c.jumpers) (i : Nat) :
    j.card.getD i [] = (cellsOf j.bib c.log).getD i [] := by
  rw [← (C08_cells_are_the_log c h j hj).1]
  unfold padCard
  by_cases hi : i < j.card.length
  · simp [List.getD, List.getElem?_append_left hi]
  · have hi' : j.card.length ≤ i := by omega
    simp only [List.getD, List.getElem?_eq_none hi', Option.getD_none]
    rw [List.getElem?_append_right hi']
    cases hr : (List.replicate (c.heights.length - j.card.length) ([] : List Trial))[i - j.card.length]? with
    | none => rfl
    | some x =>
      have := List.mem_of_getElem? hr
      rw [List.mem_replicate] at this
      simp [this.2]

/-- every trial in the log was made by a registered athlete -/
theorem C08_log_bibs_registered (c : Comp) (h : Reachable c) (b : Nat) (t : Trial) (hm : Op.trial b t ∈ c.log) :
    (c.find b).isSome := by
  have := (cardLog_reachable c h).1 b t hm
  obtain ⟨j, hj, rfl⟩ := List.mem_map.1 this
  rw [find_of_mem c (good_reachable c h).wf.1 j hj]; rfl

theorem thread_eq_marks (b : Nat) (l : List Op) : thread b l = (marksOf b l).map (Op.trial b) := by
  unfold thread marksOf
  induction l with
  | nil => rfl
  | cons op rest ih =>
    cases op with
    | add x =>
      have ha : bibOf (Op.add x) = none := rfl
      simp only [List.filter_cons, List.filterMap_cons, ha]; simpa using ih
    | bar x =>
      have ha : bibOf (Op.bar x) = none := rfl
      simp only [List.filter_cons, List.filterMap_cons, ha]; simpa using ih
    | trial b' t =>
      simp only [List.filter_cons, List.filterMap_cons, bibOf_trial]
      by_cases e : b' = b
      · subst e; simp [ih]
      · have h1 : (some b' == some b) = false := by simpa using e
        have h2 : (b' == b) = false := by simpa using e
        simp only [h1, h2, Bool.false_eq_true, if_false]
        exact ih

/-- **The card import's replay order is harmless**: a block of trials at one height, replayed "attempt 1 of
    everybody in card order, then attempt 2, then attempt 3" (`roundRobin`, the loop of `from_matrix`) instead of in
    the recorded order, is accepted in full whenever the recorded order was, and whatever follows ends in the same
    state, heights, cards, bests and places. -/
theorem C08_round_robin_import (pre seg post : List Op) (order : List Nat) (hn : order.Nodup)
    (htr : ∀ op ∈ seg, ∃ b t, op = Op.trial b t)
    (hin : ∀ b t, Op.trial b t ∈ seg → b ∈ order)
    (hlen : ∀ b, (marksOf b seg).length ≤ 3)
    (hacc : acceptedFrom {} (pre ++ seg) = pre ++ seg) :
    acceptedFrom {} (pre ++ roundRobin order (fun b => marksOf b seg)) = pre ++ roundRobin order (fun b => marksOf b seg) ∧
    obs (runFrom {} (pre ++ seg ++ post)) = obs (runFrom {} (pre ++ roundRobin order (fun b => marksOf b seg) ++ post)) := by
  have hth : ∀ b, thread b seg = thread b (roundRobin order (fun b => marksOf b seg)) := by
    intro b
    rw [thread_roundRobin order _ hn b (hlen b), thread_eq_marks]
    split
    · rfl
    · next hb =>
      have : marksOf b seg = [] := by
        apply marksOf_nil_of_absent
        intro t ht
        exact hb (hin b t ht)
      rw [this]; rfl
  have hperm := perm_of_threads seg _ htr (roundRobin_trials order _) hth
  apply C08_interleaving pre seg _ post htr hperm ?_ hacc
  intro b
  have := hth b
  unfold thread at this
  have hfun : (fun op => bibOf op == some b) =
      (fun op => match op with | Op.trial b' _ => b' == b | _ => false) := by
    funext op
    cases op <;> simp [bibOf]
  rw [hfun] at this; exact this

/-- nobody has a clearance yet, or places follow the keys and the competition is under way -/
def FreshOrRanked (c : Comp) : Prop :=
  (∀ j ∈ c.jumpers, j.bestIdx = none) ∨ (Ranked c ∧ c.phase ≠ .scheduled)

theorem freshOrRanked_reachable (c : Comp) (h : Reachable c) : FreshOrRanked c := by
  induction h with
  | init => exact Or.inl (fun j hj => by cases hj)
  | step c op hr ih =>
    have hg := good_reachable c hr
    cases op with
    | add b =>
      rw [step_add]
      split
      · next hc =>
        rcases ih with ih | ih
        · left
          intro j hj
          simp only [addResult, List.mem_append, List.mem_singleton] at hj
          rcases hj with hj | rfl
          · exact ih j hj
          · rfl
        · exact absurd hc.1 ih.2
      · exact ih
    | bar x =>
      rw [step_bar]
      split
      · rcases ih with ih | ih
        · left
          intro j' hj'
          simp only [barResult] at hj'
          obtain ⟨j, hj, rfl⟩ := List.mem_map.1 hj'
          split <;> exact ih j hj
        · right
          refine ⟨barResult_ranked c x ih.1, ?_⟩
          simp only [barResult]
          split
          · intro e; cases e
          · exact ih.2
      · exact ih
    | trial b t =>
      rcases step_trial c b t with ⟨j, j', _, hta, _, _, hs⟩ | ⟨h1, _⟩
      · rw [hs]
        right
        show Ranked (rank (logTrial c b t j')) ∧ (rank (logTrial c b t j')).phase ≠ .scheduled
        have hwl : WF (logTrial c b t j') :=
          WF_of_same_bibs c (logTrial c b t j') (by simp [update_bibs]) (List.Perm.refl _) hg.wf
        refine ⟨(rank_ok _ hwl).2, ?_⟩
        have hps := (rank_frame (logTrial c b t j')).2
        simp only [logTrial_phase] at hps
        have hcs : c.phase ≠ .scheduled := by
          intro e; unfold trialAllowed at hta; simp [e] at hta
        rcases hps with e | e | e | e | ⟨e, _⟩ <;> rw [e] <;> first | exact hcs | (intro h; cases h)
      · rw [h1]; exact ih

theorem allBest_reachable' (c : Comp) (h : Reachable c) : AllBest c := by
  induction h with
  | init => intro j hj; cases hj
  | step c op hr ih => exact step_AllBest c op (good_reachable c hr).wf ih

/-- **A pass is only a mark** (every reachable competition): an accepted pass leaves state, heights, bests, shown
    places and every card — pass marks and empty cells at the end aside — exactly as they were.  This is the
    "explicit pass marks aside" of the card round trip: the card import drops `-`. -/
theorem C08_pass_is_only_a_mark (c : Comp) (h : Reachable c) (b : Nat) (hok : (step c (.trial b .p)).2 = .ok) :
    obsP (step c (.trial b .p)).1 = obsP c := by
  have hg := good_reachable c h
  have hfr : RankedOrFresh c := by
    rcases freshOrRanked_reachable c h with e | e
    · exact Or.inr e
    · exact Or.inl e.1
  exact (pass_only_a_mark c hg.wf hg.flags (allBest_reachable' c h) hfr b hok).1

/-- **The passes can be dropped from a history**: if every call of a history is accepted, so is every call of the
    history without its passes, and the two competitions show the same — state, heights, bests, places and cards,
    pass marks and empty cells at the end aside.  (The card import never replays a `-`; a pass changes who may still
    jump at the height, so that the rest of the history is still accepted without it is not a triviality.) -/
theorem C08_passes_can_be_dropped (ops : List Op) (hacc : acceptedFrom {} ops = ops) :
    acceptedFrom {} (ops.filter notPass) = ops.filter notPass ∧
    obsP (runFrom {} (ops.filter notPass)) = obsP (runFrom {} ops) := by
  rw [accepted_eq_iff] at hacc ⊢
  obtain ⟨h1, h2⟩ := erase_run ops {} {} einv_init good_init.wf sim_init hacc
  exact ⟨h1, sim_obsP _ _ h2⟩

/-- **The card import, whole competitions**: a history "registrations, then for each bar the bar and the trials
    taken at it", accepted in full, and its import "registrations, then for each bar the bar and attempt 1, then 2,
    then 3 of everybody in card order, passes left out" (the loop of `from_matrix`, with the cells of the card being
    each athlete's marks at that bar): the import is accepted in full as well and ends showing the same — state,
    heights, bests, places and cards, pass marks aside.  `order` is any duplicate-free list of bibs that contains
    every athlete who jumped. -/
theorem C08_card_import (adds : List Op) (hadds : ∀ op ∈ adds, ∃ b, op = Op.add b) (order : List Nat) (hn : order.Nodup)
    (bs : List Block) (hb : ∀ b ∈ bs, BlockOK order b) (hacc : acceptedFrom {} (adds ++ flat bs) = adds ++ flat bs) :
    acceptedFrom {} (adds ++ imported order bs) = adds ++ imported order bs ∧
    obsP (runFrom {} (adds ++ imported order bs)) = obsP (runFrom {} (adds ++ flat bs)) := by
  rw [accepted_eq_iff] at hacc ⊢
  exact import_blocks adds hadds order hn bs hb hacc

/-! non-vacuity (kernel-evaluated tests, not the theorem): a history with passes, a jump-off and a lowered bar is accepted in full, and so
    is its import, with the same result sheet -/
def sampleAdds : List Op := [.add 1, .add 2, .add 3]
def sampleBlocks : List Block :=
  [(100, [.trial 1 .p, .trial 2 .o, .trial 3 .x, .trial 3 .o]),
   (105, [.trial 3 .x, .trial 1 .x, .trial 2 .x, .trial 1 .p, .trial 2 .x, .trial 3 .x, .trial 3 .x, .trial 2 .x]),
   (110, [.trial 1 .x, .trial 1 .x])]
example : acceptedFrom {} (sampleAdds ++ flat sampleBlocks) = sampleAdds ++ flat sampleBlocks := by decide +kernel
example : acceptedFrom {} (sampleAdds ++ imported [1, 2, 3] sampleBlocks) = sampleAdds ++ imported [1, 2, 3] sampleBlocks := by
  decide +kernel
example : imported [1, 2, 3] sampleBlocks ≠ flat sampleBlocks := by decide +kernel
set_option synthInstance.maxSize 512 in
example : obsP (runFrom {} (sampleAdds ++ imported [1, 2, 3] sampleBlocks)) = obsP (runFrom {} (sampleAdds ++ flat sampleBlocks)) := by
  decide +kernel

/-! non-vacuity (kernel-evaluated): a history with refused calls; its log replays to the same state -/
example : (runFrom {} [.add 1, .bar 0, .bar 105, .trial 1 .o, .trial 1 .o, .add 2]).log =
    [.add 1, .bar 105, .trial 1 .o] := by decide

end AthlibVerif.Props.C08
