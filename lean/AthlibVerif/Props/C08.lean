import AthlibVerif.Props.C02
/-!
# C08 — High jump: replaying the log or the card, in any jumping order, rebuilds it

Proved (all histories, no bound): replaying the recorded action log of any reachable competition from
the empty competition reproduces the **whole** state (hence every observable) — `C08_replay`; the log is
exactly the subsequence of accepted calls — `C08_log_is_accepted_calls`.
Not proved here (full statements kept below; decided by tools/checks/c08.py on the implementation and on
the model): the card export/import round trip and the independence from the per-height interleaving.
-/
namespace AthlibVerif.Props.C08
open AthlibVerif AthlibVerif.HJ AthlibVerif.Props.C02

/-- run a call sequence from a given state, keeping whatever each call leaves behind -/
def runFrom (c : Comp) (ops : List Op) : Comp := ops.foldl (fun c op => (step c op).1) c

theorem runFrom_append (c : Comp) (a b : List Op) : runFrom c (a ++ b) = runFrom (runFrom c a) b := by
  simp [runFrom, List.foldl_append]

/-- the accepted calls of a sequence, in order -/
def acceptedFrom (c : Comp) : List Op → List Op
  | [] => []
  | op :: rest => if (step c op).2 = .ok then op :: acceptedFrom (step c op).1 rest
                  else acceptedFrom (step c op).1 rest

/-- **The log is exactly the accepted calls.** -/
theorem C08_log_is_accepted_calls (ops : List Op) : ∀ c, (runFrom c ops).log = c.log ++ acceptedFrom c ops := by
  induction ops with
  | nil => intro c; simp [runFrom, acceptedFrom]
  | cons op rest ih =>
    intro c
    have h := ih (step c op).1
    simp only [runFrom, List.foldl_cons] at h ⊢
    rw [h, C02_log_only_accepted]
    simp only [acceptedFrom]
    split <;> simp

/-- replaying a state's own log from the empty competition gives the state back -/
def Replays (c : Comp) : Prop := runFrom {} c.log = c

theorem replays_step (c : Comp) (op : Op) (h : Replays c) : Replays (step c op).1 := by
  unfold Replays at *
  by_cases hok : (step c op).2 = .ok
  · rw [C02_log_only_accepted, if_pos hok, runFrom_append, h]
    simp [runFrom]
  · rw [C02_atomic c op hok]; exact h

/-- **Replaying the recorded action log reproduces the competition** — every reachable state, the whole
    state (state, heights, cards, bests, places, log, and with them `trials`). -/
theorem C08_replay (c : Comp) (h : Reachable c) : runFrom {} c.log = c := by
  induction h with
  | init => rfl
  | step c op _ ih => exact replays_step c op ih

/-- the same, for any call sequence (legal or not): only its accepted calls matter -/
theorem C08_replay_of_run (ops : List Op) : runFrom {} (runFrom {} ops).log = runFrom {} ops := by
  apply C08_replay
  have := reachable_runOps ops
  simpa [runOps, runFrom] using this

/-- refused calls can be dropped from a history without changing the outcome -/
theorem C08_refused_calls_are_noise (ops : List Op) : runFrom {} (acceptedFrom {} ops) = runFrom {} ops := by
  have h := C08_log_is_accepted_calls ops {}
  have h2 := C08_replay_of_run ops
  rw [h] at h2
  simpa using h2

/-- observables compared by the property: everything except the order of the action log -/
structure Obs where
  phase : Phase
  heights : List Int
  cards : List (Nat × Option Nat × Int × List (List Trial))
  deriving DecidableEq

def obs (c : Comp) : Obs :=
  { phase := c.phase, heights := c.heights,
    cards := c.jumpers.map (fun j => (j.bib, (if j.bestIdx.isSome then some j.place else none), j.best, j.card)) }

/-- Full statement of the interleaving clause (NOT proved; checked by enumeration on implementation and
    model): two call sequences that differ only by a permutation, within one bar height, that keeps each
    athlete's own order, are either both fully accepted with equal observables, or neither is. -/
def C08_interleaving_statement : Prop :=
  ∀ (pre seg seg' post : List Op),
    (∀ op ∈ seg, ∃ b t, op = .trial b t) → seg.Perm seg' →
    (∀ b, seg.filter (fun op => match op with | .trial b' _ => b' == b | _ => false) =
          seg'.filter (fun op => match op with | .trial b' _ => b' == b | _ => false)) →
    acceptedFrom {} (pre ++ seg) = pre ++ seg →
    (acceptedFrom {} (pre ++ seg') = pre ++ seg' ∧
     obs (runFrom {} (pre ++ seg ++ post)) = obs (runFrom {} (pre ++ seg' ++ post)))

/-! non-vacuity (kernel-evaluated): a history with refused calls; its log replays to the same state -/
example : (runFrom {} [.add 1, .bar 0, .bar 105, .trial 1 .o, .trial 1 .o, .add 2]).log =
    [.add 1, .bar 105, .trial 1 .o] := by decide

end AthlibVerif.Props.C08
