import AthlibVerif.Lemmas.Exact
import AthlibVerif.Oblig.C01.Table
/-!
# C09 — Performance-needed is the exact inverse of the combined-events score

`Athlon.needed` is the inverse on the 0.01 grid: for a field event the least mark whose points reach
the target, for a track event the greatest (slowest) one.  Proved for **every** positive-exponent row
and **every** target `s ≥ 1` (not only the 52 rows and −10…1500): the needed mark scores at least `s`
and the next-worse grid mark scores strictly less.  Core Lean only.
-/
namespace AthlibVerif.Props.C09
open AthlibVerif AthlibVerif.Athlon

theorem iroot_zero (b : Nat) (hb : 0 < b) : iroot b 0 = 0 := by
  have h := (iroot_spec b 0 hb).1
  have : iroot b 0 ≤ 0 := by
    rcases Nat.eq_zero_or_pos (iroot b 0) with h0 | h0
    · omega
    · have := Nat.pow_pos (n := b) h0; omega
  omega

theorem points_of_base_zero (r : ScoreRow) (kind : EvKind) (k : Nat) (ha : 0 < r.xa) (hb : 0 < r.xb)
    (h : base r kind k = 0) : points r kind k = 0 := by
  unfold points floorPow
  rw [h, Nat.zero_pow ha, Nat.mul_zero, Nat.zero_div]
  exact iroot_zero _ hb

/-- bisection invariant, track events (points decrease with `k`) -/
theorem neededTrack_spec (r : ScoreRow) (s lo hi : Nat)
    (hlo : s ≤ points r .track lo) (hhi : points r .track hi < s) (hlt : lo < hi) :
    s ≤ points r .track (neededTrack r s lo hi) ∧ points r .track (neededTrack r s lo hi + 1) < s := by
  fun_induction neededTrack r s lo hi with
  | case1 lo hi h mid hm ih => exact ih hm hhi (by omega)
  | case2 lo hi h mid hm ih => exact ih hlo (by omega) (by omega)
  | case3 lo hi h =>
    have : hi = lo + 1 := by omega
    subst this; exact ⟨hlo, hhi⟩

/-- bisection invariant, field events (points increase with `k`) -/
theorem neededField_spec (r : ScoreRow) (kind : EvKind) (s lo hi : Nat)
    (hlo : points r kind lo < s) (hhi : s ≤ points r kind hi) (hlt : lo < hi) :
    s ≤ points r kind (neededField r kind s lo hi) ∧ 1 ≤ neededField r kind s lo hi ∧
      points r kind (neededField r kind s lo hi - 1) < s := by
  fun_induction neededField r kind s lo hi with
  | case1 lo hi h mid hm ih => exact ih hlo hm (by omega)
  | case2 lo hi h mid hm ih => exact ih (by omega) hhi (by omega)
  | case3 lo hi h =>
    have : hi = lo + 1 := by omega
    subst this
    exact ⟨hhi, by omega, by simpa using hlo⟩

theorem base_zeroK_pred (r : ScoreRow) (kind : EvKind) (hk : kind ≠ .track) : base r kind (zeroK r kind - 1) = 0 := by
  cases kind with
  | track => exact absurd rfl hk
  | jump => simp only [base, zeroK]; omega
  | throw => simp only [base, zeroK]; omega

theorem base_zeroK_track (r : ScoreRow) : base r .track (zeroK r .track) = 0 := by
  simp [base, zeroK]

/-- **Galois inverse.**  For every row with positive exponent, every kind and every target `s ≥ 1`:
    if the model reports mark `k` as needed, then `k` scores at least `s` and the next-worse grid mark
    (`k+1` hundredths slower for a time, `k−1` shorter for a distance) scores strictly less. -/
theorem C09_galois (tbl : List ScoreRow) (g e : String) (s : Int) (k : Nat) (row : ScoreRow)
    (hs : 1 ≤ s) (hrow : lookup tbl g e = some row) (ha : 0 < row.xa) (hb : 0 < row.xb)
    (h : needed tbl g e s = .mark k) :
    s.toNat ≤ points row (kindOf e) k ∧
    (match kindOf e with
      | .track => points row .track (k + 1) < s.toNat
      | kind => 1 ≤ k ∧ points row kind (k - 1) < s.toNat) := by
  have hs' : 1 ≤ s.toNat := by omega
  unfold needed at h
  rw [hrow] at h
  simp only at h
  have hne : ¬ (s.toNat = 0) := by omega
  rw [if_neg hne] at h
  cases hkind : kindOf e with
  | track =>
    rw [hkind] at h
    simp only at h
    split at h
    · next h0 =>
      injection h with h; subst h
      have hz : 0 < zeroK row .track := by
        apply Nat.pos_of_ne_zero
        intro hz0
        have hb0 : base row .track 0 = 0 := by simp only [base, zeroK] at *; omega
        have := points_of_base_zero row .track 0 ha hb hb0
        omega
      exact neededTrack_spec row _ 0 _ h0
        (by rw [points_of_base_zero row .track _ ha hb (base_zeroK_track row)]; omega) hz
    · cases h
  | jump =>
    rw [hkind] at h
    simp only at h
    split at h
    · next h0 =>
      injection h with h; subst h
      have hlo : points row .jump (zeroK row .jump - 1) < s.toNat := by
        rw [points_of_base_zero row .jump _ ha hb (base_zeroK_pred row .jump (by decide))]; omega
      by_cases hlt : zeroK row .jump - 1 < fieldHi row .jump s.toNat 64 (zeroK row .jump + 1)
      · exact neededField_spec row .jump _ _ _ hlo h0 hlt
      · exfalso
        have := floorPow_mono row.aN row.aD (base row .jump (fieldHi row .jump s.toNat 64 (zeroK row .jump + 1)))
          (base row .jump (zeroK row .jump - 1)) 100 row.xa row.xb hb (by unfold base; simp only; omega)
        unfold points at hlo h0
        omega
    · cases h
  | throw =>
    rw [hkind] at h
    simp only at h
    split at h
    · next h0 =>
      injection h with h; subst h
      have hlo : points row .throw (zeroK row .throw - 1) < s.toNat := by
        rw [points_of_base_zero row .throw _ ha hb (base_zeroK_pred row .throw (by decide))]; omega
      by_cases hlt : zeroK row .throw - 1 < fieldHi row .throw s.toNat 64 (zeroK row .throw + 1)
      · exact neededField_spec row .throw _ _ _ hlo h0 hlt
      · exfalso
        have := floorPow_mono row.aN row.aD (base row .throw (fieldHi row .throw s.toNat 64 (zeroK row .throw + 1)))
          (base row .throw (zeroK row .throw - 1)) 100 row.xa row.xb hb (by unfold base; simp only; omega)
        unfold points at hlo h0
        omega
    · cases h

/-- negative targets behave as zero -/
theorem C09_negative_as_zero (tbl : List ScoreRow) (g e : String) (s : Int) (hs : s ≤ 0) :
    needed tbl g e s = needed tbl g e 0 := by
  unfold needed
  have : s.toNat = 0 := by omega
  simp [this]

/-- at target 0 the answer is the zero-point mark, which scores 0 (≥ 0); no mark scores less -/
theorem C09_zero (tbl : List ScoreRow) (g e : String) (row : ScoreRow) (hrow : lookup tbl g e = some row) :
    needed tbl g e 0 = .mark (zeroK row (kindOf e)) := by
  unfold needed; rw [hrow]; simp

/-- an unknown gender/event pair gives no answer rather than an error -/
theorem C09_unknown_none (tbl : List ScoreRow) (g e : String) (s : Int) (h : lookup tbl g e = none) :
    needed tbl g e s = .none := by
  unfold needed; rw [h]

/-- the points of `C09_galois` are what `score` returns for a tabulated pair (no age, no ESAA option):
    for the regenerated table the veterans' hurdles re-mapping never touches a tabulated pair -/
theorem remap_id_on_table : Gen.scoringTable.all (fun r => remap r.gender r.event == r.event) = true := by
  decide +kernel

theorem adjust_unit (kind : EvKind) (k sc : Nat) (h : 0 < sc) : adjust kind k sc sc = k := by
  cases kind <;> simp only [adjust, floorDiv, ceilDiv]
  · exact Nat.mul_div_cancel k h
  · exact Nat.mul_div_cancel k h
  · apply Nat.le_antisymm
    · apply (Nat.div_le_iff_le_mul_add_pred h).2
      rw [Nat.mul_comm]; omega
    · apply (Nat.le_div_iff_mul_le h).2; omega

theorem score_eq_points (tbl : List ScoreRow) (er : ScoreRow) (d : AgeData) (g e : String) (k : Nat) (row : ScoreRow)
    (hsc : 0 < d.scale) (hre : remap g e = e) (hrow : lookup tbl g e = some row) :
    score tbl er d g e k none false = .points (points row (kindOf e) k) := by
  unfold score
  simp only [hre, hrow, Bool.and_false, adjust_unit _ _ _ hsc]
  rfl

/-! non-vacuity on the regenerated table (kernel-evaluated): 1042 points in the men's 100 m need 10.22 s -/
example : needed Gen.scoringTable "M" "100" 1042 = .mark 1022 := by decide +kernel
example : needed Gen.scoringTable "M" "SP" 500 = .mark 1024 := by decide +kernel

end AthlibVerif.Props.C09
