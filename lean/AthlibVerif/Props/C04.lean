import AthlibVerif.Lemmas.Sym
import AthlibVerif.Lemmas.Classify
import AthlibVerif.Oblig.C04.EqEventCode
import AthlibVerif.Oblig.C04.EqJumps
import AthlibVerif.Oblig.C04.EqRun
import AthlibVerif.Oblig.C04.EqField
import AthlibVerif.Oblig.C04.EqLengthEvent
import AthlibVerif.Oblig.C04.EqTimedEvent
import AthlibVerif.Oblig.C04.EqFinishRecord
import AthlibVerif.Oblig.C04.DisjTimedField
import AthlibVerif.Oblig.C04.DisjTimedMulti
import AthlibVerif.Oblig.C04.DisjTimedDuration
import AthlibVerif.Oblig.C04.DisjFieldMulti
import AthlibVerif.Oblig.C04.DisjFieldDuration
import AthlibVerif.Oblig.C04.DisjMultiDuration
import AthlibVerif.Oblig.C04.DisjJumpsThrows
/-!
# C04 — Event-code families: unions are exact and measurement kinds never overlap

`Matches P s` is the denotational reading of `P.match(s) is not None` for the pattern `P`
regenerated from `athlib/codes.py` (`Gen/Patterns.lean`); `s` ranges over **all** character
lists (no length bound; every Unicode scalar value maps to a symbol of the generated alphabet).
-/
namespace AthlibVerif.Props.C04
open AthlibVerif AthlibVerif.Gen AthlibVerif.Oblig.C04

/-- the four measurement kinds -/
inductive Kind | timed | field | multi | duration deriving DecidableEq, Repr

def kindFamilies : List (Kind × (List Char → Bool)) :=
  [(.timed, PAT_TIMED_EVENT.matchesChars), (.field, PAT_FIELD.matchesChars),
   (.multi, PAT_MULTI.matchesChars), (.duration, PAT_RACES_FOR_DISTANCE.matchesChars)]

/-- `unit_name`-style classifier: jumps, throws (else seconds) -/
def unitFamilies : List (String × (List Char → Bool)) :=
  [("metres-jump", PAT_JUMPS.matchesChars), ("metres-throw", PAT_THROWS.matchesChars)]

/-- The property, at full strength. -/
def C04_statement : Prop :=
  -- the general pattern is exactly the union of the specific families
  (∀ s, Matches PAT_EVENT_CODE s ↔
      (Matches PAT_TRACK s ∨ Matches PAT_HURDLES s ∨ Matches PAT_ROAD s ∨ Matches PAT_RELAYS s ∨
       Matches PAT_JUMPS s ∨ Matches PAT_THROWS s ∨ Matches PAT_MULTI s ∨
       Matches PAT_RACES_FOR_DISTANCE s ∨ Matches PAT_HIGHSCORING_EVENT s ∨ Matches PAT_LOWSCORING_EVENT s)) ∧
  -- every published composite is exactly the union of its parts
  (∀ s, Matches PAT_JUMPS s ↔ (Matches PAT_VERTICAL_JUMPS s ∨ Matches PAT_HORIZONTAL_JUMPS s)) ∧
  (∀ s, Matches PAT_RUN s ↔ (Matches PAT_TRACK s ∨ Matches PAT_ROAD s ∨ Matches PAT_RELAYS s)) ∧
  (∀ s, Matches PAT_FIELD s ↔ (Matches PAT_THROWS s ∨ Matches PAT_JUMPS s)) ∧
  (∀ s, Matches PAT_LENGTH_EVENT s ↔ (Matches PAT_HORIZONTAL_JUMPS s ∨ Matches PAT_THROWS s)) ∧
  (∀ s, Matches PAT_TIMED_EVENT s ↔
      (Matches PAT_TRACK s ∨ Matches PAT_HURDLES s ∨ Matches PAT_ROAD s ∨ Matches PAT_RELAYS s)) ∧
  (∀ s, Matches PAT_FINISH_RECORD s ↔
      (Matches PAT_PERF s ∨ Matches PAT_FINISHED s ∨ Matches PAT_NOT_FINISHED s)) ∧
  -- the four measurement kinds are pairwise disjoint
  (∀ s, ¬ (Matches PAT_TIMED_EVENT s ∧ Matches PAT_FIELD s)) ∧
  (∀ s, ¬ (Matches PAT_TIMED_EVENT s ∧ Matches PAT_MULTI s)) ∧
  (∀ s, ¬ (Matches PAT_TIMED_EVENT s ∧ Matches PAT_RACES_FOR_DISTANCE s)) ∧
  (∀ s, ¬ (Matches PAT_FIELD s ∧ Matches PAT_MULTI s)) ∧
  (∀ s, ¬ (Matches PAT_FIELD s ∧ Matches PAT_RACES_FOR_DISTANCE s)) ∧
  (∀ s, ¬ (Matches PAT_MULTI s ∧ Matches PAT_RACES_FOR_DISTANCE s)) ∧
  -- so first-match classification gives the same answer in any order of the families
  (∀ s fams', (∀ f, f ∈ kindFamilies ↔ f ∈ fams') → classify kindFamilies s = classify fams' s) ∧
  (∀ s fams', (∀ f, f ∈ unitFamilies ↔ f ∈ fams') → classify unitFamilies s = classify fams' s)

private theorem eqv {a b : RE} (h : RE.eqCheck nsym 100000 a b = true) (s : List Char) :
    Matches a s ↔ Matches b s :=
  RE.eqCheck_sound nsym 100000 a b h _ (symsOf_inAlpha s)

private theorem dsj {a b : RE} (h : RE.isEmptyLang nsym 100000 (RE.and a b) = true) (s : List Char) :
    ¬ (Matches a s ∧ Matches b s) :=
  RE.disjoint_of_check nsym 100000 a b h _ (symsOf_inAlpha s)

private theorem dsjB {a b : RE} (h : RE.isEmptyLang nsym 100000 (RE.and a b) = true) (s : List Char) :
    a.matchesChars s = true → b.matchesChars s = true → False := by
  intro ha hb
  exact dsj h s ⟨(matchesChars_iff a s).1 ha, (matchesChars_iff b s).1 hb⟩

theorem C04_event_code (s : List Char) : Matches PAT_EVENT_CODE s ↔
      (Matches PAT_TRACK s ∨ Matches PAT_HURDLES s ∨ Matches PAT_ROAD s ∨ Matches PAT_RELAYS s ∨
       Matches PAT_JUMPS s ∨ Matches PAT_THROWS s ∨ Matches PAT_MULTI s ∨
       Matches PAT_RACES_FOR_DISTANCE s ∨ Matches PAT_HIGHSCORING_EVENT s ∨ Matches PAT_LOWSCORING_EVENT s) := by
  rw [eqv eqEventCode s]; simp only [Matches, unionEventCode, RE.lang]

theorem C04_kinds_order_free (s : List Char) (fams' : List (Kind × (List Char → Bool)))
    (h : ∀ f, f ∈ kindFamilies ↔ f ∈ fams') : classify kindFamilies s = classify fams' s := by
  apply classify_order_free _ _ _ _ h
  intro f hf g hg hfs hgs
  simp only [kindFamilies, List.mem_cons, List.mem_nil_iff, or_false] at hf hg
  rcases hf with rfl | rfl | rfl | rfl <;> rcases hg with rfl | rfl | rfl | rfl <;>
    first
      | rfl
      | exact (dsjB disjTimedField s hfs hgs).elim
      | exact (dsjB disjTimedField s hgs hfs).elim
      | exact (dsjB disjTimedMulti s hfs hgs).elim
      | exact (dsjB disjTimedMulti s hgs hfs).elim
      | exact (dsjB disjTimedDuration s hfs hgs).elim
      | exact (dsjB disjTimedDuration s hgs hfs).elim
      | exact (dsjB disjFieldMulti s hfs hgs).elim
      | exact (dsjB disjFieldMulti s hgs hfs).elim
      | exact (dsjB disjFieldDuration s hfs hgs).elim
      | exact (dsjB disjFieldDuration s hgs hfs).elim
      | exact (dsjB disjMultiDuration s hfs hgs).elim
      | exact (dsjB disjMultiDuration s hgs hfs).elim

theorem C04_units_order_free (s : List Char) (fams' : List (String × (List Char → Bool)))
    (h : ∀ f, f ∈ unitFamilies ↔ f ∈ fams') : classify unitFamilies s = classify fams' s := by
  apply classify_order_free _ _ _ _ h
  intro f hf g hg hfs hgs
  simp only [unitFamilies, List.mem_cons, List.mem_nil_iff, or_false] at hf hg
  rcases hf with rfl | rfl <;> rcases hg with rfl | rfl <;>
    first
      | rfl
      | exact (dsjB disjJumpsThrows s hfs hgs).elim
      | exact (dsjB disjJumpsThrows s hgs hfs).elim

theorem C04 : C04_statement := by
  refine ⟨C04_event_code, ?_, ?_, ?_, ?_, ?_, ?_, dsj disjTimedField, dsj disjTimedMulti,
    dsj disjTimedDuration, dsj disjFieldMulti, dsj disjFieldDuration, dsj disjMultiDuration,
    C04_kinds_order_free, C04_units_order_free⟩
  · intro s; rw [eqv eqJumps s]; simp only [Matches, unionJumps, RE.lang]
  · intro s; rw [eqv eqRun s]; simp only [Matches, unionRun, RE.lang]
  · intro s; rw [eqv eqField s]; simp only [Matches, unionField, RE.lang]
  · intro s; rw [eqv eqLengthEvent s]; simp only [Matches, unionLengthEvent, RE.lang]
  · intro s; rw [eqv eqTimedEvent s]; simp only [Matches, unionTimedEvent, RE.lang]
  · intro s; rw [eqv eqFinishRecord s]; simp only [Matches, unionFinishRecord, RE.lang]

/-! non-vacuity: the families are inhabited (kernel-evaluated on concrete codes) -/
example : PAT_EVENT_CODE.matchesChars "4x100".toList = true ∧ PAT_RELAYS.matchesChars "4x100".toList = true := by
  decide +kernel
example : PAT_FIELD.matchesChars "DT1.5K".toList = true ∧ PAT_TIMED_EVENT.matchesChars "DT1.5K".toList = false := by
  decide +kernel

end AthlibVerif.Props.C04
