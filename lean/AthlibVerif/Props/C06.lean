import AthlibVerif.Lemmas.TimesRound
/-!
# C06 — Times are never rounded down: decimal rounding, formatting and parsing agree

Theorems about the string-level models of `round_up_str_num`, `format_seconds_as_time` and `parse_hms`
(`Model/Times.lean`, transcribed from `athlib/utils.py` *with the three proposed fixes applied*: the residue is
rendered in fixed notation, an empty integer part becomes `0` in every branch, `OverflowError` is caught).
Digit strings have ANY length, precisions are arbitrary naturals; nothing is a float.

Vocabulary.  `val ds` is the number a digit string spells (`val [] = 0`).  `IsCeil N a b` says
`a ≤ N·b < a + b`, i.e. `N = ⌈a / b⌉` (`IsCeil.unique`; `isCeil_iff_ceilDiv : IsCeil N a b ↔ N = (a + b − 1) / b`).  A decimal text `i.f` cut to `m` decimals is the
fraction `(val i · 10^n + val (f.take m)) / 10^n`, `n = (f.take m).length`.  `Renders r p N` says `r` is the text of
`N / 10^p` with a non-empty integer part and exactly `p` decimals (no decimal point at `p = 0`).

What is NOT covered here (see the correspondence in `tools/checks/c06.py`): that the residue text the code hands
to `round_up_str_num` is a correct rendering of `seconds - int(seconds)` (checked per request), the float
arithmetic inside `parse_hms` (results compared within 2^-50), and `int()`/`float()` syntax outside the modelled
grammar — underscores, exponents, `inf`/`nan`, Unicode digits, surrounding white space (totality stream only).
-/
namespace AthlibVerif.Props.C06
open AthlibVerif.Digits AthlibVerif.Times

/-- `r` spells `N / 10^p`: digits, then (for `p > 0`) a point and exactly `p` digits -/
def Renders (r : List Char) (p N : Nat) : Prop :=
  ∃ i' f', r = join i' f' p ∧ i' ≠ [] ∧ allDig i' = true ∧ allDig f' = true ∧ f'.length = p ∧
    val i' * 10 ^ p + val f' = N

/-- **round-up**: for digit strings `i`, `f` of any length (empty and leading zeros included), every precision
`p` and every noise cut-off `m` (`maxDP`, 5 in the code): the result spells, with exactly `p` decimals, the
ceiling at `p` decimals of the input cut to `m` decimals. -/
theorem C06_roundup (i f : List Char) (p m : Nat) (hi : allDig i = true) (hf : allDig f = true) :
    ∃ N, Renders (roundUpStr (i ++ '.' :: f) p m) p N ∧
      IsCeil N ((val i * 10 ^ (f.take m).length + val (f.take m)) * 10 ^ p) (10 ^ (f.take m).length) := by
  obtain ⟨i', f', he, cs⟩ := roundUpCore_spec i (f.take m) p hi (allDig_take _ _ hf)
  refine ⟨_, ⟨i', f', ?_, cs.ne, cs.di, cs.df, cs.len, rfl⟩, cs.ceil⟩
  simp only [roundUpStr, splitDot_dot i f (dot_not_mem i hi)]
  exact he

/-- the same without a decimal point in the input: the value is kept and `p` zeros are appended -/
theorem C06_roundup_nodot (i : List Char) (p m : Nat) (hi : allDig i = true) :
    Renders (roundUpStr i p m) p (val i * 10 ^ p) := by
  obtain ⟨i', f', he, cs⟩ := roundUpCore_spec i (zeros p) p hi (allDig_zeros p)
  refine ⟨i', f', ?_, cs.ne, cs.di, cs.df, cs.len, ?_⟩
  · simp only [roundUpStr, splitDot_nodot i (dot_not_mem i hi)]; exact he
  · have h := cs.ceil
    rw [val_zeros, zeros_length, Nat.add_zero] at h
    have hA : 0 < 10 ^ p := Nat.pow_pos (by omega)
    have : IsCeil (val i * 10 ^ p) (val i * 10 ^ p * 10 ^ p) (10 ^ p) := ⟨Nat.le_refl _, by omega⟩
    exact h.unique this

/-- **format, well-formedness and value**: for a fixed-notation residue text `t` (value in `[0, 1]`) and
`p ≤ 3` the output is `fmtHMS h m s` (`"%d:%02d:%02d"`, `"%d:%02d"` or `"%d"`) followed by nothing (`p = 0`) or a
point and exactly `p` digits, with minutes and seconds below 60 (two digits each when not leading); and the number
printed is the ceiling at `p` decimals of `whole + residue cut to 5 decimals` — so carries propagate
(`59.9995 → 1:00.000`, `3599.99 → 1:00:00`). -/
theorem C06_format_wellformed (whole p : Nat) (t : List Char) (hp : p ≤ 3) (ht : FixedResidue t) :
    ∃ h m s fd, formatSeconds whole t p = .ok (fmtHMS h m s ++ fracPart fd p) ∧ m < 60 ∧ s < 60 ∧
      (padLeft 2 (render m)).length = 2 ∧ (padLeft 2 (render s)).length = 2 ∧
      allDig fd = true ∧ fd.length = p ∧
      IsCeil ((h * 3600 + m * 60 + s) * 10 ^ p + val fd)
        ((whole * 10 ^ (truncDec t 5).2 + (truncDec t 5).1) * 10 ^ p) (10 ^ (truncDec t 5).2) := by
  obtain ⟨h, m, s, fd, h1, h2, h3, h4, h5, h6⟩ := formatSeconds_spec whole p t hp ht
  exact ⟨h, m, s, fd, h1, h2, h3, pad2_length m (by omega), pad2_length s (by omega), h4, h5, h6⟩

/-- **round trip**: parsing the formatted text gives a number `K / 10^p` (an `int` at `p = 0`) with
`trunc₅(x) ≤ K / 10^p < trunc₅(x) + 10^-p`, where `x = whole + residue`: never below the duration (noise beyond the
fifth decimal aside), less than one unit of the last printed digit above it. -/
theorem C06_roundtrip (whole p : Nat) (t : List Char) (hp : p ≤ 3) (ht : FixedResidue t) :
    ∃ out, ∃ K : Nat, formatSeconds whole t p = .ok out ∧ parseHms out = .ok ⟨decide (p = 0), (K : Int), p⟩ ∧
      IsCeil K ((whole * 10 ^ (truncDec t 5).2 + (truncDec t 5).1) * 10 ^ p) (10 ^ (truncDec t 5).2) := by
  obtain ⟨h, m, s, fd, h1, _, _, h4, h5, h6⟩ := formatSeconds_spec whole p t hp ht
  exact ⟨_, _, h1, parseHms_fmtHMS h m s p fd h4 h5, h6⟩

/-- **parsing is exact, either separator**: for fields that contain no separator, `parse_hms` of the fields joined
by `:` or by `;` is the loop `sec = sec·60 + field` over the fields (`ValueError` iff the loop fails); each step of
the loop is exact on any common decimal scale, and the result is an `int` iff every field was. -/
theorem C06_parse_exact :
    (∀ (sep : Char) (fs : List (List Char)), (sep = ':' ∨ sep = ';') → fs ≠ [] → (∀ f ∈ fs, ':' ∉ f ∧ ';' ∉ f) →
        parseHms (joinWith sep fs) = toExcept (parseFields .zero fs)) ∧
    (∀ (acc x : Num) (f : List Char) (fs : List (List Char)), parseField f = some x →
        parseFields acc (f :: fs) = parseFields (acc.add60 x) fs) ∧
    (∀ (acc x : Num) (E : Nat), acc.exp ≤ E → x.exp ≤ E →
        (acc.add60 x).isInt = (acc.isInt && x.isInt) ∧ (acc.add60 x).exp = max acc.exp x.exp ∧
        (acc.add60 x).num * (10 : Int) ^ (E - (acc.add60 x).exp) =
          acc.num * 60 * (10 : Int) ^ (E - acc.exp) + x.num * (10 : Int) ^ (E - x.exp)) ∧
    (∀ d : List Char, d ≠ [] → allDig d = true → parseField d = some ⟨true, (val d : Int), 0⟩) ∧
    (∀ d fd : List Char, d ≠ [] → allDig d = true → allDig fd = true →
        parseField (d ++ '.' :: fd) = some ⟨false, (val (d ++ fd) : Int), fd.length⟩) :=
  ⟨fun sep fs hs hne hno => parseHms_joinWith sep hs fs hne hno,
   fun acc x f fs h => parseFields_cons acc x f fs h,
   fun acc x E h1 h2 => ⟨rfl, (add60_exact acc x E h1 h2).1, (add60_exact acc x E h1 h2).2⟩,
   parseField_digits, parseField_decimal⟩

/-- the familiar instances: `h:m:s`, `m:s` and `s` of digit strings are `3600h + 60m + s`, integers stay integers,
with `:` and with `;` alike -/
theorem C06_parse_hms_ints (sep : Char) (hs : sep = ':' ∨ sep = ';') (a b c : List Char)
    (ha : a ≠ [] ∧ allDig a = true) (hb : b ≠ [] ∧ allDig b = true) (hc : c ≠ [] ∧ allDig c = true) :
    parseHms (a ++ sep :: (b ++ sep :: c)) = .ok ⟨true, ((val a * 3600 + val b * 60 + val c : Nat) : Int), 0⟩ ∧
    parseHms (b ++ sep :: c) = .ok ⟨true, ((val b * 60 + val c : Nat) : Int), 0⟩ ∧
    parseHms c = .ok ⟨true, (val c : Int), 0⟩ := by
  have pa := parseField_digits a ha.1 ha.2
  have pb := parseField_digits b hb.1 hb.2
  have pc := parseField_digits c hc.1 hc.2
  have na := parseField_no_sep _ _ pa
  have nb := parseField_no_sep _ _ pb
  have nc := parseField_no_sep _ _ pc
  refine ⟨?_, ?_, ?_⟩
  · have := parseHms_joinWith sep hs [a, b, c] (by simp) (by
      intro f hf; simp only [List.mem_cons, List.not_mem_nil, or_false] at hf
      rcases hf with rfl | rfl | rfl <;> assumption)
    rw [show joinWith sep [a, b, c] = a ++ sep :: (b ++ sep :: c) from rfl] at this
    rw [this, parseFields_cons _ _ _ _ pa, parseFields_cons _ _ _ _ pb, parseFields_cons _ _ _ _ pc, zero_add60,
      add60_int, add60_int]
    simp only [parseFields, toExcept, Int.pow_zero, Int.mul_one]
    first | done | (congr 2; first | done | grind)
  · have := parseHms_joinWith sep hs [b, c] (by simp) (by
      intro f hf; simp only [List.mem_cons, List.not_mem_nil, or_false] at hf
      rcases hf with rfl | rfl <;> assumption)
    rw [show joinWith sep [b, c] = b ++ sep :: c from rfl] at this
    rw [this, parseFields_cons _ _ _ _ pb, parseFields_cons _ _ _ _ pc, zero_add60, add60_int]
    simp only [parseFields, toExcept, Int.pow_zero, Int.mul_one]
    first | done | (congr 2; first | done | grind)
  · have := parseHms_joinWith sep hs [c] (by simp) (by
      intro f hf; simp only [List.mem_cons, List.not_mem_nil, or_false] at hf
      subst hf; assumption)
    rw [show joinWith sep [c] = c from rfl] at this
    rw [this, parseFields_cons _ _ _ _ pc, zero_add60]
    rfl

/-- **totality of the model**: `parse_hms` answers with a number or with `ValueError`, nothing else; for fields
without separators it is `ValueError` exactly when some field is outside the grammar; and an accepted field
consists of ASCII digits, `.`, `+`, `-` only. -/
theorem C06_parse_total :
    (∀ t : List Char, parseHms t = .error () ∨ ∃ n, parseHms t = .ok n) ∧
    (∀ (sep : Char) (fs : List (List Char)), (sep = ':' ∨ sep = ';') → fs ≠ [] → (∀ f ∈ fs, ':' ∉ f ∧ ';' ∉ f) →
        (parseHms (joinWith sep fs) = .error () ↔ ∃ f ∈ fs, parseField f = none)) ∧
    (∀ (s : List Char) (x : Num), parseField s = some x → ∀ c ∈ s, isDig c = true ∨ c = '.' ∨ c = '-' ∨ c = '+') := by
  refine ⟨?_, ?_, parseField_chars⟩
  · intro t
    cases h : parseHms t with
    | error e => exact Or.inl rfl
    | ok n => exact Or.inr ⟨n, rfl⟩
  · intro sep fs hs hne hno
    rw [parseHms_joinWith sep hs fs hne hno, ← parseFields_eq_none_iff .zero fs]
    cases parseFields Num.zero fs <;> simp [toExcept]

/-- **the pinned defects, on the model**: handed the exponent-notation text that `repr` produces for a tiny
residue, the same algorithm prints a whole second too much / not a duration at all (the repaired code renders the
residue with `'%.9f'`, which is always `FixedResidue`); and the pinned `round_up_str_num` returns the empty string
for `'.0'` at precision 0 where the repaired one returns `'0'`. -/
theorem C06_pinned_exponent_witness :
    formatSeconds 65 "1.4210854715202004e-14".toList 2 = .ok "1:06.43".toList ∧
    formatSeconds 0 "1e-05".toList 0 = .ok "1e-05".toList ∧
    formatSeconds 65 "0.000000000".toList 2 = .ok "1:05.00".toList ∧
    roundUpStrPinned ".0".toList 0 5 = [] ∧ roundUpStr ".0".toList 0 5 = ['0'] := by
  decide

/-! ### non-vacuity: the hypotheses are satisfiable and the carries really happen -/

example : FixedResidue "0".toList := .zero
example : FixedResidue "0.999500000".toList := .frac "999500000".toList (by decide)
example : FixedResidue "1.000000000".toList := .one 9
example : formatSeconds 59 "0.999500000".toList 3 = .ok "1:00.000".toList := by decide
example : formatSeconds 3599 "0.990000000".toList 0 = .ok "1:00:00".toList := by decide
example : formatSeconds 3599 "0.990000000".toList 2 = .ok "59:59.99".toList := by decide
example : formatSeconds 359999 "1.000000000".toList 1 = .ok "100:00:00.0".toList := by decide
example : roundUpStr "".toList 2 5 = "0.00".toList := by decide
example : roundUpStr "0099.9996".toList 3 5 = "100.000".toList := by decide
example : roundUpStr ".123450001".toList 4 5 = "0.1235".toList := by decide
example : roundUpStr ".123400001".toList 4 5 = "0.1234".toList := by decide        -- beyond 5 decimals: noise
example : (parseHms "1:01:10.1".toList).toOption = some ⟨false, 36701, 1⟩ := by decide
example : (parseHms "1;10".toList).toOption = some ⟨true, 70, 0⟩ := by decide
example : (parseHms "1:2;3".toList).toOption = none := by decide
example : (parseHms "1:".toList).toOption = none := by decide

end AthlibVerif.Props.C06
