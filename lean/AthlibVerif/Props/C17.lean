import AthlibVerif.Lemmas.Sym
import AthlibVerif.Oblig.C17.Keys
import AthlibVerif.Oblig.C17.Weights
/-!
# C17 — Implement weights and weight-specific codes stay inside the vocabulary

`Gen.implementRules` is the decision tree of `get_implement_weight` regenerated from the Python `ast` on
every run (`tools/gen_implements.py`); `Implements.weight` interprets it.  Generic theorems hold for any
rule list and **any** label string; the finite clauses are kernel-decided over the regenerated data.
-/
namespace AthlibVerif.Props.C17
open AthlibVerif AthlibVerif.Implements AthlibVerif.Oblig.C17

/-- **Vocabulary.** Whatever the event, gender and label (any strings), the reported weight is one of the
    texts written in the table, or empty ("we don't know"). -/
theorem C17_leaves (rn : List (List Atom × String)) (rules : List Rule) (ev g ag : List Char) :
    weight rn rules ev g ag = [] ∨ weight rn rules ev g ag ∈ rules.map (·.weight.toList) := by
  unfold weight
  simp only
  split
  · next r hr => right; exact List.mem_map.2 ⟨r, List.mem_of_find?_eq_some hr, rfl⟩
  · left; rfl

/-- **Non-throw codes pass through unchanged** (any strings). -/
theorem C17_passthrough (rn : List (List Atom × String)) (rules : List Rule) (ev g ag : List Char)
    (h : isThrowGeneric ev = false) : specificCode rn rules ev g ag = some ev := by
  simp [specificCode, h]

/-- a weight-specific code is the generic code followed by the table's weight (and `K` for kilograms) -/
theorem C17_code_shape (rn : List (List Atom × String)) (rules : List Rule) (ev g ag c : List Char)
    (ht : isThrowGeneric ev = true) (hw : weight rn rules ev g ag ≠ []) (h : specificCode rn rules ev g ag = some c) :
    c = ev ++ collapse (weight rn rules ev g ag) ++ (if isKg (weight rn rules ev g ag) then ['K'] else []) := by
  unfold specificCode at h
  simp only [ht, Bool.not_true, Bool.false_eq_true, if_false] at h
  split at h
  · next he => exact absurd (by simpa using he) hw
  · injection h with h; exact h.symm

/-- where the implement table has no weight for the label (under-13s, unknown labels) the generic code is handed back;
    the builder answers for every event, gender and label — it never refuses -/
theorem C17_code_generic_when_no_weight (rn : List (List Atom × String)) (rules : List Rule) (ev g ag : List Char)
    (hw : weight rn rules ev g ag = []) : specificCode rn rules ev g ag = some ev := by
  unfold specificCode
  by_cases h1 : (!isThrowGeneric ev) = true
  · simp [h1]
  · simp [h1, hw]

theorem C17_code_total (rn : List (List Atom × String)) (rules : List Rule) (ev g ag : List Char) :
    (specificCode rn rules ev g ag).isSome = true := by
  unfold specificCode
  by_cases h1 : (!isThrowGeneric ev) = true
  · simp [h1]
  · by_cases h2 : (weight rn rules ev g ag).isEmpty = true
    · simp [h1, h2]
    · simp [h1, h2]

/-- **Masters implements never get heavier as the age band rises**, V35 through V150, and every band has one. -/
theorem C17_masters_mono : mastersOK = true := masters_ok

/-- **The codes the library builds are valid throws codes carrying the table's weight**, for every throws
    event × gender × every label the library produces (and a few it does not). -/
theorem C17_codes_valid : ∀ ev ∈ throwsEvents, ∀ g ∈ genders, ∀ ag ∈ libraryLabels ++ otherLabels,
    codeOK ev g ag = true := by
  intro ev hev g hg ag hag
  have h := codes_ok
  unfold codesOK at h
  exact List.all_eq_true.1 (List.all_eq_true.1 (List.all_eq_true.1 h ev hev) g hg) ag hag

/-- … and, read denotationally: such a code is in the language of `PAT_THROWS` and of `PAT_EVENT_CODE` -/
theorem C17_codes_in_language (ev g ag : String) (c : List Char) (hev : ev ∈ throwsEvents) (hg : g ∈ genders)
    (hag : ag ∈ libraryLabels ++ otherLabels)
    (h : specificCode Gen.implementRenames Gen.implementRules ev.toList g.toList ag.toList = some c) :
    Matches Gen.PAT_THROWS c ∧ Matches Gen.PAT_EVENT_CODE c := by
  have hc := C17_codes_valid ev hev g hg ag hag
  unfold codeOK at hc
  rw [h] at hc
  simp only at hc
  split at hc
  · simp only [Bool.and_eq_true] at hc
    exact ⟨(matchesChars_iff _ _).1 hc.1.2, (matchesChars_iff _ _).1 hc.2⟩
  · simp only [Bool.and_eq_true] at hc
    exact ⟨(matchesChars_iff _ _).1 hc.1.1, (matchesChars_iff _ _).1 hc.1.2⟩

/-- **Every event-code key of the library's own scoring and age-grading tables is a valid event code.** -/
theorem C17_table_keys : ∀ k ∈ Gen.tableKeys, Matches Gen.PAT_EVENT_CODE k.toList := by
  intro k hk
  exact (matchesChars_iff _ _).1 (List.all_eq_true.1 table_keys_ok k hk)

/-! non-vacuity -/
example : specificCode Gen.implementRenames Gen.implementRules "SP".toList "M".toList "V100".toList = some "SP3K".toList := by decide +kernel
example : specificCode Gen.implementRenames Gen.implementRules "JT".toList "F".toList "SEN".toList = some "JT600".toList := by decide +kernel
example : specificCode Gen.implementRenames Gen.implementRules "WT".toList "M".toList "V50".toList = some "WT11.34K".toList := by decide +kernel

end AthlibVerif.Props.C17
