import AthlibVerif.Lemmas.Wma
import AthlibVerif.Oblig.C14.Pos2015
import AthlibVerif.Oblig.C14.Pos2023
import AthlibVerif.Oblig.C14.PosAthlons
import AthlibVerif.Oblig.C14.Spelling2015M
import AthlibVerif.Oblig.C14.Spelling2015F
import AthlibVerif.Oblig.C14.Spelling2023M
import AthlibVerif.Oblig.C14.Spelling2023F
import AthlibVerif.Oblig.C14.SpellingAthlonsM
import AthlibVerif.Oblig.C14.SpellingAthlonsF
import AthlibVerif.Gen.WmaData
/-!
# C14 — WMA age grading is defined, consistent and spelling-independent on its domain

Theorems about the exact model `Model/Wma.lean` (the repaired behaviour, see `fixes/wma-*.diff`), for
**every** table satisfying the decidable side-conditions of `Model/WmaChecks.lean`, every gender
spelling, event code, rational age and rational performance; the side-conditions are kernel-decided
for the regenerated tables in `Oblig/C14/*` and instantiated at the end of this file.  That the
implementation computes the model's values (floats within 1e-9 relative) is the correspondence
`tools/checks/c14.py`.
-/
namespace AthlibVerif.Props.C14
open AthlibVerif AthlibVerif.Wma

/-! ## the factor is a positive number -/

/-- generic: a convex combination of positive numbers with weights in `[0,1]` is positive -/
theorem C14_interp_pos (p x y : Rat) (h0 : 0 ≤ p) (h1 : p ≤ 1) (hx : 0 < x) (hy : 0 < y) :
    0 < (1 - p) * x + p * y := lerp_pos h0 h1 hx hy

/-- **factor positivity** — whenever the model returns a factor (tabulated event: age interpolation
    between two columns; other run codes: distance interpolation of two such values) it is a positive
    rational, for every table whose non-null entries are positive -/
theorem C14_factor_pos (t : Table) (hOK : factorsOK t = true) (gender : String) (age : Rat) (event : String)
    (hint : Option Nat) (x : Rat) (h : factor t gender age event hint = .ok x) : 0 < x := by
  obtain ⟨hs, _, _, hrows⟩ := factorsOK_spec t hOK
  unfold factor at h
  split at h
  · exact absurd h (by simp)
  · split at h
    · exact absurd h (by simp)
    · rename_i g _
      unfold factorCore at h
      split at h
      · rename_i r hr
        exact rowFactor_pos t r age x hs (hrows g r (List.mem_of_find?_eq_some hr)).2 h
      · split at h
        · exact absurd h (by simp)
        · exact factorByDistance_pos t (t.rows g) age _ x hs (fun r hr => (hrows g r hr).2) h

/-- combined events: the factor is `1` below the first masters band, else a positive table entry -/
theorem C14_athlon_factor_pos (t : Table) (hOK : factorsOK t = true) (minAge : Nat) (gender : String)
    (age : Rat) (event : String) (x : Rat) (h : athlonFactor t minAge gender age event = .ok x) : 0 < x := by
  obtain ⟨hs, _, _, hrows⟩ := factorsOK_spec t hOK
  unfold athlonFactor at h
  split at h
  · injection h with h; subst h; norm_num
  · split at h
    · exact absurd h (by simp)
    · split at h
      · exact absurd h (by simp)
      · rename_i g _
        split at h
        · exact absurd h (by simp)
        · rename_i r hr
          simp only at h
          split at h
          · rename_i n hn
            injection h with h; subst h
            exact facQ_pos t n hs (cell_pos_of_getD (hrows g r (List.mem_of_find?_eq_some hr)).2 hn)
          · exact absurd h (by simp)

/-- the open best of a tabulated event is positive when the table's bests are -/
theorem C14_best_pos_tabulated (t : Table) (hB : bestsOK t = true) (g : Gender) (ev : String) (hint : Option Nat)
    (r : Row) (hr : (t.rows g).find? (fun r => r.event == ev) = some r) :
    bestCore t g ev hint = .ok (t.bestQ r) ∧ 0 < t.bestQ r := by
  unfold bestsOK at hB
  simp only [Bool.and_eq_true, decide_eq_true_eq, List.all_eq_true, List.mem_append] at hB
  obtain ⟨⟨hbs, _⟩, hall⟩ := hB
  have hmem : r ∈ t.m ∨ r ∈ t.f := by
    have := List.mem_of_find?_eq_some hr
    cases g with
    | m => exact Or.inl this
    | f => exact Or.inr this
  refine ⟨by unfold bestCore; rw [hr], ?_⟩
  unfold Table.bestQ
  have h1 : (0 : Rat) < (r.best : Rat) := by exact_mod_cast hall r hmem
  have h2 : (0 : Rat) < (t.bestScale : Rat) := by exact_mod_cast hbs
  exact div_pos h1 h2

/-! ## the grade is the age standard against the performance -/

/-- **grade definition** — with open best `b`, factor `f` (both returned by the model, hence for the
    same normalised gender and event) and a positive performance: the grade is
    `(b / f) / time` for timed kinds and `mark / (b / f)` for field kinds -/
theorem C14_grade_def (t : Table) (gender : String) (age : Rat) (event : String) (perf : Rat) (hint : Option Nat)
    (k : Kind) (b f : Rat) (hk : kindOf event = some k)
    (hb : best t gender event hint = .ok b) (hf : factor t gender age event hint = .ok f)
    (hbpos : 0 < b) (hfpos : 0 < f) (hp : 0 < perf) :
    grade t gender age event perf hint = .ok (if k.timed then (b / f) / perf else perf / (b / f)) := by
  unfold best at hb; unfold factor at hf; unfold grade
  rw [hk] at hb hf ⊢
  simp only at hb hf ⊢
  split at hb
  · exact absurd hb (by simp)
  · rename_i g hg
    rw [hg] at hf
    simp only at hf ⊢
    unfold gradeCore
    rw [hb, hf]
    simp only
    unfold gradeOf
    have hstd : 0 < b / f := div_pos hbpos hfpos
    rw [if_neg (ne_of_gt hfpos)]
    cases k.timed
    · simp only [Bool.false_eq_true, if_false]; rw [if_neg (ne_of_gt hstd)]
    · simp only [if_true]; rw [if_neg (ne_of_gt hp)]

/-- conversely every grade the model returns is built from the model's best and factor that way -/
theorem C14_grade_def_conv (t : Table) (gender : String) (age : Rat) (event : String) (perf : Rat)
    (hint : Option Nat) (x : Rat) (h : grade t gender age event perf hint = .ok x) :
    ∃ k b f, kindOf event = some k ∧ best t gender event hint = .ok b ∧ factor t gender age event hint = .ok f ∧
      x = (if k.timed then (b / f) / perf else perf / (b / f)) := by
  unfold grade at h
  split at h
  · exact absurd h (by simp)
  · rename_i k hk
    split at h
    · exact absurd h (by simp)
    · rename_i g hg
      unfold gradeCore at h
      split at h
      · exact absurd h (by simp)
      · rename_i b hb
        split at h
        · exact absurd h (by simp)
        · rename_i f hf
          refine ⟨k, b, f, hk, ?_, ?_, ?_⟩
          · unfold best; rw [hk]; simp only; rw [hg]; exact hb
          · unfold factor; rw [hk]; simp only; rw [hg]; exact hf
          · unfold gradeOf at h
            split at h
            · exact absurd h (by simp)
            · simp only at h
              cases hkt : k.timed
              · rw [hkt] at h; simp only [Bool.false_eq_true, if_false] at h ⊢
                split at h
                · exact absurd h (by simp)
                · injection h with h; exact h.symm
              · rw [hkt] at h; simp only [if_true] at h ⊢
                split at h
                · exact absurd h (by simp)
                · injection h with h; exact h.symm

/-- **unit** — at an age whose factor is 1 the open best performance grades exactly 1 -/
theorem C14_unit (t : Table) (gender : String) (age : Rat) (event : String) (hint : Option Nat) (k : Kind) (b : Rat)
    (hk : kindOf event = some k) (hb : best t gender event hint = .ok b)
    (hf : factor t gender age event hint = .ok 1) (hbpos : 0 < b) :
    grade t gender age event b hint = .ok 1 := by
  rw [C14_grade_def t gender age event b hint k b 1 hk hb hf hbpos (by norm_num) hbpos]
  have : b ≠ 0 := ne_of_gt hbpos
  cases k.timed <;> simp [this]

/-- **monotone** — a better performance grades strictly higher: a shorter time for timed kinds,
    a longer mark for field kinds -/
theorem C14_grade_mono (t : Table) (gender : String) (age : Rat) (event : String) (hint : Option Nat)
    (k : Kind) (b f p p' : Rat) (hk : kindOf event = some k)
    (hb : best t gender event hint = .ok b) (hf : factor t gender age event hint = .ok f)
    (hbpos : 0 < b) (hfpos : 0 < f) (hp : 0 < p) (hpp : p < p') :
    ∃ x x', grade t gender age event p hint = .ok x ∧ grade t gender age event p' hint = .ok x' ∧
      (if k.timed then x' < x else x < x') := by
  refine ⟨_, _, C14_grade_def t gender age event p hint k b f hk hb hf hbpos hfpos hp,
    C14_grade_def t gender age event p' hint k b f hk hb hf hbpos hfpos (lt_trans hp hpp), ?_⟩
  have hstd : 0 < b / f := div_pos hbpos hfpos
  cases k.timed
  · simp only [Bool.false_eq_true, if_false]
    exact div_lt_div_of_pos_right hpp hstd
  · simp only [if_true]
    exact div_lt_div_of_pos_left hstd hp hpp

/-! ## spelling -/

/-- **letter case** — two codes with the same upper-case form that are measured the same way (both
    timed, both field, or both refused) give the same factor, best and grade -/
theorem C14_case_insensitive (t : Table) (gender : String) (age : Rat) (e e' : String) (perf : Rat)
    (hint : Option Nat) (hu : upper e = upper e')
    (hk : (kindOf e).map Kind.timed = (kindOf e').map Kind.timed) :
    factor t gender age e hint = factor t gender age e' hint ∧
    best t gender e hint = best t gender e' hint ∧
    grade t gender age e perf hint = grade t gender age e' perf hint := by
  unfold factor best grade
  cases h1 : kindOf e <;> cases h2 : kindOf e' <;> rw [h1, h2] at hk <;> simp only [Option.map] at hk
  · exact ⟨rfl, rfl, rfl⟩
  · exact absurd hk (by simp)
  · exact absurd hk (by simp)
  · injection hk with hk
    simp [hu, hk]

/-- for a tabulated event of a table whose names pass `caseOK`: the lower-case spelling is either
    refused as an event code (`5m` means five metres) or gives the same factor, best and grade -/
theorem C14_case_tabulated (rows : List Row) (hc : caseOK rows = true) (r : Row) (hr : r ∈ rows)
    (t : Table) (gender : String) (age perf : Rat) (hint : Option Nat) :
    kindOf (r.event.map Char.toLower) = none ∨
    (factor t gender age (r.event.map Char.toLower) hint = factor t gender age r.event hint ∧
     best t gender (r.event.map Char.toLower) hint = best t gender r.event hint ∧
     grade t gender age (r.event.map Char.toLower) perf hint = grade t gender age r.event perf hint) := by
  have h := List.all_eq_true.mp hc r hr
  simp only [Bool.and_eq_true, beq_iff_eq] at h
  obtain ⟨hu, hm⟩ := h
  have hlo : (r.event.map Char.toLower).toList = r.event.toList.map Char.toLower := String.toList_map
  have hup : upper (r.event.map Char.toLower) = upper r.event := by
    unfold upper
    have e1 : (String.map Char.toUpper (String.map Char.toLower r.event)).toList =
        (String.map Char.toUpper r.event).toList := by
      rw [String.toList_map, String.toList_map, String.toList_map, hu]
    rw [← String.ofList_toList (s := String.map Char.toUpper (String.map Char.toLower r.event)), e1,
      String.ofList_toList]
  have hk1 : kindOf (r.event.map Char.toLower) = kindOfL (r.event.toList.map Char.toLower) := by
    unfold kindOf; rw [hlo]
  rw [hk1]
  cases h1 : kindOfL (r.event.toList.map Char.toLower) with
  | none => exact Or.inl rfl
  | some k =>
    right
    rw [h1] at hm
    cases h2 : kindOfL r.event.toList with
    | none => rw [h2] at hm; exact absurd hm (by simp)
    | some k' =>
      rw [h2] at hm
      simp only [beq_iff_eq] at hm
      exact C14_case_insensitive t gender age _ _ perf hint hup
        (by rw [hk1, h1]; unfold kindOf; rw [h2]; simp [hm])

/-- **gender spelling** — the answers depend on the gender only through `normGender` … -/
theorem C14_gender_spelling (t : Table) (g g' : String) (age : Rat) (e : String) (perf : Rat) (hint : Option Nat)
    (h : normGender g = normGender g') :
    factor t g age e hint = factor t g' age e hint ∧ best t g e hint = best t g' e hint ∧
    grade t g age e perf hint = grade t g' age e perf hint := by
  unfold factor best grade
  simp [h]

/-- … which looks at the first letter only, in either case … -/
theorem C14_gender_first_letter (g g' : String)
    (h : g.toList.head?.map Char.toLower = g'.toList.head?.map Char.toLower) : normGender g = normGender g' := by
  unfold normGender
  cases h1 : g.toList.head? <;> cases h2 : g'.toList.head? <;> rw [h1, h2] at h <;> simp at h
  · simp [h]

/-- … and refuses everything that does not start with `m`/`M`/`f`/`F` with `ValueError` -/
theorem C14_gender_reject (g : String)
    (h : ∀ c, g.toList.head? = some c → c.toLower ≠ 'm' ∧ c.toLower ≠ 'f') : normGender g = .error .value := by
  unfold normGender
  cases h1 : g.toList.head? with
  | none => rfl
  | some c => simp only; rw [if_neg (h c h1).1, if_neg (h c h1).2]

example : normGender "m" = .ok .m ∧ normGender "M" = .ok .m ∧ normGender "male" = .ok .m ∧
    normGender "Male" = .ok .m ∧ normGender "MALE" = .ok .m ∧ normGender "f" = .ok .f ∧
    normGender "F" = .ok .f ∧ normGender "Female" = .ok .f ∧ normGender "x" = .error .value ∧
    normGender "" = .error .value := by decide

/-! ## ages past the last column -/

/-- **clamp** — every age at or beyond the last age column `L` gets the factor of `L`
    (for tabulated and for distance-interpolated events alike) -/
theorem C14_clamp_last (t : Table) (hOK : factorsOK t = true) (gender : String) (age : Rat) (event : String)
    (hint : Option Nat) (L : Nat) (hL : t.ages.getLast? = some L) (hpos : 0 < L) (h : (L : Rat) ≤ age) :
    factor t gender age event hint = factor t gender (L : Rat) event hint := by
  obtain ⟨_, hsorted, hne, _⟩ := factorsOK_spec t hOK
  have hlen : 0 < t.ages.length := List.length_pos_iff.mpr hne
  have hLeq : t.ages[t.ages.length - 1]'(by omega) = L := by
    rw [List.getLast?_eq_getElem?, List.getElem?_eq_getElem (by omega)] at hL
    exact Option.some.inj hL
  have hLq : (0 : Rat) < (L : Rat) := by exact_mod_cast hpos
  have e1 : effAge age = age := by unfold effAge; rw [if_neg (by linarith)]
  have e2 : effAge (L : Rat) = (L : Rat) := by unfold effAge; rw [if_neg (ne_of_gt hLq)]
  have f1 := findAge_clamp t.ages hsorted hne age (by rw [hLeq, e1]; exact h)
  have f2 := findAge_clamp t.ages hsorted hne (L : Rat) (by rw [hLeq, e2])
  unfold factor
  simp only [fun g => factorCore_congr t g age (L : Rat) (upper event) hint (f1.trans f2.symm)]

/-- … and that factor is the last column's entry itself for a tabulated event -/
theorem C14_clamp_last_cell (t : Table) (hOK : factorsOK t = true) (r : Row) (age : Rat) (L : Nat)
    (hL : t.ages.getLast? = some L) (hpos : 0 < L) (h : (L : Rat) ≤ age) :
    rowFactor t r age = match r.facs.getD (t.ages.length - 1) none with
      | some x => .ok (t.facQ x)
      | none => .error .noFactor := by
  obtain ⟨_, hsorted, hne, _⟩ := factorsOK_spec t hOK
  have hlen : 0 < t.ages.length := List.length_pos_iff.mpr hne
  have hLeq : t.ages[t.ages.length - 1]'(by omega) = L := by
    rw [List.getLast?_eq_getElem?, List.getElem?_eq_getElem (by omega)] at hL
    exact Option.some.inj hL
  have hLq : (0 : Rat) < (L : Rat) := by exact_mod_cast hpos
  have e1 : effAge age = age := by unfold effAge; rw [if_neg (by linarith)]
  have f1 := findAge_clamp t.ages hsorted hne age (by rw [hLeq, e1]; exact h)
  unfold rowFactor
  rw [f1]
  simp only
  cases r.facs.getD (t.ages.length - 1) none with
  | none => rfl
  | some x => simp only [lerp_self]

/-! ## instances for the regenerated tables, and non-vacuity -/

theorem C14_factor_pos_2015 (gender : String) (age : Rat) (event : String) (hint : Option Nat) (x : Rat)
    (h : factor Gen.wma2015 gender age event hint = .ok x) : 0 < x :=
  C14_factor_pos Gen.wma2015 Oblig.C14.factors_ok_2015 gender age event hint x h
theorem C14_factor_pos_2023 (gender : String) (age : Rat) (event : String) (hint : Option Nat) (x : Rat)
    (h : factor Gen.wma2023 gender age event hint = .ok x) : 0 < x :=
  C14_factor_pos Gen.wma2023 Oblig.C14.factors_ok_2023 gender age event hint x h
theorem C14_factor_pos_athlons (gender : String) (age : Rat) (event : String) (x : Rat)
    (h : athlonFactor Gen.wmaAthlons Gen.wmaMinAge gender age event = .ok x) : 0 < x :=
  C14_athlon_factor_pos Gen.wmaAthlons Oblig.C14.factors_ok_athlons Gen.wmaMinAge gender age event x h
/-- the last columns are 100 (2015) and 110 (2023) on the pinned tree; whatever they are after a
    regeneration, every age from there on gets that column -/
theorem C14_clamp_last_2015 (gender : String) (age : Rat) (event : String) (hint : Option Nat) (L : Nat)
    (hL : Gen.wma2015.ages.getLast? = some L) (hpos : 0 < L) (h : (L : Rat) ≤ age) :
    factor Gen.wma2015 gender age event hint = factor Gen.wma2015 gender (L : Rat) event hint :=
  C14_clamp_last Gen.wma2015 Oblig.C14.factors_ok_2015 gender age event hint L hL hpos h
theorem C14_clamp_last_2023 (gender : String) (age : Rat) (event : String) (hint : Option Nat) (L : Nat)
    (hL : Gen.wma2023.ages.getLast? = some L) (hpos : 0 < L) (h : (L : Rat) ≤ age) :
    factor Gen.wma2023 gender age event hint = factor Gen.wma2023 gender (L : Rat) event hint :=
  C14_clamp_last Gen.wma2023 Oblig.C14.factors_ok_2023 gender age event hint L hL hpos h

/-- every tabulated event of every regenerated table, in lower case -/
theorem C14_case_tabulated_all (rows : List Row)
    (h : rows ∈ [Gen.wma2015.m, Gen.wma2015.f, Gen.wma2023.m, Gen.wma2023.f, Gen.wmaAthlons.m, Gen.wmaAthlons.f])
    (r : Row) (hr : r ∈ rows) (t : Table) (gender : String) (age perf : Rat) (hint : Option Nat) :
    kindOf (r.event.map Char.toLower) = none ∨
    (factor t gender age (r.event.map Char.toLower) hint = factor t gender age r.event hint ∧
     best t gender (r.event.map Char.toLower) hint = best t gender r.event hint ∧
     grade t gender age (r.event.map Char.toLower) perf hint = grade t gender age r.event perf hint) := by
  have hc : caseOK rows = true := by
    have key : ∀ rs, spellingOK rs = true → caseOK rs = true := fun rs h => by
      unfold spellingOK at h; simp only [Bool.and_eq_true] at h; exact h.2
    simp only [List.mem_cons, List.not_mem_nil, or_false] at h
    rcases h with rfl | rfl | rfl | rfl | rfl | rfl
    · exact key _ Oblig.C14.spelling_ok_2015_m
    · exact key _ Oblig.C14.spelling_ok_2015_f
    · exact key _ Oblig.C14.spelling_ok_2023_m
    · exact key _ Oblig.C14.spelling_ok_2023_f
    · exact key _ Oblig.C14.spelling_ok_athlons_m
    · exact key _ Oblig.C14.spelling_ok_athlons_f
  exact C14_case_tabulated rows hc r hr t gender age perf hint

/-! ### non-vacuity: the hypotheses above are met on the regenerated tables
(kernel-evaluated; the values are those of the pinned data and are re-checked on every regeneration —
if the data changes these examples, not the theorems, need new numbers) -/

theorem okEq_sound (r : Res) (q : Rat) (h : okEq r q = true) : r = .ok q := by
  unfold okEq at h
  split at h
  · rename_i x; simp only [beq_iff_eq] at h; rw [h]
  · exact absurd h (by simp)

section examples
-- a tabulated event in lower case with an upper-case gender: factor, best, grade all defined
example : okEq (factor Gen.wma2023 "M" 40 "5k") (1187/1250) = true := by decide +kernel
example : okEq (best Gen.wma2023 "M" "5k") 771 = true := by decide +kernel
example : okEq (grade Gen.wma2023 "Male" 40 "5k" 983) (963750/1166821) = true := by decide +kernel
-- C14_unit: at 29 the men's 5K factor is 1 and the open best 12:51 grades exactly 1; field event likewise
example : okEq (factor Gen.wma2023 "M" 29 "5K") 1 = true ∧ okEq (grade Gen.wma2023 "M" 29 "5K" 771) 1 = true := by
  decide +kernel
example : okEq (factor Gen.wma2023 "f" 25 "hj") 1 = true ∧ okEq (grade Gen.wma2023 "f" 25 "hj" (209/100)) 1 = true := by
  decide +kernel
-- half-integer age, interpolated between two columns
example : okEq (factor Gen.wma2023 "male" (81/2) "5K") (9461/10000) = true := by decide +kernel
-- C14_clamp_last: 200 years reads the last column (110)
example : okEq (factor Gen.wma2023 "m" 200 "10K") (1197/5000) = true ∧
    okEq (factor Gen.wma2023 "m" 110 "10K") (1197/5000) = true := by decide +kernel
-- exactly on the first non-null column (women's high jump starts at 8) the factor is defined; below it is not
example : okEq (factor Gen.wma2023 "f" 8 "HJ") (15713/10000) = true ∧
    errEq (factor Gen.wma2023 "f" 7 "HJ") .noFactor = true := by decide +kernel
-- combined events: five-year band, hurdles remap, 1 below the first masters band
example : okEq (athlonFactor Gen.wmaAthlons Gen.wmaMinAge "M" 66 "60h") (8351/10000) = true ∧
    okEq (athlonFactor Gen.wmaAthlons Gen.wmaMinAge "f" (139/2) "100H") (athlonFactor Gen.wmaAthlons Gen.wmaMinAge "F" 65 "SH" |>.toOption.getD 0) = true ∧
    okEq (athlonFactor Gen.wmaAthlons Gen.wmaMinAge "M" 20 "60h") 1 = true := by decide +kernel
-- refused spellings
example : errEq (factor Gen.wma2023 "x" 40 "5K") .value = true ∧ errEq (factor Gen.wma2023 "m" 40 "5m") .value = true := by
  decide +kernel
end examples

/-! ### the pinned behaviour violates the property (models of the unrepaired code, `decide`d) -/

/-- pinned `world_best` indexed the table with the gender string as given (`data[gender]`, keys
    `'m'`/`'f'`): upper-case and long spellings, which `calculate_factor` accepts, raised `KeyError` -/
def pinnedBestGenderKey (g : String) : Option Gender :=
  if g == "m" then some .m else if g == "f" then some .f else none

theorem pinned_world_best_rejects_accepted_spellings :
    pinnedBestGenderKey "M" = none ∧ normGender "M" = .ok .m ∧
    pinnedBestGenderKey "Female" = none ∧ normGender "Female" = .ok .f := by decide

/-- pinned `find_age` at an age exactly on column `i` returned `(i−1, i, 1)`; the factor then multiplied
    the left neighbour by `0.0` — `TypeError` when that neighbour is null, i.e. exactly at the first
    non-null column, the first age of the property's domain -/
def pinnedOnColumn (facs : List (Option Nat)) (i : Nat) : Option Nat :=
  match facs.getD (i - 1) none, facs.getD i none with
  | some _, some y => some y      -- 0·x + 1·y
  | _, _ => none                  -- TypeError: float * NoneType

theorem pinned_first_column_undefined :
    pinnedOnColumn [none, none, none, some 15713, some 14616] 3 = none ∧
    okEq (rowFactor ⟨[5, 6, 7, 8, 9], 1, 1, 10000, [], []⟩ ⟨"HJ", 0, 209, [none, none, none, some 15713, some 14616]⟩ 8)
      (15713/10000) = true := by decide +kernel

end AthlibVerif.Props.C14
