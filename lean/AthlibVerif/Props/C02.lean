import AthlibVerif.Lemmas.HJ
import AthlibVerif.Lemmas.CardShape
import AthlibVerif.Lemmas.Consec
import AthlibVerif.Lemmas.RoundLim
/-!
# C02 — High jump: only rule-conforming trials are recorded; refusals change nothing

Theorems about `HJ.step`, the transcription of `athlib/highjump.py` (agreement of the real object with
`step` on every call of an exhaustive bounded exploration and of long random walks is the
correspondence, tools/checks/c02.py).  Everything here holds for **all** states and operations unless a
reachability hypothesis is written out; reachability is "produced from the empty competition by any
finite sequence of calls, accepted or refused".
-/
namespace AthlibVerif.Props.C02
open AthlibVerif AthlibVerif.HJ

/-- states produced from the empty competition by any call sequence (legal or not) -/
inductive Reachable : Comp → Prop
  | init : Reachable {}
  | step (c : Comp) (op : Op) : Reachable c → Reachable (step c op).1

/-- **Refusals change nothing.** A call that is not accepted leaves the *whole* state — hence every
    observable: state, heights, cards, bests, places, action log — exactly as before.  All states. -/
theorem C02_atomic (c : Comp) (op : Op) (h : (step c op).2 ≠ .ok) : (step c op).1 = c := by
  cases op with
  | add b => rw [step_add] at *; split <;> simp_all
  | bar x => rw [step_bar] at *; split <;> simp_all
  | trial b t =>
    rcases step_trial c b t with ⟨j, j', _, _, _, _, hs⟩ | ⟨h1, _⟩
    · rw [hs] at h; simp at h
    · exact h1

/-- the action log records exactly the accepted calls, in order -/
theorem C02_log_only_accepted (c : Comp) (op : Op) :
    (step c op).1.log = if (step c op).2 = .ok then c.log ++ [op] else c.log := by
  cases op with
  | add b => rw [step_add]; split <;> simp [addResult]
  | bar x => rw [step_bar]; split <;> simp [barResult]
  | trial b t =>
    rcases step_trial c b t with ⟨j, j', _, _, _, _, hs⟩ | ⟨h1, h2, _⟩
    · rw [hs]; simp [trialResult, (rank_frame _).1.1]
    · rw [h1]; simp [h2]

/-- athletes join only while the competition is scheduled, and only with a fresh bib -/
theorem C02_add_only_scheduled (c : Comp) (b : Nat) :
    (step c (.add b)).2 = .ok ↔ (c.phase = .scheduled ∧ c.find b = none) := by
  rw [step_add]; split <;> simp_all

/-- the bar only rises outside a jump-off; it is never set once the competition is finished or drawn -/
theorem C02_bar_rises_outside_jumpoff (c : Comp) (h : Int) :
    (step c (.bar h)).2 = .ok ↔
      ((c.phase = .scheduled ∨ c.phase = .started ∨ c.phase = .jumpoff ∨ c.phase = .won) ∧
       (c.phase = .jumpoff ∨ c.heights.getLast?.getD 0 < h)) := by
  show _ ↔ barAllowed c h
  rw [step_bar]
  by_cases hb : barAllowed c h <;> simp [hb]

/-- an accepted trial was made by a registered athlete who was neither out (eliminated) nor done at
    this height (dismissed) and had attempts left: fewer than `roundLim` at the current height -/
theorem C02_attempt_limit (c : Comp) (b : Nat) (t : Trial) (h : (step c (.trial b t)).2 = .ok) :
    ∃ j, c.find b = some j ∧ trialAllowed c j = true ∧ c.heights ≠ [] ∧ j.eliminated = false ∧ j.dismissed = false ∧
      ((padCard j.card c.heights.length).getLast?.getD []).length < j.roundLim := by
  rcases step_trial c b t with ⟨j, j', hj, ha, hh, hact, _⟩ | ⟨_, h2, _⟩
  · exact ⟨j, hj, ha, hh, act_some j j' _ _ t hact⟩
  · exact absurd h h2

/-- nobody jumps, passes or retires once out (eliminated) or done at the current height (dismissed) -/
theorem C02_no_trial_when_out (c : Comp) (b : Nat) (t : Trial) (j : Jumper) (hj : c.find b = some j)
    (hout : j.eliminated = true ∨ j.dismissed = true) : (step c (.trial b t)).2 ≠ .ok := by
  intro h
  obtain ⟨j', hj', _, _, he, hd, _⟩ := C02_attempt_limit c b t h
  rw [hj] at hj'; injection hj' with hj'; subst hj'
  rcases hout with h | h <;> simp_all

/-- a call by a registered athlete once a bar height exists is accepted or refused with the
    rule-violation error, nothing else; `add` and `bar` calls always are -/
theorem C02_refusal_is_rule_violation (c : Comp) (op : Op)
    (hdom : match op with
      | .trial b _ => (c.find b).isSome ∧ c.heights ≠ []
      | _ => True) :
    (step c op).2 = .ok ∨ (step c op).2 = .rule := by
  cases op with
  | add b => rw [step_add]; split <;> simp
  | bar x => rw [step_bar]; split <;> simp
  | trial b t =>
    rcases step_trial c b t with ⟨j, j', _, _, _, _, hs⟩ | ⟨_, h2, hk, ha⟩
    · rw [hs]; simp
    · right
      cases ho : (step c (.trial b t)).2 with
      | ok => exact absurd ho h2
      | rule => rfl
      | key => have := hk.1 ho; simp [this] at hdom
      | assert => exact absurd (ha ho) hdom.2

theorem stage_le_of_phaseStep (p p' : Phase) (h : PhaseStep p p')
    (hp : p = .started ∨ p = .jumpoff ∨ p = .won) : stage p ≤ stage p' := by
  rcases h with h | h | h | h | ⟨h, _⟩ <;> rcases hp with hp | hp | hp <;> subst_vars <;> simp [stage]

/-- the state only moves forward: scheduled < started < jump-off = won < finished = drawn.
    (For `finished`/`drawn` see `C02_terminal_absorbing`: nothing is accepted there at all.) -/
theorem C02_phase_forward (c : Comp) (op : Op) (hf : c.phase ≠ .finished) (hd : c.phase ≠ .drawn) :
    stage c.phase ≤ stage (step c op).1.phase := by
  cases op with
  | add b => rw [step_add]; split <;> simp [addResult]
  | bar x =>
    rw [step_bar]; split
    · simp only [barResult]; split <;> simp_all [stage]
    · simp
  | trial b t =>
    rcases step_trial c b t with ⟨j, j', _, ha, _, _, hs⟩ | ⟨h1, _⟩
    · rw [hs]
      have hr := (rank_frame (logTrial c b t j')).2
      simp only [logTrial_phase] at hr
      apply stage_le_of_phaseStep _ _ hr
      unfold trialAllowed at ha
      cases hp : c.phase <;> simp_all
    · rw [h1]; exact Nat.le_refl _

/-- in a drawn competition everybody is out — an invariant of every reachable state (`drawnInv_reachable`) -/
def DrawnInv (c : Comp) : Prop := c.phase = .drawn → ∀ j ∈ c.jumpers, j.eliminated = true

/-- nothing is accepted once the competition is finished; nor once it is drawn, given `DrawnInv` -/
theorem C02_terminal_absorbing (c : Comp) (op : Op) (hinv : DrawnInv c)
    (h : c.phase = .finished ∨ c.phase = .drawn) : (step c op).2 ≠ .ok := by
  cases op with
  | add b => rw [step_add]; rcases h with h | h <;> simp [h]
  | bar x => rw [step_bar]; rcases h with h | h <;> simp [h, barAllowed]
  | trial b t =>
    intro hok
    obtain ⟨j, hj, ha, _, he, _, _⟩ := C02_attempt_limit c b t hok
    rcases h with h | h
    · simp [trialAllowed, h] at ha
    · have hm : j ∈ c.jumpers := List.mem_of_find?_eq_some hj
      have := hinv h j hm
      simp_all

/-! ## invariants of every reachable state -/

theorem rankTie_drawn (c : Comp) (hall : c.jumpers.filter (fun j => !j.eliminated) = [])
    (h : (rankTie c).phase = .drawn) : ∀ j ∈ (rankTie c).jumpers, j.eliminated = true := by
  unfold rankTie at h ⊢
  simp only at h ⊢
  split at h
  · rw [(rankj_frame _).2.2.1] at h; cases h
  · next hnc =>
    rw [if_neg hnc]
    intro j hj
    simp only [List.mem_map] at hj
    obtain ⟨k, hk, rfl⟩ := hj
    have hnone : reinstated c k = false := by
      cases hr : reinstated c k with
      | false => rfl
      | true =>
        exfalso; apply hnc
        exact List.length_pos_of_mem (List.mem_filter.2 ⟨hk, hr⟩)
    simp only [hnone, Bool.false_eq_true, if_false]
    have := List.filter_eq_nil_iff.1 hall k hk
    simpa using this

theorem rank_drawn (c : Comp) (hne : c.phase ≠ .drawn) (h : (rank c).phase = .drawn) :
    ∀ j ∈ (rank c).jumpers, j.eliminated = true := by
  have hp := (rankj_frame c).2.2.1
  unfold rank at h ⊢
  simp only at h ⊢
  split at h
  · rw [hp] at h; exact absurd h hne
  · split at h
    · next hall =>
      split at h
      · next hs => simp only [hall, hs, if_true]; exact rankTie_drawn _ hall h
      · exfalso
        have := rankLeader_phase (rankj c) ‹_›
        rw [h, hp] at this
        rcases this with h' | h'
        · exact hne h'.symm
        · cases h'
    · exfalso
      have := rankOneLeft_phase (rankj c) ‹_›
      rw [h, hp] at this
      rcases this with h' | h' | h'
      · exact hne h'.symm
      · cases h'
      · cases h'
    · rw [hp] at h; exact absurd h hne

/-- heights exist exactly when the competition has left `scheduled` -/
def StartedInv (c : Comp) : Prop := c.heights = [] ↔ c.phase = .scheduled

theorem inv_step (c : Comp) (op : Op) (h1 : DrawnInv c) (h2 : StartedInv c) :
    DrawnInv (step c op).1 ∧ StartedInv (step c op).1 := by
  by_cases hok : (step c op).2 = .ok
  · cases op with
    | add b =>
      rw [step_add] at hok ⊢
      split at hok
      · next hc => simp only [hc, and_self, if_true]
                   unfold DrawnInv StartedInv at *
                   simp_all [addResult]
      · simp at hok
    | bar x =>
      rw [step_bar] at hok ⊢
      split at hok
      · next hc =>
        simp only [hc, if_true]
        unfold barAllowed at hc
        unfold DrawnInv StartedInv at *
        constructor
        · intro hd; simp only [barResult] at hd; split at hd <;> simp_all
        · simp only [barResult]; split <;> simp_all
      · simp at hok
    | trial b t =>
      rcases step_trial c b t with ⟨j, j', _, ha, hh, _, hs⟩ | ⟨_, hno, _⟩
      · rw [hs]
        have hne : c.phase ≠ .drawn := by
          intro hd
          have := C02_terminal_absorbing c (.trial b t) h1 (Or.inr hd)
          exact this hok
        have hfr := rank_frame (logTrial c b t j')
        constructor
        · intro hd
          exact rank_drawn _ (by simpa using hne) hd
        · unfold StartedInv at *
          simp only [trialResult]
          rw [hfr.1.2.1]
          simp only [logTrial_heights]
          have hp := hfr.2
          simp only [logTrial_phase] at hp
          unfold PhaseStep at hp
          unfold trialAllowed at ha
          constructor
          · intro h0; exact absurd h0 hh
          · intro hsched
            exfalso
            rcases hp with h' | h' | h' | h' | ⟨h', _⟩ <;> rw [h'] at hsched <;> simp_all
      · exact absurd hok hno
  · rw [C02_atomic c op hok]; exact ⟨h1, h2⟩

theorem inv_reachable (c : Comp) (h : Reachable c) : DrawnInv c ∧ StartedInv c := by
  induction h with
  | init =>
    constructor
    · intro h; cases h
    · unfold StartedInv; simp
  | step c op _ ih => exact inv_step c op ih.1 ih.2

/-- **Nothing is accepted once the competition is finished or drawn** — every reachable state. -/
theorem C02_terminal_absorbing_reachable (c : Comp) (op : Op) (hr : Reachable c)
    (h : c.phase = .finished ∨ c.phase = .drawn) : (step c op).2 ≠ .ok ∧ (step c op).1 = c :=
  ⟨C02_terminal_absorbing c op (inv_reachable c hr).1 h,
   C02_atomic c op (C02_terminal_absorbing c op (inv_reachable c hr).1 h)⟩

/-- **The state never moves backwards** along any call sequence from the empty competition. -/
theorem C02_phase_forward_reachable (c : Comp) (op : Op) (hr : Reachable c) :
    stage c.phase ≤ stage (step c op).1.phase := by
  by_cases h : c.phase = .finished ∨ c.phase = .drawn
  · rw [(C02_terminal_absorbing_reachable c op hr h).2]; exact Nat.le_refl _
  · exact C02_phase_forward c op (fun hf => h (Or.inl hf)) (fun hd => h (Or.inr hd))

/-- **A refused call raises the rule-violation error** (for every bib of the competition, every reachable state):
    the height-count assertion is unreachable because heights exist whenever trials are admitted. -/
theorem C02_refused_means_rule_violation (c : Comp) (op : Op) (hr : Reachable c)
    (hbib : match op with | .trial b _ => (c.find b).isSome | _ => True) :
    (step c op).2 = .ok ∨ (step c op).2 = .rule := by
  cases op with
  | add b => exact C02_refusal_is_rule_violation c _ trivial
  | bar x => exact C02_refusal_is_rule_violation c _ trivial
  | trial b t =>
    by_cases hh : c.heights = []
    · right
      have hs := (inv_reachable c hr).2.1 hh
      rcases step_trial c b t with ⟨j, _, _, ha, _, _, _⟩ | ⟨_, h2, hk, _⟩
      · simp [trialAllowed, hs] at ha
      · obtain ⟨j, hj⟩ := Option.isSome_iff_exists.1 hbib
        simp only [step, hj, trialAllowed, hs]
        simp
    · exact C02_refusal_is_rule_violation c _ ⟨hbib, hh⟩

/-- **Athletes join only before the first bar height**, in every reachable state. -/
theorem C02_add_before_first_height (c : Comp) (b : Nat) (hr : Reachable c) :
    (step c (.add b)).2 = .ok ↔ (c.heights = [] ∧ c.find b = none) := by
  have h2 : c.heights = [] ↔ c.phase = .scheduled := (inv_reachable c hr).2
  rw [C02_add_only_scheduled, h2]

/-! ## what every reachable card looks like (Lemmas/Places, Lemmas/CardShape) -/

theorem wf_reachable (c : Comp) (h : Reachable c) : WF c := by
  induction h with
  | init => exact ⟨by simp, by simp⟩
  | step c op _ ih => exact step_WF c op ih

theorem allFlags_reachable (c : Comp) (h : Reachable c) : AllFlags c := by
  induction h with
  | init => intro j hj; cases hj
  | step c op hr ih => exact step_AllFlags c op (wf_reachable c hr) ih

/-- **Never more than three attempts at a height, failures first** — every card of every reachable competition:
    each cell holds at most three marks, and all but the last are failures (a clearance, pass or retirement closes
    the cell). -/
theorem C02_card_shape (c : Comp) (h : Reachable c) (j : Jumper) (hj : j ∈ c.jumpers) (cell : List Trial)
    (hc : cell ∈ j.card) : cell.dropLast.all (· == .x) = true ∧ cell.length ≤ 3 :=
  (allFlags_reachable c h j hj).cells cell hc

/-- no card is longer than the list of heights; an athlete who is out is also done at the current height; the
    attempt limit is three, or one for a re-instated (jump-off) athlete -/
theorem C02_flags_follow_card (c : Comp) (h : Reachable c) (j : Jumper) (hj : j ∈ c.jumpers) :
    j.card.length ≤ c.heights.length ∧ (j.eliminated = true → j.dismissed = true) ∧ (j.roundLim = 1 ∨ j.roundLim = 3) :=
  ⟨(allFlags_reachable c h j hj).len, (allFlags_reachable c h j hj).outDone, (allFlags_reachable c h j hj).lim⟩

/-- **An accepted trial goes into an open cell**: in every reachable state, the athlete whose trial is accepted has
    only failures — fewer than the attempt limit — at the current height, so nobody jumps again after clearing,
    passing or retiring at a height, and nobody gets a fourth attempt. -/
theorem C02_accepted_trial_open_cell (c : Comp) (hr : Reachable c) (b : Nat) (t : Trial)
    (h : (step c (.trial b t)).2 = .ok) :
    ∃ j, c.find b = some j ∧
      let cur := (padCard j.card c.heights.length).getLast?.getD []
      cur.all (· == .x) = true ∧ cur.length < j.roundLim ∧ cur.length < 3 := by
  obtain ⟨j, hj, _, _, he, hd, hlt⟩ := C02_attempt_limit c b t h
  have hf := allFlags_reachable c hr j (List.mem_of_find?_eq_some hj)
  refine ⟨j, hj, hf.openCell he hd, hlt, ?_⟩
  rcases hf.lim with e | e <;> omega

theorem allConsec_reachable (c : Comp) (h : Reachable c) : AllConsec c := by
  induction h with
  | init => intro j hj; cases hj
  | step c op hr ih => exact step_AllConsec c op (wf_reachable c hr) (allFlags_reachable c hr) ih

/-- **Three consecutive failures, read off the card.**  In every reachable state, for every athlete who has not been
    re-instated for a jump-off (attempt limit still three): the number of failures on the card since the last
    clearance (passes and skipped heights do not interrupt the run) is at most three, and the athlete is out
    exactly when it has reached three or the card shows a retirement. -/
theorem C02_three_consecutive_failures (c : Comp) (h : Reachable c) (j : Jumper) (hj : j ∈ c.jumpers)
    (h3 : j.roundLim = 3) :
    trailingX j.card.flatten ≤ 3 ∧
    (j.eliminated = true ↔ (j.card.flatten.contains .r = true ∨ 3 ≤ trailingX j.card.flatten)) := by
  have hc := allConsec_reachable c h j hj
  have e := hc.count h3
  rw [← e]
  exact ⟨hc.bound h3, hc.out h3⟩

/-- **Accepted exactly when the rules allow it — read off the card.**  While the competition is in progress
    (`started`), for a registered athlete who has not been re-instated for a jump-off, a cleared / failed / passed /
    retired call is accepted **if and only if** a bar height has been set, the card shows no retirement, fewer than
    three failures since the last clearance, and nothing but failures at the current height. -/
theorem C02_trial_accepted_iff_allowed (c : Comp) (hr : Reachable c) (b : Nat) (t : Trial) (j : Jumper)
    (hj : c.find b = some j) (h3 : j.roundLim = 3) (hph : trialAllowed c j = true) :
    (step c (.trial b t)).2 = .ok ↔
      (c.heights ≠ [] ∧ j.card.flatten.contains .r = false ∧ trailingX j.card.flatten < 3 ∧
        allX ((padCard j.card c.heights.length).getLast?.getD []) = true) := by
  have hm : j ∈ c.jumpers := List.mem_of_find?_eq_some hj
  have hf := allFlags_reachable c hr j hm
  have hc := allConsec_reachable c hr j hm
  have hcount := hc.count h3
  have hout := hc.out h3
  constructor
  · intro h
    obtain ⟨j', hj', _, hh, he, hd, _⟩ := C02_attempt_limit c b t h
    rw [hj] at hj'; injection hj' with hj'; subst hj'
    rw [he] at hout
    refine ⟨hh, ?_, ?_, hf.openCell he hd⟩
    · cases hrr : j.card.flatten.contains Trial.r with
      | false => rfl
      | true => exact absurd (hout.2 (Or.inl hrr)) (by simp)
    · rw [← hcount]
      apply Nat.lt_of_not_le
      intro hge
      exact absurd (hout.2 (Or.inr hge)) (by simp)
  · rintro ⟨hh, hnr, hlt, hopen⟩
    have he : j.eliminated = false := by
      cases hel : j.eliminated with
      | false => rfl
      | true =>
        rcases hout.1 hel with h | h
        · unfold hasR at h; rw [hnr] at h; cases h
        · omega
    have hd : j.dismissed = false := by
      cases hdd : j.dismissed with
      | false => rfl
      | true => have := hc.done h3 hdd he; rw [hopen] at this; cases this
    have hlen := open_cell_le_trailing j.card c.heights.length hf.len hopen
    have hl0 : c.heights.length ≠ 0 := fun e => hh (List.eq_nil_of_length_eq_zero e)
    simp only [step, hj, hph, Jumper.act, he, hd]
    have : ¬ ((padCard j.card c.heights.length).getLast?.getD []).length + 1 > j.roundLim := by omega
    simp [hl0, this]

/-- the same while the competition is in progress (`started`): the state test is then always passed -/
theorem C02_trial_accepted_iff (c : Comp) (hr : Reachable c) (b : Nat) (t : Trial) (j : Jumper)
    (hj : c.find b = some j) (h3 : j.roundLim = 3) (hph : c.phase = .started) :
    (step c (.trial b t)).2 = .ok ↔
      (c.heights ≠ [] ∧ j.card.flatten.contains .r = false ∧ trailingX j.card.flatten < 3 ∧
        allX ((padCard j.card c.heights.length).getLast?.getD []) = true) :=
  C02_trial_accepted_iff_allowed c hr b t j hj h3 (by unfold trialAllowed; simp [hph])

/-- who may act at all: everybody while the competition is `started` or in a `jumpoff`, only an athlete in first place
    once it is `won` (or `drawn`), nobody before the first height is set or after it is `finished` -/
theorem C02_state_gate (c : Comp) (b : Nat) (t : Trial) (j : Jumper) (hj : c.find b = some j)
    (h : (step c (.trial b t)).2 = .ok) :
    c.phase = .started ∨ c.phase = .jumpoff ∨ ((c.phase = .won ∨ c.phase = .drawn) ∧ j.place = 1) := by
  obtain ⟨j', hj', ha, _⟩ := C02_attempt_limit c b t h
  rw [hj] at hj'; injection hj' with hj'; subst hj'
  unfold trialAllowed at ha
  cases hp : c.phase <;> simp_all

/-! non-vacuity: a reachable drawn competition, a reachable jump-off, a refused call (kernel-evaluated) -/
def runOps (ops : List Op) : Comp := ops.foldl (fun c op => (step c op).1) {}

theorem reachable_runOps (ops : List Op) : Reachable (runOps ops) := by
  suffices ∀ c, Reachable c → Reachable (ops.foldl (fun c op => (step c op).1) c) from this _ .init
  induction ops with
  | nil => intro c h; exact h
  | cons op rest ih => intro c h; exact ih _ (.step c op h)

example : (runOps [.add 1, .add 2, .bar 105, .trial 1 .o, .trial 2 .o, .bar 108, .trial 1 .r, .trial 2 .r]).phase = .drawn := by decide
example : (runOps [.add 1, .add 2, .bar 105, .trial 1 .x, .trial 1 .x, .trial 1 .x, .trial 2 .x, .trial 2 .x, .trial 2 .x]).phase = .jumpoff := by decide
example : (step (runOps [.add 1, .bar 105, .trial 1 .o]) (.trial 1 .o)).2 = .rule := by decide

/-! ## three attempts at a height, one in a jump-off (Lemmas/RoundLim) -/

theorem limInv_reachable (c : Comp) (h : Reachable c) : LimInv c := by
  induction h with
  | init => exact LimInv_init
  | step c op hr ih => exact step_LimInv c op (wf_reachable c hr) ih

/-- **The attempt limit is three, and one in a jump-off** — in every reachable competition: the number an accepted
    trial is measured against (`C02_attempt_limit`) is 3 for every athlete while the competition is scheduled, started
    or won, 1 for every athlete still in while a jump-off runs, and never anything else. -/
theorem C02_limit_is_three_or_one (c : Comp) (hr : Reachable c) (j : Jumper) (hj : j ∈ c.jumpers) :
    ((c.phase = .scheduled ∨ c.phase = .started ∨ c.phase = .won) → j.roundLim = 3) ∧
    (c.phase = .jumpoff → j.eliminated = false → j.roundLim = 1) ∧ (j.roundLim = 1 ∨ j.roundLim = 3) :=
  ⟨fun hq => (limInv_reachable c hr).regular hq j hj, fun hq he => (limInv_reachable c hr).jumpoff hq j hj he,
    (limInv_reachable c hr).either j hj⟩

/-- an accepted trial in a jump-off is the athlete's first and only attempt at that height; any accepted trial is at
    most the third -/
theorem C02_attempts_at_height (c : Comp) (hr : Reachable c) (b : Nat) (t : Trial) (h : (step c (.trial b t)).2 = .ok) :
    ∃ j, c.find b = some j ∧ ((padCard j.card c.heights.length).getLast?.getD []).length < 3 ∧
      (c.phase = .jumpoff → (padCard j.card c.heights.length).getLast?.getD [] = []) := by
  obtain ⟨j, hj, _, _, he, _, hlt⟩ := C02_attempt_limit c b t h
  have hm : j ∈ c.jumpers := List.mem_of_find?_eq_some hj
  obtain ⟨_, hjo, hei⟩ := C02_limit_is_three_or_one c hr j hm
  refine ⟨j, hj, by omega, fun hq => ?_⟩
  have := hjo hq he
  apply List.eq_nil_of_length_eq_zero
  omega

/-- `C02_trial_accepted_iff` with its side condition discharged: while the competition is in progress (`started`)
    **every** registered athlete's call is accepted if and only if the card allows it -/
theorem C02_trial_accepted_iff_started (c : Comp) (hr : Reachable c) (b : Nat) (t : Trial) (j : Jumper)
    (hj : c.find b = some j) (hph : c.phase = .started) :
    (step c (.trial b t)).2 = .ok ↔
      (c.heights ≠ [] ∧ j.card.flatten.contains .r = false ∧ trailingX j.card.flatten < 3 ∧
        allX ((padCard j.card c.heights.length).getLast?.getD []) = true) :=
  C02_trial_accepted_iff c hr b t j hj
    ((limInv_reachable c hr).regular (Or.inr (Or.inl hph)) j (List.mem_of_find?_eq_some hj)) hph

/-- in a jump-off a call of an athlete still in is accepted if and only if they have not yet attempted the current
    height (and it is not already closed for them) -/
theorem C02_jumpoff_accepted_iff (c : Comp) (hr : Reachable c) (b : Nat) (t : Trial) (j : Jumper)
    (hj : c.find b = some j) (hph : c.phase = .jumpoff) (he : j.eliminated = false) :
    (step c (.trial b t)).2 = .ok ↔
      (c.heights ≠ [] ∧ j.dismissed = false ∧ (padCard j.card c.heights.length).getLast?.getD [] = []) := by
  have hm : j ∈ c.jumpers := List.mem_of_find?_eq_some hj
  have h1 := (limInv_reachable c hr).jumpoff hph j hm he
  constructor
  · intro h
    obtain ⟨j', hj', _, hh, _, hd, hlt⟩ := C02_attempt_limit c b t h
    rw [hj] at hj'; injection hj' with hj'; subst hj'
    refine ⟨hh, hd, ?_⟩
    apply List.eq_nil_of_length_eq_zero
    omega
  · rintro ⟨hh, hd, hnil⟩
    have hl0 : c.heights.length ≠ 0 := fun e => hh (List.eq_nil_of_length_eq_zero e)
    have hta : trialAllowed c j = true := by unfold trialAllowed; simp [hph]
    simp only [step, hj, hta, Jumper.act, he, hd, hnil, h1]
    simp [hl0]

/-- `C02_three_consecutive_failures` with its side condition discharged: outside a jump-off (scheduled, started, won)
    **every** athlete is out exactly at three consecutive failures or on retirement, read off the card -/
theorem C02_out_iff_card (c : Comp) (hr : Reachable c) (j : Jumper) (hj : j ∈ c.jumpers)
    (hph : c.phase = .scheduled ∨ c.phase = .started ∨ c.phase = .won) :
    trailingX j.card.flatten ≤ 3 ∧
    (j.eliminated = true ↔ (j.card.flatten.contains .r = true ∨ 3 ≤ trailingX j.card.flatten)) :=
  C02_three_consecutive_failures c hr j hj ((limInv_reachable c hr).regular hph j hj)

/-- once the competition is won, the athlete in first place may go on — accepted IFF the card allows it — -/
theorem C02_trial_accepted_iff_won (c : Comp) (hr : Reachable c) (b : Nat) (t : Trial) (j : Jumper)
    (hj : c.find b = some j) (hph : c.phase = .won) (hp : j.place = 1) :
    (step c (.trial b t)).2 = .ok ↔
      (c.heights ≠ [] ∧ j.card.flatten.contains .r = false ∧ trailingX j.card.flatten < 3 ∧
        allX ((padCard j.card c.heights.length).getLast?.getD []) = true) :=
  C02_trial_accepted_iff_allowed c hr b t j hj
    ((limInv_reachable c hr).regular (Or.inr (Or.inr hph)) j (List.mem_of_find?_eq_some hj))
    (by unfold trialAllowed; simp [hph, hp])

/-- — and it is decided against everybody else: their calls are refused -/
theorem C02_won_others_refused (c : Comp) (b : Nat) (t : Trial) (j : Jumper) (hj : c.find b = some j)
    (hph : c.phase = .won) (hp : j.place ≠ 1) : (step c (.trial b t)).2 ≠ .ok := by
  intro h
  rcases C02_state_gate c b t j hj h with e | e | ⟨_, e⟩
  · rw [hph] at e; cases e
  · rw [hph] at e; cases e
  · exact hp e

/-- a won competition: the winner goes on alone, the other athlete is refused -/
example : let c := runOps [.add 1, .add 2, .bar 105, .trial 1 .o, .trial 2 .x, .trial 2 .x, .trial 2 .x]
    c.phase = .won ∧ (step c (.trial 2 .x)).2 = .rule := by decide +kernel

/-- **Whoever comes back after being out comes back for a jump-off only**: if an athlete is out before a call and in
    after it (re-instated by the ranking), the attempt limit is then 1 and a jump-off is on — nobody who went out with
    three failures or retired gets back into the competition proper. -/
theorem C02_back_only_with_one_attempt (c : Comp) (hr : Reachable c) (op : Op) (j j' : Jumper) (hj : j ∈ c.jumpers)
    (hj' : j' ∈ (step c op).1.jumpers) (hb : j'.bib = j.bib) (he : j.eliminated = true) (he' : j'.eliminated = false) :
    j'.roundLim = 1 ∧ (step c op).1.phase = .jumpoff :=
  ⟨step_back c op (wf_reachable c hr) j j' hj hj' hb he he', step_back_phase c op (wf_reachable c hr) j j' hj hj' hb he he'⟩

/-- non-vacuity: the ninth failure of a two-way tie brings both athletes back, for a jump-off -/
example : let c := runOps [.add 1, .add 2, .bar 105, .trial 1 .x, .trial 1 .x, .trial 1 .x, .trial 2 .x, .trial 2 .x]
    c.jumpers.map (·.eliminated) = [true, false] ∧
    (step c (.trial 2 .x)).1.jumpers.map (fun j => (j.eliminated, j.roundLim)) = [(false, 1), (false, 1)] ∧
    (step c (.trial 2 .x)).1.phase = .jumpoff := by decide +kernel

/-- a jump-off in progress: both athletes re-instated with one attempt each -/
example : (runOps [.add 1, .add 2, .bar 105, .trial 1 .x, .trial 1 .x, .trial 1 .x, .trial 2 .x, .trial 2 .x, .trial 2 .x]).jumpers.map
    (fun j => (j.roundLim, j.eliminated)) = [(1, false), (1, false)] := by decide +kernel
/-- and a second attempt at a jump-off height is refused -/
example : (step (runOps [.add 1, .add 2, .bar 105, .trial 1 .x, .trial 1 .x, .trial 1 .x, .trial 2 .x, .trial 2 .x, .trial 2 .x,
    .bar 104, .trial 1 .x]) (.trial 1 .x)).2 = .rule := by decide +kernel

/-- a failure, a pass, and two failures at the next height: three in a row on the card, out -/
example : (runOps [.add 1, .add 2, .bar 105, .trial 1 .x, .trial 1 .p, .bar 110, .trial 1 .x, .trial 1 .x]).jumpers.map
    (fun j => (j.roundLim, j.eliminated, trailingX j.card.flatten)) = [(3, true, 3), (3, false, 0)] := by decide +kernel

end AthlibVerif.Props.C02
