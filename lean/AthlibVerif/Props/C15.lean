import AthlibVerif.Lemmas.WmaMono
import AthlibVerif.Oblig.C15.Seam2015
import AthlibVerif.Oblig.C15.Seam2023
import AthlibVerif.Gen.WmaData
import AthlibVerif.Oblig.C14.Pos2015
import AthlibVerif.Oblig.C14.Pos2023
import AthlibVerif.Oblig.C15.Dist2015
import AthlibVerif.Oblig.C15.Dist2023
/-!
# C15 — WMA interpolation between distances is order-preserving

Theorems about `Wma.factorByDistance` / `Wma.bestByDistance` (the fall-back of `calculate_factor` and
`world_best` for run codes that are not tabulated), for **every** table satisfying the decidable
side-conditions `bestsOK`, `runOK`, `chainOK`, `noSeam` of `Model/WmaChecks.lean`, every distance in
whole metres and every rational age.  The side-conditions are kernel-decided for the regenerated
tables in `Oblig/C15/*` and instantiated at the end of this file.

The run rows are *not* sorted by distance (track rows 50 … 10000, then road rows 5K … 200K), so nothing
here assumes sortedness: the linear scan brackets `d` by the first row that is not shorter and the row
before it, and the theorems are about those bracket rows.  `noSeam` says that no other run row lies
strictly between a reachable bracket's two distances; then (`C15_bracket_nearest`) the bracket rows
*are* nearest shorter / longer tabulated events (with ties such as 5000 / 5K the bracket picks one of
the candidates), which turns bracket betweenness into the property's clause.  The open bests need
`chainOK`: bests never decrease along the reachable brackets — speeds *rise* from 50 m to 200 m in
the real tables, so "speed non-increasing" would be the wrong condition.
-/
namespace AthlibVerif.Props.C15
open AthlibVerif AthlibVerif.Wma

/-! ## generic interpolation facts -/

/-- linear interpolation with a weight in `[0,1]` stays between the two values -/
theorem interp_between (t x y : Rat) (h0 : 0 ≤ t) (h1 : t ≤ 1) :
    min x y ≤ (1 - t) * x + t * y ∧ (1 - t) * x + t * y ≤ max x y := lerp_between h0 h1

/-- the speed-interpolated best `1000·d / ((1−p)·v_s + p·v_l)` at `d = (1−p)·k_s + p·k_l`
    (`v = 1000·k / t`) lies between `t_s` and `t_l` -/
theorem mobius_between (p ks ts kl tl : Rat) (hp0 : 0 ≤ p) (hp1 : p ≤ 1) (hks : 0 ≤ ks) (hkl : 0 ≤ kl)
    (hts : 0 < ts) (htl : 0 < tl) (hv : (1 - p) * (ks * 1000 / ts) + p * (kl * 1000 / tl) ≠ 0) :
    min ts tl ≤ interpBest (1000 * ((1 - p) * ks + p * kl)) p ks ts kl tl ∧
    interpBest (1000 * ((1 - p) * ks + p * kl)) p ks ts kl tl ≤ max ts tl :=
  interpBest_between hp0 hp1 hks hkl hts htl rfl hv

/-- … and, when `t_s ≤ t_l`, does not decrease as `p` (the distance) grows -/
theorem mobius_mono (p p' ks ts kl tl : Rat) (hpp : p ≤ p') (hks : 0 ≤ ks) (hkl : 0 ≤ kl)
    (hts : 0 < ts) (htl : 0 < tl) (hb : ts ≤ tl)
    (hv : 0 < (1 - p) * (ks * 1000 / ts) + p * (kl * 1000 / tl))
    (hv' : 0 < (1 - p') * (ks * 1000 / ts) + p' * (kl * 1000 / tl)) :
    interpBest (1000 * ((1 - p) * ks + p * kl)) p ks ts kl tl ≤
      interpBest (1000 * ((1 - p') * ks + p' * kl)) p' ks ts kl tl :=
  interpBest_mono hpp hks hkl hts htl hb hv hv'

/-! ## the factor lies between the bracket rows' factors -/

/-- **factor betweenness** — for any table whatsoever: the distance-interpolated factor lies between
    the factors (same age) of the two rows the scan brackets the distance with -/
theorem C15_factor_between (t : Table) (rows : List Row) (age : Rat) (dist fx fx1 : Nat) (p x fs fl : Rat)
    (h : factorByDistance t rows age dist = .ok x)
    (hb : rowByDistance t rows dist = .ok (fx, fx1, p))
    (hs : rowFactor t (rows.getD fx default) age = .ok fs)
    (hl : rowFactor t (rows.getD fx1 default) age = .ok fl) :
    min fs fl ≤ x ∧ x ≤ max fs fl := by
  unfold factorByDistance at h
  rw [hb] at h
  simp only [hs, hl] at h
  split at h
  · injection h with h; subst h; exact ⟨min_le_right _ _, le_max_right _ _⟩
  · split at h
    · injection h with h; subst h; exact ⟨min_le_left _ _, le_max_left _ _⟩
    · split at h
      · injection h with h; subst h; exact ⟨min_le_left _ _, le_max_left _ _⟩
      · injection h with h; subst h
        exact lerp_between (clamp01_bounds _).1 (clamp01_bounds _).2

/-! ## the open best lies between the bracket rows' bests and grows with the distance -/

/-- **best betweenness** — interior bracket `(fx, fx1)`: the interpolated open best lies between the
    open bests of the two bracket rows -/
theorem C15_best_between (t : Table) (rows : List Row) (dist fx fx1 : Nat) (p x : Rat)
    (hR : runOK rows = true)
    (h : bestByDistance t rows dist = .ok x)
    (hb : rowByDistance t rows dist = .ok (fx, fx1, p)) (hne : fx ≠ fx1) :
    min (t.bestQ (rows.getD fx default)) (t.bestQ (rows.getD fx1 default)) ≤ x ∧
    x ≤ max (t.bestQ (rows.getD fx default)) (t.bestQ (rows.getD fx1 default)) :=
  best_between t rows dist fx fx1 p x hR h hb hne

/-- **best monotone inside a bracket** — two distances bracketed by the same interior pair of rows
    whose bests are in order: the longer distance has the larger (or equal) open best -/
theorem C15_best_mono_bracket (t : Table) (rows : List Row) (dist dist' fx fx1 : Nat) (p p' x x' : Rat)
    (hR : runOK rows = true) (hdd : dist ≤ dist')
    (h : bestByDistance t rows dist = .ok x) (h' : bestByDistance t rows dist' = .ok x')
    (hb : rowByDistance t rows dist = .ok (fx, fx1, p))
    (hb' : rowByDistance t rows dist' = .ok (fx, fx1, p')) (hne : fx ≠ fx1)
    (hbest : (rows.getD fx default).best ≤ (rows.getD fx1 default).best) : x ≤ x' :=
  best_mono_bracket t rows dist dist' fx fx1 p p' x x' hR hdd h h' hb hb' hne hbest

/-- **best monotone** — for every table whose run rows pass `runOK` and `chainOK`: over *all* distances
    (whatever rows bracket them, across the track → road switch and both ends of the table) the
    interpolated open best never decreases as the distance grows -/
theorem C15_best_mono (t : Table) (rows : List Row) (dist dist' : Nat) (x x' : Rat) (hks : 0 < t.kmScale)
    (hR : runOK rows = true) (hC : chainOK (runKms rows) (runBests rows) = true) (hdd : dist ≤ dist')
    (h : bestByDistance t rows dist = .ok x) (h' : bestByDistance t rows dist' = .ok x') : x ≤ x' :=
  best_mono t rows dist dist' x x' hks hR hC hdd h h'

/-! ## the bracket rows are the nearest tabulated events -/

/-- **nearest** — when no run row lies strictly inside a reachable bracket (`noSeam`): of all run rows,
    none shorter than `d` is longer than the lower bracket row and none at least `d` is shorter than the
    upper bracket row.  With `C15_factor_between` / `C15_best_between` this is the property's clause
    "between the nearest shorter and longer tabulated events" (ties: the bracket rows are among the
    nearest candidates). -/
theorem C15_bracket_nearest (t : Table) (rows : List Row) (dist fx fx1 : Nat) (p : Rat) (hks : 0 < t.kmScale)
    (hR : runOK rows = true) (hS : noSeam (runKms rows) = true) (hd : 0 < dist)
    (hb : rowByDistance t rows dist = .ok (fx, fx1, p)) (hne : fx ≠ fx1)
    (r : Row) (hr : r ∈ rows.drop (runStart rows)) :
    (t.kmQ r < (dist : Rat) / 1000 → t.kmQ r ≤ t.kmQ (rows.getD fx default)) ∧
    ((dist : Rat) / 1000 ≤ t.kmQ r → t.kmQ (rows.getD fx1 default) ≤ t.kmQ r) :=
  bracket_nearest t rows dist fx fx1 p hks hR hS hd hb hne r hr

/-- … and they do bracket `d`: lower ≤ `d` ≤ upper, adjacent rows, weight in `[0,1]` -/
theorem C15_bracket (t : Table) (rows : List Row) (dist fx fx1 : Nat) (p : Rat) (hR : runOK rows = true)
    (hb : rowByDistance t rows dist = .ok (fx, fx1, p)) (hne : fx ≠ fx1) :
    fx + 1 = fx1 ∧ fx1 < rows.length ∧
    t.kmQ (rows.getD fx default) ≤ (dist : Rat) / 1000 ∧ (dist : Rat) / 1000 ≤ t.kmQ (rows.getD fx1 default) ∧
    0 ≤ p ∧ p ≤ 1 := by
  obtain ⟨h1, h0, hadj, _, hlow, hhigh, hk, hp, _, _⟩ := bracket_spec t rows dist fx fx1 p hR hb hne
  rw [getD_of_lt rows fx default h0, getD_of_lt rows fx1 default h1]
  have hsp := pfac_spec hk hlow hhigh
  rw [← hp] at hsp
  exact ⟨hadj, h1, hlow, hhigh, hsp.1, hsp.2.1⟩

/-! ## the two ends of the table -/

/-- a degenerate bracket `(fx, fx, _)` — beyond the last run row — gives that row's factor … -/
theorem C15_ends_factor_same_row (t : Table) (rows : List Row) (age : Rat) (dist fx : Nat) (p : Rat)
    (hb : rowByDistance t rows dist = .ok (fx, fx, p)) :
    factorByDistance t rows age dist = rowFactor t (rows.getD fx default) age := by
  unfold factorByDistance
  rw [hb]
  simp only
  cases hd : getDistance (rows.getD fx default).event with
  | none => rfl
  | some ds =>
    simp only
    cases hf : rowFactor t (rows.getD fx default) age with
    | error e => rfl
    | ok fs => simp

/-- … and extrapolates the open best at that row's speed -/
theorem C15_ends_best_same_row (t : Table) (rows : List Row) (dist fx : Nat) (x : Rat)
    (h : bestByDistance t rows dist = .ok x) (hb : rowByDistance t rows dist = .ok (fx, fx, 0)) :
    x = (dist : Rat) / 1000 * t.bestQ (rows.getD fx default) / t.kmQ (rows.getD fx default) :=
  (best_same_row t rows dist fx x h hb).2.2.2

/-- every run row shorter than `d`: the scan ends on the last row -/
theorem C15_ends_beyond (t : Table) (rows : List Row) (dist : Nat) (hs : runStart rows < rows.length)
    (hall : ∀ r ∈ rows.drop (runStart rows), t.kmQ r < (dist : Rat) / 1000) :
    rowByDistance t rows dist = .ok (rows.length - 1, rows.length - 1, 0) := by
  have hidx : scanIdx t rows ((dist : Rat) / 1000) = rows.length := by
    unfold scanIdx
    have : (rows.drop (runStart rows)).findIdx (fun r => decide ((dist : Rat) / 1000 ≤ t.kmQ r)) =
        (rows.drop (runStart rows)).length := by
      rw [List.findIdx_eq_length]
      intro r hr
      simpa using hall r hr
    rw [this, List.length_drop]; omega
  rcases rowByDistance_cases t rows dist with ⟨h0, _⟩ | ⟨_, h0, _⟩ | ⟨_, _, hlt, _⟩ | ⟨_, _, _, h⟩
  · omega
  · omega
  · omega
  · exact h

/-- a bracket whose lower row's name carries no distance (the row before `"50"`): the factor of the
    upper row, i.e. of the first run row … -/
theorem C15_ends_factor_short (t : Table) (rows : List Row) (age : Rat) (dist fx fx1 : Nat) (p : Rat)
    (hb : rowByDistance t rows dist = .ok (fx, fx1, p))
    (hnd : getDistance (rows.getD fx default).event = none) :
    factorByDistance t rows age dist = rowFactor t (rows.getD fx1 default) age := by
  unfold factorByDistance
  rw [hb]
  simp only [hnd]

/-- … and its open best -/
theorem C15_ends_best_short (t : Table) (rows : List Row) (dist fx fx1 : Nat) (p x : Rat)
    (hR : runOK rows = true) (h : bestByDistance t rows dist = .ok x)
    (hb : rowByDistance t rows dist = .ok (fx, fx1, p)) (hne : fx ≠ fx1)
    (hkm : (rows.getD fx default).km = 0) : x = t.bestQ (rows.getD fx1 default) :=
  best_pre_run t rows dist fx fx1 p x hR h hb hne hkm

/-- every distance up to the first run row's is bracketed by the row before `"50"` and `"50"` -/
theorem C15_ends_short_bracket (t : Table) (rows : List Row) (dist : Nat) (hR : runOK rows = true)
    (hpos : 0 < runStart rows)
    (hd : (dist : Rat) / 1000 ≤ t.kmQ (rows.getD (runStart rows) default)) :
    (∃ p, rowByDistance t rows dist = .ok (runStart rows - 1, runStart rows, p)) ∨
      rowByDistance t rows dist = .error .zeroDiv := by
  obtain ⟨hs, _, _⟩ := runOK_spec rows hR
  have hidx : scanIdx t rows ((dist : Rat) / 1000) = runStart rows := by
    unfold scanIdx
    have : (rows.drop (runStart rows)).findIdx (fun r => decide ((dist : Rat) / 1000 ≤ t.kmQ r)) = 0 := by
      rw [List.drop_eq_getElem_cons hs, List.findIdx_cons]
      rw [getD_of_lt rows _ default hs] at hd
      simp [hd]
    rw [this]; rfl
  rcases rowByDistance_cases t rows dist with ⟨h0, _⟩ | ⟨_, h0, _⟩ | ⟨_, _, hlt, hcase⟩ | ⟨_, _, h0, _⟩
  · omega
  · omega
  · rcases hcase with ⟨_, h⟩ | ⟨_, h⟩
    · exact Or.inr h
    · left
      obtain ⟨p', h⟩ : ∃ p', rowByDistance t rows dist = .ok
          (scanIdx t rows ((dist : Rat) / 1000) - 1, scanIdx t rows ((dist : Rat) / 1000), p') := ⟨_, h⟩
      rw [hidx] at h
      exact ⟨p', h⟩
  · omega

/-! ## from the brackets to the observables -/

/-- for a code that is not a row name, `factor` / `best` are the distance interpolations above
    (metres from the code, or the harness's hint where binary floating point truncated them) -/
theorem C15_observable (t : Table) (gender : String) (age : Rat) (event : String) (hint : Option Nat)
    (k : Kind) (g : Gender) (dist : Nat) (hk : kindOf event = some k) (hg : normGender gender = .ok g)
    (hnot : (t.rows g).find? (fun r => r.event == upper event) = none)
    (hd : distOf (upper event) hint = some dist) :
    factor t gender age event hint = factorByDistance t (t.rows g) age dist ∧
    best t gender event hint = bestByDistance t (t.rows g) dist := by
  unfold factor best factorCore bestCore
  simp only [hk, hg, hnot, hd]
  exact ⟨trivial, trivial⟩

/-! ## instances for the regenerated tables -/

theorem kmScale_pos_2015 : 0 < Gen.wma2015.kmScale := (bestsOK_spec _ Oblig.C14.bests_ok_2015).2.1
theorem kmScale_pos_2023 : 0 < Gen.wma2023.kmScale := (bestsOK_spec _ Oblig.C14.bests_ok_2023).2.1

theorem distOK_parts (rows : List Row) (h : distOK rows = true) :
    runOK rows = true ∧ chainOK (runKms rows) (runBests rows) = true := by
  unfold distOK at h; simpa [Bool.and_eq_true] using h

/-- the open best by distance never decreases, on all four regenerated tables -/
theorem C15_best_mono_tables (t : Table) (g : Gender) (ht : t = Gen.wma2015 ∨ t = Gen.wma2023)
    (dist dist' : Nat) (x x' : Rat) (hdd : dist ≤ dist')
    (h : bestByDistance t (t.rows g) dist = .ok x) (h' : bestByDistance t (t.rows g) dist' = .ok x') : x ≤ x' := by
  rcases ht with rfl | rfl <;> cases g
  · obtain ⟨a, b⟩ := distOK_parts _ Oblig.C15.dist_ok_2015_m
    exact C15_best_mono _ _ dist dist' x x' kmScale_pos_2015 a b hdd h h'
  · obtain ⟨a, b⟩ := distOK_parts _ Oblig.C15.dist_ok_2015_f
    exact C15_best_mono _ _ dist dist' x x' kmScale_pos_2015 a b hdd h h'
  · obtain ⟨a, b⟩ := distOK_parts _ Oblig.C15.dist_ok_2023_m
    exact C15_best_mono _ _ dist dist' x x' kmScale_pos_2023 a b hdd h h'
  · obtain ⟨a, b⟩ := distOK_parts _ Oblig.C15.dist_ok_2023_f
    exact C15_best_mono _ _ dist dist' x x' kmScale_pos_2023 a b hdd h h'

/-- the bracket rows are nearest tabulated events, on all four regenerated tables -/
theorem C15_bracket_nearest_tables (t : Table) (g : Gender) (ht : t = Gen.wma2015 ∨ t = Gen.wma2023)
    (dist fx fx1 : Nat) (p : Rat) (hd : 0 < dist)
    (hb : rowByDistance t (t.rows g) dist = .ok (fx, fx1, p)) (hne : fx ≠ fx1)
    (r : Row) (hr : r ∈ (t.rows g).drop (runStart (t.rows g))) :
    (t.kmQ r < (dist : Rat) / 1000 → t.kmQ r ≤ t.kmQ ((t.rows g).getD fx default)) ∧
    ((dist : Rat) / 1000 ≤ t.kmQ r → t.kmQ ((t.rows g).getD fx1 default) ≤ t.kmQ r) := by
  rcases ht with rfl | rfl <;> cases g
  · exact C15_bracket_nearest _ _ dist fx fx1 p kmScale_pos_2015 (distOK_parts _ Oblig.C15.dist_ok_2015_m).1
      Oblig.C15.no_seam_2015_m hd hb hne r hr
  · exact C15_bracket_nearest _ _ dist fx fx1 p kmScale_pos_2015 (distOK_parts _ Oblig.C15.dist_ok_2015_f).1
      Oblig.C15.no_seam_2015_f hd hb hne r hr
  · exact C15_bracket_nearest _ _ dist fx fx1 p kmScale_pos_2023 (distOK_parts _ Oblig.C15.dist_ok_2023_m).1
      Oblig.C15.no_seam_2023_m hd hb hne r hr
  · exact C15_bracket_nearest _ _ dist fx fx1 p kmScale_pos_2023 (distOK_parts _ Oblig.C15.dist_ok_2023_f).1
      Oblig.C15.no_seam_2023_f hd hb hne r hr

/-! ### non-vacuity on the regenerated tables (kernel-evaluated; values of the pinned data) -/

def bracketIs (r : Except Err (Nat × Nat × Rat)) (fx fx1 : Nat) (p : Rat) : Bool :=
  match r with
  | .ok (a, b, q) => a == fx && b == fx1 && q == p
  | .error _ => false

section examples
-- an interior bracket (women 2023, 7 km: rows 4MT / 8000), a degenerate one beyond 200 km, the one below 50 m
example : bracketIs (rowByDistance Gen.wma2023 Gen.wma2023.f 7000) 49 50 (8791/24416) = true := by decide +kernel
example : bracketIs (rowByDistance Gen.wma2023 Gen.wma2023.f 250000) 72 72 0 = true := by decide +kernel
example : bracketIs (rowByDistance Gen.wma2023 Gen.wma2023.f 30) 28 29 (3/5) = true := by decide +kernel
-- factor and best by distance are defined there, for a half-integer age too
example : okEq (factor Gen.wma2023 "f" (81/2) "7K") (7508507/7820000) = true := by decide +kernel
example : okEq (best Gen.wma2023 "f" "7K") (34462268400/27867937) = true := by decide +kernel
-- the ends: beyond 200 km the last row's factor and its speed; below 50 m the 50 m row (also under 14,
-- where the throw row before it has no factor)
example : okEq (factor Gen.wma2023 "Male" 40 "250000") (606/625) = true ∧
    okEq (factor Gen.wma2023 "Male" 40 "200K") (606/625) = true ∧
    okEq (best Gen.wma2023 "Male" "250000") 66000 = true := by decide +kernel
example : okEq (factor Gen.wma2023 "Male" 10 "30") (8269/10000) = true ∧
    okEq (factor Gen.wma2023 "Male" 10 "50") (8269/10000) = true ∧
    okEq (best Gen.wma2023 "Male" "30") (277/50) = true := by decide +kernel
-- 16093 m lies past get_distance('10M') = 16090 m but before the 10M row (16093.44 m): the weight is clamped
example : okEq (factor Gen.wma2023 "Male" 40 "16093") (4837/5000) = true ∧
    okEq (factor Gen.wma2023 "Male" 40 "10M") (4837/5000) = true := by decide +kernel
end examples

/-! ### the pinned behaviour violates the property (models of the unrepaired code, `decide`d)
(beyond the last row the pinned weight's denominator was `get_distance("200K") − get_distance("200K") = 0`:
`ZeroDivisionError` for every distance over 200 km — nothing to state beyond that arithmetic) -/

/-- pinned weight of the factor interpolation, unclamped: 16093 m between `15K` (15000) and `10M`
    (`get_distance` 16090, tabulated 16093.44) extrapolates past the 10M row -/
theorem pinned_weight_exceeds_one : ¬ (((16093 : Rat) - 15000) / (16090 - 15000) ≤ 1) := by decide +kernel

/-- pinned men's seam with the 2023 numbers at age 110 (8000: 0.2142, 10000: 0.04; nearest candidates
    8000 / 8K / 5MT / 5M: 0.2142, 0.236, 0.2142, 0.2361): 8046 m was interpolated 46/2000 of the way towards
    the 10000 m factor and fell below every nearest tabulated event -/
theorem pinned_seam_factor_outside :
    lerp (46 / 2000) (2142 / 10000) (400 / 10000) < min (min (2142 / 10000) (2360 / 10000)) (min (2142 / 10000) (2361 / 10000)) := by
  decide +kernel

/-- pinned men's row order `8000, 10000, 5MT`: 5MT lies strictly inside the bracket 8000 / 10000 -/
theorem pinned_mens_seam : noSeam [8000000, 10000000, 8046720] = false ∧ noSeam [8000000, 8046720, 10000000] = true := by
  decide

end AthlibVerif.Props.C15
