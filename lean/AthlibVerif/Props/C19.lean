import AthlibVerif.Lemmas.Cache
/-!
# C19 — Schema validation answers do not depend on what was validated before

Model: `Model/Cache.lean`, a transcription of `_add_to_cache`, `schema_valid` and
`valid_against_schema` **after** `fixes/c19-cached-false-expect-failure.diff` (`step`), and of the
pinned look-up (`stepPinned`).  Everything jsonschema / the file system decide is the parameter
`truth : Key → Option Bool` (`none` = an exception other than the expected one propagates).

The property is one statement, `HistoryIndependent st`, about a step function `st`: for every
`truth`, every capacity and every history (any length), the outcome of every call equals the outcome
of the same call made first on the empty state.  It is proved for the repaired code and refuted
for the pinned code (two-call history, `decide`).  Core Lean only.
-/
namespace AthlibVerif.Props.C19
open AthlibVerif AthlibVerif.Cache

/-- "each call's outcome equals the outcome of the same call made first in a fresh process" -/
def HistoryIndependent (st : (Key → Option Bool) → Nat → Store → Call → Store × Outcome) : Prop :=
  ∀ (truth : Key → Option Bool) (cap : Nat) (calls : List Call),
    (runWith (st truth cap) Store.empty calls).2 = calls.map (fun c => (st truth cap Store.empty c).2)

def C19_statement : Prop := HistoryIndependent step

/-- every history, every `truth`, every capacity (the source has `cap = maxlen = 20`);
invariant: every cached entry equals `truth`, and a cached `False` is only served when
`expect_failure` is off -/
theorem C19_history_independent : C19_statement :=
  fun truth cap calls => run_out_empty calls (inv_empty truth cap)

/-- what a first call answers (so the equation above is not an equation between two errors):
`True` if the check passes; if it fails, the expected exception when `expect_failure` else `False` -/
theorem C19_first_call (truth : Key → Option Bool) (cap : Nat) (hc : 1 ≤ cap) (c : Call) :
    (step truth cap Store.empty c).2 = fresh truth c :=
  step_out c hc (inv_empty truth cap)

/-- the form in DESIGN.md: jsonschema as a total `truth : Key → Bool`, `cap = 20` -/
theorem C19_history_independent_bool (truth : Key → Bool) (calls : List Call) :
    (run (fun k => some (truth k)) maxlen Store.empty calls).2 =
      calls.map (fun c => if truth c.key then Outcome.retTrue else if c.ef then .raised else .retFalse) := by
  rw [run_out (by decide) calls (inv_empty _ _)]
  apply List.map_congr_left
  intro c _
  cases h : truth c.key <;> simp [fresh, h]

/-- a call is answered the same after any two histories -/
theorem C19_after_any_two_histories (truth : Key → Option Bool) (cap : Nat) (h₁ h₂ : List Call) (c : Call) :
    (step truth cap (run truth cap Store.empty h₁).1 c).2 = (step truth cap (run truth cap Store.empty h₂).1 c).2 := by
  rw [step_out_empty c (run_inv h₁ (inv_empty truth cap)), step_out_empty c (run_inv h₂ (inv_empty truth cap))]

/-- neither dict ever holds more than `cap` entries (any capacity, so in particular `cap ≥ 1`) -/
theorem C19_capacity (truth : Key → Option Bool) (cap : Nat) (calls : List Call) (fn : Fn) :
    ((run truth cap Store.empty calls).1.get fn).length ≤ cap :=
  (run_inv calls (inv_empty truth cap) fn).2

theorem C19_capacity_20 (truth : Key → Option Bool) (calls : List Call) :
    (run truth maxlen Store.empty calls).1.sv.length ≤ 20 ∧ (run truth maxlen Store.empty calls).1.va.length ≤ 20 :=
  ⟨C19_capacity truth maxlen calls .schemaValid, C19_capacity truth maxlen calls .validAgainst⟩

/-- the invariant itself: whatever is cached is what jsonschema decides -/
theorem C19_entries_equal_truth (truth : Key → Option Bool) (cap : Nat) (calls : List Call) (fn : Fn) :
    ∀ e ∈ (run truth cap Store.empty calls).1.get fn, truth ⟨fn, e.1⟩ = some e.2 :=
  (run_inv calls (inv_empty truth cap) fn).1

/-- the eviction loop never trips over its own iterator (for `cap ≥ 1`, single-threaded) -/
theorem C19_no_iterator_error (truth : Key → Option Bool) (cap : Nat) (hc : 1 ≤ cap) (calls : List Call) :
    ∀ o ∈ (run truth cap Store.empty calls).2, o ≠ Outcome.iterError := by
  rw [run_out hc calls (inv_empty truth cap)]
  intro o ho
  obtain ⟨c, _, rfl⟩ := List.mem_map.1 ho
  unfold fresh
  split
  · simp
  · simp
  · split <;> simp

/-- the repair keeps the memo: an answer `True` / `False` is in the dict afterwards (any state) -/
theorem C19_answer_is_cached (truth : Key → Option Bool) (cap : Nat) (s : Store) (c : Call) (b : Bool)
    (h : (step truth cap s c).2 = Outcome.ofBool b) :
    find c.key.id ((step truth cap s c).1.get c.key.fn) = some b := by
  have hadd : ∀ (c0 : Cache) (v : Bool), (add cap c0 c.key.id v).2 = Outcome.ofBool b →
      find c.key.id (add cap c0 c.key.id v).1 = some b := by
    intro c0 v
    unfold add
    split
    · intro hv
      have : v = b := by cases v <;> cases b <;> simp_all [Outcome.ofBool]
      subst this; exact find_set _ _ _
    · intro hv; cases b <;> simp [Outcome.ofBool] at hv
  have hcomp : ∀ (c0 : Cache), (compute (fun i => truth ⟨c.key.fn, i⟩) cap c0 c.key.id c.ef).2 = Outcome.ofBool b →
      find c.key.id (compute (fun i => truth ⟨c.key.fn, i⟩) cap c0 c.key.id c.ef).1 = some b := by
    intro c0
    unfold compute
    split
    · intro hv; cases b <;> simp [Outcome.ofBool] at hv
    · exact hadd c0 true
    · split
      · intro hv; cases b <;> simp [Outcome.ofBool] at hv
      · exact hadd c0 false
  simp only [step, stepWith, get_put, if_true] at h ⊢
  unfold stepCache at h ⊢
  split at h
  · rename_i v hf
    split at h
    · rename_i hv
      simp only [hv, if_true] at ⊢
      have : v = b := by cases v <;> cases b <;> simp_all [Outcome.ofBool]
      subst this; exact hf
    · rename_i hv
      simp only [hv] at ⊢
      exact hcomp _ h
  · exact hcomp _ h

/-! ## The pinned code (commit 6f2daa5) violates the property -/

/-- the two-call history: `valid_against_schema(bad, schema)` answers `False` and caches it; the
same call with `expect_failure=True` then gets the cached `False` instead of the exception -/
theorem C19_pinned_two_calls :
    (runPinned (fun _ => some false) maxlen Store.empty
        [⟨⟨.validAgainst, 0⟩, false⟩, ⟨⟨.validAgainst, 0⟩, true⟩]).2 = [.retFalse, .retFalse]
    ∧ (stepPinned (fun _ => some false) maxlen Store.empty ⟨⟨.validAgainst, 0⟩, true⟩).2 = .raised := by
  decide

theorem C19_pinned_not_history_independent : ¬ HistoryIndependent stepPinned := by
  intro h
  exact absurd (h (fun _ => some false) maxlen [⟨⟨.validAgainst, 0⟩, false⟩, ⟨⟨.validAgainst, 0⟩, true⟩]) (by decide)

/-- pinned and repaired code agree on every first call: the repair changes history-dependent answers only -/
theorem C19_pinned_same_first_call (truth : Key → Option Bool) (cap : Nat) (c : Call) :
    stepPinned truth cap Store.empty c = step truth cap Store.empty c := by
  cases c with | mk k ef => cases k with | mk fn id => cases fn <;> rfl

/-! ## Non-vacuity: the memo is really used, and eviction really happens -/

/-- repaired code, same two calls: `False` then the exception; the `False` is still cached -/
example :
    (run (fun _ => some false) maxlen Store.empty
        [⟨⟨.validAgainst, 0⟩, false⟩, ⟨⟨.validAgainst, 0⟩, true⟩, ⟨⟨.validAgainst, 0⟩, false⟩])
      = (⟨[], [(0, false)]⟩, [.retFalse, .raised, .retFalse]) := by decide

/-- 22 distinct keys overflow a 20-entry dict: it stays at 20 and, the source evicting the *newest*
key (`reversed(c)`), keys 19 and 20 are gone while 0…18 and 21 remain -/
example :
    let calls := (List.range 22).map (fun i => (⟨⟨.schemaValid, i⟩, false⟩ : Call))
    let s := (run (fun k => some (k.id % 2 == 0)) maxlen Store.empty calls).1
    s.sv.length = 20 ∧ s.sv.map (·.1) = 21 :: (List.range 19).reverse ∧ s.va = [] := by decide

/-- a history on which `truth = none` occurs: the error propagates every time, nothing is stored -/
example :
    (run (fun _ => none) maxlen Store.empty [⟨⟨.validAgainst, 3⟩, false⟩, ⟨⟨.validAgainst, 3⟩, true⟩])
      = (Store.empty, [.error, .error]) := by decide

end AthlibVerif.Props.C19
