import AthlibVerif.Lemmas.UkaSpec
/-!
# C13 — UK age groups follow the rule cut-off dates for every birth and meeting date

`Uka.tf` / `Uka.xc` / `Uka.calcGroup` transcribe `athlib/uka/agegroups.py` (ages are
`relativedelta(..).years`, modelled by `Cal.completedYears` with dateutil's conventions: a 29 February
birthday counts on 28 February in common years; truncation toward zero when the birth lies after
the reference date).  `Uka.Spec` restates Rules 107 / 207 / 507 from the rule text kept in the
module, on ages defined by anniversaries (`Spec.Aged`, `C13_age_is_anniversaries`).

Everything below is for **all** valid proleptic-Gregorian dates, all years (no bounds), core Lean,
no Mathlib.  Readings that needed interpretation are explicit:

* TF, October–December: the rule's "31st August within the Competition Year" is then the 31 August
  of the *following* calendar year, the module uses the one of the calendar year of the meeting.
  The property asserts rule equality for 1 January – 30 September only (`C13_tf_rule`);
  `tf_oct_dec_reading` is a witness that the two readings differ afterwards.
* Road / cross country: the module takes "the 31st August prior to match date", the meeting day
  included (`Spec.lastAug31`), for both disciplines; `C13_xc_rule` is equality with the rules on
  that cut-off for all dates.  Read to the letter ("31st August prior to the commencement of the
  Competition Year", year from 1 September for road, 1 October for cross country) the cut-off is
  the same except for a meeting held on 31 August itself (road and cross country) and in September
  (cross country): `C13_road_literal`, `C13_xc_literal`, witnesses `road_31aug_reading`,
  `xc_september_reading`.
-/
namespace AthlibVerif.Props.C13
open AthlibVerif AthlibVerif.Cal AthlibVerif.Uka

/-! ## ages -/

/-- the spec age is `n` exactly when the n-th anniversary of the birth (29 February → 28 February
    in common years) has been reached and the (n+1)-th has not -/
theorem C13_age_is_anniversaries (b on : Date) (n : Int) (hb : b.valid) (ho : on.valid) :
    Spec.Aged b on n ↔ Spec.ageOn b on = n := ageOn_iff_aged b on n hb ho

/-- `relativedelta(on, birth).years` is that age from the day of birth on … -/
theorem C13_age_dateutil (b on : Date) (hb : b.valid) (ho : on.valid) (h : b.le on) :
    completedYears b on = Spec.ageOn b on := by
  rw [ageOn_eq_floorYears b on hb ho]; exact completedYears_of_le h

/-- … and before the birth both are non-positive (dateutil truncates, the spec floors), so no
    group can depend on the difference: every threshold of the rules is ≥ 9 -/
theorem C13_negative_irrelevant (b on : Date) (hb : b.valid) (ho : on.valid) (h : ¬ b.le on) :
    completedYears b on ≤ 0 ∧ Spec.ageOn b on < 0 := by
  rw [ageOn_eq_floorYears b on hb ho]
  exact ⟨completedYears_nonpos b on h, floorYears_neg b on hb h⟩

/-! ## rule equality -/

/-- Track and field, meetings 1 January – 30 September: the function is Rule 107. -/
theorem C13_tf_rule (b md : Date) (vets underage : Bool) (hb : b.valid) (hm : md.valid) (hmonth : md.m ≤ 9) :
    tf b md vets underage = Spec.rule107 b md vets underage := by
  apply rank_injective
  have haug : Spec.augWithinYear md = ⟨md.y, 8, 31⟩ := by
    unfold Spec.augWithinYear; rw [if_neg (by omega)]
  have f := floor_tf_facts b md hb hm
  unfold tf Spec.rule107
  rw [haug, tfOfAges_rank,
    tfRank_congr _ _ _ _ _ _ vets underage (age_cases b _ hb (aug31_valid md.y))
      (age_cases b _ hb (dec31_valid md.y)) (age_cases b md hb hm),
    list107_rank]
  · rw [ageOn_eq_floorYears b _ hb (aug31_valid md.y), ageOn_eq_floorYears b _ hb (dec31_valid md.y)]
    exact f.1
  · rw [ageOn_eq_floorYears b _ hb (dec31_valid md.y), ageOn_eq_floorYears b _ hb hm]
    exact f.2

/-- in the code's own ages: 11 on the day forces 10 on the cut-off, so the final `else` of
    `rule507_agegroups_crosscountry` is reached only from age 20 on the cut-off -/
theorem xc_else_only_seniors (b md : Date) (hb : b.valid) (hm : md.valid) :
    11 ≤ completedYears b md → 10 ≤ completedYears b (priorDate md 8 31) := by
  rw [priorDate_eq_lastAug31 md hm]
  have f := floor_xc_facts b md hb hm
  have c1 := age_cases b md hb hm
  have c2 := age_cases b _ hb (lastAug31_valid md)
  rw [ageOn_eq_floorYears b md hb hm] at c1
  rw [ageOn_eq_floorYears b _ hb (lastAug31_valid md)] at c2
  omega

/-- Road and cross country, all dates: the function is Rules 207 / 507 on the last 31 August on or
    before the day of competition. -/
theorem C13_xc_rule (b md : Date) (vets underage : Bool) (hb : b.valid) (hm : md.valid) :
    xc b md vets underage = Spec.rule507 b md vets underage := by
  apply rank_injective
  have f := floor_xc_facts b md hb hm
  have hrel := xc_else_only_seniors b md hb hm
  unfold xc Spec.rule507 Spec.roadXc
  rw [xcOfAges_rank _ _ _ _ hrel, priorDate_eq_lastAug31 md hm,
    xcRank_congr _ _ _ _ vets underage (age_cases b _ hb (lastAug31_valid md)) (age_cases b md hb hm),
    listRoadXc_rank]
  · rw [ageOn_eq_floorYears b _ hb (lastAug31_valid md), ageOn_eq_floorYears b _ hb hm]; exact f.1
  · rw [ageOn_eq_floorYears b _ hb (lastAug31_valid md), ageOn_eq_floorYears b _ hb hm]; exact f.2

/-- Rule 207 to the letter (competition year from 1 September), every day but 31 August -/
theorem C13_road_literal (b md : Date) (vets underage : Bool) (hb : b.valid) (hm : md.valid)
    (h31 : ¬ (md.m = 8 ∧ md.d = 31)) :
    xc b md vets underage = Spec.rule207Literal b md vets underage := by
  rw [C13_xc_rule b md vets underage hb hm]
  unfold Spec.rule507 Spec.rule207Literal Spec.lastAug31 Spec.augBeforeYearStart
  by_cases h : md.m ≥ 9
  · rw [if_pos (Or.inl h), if_pos h]
  · rw [if_neg (by omega), if_neg h]

/-- Rule 507 to the letter (competition year from 1 October), every day but 31 August – 30 September -/
theorem C13_xc_literal (b md : Date) (vets underage : Bool) (hb : b.valid) (hm : md.valid)
    (h31 : ¬ (md.m = 8 ∧ md.d = 31)) (hsep : md.m ≠ 9) :
    xc b md vets underage = Spec.rule507Literal b md vets underage := by
  rw [C13_xc_rule b md vets underage hb hm]
  unfold Spec.rule507 Spec.rule507Literal Spec.lastAug31 Spec.augBeforeYearStart
  by_cases h : md.m ≥ 10
  · rw [if_pos (by omega), if_pos h]
  · rw [if_neg (by omega), if_neg h]

/-! ## totality -/

/-- one of the labels: a fixed junior / senior label, or `V` + a multiple of five from 35 -/
def WellFormed (g : Group) : Prop :=
  g = .u9 ∨ g = .u11 ∨ g = .u13 ∨ g = .u15 ∨ g = .u17 ∨ g = .u20 ∨ g = .sen ∨ ∃ k : Nat, 7 ≤ k ∧ g = .vet (5 * k)

theorem vetBand_wf (a : Int) (h : 35 ≤ a) : ∃ k : Nat, 7 ≤ k ∧ vetBand a = 5 * k :=
  ⟨(a / 5).toNat, by omega, by unfold vetBand; omega⟩

theorem tfOfAges_wf (a8 a12 aD : Int) (v u : Bool) : WellFormed (tfOfAges a8 a12 aD v u) := by
  unfold tfOfAges WellFormed
  (repeat' split) <;> simp
  obtain ⟨k, hk, e⟩ := vetBand_wf aD (by omega)
  exact ⟨k, hk, e⟩

theorem xcOfAges_wf (a8 aD : Int) (v u : Bool) : WellFormed (xcOfAges a8 aD v u) := by
  unfold xcOfAges WellFormed
  (repeat' split) <;> simp
  obtain ⟨k, hk, e⟩ := vetBand_wf aD (by omega)
  exact ⟨k, hk, e⟩

/-- For the three implemented categories the function is defined for every pair of dates (valid or
    not, any years) and returns one of the labels. -/
theorem C13_total (cat : String) (hc : cat = "TF" ∨ cat = "XC" ∨ cat = "ROAD") (b md : Date) (vets underage : Bool) :
    ∃ g, calcGroup cat b md vets underage = .ok g ∧ WellFormed g := by
  rcases hc with h | h | h <;> subst h
  · exact ⟨_, rfl, tfOfAges_wf _ _ _ _ _⟩
  · exact ⟨_, rfl, xcOfAges_wf _ _ _ _⟩
  · exact ⟨_, rfl, xcOfAges_wf _ _ _ _⟩

/-- the other two documented outcomes -/
theorem C13_other_categories (cat : String) (b md : Date) (vets underage : Bool)
    (hc : cat ≠ "TF" ∧ cat ≠ "XC" ∧ cat ≠ "ROAD") :
    calcGroup cat b md vets underage = (if cat = "ESAA" then .notImplemented else .valueError) := by
  unfold calcGroup
  rw [if_neg hc.1, if_neg (by intro h; rcases h with h | h; exact hc.2.2 h; exact hc.2.1 h)]

/-! ## an earlier birth date never gives a younger group -/

theorem C13_mono_birth_tf (b1 b2 md : Date) (vets underage : Bool) (h1 : b1.valid) (h2 : b2.valid)
    (h : b1.le b2) : (tf b2 md vets underage).rank ≤ (tf b1 md vets underage).rank := by
  unfold tf
  rw [tfOfAges_rank, tfOfAges_rank]
  exact tfRank_mono _ _ _ _ _ _ vets underage (completedYears_mono_birth b1 b2 _ h1 h2 h)
    (completedYears_mono_birth b1 b2 _ h1 h2 h) (completedYears_mono_birth b1 b2 _ h1 h2 h)

theorem C13_mono_birth_xc (b1 b2 md : Date) (vets underage : Bool) (h1 : b1.valid) (h2 : b2.valid)
    (hm : md.valid) (h : b1.le b2) : (xc b2 md vets underage).rank ≤ (xc b1 md vets underage).rank := by
  unfold xc
  rw [xcOfAges_rank _ _ _ _ (xc_else_only_seniors b1 md h1 hm),
    xcOfAges_rank _ _ _ _ (xc_else_only_seniors b2 md h2 hm)]
  exact xcRank_mono _ _ _ _ vets underage (completedYears_mono_birth b1 b2 _ h1 h2 h)
    (completedYears_mono_birth b1 b2 _ h1 h2 h)

/-- rank of a result (errors do not occur for the three categories, see `C13_total`) -/
def resRank : Res → Nat
  | .ok g => g.rank | _ => 0

/-- In the order U9 < U11 < U13 < U15 < U17 < U20 < SEN < V35 < V40 < …, for every category. -/
theorem C13_mono_birth (cat : String) (b1 b2 md : Date) (vets underage : Bool)
    (h1 : b1.valid) (h2 : b2.valid) (hm : md.valid) (h : b1.le b2) :
    resRank (calcGroup cat b2 md vets underage) ≤ resRank (calcGroup cat b1 md vets underage) := by
  unfold calcGroup
  split
  · exact C13_mono_birth_tf b1 b2 md vets underage h1 h2 h
  · split
    · exact C13_mono_birth_xc b1 b2 md vets underage h1 h2 hm h
    · split <;> exact Nat.le_refl _

/-! ## the options -/

/-- masters collapsed into seniors -/
def noMasters : Group → Group
  | .vet _ => .sen | g => g
/-- under-9s collapsed into under-11s -/
def noU9 : Group → Group
  | .u9 => .u11 | g => g

theorem tfOfAges_vets (a8 a12 aD : Int) (u : Bool) :
    tfOfAges a8 a12 aD false u = noMasters (tfOfAges a8 a12 aD true u) := by
  unfold tfOfAges
  simp only [Bool.false_eq_true, ↓reduceIte]
  (repeat' split) <;> first | rfl | contradiction
theorem xcOfAges_vets (a8 aD : Int) (u : Bool) :
    xcOfAges a8 aD false u = noMasters (xcOfAges a8 aD true u) := by
  unfold xcOfAges
  simp only [Bool.false_eq_true, ↓reduceIte]
  (repeat' split) <;> first | rfl | contradiction
theorem tfOfAges_underage (a8 a12 aD : Int) (v : Bool) :
    tfOfAges a8 a12 aD v false = noU9 (tfOfAges a8 a12 aD v true) := by
  unfold tfOfAges
  simp only [Bool.false_eq_true, false_and, true_and, if_false]
  by_cases h : a8 < 9
  · rw [if_pos h, if_pos (by omega)]; rfl
  · rw [if_neg h]; (repeat' split) <;> first | rfl | contradiction
theorem xcOfAges_underage (a8 aD : Int) (v : Bool) :
    xcOfAges a8 aD v false = noU9 (xcOfAges a8 aD v true) := by
  unfold xcOfAges
  simp only [Bool.false_eq_true, false_and, true_and, if_false]
  by_cases h : aD < 9
  · rw [if_pos h, if_pos (by omega)]; rfl
  · rw [if_neg h]; (repeat' split) <;> first | rfl | contradiction

/-- `vets=False` gives exactly the `vets=True` answer with every masters band replaced by SEN:
    the option changes masters outcomes only (all dates, valid or not). -/
theorem C13_vets_only_masters (b md : Date) (underage : Bool) :
    tf b md false underage = noMasters (tf b md true underage) ∧
    xc b md false underage = noMasters (xc b md true underage) :=
  ⟨tfOfAges_vets _ _ _ _, xcOfAges_vets _ _ _⟩

/-- `underage=False` gives exactly the `underage=True` answer with U9 replaced by U11. -/
theorem C13_underage_only_u11 (b md : Date) (vets : Bool) :
    tf b md vets false = noU9 (tf b md vets true) ∧
    xc b md vets false = noU9 (xc b md vets true) :=
  ⟨tfOfAges_underage _ _ _ _, xcOfAges_underage _ _ _⟩

/-- masters bands appear only with `vets`, U9 only with `underage` -/
theorem C13_options_needed (b md : Date) (vets underage : Bool) :
    (∀ n, (tf b md vets underage = .vet n ∨ xc b md vets underage = .vet n) → vets = true) ∧
    ((tf b md vets underage = .u9 ∨ xc b md vets underage = .u9) → underage = true) := by
  have hv := C13_vets_only_masters b md underage
  have hu := C13_underage_only_u11 b md vets
  constructor
  · intro n h
    cases vets with
    | true => rfl
    | false =>
      rcases h with h | h
      · rw [hv.1] at h; revert h; cases tf b md true underage <;> simp [noMasters]
      · rw [hv.2] at h; revert h; cases xc b md true underage <;> simp [noMasters]
  · intro h
    cases underage with
    | true => rfl
    | false =>
      rcases h with h | h
      · rw [hu.1] at h; revert h; cases tf b md vets true <;> simp [noU9]
      · rw [hu.2] at h; revert h; cases xc b md vets true <;> simp [noU9]

/-- ROAD and XC are the same function. -/
theorem C13_road_eq_xc (b md : Date) (vets underage : Bool) :
    calcGroup "ROAD" b md vets underage = calcGroup "XC" b md vets underage := rfl

theorem calc_tf (b md : Date) (v u : Bool) : calcGroup "TF" b md v u = .ok (tf b md v u) := rfl
theorem calc_xc (b md : Date) (v u : Bool) : calcGroup "XC" b md v u = .ok (xc b md v u) := rfl

/-! ## the whole property -/

def C13_statement : Prop :=
  (∀ (b md : Date) (v u : Bool), b.valid → md.valid → md.m ≤ 9 →
      calcGroup "TF" b md v u = .ok (Spec.rule107 b md v u)) ∧
  (∀ (b md : Date) (v u : Bool), b.valid → md.valid →
      calcGroup "XC" b md v u = .ok (Spec.rule507 b md v u)) ∧
  (∀ (cat : String), cat = "TF" ∨ cat = "XC" ∨ cat = "ROAD" → ∀ (b md : Date) (v u : Bool),
      ∃ g, calcGroup cat b md v u = .ok g ∧ WellFormed g) ∧
  (∀ (cat : String) (b1 b2 md : Date) (v u : Bool), b1.valid → b2.valid → md.valid → b1.le b2 →
      resRank (calcGroup cat b2 md v u) ≤ resRank (calcGroup cat b1 md v u)) ∧
  (∀ (b md : Date) (u : Bool), tf b md false u = noMasters (tf b md true u) ∧
      xc b md false u = noMasters (xc b md true u)) ∧
  (∀ (b md : Date) (v : Bool), tf b md v false = noU9 (tf b md v true) ∧
      xc b md v false = noU9 (xc b md v true)) ∧
  (∀ (b md : Date) (v u : Bool), calcGroup "ROAD" b md v u = calcGroup "XC" b md v u)

theorem C13 : C13_statement :=
  ⟨fun b md v u hb hm h => by rw [calc_tf, C13_tf_rule b md v u hb hm h],
   fun b md v u hb hm => by rw [calc_xc, C13_xc_rule b md v u hb hm],
   fun cat hc b md v u => C13_total cat hc b md v u,
   fun cat b1 b2 md v u h1 h2 hm h => C13_mono_birth cat b1 b2 md v u h1 h2 hm h,
   fun b md u => C13_vets_only_masters b md u,
   fun b md v => C13_underage_only_u11 b md v,
   fun b md v u => C13_road_eq_xc b md v u⟩

/-! ## non-vacuity and the boundary days, evaluated by the kernel -/

example : (⟨2000, 2, 29⟩ : Date).valid ∧ ¬ (⟨1900, 2, 29⟩ : Date).valid ∧ (⟨2015, 8, 31⟩ : Date).valid := by decide
/-- born 29 Feb 2000: 15 on 28 Feb 2015 (dateutil's convention), still 14 on 27 Feb -/
example : completedYears ⟨2000, 2, 29⟩ ⟨2015, 2, 28⟩ = 15 ∧ completedYears ⟨2000, 2, 29⟩ ⟨2015, 2, 27⟩ = 14 ∧
    completedYears ⟨2000, 2, 29⟩ ⟨2016, 2, 28⟩ = 15 ∧ completedYears ⟨2000, 2, 29⟩ ⟨2016, 2, 29⟩ = 16 := by decide
/-- born after the reference date: truncated toward zero (the floor would be −1 and −2) -/
example : completedYears ⟨2016, 3, 1⟩ ⟨2015, 8, 31⟩ = 0 ∧ completedYears ⟨2016, 9, 1⟩ ⟨2015, 8, 31⟩ = -1 ∧
    Spec.ageOn ⟨2016, 3, 1⟩ ⟨2015, 8, 31⟩ = -1 ∧ Spec.ageOn ⟨2016, 9, 1⟩ ⟨2015, 8, 31⟩ = -2 := by decide
/-- the 31 August / 1 September cut-off, track and field -/
example : tf ⟨2001, 8, 31⟩ ⟨2015, 2, 14⟩ true false = .u15 ∧ tf ⟨2001, 9, 1⟩ ⟨2015, 2, 14⟩ true false = .u15 ∧
    tf ⟨2000, 8, 31⟩ ⟨2015, 2, 14⟩ true false = .u17 ∧ tf ⟨2000, 9, 1⟩ ⟨2015, 2, 14⟩ true false = .u15 ∧
    tf ⟨1995, 12, 31⟩ ⟨2015, 2, 14⟩ true false = .sen ∧ tf ⟨1996, 1, 1⟩ ⟨2015, 2, 14⟩ true false = .u20 ∧
    tf ⟨1980, 2, 14⟩ ⟨2015, 2, 14⟩ true false = .vet 35 ∧ tf ⟨1980, 2, 15⟩ ⟨2015, 2, 14⟩ true false = .sen ∧
    tf ⟨1980, 2, 14⟩ ⟨2015, 2, 14⟩ false false = .sen ∧ tf ⟨2007, 1, 1⟩ ⟨2015, 2, 14⟩ true true = .u9 := by decide
/-- cross country: two actual cases from the repository's tests, and the masters / U13 edges -/
example : xc ⟨1994, 9, 29⟩ ⟨2015, 1, 3⟩ true true = .u20 ∧ xc ⟨1997, 9, 1⟩ ⟨2015, 1, 3⟩ true true = .u17 ∧
    xc ⟨1966, 3, 21⟩ ⟨2015, 1, 3⟩ true true = .vet 45 ∧ xc ⟨2004, 1, 3⟩ ⟨2015, 1, 3⟩ true true = .u13 ∧
    xc ⟨2004, 1, 4⟩ ⟨2015, 1, 3⟩ true true = .u11 := by decide

/-- October–December, track and field: the module's 31 August (calendar year of the meeting) and the
    rule's (within the competition year, i.e. next calendar year) give different groups -/
theorem tf_oct_dec_reading :
    tf ⟨2000, 9, 1⟩ ⟨2015, 10, 15⟩ true false = .u15 ∧ Spec.rule107 ⟨2000, 9, 1⟩ ⟨2015, 10, 15⟩ true false = .u17 := by
  decide
/-- a road race held on 31 August itself: the module ages the athlete on that very day, Rule 207 to
    the letter on the 31 August of the year before -/
theorem road_31aug_reading :
    xc ⟨2002, 8, 31⟩ ⟨2015, 8, 31⟩ true true = .u15 ∧ Spec.rule207Literal ⟨2002, 8, 31⟩ ⟨2015, 8, 31⟩ true true = .u13 := by
  decide
/-- a cross-country race in September: the module applies the road cut-off -/
theorem xc_september_reading :
    xc ⟨2002, 8, 31⟩ ⟨2015, 9, 20⟩ true true = .u15 ∧ Spec.rule507Literal ⟨2002, 8, 31⟩ ⟨2015, 9, 20⟩ true true = .u13 := by
  decide

end AthlibVerif.Props.C13
