import Mathlib.Data.Rat.Floor
import Mathlib.Tactic.FieldSimp
import AthlibVerif.Lemmas.Junior
import AthlibVerif.Oblig.C11.Tables
import AthlibVerif.Oblig.C11.Keys
import AthlibVerif.Oblig.C11.Reach
/-!
# C11 — Table-based junior scoring reproduces the published tables exactly

The models of `Model/Junior.lean` compute in integers on the mark in hundredths.  Here each is shown to be
the exact-arithmetic (ℚ) evaluation of the published linear formula or table reading, for ALL parameters and
marks; the `1e-8` / `1e-6` fuzz terms of the code cannot cross an integer for the regenerated multipliers; and
the regenerated tables are ordered, keyed by valid event codes and reachable row by row (kernel-evaluated
obligations in `Oblig/C11`).  That the Python functions equal these models on every grid mark and input form
is the correspondence (`tools/checks/c11.py`): floats never enter a model.
-/
namespace AthlibVerif.Props.C11
open AthlibVerif AthlibVerif.Junior

/-- `floorNat n d` is `max 0 ⌊n / d⌋` in exact rational arithmetic -/
theorem floorNat_eq (n : Int) (d : Nat) : (floorNat n d : Int) = max 0 ⌊(n : ℚ) / (d : ℚ)⌋ := by
  unfold floorNat
  rw [Rat.floor_intCast_div_natCast, Int.toNat_eq_max, max_comm]

/-- the unit of a race: one multiplier per 0.01 s up to 500 m, per 0.1 s beyond -/
def raceUnit (dist : Nat) : ℚ := if dist ≤ 500 then 1 / 100 else 1 / 10

/-- **Tyrving, races and jumps.**  With multiplier `m = mN / S`, base performance `b = B / 100` and mark
    `v = k / 100` (plus the hand-timing increment by distance):
    race points are `max 0 ⌊1000 + (b − v) · m / unit⌋`, jump points `max 0 ⌊1000 + m · (v − b) · 100⌋`. -/
theorem C11_tyrving_formula (S dist mN B k : Nat) (manual : Bool) (hS : 0 < S) :
    (Tyrving.race S dist mN B k manual : Int) =
      max 0 ⌊(1000 : ℚ) + ((B : ℚ) / 100 - ((k : ℚ) + (if manual then (Tyrving.manualInc dist : ℚ) else 0)) / 100)
        * (((mN : ℚ) / S) / raceUnit dist)⌋ ∧
    (Tyrving.jump S mN B k : Int) = max 0 ⌊(1000 : ℚ) + ((mN : ℚ) / S) * ((k : ℚ) / 100 - (B : ℚ) / 100) * 100⌋ := by
  have hS' : (S : ℚ) ≠ 0 := by exact_mod_cast hS.ne'
  constructor
  · unfold Tyrving.race
    rw [floorNat_eq]
    congr 2
    unfold raceUnit Tyrving.raceDiv
    cases manual <;> by_cases hd : dist ≤ 500 <;> simp only [hd, if_true, if_false, Bool.false_eq_true] <;>
      push_cast <;> field_simp <;> ring
  · unfold Tyrving.jump
    rw [floorNat_eq]
    congr 2
    push_cast; field_simp

/-- **Tyrving, pole vault and throws.**  `d₀ = 100 (v − L₀)`, `d₁ = 100 (v − L₁)`:
    `1000 + d₀ m₀` at or above the first level, `1000 + d₀ m₁` between the levels, `P₂ + d₁ m₂` at or below the second -/
theorem C11_tyrving_stav_formula (S m0 m1 m2 L0 L1 P2 k : Nat) (hS : 0 < S) :
    (Tyrving.stav S m0 m1 m2 L0 L1 P2 k : Int) =
      max 0 ⌊(if (L0 : ℚ) / 100 ≤ (k : ℚ) / 100 then (1000 : ℚ) + 100 * ((k : ℚ) / 100 - (L0 : ℚ) / 100) * ((m0 : ℚ) / S)
              else if (L1 : ℚ) / 100 < (k : ℚ) / 100 then 1000 + 100 * ((k : ℚ) / 100 - (L0 : ℚ) / 100) * ((m1 : ℚ) / S)
              else (P2 : ℚ) + 100 * ((k : ℚ) / 100 - (L1 : ℚ) / 100) * ((m2 : ℚ) / S))⌋ := by
  have hS' : (S : ℚ) ≠ 0 := by exact_mod_cast hS.ne'
  unfold Tyrving.stav
  simp only
  have e0 : ((L0 : ℚ) / 100 ≤ (k : ℚ) / 100) ↔ (0 : Int) ≤ (k : Int) - L0 := by
    rw [div_le_div_iff_of_pos_right (by norm_num : (0 : ℚ) < 100)]
    constructor <;> intro h
    · have : (L0 : Int) ≤ k := by exact_mod_cast h
      omega
    · have : (L0 : Int) ≤ k := by omega
      exact_mod_cast this
  have e1 : ((L1 : ℚ) / 100 < (k : ℚ) / 100) ↔ (0 : Int) < (k : Int) - L1 := by
    rw [div_lt_div_iff_of_pos_right (by norm_num : (0 : ℚ) < 100)]
    constructor <;> intro h
    · have : (L1 : Int) < k := by exact_mod_cast h
      omega
    · have : (L1 : Int) < k := by omega
      exact_mod_cast this
  by_cases h0 : (0 : Int) ≤ (k : Int) - L0
  · rw [if_pos h0, if_pos (e0.2 h0), floorNat_eq]
    congr 2; push_cast; field_simp
  · rw [if_neg h0, if_neg (fun h => h0 (e0.1 h))]
    by_cases h1 : (0 : Int) < (k : Int) - L1
    · rw [if_pos h1, if_pos (e1.2 h1), floorNat_eq]
      congr 2; push_cast; field_simp
    · rw [if_neg h1, if_neg (fun h => h1 (e1.1 h)), floorNat_eq]
      congr 2; push_cast; field_simp

/-- **QuadKids.**  `⌊δ / increment + 10⌋` clamped to 10…100, where `δ` is how much the mark beats the 10-point
    mark and the increment is `incN / incD` hundredths -/
theorem C11_qkids_formula (incN incD base k : Nat) (run : Bool) (hN : 0 < incN) (hD : 0 < incD) :
    Qkids.raw incN incD run base k =
      ⌊((if run then (base : ℚ) - k else (k : ℚ) - base) / 100) / (((incN : ℚ) / incD) / 100) + 10⌋ ∧
    (Qkids.points incN incD run base k : Int) = max 10 (min (Qkids.raw incN incD run base k) 100) := by
  have hN' : (incN : ℚ) ≠ 0 := by exact_mod_cast hN.ne'
  have hD' : (incD : ℚ) ≠ 0 := by exact_mod_cast hD.ne'
  constructor
  · unfold Qkids.raw
    simp only
    have : ∀ δ : Int, (δ : ℚ) / 100 / ((incN : ℚ) / incD / 100) + 10 = ((δ * incD : Int) : ℚ) / (incN : ℚ) + ((10 : Int) : ℚ) := by
      intro δ; push_cast; field_simp
    cases run
    · simp only [Bool.false_eq_true, if_false]
      have h := this ((k : Int) - base)
      push_cast at h ⊢
      rw [h]
      have := Rat.floor_intCast_div_natCast (((k : Int) - base) * incD) incN
      push_cast at this
      rw [show ((k : ℚ) - base) * incD / incN + 10 = ((k : ℚ) - base) * incD / incN + ((10 : Int) : ℚ) by norm_num,
        Int.floor_add_intCast, this]
    · simp only [if_true]
      have h := this ((base : Int) - k)
      push_cast at h ⊢
      rw [h]
      have := Rat.floor_intCast_div_natCast (((base : Int) - k) * incD) incN
      push_cast at this
      rw [show ((base : ℚ) - k) * incD / incN + 10 = ((base : ℚ) - k) * incD / incN + ((10 : Int) : ℚ) by norm_num,
        Int.floor_add_intCast, this]
  · unfold Qkids.points
    omega

/-- **Sportshall, inside the table** (`lookup_spec`): the result is the points of a row the mark reaches (or 0
    when it reaches none), and no row the mark reaches carries more points — the greatest row reached. -/
theorem C11_sportshall_spec (high : Bool) (rows : List (Nat × Nat)) (k : Nat) :
    (∀ r ∈ rows, Sportshall.reach high r.2 k = true → r.1 ≤ Sportshall.lookupBest high rows k) ∧
    ((Sportshall.lookupBest high rows k = 0 ∧ ∀ r ∈ rows, Sportshall.reach high r.2 k = true → r.1 = 0) ∨
      ∃ r ∈ rows, Sportshall.reach high r.2 k = true ∧ r.1 = Sportshall.lookupBest high rows k) :=
  ⟨fun r hr hk => Sportshall.lookupBest_ge high rows k r hr hk, Sportshall.lookupBest_mem high rows k⟩

/-- **Sportshall, beyond the table**: the best row's points plus `incPts` for every whole increment contained
    in the excess (`s` whole increments: `s · inc ≤ excess < (s+1) · inc`, `inc = incN/incD` hundredths) -/
theorem C11_sportshall_beyond (e : ShEvent) (k maxP maxT : Nat) (hl : e.rows.getLast? = some (maxP, maxT))
    (hb : if e.high then maxT < k else k < maxT) (hN : 0 < e.incN) :
    ∃ s, Sportshall.points e k = maxP + s * e.incPts ∧
      s * e.incN ≤ (if e.high then k - maxT else maxT - k) * e.incD ∧
      (if e.high then k - maxT else maxT - k) * e.incD < (s + 1) * e.incN := by
  unfold Sportshall.points
  rw [hl]
  simp only
  have hsteps : ∀ x, Sportshall.steps e.incN e.incD x * e.incN ≤ x * e.incD ∧
      x * e.incD < (Sportshall.steps e.incN e.incD x + 1) * e.incN := by
    intro x
    unfold Sportshall.steps
    rw [if_neg (by omega)]
    refine ⟨Nat.div_mul_le_self _ _, ?_⟩
    have := Nat.lt_mul_div_succ (x * e.incD) hN
    rw [Nat.mul_comm e.incN] at this; exact this
  cases hh : e.high <;> rw [hh] at hb <;> simp only [Bool.false_eq_true, if_false, if_true] at hb ⊢ <;> rw [if_pos hb]
  · exact ⟨_, rfl, hsteps _⟩
  · exact ⟨_, rfl, hsteps _⟩

/-- a row is returned for its own threshold as soon as no row reached there carries more points -/
theorem C11_sportshall_row_reachable (high : Bool) (rows : List (Nat × Nat)) (r : Nat × Nat) (hr : r ∈ rows)
    (hno : ∀ r' ∈ rows, Sportshall.reach high r'.2 r.2 = true → r'.1 ≤ r.1) :
    Sportshall.lookupBest high rows r.2 = r.1 := by
  have hself : Sportshall.reach high r.2 r.2 = true := by unfold Sportshall.reach; cases high <;> simp
  have h1 := Sportshall.lookupBest_ge high rows r.2 r hr hself
  rcases Sportshall.lookupBest_mem high rows r.2 with ⟨h0, _⟩ | ⟨r', hr', hk', hp⟩
  · omega
  · have := hno r' hr' hk'; omega

/-- **Bulgarian.**  Worse than `min`: 0; better than `max`: 150; otherwise the points of the run containing
    the mark — and in a table that passed the chain check every mark of every run is answered by that run. -/
theorem C11_bulgarian_spec (t : BgTable) (k : Nat) :
    ((if t.timed then t.minV < k else k < t.minV) → Bulgarian.points t k = some 0) ∧
    (¬ (if t.timed then t.minV < k else k < t.minV) → (if t.timed then k < t.maxV else t.maxV < k) →
        Bulgarian.points t k = some 150) ∧
    (¬ (if t.timed then t.minV < k else k < t.minV) → ¬ (if t.timed then k < t.maxV else t.maxV < k) →
        (∀ p, Bulgarian.points t k = some p → ∃ r ∈ t.runs, r.1 ≤ k ∧ k ≤ r.2.1 ∧ r.2.2 = p) ∧
        (Bulgarian.chainB t.timed t.runs = true → ∀ r ∈ t.runs, r.1 ≤ k → k ≤ r.2.1 → Bulgarian.points t k = some r.2.2)) := by
  unfold Bulgarian.points
  cases t.timed <;> simp only [Bool.false_eq_true, if_false, if_true]
  all_goals
    refine ⟨fun h => by rw [if_pos h], fun h h' => by rw [if_neg h, if_pos h'], fun h h' => ?_⟩
    rw [if_neg h, if_neg h']
    refine ⟨fun p hp => ?_, fun hc r hr h1 h2 => ?_⟩
    · obtain ⟨r, hr, hk, hpts⟩ := Bulgarian.lookup_some _ _ _ hp
      simp only [Bulgarian.inRun, Bool.and_eq_true, decide_eq_true_eq] at hk
      exact ⟨r, hr, hk.1, hk.2, hpts⟩
    · obtain ⟨ho, hlo⟩ := Bulgarian.ordered_of_chainB _ _ hc
      exact Bulgarian.lookup_of_mem _ _ k r ho hr (by simp [Bulgarian.inRun, h1, h2]) hlo

/-- **Fuzz is harmless.**  On a grid whose exact values have denominator `d`, adding any `0 ≤ ε < 1/d` before
    taking the floor changes nothing: the fractional part of `n/d` is at most `1 − 1/d`. -/
theorem C11_fuzz_harmless (n : Int) (d : Nat) (ε : ℚ) (hd : 0 < d) (h0 : 0 ≤ ε) (h1 : ε < 1 / (d : ℚ)) :
    ⌊(n : ℚ) / (d : ℚ) + ε⌋ = ⌊(n : ℚ) / (d : ℚ)⌋ := by
  have hdq : (0 : ℚ) < d := by exact_mod_cast hd
  rw [Rat.floor_intCast_div_natCast, Int.floor_eq_iff]
  have hdiv : (d : Int) * (n / (d : Int)) + n % (d : Int) = n := Int.mul_ediv_add_emod n d
  have hmod : n % (d : Int) ≤ (d : Int) - 1 := by
    have := Int.emod_lt_of_pos n (by exact_mod_cast hd : (0 : Int) < d)
    omega
  have hmod0 : 0 ≤ n % (d : Int) := Int.emod_nonneg n (by exact_mod_cast hd.ne')
  have hq : (n : ℚ) = (d : ℚ) * ((n / (d : Int) : Int) : ℚ) + ((n % (d : Int) : Int) : ℚ) := by exact_mod_cast hdiv.symm
  have hm1 : ((n % (d : Int) : Int) : ℚ) ≤ (d : ℚ) - 1 := by exact_mod_cast hmod
  have hm0 : (0 : ℚ) ≤ ((n % (d : Int) : Int) : ℚ) := by exact_mod_cast hmod0
  have hx : (n : ℚ) / d = ((n / (d : Int) : Int) : ℚ) + ((n % (d : Int) : Int) : ℚ) / d := by
    rw [add_div' _ _ _ hdq.ne']; congr 1; rw [mul_comm]; exact hq
  have hfrac0 : (0 : ℚ) ≤ ((n % (d : Int) : Int) : ℚ) / d := div_nonneg hm0 hdq.le
  have hfrac1 : ((n % (d : Int) : Int) : ℚ) / d ≤ 1 - 1 / (d : ℚ) := by
    rw [div_le_iff₀ hdq]; field_simp; linarith
  constructor
  · rw [hx]; linarith
  · rw [hx]; linarith

/-- Tyrving's `1e-8`: every exact value has denominator `S · 1` or `S · 10`, far below `10⁸` -/
theorem C11_tyrving_fuzz (n : Int) (dist : Nat) :
    ⌊(n : ℚ) / ((Gen.tyrvingScale * Tyrving.raceDiv dist : Nat) : ℚ) + 1 / 10 ^ 8⌋ =
      ⌊(n : ℚ) / ((Gen.tyrvingScale * Tyrving.raceDiv dist : Nat) : ℚ)⌋ := by
  have hS : 0 < Gen.tyrvingScale ∧ Gen.tyrvingScale * 10 < 10 ^ 8 := by decide +kernel
  have hdv : 0 < Tyrving.raceDiv dist ∧ Tyrving.raceDiv dist ≤ 10 := by unfold Tyrving.raceDiv; split <;> omega
  have hpos : 0 < Gen.tyrvingScale * Tyrving.raceDiv dist := Nat.mul_pos hS.1 hdv.1
  have hlt : Gen.tyrvingScale * Tyrving.raceDiv dist < 10 ^ 8 :=
    Nat.lt_of_le_of_lt (Nat.mul_le_mul_left _ hdv.2) hS.2
  apply C11_fuzz_harmless n _ _ hpos (by positivity)
  have hq : ((Gen.tyrvingScale * Tyrving.raceDiv dist : Nat) : ℚ) < 10 ^ 8 := by exact_mod_cast hlt
  have hp : (0 : ℚ) < ((Gen.tyrvingScale * Tyrving.raceDiv dist : Nat) : ℚ) := by exact_mod_cast hpos
  exact one_div_lt_one_div_of_lt hp hq

/-- QuadKids' `1e-6`: every exact value `δ·incD / incN + 10` has denominator `incN < 10⁶` -/
theorem C11_qkids_fuzz (r : QkRow) (hr : r ∈ Gen.qkidsTables) (n : Int) :
    ⌊(n : ℚ) / (r.incN : ℚ) + 1 / 10 ^ 6⌋ = ⌊(n : ℚ) / (r.incN : ℚ)⌋ := by
  have hall : Gen.qkidsTables.all (fun r => decide (0 < r.incN) && decide (r.incN < 10 ^ 6)) = true := by decide +kernel
  have := List.all_eq_true.1 hall r hr
  simp only [Bool.and_eq_true, decide_eq_true_eq] at this
  apply C11_fuzz_harmless n _ _ this.1 (by positivity)
  have hq : (r.incN : ℚ) < 10 ^ 6 := by exact_mod_cast this.2
  have hp : (0 : ℚ) < (r.incN : ℚ) := by exact_mod_cast this.1
  exact one_div_lt_one_div_of_lt hp hq

/-- every regenerated table is well formed and ordered: better marks, more points -/
theorem C11_tables_ordered :
    (decide (0 < Gen.tyrvingScale) && Gen.tyrvingTables.all Oblig.C11.tyRowOK) = true ∧
    (Gen.qkidsTables.all Oblig.C11.qkRowOK = true ∧ Gen.qkidsTables.all Oblig.C11.qkConsistent = true) ∧
    Gen.sportshallTables.all Oblig.C11.shEventOK = true ∧
    Gen.bulgarianTables.all Oblig.C11.bgTableOK = true :=
  ⟨Oblig.C11.tyrving_tables_ok, ⟨Oblig.C11.qkids_tables_ok, Oblig.C11.qkids_tables_consistent⟩,
   Oblig.C11.sportshall_tables_ok, Oblig.C11.bulgarian_tables_ok⟩

/-- every table key is accepted by the regenerated `PAT_EVENT_CODE` -/
theorem C11_keys_valid : Oblig.C11.allKeys.all Oblig.C11.validCode = true := Oblig.C11.keys_valid

/-- every row can be returned: Sportshall rows at their own threshold (the duplicated 800 m thresholds being the
    recorded finding), every tabulated Tyrving (row, age) yields points; Bulgarian runs by `C11_bulgarian_spec` -/
theorem C11_rows_reachable :
    Gen.sportshallTables.all (fun e => e.rows.all (Oblig.C11.shRowReachable e)) = true ∧
    Gen.tyrvingTables.all Oblig.C11.tyAgesReach = true :=
  ⟨Oblig.C11.sportshall_rows_reachable, Oblig.C11.tyrving_rows_reachable⟩

/-- the property, clause by clause, about the models over the regenerated tables -/
def C11_statement : Prop :=
  -- Tyrving: the linear and three-piece formulas, exactly
  (∀ S dist mN B k manual, 0 < S →
    (Tyrving.race S dist mN B k manual : Int) =
      max 0 ⌊(1000 : ℚ) + ((B : ℚ) / 100 - ((k : ℚ) + (if manual then (Tyrving.manualInc dist : ℚ) else 0)) / 100)
        * (((mN : ℚ) / S) / raceUnit dist)⌋ ∧
    (Tyrving.jump S mN B k : Int) = max 0 ⌊(1000 : ℚ) + ((mN : ℚ) / S) * ((k : ℚ) / 100 - (B : ℚ) / 100) * 100⌋) ∧
  -- QuadKids: the linear formula, clamped
  (∀ incN incD base k run, 0 < incN → 0 < incD →
    Qkids.raw incN incD run base k =
      ⌊((if run then (base : ℚ) - k else (k : ℚ) - base) / 100) / (((incN : ℚ) / incD) / 100) + 10⌋ ∧
    (Qkids.points incN incD run base k : Int) = max 10 (min (Qkids.raw incN incD run base k) 100)) ∧
  -- Sportshall: greatest row reached
  (∀ high rows k,
    (∀ r ∈ rows, Sportshall.reach high r.2 k = true → r.1 ≤ Sportshall.lookupBest high rows k) ∧
    ((Sportshall.lookupBest high rows k = 0 ∧ ∀ r ∈ rows, Sportshall.reach high r.2 k = true → r.1 = 0) ∨
      ∃ r ∈ rows, Sportshall.reach high r.2 k = true ∧ r.1 = Sportshall.lookupBest high rows k)) ∧
  -- tables ordered, keys valid, rows reachable (regenerated data)
  ((decide (0 < Gen.tyrvingScale) && Gen.tyrvingTables.all Oblig.C11.tyRowOK) = true ∧
    (Gen.qkidsTables.all Oblig.C11.qkRowOK = true ∧ Gen.qkidsTables.all Oblig.C11.qkConsistent = true) ∧
    Gen.sportshallTables.all Oblig.C11.shEventOK = true ∧
    Gen.bulgarianTables.all Oblig.C11.bgTableOK = true) ∧
  Oblig.C11.allKeys.all Oblig.C11.validCode = true ∧
  (Gen.sportshallTables.all (fun e => e.rows.all (Oblig.C11.shRowReachable e)) = true ∧
    Gen.tyrvingTables.all Oblig.C11.tyAgesReach = true)

set_option linter.dupNamespace false in
theorem C11 : C11_statement :=
  ⟨fun S dist mN B k manual hS => C11_tyrving_formula S dist mN B k manual hS,
   fun incN incD base k run hN hD => C11_qkids_formula incN incD base k run hN hD,
   fun high rows k => C11_sportshall_spec high rows k,
   C11_tables_ordered, C11_keys_valid, C11_rows_reachable⟩

/-! ### non-vacuity / examples on the regenerated tables (kernel-evaluated) -/
example : Tyrving.score Gen.tyrvingScale Gen.tyrvingTables "F" 15 "100" 1324 false = .pts 945 := by decide +kernel
example : Tyrving.score Gen.tyrvingScale Gen.tyrvingTables "F" 15 "100" 1300 true = .pts 945 := by decide +kernel
example : Tyrving.score Gen.tyrvingScale Gen.tyrvingTables "M" 12 "PV" 250 false = .pts 965 := by decide +kernel
example : Qkids.score Gen.qkidsTables Gen.qkidsTypeMap "QuadKids Start" "50" 1000 = .pts 30 := by decide +kernel
example : Sportshall.score Gen.sportshallTables "SLJ" 300 = .pts 90 := by decide +kernel
example : Bulgarian.score Gen.bulgarianTables "U16" "M" "60" 946 = .pts 35 := by decide +kernel

/-! ### the pinned defects, as kernel-checked facts about the pinned behaviour

`'0.' + perf` reads the vertical-jump row `4` (cm) as 0.4 m; the table then is not ordered: -/
example : Oblig.C11.shSorted true [(1, 40), (2, 60), (3, 70), (4, 80), (5, 90), (6, 10), (7, 11)] = false := by decide
/-- and with the pinned Bulgarian girls' 600 m band (98 points between 102 and 101) the chain check fails -/
example : Bulgarian.chainB true [(9801, 9830, 102), (9831, 9850, 98), (9851, 9860, 101)] = false := by decide

end AthlibVerif.Props.C11
